(* C01 - add_dia (merge walk, clean_dia, tidyup_dia) computes
   tidy(left + scale*right) on denotations; duplicates of an offset add up. *)
From Coq Require Import List ZArith Bool Arith Lia ZifyBool.
Import ListNotations.
From QV Require Import Model.C01 Proofs.C01 Proofs.C01_pred Proofs.C01_dia.

Section AddDia.
Variable C : Type.
Variables (c0 c1 : C) (cadd cmul : C -> C -> C).
Variable is0 : C -> bool.
Variable ceqb : C -> C -> bool.
Variable tidy : C -> C.
Hypothesis Hadd0r : forall x, cadd x c0 = x.
Hypothesis Hadd0l : forall x, cadd c0 x = x.
Hypothesis Haddc : forall x y, cadd x y = cadd y x.
Hypothesis Hadda : forall x y z, cadd x (cadd y z) = cadd (cadd x y) z.
Hypothesis Hmul0r : forall x, cmul x c0 = c0.
Hypothesis Hmul1l : forall x, cmul c1 x = x.
Hypothesis Hdistr : forall x y z, cmul x (cadd y z) = cadd (cmul x y) (cmul x z).
Hypothesis His0 : forall x, is0 x = true <-> x = c0.
Hypothesis Hceq : forall a b, ceqb a b = true <-> a = b.
Hypothesis Htidy0 : tidy c0 = c0.

Notation den_dia := (den_dia C c0).
Notation slot := (slot C c0).
Notation rows_len := (rows_len C).
Notation zsorted := (zsorted C).
Definition DL := list (Z * list C).

(* total stored at slot j of offset off: duplicates of an offset add up *)
Fixpoint dsumat (off : Z) (j : nat) (L : DL) : C :=
  match L with
  | [] => c0
  | d :: t => if (fst d =? off)%Z then cadd (nth j (snd d) c0) (dsumat off j t)
              else dsumat off j t
  end.

Lemma dsumat_cons : forall off j d (t : DL),
  dsumat off j (d :: t) = if (fst d =? off)%Z then cadd (nth j (snd d) c0) (dsumat off j t)
                          else dsumat off j t.
Proof. reflexivity. Qed.

Lemma shuffle : forall a b c d, cadd (cadd a b) (cadd c d) = cadd (cadd a c) (cadd b d).
Proof.
  intros. rewrite <- (Hadda a b (cadd c d)). rewrite (Hadda b c d). rewrite (Haddc b c).
  rewrite <- (Hadda c b d). rewrite (Hadda a c (cadd b d)). reflexivity.
Qed.

Lemma nth_axpy : forall s (l r : list C) n j, length l = n -> length r = n -> j < n ->
  nth j (axpy_row C cadd cmul s l r) c0 = cadd (nth j l c0) (cmul s (nth j r c0)).
Proof.
  intros s l r n j Hl Hr Hj. unfold axpy_row.
  rewrite (nth_map_combine C c0 (fun p => cadd (fst p) (cmul s (snd p)))) by lia. reflexivity.
Qed.

Lemma nth_scal : forall s (r : list C) j,
  nth j (scal_row C c1 cmul ceqb s r) c0 = cmul s (nth j r c0).
Proof.
  intros s r j. unfold scal_row. destruct (ceqb s c1) eqn:E.
  - apply Hceq in E. subst s. symmetry. apply Hmul1l.
  - apply (nth_map_default C c0). apply Hmul0r.
Qed.

Lemma len_axpy : forall s (l r : list C) n, length l = n -> length r = n ->
  length (axpy_row C cadd cmul s l r) = n.
Proof. intros. unfold axpy_row. rewrite map_length, combine_length. lia. Qed.

Lemma len_scal : forall s (r : list C), length (scal_row C c1 cmul ceqb s r) = length r.
Proof. intros. unfold scal_row. destruct (ceqb s c1); [reflexivity|apply map_length]. Qed.

Lemma dsumat_scaled : forall s off j (B : DL),
  dsumat off j (map (fun d => (fst d, scal_row C c1 cmul ceqb s (snd d))) B) =
  cmul s (dsumat off j B).
Proof.
  intros s off j. induction B as [|d t IH]; simpl; [symmetry; apply Hmul0r|].
  destruct (fst d =? off)%Z; [|exact IH]. rewrite IH, nth_scal, Hdistr. reflexivity.
Qed.

Lemma merge_dsumat : forall n s off j fuel (A B : DL),
  length A + length B <= fuel -> rows_len n A -> rows_len n B -> j < n ->
  dsumat off j (dia_merge C c1 cadd cmul ceqb fuel s A B) =
  cadd (dsumat off j A) (cmul s (dsumat off j B)).
Proof.
  intros n s off j. induction fuel as [|f IH]; intros A B Hf LA LB Hj.
  - destruct A; destruct B; simpl in Hf; try lia. simpl. rewrite Hmul0r. symmetry. apply Hadd0r.
  - destruct A as [|[oa da] ta]; destruct B as [|[ob db] tb].
    + simpl. rewrite Hmul0r. symmetry. apply Hadd0r.
    + assert (E : dia_merge C c1 cadd cmul ceqb (S f) s [] ((ob, db) :: tb) =
                  map (fun d => (fst d, scal_row C c1 cmul ceqb s (snd d))) ((ob, db) :: tb))
        by reflexivity.
      rewrite E. rewrite dsumat_scaled. change (dsumat off j []) with c0. apply (eq_sym (Hadd0l _)).
    + assert (E : dia_merge C c1 cadd cmul ceqb (S f) s ((oa, da) :: ta) [] = (oa, da) :: ta)
        by reflexivity.
      rewrite E. change (dsumat off j []) with c0. rewrite Hmul0r. apply (eq_sym (Hadd0r _)).
    + assert (LA' : rows_len n ta) by (intros e He; apply LA; right; exact He).
      assert (LB' : rows_len n tb) by (intros e He; apply LB; right; exact He).
      assert (Hda : length da = n) by (apply (LA (oa, da)); left; reflexivity).
      assert (Hdb : length db = n) by (apply (LB (ob, db)); left; reflexivity).
      simpl in Hf. simpl dia_merge.
      destruct (Z.eqb_spec oa ob) as [Eo|Eo].
      * subst ob.
        rewrite (dsumat_cons off j (oa, axpy_row C cadd cmul s da db)).
        rewrite (dsumat_cons off j (oa, da) ta), (dsumat_cons off j (oa, db) tb). cbn [fst snd].
        rewrite (IH ta tb) by (try assumption; lia).
        destruct (oa =? off)%Z; [|reflexivity].
        rewrite (nth_axpy s da db n j Hda Hdb Hj). rewrite Hdistr. apply shuffle.
      * destruct (Z.leb_spec oa ob) as [Hle|Hgt].
        -- rewrite (dsumat_cons off j (oa, da) (dia_merge C c1 cadd cmul ceqb f s ta ((ob, db) :: tb))).
           rewrite (dsumat_cons off j (oa, da) ta). cbn [fst snd].
           rewrite (IH ta ((ob, db) :: tb)) by (try assumption; simpl; lia).
           destruct (oa =? off)%Z; [|reflexivity]. apply Hadda.
        -- rewrite (dsumat_cons off j (ob, scal_row C c1 cmul ceqb s db)
                                (dia_merge C c1 cadd cmul ceqb f s ((oa, da) :: ta) tb)).
           rewrite (dsumat_cons off j (ob, db) tb). cbn [fst snd].
           rewrite (IH ((oa, da) :: ta) tb) by (try assumption; simpl; lia).
           destruct (ob =? off)%Z; [|reflexivity].
           rewrite nth_scal, Hdistr.
           rewrite (Hadda (dsumat off j ((oa, da) :: ta))).
           rewrite (Haddc (dsumat off j ((oa, da) :: ta)) (cmul s (nth j db c0))).
           rewrite <- Hadda. reflexivity.
Qed.

Lemma merge_len : forall n s fuel (A B : DL),
  rows_len n A -> rows_len n B -> rows_len n (dia_merge C c1 cadd cmul ceqb fuel s A B).
Proof.
  intros n s. induction fuel as [|f IH]; intros A B LA LB; simpl; [intros e []|].
  destruct A as [|[oa da] ta]; destruct B as [|[ob db] tb].
  - intros e [].
  - intros e He. apply in_map_iff in He. destruct He as [d [<- Hd]]. simpl.
    rewrite len_scal. apply LB. exact Hd.
  - exact LA.
  - assert (LA' : rows_len n ta) by (intros e He; apply LA; right; exact He).
    assert (LB' : rows_len n tb) by (intros e He; apply LB; right; exact He).
    assert (Hda : length da = n) by (apply (LA (oa, da)); left; reflexivity).
    assert (Hdb : length db = n) by (apply (LB (ob, db)); left; reflexivity).
    destruct (oa =? ob)%Z; [|destruct (oa <=? ob)%Z].
    + intros e [<-|He]; [simpl; apply len_axpy; assumption|apply (IH ta tb LA' LB'); exact He].
    + intros e [<-|He]; [exact Hda|apply (IH ta _ LA' LB); exact He].
    + intros e [<-|He]; [simpl; rewrite len_scal; exact Hdb|apply (IH _ tb LA LB'); exact He].
Qed.

(* ------------------------------------------------------------ clean_dia *)
Lemma nth_vadd : forall (a b : list C) n j, length a = n -> length b = n -> j < n ->
  nth j (vadd C cadd a b) c0 = cadd (nth j a c0) (nth j b c0).
Proof.
  intros a b n j Ha Hb Hj. unfold vadd.
  rewrite (nth_map_combine C c0 (fun p => cadd (fst p) (snd p))) by lia. reflexivity.
Qed.

Lemma dinsert_dsumat : forall n off j d (L : DL),
  rows_len n L -> length (snd d) = n -> j < n ->
  dsumat off j (dinsert C cadd d L) =
  cadd (dsumat off j L) (if (fst d =? off)%Z then nth j (snd d) c0 else c0).
Proof.
  intros n off j d. induction L as [|e t IH]; intros LL Hd Hj; simpl.
  - destruct (fst d =? off)%Z; [rewrite Hadd0r, Hadd0l|rewrite Hadd0r]; reflexivity.
  - assert (He : length (snd e) = n) by (apply LL; left; reflexivity).
    assert (LT : rows_len n t) by (intros x Hx; apply LL; right; exact Hx).
    destruct (fst d <? fst e)%Z eqn:E1.
    + simpl. destruct (fst d =? off)%Z eqn:E2; destruct (fst e =? off)%Z eqn:E3;
        try (exfalso; lia).
      * apply Haddc.
      * rewrite Hadd0r. reflexivity.
      * rewrite Hadd0r. reflexivity.
    + destruct (fst d =? fst e)%Z eqn:E2.
      * simpl. destruct (fst e =? off)%Z eqn:E3.
        -- assert (E4 : (fst d =? off)%Z = true) by lia. rewrite E4.
           rewrite (nth_vadd _ _ n j He Hd Hj).
           rewrite <- Hadda. rewrite (Haddc (nth j (snd d) c0)). rewrite Hadda. reflexivity.
        -- assert (E4 : (fst d =? off)%Z = false) by lia. rewrite E4. rewrite Hadd0r. reflexivity.
      * simpl. rewrite (IH LT Hd Hj). destruct (fst e =? off)%Z; [apply Hadda|reflexivity].
Qed.

Lemma dinsert_len : forall n d (L : DL), rows_len n L -> length (snd d) = n ->
  rows_len n (dinsert C cadd d L).
Proof.
  intros n d. induction L as [|e t IH]; intros LL Hd; simpl.
  - intros x [<-|[]]. exact Hd.
  - assert (He : length (snd e) = n) by (apply LL; left; reflexivity).
    assert (LT : rows_len n t) by (intros x Hx; apply LL; right; exact Hx).
    destruct (fst d <? fst e)%Z.
    + intros x [<-|Hx]; [exact Hd|apply LL; exact Hx].
    + destruct (fst d =? fst e)%Z.
      * intros x [<-|Hx]; [|apply LT; exact Hx]. simpl. unfold vadd.
        rewrite map_length, combine_length. lia.
      * intros x [<-|Hx]; [exact He|apply (IH LT Hd); exact Hx].
Qed.

Lemma dinsert_keys : forall d (L : DL) k,
  In k (map fst (dinsert C cadd d L)) <-> k = fst d \/ In k (map fst L).
Proof.
  intros d. induction L as [|e t IH]; intros k; simpl; [intuition|].
  destruct (fst d <? fst e)%Z; [simpl; intuition|].
  destruct (fst d =? fst e)%Z eqn:E; simpl.
  - apply Z.eqb_eq in E. rewrite E. intuition.
  - rewrite IH. intuition.
Qed.

Lemma dinsert_sorted : forall d (L : DL), zsorted L -> zsorted (dinsert C cadd d L).
Proof.
  intros d. induction L as [|e t IH]; intros H; simpl; [split; [intros ? []|exact I]|].
  destruct H as [He Ht].
  destruct (fst d <? fst e)%Z eqn:E1.
  - simpl. split; [|split; assumption].
    intros x [<-|Hx]; [lia|]. specialize (He x Hx). lia.
  - destruct (fst d =? fst e)%Z eqn:E2.
    + simpl. split; [|exact Ht]. exact He.
    + simpl. split; [|apply IH; exact Ht].
      intros x Hx.
      assert (Hk : In (fst x) (map fst (dinsert C cadd d t))) by (apply in_map; exact Hx).
      apply dinsert_keys in Hk. destruct Hk as [Hk|Hk]; [lia|].
      apply in_map_iff in Hk. destruct Hk as [y [Ey Hy]]. specialize (He y Hy). lia.
Qed.

Lemma foldins : forall n off j (L acc : DL),
  rows_len n L -> rows_len n acc -> j < n -> zsorted acc ->
  let R := fold_left (fun a d => dinsert C cadd d a) L acc in
  dsumat off j R = cadd (dsumat off j acc) (dsumat off j L) /\ rows_len n R /\ zsorted R.
Proof.
  intros n off j. induction L as [|d t IH]; intros acc LL LA Hj SA; simpl.
  - split; [symmetry; apply Hadd0r|split; assumption].
  - assert (Hd : length (snd d) = n) by (apply LL; left; reflexivity).
    assert (LT : rows_len n t) by (intros x Hx; apply LL; right; exact Hx).
    destruct (IH (dinsert C cadd d acc) LT (dinsert_len n d acc LA Hd) Hj (dinsert_sorted d acc SA))
      as [E [L' S']].
    split; [|split; assumption].
    rewrite E. rewrite (dinsert_dsumat n off j d acc LA Hd Hj).
    destruct (fst d =? off)%Z; [symmetry; apply Hadda|rewrite Hadd0r; reflexivity].
Qed.

Lemma zero_outside_props : forall n nr (L : DL), rows_len n L ->
  rows_len n (map (zero_outside C c0 nr) L) /\
  (zsorted L -> zsorted (map (zero_outside C c0 nr) L)) /\
  (forall i j, i < nr -> j < n ->
     dsumat (Z.of_nat j - Z.of_nat i) j (map (zero_outside C c0 nr) L) =
     dsumat (Z.of_nat j - Z.of_nat i) j L).
Proof.
  intros n nr. induction L as [|d t IH]; intros LL; simpl.
  - split; [intros e []|]. split; [intros _; exact I|reflexivity].
  - assert (Hd : length (snd d) = n) by (apply LL; left; reflexivity).
    assert (LT : rows_len n t) by (intros x Hx; apply LL; right; exact Hx).
    destruct (IH LT) as [L1 [S1 D1]]. split; [|split].
    + intros e [<-|He]; [simpl; rewrite map_length, seq_length; exact Hd|apply L1; exact He].
    + intros [Hlt Hs]. split; [|apply S1; exact Hs].
      intros e He. apply in_map_iff in He. destruct He as [x [<- Hx]]. simpl. apply Hlt. exact Hx.
    + intros i j Hi Hj. rewrite (D1 i j Hi Hj).
      destruct (fst d =? Z.of_nat j - Z.of_nat i)%Z eqn:E; [|reflexivity].
      f_equal. rewrite Hd. rewrite nth_map_seq by exact Hj.
      assert (R : in_rng nr (fst d) j = true) by (unfold in_rng; lia). rewrite R. reflexivity.
Qed.

(* ---------------------------------------------------------- tidyup_dia *)
Lemma dsumat_slot : forall (L : DL) off j, zsorted L -> dsumat off j L = slot L off j.
Proof.
  induction L as [|d t IH]; intros off j H; [reflexivity|].
  destruct H as [Hlt Hs]. destruct d as [o r]. simpl dsumat.
  destruct (Z.eqb_spec o off) as [->|Hne].
  - rewrite slot_cons_eq. rewrite (IH off j Hs).
    rewrite slot_absent; [apply Hadd0r|]. intros e He. specialize (Hlt e He). simpl in Hlt. lia.
  - rewrite slot_cons_ne by (intro E; apply Hne; symmetry; exact E). apply IH. exact Hs.
Qed.

Lemma existsb_false_in : forall (A : Type) (f : A -> bool) l x,
  existsb f l = false -> In x l -> f x = false.
Proof.
  intros A f l x H Hin. destruct (f x) eqn:E; [|reflexivity].
  assert (existsb f l = true) by (apply existsb_exists; exists x; split; assumption). congruence.
Qed.

Lemma tidyup_sorted : forall nr (L : DL), zsorted L -> zsorted (tidyup_diags C c0 is0 tidy nr L).
Proof.
  intros nr. unfold tidyup_diags. induction L as [|d t IH]; intros H; simpl; [exact I|].
  destruct H as [Hlt Hs]. destruct (has_data C c0 is0 tidy nr d); simpl; [|apply IH; exact Hs].
  split; [|apply IH; exact Hs].
  intros e He. apply in_map_iff in He. destruct He as [x [<- Hx]]. simpl.
  apply filter_In in Hx. destruct Hx as [Hx _]. apply Hlt. exact Hx.
Qed.

Lemma tidyup_slot : forall n nr (L : DL) i j,
  zsorted L -> rows_len n L -> i < nr -> j < n ->
  slot (tidyup_diags C c0 is0 tidy nr L) (Z.of_nat j - Z.of_nat i) j =
  tidy (slot L (Z.of_nat j - Z.of_nat i) j).
Proof.
  intros n nr. unfold tidyup_diags.
  induction L as [|[o r] t IH]; intros i j Hs LL Hi Hj; simpl.
  - unfold C01_pred.slot. simpl. symmetry. exact Htidy0.
  - destruct Hs as [Hlt Hs].
    assert (Hr : length r = n) by (apply (LL (o, r)); left; reflexivity).
    assert (LT : rows_len n t) by (intros x Hx; apply LL; right; exact Hx).
    set (off := (Z.of_nat j - Z.of_nat i)%Z).
    destruct (Z.eqb_spec o off) as [Eo|Eo].
    + subst o. rewrite slot_cons_eq.
      assert (R : in_rng nr off j = true) by (unfold in_rng, off; lia).
      destruct (has_data C c0 is0 tidy nr (off, r)) eqn:HD; simpl.
      * unfold tidy_diag. simpl. rewrite slot_cons_eq. rewrite Hr.
        rewrite nth_map_seq by exact Hj. rewrite R. reflexivity.
      * rewrite slot_absent.
        -- unfold has_data in HD. simpl in HD. rewrite Hr in HD.
           assert (Hin : In j (seq 0 n)) by (apply in_seq; lia).
           pose proof (existsb_false_in _ _ _ j HD Hin) as F. simpl in F. rewrite R in F.
           simpl in F. symmetry. apply His0.
           destruct (is0 (tidy (nth j r c0))); [reflexivity|discriminate].
        -- intros e He. apply in_map_iff in He. destruct He as [x [<- Hx]]. simpl.
           apply filter_In in Hx. destruct Hx as [Hx _]. specialize (Hlt x Hx). simpl in Hlt. lia.
    + rewrite (slot_cons_ne C c0 o r t off j) by (intro E; apply Eo; symmetry; exact E).
      destruct (has_data C c0 is0 tidy nr (o, r)); simpl.
      * unfold tidy_diag at 1. simpl.
        rewrite slot_cons_ne by (intro E; apply Eo; symmetry; exact E).
        apply IH; assumption.
      * apply IH; assumption.
Qed.

(* -------------------------------------------------------------- add_dia *)
Lemma strictly_inc_sorted : forall (L : DL), strictly_inc (map fst L) = true -> zsorted L.
Proof.
  induction L as [|d t IH]; intros H; [exact I|].
  simpl in H. destruct t as [|e t'].
  - simpl. split; [intros ? []|exact I].
  - simpl map in H. apply andb_prop in H. destruct H as [H1 H2].
    specialize (IH H2). split; [|exact IH].
    destruct IH as [He _]. intros x [<-|Hx]; [lia|]. specialize (He x Hx). lia.
Qed.

Theorem add_dia_total : forall (a b out : dia C) scale i j,
  rows_len (a_nc C a) (a_diags C a) -> rows_len (a_nc C a) (a_diags C b) ->
  add_dia C c0 c1 cadd cmul is0 ceqb tidy a b scale = Some out ->
  i < a_nr C a -> j < a_nc C a ->
  den_dia out i j =
  tidy (cadd (dsumat (Z.of_nat j - Z.of_nat i) j (a_diags C a))
             (cmul scale (dsumat (Z.of_nat j - Z.of_nat i) j (a_diags C b)))).
Proof.
  intros a b out scale i j LA LB H Hi Hj. unfold add_dia in H.
  destruct (negb ((a_nr C a =? a_nr C b) && (a_nc C a =? a_nc C b))) eqn:G; [discriminate|].
  injection H as H. subst out.
  set (M := dia_merge C c1 cadd cmul ceqb (length (a_diags C a) + length (a_diags C b)) scale
                      (a_diags C a) (a_diags C b)).
  assert (LM : rows_len (a_nc C a) M) by (apply merge_len; assumption).
  assert (DM : dsumat (Z.of_nat j - Z.of_nat i) j M =
               cadd (dsumat (Z.of_nat j - Z.of_nat i) j (a_diags C a))
                    (cmul scale (dsumat (Z.of_nat j - Z.of_nat i) j (a_diags C b))))
    by (apply (merge_dsumat (a_nc C a)); try assumption; apply le_n).
  set (M' := if strictly_inc (map fst M) then M else clean_diags C c0 cadd (a_nr C a) M).
  assert (P : zsorted M' /\ rows_len (a_nc C a) M' /\
              dsumat (Z.of_nat j - Z.of_nat i) j M' = dsumat (Z.of_nat j - Z.of_nat i) j M).
  { unfold M'. destruct (strictly_inc (map fst M)) eqn:S.
    - split; [apply strictly_inc_sorted; exact S|split; [exact LM|reflexivity]].
    - unfold clean_diags.
      destruct (foldins (a_nc C a) (Z.of_nat j - Z.of_nat i) j M [] LM (fun e (F : In e []) => match F with end)
                        Hj I) as [E [L' S']].
      destruct (zero_outside_props (a_nc C a) (a_nr C a) _ L') as [L1 [S1 D1]].
      split; [apply S1; exact S'|split; [exact L1|]].
      rewrite (D1 i j Hi Hj). rewrite E. simpl. apply Hadd0l. }
  destruct P as [SM' [LM' DM']].
  assert (Sout : zsorted (tidyup_diags C c0 is0 tidy (a_nr C a) M')) by (apply tidyup_sorted; exact SM').
  rewrite (den_dia_slot C c0 {| a_nr := a_nr C a; a_nc := a_nc C a;
             a_diags := tidyup_diags C c0 is0 tidy (a_nr C a) M' |} i j Sout Hi Hj).
  simpl a_diags.
  rewrite (tidyup_slot (a_nc C a) (a_nr C a) M' i j SM' LM' Hi Hj).
  rewrite <- (dsumat_slot M' _ _ SM'). rewrite DM', DM. reflexivity.
Qed.

(* with distinct offsets the total is what the operand denotes *)
Lemma dsumat_nodup : forall (L : DL) off j, NoDup (map fst L) -> dsumat off j L = slot L off j.
Proof.
  induction L as [|[o r] t IH]; intros off j H; [reflexivity|].
  inversion H as [|x l Hnotin Hnd Heq]; subst. simpl dsumat.
  destruct (Z.eqb_spec o off) as [->|Hne].
  - rewrite slot_cons_eq. rewrite (IH off j Hnd).
    rewrite slot_absent; [apply Hadd0r|]. intros e He E. apply Hnotin. simpl. rewrite <- E.
    apply in_map. exact He.
  - rewrite slot_cons_ne by (intro E; apply Hne; symmetry; exact E). apply IH. exact Hnd.
Qed.

Lemma den_dia_nodup : forall (a : dia C) i j, NoDup (map fst (a_diags C a)) ->
  i < a_nr C a -> j < a_nc C a ->
  den_dia a i j = dsumat (Z.of_nat j - Z.of_nat i) j (a_diags C a).
Proof.
  intros a i j H Hi Hj. rewrite dsumat_nodup by exact H.
  unfold C01.den_dia, C01_pred.slot.
  assert (E : (i <? a_nr C a) && (j <? a_nc C a) = true) by lia. rewrite E.
  rewrite (find_rev_nodupZ C _ _ H). reflexivity.
Qed.

Theorem add_dia_den : forall (a b out : dia C) scale i j,
  wf_dia C a -> wf_dia C b ->
  add_dia C c0 c1 cadd cmul is0 ceqb tidy a b scale = Some out ->
  i < a_nr C a -> j < a_nc C a ->
  den_dia out i j = tidy (cadd (den_dia a i j) (cmul scale (den_dia b i j))).
Proof.
  intros a b out scale i j [Na La] [Nb Lb] H Hi Hj.
  assert (G : (a_nr C a =? a_nr C b) && (a_nc C a =? a_nc C b) = true).
  { unfold add_dia in H.
    destruct ((a_nr C a =? a_nr C b) && (a_nc C a =? a_nc C b)); [reflexivity|discriminate]. }
  assert (LB : rows_len (a_nc C a) (a_diags C b)).
  { intros d Hd. rewrite (Lb d Hd). lia. }
  rewrite (add_dia_total a b out scale i j La LB H Hi Hj).
  rewrite <- (den_dia_nodup a i j Na Hi Hj).
  rewrite <- (den_dia_nodup b i j Nb) by lia. reflexivity.
Qed.

Theorem add_dia_guard : forall (a b : dia C) scale,
  (a_nr C a <> a_nr C b \/ a_nc C a <> a_nc C b) ->
  add_dia C c0 c1 cadd cmul is0 ceqb tidy a b scale = None.
Proof.
  intros a b scale H. unfold add_dia.
  assert (E : negb ((a_nr C a =? a_nr C b) && (a_nc C a =? a_nc C b)) = true) by lia.
  rewrite E. reflexivity.
Qed.

(* clean_dia alone: sorted distinct offsets, the total of every inside slot *)
Theorem clean_dia_total : forall (a : dia C) i j,
  rows_len (a_nc C a) (a_diags C a) -> i < a_nr C a -> j < a_nc C a ->
  zsorted (a_diags C (clean_dia C c0 cadd a)) /\
  den_dia (clean_dia C c0 cadd a) i j = dsumat (Z.of_nat j - Z.of_nat i) j (a_diags C a).
Proof.
  intros a i j LA Hi Hj. unfold clean_dia, clean_diags. simpl.
  destruct (foldins (a_nc C a) (Z.of_nat j - Z.of_nat i) j (a_diags C a) [] LA
                    (fun e (F : In e []) => match F with end) Hj I) as [E [L' S']].
  destruct (zero_outside_props (a_nc C a) (a_nr C a) _ L') as [L1 [S1 D1]].
  split; [apply S1; exact S'|].
  rewrite (den_dia_slot C c0 {| a_nr := a_nr C a; a_nc := a_nc C a; a_diags := _ |} i j
             (S1 S') Hi Hj).
  simpl a_diags. rewrite <- (dsumat_slot _ _ _ (S1 S')).
  rewrite (D1 i j Hi Hj). rewrite E. simpl. apply Hadd0l.
Qed.
End AddDia.
