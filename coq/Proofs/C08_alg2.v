(* C08 - the dual channel as the adjoint map for the Hilbert-Schmidt inner
   product (MathComp, any commutative ring with involution). *)
From mathcomp Require Import all_ssreflect all_algebra.
From QV Require Import Proofs.C08_alg.
Set Implicit Arguments.
Unset Strict Implicit.
Unset Printing Implicit Defensive.
Import GRing.Theory.
Local Open Scope ring_scope.

Section Dual.
Variable R : comRingType.
Variable conj : {rmorphism R -> R}.
Hypothesis conjK : involutive conj.

(* entries of Qobj.dual_chan as proved in Proofs/C08_ext.v:
   D[(p,x),(q,y)] = conj J[(x,p),(y,q)] *)
Definition dual_choi m n (J : T4c R m n) : T4c R n m := fun p x q y => conj (J x p y q).

Variables m n : nat.          (* m = out, n = in *)

Lemma dual_choi_invol (J : T4c R m n) p x q y :
  dual_choi (dual_choi J) p x q y = J p x q y.
Proof. by rewrite /dual_choi conjK. Qed.

(* <Y, L(X)> = <L*(Y), X>  with <A, B> = tr(A^dag B) *)
Lemma dual_is_hs_adjoint (J : T4c R m n) (X : 'M[R]_n) (Y : 'M[R]_m) :
  \tr (adj conj Y *m apply_choi J X) = \tr (adj conj (apply_choi (dual_choi J) Y) *m X).
Proof.
have L : \tr (adj conj Y *m apply_choi J X)
         = \sum_i \sum_j \sum_p \sum_q J i p j q * conj (Y p q) * X i j.
  rewrite /mxtrace.
  under eq_bigr => q _.
    rewrite mxE.
    under eq_bigr => p _.
      rewrite adjE mxE big_distrr /=.
      under eq_bigr => i _ do rewrite big_distrr /=.
      over.
    over.
  rewrite (exchange_big) /=.
  under eq_bigr => p _.
    rewrite exchange_big /=.
    under eq_bigr => i _ do rewrite exchange_big /=.
    over.
  rewrite exchange_big /=; apply: eq_bigr => i _.
  rewrite exchange_big /=; apply: eq_bigr => j _.
  apply: eq_bigr => p _; apply: eq_bigr => q _.
  by rewrite mulrA [conj _ * _]mulrC.
rewrite L /mxtrace.
under [RHS]eq_bigr => j _.
  rewrite mxE.
  under eq_bigr => i _.
    rewrite adjE mxE rmorph_sum big_distrl /=.
    under eq_bigr => p _.
      rewrite rmorph_sum big_distrl /=.
      under eq_bigr => q _ do rewrite rmorphM /dual_choi conjK.
      over.
    over.
  over.
rewrite [RHS]exchange_big /=.
by [].
Qed.

End Dual.
