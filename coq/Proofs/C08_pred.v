(* C08 - the predicates of the model as exact statements on the Choi matrix,
   to_super of a plain operator, the vec formula of kraus_to_choi and the
   Kraus operators rebuilt from a spectral decomposition (stdlib only). *)
From Coq Require Import List ZArith Bool Arith Lia.
Import ListNotations.
From QV Require Import Model.C08 Proofs.C08 Proofs.C08_pauli Model.C08_kraus.

Lemma forallb_seq : forall (f : nat -> bool) n,
  forallb f (seq 0 n) = true <-> forall r, r < n -> f r = true.
Proof.
  intros f n. rewrite forallb_forall. split.
  - intros H r Hr. apply H. apply in_seq. lia.
  - intros H r Hr. apply in_seq in Hr. apply H. lia.
Qed.

Lemma geqb_eq : forall x y, geqb x y = true <-> x = y.
Proof.
  intros [a b] [c d]. unfold geqb. simpl. rewrite andb_true_iff, !Z.eqb_eq. split.
  - intros [-> ->]. reflexivity.
  - intros H. inversion H. split; reflexivity.
Qed.

Lemma is_herm_mat_iff : forall n data,
  is_herm_mat n data = true <->
  forall r c, r < n -> c < n -> mget data n r c = gconj (mget data n c r).
Proof.
  intros n data. unfold is_herm_mat. rewrite forallb_seq. split.
  - intros H r c Hr Hc. specialize (H r Hr). rewrite forallb_seq in H.
    apply geqb_eq. apply H. exact Hc.
  - intros H r Hr. rewrite forallb_seq. intros c Hc. apply geqb_eq. apply H; assumption.
Qed.

(* Qobj.ishp: the Choi matrix is square and Hermitian, entry by entry *)
Lemma ishp_iff : forall x J, to_choi x = Ok J ->
  (ishp x = true <->
   s_rows J = s_cols J /\
   forall r c, r < s_rows J -> c < s_rows J ->
     mget (s_data J) (s_rows J) r c = gconj (mget (s_data J) (s_rows J) c r)).
Proof.
  intros x J H. unfold ishp. rewrite H. rewrite andb_true_iff, Nat.eqb_eq, is_herm_mat_iff.
  reflexivity.
Qed.

Lemma ishp_error : forall x, (forall J, to_choi x <> Ok J) -> ishp x = false.
Proof.
  intros x H. unfold ishp. destruct (to_choi x) eqn:E; try reflexivity.
  exfalso. apply (H a). reflexivity.
Qed.

Lemma is_identity_iff : forall n data,
  is_identity n data = true <->
  forall r c, r < n -> c < n -> mget data n r c = (if r =? c then g1 else g0).
Proof.
  intros n data. unfold is_identity, is_identity_scaled. rewrite forallb_seq. split.
  - intros H r c Hr Hc. specialize (H r Hr). rewrite forallb_seq in H.
    apply geqb_eq. apply H. exact Hc.
  - intros H r Hr. rewrite forallb_seq. intros c Hc. apply geqb_eq. apply H; assumption.
Qed.

(* the test of Qobj.istp on exact Choi data with labels [[a, b], [c, d]]:
   Tr_out J = 1_in entry by entry; ptrace refuses dims[0] <> dims[1] *)
Lemma istp_sobj_iff : forall (q : sobj GZ) a b c d, s_dims q = ((a, b), (c, d)) ->
  prodl c = prodl a -> prodl d = prodl b ->
  (istp_sobj q = Some true <->
   forall i j, i < prodl a -> j < prodl a ->
     gS (prodl b) (fun x => mget (s_data q) (prodl a * prodl b) (i * prodl b + x) (j * prodl b + x))
     = (if i =? j then g1 else g0)).
Proof.
  intros q a b c d Hd Hc Hdd. unfold istp_sobj, istp_sobj_scaled. rewrite Hd, Hc, Hdd, !Nat.eqb_refl.
  cbn [andb negb].
  change (is_identity_scaled g1 (prodl a) (ptrace_keep0 (prodl a) (prodl b) (s_data q)))
    with (is_identity (prodl a) (ptrace_keep0 (prodl a) (prodl b) (s_data q))).
  split.
  - intros H. injection H as H1.
    pose proof (proj1 (is_identity_iff _ _) H1) as H2. intros i j Hi Hj.
    specialize (H2 i j Hi Hj). unfold ptrace_keep0 in H2.
    rewrite mbuild_get in H2 by assumption. exact H2.
  - intros H. f_equal. apply (proj2 (is_identity_iff _ _)). intros i j Hi Hj.
    unfold ptrace_keep0. rewrite mbuild_get by assumption. apply H; assumption.
Qed.

Lemma istp_sobj_error : forall (q : sobj GZ) a b c d, s_dims q = ((a, b), (c, d)) ->
  (prodl c <> prodl a \/ prodl d <> prodl b) -> istp_sobj q = None.
Proof.
  intros q a b c d Hd H. unfold istp_sobj, istp_sobj_scaled. rewrite Hd.
  destruct H as [H|H]; apply Nat.eqb_neq in H; rewrite H; [reflexivity|].
  rewrite andb_false_r. reflexivity.
Qed.

Lemma prodl1 : forall x, prodl [x] = x. Proof. intro x. simpl. lia. Qed.

(* the plain-operator branch of Qobj.istp: to_choi(A) then the partial trace
   test; for EVERY m x n operator (also non-square) the verdict is the
   isometry condition (A^dag A)[j, i] = delta_ij *)
Lemma istp_oper_iff : forall A,
  o_dl A = [o_m A] -> o_dr A = [o_n A] -> 1 < o_m A -> 1 < o_n A ->
  (exists v, istp (QOper A) = Some v) /\
  (istp (QOper A) = Some true <->
   forall i j, i < o_n A -> j < o_n A ->
     gS (o_m A) (fun a => gmul (mget (o_data A) (o_n A) a i) (gconj (mget (o_data A) (o_n A) a j)))
     = (if i =? j then g1 else g0)).
Proof.
  intros A Hdl Hdr Hm Hn.
  destruct (to_choi (QOper A)) as [J| | |] eqn:EJ.
  2-4: exfalso; unfold to_choi, sprepost_dag in EJ; rewrite Hdl, Hdr in EJ;
       unfold drop1 in EJ; cbn [filter] in EJ;
       replace (o_m A =? 1) with false in EJ by (symmetry; apply Nat.eqb_neq; lia);
       replace (o_n A =? 1) with false in EJ by (symmetry; apply Nat.eqb_neq; lia);
       cbn [negb is_nil orb rbind] in EJ;
       unfold super_tofrom_choi in EJ; cbn [s_rep s_dims s_data shuffle_s0 shuffle_s1
         shuffle_new_dims sdims_d0 sdims_d1] in EJ;
       rewrite mbuild_length, !prodl_app, !prodl1 in EJ;
       replace (o_m A * o_m A * (o_n A * o_n A) =? o_m A * o_n A * o_m A * o_n A) with true in EJ
         by (symmetry; apply Nat.eqb_eq; ring);
       replace (o_m A * o_m A * (o_n A * o_n A) =? o_n A * o_m A * (o_n A * o_m A)) with true in EJ
         by (symmetry; apply Nat.eqb_eq; ring);
       discriminate.
  assert (H0m : 0 < o_m A) by lia. assert (H0n : 0 < o_n A) by lia.
  destruct (to_choi_oper_entries A J 0 0 0 0 Hdl Hdr Hm Hn EJ H0m H0m H0n H0n) as (_ & DJ & _).
  rewrite Hdl, Hdr in DJ.
  unfold istp. rewrite EJ.
  pose proof (istp_sobj_iff J [o_n A] [o_m A] [o_n A] [o_m A] DJ eq_refl eq_refl) as HI.
  rewrite !prodl1 in HI.
  split.
  - unfold istp_sobj, istp_sobj_scaled. rewrite DJ, !Nat.eqb_refl. cbn [andb negb]. eexists. reflexivity.
  - rewrite HI. split; intros H i j Hi Hj; specialize (H i j Hi Hj); rewrite <- H;
      apply gS_ext; intros a Ha;
      destruct (to_choi_oper_entries A J a a i j Hdl Hdr Hm Hn EJ Ha Ha Hi Hj) as (E & _ & _);
      [symmetry; exact E | exact E].
Qed.

(* to_super of a plain operator is sprepost(A, A^dag) = kron(conj A, A) *)
Lemma to_super_oper_entries : forall A S a b i j,
  to_super (QOper A) = Ok S ->
  a < o_m A -> b < o_m A -> i < o_n A -> j < o_n A ->
  mget (s_data S) (o_n A * o_n A) (b * o_m A + a) (j * o_n A + i)
  = gmul (gconj (mget (o_data A) (o_n A) b j)) (mget (o_data A) (o_n A) a i)
  /\ s_dims S = ((drop1 (o_dl A), drop1 (o_dl A)), (drop1 (o_dr A), drop1 (o_dr A)))
  /\ s_rep S = Super.
Proof.
  intros A S a b i j H Ha Hb Hi Hj. unfold to_super, sprepost_dag in H.
  destruct (is_nil (drop1 (o_dl A)) || is_nil (drop1 (o_dr A))); try discriminate.
  inversion H. cbn [s_data s_dims s_rep]. split; [|split; reflexivity].
  rewrite mbuild_get by nia.
  destruct (divmod_pair (o_m A) b a Ha) as [E1 E2]. destruct (divmod_pair (o_n A) j i Hi) as [E3 E4].
  rewrite E1, E2, E3, E4. reflexivity.
Qed.

(* kraus_to_choi is sum_k vec(K_k) vec(K_k)^dag on the flat indices *)
Lemma kraus_vec_formula : forall K0 Ks J I I',
  kraus_to_choi (K0 :: Ks) = Ok J ->
  I < o_m K0 * o_n K0 -> I' < o_m K0 * o_n K0 ->
  mget (s_data J) (o_m K0 * o_n K0) I I'
  = gsum (map (fun K => gmul (vecF K I) (gconj (vecF K I'))) (K0 :: Ks)).
Proof.
  intros K0 Ks J I I' H HI HI'. unfold kraus_to_choi in H.
  destruct (negb _) in H; try discriminate. inversion H. cbn [s_data].
  rewrite mbuild_get by assumption. reflexivity.
Qed.

(* ------------------------- Kraus operators from a spectral decomposition *)
Lemma gsum_map_filter : forall (f : nat -> GZ) (p : nat -> bool) l,
  (forall k, In k l -> p k = false -> f k = g0) ->
  gsum (map f (filter p l)) = gsum (map f l).
Proof.
  intros f p l. induction l as [|k l IH]; intros H; [reflexivity|].
  simpl. destruct (p k) eqn:E.
  - simpl. f_equal. apply IH. intros k' Hk'. apply H. right. exact Hk'.
  - rewrite (H k (or_introl eq_refl) E), gadd_0_l. apply IH.
    intros k' Hk'. apply H. right. exact Hk'.
Qed.

Lemma filter_all : forall {A} (p : A -> bool) l, (forall x, In x l -> p x = true) -> filter p l = l.
Proof.
  intros A p l. induction l as [|x l IH]; intros H; [reflexivity|].
  simpl. rewrite (H x (or_introl eq_refl)). f_equal. apply IH. intros y Hy. apply H. right. exact Hy.
Qed.

Lemma geqb_false_g0 : forall x, negb (geqb x g0) = false -> x = g0.
Proof. intros x H. apply negb_false_iff in H. apply geqb_eq. exact H. Qed.

Lemma kraus_from_spectral : forall (q : sobj GZ) a b c d sq vecs Jk i x j y,
  s_dims q = ((a, b), (c, d)) ->
  kraus_to_choi (choi_to_kraus_from q sq vecs) = Ok Jk ->
  x < prodl b -> y < prodl b -> i < prodl a -> j < prodl a ->
  mget (s_data Jk) (prodl b * prodl a) (i * prodl b + x) (j * prodl b + y)
  = gS (length sq) (fun k =>
      gmul (gmul (nth (i * prodl b + x) (nth k vecs []) g0) (nth k sq g0))
           (gconj (gmul (nth (j * prodl b + y) (nth k vecs []) g0) (nth k sq g0))))
  /\ s_dims Jk = ((a, b), (a, b)) /\ s_rep Jk = Choi.
Proof.
  intros q a b c d sq vecs Jk i x j y Hd H Hx Hy Hi Hj.
  unfold choi_to_kraus_from in H. rewrite Hd in H.
  set (dO := prodl b) in *. set (dI := prodl a) in *.
  set (keep := filter (fun k => negb (geqb (nth k sq g0) g0)) (seq 0 (length sq))) in *.
  set (mk := fun k => mkO dO dI b a
     (mbuild dO dI (fun r i0 => gmul (nth (i0 * dO + r) (nth k vecs []) g0) (nth k sq g0)))) in *.
  assert (Hall : forall K, In K (map mk keep) -> o_m K = dO /\ o_n K = dI).
  { intros K HK. apply in_map_iff in HK. destruct HK as (k & <- & _). split; reflexivity. }
  assert (Hne' : map mk keep <> []).
  { intros E. rewrite E in H. discriminate. }
  pose proof (kraus_entries _ Jk dO dI x y i j Hne' Hall H Hx Hy Hi Hj) as E.
  split.
  - rewrite E. rewrite map_map. unfold gS, keep.
    rewrite (gsum_map_filter
      (fun k => gmul (mget (o_data (mk k)) dI x i) (gconj (mget (o_data (mk k)) dI y j)))).
    + f_equal. apply map_ext_in. intros k Hk.
      unfold mk. cbn [o_data]. rewrite !mbuild_get by assumption. reflexivity.
    + intros k _ Hp. apply geqb_false_g0 in Hp.
      unfold mk. cbn [o_data]. rewrite !mbuild_get by assumption. rewrite Hp.
      rewrite gmul_0_r. apply gmul_0_l.
  - destruct (map mk keep) as [|K0 Kt] eqn:EM; [congruence|].
    destruct (kraus_labels K0 Kt Jk H) as [D R].
    assert (HK0 : In K0 (map mk keep)) by (rewrite EM; left; reflexivity).
    apply in_map_iff in HK0. destruct HK0 as (k & <- & _). split; assumption.
Qed.

(* with the spectral oracle J = sum_k sq_k^2 v_k v_k^dag (sq_k real):
   kraus_to_choi (_choi_to_kraus J) = J, entries, labels and tag *)
Lemma kraus_roundtrip_given_spectral : forall (q : sobj GZ) a b sq vecs Jk,
  s_dims q = ((a, b), (a, b)) -> s_rep q = Choi ->
  (forall k, k < length sq -> gconj (nth k sq g0) = nth k sq g0) ->
  (forall I I', I < prodl a * prodl b -> I' < prodl a * prodl b ->
     mget (s_data q) (prodl b * prodl a) I I'
     = gS (length sq) (fun k => gmul (gmul (nth k sq g0) (nth k sq g0))
                                  (gmul (nth I (nth k vecs []) g0) (gconj (nth I' (nth k vecs []) g0))))) ->
  kraus_to_choi (choi_to_kraus_from q sq vecs) = Ok Jk ->
  s_dims Jk = s_dims q /\ s_rep Jk = s_rep q /\
  forall i x j y, x < prodl b -> y < prodl b -> i < prodl a -> j < prodl a ->
    mget (s_data Jk) (prodl b * prodl a) (i * prodl b + x) (j * prodl b + y)
    = mget (s_data q) (prodl b * prodl a) (i * prodl b + x) (j * prodl b + y).
Proof.
  intros q a b sq vecs Jk Hd Hr Hreal Hspec H.
  assert (H0 : forall i x j y, x < prodl b -> y < prodl b -> i < prodl a -> j < prodl a ->
     mget (s_data Jk) (prodl b * prodl a) (i * prodl b + x) (j * prodl b + y)
     = mget (s_data q) (prodl b * prodl a) (i * prodl b + x) (j * prodl b + y)
     /\ s_dims Jk = ((a, b), (a, b)) /\ s_rep Jk = Choi).
  { intros i x j y Hx Hy Hi Hj.
    destruct (kraus_from_spectral q a b a b sq vecs Jk i x j y Hd H Hx Hy Hi Hj) as (E & D & R).
    split; [|split; assumption].
    rewrite E, Hspec by nia. apply gS_ext. intros k Hk.
    rewrite gconj_mul, (Hreal k Hk).
    set (u := nth (i * prodl b + x) (nth k vecs []) g0).
    set (w := gconj (nth (j * prodl b + y) (nth k vecs []) g0)).
    set (s := nth k sq g0).
    rewrite gmul_4. rewrite (gmul_comm' (gmul u w) (gmul s s)). reflexivity. }
  destruct (Nat.eq_dec (prodl a) 0) as [Za|Na].
  - (* no entries in range: labels still from the construction *)
    unfold choi_to_kraus_from in H. rewrite Hd in H.
    destruct (map _ _) as [|K0 Kt] eqn:EM in H; [discriminate|].
    destruct (kraus_labels K0 Kt Jk H) as [D R].
    assert (HK0 : In K0 (K0 :: Kt)) by (left; reflexivity). rewrite <- EM in HK0.
    apply in_map_iff in HK0. destruct HK0 as (k & <- & _). cbn [o_dl o_dr] in D.
    rewrite Hd, Hr. split; [exact D|]. split; [exact R|].
    intros i x j y _ _ Hi _. lia.
  - destruct (Nat.eq_dec (prodl b) 0) as [Zb|Nb].
    + unfold choi_to_kraus_from in H. rewrite Hd in H.
      destruct (map _ _) as [|K0 Kt] eqn:EM in H; [discriminate|].
      destruct (kraus_labels K0 Kt Jk H) as [D R].
      assert (HK0 : In K0 (K0 :: Kt)) by (left; reflexivity). rewrite <- EM in HK0.
      apply in_map_iff in HK0. destruct HK0 as (k & <- & _). cbn [o_dl o_dr] in D.
      rewrite Hd, Hr. split; [exact D|]. split; [exact R|].
      intros i x j y Hx _ _ _. lia.
    + assert (Pa : 0 < prodl a) by lia. assert (Pb : 0 < prodl b) by lia.
      destruct (H0 0 0 0 0 Pb Pb Pa Pa) as (_ & D & R).
      rewrite Hd, Hr. split; [exact D|]. split; [exact R|].
      intros i x j y Hx Hy Hi Hj. apply (H0 i x j y Hx Hy Hi Hj).
Qed.
