(* C18 - svd / eigen / propagator routes: choice of the null vector given the
   decomposition oracles, the dense-fallback decision, the propagator loop. *)
From mathcomp Require Import all_ssreflect all_algebra.
From mathcomp Require Import mxtens.
From QV Require Import Base.MxHerm Model.C18 Proofs.C18 Proofs.C18_bridge.

Set Implicit Arguments.
Unset Strict Implicit.
Unset Printing Implicit Defensive.
Import GRing.Theory.
Local Open Scope ring_scope.

(* ---- svd: the last right-singular vector -------------------------------- *)
Section SvdPick.
Variable R : fieldType.
Variable conj : {rmorphism R -> R}.
Variable N' : nat.
Local Notation N := N'.+1.
Variables (L U Vh : 'M[R]_N) (s : 'rV[R]_N).
Hypothesis svd : L = U *m diag_mx s *m Vh.
Hypothesis VhV : Vh *m dag conj Vh = 1%:M.

Definition vlast : 'cV[R]_N := col ord_max (dag conj Vh).

Lemma diag_delta (i : 'I_N) : diag_mx s *m delta_mx i 0 = s 0 i *: delta_mx i (0 : 'I_1).
Proof.
apply/matrixP => a b; rewrite !mxE (bigD1 i) //= big1 ?addr0.
  rewrite !mxE !eqxx /= !ord1 eqxx andbT.
  by case: eqP => [->|_]; rewrite ?mulr1n ?mulr0n ?mulr1 ?mul0r ?mulr0.
by move=> k ne; rewrite !mxE (negbTE ne) /= mulr0.
Qed.

(* L v = s_last u_last: the residual of the picked vector is the smallest
   singular value times a column of U *)
Lemma svd_pick_residual : L *m vlast = s 0 ord_max *: col ord_max U.
Proof.
rewrite /vlast !colE svd mulmxA -[_ *m Vh *m _]mulmxA VhV mulmx1.
by rewrite -mulmxA diag_delta -scalemxAr.
Qed.

Lemma svd_pick_null : s 0 ord_max = 0 -> L *m vlast = 0.
Proof. by move=> z; rewrite svd_pick_residual z scale0r. Qed.

Lemma svd_pick_bridge (vhf : fmx R) : Vh = mx_of_fn N N vhf ->
  col_of_fn N (svd_pick conj N vhf) = vlast.
Proof. by move=> E; rewrite /vlast E; apply/colP => i; rewrite !mxE. Qed.

End SvdPick.

(* ---- eigen: an eigenvector of L^dag L for the eigenvalue 0 is a null vector
   of L, in every field where a sum of "squared moduli" vanishes only for 0 *)
Section EigenNull.
Variable R : fieldType.
Variable conj : {rmorphism R -> R}.
Hypothesis conjK : involutive conj.
Variable N : nat.
Hypothesis definite : forall x : 'cV[R]_N, dag conj x *m x = 0 -> x = 0.
Variable L : 'M[R]_N.

Lemma gram_norm (v : 'cV[R]_N) lam :
  (dag conj L *m L) *m v = lam *: v ->
  dag conj (L *m v) *m (L *m v) = lam *: (dag conj v *m v).
Proof.
move=> E; rewrite dag_mul -mulmxA [dag conj L *m _]mulmxA E.
by rewrite -scalemxAr.
Qed.

Lemma eigen_null (v : 'cV[R]_N) : (dag conj L *m L) *m v = 0 -> L *m v = 0.
Proof.
move=> E; apply: definite.
have := @gram_norm v 0; rewrite scale0r => /(_ E) ->.
by rewrite scale0r.
Qed.
End EigenNull.

(* ---- eigen: dense fallback decision -------------------------------------- *)
Lemma eigen_pick_sparse (V : Type) sparse big (vs vd : V) :
  (sparse && ~~ big -> eigen_pick sparse big vs vd = vs) /\
  (~~ (sparse && ~~ big) -> eigen_pick sparse big vs vd = vd).
Proof. by rewrite /eigen_pick; case: (sparse && ~~ big). Qed.

Lemma eigen_calls_spec sparse big :
  eigen_calls sparse big =
    if sparse && big then [:: true; false] else [:: sparse].
Proof. by case: sparse; case: big. Qed.

(* ---- propagator: loop and repeated squaring ------------------------------- *)
Section ExpmLoop.
Variable max_iter : nat.
Variable conv : nat -> bool.

Lemma expm_loop_some fuel it k :
  expm_loop fuel max_iter it conv = Some k ->
  [/\ (it <= k < max_iter)%N, conv k & forall j, (it <= j < k)%N -> ~~ conv j].
Proof.
elim: fuel it => [|fuel IH] it //=.
case: ltnP => // lt; case E: (conv it).
  by case=> <-; split=> //; [rewrite leqnn lt|move=> j; rewrite ltnNge andbN].
move/IH => [/andP[le ltk] ck pre]; split=> //; first by rewrite (ltnW le).
move=> j /andP[]; rewrite leq_eqVlt => /orP[/eqP<- _|lj jk]; first by rewrite E.
by apply: pre; rewrite lj.
Qed.

Lemma expm_loop_none fuel it :
  (max_iter <= it + fuel)%N ->
  expm_loop fuel max_iter it conv = None ->
  forall j, (it <= j < max_iter)%N -> ~~ conv j.
Proof.
elim: fuel it => [|fuel IH] it /=.
  by rewrite addn0 => le _ j /andP[a b]; move: (leq_trans b le); rewrite ltnNge a.
case: ltnP => [lt|ge _ _ j /andP[a b]]; last by move: (leq_trans b ge); rewrite ltnNge a.
case E: (conv it) => // le /(IH it.+1); rewrite addSnnS => /(_ le) H j /andP[].
by rewrite leq_eqVlt => /orP[/eqP<- _|a b]; [rewrite E|apply: H; rewrite a].
Qed.

Lemma expm_result_some k :
  expm_result max_iter conv = Some k ->
  [/\ (k < max_iter)%N, conv k & forall j, (j < k)%N -> ~~ conv j].
Proof.
by move/expm_loop_some => [/andP[_ lt] ck pre]; split=> // j jk; apply: pre.
Qed.

Lemma expm_result_none :
  expm_result max_iter conv = None <-> (forall j, (j < max_iter)%N -> ~~ conv j).
Proof.
split.
  by move/(@expm_loop_none max_iter 0 (leqnn _)) => H j jm; apply: H.
move=> H; case E: (expm_result max_iter conv) => [k|] //.
by have [lt ck _] := expm_result_some E; move: (H _ lt); rewrite ck.
Qed.
End ExpmLoop.

(* prop = prop @ prop, k times: the propagator over 2^k time steps *)
Lemma sq_iter_exp (A : ringType) (p : A) k : sq_iter *%R p k = p ^+ (2 ^ k).
Proof.
elim: k => [|k IH] /=; first by rewrite expr1.
by rewrite IH -exprD addnn -mul2n -expnS.
Qed.
(* concrete instances of the hypotheses of the svd / eigen route theorems (rat, N = 1) *)
Lemma svd_hyps_example :
  let I1 := (1%:M : 'M[rat]_1) in
  (0 : 'M[rat]_1) = I1 *m diag_mx (0 : 'rV[rat]_1) *m I1 /\
  I1 *m dag [rmorphism of idfun] I1 = 1%:M.
Proof. by split; rewrite ?mul1mx ?mulmx1 ?linear0 ?dag1. Qed.

Lemma definite_rat1 (x : 'cV[rat]_1) : dag [rmorphism of idfun] x *m x = 0 -> x = 0.
Proof.
move/matrixP/(_ 0 0); rewrite !mxE big_ord1 !mxE /= => /eqP.
rewrite mulf_eq0 orbb => /eqP x0; apply/colP => i; by rewrite !ord1 mxE.
Qed.
