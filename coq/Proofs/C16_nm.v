(* C16 - nm_mcsolve: proofs about the model of InfluenceMartingale
   (Model/C16_nm.v) in exact rational arithmetic. *)
From Coq Require Import List Bool Arith ZArith QArith Qabs Lia Lqa Qfield Permutation.
Import ListNotations.
From QV Require Import Model.C16 Model.C16_nm Proofs.C16_q.
Local Open Scope Q_scope.

Ltac qn := change (T QN) with Q in *; simpl.
Ltac qring :=
  repeat match goal with
         | |- context [disc_prod QN ?a ?d ?t] =>
             let x := fresh "x" in
             generalize (disc_prod QN a d t); change (T QN) with Q; intros x
         end;
  change (T QN) with Q in *; simpl; ring.

Section MartQ.
Variable a : Q.
Variable integ : Q -> Q -> Q.
Variable expo : Q -> Q.
Variable rate : Q -> nat -> Q.
Variable shift : Q -> Q.

(* what is assumed of the quadrature and of exp: the integral is additive
   over adjacent intervals, exp turns sums into products, exp 0 = 1, and both
   respect equality of rationals *)
Hypothesis Hint_add : forall x y z, integ x y + integ y z == integ x z.
Hypothesis Hint_prop : forall x x' y y', x == x' -> y == y' -> integ x y == integ x' y'.
Hypothesis Hexp_add : forall u v, expo (u + v) == expo u * expo v.
Hypothesis Hexp_prop : forall u v, u == v -> expo u == expo v.
Hypothesis Hexp0 : expo 0 == 1.

Notation E := (cont QN Qeq_bool a integ expo).
Notation mvalue := (m_value QN Qeq_bool a integ expo).
Notation mcollapse := (m_add_collapse QN rate shift).
Notation minit := (m_initialize QN Qeq_bool a integ expo).
Notation dprod := (disc_prod QN).

Lemma integ_refl x y : x == y -> integ x y == 0.
Proof.
  intros H. pose proof (Hint_add x x x) as A.
  assert (integ x y == integ x x) by (apply Hint_prop; [reflexivity|symmetry; exact H]). lra.
Qed.

Lemma E_val x y : E x y == expo (a * integ x y).
Proof.
  unfold cont. simpl. destruct (Qeq_bool x y) eqn:Eq; [|reflexivity].
  apply Qeq_bool_iff in Eq. rewrite (Hexp_prop (a * integ x y) 0); [symmetry; exact Hexp0|].
  rewrite (integ_refl x y Eq). ring.
Qed.

Lemma E_prop x x' y y' : x == x' -> y == y' -> E x y == E x' y'.
Proof.
  intros H1 H2. rewrite !E_val. apply Hexp_prop. rewrite (Hint_prop x x' y y' H1 H2). reflexivity.
Qed.

Lemma E_add x y z : E x y * E y z == E x z.
Proof.
  rewrite !E_val, <- Hexp_add. apply Hexp_prop. rewrite <- (Hint_add x y z). ring.
Qed.

Lemma E_refl x y : x == y -> E x y == 1.
Proof. intros H. unfold cont. simpl. apply Qeq_bool_iff in H. rewrite H. reflexivity. Qed.

(* ---- the discrete part *)
Lemma dprod_acc : forall d acc t, dprod acc d t == acc * dprod 1 d t.
Proof.
  induction d as [|[tm f] r IH]; intros acc t; cbn [disc_prod].
  - qring.
  - destruct (ltb QN tm t).
    + rewrite (IH (mul QN acc f)), (IH (mul QN 1 f)). qring.
    + apply IH.
Qed.

Lemma dprod_app d1 d2 t : dprod 1 (d1 ++ d2) t == dprod 1 d1 t * dprod 1 d2 t.
Proof.
  revert d2. induction d1 as [|[tm f] r IH]; intros d2; cbn [disc_prod app].
  - qring.
  - destruct (ltb QN tm t).
    + rewrite (dprod_acc (r ++ d2)), (dprod_acc r), IH. qring.
    + apply IH.
Qed.

(* exactly the factors of the entries with time < t, each once *)
Definition before (t : Q) (e : Q * Q) : bool := Qltb (fst e) t.
Fixpoint prodf (l : list (Q * Q)) : Q :=
  match l with [] => 1 | e :: r => snd e * prodf r end.

Lemma dprod_filter d t : dprod 1 d t == prodf (filter (before t) d).
Proof.
  induction d as [|[tm f] r IH]; cbn [disc_prod filter prodf]; [reflexivity|].
  unfold before at 1. cbn [fst]. change (ltb QN tm t) with (Qltb tm t).
  destruct (Qltb tm t); cbn [prodf snd].
  - rewrite dprod_acc, IH. qring.
  - exact IH.
Qed.

Lemma prodf_perm l l' : Permutation l l' -> prodf l == prodf l'.
Proof.
  induction 1; cbn [prodf]; try lra; try ring.
  rewrite IHPermutation. reflexivity.
Qed.

(* the order in which the collapses were recorded does not matter *)
Lemma dprod_perm d d' t : Permutation d d' -> dprod 1 d t == dprod 1 d' t.
Proof.
  intros H. rewrite !dprod_filter. apply prodf_perm.
  induction H; cbn [filter].
  - constructor.
  - destruct (before t x); [constructor|]; assumption.
  - destruct (before t x), (before t y); try constructor; try apply Permutation_refl.
  - eapply Permutation_trans; eassumption.
Qed.

(* ---- the continuous part and the cache *)
Definition cache_ok (t0 : Q) (c : list (Q * Q)) : Prop :=
  forall k v, In (k, v) c -> v == E t0 k.

Definition inv (t0 : Q) (m : mart QN) : Prop :=
  (exists tp, t_prev QN m = Some tp /\ cm_prev QN m == E t0 tp) /\ cache_ok t0 (cache QN m).

Lemma lookup_ok t0 c t v :
  cache_ok t0 c -> lookup_c QN Qeq_bool c t = Some v -> v == E t0 t.
Proof.
  intros Hc. induction c as [|[k w] r IH]; cbn [lookup_c]; [discriminate|].
  destruct (Qeq_bool k t) eqn:Ek.
  - intros H; inversion H; subst. apply Qeq_bool_iff in Ek.
    rewrite (Hc k v (or_introl eq_refl)). apply E_prop; [reflexivity|exact Ek].
  - apply IH. intros k' v' Hin. apply Hc. right. exact Hin.
Qed.

Lemma precompute_ok t0 : forall ts tc mu acc,
  mu == E t0 tc -> cache_ok t0 acc ->
  cache_ok t0 (precompute QN Qeq_bool a integ expo tc mu ts acc).
Proof.
  induction ts as [|t1 r IH]; intros tc mu acc Hmu Hacc; cbn [precompute]; [exact Hacc|].
  apply IH.
  - simpl. rewrite Hmu. apply E_add.
  - intros k v [H|H].
    + inversion H; subst. simpl. rewrite Hmu. apply E_add.
    + apply Hacc; exact H.
Qed.

(* initialize establishes the invariant (for 'keep': provided the cache it
   keeps was computed from the same initial time) *)
Lemma init_inv m t0 (c : cache_arg QN) :
  (c = Keep QN -> cache_ok t0 (cache QN m)) ->
  inv t0 (minit m t0 c) /\ disc QN (minit m t0 c) = [].
Proof.
  intros Hk. destruct c as [| |ts]; cbn [m_initialize]; (split; [|reflexivity]); split.
  - exists t0. split; [reflexivity|]. simpl. symmetry. apply E_refl. reflexivity.
  - intros k v [].
  - exists t0. split; [reflexivity|]. simpl. symmetry. apply E_refl. reflexivity.
  - apply Hk. reflexivity.
  - exists t0. split; [reflexivity|]. simpl. symmetry. apply E_refl. reflexivity.
  - simpl. apply precompute_ok.
    + simpl. symmetry. apply E_refl. reflexivity.
    + intros k v [].
Qed.

(* value(t): the product of the continuous martingale from the initial time
   to t - whatever was asked before and whatever the cache holds - and of the
   factors of the collapses recorded so far with time < t *)
Lemma value_spec t0 m t :
  inv t0 m ->
  exists m' v, mvalue m t = Some (m', v) /\ inv t0 m' /\
               disc QN m' = disc QN m /\ cache QN m' = cache QN m /\
               v == dprod 1 (disc QN m) t * E t0 t.
Proof.
  intros ((tp & Htp & Hcm) & Hc). unfold m_value. rewrite Htp.
  destruct (lookup_c QN Qeq_bool (cache QN m) t) as [w|] eqn:El.
  - pose proof (lookup_ok t0 _ t w Hc El) as Hw.
    eexists. eexists. split; [reflexivity|]. split; [|split; [reflexivity|split; [reflexivity|]]].
    + split; [exists t; split; [reflexivity|exact Hw]|exact Hc].
    + simpl. rewrite Hw. reflexivity.
  - eexists. eexists. split; [reflexivity|]. split; [|split; [reflexivity|split; [reflexivity|]]].
    + split; [|exact Hc]. exists t. split; [reflexivity|]. simpl. rewrite Hcm. apply E_add.
    + simpl. rewrite Hcm, E_add. reflexivity.
Qed.

Lemma collapse_spec t0 m tc k :
  inv t0 m ->
  exists m', mcollapse m tc k = Some m' /\ inv t0 m' /\ cache QN m' = cache QN m /\
             disc QN m' = disc QN m ++ [(tc, rate tc k / (rate tc k + shift tc))].
Proof.
  intros ((tp & Htp & Hcm) & Hc). unfold m_add_collapse. rewrite Htp.
  eexists. split; [reflexivity|]. split; [|split; reflexivity].
  split; [exists tp; split; [reflexivity|exact Hcm]|exact Hc].
Qed.

(* before initialize (or after reset) both calls raise and change nothing *)
Lemma not_started m t tc k :
  t_prev QN m = None -> mvalue m t = None /\ mcollapse m tc k = None.
Proof. intros H. unfold m_value, m_add_collapse. rewrite H. split; reflexivity. Qed.

(* ---- whole histories *)
(* the specification: it keeps nothing but the collapse record *)
Definition factor_of (c : Q * nat) : Q * Q :=
  (fst c, rate (fst c) (snd c) / (rate (fst c) (snd c) + shift (fst c))).

Fixpoint spec_outs (t0 : Q) (cols : list (Q * nat)) (ops : list (mop QN)) : list Q :=
  match ops with
  | [] => []
  | OCollapse _ tc k :: r => spec_outs t0 (cols ++ [(tc, k)]) r
  | OValue _ t :: r => (prodf (filter (before t) (map factor_of cols)) * E t0 t) :: spec_outs t0 cols r
  | _ :: r => spec_outs t0 cols r
  end.

Fixpoint plain (ops : list (mop QN)) : Prop :=
  match ops with
  | [] => True
  | OCollapse _ _ _ :: r => plain r
  | OValue _ _ :: r => plain r
  | _ => False
  end.

Fixpoint m_outs (m : mart QN) (ops : list (mop QN)) : list (option Q) :=
  match ops with
  | [] => []
  | OReset _ :: r => m_outs (m_reset QN m) r
  | OInit _ t0 c :: r => m_outs (minit m t0 c) r
  | OCollapse _ tc k :: r =>
      match mcollapse m tc k with
      | Some m' => m_outs m' r
      | None => None :: m_outs m r
      end
  | OValue _ t :: r =>
      match mvalue m t with
      | Some (m', v) => Some v :: m_outs m' r
      | None => None :: m_outs m r
      end
  end.

Lemma m_run_outs : forall ops m out,
  snd (m_run QN Qeq_bool a integ expo rate shift m ops out) = rev out ++ m_outs m ops.
Proof.
  induction ops as [|op r IH]; intros m out; cbn [m_run m_outs].
  - simpl. rewrite app_nil_r. reflexivity.
  - destruct op as [|t0 c|tc k|t].
    + apply IH.
    + apply IH.
    + destruct (mcollapse m tc k); rewrite IH; [reflexivity|].
      cbn [rev]. rewrite <- app_assoc. reflexivity.
    + destruct (mvalue m t) as [[m' v]|]; rewrite IH; cbn [rev]; rewrite <- app_assoc; reflexivity.
Qed.

Definition oeq (x : option Q) (y : Q) : Prop :=
  match x with Some v => v == y | None => False end.

Lemma history_spec t0 : forall ops m cols,
  plain ops -> inv t0 m -> disc QN m = map factor_of cols ->
  Forall2 oeq (m_outs m ops) (spec_outs t0 cols ops).
Proof.
  induction ops as [|op r IH]; intros m cols Hp Hi Hd; cbn [m_outs spec_outs].
  - constructor.
  - destruct op as [|t0' c|tc k|t]; cbn [plain] in Hp; try contradiction.
    + destruct (collapse_spec t0 m tc k Hi) as (m' & E1 & Hi' & _ & Hd').
      rewrite E1. apply IH; [exact Hp|exact Hi'|].
      rewrite Hd', Hd, map_app. reflexivity.
    + destruct (value_spec t0 m t Hi) as (m' & v & E1 & Hi' & Hd' & _ & Hv).
      rewrite E1. constructor.
      * simpl. rewrite Hv, dprod_filter, Hd. reflexivity.
      * apply IH; [exact Hp|exact Hi'|]. rewrite Hd'. exact Hd.
Qed.

End MartQ.

(* one-step unbiasedness of the jump part, algebra over Q:
   a channel sampled with the shifted rate (g + s) and weighted by the
   martingale factor g / (g + s) contributes with the true rate g *)
Lemma shifted_rate_times_factor g s : ~ g + s == 0 -> (g + s) * (g / (g + s)) == g.
Proof. intros H. field. exact H. Qed.
