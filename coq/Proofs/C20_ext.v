(* C20 - extension round: swap as the index exchange, W/GHZ positions for
   every qubit count, thermal weights, [Jx,Jy] = i Jz, ENR converse. *)
From Coq Require Import List ZArith QArith Bool Arith Lia Ring Field.
Import ListNotations.
From QV Require Import Model.C20 Model.C20_b Proofs.C20 Proofs.C20_enum.

(* ======================================================== swap(N, M) *)
Lemma nth_flat_map_grid (f : nat -> nat -> nat) (N : nat) : forall M s m n,
  (m < M)%nat -> (n < N)%nat ->
  nth (m * N + n) (flat_map (fun a => map (f a) (seq 0 N)) (seq s M)) 0%nat = f (s + m)%nat n.
Proof.
  induction M as [|M IH]; intros s m n Hm Hn; [lia|]. simpl.
  destruct m as [|m].
  - simpl. rewrite app_nth1 by (rewrite map_length, seq_length; lia).
    rewrite (nth_indep _ 0%nat (f s 0%nat)) by (rewrite map_length, seq_length; lia).
    rewrite map_nth, seq_nth by lia. now rewrite Nat.add_0_r.
  - rewrite app_nth2 by (rewrite map_length, seq_length; simpl; lia).
    rewrite map_length, seq_length.
    replace (S m * N + n - N)%nat with (m * N + n)%nat by (simpl; lia).
    rewrite IH by lia. f_equal. lia.
Qed.

Lemma flat_map_grid_length (f : nat -> nat -> nat) (N : nat) : forall M s,
  length (flat_map (fun a => map (f a) (seq 0 N)) (seq s M)) = (M * N)%nat.
Proof.
  induction M as [|M IH]; intros s; [reflexivity|].
  simpl. rewrite app_length, map_length, seq_length, IH. reflexivity.
Qed.

Lemma swap_cols_length N M : length (swap_cols N M) = (M * N)%nat.
Proof. unfold swap_cols. apply (flat_map_grid_length (fun a b => (M * b + a)%nat)). Qed.

(* row m*N + n (the product state |m>|n> of the swapped order) has its 1 in
   column n*M + m (the product state |n>|m>) *)
Lemma swap_col_exchange N M m n : (m < M)%nat -> (n < N)%nat ->
  swap_col N M (m * N + n) = (n * M + m)%nat.
Proof.
  intros Hm Hn. unfold swap_col, swap_cols.
  rewrite (nth_flat_map_grid (fun a b => (M * b + a)%nat) N M 0 m n Hm Hn). lia.
Qed.

(* swap(N, M) swap(M, N) = 1: composing the two column maps is the identity *)
Lemma swap_col_involution N M r : (r < N * M)%nat ->
  swap_col N M (swap_col M N r) = r.
Proof.
  intros Hr. destruct (Nat.eq_dec M 0) as [->|HM]; [lia|].
  assert (HN : N <> 0%nat) by (intros ->; lia).
  pose proof (Nat.div_mod r M HM) as E.
  assert (Hq : (r / M < N)%nat) by (apply Nat.div_lt_upper_bound; lia).
  assert (Hm : (r mod M < M)%nat) by (apply Nat.mod_upper_bound; lia).
  rewrite E at 1. replace (M * (r / M) + r mod M)%nat with ((r / M) * M + r mod M)%nat by lia.
  rewrite swap_col_exchange by assumption.
  rewrite swap_col_exchange by assumption. lia.
Qed.

(* a permutation: every column is hit exactly by one row *)
Lemma swap_col_range N M r : (r < M * N)%nat -> (swap_col N M r < N * M)%nat.
Proof.
  intros Hr. destruct (Nat.eq_dec N 0) as [->|HN]; [lia|].
  pose proof (Nat.div_mod r N HN) as E.
  assert (Hq : (r / N < M)%nat) by (apply Nat.div_lt_upper_bound; lia).
  assert (Hm : (r mod N < N)%nat) by (apply Nat.mod_upper_bound; lia).
  rewrite E. replace (N * (r / N) + r mod N)%nat with ((r / N) * N + r mod N)%nat by lia.
  rewrite swap_col_exchange by assumption. nia.
Qed.

(* ============================================ W / GHZ positions, every N *)
Open Scope Z_scope.
Lemma zprod_repeat2 N : fold_right Z.mul 1 (repeat 2 N) = 2 ^ Z.of_nat N.
Proof.
  induction N as [|N IH]; [reflexivity|]. cbn [repeat fold_right]. rewrite IH.
  rewrite Nat2Z.inj_succ, Z.pow_succ_r by lia. reflexivity.
Qed.

Lemma dims2idx_roll : forall N s k,
  dims2idx (repeat 2 N) (map (fun i => if (i =? k)%nat then 1 else 0) (seq s N))
  = Ok (if (s <=? k)%nat && (k <? s + N)%nat then 2 ^ Z.of_nat (s + N - 1 - k) else 0).
Proof.
  induction N as [|N IH]; intros s k.
  - simpl. replace ((s <=? k)%nat && (k <? s + 0)%nat) with false; [reflexivity|].
    symmetry. apply andb_false_iff. destruct (Nat.leb_spec s k); [right; apply Nat.ltb_ge; lia|now left].
  - cbn [repeat seq map dims2idx]. rewrite IH, zprod_repeat2.
    destruct (s =? k)%nat eqn:Q.
    + apply Nat.eqb_eq in Q. subst k. change ((0 <=? 1) && (1 <? 2)) with true. cbv iota.
      replace ((S s <=? s)%nat && (s <? S s + N)%nat) with false
        by (symmetry; apply andb_false_iff; left; apply Nat.leb_gt; lia).
      replace ((s <=? s)%nat && (s <? s + S N)%nat) with true
        by (symmetry; apply andb_true_iff; split; [apply Nat.leb_le|apply Nat.ltb_lt]; lia).
      f_equal. replace (s + S N - 1 - s)%nat with N by lia. lia.
    + apply Nat.eqb_neq in Q. change ((0 <=? 0) && (0 <? 2)) with true. cbv iota.
      destruct ((S s <=? k)%nat && (k <? S s + N)%nat) eqn:C.
      * apply andb_prop in C as [C1 C2]. apply Nat.leb_le in C1. apply Nat.ltb_lt in C2.
        replace ((s <=? k)%nat && (k <? s + S N)%nat) with true
          by (symmetry; apply andb_true_iff; split; [apply Nat.leb_le|apply Nat.ltb_lt]; lia).
        f_equal. replace (S s + N - 1 - k)%nat with (s + S N - 1 - k)%nat by lia. lia.
      * replace ((s <=? k)%nat && (k <? s + S N)%nat) with false; [reflexivity|].
        symmetry. apply andb_false_iff. apply andb_false_iff in C as [C|C].
        -- apply Nat.leb_gt in C. left. apply Nat.leb_gt. lia.
        -- apply Nat.ltb_ge in C. right. apply Nat.ltb_ge. lia.
Qed.

Lemma nth_map_seq_gen {A} (f : nat -> A) (d : A) n k : (k < n)%nat ->
  nth k (map f (seq 0 n)) d = f k.
Proof.
  intros H. rewrite (nth_indep _ d (f 0%nat)) by (now rewrite map_length, seq_length).
  rewrite map_nth. now rewrite seq_nth.
Qed.

Lemma w_position N k : (k < N)%nat ->
  nth k (w_positions N) (Err EIndex) = Ok (2 ^ Z.of_nat (N - 1 - k)).
Proof.
  intros Hk. unfold w_positions. rewrite nth_map_seq_gen by assumption.
  unfold roll1. rewrite dims2idx_roll. simpl Nat.add.
  replace ((0 <=? k)%nat && (k <? N)%nat) with true
    by (symmetry; apply andb_true_iff; split; [apply Nat.leb_le|apply Nat.ltb_lt]; lia).
  reflexivity.
Qed.

Lemma w_positions_length N : length (w_positions N) = N.
Proof. unfold w_positions. now rewrite map_length, seq_length. Qed.

Lemma dims2idx_const N : forall b, (b = 0 \/ b = 1) ->
  dims2idx (repeat 2 N) (repeat b N) = Ok (b * (2 ^ Z.of_nat N - 1)).
Proof.
  induction N as [|N IH]; intros b Hb; [simpl; f_equal; lia|].
  cbn [repeat dims2idx]. rewrite (IH b Hb), zprod_repeat2.
  replace ((0 <=? b) && (b <? 2)) with true by (destruct Hb; subst; reflexivity).
  f_equal. rewrite Nat2Z.inj_succ, Z.pow_succ_r by lia. lia.
Qed.

Lemma ghz_positions_all N : ghz_positions N = [Ok 0; Ok (2 ^ Z.of_nat N - 1)].
Proof.
  unfold ghz_positions. rewrite (dims2idx_const N 0) by now left.
  rewrite (dims2idx_const N 1) by now right.
  replace (0 * (2 ^ Z.of_nat N - 1)) with 0 by lia.
  replace (1 * (2 ^ Z.of_nat N - 1)) with (2 ^ Z.of_nat N - 1) by lia. reflexivity.
Qed.
Close Scope Z_scope.

(* ================================================= thermal_dm weights *)
Open Scope Q_scope.
Lemma qsum_map_succ (f : nat -> Q) N :
  qsum (map f (seq 0 (S N))) == qsum (map f (seq 0 N)) + f N.
Proof.
  assert (G : forall s, qsum (map f (seq s (S N))) == qsum (map f (seq s N)) + f (s + N)%nat).
  { induction N as [|N IH]; intros s.
    - simpl. rewrite Nat.add_0_r. ring.
    - change (seq s (S (S N))) with (s :: seq (S s) (S N)).
      change (seq s (S N)) with (s :: seq (S s) N).
      cbn [map qsum fold_right]. fold (qsum (map f (seq (S s) (S N)))).
      fold (qsum (map f (seq (S s) N))). rewrite IH.
      replace (S s + N)%nat with (s + S N)%nat by lia. ring. }
  exact (G 0%nat).
Qed.

(* truncated geometric series: the analytic populations sum to 1 - (n/(1+n))^N *)
Lemma thermal_analytic_sum N n : ~ 1 + n == 0 ->
  qsum (thermal_analytic N n) == 1 - qpow (n / (1 + n)) N.
Proof.
  intros Hn. unfold thermal_analytic. induction N as [|N IH].
  - simpl. ring.
  - rewrite qsum_map_succ, IH. cbn [qpow]. field. exact Hn.
Qed.

(* every weight is non-negative and the sum is below 1 for n >= 0 *)
Lemma qpow_nonneg a k : 0 <= a -> 0 <= qpow a k.
Proof. intros H. induction k as [|k IH]; simpl; [discriminate|]. now apply Qmult_le_0_compat. Qed.

(* operator method: populations divided by their sum have unit trace *)
Lemma qsum_scale (l : list Q) c : qsum (map (fun x => x / c) l) == qsum l / c.
Proof.
  induction l as [|x l IH]; simpl.
  - unfold Qdiv. ring.
  - fold (qsum (map (fun x0 => x0 / c) l)). fold (qsum l). rewrite IH. unfold Qdiv. ring.
Qed.

Lemma thermal_operator_sum N n :
  ~ qsum (map (fun i => qpow (n / (1 + n)) i) (seq 0 N)) == 0 ->
  qsum (thermal_operator N n) == 1.
Proof.
  intros H. unfold thermal_operator. cbv zeta. rewrite qsum_scale. field. exact H.
Qed.

(* the sum is positive for n > 0 and N >= 1, so the hypothesis above holds *)
Lemma thermal_partition_positive N n : 0 <= n -> (1 <= N)%nat ->
  0 < qsum (map (fun i => qpow (n / (1 + n)) i) (seq 0 N)).
Proof.
  intros Hn HN.
  assert (Hr : 0 <= n / (1 + n)).
  { unfold Qdiv. apply Qmult_le_0_compat; [exact Hn|]. apply Qinv_le_0_compat.
    apply Qle_trans with (1 + 0); [discriminate|]. apply Qplus_le_r. exact Hn. }
  destruct N as [|N]; [lia|]. clear HN.
  induction N as [|N IH].
  - reflexivity.
  - rewrite qsum_map_succ. apply Qlt_le_trans with (qsum (map (fun i => qpow (n / (1 + n)) i) (seq 0 (S N))) + 0).
    + rewrite Qplus_0_r. exact IH.
    + apply Qplus_le_r. now apply qpow_nonneg.
Qed.
Close Scope Q_scope.

(* ================================== ENR: every lowering element is stored *)
Lemma combine_seq_nth_error {A} : forall (l : list A) s n t,
  nth_error l n = Some t -> In ((s + n)%nat, t) (combine (seq s (length l)) l).
Proof.
  induction l as [|x l IH]; intros s n t H; [destruct n; discriminate|].
  destruct n as [|n]; simpl in *.
  - injection H as ->. left. f_equal. lia.
  - right. replace (s + S n)%nat with (S s + n)%nat by lia. now apply IH.
Qed.

(* converse of enr_destroy_restriction: for every enumerated state t1 (index
   n1) with an excitation in mode idx, the element <t1 - e_idx| a_idx |t1> =
   sqrt(t1_idx) is stored, at the row of the lowered state *)
Lemma enr_destroy_complete dims E l idx :
  (forall st, In st l <-> admissible dims st E) ->
  forall n1 t1, nth_error l n1 = Some t1 -> (0 < nth idx t1 0%Z)%Z ->
  exists n2, nth_error l n2 = Some (set_nth idx (nth idx t1 0%Z - 1)%Z t1) /\
             In (Ok (n2, n1, nth idx t1 0%Z)) (enr_destroy_mode l idx).
Proof.
  intros Hl n1 t1 Hn Hpos.
  assert (Hin : In t1 l) by (eapply nth_error_In; eauto).
  pose proof (lower_admissible dims t1 E idx (proj1 (Hl t1) Hin) Hpos) as Hlow.
  apply Hl in Hlow.
  destruct (index_of_In _ l 0%nat Hlow) as (n2 & I1 & I2).
  exists n2. split; [exact I2|].
  unfold enr_destroy_mode. apply in_concat.
  exists [Ok (n2, n1, nth idx t1 0%Z)]. split; [|now left].
  apply in_map_iff. exists (n1, t1). split.
  - replace (0 <? nth idx t1 0%Z)%Z with true by (symmetry; now apply Z.ltb_lt).
    unfold state2idx. rewrite I1. reflexivity.
  - exact (combine_seq_nth_error l 0%nat n1 t1 Hn).
Qed.

(* ====================================================== tunneling(N, m) *)
Open Scope Z_scope.
Lemma ones_length k : 0 <= k -> length (ones k) = Z.to_nat k.
Proof. intros. unfold ones. now rewrite map_length, seq_length. Qed.
Lemma ones_nth k t : nth t (ones k) 0 = if (t <? Z.to_nat k)%nat then 1 else 0.
Proof.
  unfold ones. destruct (t <? Z.to_nat k)%nat eqn:Q.
  - apply Nat.ltb_lt in Q. now rewrite (nth_map_seq (fun _ => 1)).
  - apply Nat.ltb_ge in Q. apply nth_overflow. now rewrite map_length, seq_length.
Qed.

Definition tun_entry (m : Z) (i j : nat) : Z :=
  (if Z.of_nat j - Z.of_nat i =? m then 1 else 0) + (if Z.of_nat i - Z.of_nat j =? m then 1 else 0).

Lemma tunneling_ok N m : 1 <= N -> 0 <= m <= N ->
  exists t, tunneling_mat N m = Ok t /\ dim t = Z.to_nat N /\
    forall i j, (i < Z.to_nat N)%nat -> (j < Z.to_nat N)%nat -> zentry t i j = tun_entry m i j.
Proof.
  intros HN Hm. unfold tunneling_mat.
  replace (N - m <? 0) with false by (symmetry; apply Z.ltb_ge; lia).
  unfold zdiags, diags. cbn [wrap length Nat.eqb negb combine].
  set (o := ones (N - m)).
  assert (Lo : length o = Z.to_nat (N - m)) by (apply ones_length; lia).
  assert (Hn : (Z.abs_nat (fst (argmin Z [(- m, o)] (m, o))) + length (snd (argmin Z [(- m, o)] (m, o))))%nat
               = Z.to_nat N).
  { cbn [argmin fst snd]. destruct (- m <? m); cbn [fst snd]; rewrite Lo; lia. }
  rewrite Hn. cbn [forallb fst snd]. rewrite Lo.
  replace (Z.of_nat (Z.to_nat (N - m)) =? Z.of_nat (Z.to_nat N) - Z.abs m) with true
    by (symmetry; apply Z.eqb_eq; lia).
  replace (Z.of_nat (Z.to_nat (N - m)) =? Z.of_nat (Z.to_nat N) - Z.abs (- m)) with true
    by (symmetry; apply Z.eqb_eq; lia).
  cbn [andb]. replace (Z.to_nat N =? 0)%nat with false by (symmetry; apply Nat.eqb_neq; lia).
  eexists. split; [reflexivity|]. cbn [dim]. split; [reflexivity|].
  intros i j Hi Hj. unfold zentry, entry, dentry, tun_entry. cbn [dgs fold_right fst snd].
  unfold o. rewrite !ones_nth.
  destruct (Z.eqb_spec (Z.of_nat j - Z.of_nat i) m) as [Q1|Q1];
    destruct (Z.eqb_spec (Z.of_nat j - Z.of_nat i) (- m)) as [Q2|Q2].
  - replace (Z.of_nat i - Z.of_nat j =? m) with true by (symmetry; apply Z.eqb_eq; lia).
    replace (0 <=? m) with true by (symmetry; apply Z.leb_le; lia).
    replace (0 <=? - m) with true by (symmetry; apply Z.leb_le; lia). cbv iota.
    replace (i <? Z.to_nat (N - m))%nat with true by (symmetry; apply Nat.ltb_lt; lia). lia.
  - replace (Z.of_nat i - Z.of_nat j =? m) with false by (symmetry; apply Z.eqb_neq; lia).
    replace (0 <=? m) with true by (symmetry; apply Z.leb_le; lia). cbv iota.
    replace (i <? Z.to_nat (N - m))%nat with true by (symmetry; apply Nat.ltb_lt; lia). lia.
  - replace (Z.of_nat i - Z.of_nat j =? m) with true by (symmetry; apply Z.eqb_eq; lia).
    replace (0 <=? - m) with false by (symmetry; apply Z.leb_gt; lia). cbv iota.
    replace (j <? Z.to_nat (N - m))%nat with true by (symmetry; apply Nat.ltb_lt; lia). lia.
  - replace (Z.of_nat i - Z.of_nat j =? m) with false by (symmetry; apply Z.eqb_neq; lia). lia.
Qed.

(* integer matrix product *)
Notation zsumn := (sumn Z 0 Z.add).
Notation zmmul := (mmul Z 0 Z.add Z.mul).
Definition Zth := InitialRing.Zth.

Lemma zsumn_two n f a b : (a < b)%nat -> (b < n)%nat ->
  (forall k, (k < n)%nat -> k <> a -> k <> b -> f k = 0) -> zsumn n f = f a + f b.
Proof.
  induction n as [|n IH]; intros Hab Hb H; [lia|]. simpl.
  destruct (Nat.eq_dec b n) as [->|Hne].
  - rewrite (sumn_single Z 0 1 Z.add Z.mul Z.sub Z.opp Zth n f a) by (try lia; intros; apply H; lia).
    reflexivity.
  - rewrite IH by (try lia; intros; apply H; lia). rewrite (H n) by lia. lia.
Qed.

(* T T^dagger = T T (real symmetric) is the identity exactly when 2 m = N:
   the literal  T._isunitary = (m * 2 == N)  is exact *)
Lemma tunneling_flag_exact N m : 1 <= N -> 0 <= m <= N ->
  let n := Z.to_nat N in
  tunneling_isunitary N m = true <->
  (forall i j, (i < n)%nat -> (j < n)%nat ->
     zmmul n (tun_entry m) (tun_entry m) i j = if (i =? j)%nat then 1 else 0).
Proof.
  intros HN Hm n. unfold tunneling_isunitary. split.
  - intros E. apply Z.eqb_eq in E. intros i j Hi Hj. unfold mmul.
    assert (Hmp : 1 <= m) by lia.
    destruct (Z_lt_le_dec (Z.of_nat i) m) as [L|G].
    + rewrite (sumn_single Z 0 1 Z.add Z.mul Z.sub Z.opp Zth n _ (i + Z.to_nat m)%nat).
      * unfold tun_entry.
        replace (Z.of_nat (i + Z.to_nat m) - Z.of_nat i =? m) with true by (symmetry; apply Z.eqb_eq; lia).
        replace (Z.of_nat i - Z.of_nat (i + Z.to_nat m) =? m) with false by (symmetry; apply Z.eqb_neq; lia).
        replace (Z.of_nat j - Z.of_nat (i + Z.to_nat m) =? m) with false by (symmetry; apply Z.eqb_neq; lia).
        destruct (i =? j)%nat eqn:Q; [apply Nat.eqb_eq in Q|apply Nat.eqb_neq in Q].
        -- replace (Z.of_nat (i + Z.to_nat m) - Z.of_nat j =? m) with true by (symmetry; apply Z.eqb_eq; lia). lia.
        -- replace (Z.of_nat (i + Z.to_nat m) - Z.of_nat j =? m) with false by (symmetry; apply Z.eqb_neq; lia). lia.
      * unfold n. lia.
      * intros k Hk Hne. unfold tun_entry at 1.
        replace (Z.of_nat k - Z.of_nat i =? m) with false by (symmetry; apply Z.eqb_neq; lia).
        replace (Z.of_nat i - Z.of_nat k =? m) with false by (symmetry; apply Z.eqb_neq; lia). lia.
    + rewrite (sumn_single Z 0 1 Z.add Z.mul Z.sub Z.opp Zth n _ (i - Z.to_nat m)%nat).
      * unfold tun_entry.
        replace (Z.of_nat (i - Z.to_nat m) - Z.of_nat i =? m) with false by (symmetry; apply Z.eqb_neq; lia).
        replace (Z.of_nat i - Z.of_nat (i - Z.to_nat m) =? m) with true by (symmetry; apply Z.eqb_eq; lia).
        replace (Z.of_nat (i - Z.to_nat m) - Z.of_nat j =? m) with false by (symmetry; apply Z.eqb_neq; unfold n in *; lia).
        destruct (i =? j)%nat eqn:Q; [apply Nat.eqb_eq in Q|apply Nat.eqb_neq in Q].
        -- replace (Z.of_nat j - Z.of_nat (i - Z.to_nat m) =? m) with true by (symmetry; apply Z.eqb_eq; lia). lia.
        -- replace (Z.of_nat j - Z.of_nat (i - Z.to_nat m) =? m) with false by (symmetry; apply Z.eqb_neq; lia). lia.
      * unfold n in *. lia.
      * intros k Hk Hne. unfold tun_entry at 1.
        replace (Z.of_nat k - Z.of_nat i =? m) with false by (symmetry; apply Z.eqb_neq; unfold n in *; lia).
        replace (Z.of_nat i - Z.of_nat k =? m) with false by (symmetry; apply Z.eqb_neq; lia). lia.
  - intros U. apply Z.eqb_eq.
    destruct (Z.eq_dec m 0) as [->|Hm0].
    { (* T = 2 * 1 *)
      specialize (U 0%nat 0%nat ltac:(unfold n; lia) ltac:(unfold n; lia)). unfold mmul in U.
      rewrite (sumn_single Z 0 1 Z.add Z.mul Z.sub Z.opp Zth n _ 0%nat) in U.
      - cbn in U. lia.
      - unfold n; lia.
      - intros k Hk Hne. unfold tun_entry at 1.
        replace (Z.of_nat k - Z.of_nat 0 =? 0) with false by (symmetry; apply Z.eqb_neq; lia).
        replace (Z.of_nat 0 - Z.of_nat k =? 0) with false by (symmetry; apply Z.eqb_neq; lia). lia. }
    destruct (Z_lt_le_dec (2 * m) N) as [L|G].
    { (* row m has two neighbours: 0 and 2m *)
      set (r := Z.to_nat m).
      specialize (U r r ltac:(unfold n, r; lia) ltac:(unfold n, r; lia)). unfold mmul in U.
      rewrite (zsumn_two n _ 0%nat (Z.to_nat (2 * m))) in U.
      - rewrite Nat.eqb_refl in U. unfold tun_entry, r in U.
        replace (Z.of_nat 0 - Z.of_nat (Z.to_nat m) =? m) with false in U by (symmetry; apply Z.eqb_neq; lia).
        replace (Z.of_nat (Z.to_nat m) - Z.of_nat 0 =? m) with true in U by (symmetry; apply Z.eqb_eq; lia).
        replace (Z.of_nat (Z.to_nat (2 * m)) - Z.of_nat (Z.to_nat m) =? m) with true in U by (symmetry; apply Z.eqb_eq; lia).
        replace (Z.of_nat (Z.to_nat m) - Z.of_nat (Z.to_nat (2 * m)) =? m) with false in U by (symmetry; apply Z.eqb_neq; lia).
        lia.
      - lia.
      - unfold n. lia.
      - intros k Hk H0 H2. unfold tun_entry at 1, r.
        replace (Z.of_nat k - Z.of_nat (Z.to_nat m) =? m) with false by (symmetry; apply Z.eqb_neq; lia).
        replace (Z.of_nat (Z.to_nat m) - Z.of_nat k =? m) with false by (symmetry; apply Z.eqb_neq; lia). lia. }
    destruct (Z.eq_dec (2 * m) N) as [E|NE]; [lia|].
    (* 2m > N: row N - m is empty *)
    set (r := Z.to_nat (N - m)).
    specialize (U r r ltac:(unfold n, r; lia) ltac:(unfold n, r; lia)). unfold mmul in U.
    rewrite (sumn_zero Z 0 1 Z.add Z.mul Z.sub Z.opp Zth) in U.
    + rewrite Nat.eqb_refl in U. lia.
    + intros k Hk. unfold tun_entry at 1, r.
      replace (Z.of_nat k - Z.of_nat (Z.to_nat (N - m)) =? m) with false by (symmetry; apply Z.eqb_neq; unfold n in *; lia).
      replace (Z.of_nat (Z.to_nat (N - m)) - Z.of_nat k =? m) with false by (symmetry; apply Z.eqb_neq; lia). lia.
Qed.
Close Scope Z_scope.

(* ================================================ charge(Nmax, Nmin, frac) *)
Open Scope Z_scope.
Lemma abs1_sq x : (Z.abs x =? 1) = (x * x =? 1).
Proof.
  destruct (Z.eqb_spec (Z.abs x) 1) as [E|E]; symmetry; [apply Z.eqb_eq|apply Z.eqb_neq]; nia.
Qed.

Lemma charge_ok Nmax Nmin frac : Nmin <= Nmax ->
  exists t, charge_diag Nmax Nmin frac = Ok t /\ dim t = Z.to_nat (Nmax - Nmin + 1) /\
    forall i j, (i < Z.to_nat (Nmax - Nmin + 1))%nat -> (j < Z.to_nat (Nmax - Nmin + 1))%nat ->
      zentry t i j = if (i =? j)%nat then frac * (Nmin + Z.of_nat i) else 0.
Proof.
  intros H. unfold charge_diag.
  destruct (arange_nonempty Nmin (Nmax + 1)) as (x & r & E); [lia|].
  rewrite E. cbn [map]. rewrite diags_single. eexists; split; [reflexivity|].
  cbn [dim]. change (frac * x :: map (Z.mul frac) r) with (map (Z.mul frac) (x :: r)).
  rewrite <- E, map_length, arange_length. split; [simpl; f_equal; lia|].
  intros i j Hi Hj. rewrite zentry_single.
  destruct (Z.eqb_spec (Z.of_nat j - Z.of_nat i) 0) as [Q|Q].
  - replace (i =? j)%nat with true by (symmetry; apply Nat.eqb_eq; lia). cbn.
    rewrite (nth_indep _ 0 (frac * 0)) by (rewrite map_length, arange_length; lia).
    rewrite map_nth, arange_nth by lia. reflexivity.
  - replace (i =? j)%nat with false by (symmetry; apply Nat.eqb_neq; lia). reflexivity.
Qed.

(* the literal  (len(diag) <= 2) and all(|diag| == 1)  says exactly "the
   diagonal matrix is unitary" (consecutive multiples cannot both be +-1, so
   the length test never changes the answer) *)
Lemma charge_flag_exact Nmax Nmin frac :
  charge_isunitary Nmax Nmin frac =
  forallb (fun x => x * x =? 1) (map (Z.mul frac) (arange Nmin (Nmax + 1))).
Proof.
  unfold charge_isunitary. cbv zeta.
  set (d := map (Z.mul frac) (arange Nmin (Nmax + 1))).
  rewrite (forallb_ext (fun x => Z.abs x =? 1) (fun x => x * x =? 1) d abs1_sq).
  destruct (forallb (fun x => x * x =? 1) d) eqn:F; [|apply andb_false_r].
  rewrite andb_true_r. apply Nat.leb_le.
  destruct (Nat.le_gt_cases (length d) 1) as [L|G]; [lia|exfalso].
  assert (Ld : length d = Z.to_nat (Nmax + 1 - Nmin)) by (unfold d; now rewrite map_length, arange_length).
  rewrite forallb_forall in F.
  assert (E0 : nth 0 d 0 = frac * Nmin).
  { unfold d. rewrite (nth_indep _ 0 (frac * 0)) by (rewrite map_length, arange_length; lia).
    rewrite map_nth, arange_nth by lia. f_equal. lia. }
  assert (E1 : nth 1 d 0 = frac * (Nmin + 1)).
  { unfold d. rewrite (nth_indep _ 0 (frac * 0)) by (rewrite map_length, arange_length; lia).
    rewrite map_nth, arange_nth by lia. reflexivity. }
  assert (H0 : (0 < length d)%nat) by lia.
  pose proof (F _ (@nth_In Z 0%nat d 0 H0)) as F0. rewrite E0 in F0. apply Z.eqb_eq in F0.
  pose proof (F _ (@nth_In Z 1%nat d 0 G)) as F1. rewrite E1 in F1. apply Z.eqb_eq in F1.
  assert (frac * frac = 1) by nia. nia.
Qed.
Close Scope Z_scope.

(* closed form of the swap table *)
Lemma swap_col_formula_ok N M r : (r < M * N)%nat ->
  Z.of_nat (swap_col N M r) = swap_col_formula (Z.of_nat N) (Z.of_nat M) (Z.of_nat r).
Proof.
  intros Hr. destruct (Nat.eq_dec N 0) as [->|HN]; [lia|].
  pose proof (Nat.div_mod r N HN) as E.
  assert (Hq : (r / N < M)%nat) by (apply Nat.div_lt_upper_bound; lia).
  assert (Hm : (r mod N < N)%nat) by (apply Nat.mod_upper_bound; lia).
  unfold swap_col_formula. rewrite <- Nat2Z.inj_mod, <- Nat2Z.inj_div, <- Nat2Z.inj_mul, <- Nat2Z.inj_add.
  f_equal. rewrite E at 1.
  replace (N * (r / N) + r mod N)%nat with ((r / N) * N + r mod N)%nat by lia.
  rewrite swap_col_exchange by assumption. lia.
Qed.
