(* C10 - proofs about the Runge-Kutta kernel model (Model/C10.v).

   1. The kernel commutes with every structure-preserving map h between two
      state spaces (h additive, homogeneous, intertwining the right-hand
      sides): stage values, front value, dense-output value and whole
      integrate-sessions.  No algebraic law is needed for this: it is the
      statement that the kernel only ever touches the state through
      `+`, `scalar *` and the right-hand side.
   2. For a state space that satisfies the module laws and a linear,
      time-independent right-hand side L, the value of a step is the
      polynomial computed by running the *same kernel code* symbolically
      (states = polynomials, rhs = multiplication by x), evaluated at L. *)
From Coq Require Import List ZArith QArith Bool Lia.
Import ListNotations.
From QV Require Import Model.C10_trees Model.C10.

Section Hom.
Variables C V1 V2 : Type.
Variables cadd cmul csub cdiv : C -> C -> C.
Variable czero : C.
Variable ciszero : C -> bool.
Variables cltb ceqb : C -> C -> bool.
Variable vadd1 : V1 -> V1 -> V1.
Variable vscal1 : C -> V1 -> V1.
Variable F1 : C -> V1 -> V1.
Variable vadd2 : V2 -> V2 -> V2.
Variable vscal2 : C -> V2 -> V2.
Variable F2 : C -> V2 -> V2.
Variable h : V1 -> V2.
Hypothesis h_add : forall u v, h (vadd1 u v) = vadd2 (h u) (h v).
Hypothesis h_scal : forall c v, h (vscal1 c v) = vscal2 c (h v).
Hypothesis h_F : forall t v, h (F1 t v) = F2 t (h v).
Variable tb : tableau C.

Notation iadd1 := (iadd C V1 ciszero vadd1 vscal1).
Notation iadd2 := (iadd C V2 ciszero vadd2 vscal2).
Notation acc1 := (accumulate C V1 cmul ciszero vadd1 vscal1).
Notation acc2 := (accumulate C V2 cmul ciszero vadd2 vscal2).
Notation stage1 := (stage C V1 cadd cmul czero ciszero vadd1 vscal1 F1 tb).
Notation stage2 := (stage C V2 cadd cmul czero ciszero vadd2 vscal2 F2 tb).
Notation stages1 := (stages_from C V1 cadd cmul czero ciszero vadd1 vscal1 F1 tb).
Notation stages2 := (stages_from C V2 cadd cmul czero ciszero vadd2 vscal2 F2 tb).
Notation cks1 := (compute_ks C V1 cadd cmul czero ciszero vadd1 vscal1 F1 tb).
Notation cks2 := (compute_ks C V2 cadd cmul czero ciszero vadd2 vscal2 F2 tb).
Notation front1 := (front_of C V1 cmul ciszero vadd1 vscal1 tb).
Notation front2 := (front_of C V2 cmul ciszero vadd2 vscal2 tb).
Notation cstep1 := (compute_step C V1 cadd cmul czero ciszero vadd1 vscal1 F1 tb).
Notation cstep2 := (compute_step C V2 cadd cmul czero ciszero vadd2 vscal2 F2 tb).
Notation prep1 := (prep_dense_out C V1 cadd cmul czero ciszero vadd1 vscal1 F1 tb).
Notation prep2 := (prep_dense_out C V2 cadd cmul czero ciszero vadd2 vscal2 F2 tb).
Notation interp1 := (interpolate_step C V1 cadd cmul czero ciszero vadd1 vscal1 tb).
Notation interp2 := (interpolate_step C V2 cadd cmul czero ciszero vadd2 vscal2 tb).

Lemma iadd_hom l r c : h (iadd1 l r c) = iadd2 (h l) (h r) c.
Proof. unfold iadd. destruct (ciszero c); [reflexivity|]. now rewrite h_add, h_scal. Qed.

Lemma acc_hom size : forall factors ks target dt,
  h (acc1 target factors dt ks size) = acc2 (h target) factors dt (map h ks) size.
Proof.
  induction size as [|n IH]; intros factors ks target dt; [reflexivity|].
  destruct factors as [|f fs]; [reflexivity|].
  destruct ks as [|k ks']; [reflexivity|].
  simpl. rewrite IH, iadd_hom. reflexivity.
Qed.

Lemma stage_hom t y dt i ks : h (stage1 t y dt i ks) = stage2 t (h y) dt i (map h ks).
Proof. unfold stage. now rewrite h_F, acc_hom. Qed.

Lemma stages_hom n : forall t y dt i ks,
  map h (stages1 t y dt i n ks) = stages2 t (h y) dt i n (map h ks).
Proof.
  induction n as [|n IH]; intros t y dt i ks; [reflexivity|].
  simpl. rewrite IH, map_app. simpl. now rewrite stage_hom.
Qed.

Lemma compute_ks_hom t y dt : map h (cks1 t y dt) = cks2 t (h y) dt.
Proof. unfold compute_ks. rewrite stages_hom. simpl. now rewrite h_F. Qed.

Lemma front_hom y dt ks : h (front1 y dt ks) = front2 (h y) dt (map h ks).
Proof. unfold front_of. apply acc_hom. Qed.

Lemma compute_step_hom t y dt : h (cstep1 t y dt) = cstep2 t (h y) dt.
Proof. unfold compute_step. now rewrite front_hom, compute_ks_hom. Qed.

Lemma prep_hom t y dt ks : map h (prep1 t y dt ks) = prep2 t (h y) dt (map h ks).
Proof. unfold prep_dense_out. apply stages_hom. Qed.

Lemma interp_hom y dt tau ks : h (interp1 y dt tau ks) = interp2 (h y) dt tau (map h ks).
Proof. unfold interpolate_step. apply acc_hom. Qed.

(* whole sessions of the integrator object *)
Definition hst (s : rkstate C V1) : rkstate C V2 :=
  mk_rkstate C V2 (st_t _ _ s) (h (st_y _ _ s)) (st_tprev _ _ s) (h (st_yprev _ _ s))
             (st_tfront _ _ s) (h (st_yfront _ _ s)) (map h (st_ks _ _ s)) (st_dt _ _ s).

Notation dostep1 := (do_step C V1 cadd cmul csub czero ciszero vadd1 vscal1 F1 tb).
Notation dostep2 := (do_step C V2 cadd cmul csub czero ciszero vadd2 vscal2 F2 tb).
Notation loop1 := (step_loop C V1 cadd cmul csub czero ciszero cltb vadd1 vscal1 F1 tb).
Notation loop2 := (step_loop C V2 cadd cmul csub czero ciszero cltb vadd2 vscal2 F2 tb).
Notation integ1 := (integrate C V1 cadd cmul csub cdiv czero ciszero cltb ceqb vadd1 vscal1 F1 tb).
Notation integ2 := (integrate C V2 cadd cmul csub cdiv czero ciszero cltb ceqb vadd2 vscal2 F2 tb).
Notation sess1 := (session C V1 cadd cmul csub cdiv czero ciszero cltb ceqb vadd1 vscal1 F1 tb).
Notation sess2 := (session C V2 cadd cmul csub cdiv czero ciszero cltb ceqb vadd2 vscal2 F2 tb).

Lemma do_step_hom hh t s : hst (dostep1 hh t s) = dostep2 hh t (hst s).
Proof.
  unfold do_step, hst, get_timestep. simpl.
  rewrite front_hom, !compute_ks_hom. reflexivity.
Qed.

Lemma loop_hom fuel : forall hh t s,
  option_map hst (loop1 fuel hh t s) = loop2 fuel hh t (hst s).
Proof.
  induction fuel as [|f IH]; intros hh t s; simpl.
  - destruct (cltb (st_tfront C V1 s) t); reflexivity.
  - destruct (cltb (st_tfront C V1 s) t); [|reflexivity].
    rewrite IH, do_step_hom. reflexivity.
Qed.

Lemma integrate_hom fuel hh t s :
  option_map hst (integ1 fuel hh t s) = integ2 fuel hh t (hst s).
Proof.
  unfold integrate. simpl.
  destruct (ceqb t (st_t C V1 s)); [reflexivity|].
  destruct (cltb t (st_tprev C V1 s)); [reflexivity|].
  rewrite <- loop_hom.
  destruct (loop1 fuel hh t s) as [s1|]; [|reflexivity]. simpl.
  destruct (cltb t (st_tfront C V1 s1)); simpl; [|reflexivity].
  unfold hst at 1. simpl. rewrite interp_hom, !prep_hom. reflexivity.
Qed.

Definition hobs (o : option (C * V1)) : option (C * V2) :=
  option_map (fun p => (fst p, h (snd p))) o.

Lemma session_hom fuel hh ts : forall s,
  map hobs (sess1 fuel hh ts s) = sess2 fuel hh ts (hst s).
Proof.
  induction ts as [|t r IH]; intros s; [reflexivity|]. simpl.
  rewrite <- integrate_hom.
  destruct (integ1 fuel hh t s) as [s1|]; [|reflexivity]. simpl.
  rewrite IH. reflexivity.
Qed.
End Hom.

(* ===================================================================== *)
(* Linear, time-independent right-hand side: a step is a polynomial in L. *)
Section Linear.
Variables C V : Type.
Variables cadd cmul : C -> C -> C.
Variables czero cone : C.
Variable ciszero : C -> bool.
Variable vadd : V -> V -> V.
Variable vscal : C -> V -> V.
Variable vzero : V.
Variable L : V -> V.
Hypothesis vadd_comm : forall u v, vadd u v = vadd v u.
Hypothesis vadd_assoc : forall u v w, vadd u (vadd v w) = vadd (vadd u v) w.
Hypothesis vadd_0_r : forall v, vadd v vzero = v.
Hypothesis vscal_add_l : forall a b v, vscal (cadd a b) v = vadd (vscal a v) (vscal b v).
Hypothesis vscal_add_r : forall c u v, vscal c (vadd u v) = vadd (vscal c u) (vscal c v).
Hypothesis vscal_mul : forall a b v, vscal (cmul a b) v = vscal a (vscal b v).
Hypothesis vscal_0 : forall v, vscal czero v = vzero.
Hypothesis vscal_1 : forall v, vscal cone v = v.
Hypothesis vscal_z : forall c, vscal c vzero = vzero.
Hypothesis L_add : forall u v, L (vadd u v) = vadd (L u) (L v).
Hypothesis L_scal : forall c v, L (vscal c v) = vscal c (L v).

Variable y : V.
(* p(L) y, Horner form: sum_j p_j L^j y *)
Fixpoint peval (p : list C) : V :=
  match p with
  | [] => vzero
  | c :: p' => vadd (vscal c y) (L (peval p'))
  end.

Lemma L_zero : L vzero = vzero.
Proof.
  transitivity (L (vscal czero y)); [now rewrite vscal_0|].
  rewrite L_scal. apply vscal_0.
Qed.

Lemma vadd_0_l v : vadd vzero v = v.
Proof. rewrite vadd_comm. apply vadd_0_r. Qed.

Lemma peval_padd p : forall q,
  peval (padd C cadd p q) = vadd (peval p) (peval q).
Proof.
  induction p as [|a p IH]; intros q; simpl.
  - now rewrite vadd_0_l.
  - destruct q as [|b q]; simpl.
    + now rewrite vadd_0_r.
    + rewrite IH, vscal_add_l, L_add.
      rewrite !vadd_assoc. f_equal.
      rewrite <- !vadd_assoc. f_equal. apply vadd_comm.
Qed.

Lemma peval_pscal c p : peval (pscal C cmul c p) = vscal c (peval p).
Proof.
  induction p as [|a p IH]; simpl.
  - now rewrite vscal_z.
  - unfold pscal in *. simpl. rewrite IH, vscal_add_r, vscal_mul, L_scal. reflexivity.
Qed.

Lemma peval_pshift p : peval (pshift C czero p) = L (peval p).
Proof. unfold pshift. simpl. now rewrite vscal_0, vadd_0_l. Qed.

Lemma peval_one : peval [cone] = y.
Proof. simpl. now rewrite vscal_1, L_zero, vadd_0_r. Qed.

Variable tb : tableau C.

(* one step: the kernel on V equals the symbolic run of the kernel,
   evaluated at L and applied to y *)
Lemma step_is_polynomial (t dt : C) :
  compute_step C V cadd cmul czero ciszero vadd vscal (fun _ => L) tb t y dt
  = peval (compute_step C (list C) cadd cmul czero ciszero
                        (padd C cadd) (pscal C cmul) (fun _ => pshift C czero) tb t [cone] dt).
Proof.
  rewrite (compute_step_hom C (list C) V cadd cmul czero ciszero
             (padd C cadd) (pscal C cmul) (fun _ => pshift C czero)
             vadd vscal (fun _ => L) peval).
  - now rewrite peval_one.
  - intros u v. apply peval_padd.
  - intros c v. apply peval_pscal.
  - intros _ v. apply peval_pshift.
Qed.

(* dense output likewise *)
Lemma dense_is_polynomial (t dt tau : C) :
  let ks := compute_ks C V cadd cmul czero ciszero vadd vscal (fun _ => L) tb t y dt in
  let ks' := prep_dense_out C V cadd cmul czero ciszero vadd vscal (fun _ => L) tb t y dt ks in
  let ps := compute_ks C (list C) cadd cmul czero ciszero
                        (padd C cadd) (pscal C cmul) (fun _ => pshift C czero) tb t [cone] dt in
  let ps' := prep_dense_out C (list C) cadd cmul czero ciszero
                        (padd C cadd) (pscal C cmul) (fun _ => pshift C czero) tb t [cone] dt ps in
  interpolate_step C V cadd cmul czero ciszero vadd vscal tb y dt tau ks'
  = peval (interpolate_step C (list C) cadd cmul czero ciszero
                        (padd C cadd) (pscal C cmul) tb [cone] dt tau ps').
Proof.
  intros ks ks' ps ps'.
  assert (HA : forall u v, peval (padd C cadd u v) = vadd (peval u) (peval v))
    by (intros; apply peval_padd).
  assert (HS : forall c v, peval (pscal C cmul c v) = vscal c (peval v))
    by (intros; apply peval_pscal).
  assert (HF : forall (t : C) v, peval (pshift C czero v) = L (peval v))
    by (intros; apply peval_pshift).
  rewrite (interp_hom C (list C) V cadd cmul czero ciszero
             (padd C cadd) (pscal C cmul) vadd vscal peval HA HS).
  unfold ps', ps.
  rewrite (prep_hom C (list C) V cadd cmul czero ciszero
             (padd C cadd) (pscal C cmul) (fun _ => pshift C czero)
             vadd vscal (fun _ => L) peval HA HS HF).
  rewrite (compute_ks_hom C (list C) V cadd cmul czero ciszero
             (padd C cadd) (pscal C cmul) (fun _ => pshift C czero)
             vadd vscal (fun _ => L) peval HA HS HF).
  rewrite peval_one. reflexivity.
Qed.
End Linear.

(* ===================================================================== *)

(* Step size and generator enter only through the product dt * L:
   a step of size dt with right-hand side L is a step of size 1 with
   right-hand side dt.L (same tableau, same state). *)
Section Scaling.
Variables C V : Type.
Variables cadd cmul : C -> C -> C.
Variables czero cone : C.
Variable ciszero : C -> bool.
Variable vadd : V -> V -> V.
Variable vscal : C -> V -> V.
Variable vzero : V.
Variable L : V -> V.
Hypothesis cmul_comm : forall a b, cmul a b = cmul b a.
Hypothesis cmul_1_l : forall a, cmul cone a = a.
Hypothesis vadd_0_r : forall v, vadd v vzero = v.
Hypothesis vscal_mul : forall a b v, vscal (cmul a b) v = vscal a (vscal b v).
Hypothesis ciszero_sound : forall c v, ciszero c = true -> vscal c v = vzero.
Variable tb : tableau C.
Variable dt : C.

Let Ls (v : V) : V := vscal dt (L v).

Notation acc := (accumulate C V cmul ciszero vadd vscal).

Lemma iadd_sem l r c : iadd C V ciszero vadd vscal l r c = vadd l (vscal c r).
Proof.
  unfold iadd. destruct (ciszero c) eqn:E; [|reflexivity].
  now rewrite (ciszero_sound c r E), vadd_0_r.
Qed.

Lemma acc_scaled size : forall factors ks target,
  acc target factors dt ks size = acc target factors cone (map (vscal dt) ks) size.
Proof.
  induction size as [|n IH]; intros factors ks target; [reflexivity|].
  destruct factors as [|f fs]; [reflexivity|].
  destruct ks as [|k ks']; [reflexivity|].
  simpl. rewrite IH. f_equal. rewrite !iadd_sem. f_equal.
  rewrite cmul_1_l, cmul_comm, vscal_mul. reflexivity.
Qed.

Lemma stages_scaled n : forall t y i ks,
  map (vscal dt)
      (stages_from C V cadd cmul czero ciszero vadd vscal (fun _ => L) tb t y dt i n ks)
  = stages_from C V cadd cmul czero ciszero vadd vscal (fun _ => Ls) tb t y cone i n
                (map (vscal dt) ks).
Proof.
  induction n as [|n IH]; intros t y i ks; [reflexivity|].
  simpl. rewrite IH, map_app. simpl. f_equal. f_equal. f_equal.
  unfold stage, Ls. now rewrite acc_scaled.
Qed.

Lemma step_scaled t y :
  compute_step C V cadd cmul czero ciszero vadd vscal (fun _ => L) tb t y dt
  = compute_step C V cadd cmul czero ciszero vadd vscal (fun _ => Ls) tb t y cone.
Proof.
  unfold compute_step, front_of, compute_ks.
  rewrite acc_scaled, stages_scaled. reflexivity.
Qed.
End Scaling.

(* both together: y_front = sum_j p_j (dt L)^j y_prev with p the symbolic run
   of the kernel at step size 1 *)
Section TaylorForm.
Variables C V : Type.
Variables cadd cmul : C -> C -> C.
Variables czero cone : C.
Variable ciszero : C -> bool.
Variable vadd : V -> V -> V.
Variable vscal : C -> V -> V.
Variable vzero : V.
Variable L : V -> V.
Hypothesis cmul_comm : forall a b, cmul a b = cmul b a.
Hypothesis cmul_1_l : forall a, cmul cone a = a.
Hypothesis ciszero_sound : forall c v, ciszero c = true -> vscal c v = vzero.
Hypothesis vadd_comm : forall u v, vadd u v = vadd v u.
Hypothesis vadd_assoc : forall u v w, vadd u (vadd v w) = vadd (vadd u v) w.
Hypothesis vadd_0_r : forall v, vadd v vzero = v.
Hypothesis vscal_add_l : forall a b v, vscal (cadd a b) v = vadd (vscal a v) (vscal b v).
Hypothesis vscal_add_r : forall c u v, vscal c (vadd u v) = vadd (vscal c u) (vscal c v).
Hypothesis vscal_mul : forall a b v, vscal (cmul a b) v = vscal a (vscal b v).
Hypothesis vscal_0 : forall v, vscal czero v = vzero.
Hypothesis vscal_1 : forall v, vscal cone v = v.
Hypothesis vscal_z : forall c, vscal c vzero = vzero.
Hypothesis L_add : forall u v, L (vadd u v) = vadd (L u) (L v).
Hypothesis L_scal : forall c v, L (vscal c v) = vscal c (L v).

Lemma step_taylor_form (tb : tableau C) (t dt : C) (y : V) :
  compute_step C V cadd cmul czero ciszero vadd vscal (fun _ => L) tb t y dt
  = peval C V vadd vscal vzero (fun v => vscal dt (L v)) y
      (compute_step C (list C) cadd cmul czero ciszero
         (padd C cadd) (pscal C cmul) (fun _ => pshift C czero) tb t [cone] cone).
Proof.
  rewrite (step_scaled C V cadd cmul czero cone ciszero vadd vscal vzero L
             cmul_comm cmul_1_l vadd_0_r vscal_mul ciszero_sound tb dt t y).
  apply (step_is_polynomial C V cadd cmul czero cone ciszero vadd vscal vzero
           (fun v => vscal dt (L v))); auto.
  - intros u v. now rewrite L_add, vscal_add_r.
  - intros c v. rewrite L_scal, <- !vscal_mul. now rewrite cmul_comm.
Qed.
End TaylorForm.

(* ===================================================================== *)
(* State packing: unstack . stack = id on the index level, for every shape *)
Lemma unstack_stack_fun {A} (n : nat) (X : nat -> nat -> A) i j :
  (i < n)%nat -> unstack_fun n (stack_fun n X) i j = X i j.
Proof.
  intros Hi. unfold unstack_fun, stack_fun, stack_idx.
  assert (Hn : n <> 0%nat) by lia.
  rewrite Nat.add_comm, Nat.mod_add by exact Hn.
  rewrite Nat.div_add by exact Hn.
  rewrite Nat.mod_small, Nat.div_small by exact Hi. reflexivity.
Qed.

Lemma stack_unstack_fun {A} (n : nat) (v : nat -> A) k :
  (0 < n)%nat -> stack_fun n (unstack_fun n v) k = v k.
Proof.
  intros Hn. unfold unstack_fun, stack_fun, stack_idx. f_equal.
  assert (Hn' : n <> 0%nat) by lia.
  pose proof (Nat.div_mod k n Hn') as H.
  rewrite (Nat.mul_comm (k / n) n). symmetry. exact H.
Qed.

(* the stacked index is a bijection [0,n) x [0,m) -> [0, n*m) *)
Lemma stack_idx_range n m i j : (i < n)%nat -> (j < m)%nat -> (stack_idx n i j < n * m)%nat.
Proof. intros. unfold stack_idx. nia. Qed.
Lemma stack_idx_inj n i j i' j' :
  (i < n)%nat -> (i' < n)%nat -> stack_idx n i j = stack_idx n i' j' -> i = i' /\ j = j'.
Proof.
  intros Hi Hi' H. assert (Hn : n <> 0%nat) by lia.
  assert (M : forall a b, (a < n)%nat -> Nat.modulo (stack_idx n a b) n = a /\ Nat.div (stack_idx n a b) n = b).
  { intros a b Ha. unfold stack_idx. rewrite Nat.add_comm, Nat.mod_add, Nat.div_add by exact Hn.
    rewrite Nat.mod_small, Nat.div_small by exact Ha. split; reflexivity. }
  destruct (M i j Hi) as [A1 A2]. destruct (M i' j' Hi') as [B1 B2].
  rewrite H in A1, A2. split; congruence.
Qed.
