(* C17 - the open-system drift and diffusion terms (ssystem.pyx
   StochasticOpenSystem) over an arbitrary commutative ring with an
   involutive conjugation, matrices of arbitrary dimension (MathComp); they
   satisfy the hypotheses of the generic scheme theorems of Proofs/C17_sde.v:
   traceless drift, traceless diffusion on trace-one states, Hermiticity
   kept.  The definitions mirror, term by term, the executable ones at the
   end of Model/C17_sde.v (open_drift, Cop, open_diff, open_Lb, open_sys). *)
From Coq Require Import Ring_theory.
From mathcomp Require Import all_ssreflect all_algebra.
From QV Require Import Model.C17_sde Proofs.C17_sde.
Set Implicit Arguments.
Unset Strict Implicit.
Unset Printing Implicit Defensive.
Import GRing.Theory.
Local Open Scope ring_scope.

Section Lindblad.
Variable (R : comRingType) (conj : {rmorphism R -> R}).
Hypothesis conjK : involutive conj.
(* imag stands for i, halfr for 1/2: only these facts are used *)
Variables (imag halfr : R).
Hypothesis conj_i : conj imag = - imag.
Hypothesis conj_half : conj halfr = halfr.
Hypothesis half2 : halfr + halfr = 1.
Variable n : nat.
Notation M := 'M[R]_n.

Definition dagger (A : M) : M := map_mx conj A^T.

Lemma dagger_mul A B : dagger (A *m B) = dagger B *m dagger A.
Proof. by rewrite /dagger trmx_mul map_mxM. Qed.
Lemma dagger_add A B : dagger (A + B) = dagger A + dagger B.
Proof. by rewrite /dagger linearD /= map_mxD. Qed.
Lemma dagger_opp A : dagger (- A) = - dagger A.
Proof. by rewrite /dagger linearN /= map_mxN. Qed.
Lemma dagger_sub A B : dagger (A - B) = dagger A - dagger B.
Proof. by rewrite dagger_add dagger_opp. Qed.
Lemma dagger_scale a A : dagger (a *: A) = conj a *: dagger A.
Proof. by rewrite /dagger linearZ /= map_mxZ. Qed.
Lemma daggerK A : dagger (dagger A) = A.
Proof. by apply/matrixP=> i j; rewrite !mxE conjK. Qed.
Lemma tr_dagger A : \tr (dagger A) = conj (\tr A).
Proof. by rewrite /dagger trace_map_mx mxtrace_tr. Qed.
Lemma dagger_sum (l : seq M) (F : M -> M) :
  dagger (\sum_(c <- l) F c) = \sum_(c <- l) dagger (F c).
Proof.
  elim: l => [|c l IH]; first by rewrite !big_nil /dagger linear0 map_mx0.
  by rewrite !big_cons dagger_add IH.
Qed.

Definition herm (A : M) : Prop := dagger A = A.
Definition real (x : R) : Prop := conj x = x.

(* one Lindblad dissipator, the drift, the diffusion and its derivative *)
Definition lind (c rho : M) : M :=
  c *m rho *m dagger c - halfr *: (dagger c *m c *m rho + rho *m (dagger c *m c)).
Definition Ldrift (H : M) (ops : seq M) (rho : M) : M :=
  (- imag) *: (H *m rho - rho *m H) + \sum_(c <- ops) lind c rho.
Definition Cop (c x : M) : M := c *m x + x *m dagger c.
Definition bdiff (c rho : M) : M := Cop c rho - (\tr (Cop c rho)) *: rho.
Definition Lb (ci cj rho : M) : M :=
  let bj := bdiff cj rho in
  Cop ci bj - (\tr (Cop ci rho)) *: bj - (\tr (Cop ci bj)) *: rho.
Definition re (x : R) : R := halfr * (x + conj x).

(* ------------------------------------------------------------- traces *)
Lemma tr_lind c rho : \tr (lind c rho) = 0.
Proof.
  rewrite /lind linearB /= linearZ /= linearD /=.
  rewrite [\tr (c *m rho *m dagger c)]mxtrace_mulC mulmxA.
  rewrite [\tr (rho *m _)]mxtrace_mulC.
  by rewrite mulrDr -mulrDl half2 mul1r subrr.
Qed.

Lemma tr_drift H ops rho : \tr (Ldrift H ops rho) = 0.
Proof.
  rewrite /Ldrift linearD /= linearZ /= linearB /= [\tr (rho *m H)]mxtrace_mulC subrr mulr0 add0r.
  rewrite raddf_sum /= big1_seq // => c _. exact: tr_lind.
Qed.

Lemma tr_bdiff c rho : \tr rho = 1 -> \tr (bdiff c rho) = 0.
Proof. by move=> H1; rewrite /bdiff linearB /= linearZ /= H1 mulr1 subrr. Qed.

Lemma tr_Lb ci cj rho : \tr rho = 1 -> \tr (Lb ci cj rho) = 0.
Proof.
  move=> H1. have Hb := tr_bdiff cj H1. rewrite /Lb.
  move: Hb; set bj := bdiff cj rho => Hb. lazy zeta.
  rewrite 2!raddfB /=. rewrite !mxtraceZ H1 Hb mulr0 subr0 mulr1.
  by rewrite subrr.
Qed.

(* ---------------------------------------------------------- Hermiticity *)
Lemma herm_add A B : herm A -> herm B -> herm (A + B).
Proof. by rewrite /herm dagger_add => -> ->. Qed.
Lemma herm_scale a A : real a -> herm A -> herm (a *: A).
Proof. by rewrite /herm /real dagger_scale => -> ->. Qed.
Lemma herm_opp A : herm A -> herm (- A).
Proof. by rewrite /herm dagger_opp => ->. Qed.
Lemma real_tr A : herm A -> real (\tr A).
Proof. by rewrite /herm /real -tr_dagger => ->. Qed.

Lemma herm_lind c rho : herm rho -> herm (lind c rho).
Proof.
  move=> Hr. rewrite /herm /lind dagger_sub dagger_scale conj_half dagger_add.
  rewrite !dagger_mul !daggerK Hr !mulmxA. congr (_ - _ *: _). by rewrite addrC.
Qed.

Lemma herm_drift H ops rho : herm H -> herm rho -> herm (Ldrift H ops rho).
Proof.
  move=> HH Hr. apply: herm_add.
  - rewrite /herm dagger_scale rmorphN conj_i opprK dagger_sub !dagger_mul HH Hr.
    by rewrite scaleNr -scalerN opprB.
  - rewrite /herm dagger_sum. apply: eq_big_seq => c _. exact: herm_lind.
Qed.

Lemma herm_Cop c x : herm x -> herm (Cop c x).
Proof. by move=> Hx; rewrite /herm /Cop dagger_add !dagger_mul daggerK Hx addrC. Qed.

Lemma herm_bdiff c rho : herm rho -> herm (bdiff c rho).
Proof.
  move=> Hr. apply: herm_add; first exact: herm_Cop.
  apply: herm_opp. apply: herm_scale => //. apply: real_tr. exact: herm_Cop.
Qed.

Lemma herm_Lb ci cj rho : herm rho -> herm (Lb ci cj rho).
Proof.
  move=> Hr. have Hb := herm_bdiff cj Hr. rewrite /Lb /=.
  apply: herm_add; first apply: herm_add.
  - exact: herm_Cop.
  - apply: herm_opp. apply: herm_scale => //. apply: real_tr. exact: herm_Cop.
  - apply: herm_opp. apply: herm_scale => //. apply: real_tr. exact: herm_Cop.
Qed.

Lemma real_re x : real (re x).
Proof. by rewrite /real /re rmorphM rmorphD /= conjK conj_half addrC. Qed.

(* ------------------------------ the instance of Model/C17_sde's records *)
Definition mc_alg : alg R M :=
  {| k0 := 0; k1 := 1; kadd := +%R; kmul := *%R; ksub := fun x y => x - y; kopp := -%R;
     half := halfr; quarter := halfr * halfr;
     vadd := +%R; vscale := *:%R |}.

Definition mc_sys (H : M) (sc_ops c_ops : seq M) : sys R M :=
  {| nops := size sc_ops;
     drift := Ldrift H (sc_ops ++ c_ops);
     diff := fun i rho => bdiff (nth 0 sc_ops i) rho;
     Lbij := fun i j rho =>
               let: (i, j) := if (j < i)%N then (j, i) else (i, j) in
               Lb (nth 0 sc_ops i) (nth 0 sc_ops j) rho;
     expect_re := fun i rho => re (\tr (Cop (nth 0 sc_ops i) rho)) |}.

Lemma mc_ring : ring_theory (k0 mc_alg) (k1 mc_alg) (kadd mc_alg) (kmul mc_alg)
                            (ksub mc_alg) (kopp mc_alg) (@eq R).
Proof.
  split => /=.
  - exact: add0r.
  - exact: addrC.
  - exact: addrA.
  - exact: mul1r.
  - exact: mulrC.
  - exact: mulrA.
  - exact: mulrDl.
  - by [].
  - exact: subrr.
Qed.

Section Instance.
Variables (H : M) (sc_ops c_ops : seq M).
Let S := mc_sys H sc_ops c_ops.

Lemma mc_tr_add (x y : M) : \tr (vadd mc_alg x y) = kadd mc_alg (\tr x) (\tr y).
Proof. exact: linearD. Qed.
Lemma mc_tr_scale (c : R) (x : M) : \tr (vscale mc_alg c x) = kmul mc_alg c (\tr x).
Proof. exact: linearZ. Qed.
Lemma mc_tr_a v : \tr (drift S v) = k0 mc_alg.
Proof. exact: tr_drift. Qed.
Lemma mc_tr_b i v : \tr v = k1 mc_alg -> \tr (diff S i v) = k0 mc_alg.
Proof. exact: tr_bdiff. Qed.
Lemma mc_tr_Lb i j v : \tr v = k1 mc_alg -> \tr (Lbij S i j v) = k0 mc_alg.
Proof. by move=> H1 /=; case: ifP => _; exact: tr_Lb. Qed.

(* closure hypotheses for P = herm, R = real *)
Lemma real_add x y : real x -> real y -> real (x + y).
Proof. by rewrite /real rmorphD => -> ->. Qed.
Lemma real_mul x y : real x -> real y -> real (x * y).
Proof. by rewrite /real rmorphM => -> ->. Qed.
Lemma real_opp x : real x -> real (- x).
Proof. by rewrite /real rmorphN => ->. Qed.
Lemma real_sub x y : real x -> real y -> real (x - y).
Proof. by move=> hx hy; apply: real_add => //; apply: real_opp. Qed.
Lemma real_1 : real 1.
Proof. exact: rmorph1. Qed.

Hypothesis HH : herm H.
Lemma mc_P_a v : herm v -> herm (drift S v).
Proof. exact: herm_drift. Qed.
Lemma mc_P_b i v : herm v -> herm (diff S i v).
Proof. exact: herm_bdiff. Qed.
Lemma mc_P_Lb i j v : herm v -> herm (Lbij S i j v).
Proof. by move=> Hv /=; case: ifP => _; exact: herm_Lb. Qed.
Lemma mc_R_ex i v : herm v -> real (expect_re S i v).
Proof. by move=> _; exact: real_re. Qed.
End Instance.
End Lindblad.
