(* Proofs for C19, part 8: csr._from_csr_blocks places block (R, c) at rows R*bs.., columns c*bs.. *)
From Coq Require Import List ZArith Bool Arith Lia.
Import ListNotations.
From QV Require Import Model.C19.

Section Csr.
Variable V : Type.
Notation csr := (csr V).
Notation blkop := (nat * nat * csr)%type.

(* ---- the output as a list of appended rows *)
Definition push (a : csr) (r : list nat * list V) : csr :=
  {| ri := ri V a ++ [length (ci_ V a ++ fst r)]; ci_ := ci_ V a ++ fst r;
     dat := dat V a ++ snd r |}.

Lemma out_group_push bs group acc :
  out_group V bs group acc = fold_left push (map (out_row V bs group) (seq 0 bs)) acc.
Proof.
  unfold out_group. generalize (seq 0 bs) as l. intros l. revert acc.
  induction l as [|x l IH]; intros acc; simpl; [reflexivity|]. apply IH.
Qed.

Fixpoint all_rows (bs nrows R : nat) (ops : list blkop) : list (list nat * list V) :=
  match nrows with
  | O => []
  | S m => map (out_row V bs (fst (take_row V R ops))) (seq 0 bs) ++
           all_rows bs m (S R) (snd (take_row V R ops))
  end.

Lemma out_rows_push bs nrows R ops acc :
  out_rows V bs nrows R ops acc = fold_left push (all_rows bs nrows R ops) acc.
Proof.
  revert R ops acc. induction nrows as [|m IH]; intros R ops acc; simpl; [reflexivity|].
  rewrite fold_left_app, <- out_group_push. apply IH.
Qed.

Fixpoint pre (base : nat) (rows : list (list nat * list V)) : list nat :=
  match rows with
  | [] => []
  | r :: t => (base + length (fst r)) :: pre (base + length (fst r)) t
  end.

Lemma push_all rows a :
  let b := fold_left push rows a in
  ri V b = ri V a ++ pre (length (ci_ V a)) rows /\
  ci_ V b = ci_ V a ++ concat (map fst rows) /\
  dat V b = dat V a ++ concat (map snd rows).
Proof.
  revert a. induction rows as [|r t IH]; intros a; simpl.
  - now rewrite !app_nil_r.
  - destruct (IH (push a r)) as (H1 & H2 & H3). rewrite H1, H2, H3. unfold push. simpl.
    rewrite !app_length. rewrite <- !app_assoc. simpl. repeat split; reflexivity.
Qed.

Definition clen (L : list (list nat)) : nat := length (concat L).

Lemma nth_pre base rows i :
  i <= length rows ->
  nth i (base :: pre base rows) 0 = base + clen (map fst (firstn i rows)).
Proof.
  revert base i. induction rows as [|r t IH]; intros base i Hi; simpl in *.
  - assert (i = 0) by lia. subst. unfold clen. simpl. lia.
  - destruct i as [|i]; [unfold clen; simpl; lia|].
    change (nth (S i) (base :: (base + length (fst r)) :: pre (base + length (fst r)) t) 0)
      with (nth i ((base + length (fst r)) :: pre (base + length (fst r)) t) 0).
    rewrite IH by lia. unfold clen. simpl. rewrite app_length. lia.
Qed.

Lemma concat_split {A} (L : list (list A)) i :
  i < length L ->
  concat L = concat (firstn i L) ++ nth i L [] ++ concat (skipn (S i) L).
Proof.
  revert i. induction L as [|x L IH]; intros i Hi; simpl in Hi; [lia|].
  destruct i as [|i]; [reflexivity|]. simpl. rewrite <- app_assoc. f_equal. apply IH. lia.
Qed.

Lemma slice_concat {A} (L : list (list A)) i :
  i < length L ->
  slice (concat L) (length (concat (firstn i L)))
        (length (concat (firstn i L)) + length (nth i L [])) = nth i L [].
Proof.
  intros Hi. unfold slice. rewrite (concat_split L i Hi) at 1.
  replace (length (concat (firstn i L)) + length (nth i L []) - length (concat (firstn i L)))
    with (length (nth i L [])) by lia.
  rewrite skipn_app, skipn_all, Nat.sub_diag. simpl.
  rewrite firstn_app, firstn_all, Nat.sub_diag. simpl. now rewrite app_nil_r.
Qed.

Lemma firstn_map' {A B} (f : A -> B) l i : firstn i (map f l) = map f (firstn i l).
Proof. revert i. induction l as [|x l IH]; intros [|i]; simpl; try reflexivity. now rewrite IH. Qed.

Lemma len_concat_eq (rows : list (list nat * list V)) :
  (forall r, In r rows -> length (fst r) = length (snd r)) ->
  length (concat (map fst rows)) = length (concat (map snd rows)).
Proof.
  induction rows as [|r t IH]; intros H; simpl; [reflexivity|].
  rewrite !app_length, (H r) by (now left). rewrite IH; [reflexivity|].
  intros x Hx. apply H. now right.
Qed.

Lemma nth_map_pair {A B} (f : A -> B) l i d : nth i (map f l) (f d) = f (nth i l d).
Proof. apply map_nth. Qed.

Lemma clen_firstn_S (rows : list (list nat * list V)) i :
  i < length rows ->
  clen (map fst (firstn (S i) rows)) =
  clen (map fst (firstn i rows)) + length (fst (nth i rows ([], []))).
Proof.
  revert i. induction rows as [|r t IH]; intros i Hi; simpl in Hi; [lia|].
  destruct i as [|i]; unfold clen in *; simpl.
  - rewrite app_nil_r. lia.
  - rewrite !app_length. specialize (IH i ltac:(lia)). simpl in IH. lia.
Qed.

Lemma In_firstn' {A} (l : list A) i x : In x (firstn i l) -> In x l.
Proof.
  revert i. induction l as [|y l IH]; intros [|i] H; simpl in *; try tauto.
  destruct H; [now left|right; eapply IH; eassumption].
Qed.

Definition acc0 : csr := {| ri := [0]; ci_ := []; dat := [] |}.

Lemma build_row rows i :
  (forall r, In r rows -> length (fst r) = length (snd r)) -> i < length rows ->
  csr_row V (fold_left push rows acc0) i =
  combine (fst (nth i rows ([], []))) (snd (nth i rows ([], []))).
Proof.
  intros Hlen Hi. destruct (push_all rows acc0) as (H1 & H2 & H3).
  unfold csr_row. rewrite H1, H2, H3. cbn [acc0 ri ci_ dat length app].
  change (0 :: pre 0 rows) with (0 :: pre 0 rows).
  rewrite (nth_pre 0 rows i) by lia. replace (i + 1) with (S i) by lia.
  rewrite (nth_pre 0 rows (S i)) by lia. rewrite clen_firstn_S by assumption.
  cbn [Nat.add].
  f_equal.
  - unfold clen. rewrite <- firstn_map'.
    replace (fst (nth i rows ([], []))) with (nth i (map fst rows) [])
      by (exact (map_nth fst rows ([], []) i)).
    apply slice_concat. now rewrite map_length.
  - assert (E : clen (map fst (firstn i rows)) = length (concat (firstn i (map snd rows)))).
    { unfold clen. rewrite firstn_map'. apply len_concat_eq.
      intros r Hr. apply Hlen. eapply In_firstn'; eassumption. }
    rewrite E.
    replace (length (fst (nth i rows ([], [])))) with (length (nth i (map snd rows) [])).
    2:{ replace (nth i (map snd rows) []) with (snd (nth i rows ([], [])))
          by (symmetry; exact (map_nth snd rows ([], []) i)).
        symmetry. apply Hlen. now apply nth_In. }
    replace (snd (nth i rows ([], []))) with (nth i (map snd rows) [])
      by (exact (map_nth snd rows ([], []) i)).
    apply slice_concat. now rewrite map_length.
Qed.

(* ---- which operators make up block row R *)
Fixpoint grp (R0 R' : nat) (l : list blkop) : list blkop :=
  match R' with
  | O => fst (take_row V R0 l)
  | S R'' => grp (S R0) R'' (snd (take_row V R0 l))
  end.

Lemma all_rows_length bs nrows R ops : length (all_rows bs nrows R ops) = nrows * bs.
Proof.
  revert R ops. induction nrows as [|m IH]; intros R ops; simpl; [reflexivity|].
  now rewrite app_length, map_length, seq_length, IH.
Qed.

Lemma nth_all_rows bs nrows R0 ops R' r :
  R' < nrows -> r < bs ->
  nth (R' * bs + r) (all_rows bs nrows R0 ops) ([], []) = out_row V bs (grp R0 R' ops) r.
Proof.
  revert R0 ops R'. induction nrows as [|m IH]; intros R0 ops R' HR Hr; [lia|].
  simpl all_rows. destruct R' as [|R''].
  - simpl. rewrite app_nth1 by (now rewrite map_length, seq_length).
    rewrite (nth_indep _ ([], []) (out_row V bs (fst (take_row V R0 ops)) 0))
      by (now rewrite map_length, seq_length).
    rewrite map_nth, seq_nth by assumption. reflexivity.
  - rewrite app_nth2 by (rewrite map_length, seq_length; simpl; lia).
    rewrite map_length, seq_length.
    replace (S R'' * bs + r - bs) with (R'' * bs + r) by (simpl; lia).
    simpl grp. apply IH; lia.
Qed.

Definition brow (b : blkop) : nat := fst (fst b).

Fixpoint nondecr (lo : nat) (l : list blkop) : Prop :=
  match l with
  | [] => True
  | b :: t => lo <= brow b /\ nondecr (brow b) t
  end.

Lemma nondecr_weaken lo lo' l : lo' <= lo -> nondecr lo l -> nondecr lo' l.
Proof. destruct l as [|b t]; simpl; [tauto|]. intros H [H1 H2]. split; [lia|assumption]. Qed.

Lemma nondecr_filter_lt lo l R : R < lo -> nondecr lo l -> filter (fun b => brow b =? R) l = [].
Proof.
  revert lo. induction l as [|b t IH]; intros lo HR H; simpl; [reflexivity|].
  destruct H as [H1 H2]. destruct (Nat.eqb_spec (brow b) R); [lia|].
  apply (IH (brow b)); [lia|assumption].
Qed.

Lemma take_row_spec R l :
  nondecr R l ->
  fst (take_row V R l) = filter (fun b => brow b =? R) l /\
  nondecr (S R) (snd (take_row V R l)) /\
  (forall R2, R < R2 -> filter (fun b => brow b =? R2) (snd (take_row V R l)) =
                        filter (fun b => brow b =? R2) l).
Proof.
  induction l as [|[[r c] op] t IH]; intros H; simpl; [repeat split; auto|].
  destruct H as [H1 H2]. unfold brow in *. simpl in *.
  destruct (Nat.eqb_spec r R) as [->|N].
  - destruct (IH H2) as (A & B & Cc). simpl. rewrite A. repeat split; try assumption.
    intros R2 HR2. simpl. destruct (Nat.eqb_spec R R2); [lia|]. now apply Cc.
  - simpl. split; [|split].
    + destruct (Nat.eqb_spec r R); [lia|].
      symmetry. apply (nondecr_filter_lt r); [lia|assumption].
    + unfold brow; simpl. split; [lia|assumption].
    + reflexivity.
Qed.

Lemma grp_filter R0 R' l :
  nondecr R0 l -> grp R0 R' l = filter (fun b => brow b =? R0 + R') l.
Proof.
  revert R0 l. induction R' as [|R'' IH]; intros R0 l H; simpl.
  - rewrite Nat.add_0_r. apply take_row_spec. assumption.
  - destruct (take_row_spec R0 l H) as (_ & B & Cc).
    rewrite IH by assumption. replace (S R0 + R'') with (R0 + S R'') by lia.
    apply Cc. lia.
Qed.

Lemma sorted_from_nondecr r c l : sorted_from V r c l = true -> nondecr r l.
Proof.
  revert r c. induction l as [|[[r' c'] op] t IH]; intros r c H; simpl in *; [exact I|].
  destruct ((r' <? r) || ((r' =? r) && (c' <=? c))) eqn:E; [discriminate|].
  apply orb_false_iff in E. destruct E as [E _]. apply Nat.ltb_ge in E.
  split; [unfold brow; simpl; lia|]. unfold brow. simpl. eapply IH. eassumption.
Qed.

Lemma sorted_ops_nondecr l : sorted_ops V l = true -> nondecr 0 l.
Proof.
  destruct l as [|[[r c] op] t]; simpl; [trivial|]. intros H.
  split; [lia|]. unfold brow. simpl. eapply sorted_from_nondecr. eassumption.
Qed.

(* ---- one output row as a concatenation over the operators of the group *)
Definition op_row (bs : nat) (b : blkop) (r : nat) : list nat * list V :=
  let '(_, c, op) := b in
  if csr_nnz V bs op =? 0 then ([], [])
  else (map (fun x => x + c * bs) (slice (ci_ V op) (nth r (ri V op) 0) (nth (r + 1) (ri V op) 0)),
        slice (dat V op) (nth r (ri V op) 0) (nth (r + 1) (ri V op) 0)).

Lemma out_row_concat_gen bs group r acc :
  fold_left (fun acc (b : blkop) =>
    let '(_, c, op) := b in
    if csr_nnz V bs op =? 0 then acc
    else
      let s := nth r (ri V op) 0 in
      let e := nth (r + 1) (ri V op) 0 in
      (fst acc ++ map (fun x => x + c * bs) (slice (ci_ V op) s e),
       snd acc ++ slice (dat V op) s e)) group acc =
  (fst acc ++ concat (map (fun b => fst (op_row bs b r)) group),
   snd acc ++ concat (map (fun b => snd (op_row bs b r)) group)).
Proof.
  revert acc. induction group as [|[[r0 c] op] t IH]; intros acc; simpl.
  - rewrite !app_nil_r. now destruct acc.
  - rewrite IH. destruct (csr_nnz V bs op =? 0); simpl; [reflexivity|].
    now rewrite <- !app_assoc.
Qed.

Lemma out_row_concat bs group r :
  out_row V bs group r =
  (concat (map (fun b => fst (op_row bs b r)) group),
   concat (map (fun b => snd (op_row bs b r)) group)).
Proof. unfold out_row. now rewrite out_row_concat_gen. Qed.

Definition wf_ops (ops : list blkop) : Prop :=
  forall b, In b ops -> length (ci_ V (snd b)) = length (dat V (snd b)).

Lemma slice_length {A B} (l1 : list A) (l2 : list B) s e :
  length l1 = length l2 -> length (slice l1 s e) = length (slice l2 s e).
Proof. intros H. unfold slice. rewrite !firstn_length, !skipn_length. lia. Qed.

Lemma op_row_len bs b r :
  length (ci_ V (snd b)) = length (dat V (snd b)) ->
  length (fst (op_row bs b r)) = length (snd (op_row bs b r)).
Proof.
  destruct b as [[r0 c] op]. simpl. intros H.
  destruct (csr_nnz V bs op =? 0); simpl; [reflexivity|].
  rewrite map_length. now apply slice_length.
Qed.

Lemma combine_app {A B} (l1 l2 : list A) (d1 d2 : list B) :
  length l1 = length d1 -> combine (l1 ++ l2) (d1 ++ d2) = combine l1 d1 ++ combine l2 d2.
Proof.
  revert d1. induction l1 as [|x l1 IH]; intros [|y d1] H; simpl in *; try lia; [reflexivity|].
  f_equal. apply IH. lia.
Qed.

Lemma combine_concat (L : list blkop) bs r :
  (forall b, In b L -> length (ci_ V (snd b)) = length (dat V (snd b))) ->
  combine (concat (map (fun b => fst (op_row bs b r)) L))
          (concat (map (fun b => snd (op_row bs b r)) L)) =
  flat_map (fun b => combine (fst (op_row bs b r)) (snd (op_row bs b r))) L.
Proof.
  induction L as [|b t IH]; intros H; simpl; [reflexivity|].
  rewrite combine_app by (apply op_row_len, H; now left).
  rewrite IH by (intros x Hx; apply H; now right). reflexivity.
Qed.

Lemma flat_map_all_nil' {A B} (f : A -> list B) (l : list A) :
  (forall x, In x l -> f x = []) -> flat_map f l = [].
Proof.
  induction l as [|a l IH]; intros H; simpl; [reflexivity|].
  rewrite (H a) by (simpl; auto). simpl. apply IH. intros x Hx. apply H. now right.
Qed.

Lemma take_row_in R l b :
  (In b (fst (take_row V R l)) -> In b l) /\ (In b (snd (take_row V R l)) -> In b l).
Proof.
  induction l as [|[[r c] op] t IH]; simpl; [tauto|].
  destruct (r =? R); simpl; [|tauto]. destruct IH as [I1 I2]. split.
  - intros [H|H]; [now left|right; now apply I1].
  - intros H. right. now apply I2.
Qed.

Lemma out_row_len bs G r :
  (forall b, In b G -> length (ci_ V (snd b)) = length (dat V (snd b))) ->
  length (fst (out_row V bs G r)) = length (snd (out_row V bs G r)).
Proof.
  intros H. rewrite out_row_concat. simpl.
  induction G as [|b t IH]; simpl; [reflexivity|].
  rewrite !app_length, op_row_len by (apply H; now left).
  rewrite IH; [reflexivity|]. intros x Hx. apply H. now right.
Qed.

Lemma all_rows_wf bs nrows R ops :
  wf_ops ops ->
  forall row, In row (all_rows bs nrows R ops) -> length (fst row) = length (snd row).
Proof.
  revert R ops. induction nrows as [|m IH]; intros R ops H row Hin; simpl in Hin; [destruct Hin|].
  apply in_app_iff in Hin. destruct Hin as [Hin|Hin].
  - apply in_map_iff in Hin. destruct Hin as (r & <- & _). apply out_row_len.
    intros b Hb. apply H. exact (proj1 (take_row_in R ops b) Hb).
  - apply (IH (S R) (snd (take_row V R ops))); [|assumption].
    intros b Hb. apply H. exact (proj2 (take_row_in R ops b) Hb).
Qed.

(* entries contributed by one block operator to output row (R*bs + r) *)
Definition block_row_entries (bs : nat) (b : blkop) (r : nat) : list (nat * V) :=
  let '(_, c, op) := b in
  if csr_nnz V bs op =? 0 then []
  else map (fun p => (fst p + c * bs, snd p)) (csr_row V op r).

Lemma combine_map_l {A B X} (f : A -> X) (l : list A) (d : list B) :
  combine (map f l) d = map (fun p => (f (fst p), snd p)) (combine l d).
Proof.
  revert d. induction l as [|x l IH]; intros [|y d]; simpl; try reflexivity. now rewrite IH.
Qed.

Lemma op_row_entries bs b r :
  combine (fst (op_row bs b r)) (snd (op_row bs b r)) = block_row_entries bs b r.
Proof.
  destruct b as [[r0 c] op]. unfold op_row, block_row_entries.
  destruct (csr_nnz V bs op =? 0); simpl; [reflexivity|].
  rewrite combine_map_l. reflexivity.
Qed.

Lemma nnz_sum_zero bs (l : list blkop) acc :
  fold_left (fun s (b : blkop) => s + csr_nnz V bs (snd b)) l acc = 0 ->
  acc = 0 /\ forall b, In b l -> csr_nnz V bs (snd b) = 0.
Proof.
  revert acc. induction l as [|b t IH]; intros acc H; simpl in *; [split; [assumption|tauto]|].
  destruct (IH _ H) as [H1 H2]. split; [lia|]. intros x [<-|Hx]; [lia|now apply H2].
Qed.

Lemma zeros_row shape i : csr_row V (zeros_csr V shape) i = [].
Proof.
  unfold csr_row, zeros_csr. simpl. rewrite !nth_repeat. reflexivity.
Qed.

(* the dense meaning, row by row: output row R*bs + r consists of the entries of
   row r of every operator placed in block row R, in the given order, with the
   column indices shifted by (block column) * bs *)
Theorem from_csr_blocks_rows ops nb bs m R r :
  from_csr_blocks V ops nb bs = Some m -> wf_ops ops -> R < nb -> r < bs ->
  csr_row V m (R * bs + r) =
  flat_map (fun b => block_row_entries bs b r) (filter (fun b => brow b =? R) ops).
Proof.
  intros Hm Hwf HR Hr. unfold from_csr_blocks in Hm.
  destruct ops as [|b0 ops0] eqn:Eo.
  - inversion Hm. rewrite zeros_row. reflexivity.
  - rewrite <- Eo in *. clear Eo b0 ops0.
    destruct (sorted_ops V ops) eqn:Es; simpl in Hm; [|discriminate].
    destruct (fold_left (fun s (b : blkop) => s + csr_nnz V bs (snd b)) ops 0 =? 0) eqn:En.
    + inversion Hm. rewrite zeros_row. apply Nat.eqb_eq in En.
      destruct (nnz_sum_zero bs ops 0 En) as [_ Hz]. symmetry.
      apply flat_map_all_nil'. intros b Hb. apply filter_In in Hb. destruct Hb as [Hb _].
      destruct b as [[r0 c] op]. unfold block_row_entries.
      specialize (Hz _ Hb). simpl in Hz. now rewrite Hz.
    + inversion Hm as [Hm']. fold acc0. rewrite out_rows_push.
      rewrite build_row.
      * rewrite nth_all_rows by assumption.
        rewrite grp_filter by (now apply sorted_ops_nondecr). simpl Nat.add.
        rewrite out_row_concat. cbn [fst snd].
        rewrite combine_concat.
        -- apply flat_map_ext. intros b. apply op_row_entries.
        -- intros b Hb. apply filter_In in Hb. apply Hwf. tauto.
      * now apply all_rows_wf.
      * rewrite all_rows_length. nia.
Qed.
End Csr.
