(* C02: nested dims lists.  Printing a well-formed space with as_list and
   parsing the list again with from_list gives the space back, for every
   nesting depth (superoperator spaces over superoperator spaces, tensor
   products of superoperator spaces, 1-dimensional factors) and both settings
   of auto_tidyup_dims; dims rules of overlap / matrix_element / __call__. *)
From Coq Require Import List ZArith NArith Bool Arith Lia.
Import ListNotations.
From QV Require Import Model.C02 Proofs.C02.
Local Open Scope N_scope.
Arguments N.mul : simpl never.
Arguments N.eqb : simpl never.
Arguments N.leb : simpl never.

(* ------------------------------------------------- unfolding from_list *)
Definition finish (tidy : bool) (spaces : list space) : res space :=
  match spaces with
  | [] => Err ValueError
  | [s] => Ok s
  | _ => mk_compound tidy spaces
  end.

Definition super_of_pair (tidy : bool) (fuel : nat) (r : option rep) (p : nl * nl) : res space :=
  let '(a, b) := p in
  bind (space_of_nl tidy fuel b r) (fun f =>
  bind (space_of_nl tidy fuel a r) (fun t =>
  bind (mk_dims f t) (fun d => Ok (mk_super tidy d r)))).

Lemma from_list_S tidy fuel l r :
  from_list tidy (S fuel) l r =
  match l with
  | [] => Err ValueError
  | _ =>
      let nlists := length (filter (fun x => negb (is_int x)) l) in
      if negb ((nlists =? 0)%nat || (nlists =? length l)%nat) then Err ValueError
      else if (nlists =? 0)%nat
      then bind (mapM (fun x => space_of_nl tidy fuel x r) l) (finish tidy)
      else match l with
           | [NL inner] => bind (mapM (fun x => space_of_nl tidy fuel x r) inner) (finish tidy)
           | _ => if Nat.even (length l)
                  then bind (mapM (super_of_pair tidy fuel r) (pairs l)) (finish tidy)
                  else Err ValueError
           end
  end.
Proof. reflexivity. Qed.

(* ------------------------------------------------------ well-formedness *)
Definition leaf (s : space) : bool :=
  match s with Field | Simple _ => true | _ => false end.
Definition super_node (s : space) : bool :=
  match s with Super _ _ _ => true | _ => false end.
Definition dims_check_ok (f t : space) : bool :=
  match dims_check {| d_from := f; d_to := t |} with Ok _ => true | Err _ => false end.

(* the spaces the constructors build when every superoperator space carries
   the representation `r` *)
Fixpoint wfb (tidy : bool) (r : rep) (s : space) : bool :=
  match s with
  | Field => true
  | Simple n => 2 <=? n
  | Compound l =>
      (2 <=? length l)%nat && forallb (wfb tidy r) l
      && (forallb leaf l || forallb super_node l)
      && (negb tidy || existsb (fun x => negb (size x =? 1)) l)
  | Super f t r' =>
      rep_eqb r' r && wfb tidy r f && wfb tidy r t && dims_check_ok f t
      && (negb tidy || negb ((size f =? 1) && (size t =? 1)))
  end.

Fixpoint sdepth (s : space) : nat :=
  match s with
  | Field | Simple _ => 1%nat
  | Compound l => fold_right (fun x acc => Nat.max (sdepth x) acc) 1%nat l
  | Super f t _ => S (Nat.max (sdepth f) (sdepth t))
  end.

Definition rep_of (ro : option rep) : rep := match ro with Some x => x | None => RSuper end.

(* ------------------------------------------------------------- leaves *)
Lemma leaf_as_list tidy fuel ro s :
  leaf s = true -> wfb tidy (rep_of ro) s = true ->
  exists n, as_list s = [NI n] /\ space_of_nl tidy fuel (NI n) ro = Ok s.
Proof.
  destruct s as [| n | l | f t r']; simpl; try discriminate; intros _ H.
  - exists 1. split; reflexivity.
  - exists n. split; [reflexivity|]. unfold mk_int.
    apply N.leb_le in H.
    destruct (n =? 0) eqn:E0; [apply N.eqb_eq in E0; lia|].
    destruct (n =? 1) eqn:E1; [apply N.eqb_eq in E1; lia|]. reflexivity.
Qed.

Lemma leaves_as_list tidy fuel ro l :
  forallb leaf l = true -> forallb (wfb tidy (rep_of ro)) l = true ->
  forallb is_int (flat_map as_list l) = true /\
  length (flat_map as_list l) = length l /\
  mapM (fun x => space_of_nl tidy fuel x ro) (flat_map as_list l) = Ok l.
Proof.
  induction l as [| s l IH]; simpl; intros Hl Hw; [repeat split; reflexivity|].
  apply andb_true_iff in Hl as [Hs Hl]. apply andb_true_iff in Hw as [Hws Hw].
  destruct (leaf_as_list tidy fuel ro s Hs Hws) as [n [Ea Es]].
  destruct (IH Hl Hw) as [I1 [I2 I3]].
  rewrite Ea. simpl. repeat split; [exact I1 | now rewrite I2 |].
  simpl in Es. rewrite Es. simpl. rewrite I3. reflexivity.
Qed.

Lemma filter_all_int l : forallb is_int l = true -> filter (fun x => negb (is_int x)) l = [].
Proof.
  induction l as [| x l IH]; simpl; [reflexivity|]. intros H.
  apply andb_true_iff in H as [Hx Hl]. rewrite Hx. simpl. auto.
Qed.

(* ---------------------------------------------------------- mk_compound *)
Lemma flatten_nocompound l :
  forallb leaf l || forallb super_node l = true -> flatten_compound l = l.
Proof.
  intros H. assert (Hn : forall x, In x l -> match x with Compound _ => False | _ => True end).
  { intros x Hx. apply orb_true_iff in H as [H | H];
      rewrite forallb_forall in H; specialize (H x Hx); destruct x; simpl in *; auto; discriminate. }
  clear H. unfold flatten_compound. induction l as [| x l IH]; simpl; [reflexivity|].
  rewrite IH by (intros y Hy; apply Hn; now right).
  specialize (Hn x (or_introl eq_refl)). destruct x; simpl; auto. contradiction.
Qed.

Lemma leaf_not_super s : leaf s = true -> issuper s = false /\ superrep s = None.
Proof. destruct s; simpl; try discriminate; auto. Qed.

Lemma super_node_super tidy r s :
  super_node s = true -> wfb tidy r s = true -> issuper s = true /\ superrep s = Some r.
Proof.
  destruct s as [| | | f t r']; simpl; try discriminate. intros _ H.
  rewrite !andb_true_iff in H. destruct H as [[[[H _] _] _] _].
  apply rep_eqb_eq in H. subst. auto.
Qed.

Lemma mk_compound_wf tidy r l :
  wfb tidy r (Compound l) = true -> mk_compound tidy l = Ok (Compound l).
Proof.
  cbn [wfb]. rewrite !andb_true_iff. intros [[[Hlen Hw] Hk] Ht].
  unfold mk_compound.
  assert (T : tidy && forallb (fun s => size s =? 1) l = false).
  { destruct tidy; simpl in *; [|reflexivity].
    apply existsb_exists in Ht as [x [Hx Hs]].
    apply not_true_is_false. intros A. rewrite forallb_forall in A.
    rewrite (A x Hx) in Hs. discriminate. }
  rewrite T, (flatten_nocompound l Hk).
  apply Nat.leb_le in Hlen.
  destruct (length l <=? 1)%nat eqn:E1; [apply Nat.leb_le in E1; lia|]. simpl.
  destruct l as [| x l']; [simpl in Hlen; lia|].
  apply orb_true_iff in Hk as [Hk | Hk].
  - (* all leaves *)
    assert (A : forall y, In y (x :: l') -> issuper y = false /\ superrep y = None).
    { intros y Hy. rewrite forallb_forall in Hk. apply leaf_not_super. auto. }
    assert (E : existsb issuper (x :: l') = false).
    { apply not_true_is_false. intros B. apply existsb_exists in B as [y [Hy Hs]].
      destruct (A y Hy) as [C _]. congruence. }
    rewrite E, andb_false_r.
    assert (F : forallb (fun s => orep_eqb (superrep x) (superrep s)) (x :: l') = true).
    { apply forallb_forall. intros y Hy.
      destruct (A x (or_introl eq_refl)) as [_ ->]. destruct (A y Hy) as [_ ->]. reflexivity. }
    rewrite F. reflexivity.
  - (* all superoperator spaces *)
    rewrite forallb_forall in Hk, Hw.
    assert (A : forall y, In y (x :: l') -> issuper y = true /\ superrep y = Some r).
    { intros y Hy. apply (super_node_super tidy); auto. }
    assert (E : forallb issuper (x :: l') = true).
    { apply forallb_forall. intros y Hy. apply A; auto. }
    rewrite E. simpl negb. rewrite andb_false_l.
    assert (F : forallb (fun s => orep_eqb (superrep x) (superrep s)) (x :: l') = true).
    { apply forallb_forall. intros y Hy.
      destruct (A x (or_introl eq_refl)) as [_ ->]. destruct (A y Hy) as [_ ->].
      simpl. apply rep_eqb_eq. reflexivity. }
    rewrite F. reflexivity.
Qed.

Lemma finish_wf tidy r l :
  (match l with [s] => True | _ => wfb tidy r (Compound l) = true end) ->
  l <> [] ->
  finish tidy l = Ok (match l with [s] => s | _ => Compound l end).
Proof.
  intros H Hn. destruct l as [| x [| y l']]; [congruence | reflexivity |].
  unfold finish. apply (mk_compound_wf tidy r). exact H.
Qed.

(* --------------------------------------------- lists of superoperator spaces *)
Definition pair_of (s : space) : nl * nl :=
  match s with
  | Super f t _ => (NL (as_list t), NL (as_list f))
  | _ => (NI 0, NI 0)
  end.

Lemma supers_as_list l :
  forallb super_node l = true ->
  pairs (flat_map as_list l) = map pair_of l /\
  length (flat_map as_list l) = (2 * length l)%nat /\
  filter (fun x => negb (is_int x)) (flat_map as_list l) = flat_map as_list l.
Proof.
  induction l as [| s l IH]; simpl; intros H; [repeat split; reflexivity|].
  apply andb_true_iff in H as [Hs Hl]. destruct (IH Hl) as [I1 [I2 I3]].
  destruct s as [| | | f t r']; simpl in Hs; try discriminate.
  simpl. rewrite I1, I2, I3. repeat split; try reflexivity. lia.
Qed.

Lemma even_double n : Nat.even (2 * n) = true.
Proof. rewrite Nat.even_mul. reflexivity. Qed.

(* the statement proved by induction: parsing the printed form of s, with
   enough fuel, returns s *)
Definition roundtrip_at tidy ro (s : space) : Prop :=
  forall fuel, (sdepth s <= fuel)%nat -> from_list tidy fuel (as_list s) ro = Ok s.

Lemma super_pair_roundtrip tidy ro fuel f t r' :
  wfb tidy (rep_of ro) (Super f t r') = true ->
  roundtrip_at tidy ro f -> roundtrip_at tidy ro t ->
  (Nat.max (sdepth f) (sdepth t) <= fuel)%nat ->
  super_of_pair tidy fuel ro (pair_of (Super f t r')) = Ok (Super f t r').
Proof.
  cbn [wfb]. rewrite !andb_true_iff. intros [[[[Hr Hf] Ht] Hc] Hy] IHf IHt Hfuel.
  apply rep_eqb_eq in Hr. subst r'.
  unfold super_of_pair, pair_of. cbn [space_of_nl].
  rewrite (IHf fuel) by lia. cbn [bind]. rewrite (IHt fuel) by lia. cbn [bind].
  unfold mk_dims. unfold dims_check_ok in Hc.
  destruct (dims_check {| d_from := f; d_to := t |}) as [d|] eqn:Ed; [|discriminate].
  assert (d = {| d_from := f; d_to := t |}) as ->.
  { unfold dims_check in Ed. repeat match type of Ed with
      | context [if ?c then _ else _] => destruct c end; congruence. }
  cbn [bind]. unfold mk_super. cbn [d_from d_to].
  assert (T : tidy && (size f =? 1) && (size t =? 1) = false).
  { destruct tidy; simpl in *; [|reflexivity].
    apply negb_true_iff in Hy. exact Hy. }
  rewrite T. destruct ro; reflexivity.
Qed.

Lemma supers_mapM tidy ro fuel l :
  forallb super_node l = true ->
  forallb (wfb tidy (rep_of ro)) l = true ->
  Forall (fun s => match s with
                   | Super f t _ => roundtrip_at tidy ro f /\ roundtrip_at tidy ro t
                   | _ => True end) l ->
  (forall s, In s l -> (sdepth s <= S fuel)%nat) ->
  mapM (super_of_pair tidy fuel ro) (map pair_of l) = Ok l.
Proof.
  induction l as [| s l IH]; simpl; intros Hn Hw HF Hd; [reflexivity|].
  apply andb_true_iff in Hn as [Hs Hn]. apply andb_true_iff in Hw as [Hws Hw].
  inversion HF as [| ? ? Hhead Htail]; subst.
  destruct s as [| | | f t r']; simpl in Hs; try discriminate.
  destruct Hhead as [IHf IHt].
  rewrite (super_pair_roundtrip tidy ro fuel f t r' Hws IHf IHt).
  - cbn [bind]. rewrite IH; auto.
  - specialize (Hd (Super f t r') (or_introl eq_refl)). simpl in Hd. lia.
Qed.

Lemma sdepth_pos s : (1 <= sdepth s)%nat.
Proof.
  destruct s; simpl; try lia.
  induction l as [| x l IH]; simpl; lia.
Qed.

Lemma sdepth_compound_in x l : In x l -> (sdepth x <= sdepth (Compound l))%nat.
Proof.
  simpl. induction l as [| y l IH]; simpl; [tauto|]. intros [-> | H]; [lia|].
  specialize (IH H). lia.
Qed.

(* ------------------------------------------------------ the round trip *)
Definition RT tidy ro (s : space) : Prop := wfb tidy (rep_of ro) s = true -> roundtrip_at tidy ro s.
(* induction statement: the claim for s and, under a Super node, for its parts *)
Definition RT2 tidy ro (s : space) : Prop :=
  RT tidy ro s /\
  match s with Super f t _ => RT tidy ro f /\ RT tidy ro t | _ => True end.

Lemma nested_roundtrip2 tidy ro : forall s, RT2 tidy ro s.
Proof.
  induction s as [| n | l IH | f t r' IHf IHt] using space_ind'.
  - split; [|exact I]. intros Hw fuel Hfuel.
    destruct fuel as [| fuel]; [simpl in Hfuel; lia|]. reflexivity.
  - split; [|exact I]. intros Hw fuel Hfuel.
    destruct fuel as [| fuel]; [simpl in Hfuel; lia|].
    rewrite from_list_S. cbn [as_list filter is_int negb length Nat.eqb orb].
    cbn [mapM].
    destruct (leaf_as_list tidy fuel ro (Simple n) eq_refl Hw) as [m [Em Es]].
    injection Em as <-. rewrite Es. reflexivity.
  - (* Compound *)
    split; [|exact I]. intros Hw fuel Hfuel.
    destruct fuel as [| fuel]; [pose proof (sdepth_pos (Compound l)); lia|].
    pose proof Hw as Hw0.
    cbn [wfb] in Hw. rewrite !andb_true_iff in Hw. destruct Hw as [[[Hlen Hall] Hk] Ht].
    apply Nat.leb_le in Hlen.
    rewrite from_list_S. cbn [as_list].
    apply orb_true_iff in Hk as [Hk | Hk].
    + (* leaves: a flat list of integers *)
      destruct (leaves_as_list tidy fuel ro l Hk Hall) as [I1 [I2 I3]].
      rewrite (filter_all_int _ I1). cbn [length Nat.eqb orb negb].
      destruct (flat_map as_list l) as [| a rest] eqn:E.
      { simpl in I2. lia. }
      cbv zeta. cbn [length Nat.eqb orb negb]. rewrite I3. cbn [bind].
      rewrite (finish_wf tidy (rep_of ro) l).
      * destruct l as [| x [| y l']]; simpl in Hlen; try lia. reflexivity.
      * destruct l as [| x [| y l']]; simpl in Hlen; try lia. exact Hw0.
      * destruct l; simpl in Hlen; [lia | discriminate].
    + (* a tensor product of superoperator spaces *)
      destruct (supers_as_list l Hk) as [P1 [P2 P3]].
      rewrite P3, P2.
      assert (Hne : (2 * length l =? 0)%nat = false) by (apply Nat.eqb_neq; lia).
      rewrite Hne, Nat.eqb_refl. cbn [orb negb].
      destruct (flat_map as_list l) as [| a [| b rest]] eqn:E;
        [simpl in P2; lia | simpl in P2; lia |].
      assert (Ha : exists k, a = NL k).
      { destruct l as [| [| | | f0 t0 r0] l']; simpl in Hk, E; try discriminate.
        injection E as <- _ _. eauto. }
      destruct Ha as [ka ->].
      rewrite even_double, P1.
      rewrite (supers_mapM tidy ro fuel l Hk Hall).
      * cbn [bind]. rewrite (finish_wf tidy (rep_of ro) l).
        -- destruct l as [| x [| y l']]; simpl in Hlen; try lia. reflexivity.
        -- destruct l as [| x [| y l']]; simpl in Hlen; try lia. exact Hw0.
        -- destruct l; simpl in Hlen; [lia | discriminate].
      * rewrite Forall_forall in IH |- *. intros s Hs.
        destruct s as [| | | f0 t0 r0]; auto.
        rewrite forallb_forall in Hall. specialize (Hall _ Hs).
        cbn [wfb] in Hall. rewrite !andb_true_iff in Hall.
        destruct Hall as [[[[_ Hf0] Ht0] _] _].
        destruct (IH _ Hs) as [_ [If0 It0]]. split; [apply If0 | apply It0]; assumption.
      * intros s Hs. pose proof (sdepth_compound_in s l Hs). lia.
  - (* Super *)
    destruct IHf as [IHf _]. destruct IHt as [IHt _].
    split; [|split; assumption]. intros Hw fuel Hfuel.
    destruct fuel as [| fuel]; [simpl in Hfuel; lia|].
    pose proof Hw as Hw0.
    cbn [wfb] in Hw. rewrite !andb_true_iff in Hw. destruct Hw as [[[[Hr Hf] Ht] Hc] Hy].
    rewrite from_list_S. cbn [as_list filter is_int negb length Nat.eqb orb Nat.even pairs].
    change [(NL (as_list t), NL (as_list f))] with (map pair_of [Super f t r']).
    rewrite (supers_mapM tidy ro fuel [Super f t r']).
    + reflexivity.
    + reflexivity.
    + cbn [forallb]. rewrite Hw0. reflexivity.
    + constructor; [|constructor]. split; [apply IHf | apply IHt]; assumption.
    + intros s [<- | []]. exact Hfuel.
Qed.

Theorem nested_roundtrip tidy ro s fuel :
  wfb tidy (rep_of ro) s = true -> (sdepth s <= fuel)%nat ->
  from_list tidy fuel (as_list s) ro = Ok s.
Proof. intros Hw Hf. exact (proj1 (nested_roundtrip2 tidy ro s) Hw fuel Hf). Qed.

(* ---------------------------------------------- overlap / matrix_element *)
Lemma qobj_overlap_spec a b :
  qobj_overlap a b = ONumberResult <->
  exists p, state_spaces a = Some p /\ state_spaces b = Some p.
Proof.
  unfold qobj_overlap.
  destruct (state_spaces a) as [[r1 c1]|], (state_spaces b) as [[r2 c2]|];
    try (split; [discriminate | intros [p [A B]]; discriminate]).
  destruct (space_eqb r1 r2) eqn:E1; destruct (space_eqb c1 c2) eqn:E2; simpl;
    rewrite ?space_eqb_eq, ?space_eqb_neq in *.
  - subst. split; [eauto | reflexivity].
  - split; [discriminate | intros [p [A B]]; congruence].
  - split; [discriminate | intros [p [A B]]; congruence].
  - split; [discriminate | intros [p [A B]]; congruence].
Qed.

Lemma qobj_overlap_total a b :
  qobj_overlap a b = ONumberResult \/ qobj_overlap a b = ORaise TypeError.
Proof.
  unfold qobj_overlap.
  destruct (state_spaces a) as [[r1 c1]|], (state_spaces b) as [[r2 c2]|]; auto.
  destruct (space_eqb r1 r2 && space_eqb c1 c2); auto.
Qed.

Lemma qobj_matrix_element_spec op bra ket :
  qobj_matrix_element op bra ket = ONumberResult <->
  dims_type op = TOper /\ vec_space bra = Some (d_to op) /\ vec_space ket = Some (d_from op).
Proof.
  unfold qobj_matrix_element.
  destruct (dims_type op); try (split; [discriminate | intros [A _]; discriminate]).
  destruct (vec_space bra) as [b|], (vec_space ket) as [k|];
    try (split; [discriminate | intros [_ [A B]]; discriminate]).
  destruct (space_eqb b (d_to op)) eqn:E1; destruct (space_eqb k (d_from op)) eqn:E2; simpl;
    rewrite ?space_eqb_eq, ?space_eqb_neq in *.
  - subst. split; [auto | reflexivity].
  - split; [discriminate | intros [_ [A B]]; congruence].
  - split; [discriminate | intros [_ [A B]]; congruence].
  - split; [discriminate | intros [_ [A B]]; congruence].
Qed.

(* ------------------------------------ a superoperator applied to an operator *)
Lemma wfb_super_parts tidy r f t :
  wfb tidy r (Super f t r) = true ->
  wfb tidy r f = true /\ wfb tidy r t = true /\
  dims_check {| d_from := f; d_to := t |} = Ok {| d_from := f; d_to := t |}.
Proof.
  cbn [wfb]. rewrite !andb_true_iff. intros [[[[_ Hf] Ht] Hc] _]. repeat split; auto.
  unfold dims_check_ok in Hc.
  destruct (dims_check {| d_from := f; d_to := t |}) as [d|] eqn:Ed; [|discriminate].
  unfold dims_check in Ed. repeat match type of Ed with
    | context [if ?c then _ else _] => destruct c end; congruence.
Qed.

Theorem call_super_on_oper tidy fuel f t f' t' :
  wfb tidy RSuper (Super f t RSuper) = true ->
  wfb tidy RSuper (Super f' t' RSuper) = true ->
  dims_type {| d_from := f; d_to := t |} = TOper ->
  size t' * size f' <> 1 ->
  (S (sdepth (Super f t RSuper)) <= fuel)%nat ->
  (sdepth (Super f' t' RSuper) <= fuel)%nat ->
  qobj_call tidy fuel {| d_from := Super f t RSuper; d_to := Super f' t' RSuper |}
                      {| d_from := f; d_to := t |}
  = ODims {| d_from := f'; d_to := t' |}.
Proof.
  intros W1 W2 Ty Hsz F1 F2.
  pose proof (dims_type_spec {| d_from := f; d_to := t |}) as Sp. rewrite Ty in Sp.
  cbn [d_from d_to] in Sp. destruct Sp as [Sf [St _]].
  assert (Hfrom : size t * size f <> 1).
  { intros A. apply N.eq_mul_1 in A. tauto. }
  unfold qobj_call.
  assert (Tself : dims_type {| d_from := Super f t RSuper; d_to := Super f' t' RSuper |} = TSuper).
  { unfold dims_type. cbn [d_from d_to size issuper].
    destruct (size t * size f =? 1) eqn:A; [apply N.eqb_eq in A; contradiction|].
    destruct (size t' * size f' =? 1) eqn:B; [apply N.eqb_eq in B; contradiction|]. reflexivity. }
  rewrite Tself, Ty.
  (* operator_to_vector *)
  unfold dims_of_list at 1. cbn [space_of_nl dims_as_list d_to d_from].
  destruct fuel as [| fuel]; [lia|].
  assert (E1 : from_list tidy (S fuel) [NI 1] (Some RSuper) = Ok Field) by reflexivity.
  rewrite E1. cbn [bind].
  change (dims_as_list {| d_from := f; d_to := t |}) with (as_list (Super f t RSuper)).
  rewrite (nested_roundtrip tidy (Some RSuper) (Super f t RSuper) (S fuel) W1) by lia.
  cbn [bind]. unfold mk_dims at 1. unfold dims_check at 1. cbn [d_from d_to size].
  replace (1 =? 1) with true by reflexivity. cbn [orb bind].
  (* @ *)
  unfold qobj_matmul, dims_matmul. cbn [d_from d_to]. rewrite space_eqb_refl. cbn [negb].
  unfold mk_dims, dims_check. cbn [d_from d_to size].
  replace (1 =? 1) with true by reflexivity. cbn [orb].
  set (w := {| d_from := Field; d_to := Super f' t' RSuper |}).
  assert (Tw : dims_type w = TOperKet).
  { unfold dims_type, w. cbn [d_from d_to size issuper].
    replace (1 =? 1) with true by reflexivity.
    destruct (size t' * size f' =? 1) eqn:B; [apply N.eqb_eq in B; contradiction|]. reflexivity. }
  rewrite Tw.
  assert (Rw : dims_superrep w = Some RSuper).
  { unfold dims_superrep, w. cbn [d_from d_to size superrep].
    replace (1 =? 1) with true by reflexivity.
    destruct (size t' * size f' =? 1) eqn:B; [apply N.eqb_eq in B; contradiction|]. reflexivity. }
  rewrite Rw. cbn [orep_eqb rep_eqb].
  (* vector_to_operator *)
  unfold w. cbn [d_to as_list]. unfold dims_of_list. cbn [space_of_nl].
  destruct (wfb_super_parts tidy RSuper f' t' W2) as [Wf' [Wt' Hc']].
  cbn [sdepth] in F2.
  rewrite (nested_roundtrip tidy None f' (S fuel) Wf') by lia. cbn [bind].
  rewrite (nested_roundtrip tidy None t' (S fuel) Wt') by lia. cbn [bind].
  unfold mk_dims. rewrite Hc'. cbn [bind]. fold w. rewrite Tw. reflexivity.
Qed.
