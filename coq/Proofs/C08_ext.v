(* C08 - proofs for Model/C08_ext.v and entry lemmas for the Stinespring
   assembly of Model/C08.v (stdlib only). *)
From Coq Require Import List ZArith Bool Arith Lia.
Import ListNotations.
From QV Require Import Model.C08 Proofs.C08 Model.C08_ext.

Lemma madj_get : forall nr nc A r c, r < nc -> c < nr ->
  mget (madj nr nc A) nr r c = gconj (mget A nc c r).
Proof. intros. unfold madj. rewrite mbuild_get by assumption. reflexivity. Qed.

Lemma madj_length : forall nr nc A, length (madj nr nc A) = nc * nr.
Proof. intros. unfold madj. apply mbuild_length. Qed.

(* dual_chan of a supermatrix S (m = out, n = in, single labels):
   D[(p*n+x), (q*n+y)] = conj S[(q*m+p), (y*n+x)], labels [[out, in], [out, in]] *)
Lemma dual_chan_super_entries : forall (S D : sobj GZ) o i p q x y,
  s_rep S = Super -> s_dims S = ((o, o), (i, i)) ->
  length (s_data S) = prodl o * prodl o * (prodl i * prodl i) ->
  dual_chan (QSuper S) = Ok D ->
  p < prodl o -> q < prodl o -> x < prodl i -> y < prodl i ->
  mget (s_data D) (prodl o * prodl i) (p * prodl i + x) (q * prodl i + y)
  = gconj (mget (s_data S) (prodl i * prodl i) (q * prodl o + p) (y * prodl i + x))
  /\ s_dims D = ((o, i), (o, i)) /\ s_rep D = Choi.
Proof.
  intros S D o i p q x y Hr Hd HL H Hp Hq Hx Hy.
  unfold dual_chan, to_super in H. rewrite Hr in H. cbn [rbind] in H.
  unfold to_choi in H.
  assert (Hrep : s_rep (sdag S) = Super) by (unfold sdag; rewrite Hd; simpl; exact Hr).
  rewrite Hrep in H.
  destruct (tofrom_ok_inv g0 _ _ H) as (_ & HL2 & _ & EJ).
  set (m := prodl o) in *. set (n := prodl i) in *.
  assert (Hdims : s_dims (sdag S) = ((i, i), (o, o))) by (unfold sdag; rewrite Hd; reflexivity).
  assert (Hdata : s_data (sdag S) = madj (m * m) (n * n) (s_data S)).
  { unfold sdag, s_rows, s_cols. rewrite Hd. reflexivity. }
  rewrite Hdims, Hdata, Hrep in EJ.
  cbn [shuffle_s0 shuffle_s1 shuffle_new_dims flip_rep] in EJ. fold m n in EJ.
  subst D. cbn [s_data s_dims s_rep]. split; [|split; reflexivity].
  unfold mget at 1.
  (* the dual map has out' = n, in' = m *)
  rewrite (shuffle_entries g0 n m _ x y p q Hx Hy Hp Hq)
    by (rewrite madj_length; ring).
  change (nth ((y * n + x) * (m * m) + (q * m + p)) (madj (m * m) (n * n) (s_data S)) g0)
    with (mget (madj (m * m) (n * n) (s_data S)) (m * m) (y * n + x) (q * m + p)).
  rewrite madj_get by nia. reflexivity.
Qed.

(* ------------------------------------------------ Stinespring assembly *)
Lemma stine_block_entries : forall Ks dO dI a k i,
  k < length Ks -> a < dO -> i < dI ->
  mget (stinespring_block Ks dO dI) dI (a * length Ks + k) i
  = mget (o_data (nth k Ks (mkO 0 0 [] [] []))) dI a i.
Proof.
  intros Ks dO dI a k i Hk Ha Hi. unfold stinespring_block.
  rewrite mbuild_get by nia.
  destruct (divmod_pair (length Ks) a k Hk) as [E1 E2]. rewrite E1, E2. reflexivity.
Qed.

Lemma svd_kraus_entries : forall U S dO dI dK ind outd k a i,
  k < dK -> a < dO -> i < dI ->
  let K := nth k (svd_u_to_kraus U S dO dI dK ind outd) (mkO 0 0 [] [] []) in
  mget (o_data K) dI a i = gmul (mget U dK (a + dO * i) k) (nth k S g0)
  /\ o_m K = dO /\ o_n K = dI /\ o_dl K = outd /\ o_dr K = ind.
Proof.
  intros U S dO dI dK ind outd k a i Hk Ha Hi K. subst K. unfold svd_u_to_kraus.
  rewrite nth_map_seq by exact Hk. cbn [o_data o_m o_n o_dl o_dr].
  rewrite mbuild_get by assumption. repeat split.
Qed.

Lemma svd_kraus_length : forall U S dO dI dK ind outd,
  length (svd_u_to_kraus U S dO dI dK ind outd) = dK.
Proof. intros. unfold svd_u_to_kraus. rewrite map_length, seq_length. reflexivity. Qed.
