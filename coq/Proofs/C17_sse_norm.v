(* C17 - the closed-system (SSE) drift and diffusion of Model/C17_sys.v keep
   the norm in the mean: the Ito drift of <psi|psi>,
   2 Re <psi, a(psi)> + sum_i <b_i(psi), b_i(psi)>, vanishes identically
   (every dimension, every commutative unit ring with an involutive
   conjugation, every psi - normalised or not -, Hermitian H). *)
From mathcomp Require Import all_ssreflect all_algebra.
From mathcomp Require Import ring.
From QV Require Import Model.C17_sde Model.C17_sys Proofs.C17_lindblad Proofs.C17_rouchon.
Set Implicit Arguments.
Unset Strict Implicit.
Unset Printing Implicit Defensive.
Import GRing.Theory.
Local Open Scope ring_scope.

Section SseNorm.
Variable (R : comUnitRingType) (conj : {rmorphism R -> R}).
Hypothesis conjK : involutive conj.
Variables (imag halfr : R).
Hypothesis conj_i : conj imag = - imag.
Hypothesis conj_half : conj halfr = halfr.
Hypothesis half2 : halfr + halfr = 1.
Variable n : nat.
Notation M := 'M[R]_n.
Notation dag := (@dagger R conj n).
Notation B := (mc_malg conj imag halfr n).

(* <A, C> = tr(A^dag C): psi^dag phi for kets stored in the first column *)
Definition ip (A C : M) : R := \tr (dag A *m C).

Lemma ipDr A C D : ip A (C + D) = ip A C + ip A D.
Proof. by rewrite /ip mulmxDr mxtraceD. Qed.
Lemma ipZr A k C : ip A (k *: C) = k * ip A C.
Proof. by rewrite /ip -scalemxAr mxtraceZ. Qed.
Lemma ipDl A C D : ip (A + C) D = ip A D + ip C D.
Proof. by rewrite /ip (@dagger_add R conj n) mulmxDl mxtraceD. Qed.
Lemma ipZl k A C : ip (k *: A) C = conj k * ip A C.
Proof. by rewrite /ip (@dagger_scale R conj n) -scalemxAl mxtraceZ. Qed.
Lemma ip_conj A C : ip A C = conj (ip C A).
Proof.
  by rewrite /ip -(@tr_dagger R conj n) (@dagger_mul R conj n) (daggerK conjK).
Qed.
Lemma ip_sum_r A (l : seq M) (F : M -> M) :
  ip A (\sum_(c <- l) F c) = \sum_(c <- l) ip A (F c).
Proof.
  elim: l => [|c l IH]; first by rewrite !big_nil /ip mulmx0 mxtrace0.
  by rewrite !big_cons ipDr IH.
Qed.

Lemma foldl_add2 (f1 f2 : M -> M) (l : seq M) (z : M) :
  foldl (fun o c => o + f1 c + f2 c) z l = z + \sum_(c <- l) (f1 c + f2 c).
Proof.
  elim: l z => [|c l IH] z /=; first by rewrite big_nil addr0.
  by rewrite IH big_cons !addrA.
Qed.
Lemma foldl_add1 (f : M -> M) (l : seq M) (z : M) :
  foldl (fun o c => o + f c) z l = z + \sum_(c <- l) f c.
Proof.
  elim: l z => [|c l IH] z /=; first by rewrite big_nil addr0.
  by rewrite IH big_cons !addrA.
Qed.

(* the scalars of one operator c *)
Definition pc (c X : M) : R := ip X (c *m X).
Definition qc (c X : M) : R := ip (c *m X) (c *m X).
Definition ec (c X : M) : R := kexpect B (c + dag c) X.

Lemma ecE c X : ec c X = pc c X + conj (pc c X).
Proof.
  rewrite /ec /kexpect /= mulmxDl -/(ip X _) ipDr -/(pc c X). congr (_ + _).
  by rewrite [in RHS]/pc -ip_conj /ip (@dagger_mul R conj n) mulmxA.
Qed.

Lemma qcE c X : ip X ((dag c *m c) *m X) = qc c X.
Proof. by rewrite /qc /ip (@dagger_mul R conj n) !mulmxA. Qed.

Lemma real_qc c X : conj (qc c X) = qc c X.
Proof. by rewrite /qc -ip_conj. Qed.
Lemma real_N X : conj (ip X X) = ip X X.
Proof. by rewrite -ip_conj. Qed.

(* the part of the drift that belongs to c, and the diffusion of c *)
Definition gc (c X : M) : M :=
  (- halfr) *: ((dag c *m c) *m X)
  + ((- (halfr * halfr * halfr) * ec c X * ec c X) *: X + (halfr * ec c X) *: (c *m X)).

Lemma per_operator c X :
  ip X (gc c X) + conj (ip X (gc c X)) + ip (closed_diff B c X) (closed_diff B c X) = 0.
Proof.
  have E : \tr (dag X *m ((c + dag c) *m X)) = ec c X by [].
  rewrite /closed_diff /= !E /gc.
  rewrite !(ipDr, ipZr, ipDl, ipZl) qcE -/(pc c X) -/(qc c X).
  rewrite [ip (c *m X) X]ip_conj -/(pc c X).
  rewrite !(rmorphD, rmorphM, rmorphN) /= real_qc real_N conj_half.
  have -> : conj (ec c X) = ec c X by rewrite ecE rmorphD /= conjK addrC.
  rewrite [in X in _ = X](_ : 0 = (1 - (halfr + halfr))
     * (qc c X + halfr * halfr * ec c X * ec c X * ip X X)); last by rewrite half2 subrr mul0r.
  rewrite ecE. ring.
Qed.

Lemma closed_LE H cs :
  closed_L B H cs = (- imag) *: H + \sum_(c <- cs) (- halfr) *: (dag c *m c).
Proof. by rewrite /closed_L fold_leftE /= foldl_add1. Qed.

Lemma closed_driftE H cs X :
  closed_drift B H cs X = (- imag) *: (H *m X) + \sum_(c <- cs) gc c X.
Proof.
  rewrite /closed_drift fold_leftE /= foldl_add2 closed_LE mulmxDl -scalemxAl mulmx_suml.
  rewrite -addrA -big_split /=. congr (_ + _). apply: eq_bigr => c _.
  by rewrite /gc -scalemxAl.
Qed.

Lemma norm_drift_zero H cs X :
  herm conj H ->
  ip X (closed_drift B H cs X) + ip (closed_drift B H cs X) X
  + \sum_(c <- cs) ip (closed_diff B c X) (closed_diff B c X) = 0.
Proof.
  move=> HH. rewrite [ip (closed_drift _ _ _ _) X]ip_conj closed_driftE.
  rewrite ipDr ipZr ip_sum_r.
  set h := ip X (H *m X). set S := \sum_(c <- cs) ip X (gc c X).
  have Hh : conj h = h.
  { by rewrite /h -ip_conj /ip (@dagger_mul R conj n) HH mulmxA. }
  have -> : conj (- imag * h + S) = imag * h + \sum_(c <- cs) conj (ip X (gc c X)).
  { by rewrite rmorphD rmorphM rmorphN conj_i opprK Hh rmorph_sum. }
  rewrite mulNr addrACA addNr add0r /S -big_split /= -big_split /=.
  by rewrite big1_seq // => c _; rewrite per_operator.
Qed.
End SseNorm.
