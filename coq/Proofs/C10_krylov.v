(* C10 - IntegratorKrylov bookkeeping: an infinite window is only ever kept
   for a happy-breakdown state, the -inf placeholder is never used, and with
   exact per-window oracles every answer to a non-decreasing list of queries
   is the exact flow of the state set last. *)
From Coq Require Import List ZArith Bool Lia.
Import ListNotations.
From QV Require Import Model.C10_krylov.
Local Open Scope Z_scope.

Lemma gtb_false a b : (a >? b) = false -> a <= b.
Proof. rewrite Z.gtb_ltb. intros H. apply Z.ltb_ge in H. lia. Qed.
Lemma gtb_true a b : (a >? b) = true -> b < a.
Proof. rewrite Z.gtb_ltb. intros H. apply Z.ltb_lt in H. lia. Qed.

Section Krylov.
Variables St K : Type.
Variable lanczos : St -> K * bool.
Variable psi : Z -> K -> St.
Variable cms : K -> Z.
Variable always : bool.
Variable nsteps : nat.

(* the exact evolution and the accuracy assumptions on the oracles *)
Variable flow : Z -> St -> St.
Variable bound : Z.             (* any step length up to `bound` is accurate *)
Hypothesis flow_add : forall a b s, 0 <= a -> 0 <= b -> flow (a + b) s = flow b (flow a s).
Hypothesis flow_0 : forall s, flow 0 s = s.
Hypothesis cms_pos : forall k, 0 < cms k <= bound.
Hypothesis exact_window : forall s d, 0 <= d <= bound -> psi d (fst (lanczos s)) = flow d s.
Hypothesis exact_breakdown : forall s d, snd (lanczos s) = true -> 0 <= d ->
                                         psi d (fst (lanczos s)) = flow d s.

Notation kobj := (kobj K).
Notation setst := (k_set_state St K lanczos cms always).
Notation rebase := (k_rebase St K lanczos psi cms always nsteps).
Notation integ := (k_integrate St K lanczos psi cms always nsteps).

(* the window of the object is justified for the state s_w at its start w,
   which is the exact evolution of the state (t0, s0) set last *)
Definition good (t0 : Z) (s0 : St) (o : kobj) : Prop :=
  exists sw, t0 <= k_t0 K o /\ sw = flow (k_t0 K o - t0) s0 /\
             k_k K o = Some (fst (lanczos sw)) /\
             match k_ms K o with
             | NegInf => False
             | Fin m => 0 < m <= bound
             | PosInf => snd (lanczos sw) = true
             end.

(* what _prepare may leave in _max_step *)
Definition prepared_ok (ms0 : ext) : Prop :=
  match ms0 with NegInf => always = true | Fin m => 0 < m <= bound | PosInf => True end.

Definition ms_ok (ms : ext) : Prop :=
  match ms with NegInf => always = true | Fin m => 0 < m <= bound | PosInf => True end.

Lemma set_good_gen t s o t0 s0 :
  ms_ok (k_ms K o) -> t0 <= t -> s = flow (t - t0) s0 ->
  good t0 s0 (setst t s o) /\ ms_ok (k_ms K (setst t s o)).
Proof.
  intros Hms Ht Hs. unfold k_set_state.
  destruct (lanczos s) as [k hb] eqn:EL.
  assert (Ek : k = fst (lanczos s)) by (rewrite EL; reflexivity).
  assert (Eh : hb = snd (lanczos s)) by (rewrite EL; reflexivity).
  split.
  - exists s. simpl. split; [exact Ht|]. split; [exact Hs|]. split; [now rewrite Ek|].
    destruct hb; [now rewrite <- Eh|].
    destruct (k_ms K o) as [|m|]; simpl in *.
    + apply cms_pos.
    + destruct always; [apply cms_pos|exact Hms].
    + apply cms_pos.
  - simpl. destruct hb; [exact I|].
    destruct (k_ms K o) as [|m|]; simpl in *.
    + apply cms_pos.
    + destruct always; [apply cms_pos|exact Hms].
    + apply cms_pos.
Qed.

Lemma good_ms_ok t0 s0 o : good t0 s0 o -> ms_ok (k_ms K o).
Proof.
  intros (sw & _ & _ & _ & H). destruct (k_ms K o); simpl in *; [contradiction|exact H|exact I].
Qed.

(* the re-basing loop keeps the window justified and ends with the query
   inside the window *)
Lemma rebase_good fuel : forall step t o o' t0 s0,
  good t0 s0 o -> k_t0 K o <= t ->
  rebase fuel step t o = Some o' ->
  good t0 s0 o' /\ k_t0 K o' <= t /\
  match k_ms K o' with Fin m => t <= k_t0 K o' + m | _ => True end.
Proof.
  induction fuel as [|f IH]; intros step t o o' t0 s0 HG Hle HR.
  - simpl in HR. destruct HG as (sw & Ht0 & Hsw & Hk & Hms).
    destruct (k_ms K o) as [|m|] eqn:EM; [contradiction| |].
    + destruct (t >? k_t0 K o + m) eqn:EG.
      * destruct (nsteps <=? S step)%nat; discriminate.
      * injection HR as <-. split; [exists sw; rewrite EM; auto|]. split; [exact Hle|].
        rewrite EM. apply gtb_false in EG. lia.
    + injection HR as <-. split; [exists sw; rewrite EM; auto|]. split; [exact Hle|].
      rewrite EM. exact I.
  - simpl in HR. pose proof HG as HG0. destruct HG as (sw & Ht0 & Hsw & Hk & Hms).
    destruct (k_ms K o) as [|m|] eqn:EM; [contradiction| |].
    + destruct (t >? k_t0 K o + m) eqn:EG.
      * destruct (nsteps <=? S step)%nat; [discriminate|].
        rewrite Hk in HR.
        assert (Hgt : k_t0 K o + m < t) by (apply gtb_true in EG; lia).
        assert (Hpsi : psi m (fst (lanczos sw)) = flow (k_t0 K o + m - t0) s0).
        { rewrite exact_window by lia. rewrite Hsw, <- flow_add by lia. f_equal. lia. }
        destruct (set_good_gen (k_t0 K o + m) (psi m (fst (lanczos sw))) o t0 s0) as [HG' _].
        { apply good_ms_ok with t0 s0. exact HG0. }
        { lia. }
        { exact Hpsi. }
        apply (IH (S step) t _ o' t0 s0 HG'); [|exact HR].
        unfold k_set_state. destruct (lanczos (psi m (fst (lanczos sw)))). simpl. lia.
      * injection HR as <-. split; [exact HG0|]. split; [exact Hle|].
        rewrite EM. apply gtb_false in EG. lia.
    + injection HR as <-. split; [exact HG0|]. split; [exact Hle|]. rewrite EM. exact I.
Qed.

Lemma rebase_unset fuel step t o o1 :
  k_k K o = None -> rebase fuel step t o = Some o1 -> o1 = o.
Proof.
  intros Hk HR. destruct fuel as [|f]; simpl in HR.
  - destruct (k_ms K o) as [|m|]; [discriminate| |now injection HR as <-].
    destruct (t >? k_t0 K o + m); [destruct (nsteps <=? S step)%nat; discriminate|].
    now injection HR as <-.
  - destruct (k_ms K o) as [|m|]; [discriminate| |now injection HR as <-].
    destruct (t >? k_t0 K o + m).
    + destruct (nsteps <=? S step)%nat; [discriminate|]. rewrite Hk in HR. discriminate.
    + now injection HR as <-.
Qed.

(* one query: if integrate returns, it returns the exact state *)
Lemma integrate_exact t o t0 s0 o' out :
  good t0 s0 o -> k_t0 K o <= t ->
  integ t o = Some (o', out) ->
  out = (t, flow (t - t0) s0) /\ good t0 s0 o' /\ k_t0 K o' <= t.
Proof.
  intros HG Hle HI. unfold k_integrate in HI.
  destruct (rebase nsteps 0%nat t o) as [o1|] eqn:ER; [|discriminate].
  destruct (rebase_good _ _ _ _ _ _ _ HG Hle ER) as (HG1 & Hle1 & Hwin).
  pose proof HG1 as (sw & Ht0 & Hsw & Hk & Hms).
  rewrite Hk in HI. injection HI as <- <-.
  split; [|split; [exact HG1|exact Hle1]].
  f_equal.
  assert (E : psi (t - k_t0 K o1) (fst (lanczos sw)) = flow (t - k_t0 K o1) sw).
  { destruct (k_ms K o1) as [|m|]; [contradiction| |].
    - apply exact_window. lia.
    - apply exact_breakdown; [exact Hms|lia]. }
  rewrite E, Hsw, <- flow_add by lia. f_equal. lia.
Qed.

(* progress: every re-base advances the window start by at least one time
   unit, so `nsteps` larger than the distance to the query is enough *)
Lemma rebase_total fuel : forall step t o t0 s0,
  good t0 s0 o -> (fuel + step = nsteps)%nat ->
  Z.of_nat step + (t - k_t0 K o) <= Z.of_nat nsteps ->
  exists o', rebase fuel step t o = Some o'.
Proof.
  induction fuel as [|f IH]; intros step t o t0 s0 HG Hf Hd.
  - pose proof HG as (sw & Ht0 & Hsw & Hk & Hms). simpl.
    destruct (k_ms K o) as [|m|] eqn:EM; [contradiction| |eexists; reflexivity].
    destruct (t >? k_t0 K o + m) eqn:EG; [|eexists; reflexivity].
    apply gtb_true in EG. exfalso. simpl in Hf. subst step. lia.
  - pose proof HG as (sw & Ht0 & Hsw & Hk & Hms). simpl.
    destruct (k_ms K o) as [|m|] eqn:EM; [contradiction| |eexists; reflexivity].
    destruct (t >? k_t0 K o + m) eqn:EG; [|eexists; reflexivity].
    apply gtb_true in EG.
    destruct (nsteps <=? S step)%nat eqn:EN.
    { apply Nat.leb_le in EN. exfalso. lia. }
    rewrite Hk.
    assert (Hpsi : psi m (fst (lanczos sw)) = flow (k_t0 K o + m - t0) s0).
    { rewrite exact_window by lia. rewrite Hsw, <- flow_add by lia. f_equal. lia. }
    destruct (set_good_gen (k_t0 K o + m) (psi m (fst (lanczos sw))) o t0 s0) as [HG' _].
    { apply good_ms_ok with t0 s0. exact HG. }
    { lia. }
    { exact Hpsi. }
    apply (IH (S step) t _ t0 s0 HG'); [lia|].
    unfold k_set_state. destruct (lanczos (psi m (fst (lanczos sw)))). cbn [k_t0]. lia.
Qed.

Lemma integrate_total t o t0 s0 :
  good t0 s0 o -> k_t0 K o <= t -> t - k_t0 K o <= Z.of_nat nsteps ->
  exists o' out, integ t o = Some (o', out).
Proof.
  intros HG Hle Hd. unfold k_integrate.
  destruct (rebase_total nsteps 0%nat t o t0 s0 HG ltac:(lia) ltac:(lia)) as [o1 ER].
  rewrite ER.
  destruct (rebase_good _ _ _ _ _ _ _ HG Hle ER) as ((sw & _ & _ & Hk1 & _) & _ & _).
  rewrite Hk1. eexists. eexists. reflexivity.
Qed.

(* histories: set_state then non-decreasing queries, again and again *)
Fixpoint nondecr (cur : option Z) (ops : list (kop St)) : Prop :=
  match ops with
  | [] => True
  | KSet _ t s :: r => nondecr (Some t) r
  | KInt _ t :: r => match cur with None => True | Some c => c <= t end /\ nondecr (Some t) r
  end.

Fixpoint k_ref (ops : list (kop St)) (cur : option (Z * St)) : list (option (Z * St)) :=
  match ops with
  | [] => []
  | KSet _ t s :: r => k_ref r (Some (t, s))
  | KInt _ t :: r => match cur with
                   | None => [None]
                   | Some (t0, s0) => Some (t, flow (t - t0) s0) :: k_ref r cur
                   end
  end.

(* outs is the reference up to the point where the integrator raised *)
Fixpoint agrees (outs ref : list (option (Z * St))) : Prop :=
  match outs, ref with
  | [], [] => True
  | None :: _, _ => True                      (* raised: nothing claimed *)
  | Some a :: r, Some b :: r' => a = b /\ agrees r r'
  | _, _ => False
  end.

Notation run := (k_run St K lanczos psi cms always nsteps).

Lemma run_exact ops : forall o cur last,
  ms_ok (k_ms K o) ->
  match cur with
  | None => k_k K o = None /\ last = None
  | Some (t0, s0) => good t0 s0 o /\ exists c, last = Some c /\ k_t0 K o <= c
  end ->
  nondecr last ops ->
  agrees (fst (run ops o)) (k_ref ops cur).
Proof.
  induction ops as [|op r IH]; intros o cur last Hms Hcur Hnd; [exact I|].
  destruct op as [t s|t]; simpl in *.
  - destruct (set_good_gen t s o t s) as [HG Hms'].
    { exact Hms. } { lia. } { now rewrite Z.sub_diag, flow_0. }
    apply (IH _ (Some (t, s)) (Some t) Hms'); [|exact Hnd].
    split; [exact HG|]. exists t. split; [reflexivity|].
    unfold k_set_state. destruct (lanczos s). simpl. lia.
  - destruct Hnd as [Hc Hnd].
    destruct cur as [[t0 s0]|].
    + destruct Hcur as (HG & c & -> & Hle).
      destruct (integ t o) as [[o' out]|] eqn:EI; [|exact I].
      destruct (integrate_exact t o t0 s0 o' out HG ltac:(lia) EI) as (-> & HG' & Hle').
      specialize (IH o' (Some (t0, s0)) (Some t) (good_ms_ok _ _ _ HG')).
      destruct (run r o') as [outs ofin]. simpl in *.
      split; [reflexivity|]. apply IH; [|exact Hnd].
      split; [exact HG'|]. exists t. split; [reflexivity|exact Hle'].
    + destruct Hcur as [Hk _].
      assert (EI : integ t o = None).
      { unfold k_integrate.
        destruct (rebase nsteps 0%nat t o) as [o1|] eqn:ER; [|reflexivity].
        assert (H : k_k K o1 = None) by (rewrite (rebase_unset _ _ _ _ _ Hk ER); exact Hk).
        now rewrite H. }
      rewrite EI. exact I.
Qed.

Lemma krylov_history_exact ms0 ops :
  prepared_ok ms0 -> nondecr None ops ->
  agrees (fst (run ops (k_prepare K ms0))) (k_ref ops None).
Proof.
  intros Hp Hnd. apply (run_exact ops _ None None); [exact Hp| |exact Hnd].
  split; reflexivity.
Qed.
End Krylov.
