(* C16 - mixed initial states: proofs about Model/C16_mix.v. *)
From Coq Require Import List Bool Arith ZArith QArith Qround Lia Lqa Qfield Permutation.
Import ListNotations.
From QV Require Import Model.C16_mix.
Local Open Scope nat_scope.

Lemma NoDup_app_l {A} (a b : list A) : NoDup (a ++ b) -> NoDup a.
Proof.
  induction a as [|x r IH]; simpl; intros H; [constructor|].
  inversion H; subst. constructor; [|apply IH; assumption].
  intros Hin. apply H2. apply in_or_app. left. exact Hin.
Qed.
Lemma NoDup_app_r {A} (a b : list A) : NoDup (a ++ b) -> NoDup b.
Proof. induction a as [|x r IH]; simpl; intros H; [exact H|]. inversion H; subst. apply IH; assumption. Qed.

(* ------------------------------------------------ sums over state indices *)
Definition sumf (f : nat -> nat) (l : list nat) : nat := fold_right (fun i s => f i + s) 0 l.

Lemma sumf_add f g l : sumf (fun i => f i + g i) l = sumf f l + sumf g l.
Proof. induction l as [|x r IH]; simpl; lia. Qed.

Lemma sumf_ext f g l : (forall i, In i l -> f i = g i) -> sumf f l = sumf g l.
Proof.
  induction l as [|x r IH]; intros H; simpl; [reflexivity|].
  rewrite (H x (or_introl eq_refl)), IH; [reflexivity|]. intros i Hi. apply H. right. exact Hi.
Qed.

Lemma sumf_single c x l : NoDup l ->
  sumf (fun i => if Nat.eqb x i then c else 0) l = if existsb (Nat.eqb x) l then c else 0.
Proof.
  induction l as [|y r IH]; intros Hn; simpl; [reflexivity|].
  inversion Hn as [|? ? Hy Hr]; subst. rewrite (IH Hr).
  destruct (Nat.eqb x y) eqn:E; simpl; [|reflexivity].
  apply Nat.eqb_eq in E; subst y.
  destruct (existsb (Nat.eqb x) r) eqn:Ex; [|lia].
  exfalso. apply existsb_exists in Ex. destruct Ex as (z & Hz & Ez). apply Nat.eqb_eq in Ez. subst z.
  exact (Hy Hz).
Qed.

Lemma existsb_seq x len : existsb (Nat.eqb x) (seq 0 len) = Nat.ltb x len.
Proof.
  destruct (Nat.ltb x len) eqn:E.
  - apply Nat.ltb_lt in E. apply existsb_exists. exists x. split; [apply in_seq; lia|apply Nat.eqb_refl].
  - apply Nat.ltb_ge in E. destruct (existsb (Nat.eqb x) (seq 0 len)) eqn:Ex; [|reflexivity].
    apply existsb_exists in Ex. destruct Ex as (z & Hz & Ez). apply Nat.eqb_eq in Ez. subst z.
    apply in_seq in Hz. lia.
Qed.

Definition sumg (uc : list entry) : nat := fold_right (fun e s => e_n e + s) 0 uc.

Lemma existsb_sym i l : existsb (Nat.eqb i) l = existsb (fun x => Nat.eqb x i) l.
Proof. induction l; simpl; [reflexivity|]. rewrite IHl, (Nat.eqb_sym i a). reflexivity. Qed.

(* the indicator part *)
Lemma sum_one one len :
  NoDup one -> (forall x, In x one -> x < len) ->
  sumf (fun i => if existsb (Nat.eqb i) one then 1 else 0) (seq 0 len) = length one.
Proof.
  induction one as [|x r IH]; intros Hn Hb.
  - simpl. induction (seq 0 len); simpl; auto.
  - inversion Hn as [|? ? Hx Hr]; subst.
    rewrite (sumf_ext _ (fun i => (if Nat.eqb x i then 1 else 0)
                                   + (if existsb (Nat.eqb i) r then 1 else 0))).
    + rewrite sumf_add, IH; [|exact Hr|intros y Hy; apply Hb; right; exact Hy].
      rewrite (sumf_single 1 x (seq 0 len) (seq_NoDup len 0)), existsb_seq.
      assert (x < len) by (apply Hb; left; reflexivity).
      apply Nat.ltb_lt in H. rewrite H. simpl. lia.
    + intros i _. simpl. rewrite (Nat.eqb_sym i x). destruct (Nat.eqb x i) eqn:E; simpl; [|reflexivity].
      apply Nat.eqb_eq in E. subst i.
      destruct (existsb (Nat.eqb x) r) eqn:Ex; [|reflexivity].
      exfalso. apply existsb_exists in Ex. destruct Ex as (z & Hz & Ez). apply Nat.eqb_eq in Ez. subst z.
      exact (Hx Hz).
Qed.

Definition fu (uc : list entry) (i : nat) : nat :=
  match find_uc i uc with Some g => g | None => 0 end.

Lemma find_uc_in i uc g : find_uc i uc = Some g -> In i (map e_idx uc).
Proof.
  revert g. induction uc as [|e r IH]; intros g; simpl; [discriminate|].
  destruct (find_uc i r) as [g'|].
  - intros _. right. apply (IH g'). reflexivity.
  - destruct (Nat.eqb (e_idx e) i) eqn:E; [|discriminate]. intros _. left. apply Nat.eqb_eq. exact E.
Qed.

Lemma sum_uc uc len :
  NoDup (map e_idx uc) -> (forall x, In x (map e_idx uc) -> x < len) ->
  sumf (fu uc) (seq 0 len) = sumg uc.
Proof.
  induction uc as [|e r IH]; intros Hn Hb.
  - simpl. unfold fu. simpl. induction (seq 0 len); simpl; auto.
  - simpl in Hn. inversion Hn as [|? ? Hx Hr]; subst.
    rewrite (sumf_ext _ (fun i => (if Nat.eqb (e_idx e) i then e_n e else 0) + fu r i)).
    + rewrite sumf_add, IH; [|exact Hr|intros y Hy; apply Hb; right; exact Hy].
      rewrite (sumf_single (e_n e) (e_idx e) (seq 0 len) (seq_NoDup len 0)), existsb_seq.
      assert (e_idx e < len) by (apply Hb; left; reflexivity).
      apply Nat.ltb_lt in H. rewrite H. simpl. lia.
    + intros i _. unfold fu. simpl. destruct (find_uc i r) as [g|] eqn:F.
      * destruct (Nat.eqb (e_idx e) i) eqn:E; [|lia].
        exfalso. apply Nat.eqb_eq in E. subst i. apply Hx. eapply find_uc_in; eassumption.
      * destruct (Nat.eqb (e_idx e) i); lia.
Qed.

(* assembling the list of numbers from `one` and `under_consideration` *)
Lemma assemble_sum one uc len :
  NoDup (one ++ map e_idx uc) -> (forall x, In x (one ++ map e_idx uc) -> x < len) ->
  fold_right plus 0 (map (count_of one uc) (seq 0 len)) = length one + sumg uc.
Proof.
  intros Hn Hb.
  assert (H1 : NoDup one) by (eapply NoDup_app_l; exact Hn).
  assert (H2 : NoDup (map e_idx uc)) by (eapply NoDup_app_r; exact Hn).
  rewrite <- (sum_one one len H1), <- (sum_uc uc len H2).
  - rewrite <- sumf_add. unfold sumf. induction (seq 0 len) as [|i l IHl]; simpl; [reflexivity|].
    assert (IHl' := IHl). rewrite IHl'. clear IHl IHl'.
    unfold count_of, fu. destruct (find_uc i uc) as [g|] eqn:F; [|lia].
    destruct (existsb (Nat.eqb i) one) eqn:Ex; [|lia].
    exfalso. apply existsb_exists in Ex. destruct Ex as (z & Hz & Ez). apply Nat.eqb_eq in Ez. subst z.
    apply find_uc_in in F. revert Hz F. clear - Hn. revert Hn.
    induction one as [|x r IH]; simpl; intros Hn Hz F; [contradiction|].
    inversion Hn as [|? ? Hx Hr]; subst. destruct Hz as [->|Hz].
    + apply Hx. apply in_or_app. right. exact F.
    + exact (IH Hr Hz F).
  - intros x Hx. apply Hb. apply in_or_app. right. exact Hx.
  - intros x Hx. apply Hb. apply in_or_app. left. exact Hx.
Qed.

(* ------------------------------------------------------- insort and pop *)
Lemma insort_perm ntot e l : Permutation (insort ntot e l) (e :: l).
Proof.
  induction l as [|x r IH]; simpl; [apply Permutation_refl|].
  destruct (Qlt_bool (ratio ntot e) (ratio ntot x)); [apply Permutation_refl|].
  eapply Permutation_trans; [apply perm_skip; exact IH|apply perm_swap].
Qed.

Lemma sumg_perm l l' : Permutation l l' -> sumg l = sumg l'.
Proof. induction 1; simpl; lia. Qed.

Definition J (one : list nat) (uc : list entry) (total : nat) : Prop :=
  total = length one + sumg uc /\ Forall (fun e => 2 <= e_n e) uc /\
  NoDup (one ++ map e_idx uc).

Lemma NoDup_perm_app (one : list nat) a b :
  Permutation a b -> NoDup (one ++ a) -> NoDup (one ++ b).
Proof. intros P H. eapply Permutation_NoDup; [|exact H]. apply Permutation_app_head. exact P. Qed.

Lemma J_insort ntot one uc total e :
  2 <= e_n e -> NoDup (one ++ e_idx e :: map e_idx uc) ->
  total = length one + e_n e + sumg uc -> Forall (fun e => 2 <= e_n e) uc ->
  J one (insort ntot e uc) total.
Proof.
  intros H2 Hn Ht Hf. pose proof (insort_perm ntot e uc) as P. split; [|split].
  - rewrite (sumg_perm _ _ P). simpl. lia.
  - eapply Permutation_Forall; [apply Permutation_sym; exact P|]. constructor; assumption.
  - eapply NoDup_perm_app; [|exact Hn].
    apply Permutation_sym. change (e_idx e :: map e_idx uc) with (map e_idx (e :: uc)).
    apply Permutation_map. exact P.
Qed.

Lemma J_one one uc total i :
  NoDup (one ++ i :: map e_idx uc) -> total = length one + 1 + sumg uc ->
  Forall (fun e => 2 <= e_n e) uc -> J (one ++ [i]) uc total.
Proof.
  intros Hn Ht Hf. split; [|split; [exact Hf|]].
  - rewrite app_length. simpl. lia.
  - rewrite <- app_assoc. exact Hn.
Qed.

(* the first loop *)
Lemma first_pass_J ntot : forall l one uc total,
  J one uc total -> NoDup (one ++ map e_idx uc ++ map fst l) ->
  (forall i w, In (i, w) l -> 1 <= guess_of ntot w) ->
  let '(one', uc', total') := first_pass ntot l one uc total in
  J one' uc' total' /\ length one' + length uc' = length one + length uc + length l /\
  Permutation (one' ++ map e_idx uc') (one ++ map e_idx uc ++ map fst l).
Proof.
  induction l as [|[i w] r IH]; intros one uc total HJ Hn Hg; cbn [first_pass].
  - split; [exact HJ|]. split; [simpl; lia|]. simpl. rewrite app_nil_r. apply Permutation_refl.
  - destruct HJ as (Ht & Hf & Hd).
    assert (G1 : 1 <= guess_of ntot w) by (apply (Hg i w); left; reflexivity).
    assert (Hg' : forall i0 w0, In (i0, w0) r -> 1 <= guess_of ntot w0)
      by (intros; eapply Hg; right; eassumption).
    assert (Pm : Permutation (one ++ map e_idx uc ++ i :: map fst r)
                             (one ++ i :: map e_idx uc ++ map fst r)).
    { apply Permutation_app_head. apply Permutation_sym. apply Permutation_middle. }
    simpl in Hn.
    destruct (Nat.eqb (guess_of ntot w) 1) eqn:E.
    + apply Nat.eqb_eq in E.
      assert (Hn2 : NoDup ((one ++ [i]) ++ map e_idx uc ++ map fst r)).
      { rewrite <- app_assoc. simpl. eapply Permutation_NoDup; [exact Pm|exact Hn]. }
      assert (HJ' : J (one ++ [i]) uc (total + guess_of ntot w)).
      { apply J_one; [|lia|exact Hf].
        assert (Q : NoDup (one ++ i :: map e_idx uc ++ map fst r))
          by (eapply Permutation_NoDup; [exact Pm|exact Hn]).
        rewrite app_comm_cons, app_assoc in Q. apply NoDup_app_l in Q. exact Q. }
      specialize (IH (one ++ [i]) uc (total + guess_of ntot w) HJ' Hn2 Hg').
      destruct (first_pass ntot r (one ++ [i]) uc (total + guess_of ntot w)) as [[o' u'] t'].
      destruct IH as (A & B & C). split; [exact A|]. split.
      * rewrite app_length in B. simpl in *. lia.
      * eapply Permutation_trans; [exact C|]. rewrite <- app_assoc. simpl.
        apply Permutation_sym. exact Pm.
    + apply Nat.eqb_neq in E.
      set (e := mkE i w (guess_of ntot w)).
      assert (Q : NoDup (one ++ i :: map e_idx uc ++ map fst r))
        by (eapply Permutation_NoDup; [exact Pm|exact Hn]).
      assert (HJ' : J one (insort ntot e uc) (total + guess_of ntot w)).
      { apply J_insort; simpl; [lia| |lia|exact Hf].
        rewrite app_comm_cons, app_assoc in Q. apply NoDup_app_l in Q. exact Q. }
      assert (Pi : Permutation (map e_idx (insort ntot e uc)) (i :: map e_idx uc)).
      { change (i :: map e_idx uc) with (map e_idx (e :: uc)). apply Permutation_map, insort_perm. }
      assert (Hn2 : NoDup (one ++ map e_idx (insort ntot e uc) ++ map fst r)).
      { eapply Permutation_NoDup; [|exact Q]. apply Permutation_app_head.
        apply Permutation_sym. change (i :: map e_idx uc ++ map fst r) with ((i :: map e_idx uc) ++ map fst r).
        apply Permutation_app_tail. exact Pi. }
      specialize (IH one (insort ntot e uc) (total + guess_of ntot w) HJ' Hn2 Hg').
      destruct (first_pass ntot r one (insort ntot e uc) (total + guess_of ntot w)) as [[o' u'] t'].
      destruct IH as (A & B & C). split; [exact A|]. split.
      * pose proof (Permutation_length (insort_perm ntot e uc)) as L. simpl in *. lia.
      * eapply Permutation_trans; [exact C|].
        eapply Permutation_trans; [|apply Permutation_sym; exact Pm].
        apply Permutation_app_head.
        change (i :: map e_idx uc ++ map fst r) with ((i :: map e_idx uc) ++ map fst r).
        apply Permutation_app_tail. exact Pi.
Qed.

(* the second loop: never pops from an empty list, ends with the requested
   total when it started above it *)
Lemma reduce_J ntot : forall fuel one uc total,
  J one uc total -> length one + length uc <= ntot -> total - ntot <= fuel ->
  exists one' uc', reduce fuel ntot one uc total = Some (one', uc') /\
    J one' uc' (Nat.min total ntot) /\
    Permutation (one' ++ map e_idx uc') (one ++ map e_idx uc).
Proof.
  induction fuel as [|f IH]; intros one uc total HJ Hlen Hfuel; cbn [reduce].
  - assert (E : Nat.leb total ntot = true) by (apply Nat.leb_le; lia). rewrite E.
    exists one, uc. split; [reflexivity|]. apply Nat.leb_le in E.
    rewrite (Nat.min_l _ _ E). split; [exact HJ|apply Permutation_refl].
  - destruct (Nat.leb total ntot) eqn:E.
    + exists one, uc. split; [reflexivity|]. apply Nat.leb_le in E.
      rewrite (Nat.min_l _ _ E). split; [exact HJ|apply Permutation_refl].
    + apply Nat.leb_gt in E. destruct HJ as (Ht & Hf & Hd).
      destruct (rev uc) as [|e rest] eqn:Er.
      * exfalso. assert (uc = []) by (rewrite <- (rev_involutive uc), Er; reflexivity).
        subst uc. simpl in *. lia.
      * assert (Euc : uc = rev rest ++ [e]) by (rewrite <- (rev_involutive uc), Er; reflexivity).
        set (uc' := rev rest) in *.
        assert (P : Permutation uc (e :: uc')).
        { rewrite Euc. apply Permutation_sym. apply Permutation_cons_append. }
        assert (Hf' : Forall (fun e => 2 <= e_n e) (e :: uc'))
          by (eapply Permutation_Forall; [exact P|exact Hf]).
        apply Forall_cons_iff in Hf'. destruct Hf' as (He & Hfu).
        assert (Hs : sumg uc = e_n e + sumg uc') by (rewrite (sumg_perm _ _ P); reflexivity).
        assert (Hd' : NoDup (one ++ e_idx e :: map e_idx uc')).
        { eapply NoDup_perm_app; [|exact Hd]. change (e_idx e :: map e_idx uc') with (map e_idx (e :: uc')).
          apply Permutation_map. exact P. }
        assert (Lu : length uc = S (length uc')) by (rewrite (Permutation_length P); reflexivity).
        assert (Pidx : Permutation (one ++ e_idx e :: map e_idx uc') (one ++ map e_idx uc)).
        { apply Permutation_app_head. change (e_idx e :: map e_idx uc') with (map e_idx (e :: uc')).
          apply Permutation_map. apply Permutation_sym. exact P. }
        destruct (Nat.eqb (e_n e - 1) 1) eqn:E1.
        -- apply Nat.eqb_eq in E1.
           assert (HJ' : J (one ++ [e_idx e]) uc' (total - 1)) by (apply J_one; [exact Hd'|lia|exact Hfu]).
           destruct (IH (one ++ [e_idx e]) uc' (total - 1) HJ') as (o' & u' & A & B & C).
           ++ rewrite app_length. simpl. lia.
           ++ lia.
           ++ exists o', u'. split; [exact A|]. split.
              ** replace (Nat.min total ntot) with (Nat.min (total - 1) ntot) by lia. exact B.
              ** eapply Permutation_trans; [exact C|]. rewrite <- app_assoc. exact Pidx.
        -- apply Nat.eqb_neq in E1.
           set (e' := mkE (e_idx e) (e_w e) (e_n e - 1)).
           assert (HJ' : J one (insort ntot e' uc') (total - 1)).
           { apply J_insort; simpl; [lia|exact Hd'|lia|exact Hfu]. }
           assert (Pi : Permutation (map e_idx (insort ntot e' uc')) (e_idx e :: map e_idx uc')).
           { change (e_idx e :: map e_idx uc') with (map e_idx (e' :: uc')).
             apply Permutation_map, insort_perm. }
           destruct (IH one (insort ntot e' uc') (total - 1) HJ') as (o' & u' & A & B & C).
           ++ rewrite (Permutation_length (insort_perm ntot e' uc')). simpl. lia.
           ++ lia.
           ++ exists o', u'. split; [exact A|]. split.
              ** replace (Nat.min total ntot) with (Nat.min (total - 1) ntot) by lia. exact B.
              ** eapply Permutation_trans; [exact C|].
                 eapply Permutation_trans; [apply Permutation_app_head; exact Pi|exact Pidx].
Qed.

(* ------------------------------------------------------------- positive *)
Lemma positive_spec : forall ws i,
  NoDup (map fst (positive i ws)) /\
  (forall j w, In (j, w) (positive i ws) -> i <= j < i + length ws /\ nth (j - i) ws 0%Q = w /\ (0 < w)%Q) /\
  (forall j, j < length ws -> (0 < nth j ws 0%Q)%Q -> In (i + j) (map fst (positive i ws))).
Proof.
  induction ws as [|w r IH]; intros i; cbn [positive].
  - split; [constructor|]. split; [intros j w []|]. simpl. intros j Hj; lia.
  - destruct (IH (S i)) as (A & B & C).
    assert (Hpos : Qlt_bool 0 w = true <-> (0 < w)%Q).
    { unfold Qlt_bool. rewrite negb_true_iff. split.
      - intros H. apply Qnot_le_lt. intros Cn. apply Qle_bool_iff in Cn. congruence.
      - intros H. destruct (Qle_bool w 0) eqn:E; auto. apply Qle_bool_iff in E. lra. }
    destruct (Qlt_bool 0 w) eqn:E.
    + split; [|split].
      * simpl. constructor; [|exact A]. intros Hin. apply in_map_iff in Hin.
        destruct Hin as ([j w'] & Ej & Hin). simpl in Ej. subst j. apply B in Hin. lia.
      * intros j w' [H|H].
        -- inversion H; subst. rewrite Nat.sub_diag. simpl. split; [lia|]. split; [reflexivity|apply Hpos; reflexivity].
        -- destruct (B j w' H) as ((B1 & B2) & B3 & B4). simpl length. split; [lia|]. split; [|exact B4].
           replace (j - i) with (S (j - S i)) by lia. exact B3.
      * intros [|j] Hj Hw.
        -- left. simpl. lia.
        -- right. simpl in Hj, Hw. replace (i + S j) with (S i + j) by lia. apply C; [lia|exact Hw].
    + split; [exact A|]. split.
      * intros j w' H. destruct (B j w' H) as ((B1 & B2) & B3 & B4). simpl length. split; [lia|]. split; [|exact B4].
        replace (j - i) with (S (j - S i)) by lia. exact B3.
      * intros [|j] Hj Hw.
        -- exfalso. simpl in Hw. apply Hpos in Hw. discriminate.
        -- simpl in Hj, Hw. replace (i + S j) with (S i + j) by lia. apply C; [lia|exact Hw].
Qed.

Lemma guess_pos ntot w : 1 <= ntot -> (0 < w)%Q -> 1 <= guess_of ntot w.
Proof.
  intros Hn Hw. unfold guess_of.
  assert (0 < w * Qnat ntot)%Q.
  { apply Qmult_lt_0_compat; [exact Hw|]. unfold Qnat. rewrite <- (Zlt_Qlt 0). lia. }
  assert (0 < Qceiling (w * Qnat ntot))%Z.
  { apply Z.lt_nge. intros C. pose proof (Qle_ceiling (w * Qnat ntot)) as L.
    assert (inject_Z (Qceiling (w * Qnat ntot)) <= 0)%Q by (rewrite <- (Zle_Qle _ 0); exact C). lra. }
  lia.
Qed.

(* ------------------------------------------------------------ main result *)
Theorem minimum_roundoff_spec ws ntot :
  length (positive 0 ws) <= ntot ->
  exists counts, minimum_roundoff ws ntot = Counts counts /\
    length counts = length ws /\
    let total0 := fold_right plus 0 (map (fun iw => guess_of ntot (snd iw)) (positive 0 ws)) in
    fold_right plus 0 counts = Nat.min total0 ntot /\
    (forall j, j < length ws -> (0 < nth j ws 0%Q)%Q -> 1 <= nth j counts 0) /\
    (forall j, j < length ws -> ~ (0 < nth j ws 0%Q)%Q -> nth j counts 0 = 0).
Proof.
  intros Hlen. unfold minimum_roundoff.
  assert (E : Nat.ltb ntot (length (positive 0 ws)) = false) by (apply Nat.ltb_ge; exact Hlen).
  rewrite E. destruct (positive_spec ws 0) as (PA & PB & PC).
  assert (J0 : J [] [] 0) by (split; [reflexivity|split; constructor]).
  assert (Hg : forall i w, In (i, w) (positive 0 ws) -> 1 <= guess_of ntot w).
  { intros i w Hin. destruct (PB i w Hin) as (_ & _ & Hw). apply guess_pos; [|exact Hw].
    destruct (positive 0 ws); [contradiction|simpl in Hlen; lia]. }
  pose proof (first_pass_J ntot (positive 0 ws) [] [] 0 J0 PA Hg) as F.
  assert (T0 : forall l one uc total,
             snd (first_pass ntot l one uc total)
             = total + fold_right plus 0 (map (fun iw => guess_of ntot (snd iw)) l)).
  { induction l as [|[i w] r IHl]; intros; cbn [first_pass]; [simpl; lia|].
    destruct (Nat.eqb (guess_of ntot w) 1); rewrite IHl; simpl; lia. }
  specialize (T0 (positive 0 ws) [] [] 0).
  destruct (first_pass ntot (positive 0 ws) [] [] 0) as [[one uc] total].
  destruct F as (HJ & HL & HP). simpl in T0, HL, HP.
  destruct (reduce_J ntot total one uc total HJ ltac:(lia) ltac:(lia)) as (o' & u' & R & HJ' & HP').
  rewrite R. eexists. split; [reflexivity|]. split; [rewrite map_length, seq_length; reflexivity|].
  cbv zeta. destruct HJ' as (Ht' & Hf' & Hd').
  assert (Pall : Permutation (o' ++ map e_idx u') (map fst (positive 0 ws)))
    by (eapply Permutation_trans; [exact HP'|exact HP]).
  assert (Hb : forall x, In x (o' ++ map e_idx u') -> x < length ws).
  { intros x Hx. apply (Permutation_in _ Pall) in Hx. apply in_map_iff in Hx.
    destruct Hx as ([j w] & Ej & Hin). simpl in Ej. subst j. apply PB in Hin. lia. }
  split; [|split].
  - rewrite (assemble_sum o' u' (length ws) Hd' Hb). subst total. lia.
  - intros j Hj Hw. rewrite (nth_indep _ 0 (count_of o' u' 0)) by (rewrite map_length, seq_length; exact Hj).
    rewrite map_nth, seq_nth by exact Hj. simpl.
    assert (Hin : In j (o' ++ map e_idx u')).
    { apply (Permutation_in _ (Permutation_sym Pall)). apply (PC j Hj Hw). }
    unfold count_of. destruct (find_uc j u') as [g|] eqn:Fu.
    + assert (Hg2 : forall uc g0, Forall (fun e => 2 <= e_n e) uc -> find_uc j uc = Some g0 -> 2 <= g0).
      { clear. induction uc as [|e r IH]; simpl; intros g0 Hf; [discriminate|].
        inversion Hf; subst. destruct (find_uc j r) as [g1|].
        - intros H; inversion H; subst. apply IH; [assumption|reflexivity].
        - destruct (Nat.eqb (e_idx e) j); [|discriminate]. intros H; inversion H; subst. assumption. }
      pose proof (Hg2 u' g Hf' Fu). lia.
    + apply in_app_or in Hin. destruct Hin as [Hin|Hin].
      * assert (existsb (Nat.eqb j) o' = true) by (apply existsb_exists; exists j; split; [exact Hin|apply Nat.eqb_refl]).
        rewrite H. lia.
      * exfalso. clear - Fu Hin. induction u' as [|e r IH]; simpl in *; [contradiction|].
        destruct (find_uc j r); [discriminate|]. destruct (Nat.eqb (e_idx e) j) eqn:E; [discriminate|].
        destruct Hin as [H|H]; [apply Nat.eqb_neq in E; contradiction|exact (IH H eq_refl)].
  - intros j Hj Hw. rewrite (nth_indep _ 0 (count_of o' u' 0)) by (rewrite map_length, seq_length; exact Hj).
    rewrite map_nth, seq_nth by exact Hj. simpl.
    assert (Hnin : ~ In j (o' ++ map e_idx u')).
    { intros Hin. apply (Permutation_in _ Pall) in Hin. apply in_map_iff in Hin.
      destruct Hin as ([j' w] & Ej & Hin). simpl in Ej. subst j'. destruct (PB j w Hin) as (_ & Hn & Hp).
      rewrite Nat.sub_0_r in Hn. rewrite Hn in Hw. exact (Hw Hp). }
    unfold count_of. destruct (find_uc j u') as [g|] eqn:Fu.
    + exfalso. apply Hnin. apply in_or_app. right. eapply find_uc_in; eassumption.
    + destruct (existsb (Nat.eqb j) o') eqn:Ex; [|reflexivity].
      exfalso. apply existsb_exists in Ex. destruct Ex as (z & Hz & Ez). apply Nat.eqb_eq in Ez. subst z.
      apply Hnin. apply in_or_app. left. exact Hz.
Qed.

(* -------------------------------- weights summing to one give exactly ntraj *)
Definition qsum (l : list Q) : Q := fold_right Qplus 0%Q l.

Lemma guess_ge ntot w : (0 <= w)%Q -> (w * Qnat ntot <= Qnat (guess_of ntot w))%Q.
Proof.
  intros Hw. unfold guess_of, Qnat.
  pose proof (Qle_ceiling (w * inject_Z (Z.of_nat ntot))) as L.
  assert (0 <= Qceiling (w * inject_Z (Z.of_nat ntot)))%Z.
  { apply Z.le_ngt. intros C.
    assert (0 <= w * inject_Z (Z.of_nat ntot))%Q.
    { apply Qmult_le_0_compat; [exact Hw|]. rewrite <- (Zle_Qle 0). lia. }
    assert (inject_Z (Qceiling (w * inject_Z (Z.of_nat ntot))) < 0)%Q.
    { rewrite <- (Zlt_Qlt _ 0). exact C. }
    lra. }
  rewrite Z2Nat.id by assumption. exact L.
Qed.

Lemma total0_ge ntot : forall ws i,
  (forall w, In w ws -> (0 <= w)%Q) ->
  (qsum ws * Qnat ntot
   <= Qnat (fold_right plus O (map (fun iw => guess_of ntot (snd iw)) (positive i ws))))%Q.
Proof.
  induction ws as [|w r IH]; intros i Hnn; cbn [positive qsum fold_right].
  - cbn [map fold_right]. change (Qnat 0) with 0%Q. rewrite Qmult_0_l. apply Qle_refl.
  - assert (Hw : (0 <= w)%Q) by (apply Hnn; left; reflexivity).
    assert (Hr : forall w0, In w0 r -> (0 <= w0)%Q) by (intros; apply Hnn; right; assumption).
    specialize (IH (S i) Hr). fold (qsum r).
    destruct (Qlt_bool 0 w) eqn:E.
    + cbn [map fold_right snd]. unfold Qnat at 2. rewrite Nat2Z.inj_add, inject_Z_plus.
      fold (Qnat (guess_of ntot w)).
      fold (Qnat (fold_right Init.Nat.add 0 (map (fun iw => guess_of ntot (snd iw)) (positive (S i) r)))).
      pose proof (guess_ge ntot w Hw). lra.
    + assert (w == 0)%Q.
      { unfold Qlt_bool in E. rewrite negb_false_iff in E. apply Qle_bool_iff in E. lra. }
      rewrite H. lra.
Qed.

Theorem counts_sum_to_ntraj ws ntot :
  (forall w, In w ws -> (0 <= w)%Q) -> (qsum ws == 1)%Q ->
  length (positive 0 ws) <= ntot ->
  exists counts, minimum_roundoff ws ntot = Counts counts /\ length counts = length ws /\
    fold_right plus 0 counts = ntot /\
    (forall j, j < length ws -> (0 < nth j ws 0%Q)%Q -> 1 <= nth j counts 0) /\
    (forall j, j < length ws -> ~ (0 < nth j ws 0%Q)%Q -> nth j counts 0 = 0).
Proof.
  intros Hnn Hs Hlen. destruct (minimum_roundoff_spec ws ntot Hlen) as (c & A & B & C & D & F).
  exists c. split; [exact A|]. split; [exact B|]. split; [|split; assumption].
  cbv zeta in C. rewrite C. apply Nat.min_r.
  pose proof (total0_ge ntot ws 0 Hnn) as G. rewrite Hs in G.
  apply Nat2Z.inj_le. rewrite Zle_Qle. unfold Qnat in G. lra.
Qed.

(* ------------------------------------------ which state a trajectory gets *)
(* get_state_index: trajectory id belongs to state k iff
   n_0 + ... + n_{k-1} <= id < n_0 + ... + n_k *)
Fixpoint psum (l : list nat) (k : nat) : nat :=
  match k, l with
  | S k', n :: r => n + psum r k'
  | _, _ => 0
  end.

Lemma sif_bounds : forall counts acc id,
  acc <= id ->
  let k := state_index_from acc counts id in
  k <= length counts /\ acc + psum counts k <= id /\
  (k < length counts -> id < acc + psum counts (S k)).
Proof.
  induction counts as [|n r IH]; intros acc id Hacc; cbn [state_index_from].
  - simpl. repeat split; try lia.
  - destruct (Nat.leb (acc + n) id) eqn:E.
    + apply Nat.leb_le in E. destruct (IH (acc + n) id E) as (A & B & C).
      cbv zeta. cbn [length psum]. split; [lia|]. split; [lia|]. intros H. specialize (C ltac:(lia)).
      destruct r; simpl in *; lia.
    + apply Nat.leb_gt in E. cbv zeta. cbn [length psum]. split; [lia|]. split; [lia|].
      intros _. destruct r; simpl; lia.
Qed.

Theorem state_index_spec counts id k :
  state_index counts id = Some k ->
  k < length counts /\ psum counts k <= id < psum counts (S k).
Proof.
  unfold state_index. destruct (Nat.ltb (state_index_from 0 counts id) (length counts)) eqn:E; [|discriminate].
  intros H; inversion H; subst. apply Nat.ltb_lt in E.
  destruct (sif_bounds counts 0 id ltac:(lia)) as (A & B & C). specialize (C E). lia.
Qed.

Lemma psum_total : forall l k, length l <= k -> psum l k = fold_right plus 0 l.
Proof.
  induction l as [|n r IH]; intros k Hk; destruct k; simpl in *; try lia.
  rewrite IH; lia.
Qed.

Theorem state_index_total counts id :
  state_index counts id = None <-> fold_right plus 0 counts <= id.
Proof.
  unfold state_index. destruct (sif_bounds counts 0 id ltac:(lia)) as (A & B & C). cbv zeta in *.
  destruct (Nat.ltb (state_index_from 0 counts id) (length counts)) eqn:E.
  - apply Nat.ltb_lt in E. specialize (C E). split; [discriminate|]. intros H. exfalso.
    assert (psum counts (S (state_index_from 0 counts id)) <= fold_right plus 0 counts).
    { clear. generalize (S (state_index_from 0 counts id)). induction counts as [|n r IH]; intros k; destruct k; simpl; try lia.
      specialize (IH k). lia. }
    lia.
  - apply Nat.ltb_ge in E. split; [|reflexivity]. intros _.
    rewrite <- (psum_total counts (state_index_from 0 counts id)) by lia. lia.
Qed.

(* ------------------------------------------------------------ the weights *)
Local Open Scope Q_scope.

Lemma qsum_scale c xs : qsum (map (fun x => c * x) xs) == c * qsum xs.
Proof.
  induction xs as [|x r IH]; unfold qsum in *; cbn [map fold_right]; [ring|].
  rewrite IH. ring.
Qed.

(* get_state_and_weight: the n_i trajectories of state i, each with the
   correction w_i / (n_i / N), carry the total relative weight w_i after the
   division by N that MultiTrajResult applies *)
Lemma correction_weight (w : Q) (n N : nat) :
  (0 < n)%nat -> (0 < N)%nat ->
  Qnat n * (w / (Qnat n / Qnat N)) / Qnat N == w.
Proof.
  intros Hn HN. unfold Qnat.
  assert (0 < inject_Z (Z.of_nat n)) by (rewrite <- (Zlt_Qlt 0); lia).
  assert (0 < inject_Z (Z.of_nat N)) by (rewrite <- (Zlt_Qlt 0); lia).
  field. split; lra.
Qed.

(* the estimator of a mixed ensemble: state i with weight w, n samples xs
   (n = length xs > 0): (1/N) sum_j corr_i x_j = w * mean(xs) *)
Lemma mixed_estimator_term (w : Q) (xs : list Q) (N : nat) :
  (0 < length xs)%nat -> (0 < N)%nat ->
  qsum (map (fun x => (w / (Qnat (length xs) / Qnat N)) * x) xs) / Qnat N
  == w * (qsum xs / Qnat (length xs)).
Proof.
  intros Hn HN.
  assert (Hl : 0 < Qnat (length xs)) by (unfold Qnat; rewrite <- (Zlt_Qlt 0); lia).
  assert (HN' : 0 < Qnat N) by (unfold Qnat; rewrite <- (Zlt_Qlt 0); lia).
  rewrite qsum_scale. field. split; lra.
Qed.

(* improved sampling on a mixed ensemble: state i enters with the absolute
   weight w_i p0_i (its no-jump trajectory) and n_i sampled trajectories of
   relative weight corr_i (1 - p0_i); after the division by N the total is w_i,
   and the estimator is w_i (p0_i x0 + (1 - p0_i) mean(xs)) *)
Lemma improved_mixed_term (w p0 x0 : Q) (xs : list Q) (N : nat) :
  (0 < length xs)%nat -> (0 < N)%nat ->
  w * p0 * x0 + qsum (map (fun x => ((w / (Qnat (length xs) / Qnat N)) * (1 - p0)) * x) xs) / Qnat N
  == w * (p0 * x0 + (1 - p0) * (qsum xs / Qnat (length xs))).
Proof.
  intros Hn HN.
  assert (Hl : 0 < Qnat (length xs)) by (unfold Qnat; rewrite <- (Zlt_Qlt 0); lia).
  assert (HN' : 0 < Qnat N) by (unfold Qnat; rewrite <- (Zlt_Qlt 0); lia).
  rewrite qsum_scale. field. split; lra.
Qed.

Lemma improved_mixed_weight (w p0 : Q) (n N : nat) :
  (0 < n)%nat -> (0 < N)%nat ->
  w * p0 + Qnat n * ((w / (Qnat n / Qnat N)) * (1 - p0)) / Qnat N == w.
Proof.
  intros Hn HN. unfold Qnat.
  assert (0 < inject_Z (Z.of_nat n)) by (rewrite <- (Zlt_Qlt 0); lia).
  assert (0 < inject_Z (Z.of_nat N)) by (rewrite <- (Zlt_Qlt 0); lia).
  field. split; lra.
Qed.
