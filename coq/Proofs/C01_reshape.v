(* C01 - reshape_csr / reshape_dense / column_stack: the entry at linear
   position i*nc + j keeps its value, for unsorted rows too. *)
From Coq Require Import List ZArith Bool Arith Lia ZifyBool.
Import ListNotations.
From QV Require Import Model.C01 Proofs.C01 Proofs.C01_pred Proofs.C01_add.

Section Reshape.
Variable C : Type.
Variable c0 : C.

Notation den_dense := (den_dense C c0).
Notation den_csr := (den_csr C c0).
Notation row_get := (row_get C c0).

Lemma find_map_tag : forall (l : crow C) base j,
  find (fun q : nat * C => fst q =? base + j) (map (fun p => (base + fst p, snd p)) l) =
  option_map (fun p : nat * C => (base + j, snd p)) (find (fun p => fst p =? j) l).
Proof.
  induction l as [|p t IH]; intros base j; simpl; [reflexivity|].
  assert (E : (base + fst p =? base + j) = (fst p =? j)) by lia. rewrite E.
  destruct (fst p =? j) eqn:F; [|apply IH]. simpl. f_equal. f_equal. lia.
Qed.

Lemma find_map_tag_none : forall (l : crow C) base target,
  (forall p, In p l -> base + fst p <> target) ->
  find (fun q : nat * C => fst q =? target) (map (fun p => (base + fst p, snd p)) l) = None.
Proof.
  induction l as [|p t IH]; intros base target H; simpl; [reflexivity|].
  assert (E : (base + fst p =? target) = false).
  { specialize (H p (or_introl eq_refl)). lia. }
  rewrite E. apply IH. intros q Hq. apply H. right. exact Hq.
Qed.

Lemma locs_lb : forall nc (rows : list (crow C)) r q,
  In q (locs C nc r rows) -> r * nc <= fst q.
Proof.
  intros nc. induction rows as [|row t IH]; intros r q H; simpl in H; [contradiction|].
  apply in_app_or in H. destruct H as [H|H].
  - apply in_map_iff in H. destruct H as [p [<- _]]. simpl. lia.
  - apply IH in H. nia.
Qed.

Lemma sorted_bound : forall nc (row : crow C) p,
  (forall q, In q row -> fst q < nc) -> In p (sort_cols C row) -> fst p < nc.
Proof.
  intros nc row p H Hp.
  assert (Hk : In (fst p) (map fst (sort_cols C row))) by (apply in_map; exact Hp).
  rewrite sort_keys in Hk. apply in_map_iff in Hk. destruct Hk as [q [E Hq]].
  rewrite <- E. apply H. exact Hq.
Qed.

Lemma locs_find : forall nc (rows : list (crow C)) r i j,
  (forall row, In row rows -> forall p, In p row -> fst p < nc) ->
  r <= i < r + length rows -> j < nc ->
  find (fun q : nat * C => fst q =? i * nc + j) (locs C nc r rows) =
  option_map (fun p : nat * C => (i * nc + j, snd p))
             (find (fun p => fst p =? j) (sort_cols C (nth (i - r) rows []))).
Proof.
  intros nc. induction rows as [|row t IH]; intros r i j Hb Hi Hj; simpl in Hi; [lia|].
  simpl locs. rewrite find_app.
  assert (Hrow : forall p, In p (sort_cols C row) -> fst p < nc).
  { intros p Hp. apply (sorted_bound nc row p); [|exact Hp]. apply Hb. left. reflexivity. }
  assert (Hb' : forall row', In row' t -> forall p, In p row' -> fst p < nc).
  { intros row' H'. apply Hb. right. exact H'. }
  destruct (Nat.eq_dec r i) as [->|Hne].
  - rewrite Nat.sub_diag. simpl nth. rewrite find_map_tag.
    destruct (find (fun p : nat * C => fst p =? j) (sort_cols C row)) as [p|]; simpl; [reflexivity|].
    destruct (find (fun q : nat * C => fst q =? i * nc + j) (locs C nc (S i) t)) as [q|] eqn:F;
      [|reflexivity].
    apply find_some in F. destruct F as [Hin Eq]. apply locs_lb in Hin. exfalso. nia.
  - rewrite find_map_tag_none.
    + assert (Es : i - r = S (i - S r)) by lia. rewrite Es. simpl nth.
      apply IH; [exact Hb'|lia|exact Hj].
    + intros p Hp. specialize (Hrow p Hp). nia.
Qed.

Lemma regroup_find : forall (L : crow C) i' j' nc', 0 < nc' -> j' < nc' ->
  find (fun p : nat * C => fst p =? j')
       (map (fun q : nat * C => (fst q mod nc', snd q))
            (filter (fun q : nat * C => fst q / nc' =? i') L)) =
  option_map (fun q : nat * C => (j', snd q))
             (find (fun q : nat * C => fst q =? i' * nc' + j') L).
Proof.
  induction L as [|q t IH]; intros i' j' nc' Hn Hj; simpl; [reflexivity|].
  destruct (Nat.eq_dec (fst q) (i' * nc' + j')) as [E|E].
  - assert (E1 : fst q / nc' = i').
    { symmetry. apply Nat.div_unique with (r := j'); lia. }
    assert (E2 : fst q mod nc' = j').
    { symmetry. apply Nat.mod_unique with (q := i'); lia. }
    rewrite E1, Nat.eqb_refl. simpl. rewrite E2, Nat.eqb_refl.
    assert (E3 : (fst q =? i' * nc' + j') = true) by lia. rewrite E3. reflexivity.
  - assert (E3 : (fst q =? i' * nc' + j') = false) by lia. rewrite E3.
    destruct (fst q / nc' =? i') eqn:D; [|apply IH; assumption].
    simpl. destruct (fst q mod nc' =? j') eqn:M; [|apply IH; assumption].
    exfalso. apply E.
    pose proof (Nat.div_mod (fst q) nc') as DM.
    assert (fst q / nc' = i') by lia. assert (fst q mod nc' = j') by lia.
    rewrite DM by lia. nia.
Qed.

Theorem reshape_csr_den : forall (m out : csr C) nr' nc' i j,
  wf_csr C m -> reshape_csr C m nr' nc' = Some out ->
  i < s_nr C m -> j < s_nc C m ->
  den_csr out ((i * s_nc C m + j) / nc') ((i * s_nc C m + j) mod nc') = den_csr m i j.
Proof.
  intros m out nr' nc' i j [Hlen Hrows] H Hi Hj. unfold reshape_csr in H.
  destruct (negb (nr' * nc' =? s_nr C m * s_nc C m) || (nr' =? 0) || (nc' =? 0)) eqn:G;
    [discriminate|].
  injection H as H. subst out.
  assert (Hsz : nr' * nc' = s_nr C m * s_nc C m) by lia.
  assert (Hn : 0 < nc') by lia.
  set (loc := i * s_nc C m + j).
  assert (Hloc : loc < nc' * nr') by (unfold loc; nia).
  assert (Hi' : loc / nc' < nr') by (apply Nat.div_lt_upper_bound; lia).
  assert (Hj' : loc mod nc' < nc') by (apply Nat.mod_upper_bound; lia).
  unfold C01.den_csr at 1. simpl.
  assert (E1 : (loc / nc' <? nr') && (loc mod nc' <? nc') = true) by lia. rewrite E1.
  rewrite nth_map_seq by exact Hi'.
  unfold C01.row_get at 1. rewrite regroup_find by assumption.
  assert (E2 : loc / nc' * nc' + loc mod nc' = i * s_nc C m + j).
  { pose proof (Nat.div_mod loc nc'). unfold loc in *. lia. }
  rewrite E2.
  rewrite locs_find; [|intros row Hr; apply (Hrows row Hr)|lia|exact Hj].
  rewrite Nat.sub_0_r.
  assert (Hin : In (nth i (s_rows C m) []) (s_rows C m)) by (apply nth_In; lia).
  destruct (Hrows _ Hin) as [Hnd _].
  pose proof (sort_get C c0 (nth i (s_rows C m) []) j Hnd) as SG.
  unfold C01.den_csr. assert (E3 : (i <? s_nr C m) && (j <? s_nc C m) = true) by lia.
  rewrite E3. rewrite <- SG. unfold C01.row_get.
  destruct (find (fun p : nat * C => fst p =? j) (sort_cols C (nth i (s_rows C m) [])));
    reflexivity.
Qed.

Theorem reshape_csr_guard : forall (m : csr C) nr' nc',
  nr' * nc' <> s_nr C m * s_nc C m -> reshape_csr C m nr' nc' = None.
Proof.
  intros m nr' nc' H. unfold reshape_csr.
  assert (E : negb (nr' * nc' =? s_nr C m * s_nc C m) = true) by lia. rewrite E. reflexivity.
Qed.

Theorem reshape_dense_den : forall (d out : dense C) nr' nc' i j,
  reshape_dense C c0 d nr' nc' = Some out ->
  i < d_nr C d -> j < d_nc C d ->
  den_dense out ((i * d_nc C d + j) / nc') ((i * d_nc C d + j) mod nc') = den_dense d i j.
Proof.
  intros d out nr' nc' i j H Hi Hj. unfold reshape_dense in H.
  destruct (negb (nr' * nc' =? d_nr C d * d_nc C d) || (nr' =? 0) || (nc' =? 0)) eqn:G;
    [discriminate|].
  injection H as H.
  assert (Hsz : nr' * nc' = d_nr C d * d_nc C d) by lia.
  set (loc := i * d_nc C d + j).
  assert (Hloc : loc < nc' * nr') by (unfold loc; nia).
  assert (Hi' : loc / nc' < nr') by (apply Nat.div_lt_upper_bound; lia).
  assert (Hj' : loc mod nc' < nc') by (apply Nat.mod_upper_bound; lia).
  assert (E2 : loc / nc' * nc' + loc mod nc' = loc).
  { pose proof (Nat.div_mod loc nc'). lia. }
  assert (E1 : (loc / nc' <? nr') && (loc mod nc' <? nc') = true) by lia.
  assert (E3 : (i <? d_nr C d) && (j <? d_nc C d) = true) by lia.
  destruct (d_fortran C d) eqn:F; subst out.
  - rewrite den_tabulate. rewrite E1. cbn zeta. rewrite E2.
    assert (A : loc / d_nc C d = i) by (symmetry; apply Nat.div_unique with (r := j); unfold loc; lia).
    assert (B : loc mod d_nc C d = j) by (symmetry; apply Nat.mod_unique with (q := i); unfold loc; lia).
    rewrite A, B. reflexivity.
  - unfold C01.den_dense. simpl. rewrite E1, E3, F. unfold didx. rewrite E2. reflexivity.
Qed.

Theorem column_stack_csr_den : forall (m out : csr C) i j,
  wf_csr C m -> column_stack_csr C m = Some out ->
  i < s_nr C m -> j < s_nc C m ->
  den_csr out (j * s_nr C m + i) 0 = den_csr m i j.
Proof.
  intros m out i j W H Hi Hj. unfold column_stack_csr in H.
  destruct (s_nc C m =? 1) eqn:E.
  - injection H as H. subst out. assert (j = 0) by lia. subst j. simpl. reflexivity.
  - pose proof (transpose_gen_wf C (fun v => v) m W) as WT.
    pose proof (reshape_csr_den (transpose_csr C m) out _ _ j i WT H) as R.
    assert (R' : den_csr out ((j * s_nr C m + i) / 1) ((j * s_nr C m + i) mod 1) =
                 den_csr (transpose_csr C m) j i) by (apply R; [exact Hj|exact Hi]).
    rewrite Nat.div_1_r, Nat.mod_1_r in R'. rewrite R'.
    destruct W as [Hlen _].
    apply (transpose_gen_den C c0 (fun v => v)); [reflexivity|exact Hlen].
Qed.

Theorem column_stack_dense_den : forall (d : dense C) i j,
  i < d_nr C d -> j < d_nc C d ->
  den_dense (column_stack_dense C c0 d) (j * d_nr C d + i) 0 = den_dense d i j.
Proof.
  intros d i j Hi Hj. unfold column_stack_dense.
  assert (E3 : (i <? d_nr C d) && (j <? d_nc C d) = true) by lia.
  assert (E1 : (j * d_nr C d + i <? d_nr C d * d_nc C d) && (0 <? 1) = true) by nia.
  destruct (d_fortran C d) eqn:F.
  - unfold C01.den_dense. simpl. rewrite E1, E3, F. unfold didx. f_equal. lia.
  - assert (Ei : didx (d_nr C d * d_nc C d) 1 true (j * d_nr C d + i) 0 =
                 didx (d_nr C d) (d_nc C d) true i j) by (unfold didx; lia).
    unfold C01.den_dense at 1. cbn [d_nr d_nc d_fortran d_data]. rewrite E1, Ei.
    apply nth_tabulate; assumption.
Qed.

(* ------------------------------------------------------- column_unstack *)
Theorem column_unstack_dense_den : forall (d out : dense C) rows i j,
  column_unstack_dense C d rows = Some out ->
  i < rows -> j < d_nr C d / rows ->
  d_fortran C out = true /\ d_nr C out = rows /\ d_nc C out = d_nr C d / rows /\
  den_dense out i j = den_dense d (i + j * rows) 0.
Proof.
  intros d out rows i j H Hi Hj. unfold column_unstack_dense in H.
  destruct (negb (d_nc C d =? 1) || (rows =? 0) || negb (d_nr C d mod rows =? 0)) eqn:G;
    [discriminate|].
  injection H as H. subst out. simpl. repeat split.
  assert (Hnc : d_nc C d = 1) by lia. assert (Hr : rows <> 0) by lia.
  assert (Hm : d_nr C d mod rows = 0) by lia.
  assert (Hn : d_nr C d = rows * (d_nr C d / rows)) by (apply Nat.div_exact; assumption).
  assert (Hk : i + j * rows < d_nr C d) by nia.
  unfold C01.den_dense. simpl.
  assert (E1 : (i <? rows) && (j <? d_nr C d / rows) = true) by lia.
  assert (E2 : (i + j * rows <? d_nr C d) && (0 <? d_nc C d) = true) by lia.
  rewrite E1, E2. f_equal. unfold didx. destruct (d_fortran C d); lia.
Qed.

Theorem column_unstack_dense_guard : forall (d : dense C) rows,
  (d_nc C d <> 1 \/ rows = 0 \/ d_nr C d mod rows <> 0) ->
  column_unstack_dense C d rows = None.
Proof.
  intros d rows H. unfold column_unstack_dense.
  assert (E : negb (d_nc C d =? 1) || (rows =? 0) || negb (d_nr C d mod rows =? 0) = true) by lia.
  rewrite E. reflexivity.
Qed.

Theorem column_unstack_csr_den : forall (m out : csr C) rows i j,
  wf_csr C m -> column_unstack_csr C m rows = Some out ->
  i < rows -> j < s_nr C m / rows ->
  den_csr out i j = den_csr m (i + j * rows) 0.
Proof.
  intros m out rows i j W H Hi Hj. unfold column_unstack_csr in H.
  destruct (negb (s_nc C m =? 1) || (rows =? 0) || negb (s_nr C m mod rows =? 0)) eqn:G;
    [discriminate|].
  destruct (reshape_csr C m (s_nr C m / rows) rows) as [t|] eqn:R; [|discriminate].
  injection H as H. subst out.
  assert (Hnc : s_nc C m = 1) by lia. assert (Hr : rows <> 0) by lia.
  assert (Hm : s_nr C m mod rows = 0) by lia.
  assert (Hn : s_nr C m = rows * (s_nr C m / rows)) by (apply Nat.div_exact; assumption).
  assert (Hk : i + j * rows < s_nr C m) by nia.
  pose proof (reshape_csr_den m t (s_nr C m / rows) rows (i + j * rows) 0 W R Hk) as D.
  rewrite Hnc in D. specialize (D (Nat.lt_0_1)).
  assert (A : ((i + j * rows) * 1 + 0) / rows = j)
    by (symmetry; apply Nat.div_unique with (r := i); lia).
  assert (B : ((i + j * rows) * 1 + 0) mod rows = i)
    by (symmetry; apply Nat.mod_unique with (q := j); lia).
  rewrite A, B in D. rewrite <- D.
  assert (Lt : length (s_rows C t) = s_nr C t).
  { unfold reshape_csr in R.
    destruct (negb (s_nr C m / rows * rows =? s_nr C m * s_nc C m)
              || (s_nr C m / rows =? 0) || (rows =? 0)); [discriminate|].
    injection R as R. subst t. simpl. rewrite map_length, seq_length. reflexivity. }
  apply (transpose_gen_den C c0 (fun v => v)); [reflexivity|exact Lt].
Qed.
End Reshape.
