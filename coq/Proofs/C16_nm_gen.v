(* C16 - nm_mcsolve, algebra of the rate shift (MathComp): the collapse
   operators handed to MCSolver are sqrt(gamma_i + s) L_i; with a complete
   family, sum L_i^dag L_i = a 1, the shift only adds - (s a / 2) 1 to the
   effective generator - the decay that the continuous martingale
   exp(a int s) undoes - and a jump sampled with the shifted rate and weighted
   by gamma_i / (gamma_i + s) contributes with the true rate gamma_i. *)
From mathcomp Require Import all_ssreflect all_algebra.
From QV Require Import Base.MxHerm Gen.C16_rhs Proofs.C16_gen.
Set Implicit Arguments. Unset Strict Implicit. Unset Printing Implicit Defensive.
Import GRing.Theory.
Local Open Scope ring_scope.

Section NmGen.
Variable R : fieldType.
Variable conj : {rmorphism R -> R}.
Hypothesis conjK : involutive conj.
Variables (iu half : R).
Variable n : nat.
Notation op := 'M[R]_n.
Notation dg := (dag conj).

(* a channel: (Lindblad operator L, rate gamma, r = sqrt(gamma + s)) *)
Definition chan := (op * R * R)%type.
Definition cL (x : chan) : op := x.1.1.
Definition cg (x : chan) : R := x.1.2.
Definition cr (x : chan) : R := x.2.
(* QobjEvo([op, sqrt_shifted_rate]) *)
Definition shifted_op (x : chan) : op := cr x *: cL x.

Variables (s a : R).
Variable chans : seq chan.
Hypothesis sqrt_ok : forall x, x \in chans -> conj (cr x) = cr x /\ cr x * cr x = cg x + s.
(* after _check_completeness: the family (with the extra operator) is complete *)
Hypothesis complete : \sum_(x <- chans) dg (cL x) *m cL x = a%:M.

Lemma shifted_rates_sum :
  \sum_(x <- chans) dg (shifted_op x) *m shifted_op x
  = \sum_(x <- chans) cg x *: (dg (cL x) *m cL x) + (s * a)%:M.
Proof.
have -> : (s * a)%:M = s *: (\sum_(x <- chans) dg (cL x) *m cL x) :> op.
  by rewrite complete scale_scalar_mx.
rewrite scaler_sumr -big_split /=.
apply: eq_big_seq => x /sqrt_ok [Hr Hs].
by rewrite /shifted_op dag_scale -scalemxAl -scalemxAr scalerA Hr Hs scalerDl.
Qed.

(* the generator MCSolver.__init__ builds from the shifted operators *)
Theorem shifted_generator (H : op) :
  ket_rhs conj iu half H [seq shifted_op x | x <- chans]
  = (- iu) *: H - half *: (\sum_(x <- chans) cg x *: (dg (cL x) *m cL x)) - (half * (s * a))%:M.
Proof.
rewrite ket_rhs_sum big_map shifted_rates_sum scalerDr opprD addrA.
by rewrite scale_scalar_mx.
Qed.

(* one step, jump part: sum over channels of
   (probability rate gamma_i + s) * (martingale factor gamma_i/(gamma_i + s))
   * (unnormalised post-jump state L_i rho L_i^dag)  =  the true jump term *)
Theorem jump_part_unbiased (rho : op) :
  (forall x, x \in chans -> cg x + s != 0) ->
  \sum_(x <- chans) ((cg x + s) * (cg x / (cg x + s))) *: (cL x *m rho *m dg (cL x))
  = \sum_(x <- chans) cg x *: (cL x *m rho *m dg (cL x)).
Proof.
move=> nz; apply: eq_big_seq => x /nz Hx.
by rewrite mulrCA divff // mulr1.
Qed.

End NmGen.
