(* C17 - proofs about the scheme steps of Model/C17_sde.v, for an arbitrary
   commutative ring of scalars, state space and system. *)
From Coq Require Import List ZArith Bool Arith Lia Ring.
Import ListNotations.
From QV Require Import Model.C17_sde.

Lemma fold_left_inv : forall {X Y} (P : X -> Prop) (f : X -> Y -> X) (l : list Y) (x : X),
  (forall acc y, P acc -> P (f acc y)) -> P x -> P (fold_left f l x).
Proof.
  intros X Y P f l. induction l as [|y l IH]; intros x Hf Hx; [exact Hx|].
  simpl. apply IH; [exact Hf|]. apply Hf. exact Hx.
Qed.

Lemma foldi_inv : forall {K V} (A : alg K V) (P : V -> Prop) n (f : nat -> V -> V) x,
  (forall i acc, P acc -> P (f i acc)) -> P x -> P (foldi n f x).
Proof.
  intros K V A P n f x Hf Hx. unfold foldi.
  apply fold_left_inv; [|exact Hx]. intros acc i. apply Hf.
Qed.

(* ------------------------------------------------------- trace preservation *)
Section Trace.
  Context {K V : Type} (A : alg K V) (S : sys K V) (tr : V -> K).
  Hypothesis Kth : ring_theory (k0 A) (k1 A) (kadd A) (kmul A) (ksub A) (kopp A) (@eq K).
  Add Ring Kr : Kth.
  Hypothesis tr_add : forall x y, tr (vadd A x y) = kadd A (tr x) (tr y).
  Hypothesis tr_scale : forall c x, tr (vscale A c x) = kmul A c (tr x).
  Hypothesis half2 : kadd A (half A) (half A) = k1 A.
  (* the three facts about the system: drift is traceless, diffusion and its
     derivative terms are traceless on states of trace one *)
  Hypothesis tr_a : forall v, tr (drift S v) = k0 A.
  Hypothesis tr_b : forall i v, tr v = k1 A -> tr (diff S i v) = k0 A.
  Hypothesis tr_Lb : forall i j v, tr v = k1 A -> tr (Lbij S i j v) = k0 A.

  Lemma tr_axpy : forall x y c, tr (axpy A x y c) = kadd A (tr x) (kmul A c (tr y)).
  Proof. intros. unfold axpy. now rewrite tr_add, tr_scale. Qed.

  Lemma tr_axpy0 : forall x y c t, tr x = t -> tr y = k0 A -> tr (axpy A x y c) = t.
  Proof. intros x y c t Hx Hy. rewrite tr_axpy, Hx, Hy. ring. Qed.

  Lemma euler_trace : forall meas state dt dW,
    tr state = k1 A -> tr (euler_step A S meas state dt dW) = k1 A.
  Proof.
    intros meas state dt dW H1. unfold euler_step.
    apply (foldi_inv A (fun v => tr v = k1 A)).
    - intros i acc Hacc. apply tr_axpy0; [exact Hacc|now apply tr_b].
    - apply tr_axpy0; [exact H1|apply tr_a].
  Qed.

  Lemma platen_trace : forall meas state dt sdt isdt4 dW,
    tr state = k1 A -> tr (platen_step A S meas state dt sdt isdt4 dW) = k1 A.
  Proof.
    intros meas state dt sdt isdt4 dW H1. unfold platen_step.
    set (d1 := axpy A state (drift S state) dt).
    assert (Hd1 : tr d1 = k1 A) by (apply tr_axpy0; [exact H1|apply tr_a]).
    assert (Hd2 : forall i, tr (diff S i state) = k0 A) by (intros; now apply tr_b).
    assert (HVp : forall i c, tr (axpy A d1 (diff S i state) c) = k1 A)
      by (intros; now apply tr_axpy0).
    apply (foldi_inv A (fun v => tr v = k1 A)).
    - intros i out Hout.
      apply (foldi_inv A (fun v => tr v = k1 A)).
      + intros j out' Hout'.
        destruct (Nat.eqb i j).
        * apply tr_axpy0; [apply tr_axpy0; [exact Hout'|]|]; apply tr_b; apply HVp.
        * apply tr_axpy0; [apply tr_axpy0; [exact Hout'|]|]; apply tr_b; apply HVp.
      + apply tr_axpy0; [exact Hout|apply Hd2].
    - rewrite tr_axpy, tr_axpy, tr_scale, Hd1, H1, tr_a. rewrite <- half2 at 3. ring.
  Qed.

  Lemma milstein_trace : forall meas state dt dW,
    tr state = k1 A -> tr (milstein_step A S meas state dt dW) = k1 A.
  Proof.
    intros meas state dt dW H1. unfold milstein_step.
    apply (foldi_inv A (fun v => tr v = k1 A)).
    - intros i out Hout. apply fold_left_inv; [|exact Hout].
      intros acc j Hacc. apply tr_axpy0; [exact Hacc|now apply tr_Lb].
    - apply (foldi_inv A (fun v => tr v = k1 A)).
      + intros i acc Hacc. apply tr_axpy0; [exact Hacc|now apply tr_b].
      + apply tr_axpy0; [exact H1|apply tr_a].
  Qed.

  Lemma predcorr_trace : forall meas alpha eta alpha_nz state dt dW,
    tr state = k1 A -> tr (predcorr_step A S meas alpha eta alpha_nz state dt dW) = k1 A.
  Proof.
    intros meas alpha eta alpha_nz state dt dW H1. unfold predcorr_step.
    set (dW' := adj_dW A S meas state dt dW).
    set (pr := fold_left _ (seq 0 (nops S)) _).
    assert (Hpr : tr (fst pr) = k1 A /\ tr (snd pr) = k1 A).
    { unfold pr.
      apply (fold_left_inv (fun p : V * V => tr (fst p) = k1 A /\ tr (snd p) = k1 A)).
      - intros [e o] i [He Ho]. simpl in *. split.
        + apply tr_axpy0; [exact He|now apply tr_b].
        + apply tr_axpy0; [apply tr_axpy0; [exact Ho|now apply tr_b]|now apply tr_Lb].
      - simpl. split; apply tr_axpy0; try exact H1; apply tr_a. }
    destruct pr as [euler out]. simpl in Hpr. destruct Hpr as [He Ho].
    assert (H2 : tr (foldi (nops S)
                   (fun i out0 => axpy A out0 (diff S i euler)
                      (kmul A (dW' i) (ksub A (k1 A) eta))) out) = k1 A).
    { apply (foldi_inv A (fun v => tr v = k1 A)); [|exact Ho].
      intros i acc Hacc. apply tr_axpy0; [exact Hacc|now apply tr_b]. }
    destruct alpha_nz; [|exact H2].
    apply (foldi_inv A (fun v => tr v = k1 A)).
    - intros i acc Hacc. apply tr_axpy0; [exact Hacc|now apply tr_Lb].
    - apply tr_axpy0; [exact H2|apply tr_a].
  Qed.

  Lemma run_steps_inv : forall (P : V -> Prop) (step : V -> (nat -> K) -> V) dWs state,
    (forall st dW, P st -> P (step st dW)) -> P state -> P (run_steps step state dWs).
  Proof.
    intros P step dWs. induction dWs as [|dW r IH]; intros state Hs H0; [exact H0|].
    simpl. apply IH; [exact Hs|]. now apply Hs.
  Qed.
End Trace.

(* --------------------------------------- closure (Hermiticity and the like) *)
(* P : a set of states closed under + and under scaling by scalars in R, and
   mapped into itself by the system's terms; R : a set of scalars closed
   under the ring operations and containing the constants, dt, the increments
   and the expectation values.  Then every scheme maps P into itself.
   Instance used in Props: P = Hermitian matrices, R = real scalars. *)
Section Closure.
  Context {K V : Type} (A : alg K V) (S : sys K V) (P : V -> Prop) (R : K -> Prop).
  Hypothesis P_add : forall x y, P x -> P y -> P (vadd A x y).
  Hypothesis P_scale : forall c x, R c -> P x -> P (vscale A c x).
  Hypothesis R_add : forall x y, R x -> R y -> R (kadd A x y).
  Hypothesis R_mul : forall x y, R x -> R y -> R (kmul A x y).
  Hypothesis R_sub : forall x y, R x -> R y -> R (ksub A x y).
  Hypothesis R_opp : forall x, R x -> R (kopp A x).
  Hypothesis R_1 : R (k1 A).
  Hypothesis R_half : R (half A).
  Hypothesis R_quarter : R (quarter A).
  Hypothesis P_a : forall v, P v -> P (drift S v).
  Hypothesis P_b : forall i v, P v -> P (diff S i v).
  Hypothesis P_Lb : forall i j v, P v -> P (Lbij S i j v).
  Hypothesis R_ex : forall i v, P v -> R (expect_re S i v).

  Lemma P_axpy : forall x y c, P x -> P y -> R c -> P (axpy A x y c).
  Proof. intros. unfold axpy. apply P_add; [assumption|now apply P_scale]. Qed.

  Lemma R_adj : forall meas state dt dW,
    P state -> R dt -> (forall i, R (dW i)) -> forall i, R (adj_dW A S meas state dt dW i).
  Proof.
    intros meas state dt dW Hs Hdt HdW i. unfold adj_dW. destruct meas; [|apply HdW].
    apply R_sub; [apply HdW|]. apply R_mul; [now apply R_ex|exact Hdt].
  Qed.

  Lemma euler_closed : forall meas state dt dW,
    P state -> R dt -> (forall i, R (dW i)) -> P (euler_step A S meas state dt dW).
  Proof.
    intros meas state dt dW Hs Hdt HdW. unfold euler_step.
    pose proof (R_adj meas state dt dW Hs Hdt HdW) as HdW'.
    apply (foldi_inv A P).
    - intros i acc Hacc. apply P_axpy; [exact Hacc|now apply P_b|apply HdW'].
    - apply P_axpy; [exact Hs|now apply P_a|exact Hdt].
  Qed.

  Lemma platen_closed : forall meas state dt sdt isdt4 dW,
    P state -> R dt -> R sdt -> R isdt4 -> (forall i, R (dW i)) ->
    P (platen_step A S meas state dt sdt isdt4 dW).
  Proof.
    intros meas state dt sdt isdt4 dW Hs Hdt Hsdt Hi HdW. unfold platen_step.
    pose proof (R_adj meas state dt dW Hs Hdt HdW) as HdW'.
    set (dW' := adj_dW A S meas state dt dW) in *.
    set (d1 := axpy A state (drift S state) dt).
    assert (Hd1 : P d1) by (apply P_axpy; [exact Hs|now apply P_a|exact Hdt]).
    assert (HV : forall i c, R c -> P (axpy A d1 (diff S i state) c))
      by (intros; apply P_axpy; [exact Hd1|now apply P_b|assumption]).
    apply (foldi_inv A P).
    - intros i out Hout.
      apply (foldi_inv A P).
      + intros j out' Hout'.
        assert (Hp : P (diff S j (axpy A d1 (diff S i state) sdt))) by (apply P_b, HV, Hsdt).
        assert (Hm : P (diff S j (axpy A d1 (diff S i state) (kopp A sdt))))
          by (apply P_b, HV, R_opp, Hsdt).
        destruct (Nat.eqb i j).
        * apply P_axpy; [apply P_axpy; [exact Hout'|exact Hp|]|exact Hm|].
          -- apply R_add; [|apply R_mul; [apply HdW'|exact R_quarter]].
             apply R_mul; [exact Hi|]. apply R_sub; [|exact Hdt]. apply R_mul; apply HdW'.
          -- apply R_add; [|apply R_mul; [apply HdW'|exact R_quarter]].
             apply R_opp. apply R_mul; [exact Hi|]. apply R_sub; [|exact Hdt].
             apply R_mul; apply HdW'.
        * apply P_axpy; [apply P_axpy; [exact Hout'|exact Hp|]|exact Hm|].
          -- apply R_mul; [apply R_mul; [exact Hi|apply HdW']|apply HdW'].
          -- apply R_opp. apply R_mul; [apply R_mul; [exact Hi|apply HdW']|apply HdW'].
      + apply P_axpy; [exact Hout|now apply P_b|].
        apply R_mul; [now apply R_add|]. apply R_mul; [apply HdW'|exact R_quarter].
    - apply P_axpy; [|exact Hs|exact R_half].
      apply P_axpy; [now apply P_scale| |now apply R_mul].
      apply P_a. apply (foldi_inv A P); [|exact Hd1].
      intros i acc Hacc. apply P_axpy; [exact Hacc|now apply P_b|apply HdW'].
  Qed.

  Lemma milstein_closed : forall meas state dt dW,
    P state -> R dt -> (forall i, R (dW i)) -> P (milstein_step A S meas state dt dW).
  Proof.
    intros meas state dt dW Hs Hdt HdW. unfold milstein_step.
    pose proof (R_adj meas state dt dW Hs Hdt HdW) as HdW'.
    apply (foldi_inv A P).
    - intros i out Hout. apply fold_left_inv; [|exact Hout].
      intros acc j Hacc. apply P_axpy; [exact Hacc|now apply P_Lb|].
      destruct (Nat.eqb i j).
      + apply R_mul; [|exact R_half]. apply R_sub; [|exact Hdt]. apply R_mul; apply HdW'.
      + apply R_mul; apply HdW'.
    - apply (foldi_inv A P).
      + intros i acc Hacc. apply P_axpy; [exact Hacc|now apply P_b|apply HdW'].
      + apply P_axpy; [exact Hs|now apply P_a|exact Hdt].
  Qed.

  Lemma predcorr_closed : forall meas alpha eta alpha_nz state dt dW,
    P state -> R dt -> R alpha -> R eta -> (forall i, R (dW i)) ->
    P (predcorr_step A S meas alpha eta alpha_nz state dt dW).
  Proof.
    intros meas alpha eta alpha_nz state dt dW Hs Hdt Hal Het HdW. unfold predcorr_step.
    pose proof (R_adj meas state dt dW Hs Hdt HdW) as HdW'.
    set (dW' := adj_dW A S meas state dt dW) in *.
    set (pr := fold_left _ (seq 0 (nops S)) _).
    assert (Hpr : P (fst pr) /\ P (snd pr)).
    { unfold pr.
      apply (fold_left_inv (fun p : V * V => P (fst p) /\ P (snd p))).
      - intros [e o] i [He Ho]. simpl in *. split.
        + apply P_axpy; [exact He|now apply P_b|apply HdW'].
        + apply P_axpy; [apply P_axpy; [exact Ho|now apply P_b|]|now apply P_Lb|].
          * apply R_mul; [apply HdW'|exact Het].
          * apply R_mul; [|exact R_half]. apply R_mul; [exact Hdt|]. now apply R_sub.
      - simpl. split; apply P_axpy; try exact Hs; try (now apply P_a); [exact Hdt|].
        apply R_mul; [exact Hdt|]. now apply R_sub. }
    destruct pr as [euler out]. simpl in Hpr. destruct Hpr as [He Ho].
    assert (H2 : P (foldi (nops S)
                   (fun i out0 => axpy A out0 (diff S i euler)
                      (kmul A (dW' i) (ksub A (k1 A) eta))) out)).
    { apply (foldi_inv A P); [|exact Ho].
      intros i acc Hacc. apply P_axpy; [exact Hacc|now apply P_b|].
      apply R_mul; [apply HdW'|now apply R_sub]. }
    destruct alpha_nz; [|exact H2].
    apply (foldi_inv A P).
    - intros i acc Hacc. apply P_axpy; [exact Hacc|now apply P_Lb|].
      apply R_mul; [|exact R_half]. apply R_mul; [now apply R_opp|exact Hal].
    - apply P_axpy; [exact H2|now apply P_a|now apply R_mul].
  Qed.
End Closure.

(* ------------------------- a step depends on dW only through dW_0..dW_{n-1} *)
Lemma fold_left_ext_in : forall {X Y} (f g : X -> Y -> X) (l : list Y) (x : X),
  (forall y acc, In y l -> f acc y = g acc y) -> fold_left f l x = fold_left g l x.
Proof.
  intros X Y f g l. induction l as [|y l IH]; intros x H; [reflexivity|].
  simpl. rewrite (H y x (or_introl eq_refl)). apply IH.
  intros y' acc Hy'. apply H. now right.
Qed.

Section Determined.
  Context {K V : Type} (A : alg K V) (S : sys K V).

  Lemma foldi_ext : forall n (f g : nat -> V -> V) x,
    (forall i acc, i < n -> f i acc = g i acc) -> foldi n f x = foldi n g x.
  Proof.
    intros n f g x H. unfold foldi. apply fold_left_ext_in.
    intros i acc Hi. apply in_seq in Hi. apply H. lia.
  Qed.

  Variables (meas : bool) (state : V) (dt : K) (dW1 dW2 : nat -> K).
  Hypothesis agree : forall i, i < nops S -> dW1 i = dW2 i.

  Lemma adj_agree : forall i, i < nops S ->
    adj_dW A S meas state dt dW1 i = adj_dW A S meas state dt dW2 i.
  Proof. intros i Hi. unfold adj_dW. destruct meas; now rewrite (agree i Hi). Qed.

  Lemma euler_determined :
    euler_step A S meas state dt dW1 = euler_step A S meas state dt dW2.
  Proof.
    unfold euler_step. apply foldi_ext. intros i acc Hi. now rewrite (adj_agree i Hi).
  Qed.

  Lemma milstein_determined :
    milstein_step A S meas state dt dW1 = milstein_step A S meas state dt dW2.
  Proof.
    unfold milstein_step.
    rewrite (foldi_ext (nops S)
               (fun i acc => axpy A acc (diff S i state) (adj_dW A S meas state dt dW1 i))
               (fun i acc => axpy A acc (diff S i state) (adj_dW A S meas state dt dW2 i))).
    2:{ intros i acc Hi. now rewrite (adj_agree i Hi). }
    apply foldi_ext. intros i out Hi. apply fold_left_ext_in.
    intros j acc Hj. apply in_seq in Hj.
    rewrite (adj_agree i Hi), (adj_agree j) by lia. reflexivity.
  Qed.

  Lemma platen_determined : forall sdt isdt4,
    platen_step A S meas state dt sdt isdt4 dW1 = platen_step A S meas state dt sdt isdt4 dW2.
  Proof.
    intros sdt isdt4. unfold platen_step.
    rewrite (foldi_ext (nops S)
               (fun i acc => axpy A acc (diff S i state) (adj_dW A S meas state dt dW1 i))
               (fun i acc => axpy A acc (diff S i state) (adj_dW A S meas state dt dW2 i))).
    2:{ intros i acc Hi. now rewrite (adj_agree i Hi). }
    apply foldi_ext. intros i out Hi. rewrite (adj_agree i Hi).
    apply foldi_ext. intros j out' Hj. rewrite (adj_agree j Hj). reflexivity.
  Qed.

  Lemma predcorr_determined : forall alpha eta alpha_nz,
    predcorr_step A S meas alpha eta alpha_nz state dt dW1
    = predcorr_step A S meas alpha eta alpha_nz state dt dW2.
  Proof.
    intros alpha eta alpha_nz. unfold predcorr_step.
    match goal with
    | |- (let '(_, _) := fold_left ?f ?l ?x in _) = (let '(_, _) := fold_left ?g ?l ?x in _) =>
        rewrite (fold_left_ext_in f g l x)
    end.
    2:{ intros i [e o] Hi. apply in_seq in Hi. rewrite (adj_agree i) by lia. reflexivity. }
    destruct (fold_left _ _ _) as [euler out].
    rewrite (foldi_ext (nops S)
               (fun i out0 => axpy A out0 (diff S i euler)
                                (kmul A (adj_dW A S meas state dt dW1 i) (ksub A (k1 A) eta)))
               (fun i out0 => axpy A out0 (diff S i euler)
                                (kmul A (adj_dW A S meas state dt dW2 i) (ksub A (k1 A) eta)))).
    2:{ intros i acc Hi. now rewrite (adj_agree i Hi). }
    reflexivity.
  Qed.
End Determined.
