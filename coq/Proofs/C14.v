From Coq Require Import List ZArith Bool Arith Lia Permutation.
Import ListNotations.
From QV Require Import Model.C14.

Section Proofs.
Variable c : cfg.

(* ---------------------------------------------------------------- basics *)
Lemma memb_In x l : memb x l = true <-> In x l.
Proof.
  unfold memb. rewrite existsb_exists. split.
  - intros [y [Hy He]]. apply Nat.eqb_eq in He. now subst.
  - intros H. exists x. split; [assumption|apply Nat.eqb_refl].
Qed.

Lemma memb_false x l : memb x l = false <-> ~ In x l.
Proof. rewrite <- memb_In. destruct (memb x l); split; congruence. Qed.

Lemma nth_error_set_nth {A} (l : list A) k x j :
  nth_error (set_nth l k x) j =
  if (j =? k) && (k <? length l) then Some x else nth_error l j.
Proof.
  revert k j. induction l as [|h t IH]; intros k j; simpl.
  - destruct (j =? k); simpl; destruct j; reflexivity.
  - destruct k as [|k]; destruct j as [|j]; simpl; try reflexivity.
    rewrite IH. reflexivity.
Qed.

Lemma length_set_nth {A} (l : list A) k x : length (set_nth l k x) = length l.
Proof. revert k; induction l; intros [|k]; simpl; auto. Qed.

(* generic lifting of invariants *)
Lemma iter_inv (I : st -> Prop) :
  (forall s, I s -> I (step c s)) -> forall f s, I s -> I (iter c f s).
Proof.
  intros Hs f. induction f as [|f IH]; intros s Hi; simpl; [assumption|].
  destruct (s_pc s); try (apply IH, Hs; assumption); assumption.
Qed.

Lemma fire_all_inv (I : st -> Prop) :
  (forall s j, I s -> I (fire c s j)) -> forall js s, I s -> I (fire_all c s js).
Proof.
  intros Hf js. unfold fire_all. induction js as [|j js IH]; intros s Hi; simpl; auto.
Qed.

(* fields that fire leaves alone *)
Lemma fire_frame s j :
  s_pc (fire c s j) = s_pc s /\ s_i (fire c s j) = s_i s /\
  s_waiting (fire c s j) = s_waiting s /\ s_submitted (fire c s j) = s_submitted s /\
  s_aborted (fire c s j) = s_aborted s /\ s_late (fire c s j) = s_late s /\
  s_sched (fire c s j) = s_sched s /\ s_expired (fire c s j) = s_expired s.
Proof.
  unfold fire. destruct (memb j (s_submitted s) && negb (memb j (s_compl s))); [|tauto].
  destruct (nth_error (outs c) j) as [[v b|e]|]; [destruct (reducer c)| |]; simpl; tauto.
Qed.

Lemma fire_all_frame s js :
  s_pc (fire_all c s js) = s_pc s /\ s_i (fire_all c s js) = s_i s /\
  s_waiting (fire_all c s js) = s_waiting s /\ s_submitted (fire_all c s js) = s_submitted s /\
  s_aborted (fire_all c s js) = s_aborted s /\ s_late (fire_all c s js) = s_late s /\
  s_sched (fire_all c s js) = s_sched s /\ s_expired (fire_all c s js) = s_expired s.
Proof.
  revert s. unfold fire_all. induction js as [|j js IH]; intros s; simpl; [tauto|].
  destruct (IH (fire c s j)) as (a1&a2&a3&a4&a5&a6&a7&a8).
  destruct (fire_frame s j) as (b1&b2&b3&b4&b5&b6&b7&b8).
  repeat split; congruence.
Qed.

(* --------------------------------------------------- 1. in-flight bound *)
Definition Ibound (s : st) : Prop := length (s_waiting s) <= workers c.

Lemma filter_length_le {A} (f : A -> bool) l : length (filter f l) <= length l.
Proof. induction l; simpl; [lia|destruct (f a); simpl; lia]. Qed.

Lemma sync_waiting_le s a p n :
  length (s_waiting (sync c s a p n)) <= length (s_waiting s).
Proof.
  unfold sync. destruct (pop s a) as [d r].
  destruct (fire_all_frame s (d_done d)) as (_&_&Hw&_).
  destruct p; simpl; rewrite Hw; [apply filter_length_le|lia].
Qed.

Lemma step_bound s : 1 <= workers c -> Ibound s -> Ibound (step c s).
Proof.
  unfold Ibound, step. intros HW H.
  destruct (s_pc s); try assumption.
  - destruct (s_i s <? _); [destruct (workers c <=? _)|]; simpl; assumption.
  - pose proof (sync_waiting_le s true true PCheck). lia.
  - destruct (stop_cond c s); simpl; assumption.
  - destruct (length (s_waiting s) <? workers c) eqn:E; simpl; [|assumption].
    destruct (s_i s <? _); simpl; [|assumption].
    apply Nat.ltb_lt in E.
    pose proof (sync_waiting_le (submit c s) false false PSubmit). simpl in *. lia.
  - pose proof (sync_waiting_le s true true PShutdown). lia.
  - pose proof (sync_waiting_le s true false PDone). lia.
Qed.

(* ------------------------------------------- 2. submission order 0..i-1 *)
Definition Iorder (s : st) : Prop := s_submitted s = rev (seq 0 (s_i s)).

Lemma sync_order s a p n : Iorder s -> Iorder (sync c s a p n).
Proof.
  unfold Iorder, sync. destruct (pop s a) as [d r].
  destruct (fire_all_frame s (d_done d)) as (_&Hi&_&Hs&_). simpl. congruence.
Qed.

Lemma step_order s : Iorder s -> Iorder (step c s).
Proof.
  unfold step. intros H. destruct (s_pc s); try assumption; try (apply sync_order; assumption).
  - destruct (s_i s <? _); [destruct (workers c <=? _)|]; exact H.
  - destruct (stop_cond c s); exact H.
  - destruct (_ && _); [|exact H]. apply sync_order.
    unfold Iorder in *. cbn [submit s_submitted s_i]. rewrite H, seq_S, rev_app_distr. reflexivity.
Qed.

(* ------------------------- 3. callbacks: at most once, only if submitted *)
Definition Icompl (s : st) : Prop :=
  NoDup (s_compl s) /\ forall j, In j (s_compl s) -> In j (s_submitted s).

Lemma fire_compl s j : Icompl s -> Icompl (fire c s j).
Proof.
  unfold Icompl, fire. intros [Hn Hs].
  destruct (memb j (s_submitted s)) eqn:E1; simpl; [|tauto].
  destruct (memb j (s_compl s)) eqn:E2; simpl; [tauto|].
  apply memb_In in E1. apply memb_false in E2.
  destruct (nth_error (outs c) j) as [[v b|e]|]; [destruct (reducer c)| |]; simpl;
    try tauto; (split; [constructor; assumption| intros k [<-|Hk]; auto]).
Qed.

Lemma sync_compl s a p n : Icompl s -> Icompl (sync c s a p n).
Proof.
  intros H. unfold sync. destruct (pop s a) as [d r].
  pose proof (fire_all_inv Icompl fire_compl (d_done d) s H) as H1.
  unfold Icompl in *. simpl. exact H1.
Qed.

Lemma step_compl s : Icompl s -> Icompl (step c s).
Proof.
  unfold step. intros H. destruct (s_pc s); try assumption; try (apply sync_compl; assumption).
  - destruct (s_i s <? _); [destruct (workers c <=? _)|]; exact H.
  - destruct (stop_cond c s); exact H.
  - destruct (_ && _); [|exact H]. apply sync_compl.
    destruct H as [Hn Hs]. split; simpl; [assumption|]. intros j Hj. right. auto.
Qed.

(* ---------- 4. nothing is lost: a submitted task either had its callback
   run or is still in `waiting` (and is handed to shutdown_executor) *)
Definition Ikept (s : st) : Prop :=
  forall j, In j (s_submitted s) -> In j (s_compl s) \/ In j (s_waiting s).

Lemma fire_compl_mono s j k : In k (s_compl s) -> In k (s_compl (fire c s j)).
Proof.
  unfold fire. destruct (_ && _); [|tauto].
  destruct (nth_error (outs c) j) as [[v b|e]|]; [destruct (reducer c)| |]; simpl; tauto.
Qed.

Lemma fire_all_compl_mono s js k : In k (s_compl s) -> In k (s_compl (fire_all c s js)).
Proof.
  revert s. unfold fire_all. induction js as [|j js IH]; intros s H; simpl; [assumption|].
  apply IH, fire_compl_mono, H.
Qed.

Lemma sync_kept s a p n : Ikept s -> Ikept (sync c s a p n).
Proof.
  unfold Ikept, sync. intros H. destruct (pop s a) as [d r].
  destruct (fire_all_frame s (d_done d)) as (_&_&Hw&Hs&_). simpl. intros j Hj.
  rewrite Hs in Hj. rewrite Hw.
  destruct (in_dec Nat.eq_dec j (s_compl (fire_all c s (d_done d)))) as [Hc|Hc]; [tauto|].
  destruct (H j Hj) as [H1|H1].
  - exfalso. apply Hc, fire_all_compl_mono, H1.
  - right. destruct p; [|assumption]. apply filter_In. split; [assumption|].
    apply memb_false in Hc. now rewrite Hc.
Qed.

Lemma step_kept s : Ikept s -> Ikept (step c s).
Proof.
  unfold step. intros H. destruct (s_pc s); try assumption; try (apply sync_kept; assumption).
  - destruct (s_i s <? _); [destruct (workers c <=? _)|]; exact H.
  - destruct (stop_cond c s); exact H.
  - destruct (_ && _); [|exact H]. apply sync_kept.
    unfold Ikept in *. simpl. intros j [<-|Hj]; [tauto|]. destruct (H j Hj); tauto.
Qed.

(* --------------------------- 5. what reaches the reducer / errors / results *)
Definition want_result (s : st) (j : nat) : option Z :=
  match nth_error (outs c) j with
  | Some (Val v _) => if negb (reducer c) && memb j (s_compl s) then Some v else None
  | _ => None
  end.

Definition Ideliv (s : st) : Prop :=
  NoDup (map fst (s_rlog s)) /\
  NoDup (map fst (s_errors s)) /\
  (forall j v, In (j, v) (s_rlog s) <->
     reducer c = true /\ In j (s_compl s) /\ exists b, nth_error (outs c) j = Some (Val v b)) /\
  (forall j e, In (j, e) (s_errors s) <->
     In j (s_compl s) /\ nth_error (outs c) j = Some (Err e)) /\
  length (s_results s) = length (outs c) /\
  (forall j, j < length (outs c) -> nth_error (s_results s) j = Some (want_result s j)).

Lemma in_map_fst {A B} (l : list (A * B)) a : In a (map fst l) <-> exists b, In (a, b) l.
Proof.
  rewrite in_map_iff. split.
  - intros [[x y] [E H]]. simpl in E. subst. eauto.
  - intros [b H]. exists (a, b). auto.
Qed.

Lemma NoDup_app_single {A} (l : list A) x : NoDup l -> ~ In x l -> NoDup (l ++ [x]).
Proof.
  intros Hn Hx. induction Hn as [|y l Hy Hn IH]; simpl.
  - constructor; [auto|constructor].
  - constructor.
    + rewrite in_app_iff. simpl. intros [H|[H|[]]]; [auto|]. subst. apply Hx. now left.
    + apply IH. intros H. apply Hx. now right.
Qed.

Lemma fire_deliv s j : Ideliv s -> Ideliv (fire c s j).
Proof.
  unfold fire. intros H.
  destruct (memb j (s_submitted s)) eqn:E1; simpl; [|assumption].
  destruct (memb j (s_compl s)) eqn:E2; simpl; [assumption|].
  apply memb_false in E2.
  pose proof H as H0. destruct H as (N1 & N2 & R & Er & Ln & Rs).
  destruct (nth_error (outs c) j) as [[v b|e]|] eqn:Eo; [destruct (reducer c) eqn:Ered| |].
  - (* value, reducer *)
    unfold Ideliv; cbn [s_rlog s_errors s_compl s_results].
    refine (conj _ (conj _ (conj _ (conj _ (conj _ _))))).
    + rewrite map_app. simpl. apply NoDup_app_single; [assumption|].
      rewrite in_map_fst. intros [w Hw]. apply R in Hw. tauto.
    + assumption.
    + intros k w. rewrite in_app_iff. split.
      * intros [Hi|[Hi|[]]].
        -- apply R in Hi. destruct Hi as (A & B & C). split; [assumption|]. split; [now right|assumption].
        -- inversion Hi; subst. split; [assumption || reflexivity|]. split; [now left|eauto].
      * intros (_ & [Hj|Hj] & [b' Hb]).
        -- subst k. rewrite Eo in Hb. inversion Hb; subst. right. now left.
        -- left. apply R. eauto.
    + intros k e. split.
      * intros Hi. apply Er in Hi. destruct Hi. split; [now right|assumption].
      * intros [[Hj|Hj] He]; [subst k; congruence|apply Er; tauto].
    + assumption.
    + intros k Hk. rewrite (Rs k Hk). unfold want_result. rewrite Ered. reflexivity.
  - (* value, no reducer *)
    unfold Ideliv; cbn [s_rlog s_errors s_compl s_results].
    refine (conj _ (conj _ (conj _ (conj _ (conj _ _))))); try assumption.
    + intros k w. split.
      * intros Hi. apply R in Hi. destruct Hi as (A & B & C). congruence.
      * intros (Hr & _). congruence.
    + intros k e. split.
      * intros Hi. apply Er in Hi. destruct Hi. split; [now right|assumption].
      * intros [[Hj|Hj] He]; [subst k; congruence|apply Er; tauto].
    + rewrite length_set_nth. assumption.
    + intros k Hk. rewrite nth_error_set_nth. rewrite Ln.
      destruct (k =? j) eqn:Ekj; cbn [andb].
      * apply Nat.eqb_eq in Ekj. subst k.
        apply Nat.ltb_lt in Hk. rewrite Hk. unfold want_result. cbn [s_compl memb existsb].
        rewrite Eo, Ered, Nat.eqb_refl. reflexivity.
      * rewrite (Rs k Hk). unfold want_result. cbn [s_compl memb existsb].
        rewrite Ekj. reflexivity.
  - (* error *)
    unfold Ideliv; cbn [s_rlog s_errors s_compl s_results].
    refine (conj _ (conj _ (conj _ (conj _ (conj _ _))))); try assumption.
    + rewrite map_app. simpl. apply NoDup_app_single; [assumption|].
      rewrite in_map_fst. intros [w Hw]. apply Er in Hw. tauto.
    + intros k w. split.
      * intros Hi. apply R in Hi. destruct Hi as (A & B & C). split; [assumption|]. split; [now right|assumption].
      * intros (Hr & [Hj|Hj] & [b' Hb]); [subst k; congruence|apply R; eauto].
    + intros k e'. rewrite in_app_iff. split.
      * intros [Hi|[Hi|[]]].
        -- apply Er in Hi. destruct Hi. split; [now right|assumption].
        -- inversion Hi; subst. split; [now left|assumption].
      * intros [[Hj|Hj] He].
        -- subst k. rewrite Eo in He. inversion He; subst. right. now left.
        -- left. apply Er. tauto.
    + intros k Hk. rewrite (Rs k Hk). unfold want_result. cbn [s_compl memb existsb].
      destruct (nth_error (outs c) k) as [[v' b'|e']|] eqn:Ek; try reflexivity.
      destruct (k =? j) eqn:Ekj; [|reflexivity].
      apply Nat.eqb_eq in Ekj. subst k. congruence.
  - exact H0.
Qed.

Lemma sync_deliv s a p n : Ideliv s -> Ideliv (sync c s a p n).
Proof.
  intros H. unfold sync. destruct (pop s a) as [d r].
  pose proof (fire_all_inv Ideliv fire_deliv (d_done d) s H) as H1.
  unfold Ideliv, want_result in *. simpl. exact H1.
Qed.

Lemma step_deliv s : Ideliv s -> Ideliv (step c s).
Proof.
  unfold step. intros H. destruct (s_pc s); try assumption; try (apply sync_deliv; assumption).
  - destruct (s_i s <? _); [destruct (workers c <=? _)|]; exact H.
  - destruct (stop_cond c s); exact H.
  - destruct (_ && _); [|exact H]. apply sync_deliv. exact H.
Qed.

Lemma nth_error_repeat {A} (x : A) n j : j < n -> nth_error (repeat x n) j = Some x.
Proof. revert j; induction n; intros [|j] Hj; simpl; try lia; auto. apply IHn. lia. Qed.

Lemma init_deliv sched e0 : Ideliv (init c sched e0).
Proof.
  unfold Ideliv, init, want_result; cbn [s_rlog s_errors s_compl s_results map].
  refine (conj _ (conj _ (conj _ (conj _ (conj _ _))))).
  - constructor.
  - constructor.
  - intros j v. split; [intros []|]. intros (_ & [] & _).
  - intros j e. split; [intros []|]. intros ([] & _).
  - apply repeat_length.
  - intros j Hj. rewrite nth_error_repeat by assumption.
    cbn [memb existsb]. rewrite andb_false_r.
    destruct (nth_error (outs c) j) as [[? ?|?]|]; reflexivity.
Qed.

(* -------------------------- 6. at most one more round after a stop signal *)
Definition nonempty {A} (l : list A) : bool := match l with [] => false | _ => true end.

Lemma stop_cond_alt s :
  stop_cond c s = s_expired s || (nonempty (s_errors s) && fail_fast c) || s_finished s.
Proof. unfold stop_cond. destruct (s_errors s); reflexivity. Qed.

Lemma fire_mono_fields s j :
  (s_finished s = true -> s_finished (fire c s j) = true) /\
  (nonempty (s_errors s) = true -> nonempty (s_errors (fire c s j)) = true).
Proof.
  unfold fire.
  destruct (memb j (s_submitted s) && negb (memb j (s_compl s))); [|tauto].
  destruct (nth_error (outs c) j) as [[v b|e]|]; [destruct (reducer c)| |]; simpl; try tauto.
  - split; [intros ->; reflexivity|tauto].
  - split; [tauto|]. destruct (s_errors s); simpl; auto.
Qed.

Lemma stop_fire_mono s j : stop_cond c s = true -> stop_cond c (fire c s j) = true.
Proof.
  rewrite !stop_cond_alt. destruct (fire_frame s j) as (_&_&_&_&_&_&_&He). rewrite He.
  destruct (fire_mono_fields s j) as [Hf Hn].
  destruct (s_expired s); [reflexivity|]. simpl.
  destruct (s_finished s); [rewrite Hf by reflexivity; intros _; apply orb_true_r|].
  rewrite orb_false_r. intros H. apply andb_prop in H. destruct H as [H1 H2].
  rewrite Hn, H2 by assumption. reflexivity.
Qed.

Lemma stop_fire_all_mono s js : stop_cond c s = true -> stop_cond c (fire_all c s js) = true.
Proof.
  revert s. unfold fire_all. induction js as [|j js IH]; intros s H; simpl; [assumption|].
  apply IH, stop_fire_mono, H.
Qed.


Lemma stop_sync s a p n :
  stop_cond c s = true -> stop_cond c (sync c s a p n) = true.
Proof.
  unfold sync. intros H. destruct (pop s a) as [d r].
  pose proof (stop_fire_all_mono s (d_done d) H) as H1.
  rewrite stop_cond_alt in *. cbn [s_expired s_errors s_finished].
  destruct (s_expired (fire_all c s (d_done d))); [reflexivity|].
  cbn [orb] in *. destruct (d_expire d); [reflexivity|exact H1].
Qed.

Lemma sync_late_frame s a p n :
  s_late (sync c s a p n) = s_late s /\ s_pc (sync c s a p n) = n.
Proof.
  unfold sync. destruct (pop s a) as [d r].
  destruct (fire_all_frame s (d_done d)) as (_&_&_&_&_&Hl&_). simpl. tauto.
Qed.

Lemma sync_noprune_waiting s a n :
  s_waiting (sync c s a false n) = s_waiting s.
Proof.
  unfold sync. destruct (pop s a) as [d r].
  destruct (fire_all_frame s (d_done d)) as (_&_&Hw&_). simpl. exact Hw.
Qed.

Lemma stop_with_pc s p : stop_cond c (with_pc s p) = stop_cond c s.
Proof. reflexivity. Qed.

Lemma stop_submit s : stop_cond c (submit c s) = stop_cond c s.
Proof. reflexivity. Qed.

(* late = number of submissions made while a stop condition already held *)
Definition Ilate (s : st) : Prop :=
  s_late s <= workers c - 1 /\
  (stop_cond c s = false -> s_late s = 0) /\
  (s_pc s = PSubmit -> stop_cond c s = true -> s_late s < length (s_waiting s)).

Lemma sync_late_gen s a p n :
  n <> PSubmit -> Ilate s -> Ilate (sync c s a p n).
Proof.
  intros Hn (L1 & L2 & L3). destruct (sync_late_frame s a p n) as [Hl Hp].
  unfold Ilate. rewrite Hl, Hp. split; [assumption|]. split; [|congruence].
  intros Hst. apply L2. destruct (stop_cond c s) eqn:E; [|reflexivity].
  rewrite (stop_sync s a p n E) in Hst. discriminate.
Qed.

Lemma step_late s : 1 <= workers c -> Ibound s -> Ilate s -> Ilate (step c s).
Proof.
  intros HW Hb HL. pose proof HL as (L1 & L2 & L3). unfold step, Ibound in *.
  destruct (s_pc s) eqn:Epc.
  - destruct (s_i s <? _); [destruct (workers c <=? _)|]; unfold Ilate;
      rewrite stop_with_pc; cbn [with_pc s_late s_pc s_waiting];
      (split; [assumption|split; [assumption|discriminate]]).
  - apply sync_late_gen; [discriminate|assumption].
  - destruct (stop_cond c s) eqn:E.
    + unfold Ilate, stop_cond. cbn [s_late s_pc s_waiting s_expired s_errors s_finished].
      split; [assumption|split; [|discriminate]]. intros Hst. unfold stop_cond in E. congruence.
    + unfold Ilate. rewrite stop_with_pc. cbn [with_pc s_late s_pc s_waiting].
      split; [assumption|split; [intros _; apply L2; reflexivity|]]. intros _ Hs. congruence.
  - destruct (length (s_waiting s) <? workers c) eqn:E1; cbn [andb].
    2:{ unfold Ilate. rewrite stop_with_pc. cbn [with_pc s_late s_pc s_waiting].
        split; [assumption|split; [assumption|discriminate]]. }
    destruct (s_i s <? length (outs c)) eqn:E2.
    2:{ unfold Ilate. rewrite stop_with_pc. cbn [with_pc s_late s_pc s_waiting].
        split; [assumption|split; [assumption|discriminate]]. }
    apply Nat.ltb_lt in E1.
    destruct (sync_late_frame (submit c s) false false PSubmit) as [Hl Hp].
    pose proof (sync_noprune_waiting (submit c s) false PSubmit) as Hw.
    unfold Ilate. rewrite Hl, Hp, Hw. cbn [submit s_late s_waiting length].
    destruct (stop_cond c s) eqn:E.
    + specialize (L3 eq_refl eq_refl).
      split; [lia|]. split.
      * intros Hst. rewrite (stop_sync _ false false PSubmit) in Hst; [discriminate|].
        rewrite stop_submit. exact E.
      * intros _ _. lia.
    + rewrite (L2 eq_refl). split; [lia|]. split; [reflexivity|]. intros _ _. lia.
  - apply sync_late_gen; [discriminate|assumption].
  - apply sync_late_gen; [discriminate|assumption].
  - exact HL.
Qed.

(* ------------------------------------------------------ all together *)
Definition Inv (s : st) : Prop :=
  Ibound s /\ Iorder s /\ Icompl s /\ Ikept s /\ Ideliv s /\ Ilate s.

Lemma init_inv sched e0 : Inv (init c sched e0).
Proof.
  unfold Inv. refine (conj _ (conj _ (conj _ (conj _ (conj _ _))))).
  - unfold Ibound. simpl. lia.
  - reflexivity.
  - split; [constructor|intros j []].
  - intros j [].
  - apply init_deliv.
  - unfold Ilate. simpl. split; [lia|]. split; [reflexivity|discriminate].
Qed.

Lemma step_inv s : 1 <= workers c -> Inv s -> Inv (step c s).
Proof.
  intros HW (A & B & C & D & E & F).
  refine (conj _ (conj _ (conj _ (conj _ (conj _ _))))).
  - apply step_bound; assumption.
  - apply step_order; assumption.
  - apply step_compl; assumption.
  - apply step_kept; assumption.
  - apply step_deliv; assumption.
  - apply step_late; assumption.
Qed.

Lemma reach_inv sched e0 fuel :
  1 <= workers c -> Inv (iter c fuel (init c sched e0)).
Proof.
  intros HW. apply iter_inv; [intros s; apply step_inv; assumption|apply init_inv].
Qed.

End Proofs.

(* ------------------------------------------------------------------ *)
(* What the caller observes *)
Section Final.
Variable c : cfg.

Lemma final_errors s :
  Ideliv c s ->
  match final c s with
  | Return _ => forall j, In j (s_compl s) -> forall e, nth_error (outs c) j <> Some (Err e)
  | Raise e => fail_fast c = true /\ exists j, In j (s_compl s) /\ nth_error (outs c) j = Some (Err e)
  | RaiseMap errs _ =>
      fail_fast c = false /\ errs <> [] /\ NoDup (map fst errs) /\
      forall j e, In (j, e) errs <-> In j (s_compl s) /\ nth_error (outs c) j = Some (Err e)
  | OutOfFuel => s_pc s <> PDone
  end.
Proof.
  intros (N1 & N2 & R & Er & Ln & Rs). unfold final.
  destruct (s_pc s); try discriminate.
  destruct (s_errors s) as [|[j0 e0] l] eqn:E.
  - intros j Hj e He. apply (proj2 (Er j e)); auto.
  - destruct (fail_fast c).
    + split; [reflexivity|]. exists j0. apply Er. now left.
    + split; [reflexivity|]. split; [discriminate|]. split; [assumption|]. exact Er.
Qed.

Lemma final_results s res :
  Ideliv c s ->
  (final c s = Return (Some res) \/ exists errs, final c s = RaiseMap errs (Some res)) ->
  reducer c = false /\ length res = length (outs c) /\
  forall j, j < length (outs c) -> nth_error res j = Some (want_result c s j).
Proof.
  intros (N1 & N2 & R & Er & Ln & Rs) H.
  assert (Hres : res_of c s = Some res).
  { unfold final in H. destruct (s_pc s); try (destruct H as [H|[? H]]; discriminate).
    destruct (s_errors s) as [|[j0 e0] l]; [|destruct (fail_fast c)];
      destruct H as [H|[? H]]; congruence. }
  unfold res_of in Hres. destruct (reducer c); [discriminate|]. inversion Hres; subst.
  auto.
Qed.

Lemma final_reducer_none s r :
  final c s = Return r -> reducer c = true -> r = None.
Proof.
  unfold final, res_of. destruct (s_pc s); try discriminate.
  destruct (s_errors s) as [|[j0 e0] l]; [|destruct (fail_fast c); discriminate].
  intros H Hr. rewrite Hr in H. congruence.
Qed.

End Final.

(* ------------------------------------------------------------------ *)
(* serial_map *)
Section Serial.
Variable c : cfg.
Variable expire_at : nat -> bool.

(* invariant of the loop after the first k values *)
Definition Sinv (k : nat) (s : sst) : Prop :=
  NoDup (map fst (q_rlog s)) /\
  (forall j v, In (j, v) (q_rlog s) ->
     j < k /\ reducer c = true /\ exists b, nth_error (outs c) j = Some (Val v b)) /\
  (forall j e, In (j, e) (q_errors s) ->
     j < k /\ fail_fast c = false /\ nth_error (outs c) j = Some (Err e)) /\
  (forall e, q_raised s = Some e ->
     fail_fast c = true /\ exists j, j < k /\ nth_error (outs c) j = Some (Err e)) /\
  length (q_results s) = length (outs c) /\
  (forall j v, nth_error (q_results s) j = Some (Some v) ->
     j < k /\ reducer c = false /\ exists b, nth_error (outs c) j = Some (Val v b)) /\
  (* nothing is skipped unless the map was stopped or raised *)
  (q_stop s = false -> q_raised s = None ->
     forall j, j < k ->
       match nth_error (outs c) j with
       | Some (Val v _) => if reducer c then In (j, v) (q_rlog s)
                           else nth_error (q_results s) j = Some (Some v)
       | Some (Err e) => In (j, e) (q_errors s)
       | None => True
       end).

Lemma serial_step_inv k s : k < length (outs c) -> Sinv k s -> Sinv (S k) (serial_step c expire_at s k).
Proof.
  unfold Sinv. intros Hk (N & R & Er & Ra & Ln & Rs & Full). unfold serial_step.
  destruct (q_raised s) as [e0|] eqn:Eraised.
  { unfold Sinv. rewrite Eraised. refine (conj N (conj _ (conj _ (conj _ (conj Ln (conj _ _)))))).
    - intros j v H. destruct (R j v H) as (A & B). split; [lia|exact B].
    - intros j e H. destruct (Er j e H) as (A & B). split; [lia|exact B].
    - intros e H. destruct (Ra e H) as (A & j & B & C). split; [assumption|]. exists j. split; [lia|assumption].
    - intros j v H. destruct (Rs j v H) as (A & B). split; [lia|exact B].
    - intros _ H. discriminate. }
  destruct (q_stop s || expire_at k) eqn:Estop.
  { unfold Sinv. cbn [q_rlog q_errors q_results q_raised q_stop].
    refine (conj N (conj _ (conj _ (conj _ (conj Ln (conj _ _)))))).
    - intros j v H. destruct (R j v H) as (A & B). split; [lia|exact B].
    - intros j e H. destruct (Er j e H) as (A & B). split; [lia|exact B].
    - intros e H. discriminate.
    - intros j v H. destruct (Rs j v H) as (A & B). split; [lia|exact B].
    - intros H. discriminate. }
  apply orb_false_iff in Estop. destruct Estop as [Es _].
  destruct (nth_error (outs c) k) as [[v b|e]|] eqn:Eo.
  - destruct (reducer c) eqn:Ered.
    + unfold Sinv. cbn [q_rlog q_errors q_results q_raised q_stop].
      refine (conj _ (conj _ (conj _ (conj _ (conj Ln (conj _ _)))))).
      * rewrite map_app. simpl. apply NoDup_app_single; [assumption|].
        rewrite in_map_fst. intros [w Hw]. apply R in Hw. lia.
      * intros j w H. apply in_app_iff in H. destruct H as [H|[H|[]]].
        -- destruct (R j w H) as (A & B). split; [lia|exact B].
        -- inversion H; subst. split; [lia|]. split; [reflexivity|eauto].
      * intros j e H. destruct (Er j e H) as (A & B). split; [lia|exact B].
      * intros e H. discriminate.
      * intros j w H. destruct (Rs j w H) as (A & B & C). congruence.
      * intros Hs _ j Hj. apply orb_false_iff in Hs. destruct Hs as [Hs _].
        assert (Hjk : j < k \/ j = k) by lia. destruct Hjk as [Hjk| ->].
        -- specialize (Full Hs eq_refl j Hjk).
           destruct (nth_error (outs c) j) as [[w b'|e]|]; auto.
           apply in_app_iff. now left.
        -- rewrite Eo. apply in_app_iff. right. now left.
    + unfold Sinv. cbn [q_rlog q_errors q_results q_raised q_stop].
      refine (conj N (conj _ (conj _ (conj _ (conj _ (conj _ _)))))).
      * intros j w H. destruct (R j w H) as (A & B). split; [lia|exact B].
      * intros j e H. destruct (Er j e H) as (A & B). split; [lia|exact B].
      * intros e H. discriminate.
      * rewrite length_set_nth. exact Ln.
      * intros j w H. rewrite nth_error_set_nth in H.
        destruct (j =? k) eqn:Ejk; cbn [andb] in H.
        -- apply Nat.eqb_eq in Ejk. subst j. rewrite Ln in H.
           apply Nat.ltb_lt in Hk. rewrite Hk in H. inversion H; subst.
           split; [lia|]. split; [reflexivity|eauto].
        -- destruct (Rs j w H) as (A & B). split; [lia|exact B].
      * intros Hs _ j Hj.
        assert (Hjk : j < k \/ j = k) by lia. destruct Hjk as [Hjk| ->].
        -- specialize (Full Hs eq_refl j Hjk).
           destruct (nth_error (outs c) j) as [[w b'|e]|]; auto.
           rewrite nth_error_set_nth.
           assert (Hne : (j =? k) = false) by (apply Nat.eqb_neq; lia).
           rewrite Hne. exact Full.
        -- rewrite Eo. rewrite nth_error_set_nth, Nat.eqb_refl, Ln.
           apply Nat.ltb_lt in Hk. rewrite Hk. reflexivity.
  - destruct (fail_fast c) eqn:Eff.
    + unfold Sinv. cbn [q_rlog q_errors q_results q_raised q_stop].
      refine (conj N (conj _ (conj _ (conj _ (conj Ln (conj _ _)))))).
      * intros j w H. destruct (R j w H) as (A & B). split; [lia|exact B].
      * intros j e' H. destruct (Er j e' H) as (A & B & C). congruence.
      * intros e' H. inversion H; subst. split; [reflexivity|]. exists k. split; [lia|assumption].
      * intros j w H. destruct (Rs j w H) as (A & B). split; [lia|exact B].
      * intros _ H. discriminate.
    + unfold Sinv. cbn [q_rlog q_errors q_results q_raised q_stop].
      refine (conj N (conj _ (conj _ (conj _ (conj Ln (conj _ _)))))).
      * intros j w H. destruct (R j w H) as (A & B). split; [lia|exact B].
      * intros j e' H. apply in_app_iff in H. destruct H as [H|[H|[]]].
        -- destruct (Er j e' H) as (A & B). split; [lia|exact B].
        -- inversion H; subst. split; [lia|]. split; [reflexivity|assumption].
      * intros e' H. discriminate.
      * intros j w H. destruct (Rs j w H) as (A & B). split; [lia|exact B].
      * intros Hs _ j Hj.
        assert (Hjk : j < k \/ j = k) by lia. destruct Hjk as [Hjk| ->].
        -- specialize (Full Hs eq_refl j Hjk).
           destruct (nth_error (outs c) j) as [[w b'|e']|]; auto.
           apply in_app_iff. now left.
        -- rewrite Eo. apply in_app_iff. right. now left.
  - apply nth_error_None in Eo. lia.
Qed.

Lemma serial_prefix_inv k :
  k <= length (outs c) ->
  Sinv k (fold_left (serial_step c expire_at) (seq 0 k)
            {| q_errors := []; q_rlog := []; q_results := repeat None (length (outs c));
               q_stop := false; q_raised := None |}).
Proof.
  induction k as [|k IH]; intros Hk.
  - simpl. unfold Sinv; cbn [q_rlog q_errors q_results q_raised q_stop map].
    refine (conj _ (conj _ (conj _ (conj _ (conj _ (conj _ _)))))).
    + constructor.
    + intros j v [].
    + intros j e [].
    + intros e H; discriminate.
    + apply repeat_length.
    + intros j v H. exfalso.
      destruct (Nat.lt_ge_cases j (length (outs c))) as [Hj|Hj].
      * rewrite nth_error_repeat in H by assumption. discriminate.
      * assert (nth_error (repeat (@None Z) (length (outs c))) j = None)
          by (apply nth_error_None; rewrite repeat_length; lia). congruence.
    + intros _ _ j Hj. lia.
  - rewrite seq_S, fold_left_app. simpl. apply serial_step_inv; [lia|]. apply IH. lia.
Qed.

Lemma serial_inv : Sinv (length (outs c)) (serial_run c expire_at).
Proof. apply serial_prefix_inv. lia. Qed.

End Serial.

(* ------------------------------------------------------------------ *)
(* Termination: the fuel given by fuel_for always suffices *)
Section Termination.
Variable c : cfg.
Hypothesis HW : 1 <= workers c.
Let n := length (outs c).

Definition Ile (s : st) : Prop := s_i s <= n.
Definition Iwsub (s : st) : Prop := forall j, In j (s_waiting s) -> In j (s_submitted s).

Lemma pop_length s a : length (snd (pop s a)) = length (s_sched s) - 1.
Proof. unfold pop. destruct (s_sched s); simpl; lia. Qed.

Lemma sync_frame s a p nx :
  s_i (sync c s a p nx) = s_i s /\ s_submitted (sync c s a p nx) = s_submitted s /\
  s_pc (sync c s a p nx) = nx /\
  length (s_sched (sync c s a p nx)) = length (s_sched s) - 1 /\
  (forall j, In j (s_waiting (sync c s a p nx)) -> In j (s_waiting s)).
Proof.
  pose proof (pop_length s a) as Hl. unfold sync.
  destruct (pop s a) as [d r]. simpl in Hl.
  destruct (fire_all_frame c s (d_done d)) as (_ & Hi & Hw & Hs & _).
  cbn [s_i s_submitted s_pc s_sched s_waiting].
  split; [exact Hi|]. split; [exact Hs|]. split; [reflexivity|]. split; [exact Hl|].
  destruct p; rewrite Hw; [intros j Hj; apply filter_In in Hj; tauto|auto].
Qed.

Lemma step_Ile s : Ile s -> Ile (step c s).
Proof.
  unfold Ile, step. intros H. fold n.
  destruct (s_pc s); try exact H;
    try (destruct (sync_frame s true true PCheck) as (-> & _); exact H);
    try (destruct (sync_frame s true true PShutdown) as (-> & _); exact H);
    try (destruct (sync_frame s true false PDone) as (-> & _); exact H).
  - destruct (s_i s <? n); [destruct (workers c <=? _)|]; exact H.
  - destruct (stop_cond c s); exact H.
  - destruct (length (s_waiting s) <? workers c); cbn [andb]; [|exact H].
    destruct (s_i s <? n) eqn:E; [|exact H]. apply Nat.ltb_lt in E.
    destruct (sync_frame (submit c s) false false PSubmit) as (-> & _). simpl. lia.
Qed.

Lemma step_Iwsub s : Iwsub s -> Iwsub (step c s).
Proof.
  unfold Iwsub, step. intros H.
  destruct (s_pc s); try exact H.
  - destruct (s_i s <? _); [destruct (workers c <=? _)|]; exact H.
  - destruct (sync_frame s true true PCheck) as (_ & Hs & _ & _ & Hw). rewrite Hs. auto.
  - destruct (stop_cond c s); exact H.
  - destruct (_ && _); [|exact H].
    destruct (sync_frame (submit c s) false false PSubmit) as (_ & Hs & _ & _ & Hw). rewrite Hs.
    intros j Hj. apply Hw in Hj. simpl in *. destruct Hj as [->|Hj]; [now left|right; auto].
  - destruct (sync_frame s true true PShutdown) as (_ & Hs & _ & _ & Hw). rewrite Hs. auto.
  - destruct (sync_frame s true false PDone) as (_ & Hs & _ & _ & Hw). rewrite Hs. auto.
Qed.

(* a submitted, not yet completed task with a defined outcome completes when fired *)
Lemma fire_completes s j :
  In j (s_submitted s) -> j < n -> In j (s_compl (fire c s j)).
Proof.
  intros Hs Hj. unfold fire.
  assert (E1 : memb j (s_submitted s) = true) by (apply memb_In; exact Hs). rewrite E1. simpl.
  destruct (memb j (s_compl s)) eqn:E2; simpl; [apply memb_In; exact E2|].
  destruct (nth_error (outs c) j) as [[v b|e]|] eqn:Eo.
  - destruct (reducer c); simpl; now left.
  - simpl. now left.
  - apply nth_error_None in Eo. unfold n in Hj. lia.
Qed.

Lemma fire_all_completes js : forall s,
  (forall j, In j js -> In j (s_submitted s) /\ j < n) ->
  forall j, In j js -> In j (s_compl (fire_all c s js)).
Proof.
  unfold fire_all. induction js as [| k js IH]; intros s H j Hj; [destruct Hj|].
  simpl. destruct Hj as [->|Hj].
  - apply (fire_all_compl_mono c (fire c s j) js). apply fire_completes; apply H; now left.
  - apply IH; [|exact Hj]. intros x Hx.
    destruct (fire_frame c s k) as (_ & _ & _ & Hs & _). rewrite Hs. apply H. now right.
Qed.

Lemma filter_all_false {A} (f : A -> bool) l :
  (forall x, In x l -> f x = false) -> filter f l = [].
Proof.
  induction l as [| x l IH]; intros H; [reflexivity|]. simpl.
  rewrite (H x) by (now left). apply IH. intros y Hy. apply H. now right.
Qed.

Lemma sync_default_empties s nx :
  s_sched s = [] -> (forall j, In j (s_waiting s) -> In j (s_submitted s) /\ j < n) ->
  s_waiting (sync c s true true nx) = [].
Proof.
  intros E H. unfold sync, pop. rewrite E.
  set (js := rev (s_waiting s)).
  destruct (fire_all_frame c s js) as (_ & _ & Hw & _).
  cbn [d_done d_expire s_waiting]. fold js. rewrite Hw.
  apply filter_all_false. intros j Hj.
  assert (Hc : In j (s_compl (fire_all c s js))).
  { apply fire_all_completes; [|unfold js; apply in_rev in Hj; exact Hj].
    intros x Hx. apply H. unfold js in Hx. apply in_rev. exact Hx. }
  apply memb_In in Hc. rewrite Hc. reflexivity.
Qed.

Definition phi (s : st) : nat :=
  let full := workers c <=? length (s_waiting s) in
  let more := s_i s <? n in
  match s_pc s with
  | PDone => 0 | PShutdown => 1 | PAfter => 2
  | PHead => if more then (if full then 10 else 7) else 3
  | PWait => 9
  | PCheck => if full then 12 else 6
  | PSubmit => if more then (if full then 11 else 5) else 4
  end.

Definition Phi (s : st) : nat := 20 * ((n - s_i s) + length (s_sched s)) + phi s.

Lemma phi_le s : phi s <= 12.
Proof.
  unfold phi. destruct (s_pc s); destruct (s_i s <? n);
    destruct (workers c <=? length (s_waiting s)); lia.
Qed.

Lemma step_decreases s :
  Ile s -> Iwsub s -> Iorder s -> s_pc s <> PDone -> Phi (step c s) < Phi s.
Proof.
  intros Hle Hws Hord Hpc. unfold Ile in Hle.
  unfold Phi, step. fold n.
  destruct (s_pc s) eqn:Epc; try congruence.
  - (* PHead *)
    unfold phi at 2. rewrite Epc.
    destruct (s_i s <? n) eqn:Em.
    + destruct (workers c <=? length (s_waiting s)) eqn:Ef; unfold phi; simpl; rewrite ?Em, ?Ef; lia.
    + unfold phi; simpl. lia.
  - (* PWait *)
    unfold phi at 2. rewrite Epc.
    destruct (sync_frame s true true PCheck) as (Hi & Hs & Hp & Hl & Hw).
    destruct (s_sched s) as [| d r] eqn:Es.
    + assert (He : s_waiting (sync c s true true PCheck) = []).
      { apply sync_default_empties; [exact Es|]. intros j Hj. split; [auto|].
        specialize (Hws j Hj). unfold Iorder in Hord. rewrite Hord in Hws.
        apply in_rev, in_seq in Hws. lia. }
      unfold phi. rewrite Hp, He, Hi, Hl. simpl length.
      assert (Hf : (workers c <=? 0) = false) by (apply Nat.leb_gt; lia). rewrite Hf. lia.
    + pose proof (phi_le (sync c s true true PCheck)). rewrite Hi, Hl. simpl length. lia.
  - (* PCheck *)
    unfold phi at 2. rewrite Epc.
    destruct (stop_cond c s).
    + unfold phi. simpl. destruct (workers c <=? _); lia.
    + unfold phi. simpl. destruct (workers c <=? length (s_waiting s)); destruct (s_i s <? n); lia.
  - (* PSubmit *)
    unfold phi at 2. rewrite Epc.
    destruct (length (s_waiting s) <? workers c) eqn:Ew; cbn [andb].
    + destruct (s_i s <? n) eqn:Em.
      * apply Nat.ltb_lt in Em.
        destruct (sync_frame (submit c s) false false PSubmit) as (Hi & _ & _ & Hl & _).
        pose proof (phi_le (sync c (submit c s) false false PSubmit)).
        rewrite Hi, Hl. simpl.
        assert (Hf : (workers c <=? length (s_waiting s)) = false)
          by (apply Nat.leb_gt; apply Nat.ltb_lt in Ew; lia).
        rewrite Hf. lia.
      * unfold phi. simpl. rewrite Em. lia.
    + assert (Hf : (workers c <=? length (s_waiting s)) = true)
        by (apply Nat.leb_le; apply Nat.ltb_ge in Ew; lia).
      unfold phi. simpl. rewrite Hf. destruct (s_i s <? n); lia.
  - (* PAfter *)
    unfold phi at 2. rewrite Epc.
    destruct (sync_frame s true true PShutdown) as (Hi & _ & Hp & Hl & _).
    unfold phi. rewrite Hp, Hi, Hl. lia.
  - (* PShutdown *)
    unfold phi at 2. rewrite Epc.
    destruct (sync_frame s true false PDone) as (Hi & _ & Hp & Hl & _).
    unfold phi. rewrite Hp, Hi, Hl. lia.
Qed.

Lemma iter_reaches_done : forall fuel s,
  Ile s -> Iwsub s -> Iorder s -> Phi s <= fuel -> s_pc (iter c fuel s) = PDone.
Proof.
  induction fuel as [| f IH]; intros s Hle Hws Hord HPhi.
  - simpl. unfold Phi in HPhi. assert (phi s = 0) by lia.
    unfold phi in H. destruct (s_pc s); try reflexivity;
      destruct (s_i s <? n); destruct (workers c <=? length (s_waiting s)); lia.
  - simpl. destruct (s_pc s) eqn:Epc; try exact Epc;
      (apply IH; [apply step_Ile; assumption | apply step_Iwsub; assumption
                 | apply step_order; assumption
                 | assert (Hd : Phi (step c s) < Phi s)
                     by (apply step_decreases; try assumption; congruence); lia]).
Qed.

Lemma run_terminates sched e0 : s_pc (run c sched e0) = PDone.
Proof.
  unfold run. apply iter_reaches_done.
  - unfold Ile. simpl. lia.
  - intros j [].
  - reflexivity.
  - unfold Phi, fuel_for, phi. simpl. fold n.
    destruct (0 <? n); destruct (workers c <=? 0); lia.
Qed.

End Termination.
