(* C06 - proofs about the polynomial specification (Model/C06_poly.v) *)
From Coq Require Import List ZArith Bool Lia Field.
Import ListNotations.
From QV Require Import Model.C06 Proofs.C06 Model.C06_poly.
Open Scope Z_scope.

Section PolyProofs.
  Context {T : Type}.
  Variable N : num T.
  Hypothesis Hfield :
    field_theory (n0 N) (n1 N) (nadd N) (nmul N) (nsub N)
                 (fun x => nsub N (n0 N) x) (ndiv N) (fun x => ndiv N (n1 N) x) eq.
  Add Field NField2 : Hfield.

  Lemma peval_snoc col s f :
    peval N (col ++ [s]) f = cadd N (cscale N (peval N col f) f) s.
  Proof.
    induction col as [|a r IH].
    - destruct s as [sr si]. cbn [app peval length npow]. unfold cadd, cscale, c0.
      cbn [fst snd]. f_equal; ring.
    - cbn [app peval]. rewrite IH, app_length. cbn [length].
      replace (length r + 1)%nat with (S (length r)) by lia. cbn [npow].
      destruct a as [ar ai]. destruct (peval N r f) as [pr pi]. destruct s as [sr si].
      unfold cadd, cscale. cbn [fst snd]. f_equal; ring.
  Qed.

  Lemma horner_peval col f : horner N col f = peval N col f.
  Proof.
    induction col as [|s col IH] using rev_ind.
    - reflexivity.
    - rewrite (horner_snoc N), peval_snoc, IH. reflexivity.
  Qed.
End PolyProofs.

Section Pieces.
  Context {T : Type}.
  Variable N : num T.
  Hypothesis Hfield :
    field_theory (n0 N) (n1 N) (nadd N) (nmul N) (nsub N)
                 (fun x => nsub N (n0 N) x) (ndiv N) (fun x => ndiv N (n1 N) x) eq.
  Add Field NField3 : Hfield.
  Hypothesis Hord : order_laws N.
  Variable g : list T.
  Hypothesis Hinc : increasing N g.
  Hypothesis Hn : zlen g < two63.

  (* any order >= 1: inside cell k the value is the k-th polynomial piece
     evaluated at t - g_k *)
  Lemma call_piece (o : inter (T:=T)) t k :
    i_tlist o = g -> order o <> 0 ->
    in_cell N g t k -> nleb N t (zn g 0 (n0 N)) = false ->
    call N o t = Val (peval N (column N (i_poly o) k) (nsub N t (zn g k (n0 N)))).
  Proof.
    intros Htl Ho Hcell Hlo. destruct Hord as (L1 & L2 & L3 & L4).
    assert (H1 : 1 <= zlen g) by (destruct Hcell as (? & ? & _); lia).
    unfold call. erewrite callp_cell with (k := k); eauto.
    - rewrite (horner_peval N Hfield). reflexivity.
    - eapply real_idx_cell; eauto.
  Qed.

  (* the pieces k and k+1 join at knot k+1 *)
  Definition joins (o : inter (T:=T)) (k : Z) : Prop :=
    peval N (column N (i_poly o) k) (nsub N (zn g (k + 1) (n0 N)) (zn g k (n0 N)))
      = zn (last_row o) (k + 1) (c0 N).

  (* continuity at a knot reduces to "the pieces join": the polynomial of
     cell k continued to its right end is the value returned AT knot k+1 *)
  Lemma continuous_at_knot (o : inter (T:=T)) k :
    i_tlist o = g -> 2 <= zlen g -> i_poly o <> [] ->
    (forall row, In row (i_poly o) -> zlen row = zlen g) ->
    0 <= k -> k + 1 < zlen g -> joins o k ->
    call N o (zn g (k + 1) (n0 N)) =
      Val (peval N (column N (i_poly o) k) (nsub N (zn g (k + 1) (n0 N)) (zn g k (n0 N)))).
  Proof.
    intros Htl H2 Hp Hrows Hk0 Hk1 Hj. destruct Hord as (L1 & L2 & L3 & L4).
    rewrite Hj. unfold call. eapply knot_generic; eauto.
    - intros t k' Hcell Hlo. eapply real_idx_cell; eauto.
    - lia.
  Qed.

  (* order 1 as built by __init__: the pieces do join (no oracle) *)
  Lemma order1_joins (c : list (cplx (T:=T))) k :
    zlen c = zlen g -> 2 <= zlen g -> 0 <= k -> k + 1 < zlen g ->
    joins (init01 N 1 c g) k.
  Proof.
    intros Hc H2 Hk0 Hk1. destruct Hord as (L1 & L2 & L3 & L4).
    unfold joins.
    rewrite (init1_column N L1 L2 L3 L4 g c Hc H2 k Hk0 Hk1).
    destruct (init1_shape N L1 L2 L3 L4 g c H2) as (_ & Ep).
    unfold last_row. rewrite Ep. cbn [last].
    assert (Hg : zn g k (n0 N) <> zn g (k + 1) (n0 N)).
    { intros E. assert (H : nltb N (zn g k (n0 N)) (zn g (k + 1) (n0 N)) = true)
        by (apply Hinc; lia).
      rewrite E, L2 in H. discriminate. }
    set (a := zn c k (c0 N)). set (b := zn c (k + 1) (c0 N)).
    set (x0 := zn g k (n0 N)) in *. set (x1 := zn g (k + 1) (n0 N)) in *.
    destruct a as [ar ai]. destruct b as [br bi].
    unfold peval, cdivr, csub, cadd, cscale, c0. cbn [fst snd length npow].
    assert (Hd : nsub N x1 x0 <> n0 N).
    { intros H. apply Hg. symmetry. apply (sub_zero_eq N Hfield). exact H. }
    f_equal; field; exact Hd.
  Qed.
End Pieces.

Section FindCell.
  Context {T : Type}.
  Variable N : num T.

  Lemma find_cell_cons a b r t k :
    find_cell N (a :: b :: r) t k = if nltb N t b then k else find_cell N (b :: r) t (k + 1).
  Proof. reflexivity. Qed.

  (* linear scan: first k with t < g[k+1]; needs no order law *)
  Lemma find_cell_spec : forall (g : list T) (t : T) (k0 : Z),
    2 <= zlen g ->
    nltb N t (zn g 0 (n0 N)) = false ->
    nltb N t (zn g (zlen g - 1) (n0 N)) = true ->
    let j := find_cell N g t k0 - k0 in
    0 <= j /\ j + 1 < zlen g /\
    nltb N t (zn g j (n0 N)) = false /\ nltb N t (zn g (j + 1) (n0 N)) = true.
  Proof.
    induction g as [|a [|b r] IH]; intros t k0 H2 Hlo Hhi.
    - unfold zlen in H2. cbn in H2. lia.
    - unfold zlen in H2. cbn in H2. lia.
    - rewrite find_cell_cons. destruct (nltb N t b) eqn:Eb.
      + replace (k0 - k0) with 0 by lia. cbv zeta.
        unfold zlen in *. cbn [length] in *. repeat split; try lia; auto.
      + destruct r as [|c r'].
        * (* g = [a; b]: t < b must hold *)
          exfalso. change (zn [a; b] (zlen [a; b] - 1) (n0 N)) with b in Hhi. congruence.
        * assert (H2' : 2 <= zlen (b :: c :: r')) by (unfold zlen; cbn [length]; lia).
          assert (Hlo' : nltb N t (zn (b :: c :: r') 0 (n0 N)) = false) by exact Eb.
          assert (Hhi' : nltb N t (zn (b :: c :: r') (zlen (b :: c :: r') - 1) (n0 N)) = true).
          { assert (E : zlen (a :: b :: c :: r') - 1 = (zlen (b :: c :: r') - 1) + 1)
              by (unfold zlen; cbn [length]; lia).
            rewrite E in Hhi.
            rewrite (zn_cons a (b :: c :: r')) in Hhi by (unfold zlen; cbn [length]; lia).
            replace (zlen (b :: c :: r') - 1 + 1 - 1) with (zlen (b :: c :: r') - 1) in Hhi by lia.
            exact Hhi. }
          specialize (IH t (k0 + 1) H2' Hlo' Hhi'). cbv zeta in IH.
          destruct IH as (I0 & I1 & I2 & I3).
          set (j' := find_cell N (b :: c :: r') t (k0 + 1) - (k0 + 1)) in *.
          cbv zeta.
          replace (find_cell N (b :: c :: r') t (k0 + 1) - k0) with (j' + 1) by (unfold j'; lia).
          assert (L : zlen (a :: b :: c :: r') = zlen (b :: c :: r') + 1)
            by (unfold zlen; cbn [length]; lia).
          repeat split; try lia.
          -- rewrite (zn_cons a (b :: c :: r')) by lia.
             replace (j' + 1 - 1) with j' by lia. exact I2.
          -- rewrite (zn_cons a (b :: c :: r')) by lia.
             replace (j' + 1 + 1 - 1) with (j' + 1) by lia. exact I3.
  Qed.
End FindCell.

Section CodeIsSpec.
  Context {T : Type}.
  Variable N : num T.
  Hypothesis Hfield :
    field_theory (n0 N) (n1 N) (nadd N) (nmul N) (nsub N)
                 (fun x => nsub N (n0 N) x) (ndiv N) (fun x => ndiv N (n1 N) x) eq.
  Add Field NField4 : Hfield.
  Hypothesis Hord : order_laws N.
  Variable g : list T.
  Hypothesis Hinc : increasing N g.
  Hypothesis Hn : zlen g < two63.

  (* the code (_call with its index computation and Horner loop) computes
     the specification, for every t, every order, every increasing grid *)
  Lemma call_is_spec (o : inter (T:=T)) t :
    i_tlist o = g -> 1 <= zlen g -> i_poly o <> [] ->
    (forall row, In row (i_poly o) -> zlen row = zlen g) ->
    call N o t = spec_eval N (i_poly o) g t.
  Proof.
    intros Htl H1 Hp Hrows. pose proof Hord as (L1 & L2 & L3 & L4).
    unfold call. rewrite (call_with_unfold N L1 L2 L3 L4 g o Htl H1).
    unfold spec_eval.
    rewrite (zget_in g 0 (n0 N)) by lia.
    rewrite (zget_in g (zlen g - 1) (n0 N)) by lia.
    fold (last_row o).
    destruct (nleb N t (zn g 0 (n0 N))) eqn:Elo; [reflexivity|].
    destruct (nleb N (zn g (zlen g - 1) (n0 N)) t) eqn:Ehi; [reflexivity|].
    cbv zeta.
    (* strictly inside: n >= 2 *)
    assert (Hlo : nltb N t (zn g 0 (n0 N)) = false).
    { rewrite L1 in Elo. apply negb_false_iff in Elo.
      destruct (nltb N t (zn g 0 (n0 N))) eqn:E; auto.
      pose proof (L3 _ _ _ Elo E) as H. rewrite L2 in H. discriminate. }
    assert (Hhi : nltb N t (zn g (zlen g - 1) (n0 N)) = true).
    { rewrite L1 in Ehi. apply negb_false_iff in Ehi. exact Ehi. }
    assert (H2 : 2 <= zlen g).
    { destruct (Z.eq_dec (zlen g) 1) as [E|E]; [|lia].
      rewrite E in Hhi. replace (1 - 1) with 0 in Hhi by lia. congruence. }
    pose proof (find_cell_spec N g t 0 H2 Hlo Hhi) as Hf. cbv zeta in Hf.
    rewrite Z.sub_0_r in Hf. set (k := find_cell N g t 0) in *.
    destruct Hf as (K0 & K1 & K2 & K3).
    assert (Hcell : in_cell N g t k) by (unfold in_cell; auto).
    assert (Hidx : real_idx N o t = k) by (eapply real_idx_cell; eauto).
    rewrite Hidx.
    destruct (Z.eq_dec (order o) 0) as [Eo|Eo].
    - rewrite Eo. cbn [Z.eqb]. unfold order in Eo.
      destruct (i_poly o) as [|c [|c2 rest]] eqn:Ep; [congruence| |].
      + assert (Hc : zlen c = zlen g) by (apply Hrows; left; reflexivity).
        change (zn [c] 0 []) with c. rewrite (zget_in c k (c0 N)) by lia.
        f_equal. unfold column. cbn [map peval length npow].
        destruct (zn c k (c0 N)) as [cr ci]. unfold cadd, cscale, c0. cbn [fst snd].
        f_equal; ring.
      + unfold zlen in Eo. cbn [length] in Eo. lia.
    - apply Z.eqb_neq in Eo. rewrite Eo.
      rewrite (zget_in g k (n0 N)) by lia.
      rewrite (horner_peval N Hfield). reflexivity.
  Qed.
End CodeIsSpec.
