From Coq Require Import List ZArith QArith Qcanon Bool Arith Lia Permutation Field.
Import ListNotations.
From QV Require Import Model.C15.
Local Open Scope Qc_scope.

(* =============================================================== numbers *)
Lemma QcN_add a b : QcN (a + b) = QcN a + QcN b.
Proof.
  unfold QcN, Qcplus. apply Q2Qc_eq_iff. cbn [this Q2Qc]. rewrite !Qred_correct.
  rewrite Nat2Z.inj_add. unfold Qeq, Qplus, inject_Z. simpl. lia.
Qed.

Lemma QcN_0 : QcN 0 = 0.
Proof. apply Qc_is_canon. reflexivity. Qed.

Lemma QcN_1 : QcN 1 = 1.
Proof. apply Qc_is_canon. reflexivity. Qed.

Lemma QcN_S n : QcN (S n) = 1 + QcN n.
Proof. change (S n) with (1 + n)%nat. rewrite QcN_add, QcN_1. reflexivity. Qed.

Lemma QcN_nonzero n : (0 < n)%nat -> QcN n <> 0.
Proof.
  intros Hn H. unfold QcN in H.
  change 0 with (Q2Qc 0%Q) in H. apply Q2Qc_eq_iff in H.
  unfold Qeq, inject_Z in H. simpl in H. lia.
Qed.

Lemma Qcabs_0 : Qcabs 0 = 0.
Proof. reflexivity. Qed.

Lemma var0 : Qcabs (0 - Qcabs (0 * 0)) = 0.
Proof.
  replace (0 * 0) with 0 by ring. rewrite Qcabs_0.
  replace (0 - 0) with 0 by ring. apply Qcabs_0.
Qed.

Lemma Qcdiv_0_l x : 0 / x = 0.
Proof. unfold Qcdiv. ring. Qed.

(* =============================================================== vectors *)
Lemma map2_length {A B C} (f : A -> B -> C) l m :
  length l = length m -> length (map2 f l m) = length l.
Proof.
  revert m. induction l as [|a l IH]; intros [|b m] H; simpl in *; try lia.
  rewrite IH; lia.
Qed.

Lemma map2_nth {A B C} (f : A -> B -> C) l m da db dc k :
  length l = length m -> f da db = dc ->
  nth k (map2 f l m) dc = f (nth k l da) (nth k m db).
Proof.
  intros Hl Hd. revert m k Hl.
  induction l as [|a l IH]; intros [|b m] k H; simpl in *; try lia.
  - destruct k; auto.
  - destruct k; auto.
Qed.

Lemma map_nth0 (f : Qc -> Qc) l k : f 0 = 0 -> nth k (map f l) 0 = f (nth k l 0).
Proof. intros H. rewrite <- H at 1. apply map_nth. Qed.

Lemma vadd_nth a b k : length a = length b -> nth k (vadd a b) 0 = nth k a 0 + nth k b 0.
Proof. intros H. unfold vadd. apply map2_nth; [assumption|ring]. Qed.

Lemma vscale_nth w a k : nth k (vscale w a) 0 = w * nth k a 0.
Proof. unfold vscale. apply map_nth0. ring. Qed.

Lemma vsq_nth a k : nth k (vsq a) 0 = nth k a 0 * nth k a 0.
Proof. unfold vsq. apply (map_nth0 (fun x => x * x)). ring. Qed.

Lemma vdivn_nth a n k : nth k (vdivn a n) 0 = nth k a 0 / QcN n.
Proof. unfold vdivn. apply (map_nth0 (fun x => x / QcN n)). apply Qcdiv_0_l. Qed.

Lemma vzeros_nth v k : nth k (vzeros_like v) 0 = 0.
Proof.
  unfold vzeros_like. revert k. induction v; intros [|k]; simpl; auto.
Qed.

Lemma vadd_length a b : length a = length b -> length (vadd a b) = length a.
Proof. apply map2_length. Qed.
Lemma vscale_length w a : length (vscale w a) = length a.
Proof. apply map_length. Qed.
Lemma vsq_length a : length (vsq a) = length a.
Proof. apply map_length. Qed.
Lemma vdivn_length a n : length (vdivn a n) = length a.
Proof. apply map_length. Qed.
Lemma vzeros_length v : length (vzeros_like v) = length v.
Proof. apply map_length. Qed.

Lemma vec_ext (a b : vec) :
  length a = length b -> (forall k, nth k a 0 = nth k b 0) -> a = b.
Proof. intros Hl H. apply (nth_ext a b 0 0 Hl). intros k _. apply H. Qed.

(* ================================================= specification functions *)
(* Sum_i w_i * f(t_i) over the trajectories t_i with weights w_i *)
Fixpoint wsumf (f : traj -> Qc) (ws : list Qc) (ts : list traj) : Qc :=
  match ws, ts with
  | w :: ws', t :: ts' => w * f t + wsumf f ws' ts'
  | _, _ => 0
  end.

Definition xat (k : nat) (t : traj) : Qc := nth k (t_expect t) 0.
Definition x2at (k : nat) (t : traj) : Qc := xat k t * xat k t.
Definition one (t : traj) : Qc := 1.

(* the weighted mean of f over the ensemble held by o:
   sum over deterministic trajectories of (absolute weight * f)
   + (1/N) * sum over sampled trajectories of (relative weight * f) *)
Definition meanf (f : traj -> Qc) (o : mtr) : Qc :=
  wsumf f (w_det o) (g_det o) + wsumf f (w_rel o) (g_rel o) / QcN (num o).

Fixpoint sumQ (l : list Qc) : Qc := match l with [] => 0 | x :: l' => x + sumQ l' end.

Lemma wsumf_nil_r f ws : wsumf f ws [] = 0.
Proof. destruct ws; reflexivity. Qed.

Lemma wsumf_app f ws1 ts1 ws2 ts2 :
  length ws1 = length ts1 ->
  wsumf f (ws1 ++ ws2) (ts1 ++ ts2) = wsumf f ws1 ts1 + wsumf f ws2 ts2.
Proof.
  revert ts1. induction ws1 as [|w ws1 IH]; intros [|t ts1] H; simpl in *; try lia.
  - ring.
  - rewrite IH by lia. ring.
Qed.

Lemma wsumf_snoc f ws ts w t :
  length ws = length ts -> wsumf f (ws ++ [w]) (ts ++ [t]) = wsumf f ws ts + w * f t.
Proof. intros H. rewrite wsumf_app by assumption. simpl. ring. Qed.

Lemma wsumf_scale f c ws ts :
  wsumf f (map (fun w => w * c) ws) ts = c * wsumf f ws ts.
Proof.
  revert ts. induction ws as [|w ws IH]; intros [|t ts]; simpl; try ring.
  rewrite IH. ring.
Qed.

Lemma wsumf_one ws ts : length ws = length ts -> wsumf one ws ts = sumQ ws.
Proof.
  revert ts. induction ws as [|w ws IH]; intros [|t ts] H; simpl in *; try lia; auto.
  rewrite IH by lia. unfold one. ring.
Qed.

Lemma sumQ_app l m : sumQ (l ++ m) = sumQ l + sumQ m.
Proof. induction l; simpl; [ring|rewrite IHl; ring]. Qed.

Lemma sumQ_scale c l : sumQ (map (fun w => w * c) l) = c * sumQ l.
Proof. induction l; simpl; [ring|rewrite IHl; ring]. Qed.

(* ============================================================ invariant *)
Definition sum_ok (n : nat) (s : option tsum) (ws : list Qc) (ts : list traj) : Prop :=
  match s with
  | None => ts = []
  | Some s =>
      ts <> [] /\ length (sum_expect s) = n /\ length (sum2_expect s) = n /\
      (forall k, nth k (sum_expect s) 0 = wsumf (xat k) ws ts) /\
      (forall k, nth k (sum2_expect s) 0 = wsumf (x2at k) ws ts)
  end.

Definition shaped (n : nat) (t : traj) : Prop := length (t_expect t) = n.

Record inv (n : nat) (o : mtr) : Prop := {
  i_len_rel : length (w_rel o) = num o;
  i_len_grel : length (g_rel o) = num o;
  i_len_det : length (w_det o) = length (g_det o);
  i_seeds : seeds o = map t_seed (g_rel o);
  i_coll : collapse o = map t_coll (g_rel o);
  i_shape_rel : Forall (shaped n) (g_rel o);
  i_shape_det : Forall (shaped n) (g_det o);
  i_sum_rel : sum_ok n (sum_rel o) (w_rel o) (g_rel o);
  i_sum_det : sum_ok n (sum_det o) (w_det o) (g_det o);
  i_cache : (avg_cache o = None <-> std_cache o = None);
  (* a stored average / spread is the one _create_e_data would compute now *)
  i_cache_avg : forall a, avg_cache o = Some a -> average o = Some a;
  i_cache_std : forall v, std_cache o = Some v -> variance o = Some v }.

Lemma inv_new n k r : inv n (new_obj k r).
Proof. constructor; simpl; auto; try tauto; discriminate. Qed.

Lemma app_nonnil {A} (l : list A) x : l ++ [x] <> [].
Proof. destruct l; discriminate. Qed.

(* adding one trajectory with weight w to a running sum *)
Lemma sum_ok_reduce n s ws ts t w :
  length ws = length ts -> shaped n t -> sum_ok n s ws ts ->
  sum_ok n (Some (tsum_reduce (or_init s t) t w)) (ws ++ [w]) (ts ++ [t]).
Proof.
  intros Hl Ht Hs. unfold shaped in Ht.
  assert (Hinit : length (sum_expect (or_init s t)) = n /\ length (sum2_expect (or_init s t)) = n /\
                  (forall k, nth k (sum_expect (or_init s t)) 0 = wsumf (xat k) ws ts) /\
                  (forall k, nth k (sum2_expect (or_init s t)) 0 = wsumf (x2at k) ws ts)).
  { destruct s as [s|]; simpl in *.
    - destruct Hs as (_ & A & B & C & D). auto.
    - subst ts. rewrite !vzeros_length. repeat split; auto; intros k;
        rewrite vzeros_nth, wsumf_nil_r; reflexivity. }
  destruct Hinit as (A & B & C & D).
  simpl. split; [apply app_nonnil|].
  split; [rewrite vadd_length; rewrite ?vscale_length; lia|].
  split; [rewrite vadd_length; rewrite ?vscale_length, ?vsq_length; lia|].
  split; intros k.
  - rewrite vadd_nth by (rewrite vscale_length; lia).
    rewrite vscale_nth, C, wsumf_snoc by assumption. reflexivity.
  - rewrite vadd_nth by (rewrite vscale_length, vsq_length; lia).
    rewrite vscale_nth, vsq_nth, D, wsumf_snoc by assumption. reflexivity.
Qed.

Lemma inv_add n o t w : inv n o -> shaped n t -> inv n (add o t w).
Proof.
  intros [A B C D E F G H I J K L] Ht. constructor; simpl.
  - rewrite app_length; simpl; lia.
  - rewrite app_length; simpl; lia.
  - assumption.
  - rewrite map_app, D. reflexivity.
  - rewrite map_app, E. reflexivity.
  - apply Forall_app; split; auto.
  - assumption.
  - apply sum_ok_reduce; auto. lia.
  - assumption.
  - tauto.
  - discriminate.
  - discriminate.
Qed.

Lemma inv_add_det n o t w : inv n o -> shaped n t -> inv n (add_det o t w).
Proof.
  intros [A B C D E F G H I J K L] Ht. constructor; simpl; auto; try discriminate.
  - rewrite !app_length; simpl; lia.
  - apply Forall_app; split; auto.
  - apply sum_ok_reduce; auto.
  - tauto.
Qed.

(* merging two running sums *)
Lemma sum_ok_merge n sa wa ta sb wb tb c1 c2 :
  length wa = length ta -> length wb = length tb ->
  sum_ok n sa wa ta -> sum_ok n sb wb tb ->
  sum_ok n (tsum_merge sa c1 sb c2)
         (map (fun w => w * c1) wa ++ map (fun w => w * c2) wb) (ta ++ tb).
Proof.
  intros Ha Hb Sa Sb.
  assert (Hla : length (map (fun w => w * c1) wa) = length ta) by (rewrite map_length; assumption).
  destruct sa as [sa|], sb as [sb|]; simpl in *.
  - destruct Sa as (A0 & A1 & A2 & A3 & A4). destruct Sb as (B0 & B1 & B2 & B3 & B4).
    split; [destruct ta; [congruence|discriminate]|].
    split; [rewrite vadd_length; rewrite !vscale_length; lia|].
    split; [rewrite vadd_length; rewrite !vscale_length; lia|].
    split; intros k; rewrite vadd_nth by (rewrite !vscale_length; lia);
      rewrite !vscale_nth, wsumf_app, !wsumf_scale by assumption.
    + rewrite A3, B3. reflexivity.
    + rewrite A4, B4. reflexivity.
  - destruct Sa as (A0 & A1 & A2 & A3 & A4). subst tb.
    destruct wb; [|discriminate]. simpl. rewrite !app_nil_r.
    split; [assumption|]. rewrite !vscale_length. split; [assumption|]. split; [assumption|].
    split; intros k; rewrite vscale_nth, wsumf_scale; [rewrite A3|rewrite A4]; reflexivity.
  - destruct Sb as (B0 & B1 & B2 & B3 & B4). subst ta.
    destruct wa; [|discriminate]. simpl.
    split; [assumption|]. rewrite !vscale_length. split; [assumption|]. split; [assumption|].
    split; intros k; rewrite vscale_nth, wsumf_scale; [rewrite B3|rewrite B4]; reflexivity.
  - subst ta tb. reflexivity.
Qed.

Lemma map_scale_ext (c1 c2 : Qc) (l : list Qc) :
  map (fun w => w * c1 / c2) l = map (fun w => w * (c1 / c2)) l.
Proof. apply map_ext. intros w. unfold Qcdiv. ring. Qed.

Lemma inv_merge n a b p r : inv n a -> inv n b -> inv n (merge_obj a b p r).
Proof.
  intros [A B C D E F G H I J K L] [A' B' C' D' E' F' G' H' I' J' K' L'].
  constructor; simpl; try discriminate.
  - rewrite app_length, !map_length. lia.
  - rewrite app_length. lia.
  - rewrite !app_length, !map_length. lia.
  - rewrite map_app, D, D'. reflexivity.
  - rewrite map_app, E, E'. reflexivity.
  - apply Forall_app; split; assumption.
  - apply Forall_app; split; assumption.
  - rewrite !map_scale_ext. apply sum_ok_merge; auto; lia.
  - apply sum_ok_merge; auto.
  - tauto.
Qed.

(* ======================================================= reported values *)
Lemma sum_ok_len n s ws ts x : sum_ok n s ws ts -> s = Some x ->
  length (sum_expect x) = n /\ length (sum2_expect x) = n.
Proof. intros H ->. simpl in H. tauto. Qed.

(* generic: the mixed vector det + rel/N, componentwise *)
Lemma mix_spec (g : tsum -> vec) (f : nat -> traj -> Qc) n o v :
  (forall s, sum_det o = Some s -> length (g s) = n /\ forall k, nth k (g s) 0 = wsumf (f k) (w_det o) (g_det o)) ->
  (forall s, sum_rel o = Some s -> length (g s) = n /\ forall k, nth k (g s) 0 = wsumf (f k) (w_rel o) (g_rel o)) ->
  (sum_det o = None -> g_det o = []) -> (sum_rel o = None -> g_rel o = []) ->
  mix (option_map g (sum_det o)) (option_map g (sum_rel o)) (num o) = Some v ->
  length v = n /\ forall k, nth k v 0 = meanf (f k) o.
Proof.
  intros Hd Hr Hd0 Hr0 Hm. unfold meanf.
  destruct (sum_det o) as [sd|] eqn:Ed, (sum_rel o) as [sr|] eqn:Er; simpl in Hm;
    try discriminate; injection Hm as <-.
  - destruct (Hd sd eq_refl) as [L1 N1]. destruct (Hr sr eq_refl) as [L2 N2].
    split; [rewrite vadd_length; rewrite ?vdivn_length; lia|].
    intros k. rewrite vadd_nth by (rewrite vdivn_length; lia).
    rewrite vdivn_nth, N1, N2. reflexivity.
  - destruct (Hd sd eq_refl) as [L1 N1]. split; [assumption|].
    intros k. rewrite N1, (Hr0 eq_refl), wsumf_nil_r, Qcdiv_0_l. ring.
  - destruct (Hr sr eq_refl) as [L2 N2]. split; [rewrite vdivn_length; assumption|].
    intros k. rewrite vdivn_nth, N2, (Hd0 eq_refl), wsumf_nil_r. ring.
Qed.

Lemma average_spec n o a : inv n o -> average o = Some a ->
  length a = n /\ forall k, nth k a 0 = meanf (xat k) o.
Proof.
  intros I H. unfold average in H.
  apply (mix_spec sum_expect xat n o a); auto.
  - intros s Hs. pose proof (i_sum_det n o I) as S. rewrite Hs in S. simpl in S. tauto.
  - intros s Hs. pose proof (i_sum_rel n o I) as S. rewrite Hs in S. simpl in S. tauto.
  - intros Hs. pose proof (i_sum_det n o I) as S. rewrite Hs in S. exact S.
  - intros Hs. pose proof (i_sum_rel n o I) as S. rewrite Hs in S. exact S.
Qed.

Lemma average2_spec n o a : inv n o -> average2 o = Some a ->
  length a = n /\ forall k, nth k a 0 = meanf (x2at k) o.
Proof.
  intros I H. unfold average2 in H.
  apply (mix_spec sum2_expect x2at n o a); auto.
  - intros s Hs. pose proof (i_sum_det n o I) as S. rewrite Hs in S. simpl in S. tauto.
  - intros s Hs. pose proof (i_sum_rel n o I) as S. rewrite Hs in S. simpl in S. tauto.
  - intros Hs. pose proof (i_sum_det n o I) as S. rewrite Hs in S. exact S.
  - intros Hs. pose proof (i_sum_rel n o I) as S. rewrite Hs in S. exact S.
Qed.

Lemma variance_spec n o v : inv n o -> variance o = Some v ->
  length v = n /\
  forall k, nth k v 0 = Qcabs (meanf (x2at k) o - Qcabs (meanf (xat k) o * meanf (xat k) o)).
Proof.
  intros I H. unfold variance in H.
  destruct (average o) as [a|] eqn:Ea; [|discriminate].
  destruct (average2 o) as [a2|] eqn:Ea2; [|discriminate].
  injection H as <-.
  destruct (average_spec n o a I Ea) as [L1 N1].
  destruct (average2_spec n o a2 I Ea2) as [L2 N2].
  split; [rewrite map2_length; lia|].
  intros k.
  rewrite (map2_nth (fun x2 x => Qcabs (x2 - Qcabs (x * x))) a2 a 0 0 0 k) by (try lia; apply var0).
  rewrite N1, N2. reflexivity.
Qed.

(* error branch: no average exactly when nothing was added *)
Lemma average_none n o : inv n o -> (average o = None <-> g_rel o = [] /\ g_det o = []).
Proof.
  intros I. pose proof (i_sum_det n o I) as Sd. pose proof (i_sum_rel n o I) as Sr.
  unfold average. destruct (sum_det o) as [sd|], (sum_rel o) as [sr|]; simpl in *; split;
    try discriminate; try tauto; intros [A B]; try tauto.
Qed.

(* division by N never happens with N = 0 *)
Lemma rel_sum_positive n o s : inv n o -> sum_rel o = Some s -> (0 < num o)%nat.
Proof.
  intros I H. pose proof (i_sum_rel n o I) as S. rewrite H in S. destruct S as [S _].
  pose proof (i_len_grel n o I). destruct (g_rel o); [congruence|simpl in *; lia].
Qed.

(* the same mean written with the weights the object reports *)
Lemma meanf_reported f o :
  meanf f o = wsumf f (det_weights o) (g_det o) + wsumf f (runs_weights o) (g_rel o).
Proof.
  unfold meanf, det_weights, runs_weights. f_equal.
  unfold Qcdiv. rewrite wsumf_scale. ring.
Qed.

Lemma total_reported n o : inv n o ->
  meanf one o = sumQ (det_weights o) + sumQ (runs_weights o).
Proof.
  intros I. rewrite meanf_reported.
  rewrite !wsumf_one; auto.
  - unfold runs_weights. rewrite map_length. rewrite (i_len_rel n o I), (i_len_grel n o I). reflexivity.
  - unfold det_weights. apply (i_len_det n o I).
Qed.

(* ================================================================ merge *)
Definition p_used (a b : mtr) (p : option Qc) : Qc :=
  match p with Some p => p | None => QcN (num a) / QcN (num a + num b) end.

Lemma merge_meanf f n a b p r : inv n a -> inv n b -> (0 < num a)%nat -> (0 < num b)%nat ->
  meanf f (merge_obj a b p r) = p_used a b p * meanf f a + (1 - p_used a b p) * meanf f b.
Proof.
  intros Ia Ib Ha Hb. unfold meanf. simpl.
  fold (p_used a b p). set (pp := p_used a b p).
  rewrite !map_scale_ext.
  rewrite wsumf_app by (rewrite map_length; apply (i_len_det n a Ia)).
  rewrite wsumf_app by (rewrite map_length, (i_len_rel n a Ia), (i_len_grel n a Ia); reflexivity).
  rewrite !wsumf_scale. rewrite QcN_add.
  pose proof (QcN_nonzero _ Ha) as NA. pose proof (QcN_nonzero _ Hb) as NB.
  assert (NAB : QcN (num a) + QcN (num b) <> 0).
  { rewrite <- QcN_add. apply QcN_nonzero. lia. }
  set (A := QcN (num a)) in *. set (B := QcN (num b)) in *.
  assert (E1 : 1 - A / (A + B) = B / (A + B)) by (field; assumption).
  rewrite E1.
  field. repeat split; assumption.
Qed.

(* ============================================================ the world *)
Definition op_shaped (n : nat) (o : op) : Prop :=
  match o with
  | OAdd _ t _ => shaped n t
  | OAddDet _ t _ => shaped n t
  | _ => True
  end.

Definition winv (n : nat) (W : world) : Prop := Forall (inv n) (objs W).

Lemma Forall_set_nth {A} (P : A -> Prop) l k x :
  Forall P l -> P x -> Forall P (set_nth l k x).
Proof.
  intros H Hx. revert k. induction H as [|a l Ha Hl IH]; intros [|k]; simpl; auto.
Qed.

Lemma Forall_nth_error {A} (P : A -> Prop) l k x :
  Forall P l -> nth_error l k = Some x -> P x.
Proof. intros H E. rewrite Forall_forall in H. apply H. eapply nth_error_In; eauto. Qed.

Lemma inv_with_caches n o a v : inv n o -> (a = None <-> v = None) ->
  (forall x, a = Some x -> average o = Some x) -> (forall x, v = Some x -> variance o = Some x) ->
  inv n (with_caches o a v).
Proof. intros [A B C D E F G H I J K L] M Ka Kv. constructor; simpl; auto. Qed.

Lemma create_inv n o o' : inv n o -> create_e_data o = Some o' -> inv n o'.
Proof.
  intros I H. unfold create_e_data in H.
  destruct (average o) eqn:Ea; [|discriminate]. destruct (variance o) eqn:Ev; [|discriminate].
  injection H as <-. apply inv_with_caches; auto; [split; discriminate| |]; intros x Hx; congruence.
Qed.

Lemma read_avg_inv n o o' a : inv n o -> read_avg o = Some (o', a) -> inv n o'.
Proof.
  intros I H. unfold read_avg in H. destruct (avg_cache o).
  - injection H as <- _. assumption.
  - destruct (create_e_data o) as [o1|] eqn:E; [|discriminate].
    destruct (avg_cache o1); [|discriminate]. injection H as <- _. eapply create_inv; eauto.
Qed.

Lemma read_std_inv n o o' a : inv n o -> read_std o = Some (o', a) -> inv n o'.
Proof.
  intros I H. unfold read_std in H. destruct (std_cache o).
  - injection H as <- _. assumption.
  - destruct (create_e_data o) as [o1|] eqn:E; [|discriminate].
    destruct (std_cache o1); [|discriminate]. injection H as <- _. eapply create_inv; eauto.
Qed.

Lemma step_inv n W o : winv n W -> op_shaped n o -> winv n (fst (step W o)).
Proof.
  intros HW Ho. unfold winv in *. destruct o as [k rt|i t w|i t w|i j p|i|i]; simpl in *.
  - apply Forall_app; split; [assumption|]. constructor; [apply inv_new|constructor].
  - destruct (nth_error (objs W) i) as [x|] eqn:E; simpl; [|assumption].
    apply Forall_set_nth; [assumption|]. apply inv_add; [|assumption].
    eapply Forall_nth_error; eauto.
  - destruct (nth_error (objs W) i) as [x|] eqn:E; simpl; [|assumption].
    apply Forall_set_nth; [assumption|]. apply inv_add_det; [|assumption].
    eapply Forall_nth_error; eauto.
  - destruct (nth_error (objs W) i) as [a|] eqn:Ea; simpl; [|assumption].
    destruct (nth_error (objs W) j) as [b|] eqn:Eb; simpl; [|assumption].
    destruct (negb (opt_Z_eqb (times a) (times b))); simpl; [assumption|].
    destruct ((num a =? 0)%nat || (num b =? 0)%nat); simpl; [assumption|].
    apply Forall_app; split; [assumption|]. constructor; [|constructor].
    apply inv_merge; eapply Forall_nth_error; eauto.
  - destruct (nth_error (objs W) i) as [x|] eqn:E; simpl; [|assumption].
    destruct (read_avg x) as [[x' a]|] eqn:R; simpl; [|assumption].
    apply Forall_set_nth; [assumption|]. eapply read_avg_inv; eauto.
    eapply Forall_nth_error; eauto.
  - destruct (nth_error (objs W) i) as [x|] eqn:E; simpl; [|assumption].
    destruct (read_std x) as [[x' a]|] eqn:R; simpl; [|assumption].
    apply Forall_set_nth; [assumption|]. eapply read_std_inv; eauto.
    eapply Forall_nth_error; eauto.
Qed.

Lemma run_inv n ops : forall W, winv n W -> Forall (op_shaped n) ops -> winv n (run W ops).
Proof.
  induction ops as [|o ops IH]; intros W HW Hs; simpl; [assumption|].
  inversion Hs; subst. apply IH; [|assumption]. apply step_inv; assumption.
Qed.

Lemma reach_inv n ops x i : Forall (op_shaped n) ops ->
  nth_error (objs (run empty_world ops)) i = Some x -> inv n x.
Proof.
  intros Hs E. eapply Forall_nth_error; [|exact E].
  apply run_inv; [constructor|assumption].
Qed.

(* ================================================================ cache *)
(* a read on an object whose cache is empty returns the weighted mean *)
Lemma read_avg_fresh n o o' a : inv n o -> avg_cache o = None -> read_avg o = Some (o', a) ->
  length a = n /\ forall k, nth k a 0 = meanf (xat k) o.
Proof.
  intros I Hc H. unfold read_avg in H. rewrite Hc in H.
  unfold create_e_data in H.
  destruct (average o) as [a0|] eqn:Ea; [|discriminate].
  destruct (variance o) as [v0|] eqn:Ev; [|discriminate].
  simpl in H. injection H as _ <-. eapply average_spec; eauto.
Qed.

Lemma read_std_fresh n o o' v : inv n o -> std_cache o = None -> read_std o = Some (o', v) ->
  length v = n /\
  forall k, nth k v 0 = Qcabs (meanf (x2at k) o - Qcabs (meanf (xat k) o * meanf (xat k) o)).
Proof.
  intros I Hc H. unfold read_std in H. rewrite Hc in H.
  unfold create_e_data in H.
  destruct (average o) as [a0|] eqn:Ea; [|discriminate].
  destruct (variance o) as [v0|] eqn:Ev; [|discriminate].
  simpl in H. injection H as _ <-. eapply variance_spec; eauto.
Qed.

(* a read with a filled cache returns the cache and changes nothing *)
Lemma read_avg_cached o a : avg_cache o = Some a -> read_avg o = Some (o, a).
Proof. intros H. unfold read_avg. rewrite H. reflexivity. Qed.

Lemma nth_error_set_nth_same {A} (l : list A) k x y :
  nth_error l k = Some y -> nth_error (set_nth l k x) k = Some x.
Proof. revert k. induction l as [|h t IH]; intros [|k] H; simpl in *; try discriminate; auto. Qed.

Lemma nth_error_set_nth_other {A} (l : list A) k j x :
  j <> k -> nth_error (set_nth l k x) j = nth_error l j.
Proof.
  revert k j. induction l as [|h t IH]; intros [|k] [|j] H; simpl; auto; try lia.
Qed.

Lemma nth_error_app_some {A} (l m : list A) k x :
  nth_error l k = Some x -> nth_error (l ++ m) k = Some x.
Proof. intros H. rewrite nth_error_app1; [assumption|]. apply nth_error_Some. congruence. Qed.

(* every read - cached or not - returns the weighted mean of the trajectories
   the object holds now *)
Lemma read_avg_spec n o o' a : inv n o -> read_avg o = Some (o', a) ->
  length a = n /\ forall k, nth k a 0 = meanf (xat k) o.
Proof.
  intros I H. destruct (avg_cache o) as [c|] eqn:Hc.
  - unfold read_avg in H. rewrite Hc in H. injection H as _ <-.
    apply (average_spec n o c I). apply (i_cache_avg n o I). assumption.
  - eapply read_avg_fresh; eauto.
Qed.

Lemma read_std_spec n o o' v : inv n o -> read_std o = Some (o', v) ->
  length v = n /\
  forall k, nth k v 0 = Qcabs (meanf (x2at k) o - Qcabs (meanf (xat k) o * meanf (xat k) o)).
Proof.
  intros I H. destruct (std_cache o) as [c|] eqn:Hc.
  - unfold read_std in H. rewrite Hc in H. injection H as _ <-.
    apply (variance_spec n o c I). apply (i_cache_std n o I). assumption.
  - eapply read_std_fresh; eauto.
Qed.

(* a read changes nothing but the caches *)
Lemma create_shape o o' : create_e_data o = Some o' -> exists a v, o' = with_caches o a v.
Proof.
  unfold create_e_data. destruct (average o); [|discriminate].
  destruct (variance o); [|discriminate]. intros H. injection H as <-. eauto.
Qed.

Lemma read_avg_same_stats o o' a : read_avg o = Some (o', a) ->
  average o' = average o /\ variance o' = variance o /\ num o' = num o /\
  w_rel o' = w_rel o /\ w_det o' = w_det o /\ g_rel o' = g_rel o /\ g_det o' = g_det o.
Proof.
  intros H. unfold read_avg in H. destruct (avg_cache o).
  - injection H as <- _. repeat split; reflexivity.
  - destruct (create_e_data o) as [o1|] eqn:E; [|discriminate].
    destruct (create_shape o o1 E) as (a0 & v0 & ->).
    destruct (avg_cache (with_caches o a0 v0)); [|discriminate].
    injection H as <- _. repeat split; reflexivity.
Qed.

(* ====================================================== order of insertion *)
Inductive item := IRel (t : traj) (w : option Qc) | IDet (t : traj) (w : Qc).

Definition add_item (o : mtr) (it : item) : mtr :=
  match it with IRel t w => add o t w | IDet t w => add_det o t w end.
Definition fill (o : mtr) (l : list item) : mtr := fold_left add_item l o.

Definition item_shaped n (it : item) := match it with IRel t _ => shaped n t | IDet t _ => shaped n t end.
Definition is_rel (it : item) := match it with IRel _ _ => true | IDet _ _ => false end.
Definition itr (it : item) := match it with IRel t _ => t | IDet t _ => t end.
Definition iw (it : item) : Qc :=
  match it with IRel _ (Some w) => w | IRel _ None => 1 | IDet _ w => w end.

Lemma fill_inv n l : forall o, inv n o -> Forall (item_shaped n) l -> inv n (fill o l).
Proof.
  induction l as [|it l IH]; intros o I H; simpl; [assumption|].
  inversion H; subst. apply IH; [|assumption].
  destruct it; simpl in *; [apply inv_add|apply inv_add_det]; assumption.
Qed.

Definition rels (l : list item) := filter is_rel l.
Definition dets (l : list item) := filter (fun it => negb (is_rel it)) l.

Lemma fill_fields l : forall o,
  w_rel (fill o l) = w_rel o ++ map iw (rels l) /\
  g_rel (fill o l) = g_rel o ++ map itr (rels l) /\
  w_det (fill o l) = w_det o ++ map iw (dets l) /\
  g_det (fill o l) = g_det o ++ map itr (dets l) /\
  num (fill o l) = (num o + length (rels l))%nat.
Proof.
  induction l as [|it l IH]; intros o; simpl.
  - rewrite !app_nil_r. repeat split; auto.
  - destruct (IH (add_item o it)) as (A & B & C & D & E).
    unfold fill in *. rewrite A, B, C, D, E. unfold rels, dets.
    destruct it as [t [w|]|t w]; simpl; rewrite <- ?app_assoc; simpl; repeat split; auto; lia.
Qed.

(* sum over a list of items *)
Fixpoint isum (f : traj -> Qc) (l : list item) : Qc :=
  match l with [] => 0 | it :: l' => iw it * f (itr it) + isum f l' end.

Lemma wsumf_items f l : wsumf f (map iw l) (map itr l) = isum f l.
Proof. induction l; simpl; [reflexivity|rewrite IHl; reflexivity]. Qed.

Lemma isum_perm f l l' : Permutation l l' -> isum f l = isum f l'.
Proof.
  induction 1; simpl; try congruence; try ring.
Qed.

Lemma filter_perm {A} (g : A -> bool) l l' : Permutation l l' -> Permutation (filter g l) (filter g l').
Proof.
  induction 1; simpl.
  - constructor.
  - destruct (g x); [constructor|]; assumption.
  - destruct (g x), (g y); try constructor; try apply Permutation_refl.
  - eapply Permutation_trans; eauto.
Qed.

Lemma meanf_fill_new f k r l :
  meanf f (fill (new_obj k r) l) = isum f (dets l) + isum f (rels l) / QcN (length (rels l)).
Proof.
  destruct (fill_fields l (new_obj k r)) as (A & B & C & D & E).
  unfold meanf. rewrite A, B, C, D, E. simpl. rewrite !wsumf_items. reflexivity.
Qed.

Lemma meanf_fill_perm f k r k' r' l l' : Permutation l l' ->
  meanf f (fill (new_obj k r) l) = meanf f (fill (new_obj k' r') l').
Proof.
  intros P. rewrite !meanf_fill_new. unfold rels, dets.
  rewrite (isum_perm f _ _ (filter_perm (fun it => negb (is_rel it)) l l' P)).
  rewrite (isum_perm f _ _ (filter_perm is_rel l l' P)).
  rewrite (Permutation_length (filter_perm is_rel l l' P)). reflexivity.
Qed.

Lemma Forall_perm {A} (P : A -> Prop) l l' : Permutation l l' -> Forall P l -> Forall P l'.
Proof. intros Hp H. rewrite Forall_forall in *. intros x Hx. apply H. eapply Permutation_in; [apply Permutation_sym|]; eauto. Qed.

Lemma option_vec_ext n (a b : option vec) :
  (a = None <-> b = None) ->
  (forall x, a = Some x -> length x = n) -> (forall y, b = Some y -> length y = n) ->
  (forall x y k, a = Some x -> b = Some y -> nth k x 0 = nth k y 0) -> a = b.
Proof.
  intros Hn La Lb H. destruct a as [x|], b as [y|].
  - f_equal. apply vec_ext; [rewrite (La x), (Lb y); auto|]. intros k. eapply H; eauto.
  - destruct Hn as [_ Hn]. specialize (Hn eq_refl). discriminate.
  - destruct Hn as [Hn _]. specialize (Hn eq_refl). discriminate.
  - reflexivity.
Qed.

Lemma average2_none o : average2 o = None <-> average o = None.
Proof. unfold average, average2. destruct (sum_det o), (sum_rel o); simpl; split; congruence. Qed.

Lemma variance_none o : variance o = None <-> average o = None.
Proof.
  unfold variance. pose proof (average2_none o) as H.
  destruct (average o), (average2 o).
  - split; discriminate.
  - destruct H as [H _]. specialize (H eq_refl). discriminate.
  - destruct H as [_ H]. specialize (H eq_refl). discriminate.
  - split; reflexivity.
Qed.

(* the reported average and variance vectors do not depend on insertion order *)
Lemma perm_average n k r k' r' l l' :
  Forall (item_shaped n) l -> Permutation l l' ->
  average (fill (new_obj k r) l) = average (fill (new_obj k' r') l') /\
  variance (fill (new_obj k r) l) = variance (fill (new_obj k' r') l').
Proof.
  intros Hs P.
  assert (I1 : inv n (fill (new_obj k r) l)) by (apply fill_inv; [apply inv_new|assumption]).
  assert (I2 : inv n (fill (new_obj k' r') l')).
  { apply fill_inv; [apply inv_new|]. eapply Forall_perm; eauto. }
  set (o1 := fill (new_obj k r) l) in *. set (o2 := fill (new_obj k' r') l') in *.
  assert (G : (g_rel o1 = [] /\ g_det o1 = []) <-> (g_rel o2 = [] /\ g_det o2 = [])).
  { destruct (fill_fields l (new_obj k r)) as (_ & B & _ & D & _).
    destruct (fill_fields l' (new_obj k' r')) as (_ & B' & _ & D' & _).
    fold o1 in B, D. fold o2 in B', D'. rewrite B, D, B', D'. simpl.
    pose proof (Permutation_length (filter_perm is_rel l l' P)) as L1.
    pose proof (Permutation_length (filter_perm (fun it => negb (is_rel it)) l l' P)) as L2.
    unfold rels, dets.
    split; intros [X Y]; apply (f_equal (@length traj)) in X; apply (f_equal (@length traj)) in Y;
      rewrite map_length in X, Y; simpl in X, Y; split; apply length_zero_iff_nil;
      rewrite map_length; lia. }
  assert (EA : average o1 = average o2).
  { apply (option_vec_ext n).
    - rewrite (average_none n o1 I1), (average_none n o2 I2). exact G.
    - intros x Hx. apply (average_spec n o1 x I1 Hx).
    - intros y Hy. apply (average_spec n o2 y I2 Hy).
    - intros x y j Hx Hy.
      rewrite (proj2 (average_spec n o1 x I1 Hx)), (proj2 (average_spec n o2 y I2 Hy)).
      apply meanf_fill_perm. assumption. }
  split; [assumption|].
  apply (option_vec_ext n).
  - rewrite !variance_none, EA. tauto.
  - intros x Hx. apply (variance_spec n o1 x I1 Hx).
  - intros y Hy. apply (variance_spec n o2 y I2 Hy).
  - intros x y j Hx Hy.
    rewrite (proj2 (variance_spec n o1 x I1 Hx)), (proj2 (variance_spec n o2 y I2 Hy)).
    unfold o1, o2.
    rewrite (meanf_fill_perm (x2at j) k r k' r' l l' P).
    rewrite (meanf_fill_perm (xat j) k r k' r' l l' P). reflexivity.
Qed.

(* ===================================================== operands of merge *)
(* merge never changes an existing result object (the `stats` dictionaries
   are a different matter, see stats_shared) *)
Lemma step_merge_objs W i j p idx x :
  nth_error (objs W) idx = Some x ->
  nth_error (objs (fst (step W (OMerge i j p)))) idx = Some x.
Proof.
  intros E. simpl.
  destruct (nth_error (objs W) i) as [a|]; simpl; [|assumption].
  destruct (nth_error (objs W) j) as [b|]; simpl; [|assumption].
  destruct (negb (opt_Z_eqb (times a) (times b))); simpl; [assumption|].
  destruct ((num a =? 0)%nat || (num b =? 0)%nat); simpl; [assumption|].
  apply nth_error_app_some. assumption.
Qed.

Lemma nth_error_upd_other h r f q : q <> r -> nth_error (upd_stat h r f) q = nth_error h q.
Proof.
  intros H. unfold upd_stat. destruct (nth_error h r); [|reflexivity].
  apply nth_error_set_nth_other. assumption.
Qed.

(* no operation ever writes into an existing stats dictionary: the heap only grows *)
Lemma step_heap_grows W o q s :
  nth_error (sheap W) q = Some s -> nth_error (sheap (fst (step W o))) q = Some s.
Proof.
  intros E. destruct o as [k rt|i t w|i t w|i j p|i|i]; simpl.
  - apply nth_error_app_some. assumption.
  - destruct (nth_error (objs W) i); simpl; assumption.
  - destruct (nth_error (objs W) i); simpl; assumption.
  - destruct (nth_error (objs W) i) as [a|]; simpl; [|assumption].
    destruct (nth_error (objs W) j) as [b|]; simpl; [|assumption].
    destruct (negb (opt_Z_eqb (times a) (times b))); simpl; [assumption|].
    destruct ((num a =? 0)%nat || (num b =? 0)%nat); simpl; [assumption|].
    apply nth_error_app_some. assumption.
  - destruct (nth_error (objs W) i) as [x|]; simpl; [|assumption].
    destruct (read_avg x) as [[x' a]|]; simpl; assumption.
  - destruct (nth_error (objs W) i) as [x|]; simpl; [|assumption].
    destruct (read_std x) as [[x' a]|]; simpl; assumption.
Qed.

(* outcome of merge, all branches; the merged object gets a new stats
   dictionary holding the summed run time *)
Lemma step_merge_outcome W i j p :
  match nth_error (objs W) i, nth_error (objs W) j with
  | Some a, Some b =>
      if negb (opt_Z_eqb (times a) (times b)) then step W (OMerge i j p) = (W, ErrValue)
      else if (num a =? 0)%nat || (num b =? 0)%nat then step W (OMerge i j p) = (W, ErrZeroDiv)
      else
        snd (step W (OMerge i j p)) = Ok /\
        objs (fst (step W (OMerge i j p))) = objs W ++ [merge_obj a b p (length (sheap W))] /\
        sheap (fst (step W (OMerge i j p))) =
          sheap W ++ [{| run_time := rt_of (sheap W) (stats_ref a) + rt_of (sheap W) (stats_ref b);
                         end_condition := EC_merged |}]
  | _, _ => step W (OMerge i j p) = (W, BadIndex)
  end.
Proof.
  simpl. destruct (nth_error (objs W) i) as [a|]; [|reflexivity].
  destruct (nth_error (objs W) j) as [b|]; [|reflexivity].
  destruct (negb (opt_Z_eqb (times a) (times b))); [reflexivity|].
  destruct ((num a =? 0)%nat || (num b =? 0)%nat); simpl; [reflexivity|].
  repeat split; reflexivity.
Qed.

(* ============================== the statistics are determined by the history *)
Lemma tsum_eq (s s' : tsum) :
  sum_expect s = sum_expect s' -> sum2_expect s = sum2_expect s' -> s = s'.
Proof. destruct s, s'; simpl; intros -> ->; reflexivity. Qed.

Lemma sum_ok_unique n s s' ws ts : sum_ok n s ws ts -> sum_ok n s' ws ts -> s = s'.
Proof.
  intros H H'. destruct s as [s|], s' as [s'|]; simpl in *.
  - destruct H as (_ & A & B & C & D). destruct H' as (_ & A' & B' & C' & D').
    f_equal. apply tsum_eq; apply vec_ext; try lia; intros k.
    + rewrite C, C'. reflexivity.
    + rewrite D, D'. reflexivity.
  - destruct H as [H _]. congruence.
  - destruct H' as [H' _]. congruence.
  - reflexivity.
Qed.

Lemma inv_determines n x y : inv n x -> inv n y ->
  w_rel x = w_rel y -> g_rel x = g_rel y -> w_det x = w_det y -> g_det x = g_det y ->
  num x = num y /\ seeds x = seeds y /\ collapse x = collapse y /\
  sum_rel x = sum_rel y /\ sum_det x = sum_det y /\
  runs_weights x = runs_weights y /\
  average x = average y /\ variance x = variance y.
Proof.
  intros Ix Iy Wr Gr Wd Gd.
  assert (N : num x = num y).
  { rewrite <- (i_len_grel n x Ix), <- (i_len_grel n y Iy), Gr. reflexivity. }
  assert (Sr : sum_rel x = sum_rel y).
  { apply (sum_ok_unique n _ _ (w_rel x) (g_rel x)); [apply (i_sum_rel n x Ix)|].
    rewrite Wr, Gr. apply (i_sum_rel n y Iy). }
  assert (Sd : sum_det x = sum_det y).
  { apply (sum_ok_unique n _ _ (w_det x) (g_det x)); [apply (i_sum_det n x Ix)|].
    rewrite Wd, Gd. apply (i_sum_det n y Iy). }
  assert (A : average x = average y) by (unfold average; rewrite Sr, Sd, N; reflexivity).
  assert (A2 : average2 x = average2 y) by (unfold average2; rewrite Sr, Sd, N; reflexivity).
  repeat split; auto.
  - rewrite (i_seeds n x Ix), (i_seeds n y Iy), Gr. reflexivity.
  - rewrite (i_coll n x Ix), (i_coll n y Iy), Gr. reflexivity.
  - unfold runs_weights. rewrite Wr, N. reflexivity.
  - unfold variance. rewrite A, A2. reflexivity.
Qed.

(* ---------------------------------- merge = adding everything, rescaled *)
Definition items_of (wd : list Qc) (td : list traj) (wr : list Qc) (tr : list traj) : list item :=
  map2 (fun w t => IDet t w) wd td ++ map2 (fun w t => IRel t (Some w)) wr tr.

Lemma map2_fields_rel (wr : list Qc) (tr : list traj) : length wr = length tr ->
  let l := map2 (fun w t => IRel t (Some w)) wr tr in
  rels l = l /\ dets l = [] /\ map iw l = wr /\ map itr l = tr.
Proof.
  revert tr. induction wr as [|w wr IH]; intros [|t tr] H; simpl in *; try lia; auto.
  destruct (IH tr) as (A & B & C & D); [lia|]. unfold rels, dets in *. simpl.
  rewrite A, B, C, D. auto.
Qed.

Lemma map2_fields_det (wd : list Qc) (td : list traj) : length wd = length td ->
  let l := map2 (fun w t => IDet t w) wd td in
  rels l = [] /\ dets l = l /\ map iw l = wd /\ map itr l = td.
Proof.
  revert td. induction wd as [|w wd IH]; intros [|t td] H; simpl in *; try lia; auto.
  destruct (IH td) as (A & B & C & D); [lia|]. unfold rels, dets in *. simpl.
  rewrite A, B, C, D. auto.
Qed.

Lemma map2_shaped_rel n (wr : list Qc) tr : Forall (shaped n) tr ->
  Forall (item_shaped n) (map2 (fun w t => IRel t (Some w)) wr tr).
Proof.
  intros H. revert wr. induction H as [|t tr Ht Htr IH]; intros [|w wr]; simpl; constructor; auto.
Qed.
Lemma map2_shaped_det n (wd : list Qc) td : Forall (shaped n) td ->
  Forall (item_shaped n) (map2 (fun w t => IDet t w) wd td).
Proof.
  intros H. revert wd. induction H as [|t td Ht Htd IH]; intros [|w wd]; simpl; constructor; auto.
Qed.

Lemma filter_app_rels l m : rels (l ++ m) = rels l ++ rels m.
Proof. apply filter_app. Qed.
Lemma filter_app_dets l m : dets (l ++ m) = dets l ++ dets m.
Proof. apply filter_app. Qed.

Lemma refill_same n k r m : inv n m ->
  let c := fill (new_obj k r) (items_of (w_det m) (g_det m) (w_rel m) (g_rel m)) in
  inv n c /\ w_rel c = w_rel m /\ g_rel c = g_rel m /\ w_det c = w_det m /\ g_det c = g_det m.
Proof.
  intros I c.
  assert (Lr : length (w_rel m) = length (g_rel m)).
  { rewrite (i_len_rel n m I), (i_len_grel n m I). reflexivity. }
  pose proof (i_len_det n m I) as Ld.
  destruct (map2_fields_rel _ _ Lr) as (R1 & R2 & R3 & R4).
  destruct (map2_fields_det _ _ Ld) as (D1 & D2 & D3 & D4).
  destruct (fill_fields (items_of (w_det m) (g_det m) (w_rel m) (g_rel m)) (new_obj k r))
    as (A & B & C & D & E).
  fold c in A, B, C, D, E. unfold items_of in *.
  rewrite filter_app_rels, R1, D1 in A, B. rewrite filter_app_dets, R2, D2 in C, D.
  simpl in A, B, C, D. rewrite app_nil_r in C, D.
  rewrite R3 in A. rewrite R4 in B. rewrite D3 in C. rewrite D4 in D.
  split; [|auto].
  apply fill_inv; [apply inv_new|]. apply Forall_app. split.
  - apply map2_shaped_det. apply (i_shape_det n m I).
  - apply map2_shaped_rel. apply (i_shape_rel n m I).
Qed.

(* merge a b p is, for every reported quantity, the object obtained by adding
   all deterministic trajectories of a and b with weights w*p and w*(1-p) and
   all sampled trajectories with weights w*p/p_equal and w*(1-p)/(1-p_equal)
   to one fresh object *)
Lemma merge_is_adding_all n k r a b p sr : inv n a -> inv n b ->
  let m := merge_obj a b p sr in
  let pe := QcN (num a) / QcN (num a + num b) in
  let pp := p_used a b p in
  let c := fill (new_obj k r)
             (items_of (map (fun w => w * pp) (w_det a) ++ map (fun w => w * (1 - pp)) (w_det b))
                       (g_det a ++ g_det b)
                       (map (fun w => w * pp / pe) (w_rel a) ++ map (fun w => w * (1 - pp) / (1 - pe)) (w_rel b))
                       (g_rel a ++ g_rel b)) in
  num c = num m /\ seeds c = seeds m /\ collapse c = collapse m /\
  w_rel c = w_rel m /\ w_det c = w_det m /\
  sum_rel c = sum_rel m /\ sum_det c = sum_det m /\
  runs_weights c = runs_weights m /\ average c = average m /\ variance c = variance m.
Proof.
  intros Ia Ib m pe pp c.
  pose proof (inv_merge n a b p sr Ia Ib) as Im. fold m in Im.
  destruct (refill_same n k r m Im) as (Ic & A & B & C & D).
  change (fill (new_obj k r) (items_of (w_det m) (g_det m) (w_rel m) (g_rel m))) with c in Ic, A, B, C, D.
  destruct (inv_determines n c m Ic Im A B C D) as (H1 & H2 & H3 & H4 & H5 & H6 & H7 & H8).
  repeat split; assumption.
Qed.

(* ------------------------------------------------------- associativity of + *)
Lemma map_scale_id (c : Qc) l : c <> 0 -> map (fun w => w * c / c) l = l.
Proof.
  intros H. rewrite <- (map_id l) at 2. apply map_ext. intros w. field. assumption.
Qed.

Lemma pe_nonzero A B : A <> 0 -> A + B <> 0 -> A / (A + B) <> 0.
Proof.
  intros HA HAB H. apply HA.
  replace A with ((A + B) * (A / (A + B))) by (field; assumption). rewrite H. ring.
Qed.

Lemma one_minus_pe A B : A + B <> 0 -> 1 - A / (A + B) = B / (A + B).
Proof. intros H. field. assumption. Qed.

Lemma merge_default_w_rel a b r : (0 < num a)%nat -> (0 < num b)%nat ->
  w_rel (merge_obj a b None r) = w_rel a ++ w_rel b.
Proof.
  intros Ha Hb. simpl. rewrite QcN_add.
  pose proof (QcN_nonzero _ Ha) as NA. pose proof (QcN_nonzero _ Hb) as NB.
  assert (NAB : QcN (num a) + QcN (num b) <> 0) by (rewrite <- QcN_add; apply QcN_nonzero; lia).
  rewrite map_scale_id by (apply pe_nonzero; assumption).
  rewrite map_scale_id; [reflexivity|].
  rewrite one_minus_pe by assumption. rewrite Qcplus_comm. apply pe_nonzero; [assumption|].
  rewrite Qcplus_comm. assumption.
Qed.

Lemma merge_default_w_det a b r :
  w_det (merge_obj a b None r) =
  map (fun w => w * (QcN (num a) / QcN (num a + num b))) (w_det a)
  ++ map (fun w => w * (1 - QcN (num a) / QcN (num a + num b))) (w_det b).
Proof. reflexivity. Qed.

Lemma plus_assoc_weights a b c r1 r2 r3 r4 :
  (0 < num a)%nat -> (0 < num b)%nat -> (0 < num c)%nat ->
  let l := merge_obj (merge_obj a b None r1) c None r2 in
  let r := merge_obj a (merge_obj b c None r3) None r4 in
  w_rel l = w_rel r /\ w_det l = w_det r /\ g_rel l = g_rel r /\ g_det l = g_det r.
Proof.
  intros Ha Hb Hc l r.
  assert (Hab : (0 < num (merge_obj a b None r1))%nat) by (simpl; lia).
  assert (Hbc : (0 < num (merge_obj b c None r3))%nat) by (simpl; lia).
  split; [|split; [|split]].
  - unfold l, r. rewrite !merge_default_w_rel by assumption. rewrite app_assoc. reflexivity.
  - unfold l, r. rewrite (merge_default_w_det (merge_obj a b None r1) c).
    rewrite (merge_default_w_det a (merge_obj b c None r3)).
    rewrite !merge_default_w_det. rewrite !map_app, !map_map.
    change (num (merge_obj a b None r1)) with (num a + num b)%nat.
    change (num (merge_obj b c None r3)) with (num b + num c)%nat.
    rewrite !QcN_add.
    pose proof (QcN_nonzero _ Ha) as NA. pose proof (QcN_nonzero _ Hb) as NB.
    pose proof (QcN_nonzero _ Hc) as NC.
    assert (NAB : QcN (num a) + QcN (num b) <> 0) by (rewrite <- QcN_add; apply QcN_nonzero; lia).
    assert (NBC : QcN (num b) + QcN (num c) <> 0) by (rewrite <- QcN_add; apply QcN_nonzero; lia).
    assert (NABC : QcN (num a) + QcN (num b) + QcN (num c) <> 0)
      by (rewrite <- !QcN_add; apply QcN_nonzero; lia).
    assert (NABC' : QcN (num a) + (QcN (num b) + QcN (num c)) <> 0)
      by (rewrite <- !QcN_add; apply QcN_nonzero; lia).
    set (A := QcN (num a)) in *. set (B := QcN (num b)) in *. set (C := QcN (num c)) in *.
    rewrite <- app_assoc. f_equal; [|f_equal]; apply map_ext; intros w; field; repeat split; assumption.
  - simpl. rewrite app_assoc. reflexivity.
  - simpl. rewrite app_assoc. reflexivity.
Qed.

Lemma plus_assoc n a b c r1 r2 r3 r4 : inv n a -> inv n b -> inv n c ->
  (0 < num a)%nat -> (0 < num b)%nat -> (0 < num c)%nat ->
  let l := merge_obj (merge_obj a b None r1) c None r2 in
  let r := merge_obj a (merge_obj b c None r3) None r4 in
  num l = num r /\ seeds l = seeds r /\ collapse l = collapse r /\
  w_rel l = w_rel r /\ w_det l = w_det r /\
  sum_rel l = sum_rel r /\ sum_det l = sum_det r /\
  runs_weights l = runs_weights r /\ average l = average r /\ variance l = variance r.
Proof.
  intros Ia Ib Ic Ha Hb Hc l r.
  destruct (plus_assoc_weights a b c r1 r2 r3 r4 Ha Hb Hc) as (W1 & W2 & G1 & G2).
  fold l r in W1, W2, G1, G2.
  assert (Il : inv n l) by (apply inv_merge; [apply inv_merge|]; assumption).
  assert (Ir : inv n r) by (apply inv_merge; [|apply inv_merge]; assumption).
  destruct (inv_determines n l r Il Ir W1 G1 W2 G2) as (H1 & H2 & H3 & H4 & H5 & H6 & H7 & H8).
  repeat split; assumption.
Qed.

(* ================================== alignment of the per-trajectory data *)
(* kept trajectories, runs_e_data and the deterministic trajectories are
   exactly the trajectories of the ensemble, in order; the processors match
   the options *)
Definition aligned (o : mtr) : Prop :=
  proc_store o = keep o /\ det_trajs o = g_det o /\
  if keep o then trajs o = g_rel o /\ runs_e o = Some (map t_expect (g_rel o))
  else trajs o = [] /\ runs_e o = None.

Lemma aligned_new k r : aligned (new_obj k r).
Proof. unfold aligned. destruct k; simpl; auto. Qed.

Lemma aligned_add o t w : aligned o -> aligned (add o t w).
Proof.
  unfold aligned. intros (A & B & C). simpl. rewrite A.
  split; [reflexivity|split; [assumption|]].
  destruct (keep o).
  - destruct C as (C1 & C2). rewrite C1, C2, map_app. auto.
  - destruct C as (C1 & C2). rewrite C2. auto.
Qed.

Lemma aligned_add_det o t w : aligned o -> aligned (add_det o t w).
Proof.
  unfold aligned. intros (A & B & C). simpl. rewrite B. auto.
Qed.

Lemma aligned_caches o a v : aligned o -> aligned (with_caches o a v).
Proof. unfold aligned. simpl. auto. Qed.

Lemma aligned_read_avg o o' a : aligned o -> read_avg o = Some (o', a) -> aligned o'.
Proof.
  intros H R. unfold read_avg in R. destruct (avg_cache o).
  - injection R as <- _. assumption.
  - destruct (create_e_data o) as [o1|] eqn:E; [|discriminate].
    destruct (create_shape o o1 E) as (a0 & v0 & ->).
    destruct (avg_cache (with_caches o a0 v0)); [|discriminate].
    injection R as <- _. apply aligned_caches. assumption.
Qed.

Lemma aligned_read_std o o' a : aligned o -> read_std o = Some (o', a) -> aligned o'.
Proof.
  intros H R. unfold read_std in R. destruct (std_cache o).
  - injection R as <- _. assumption.
  - destruct (create_e_data o) as [o1|] eqn:E; [|discriminate].
    destruct (create_shape o o1 E) as (a0 & v0 & ->).
    destruct (std_cache (with_caches o a0 v0)); [|discriminate].
    injection R as <- _. apply aligned_caches. assumption.
Qed.

Lemma kept_nonempty n o : inv n o -> aligned o -> (0 < num o)%nat -> keep o = true ->
  is_nil (trajs o) = false.
Proof.
  intros I (A & B & C) Hn K. rewrite K in C. destruct C as [C _]. rewrite C.
  pose proof (i_len_grel n o I). destruct (g_rel o); simpl in *; [lia|reflexivity].
Qed.

Lemma aligned_merge n a b p r : inv n a -> inv n b -> (0 < num a)%nat -> (0 < num b)%nat ->
  aligned a -> aligned b -> aligned (merge_obj a b p r).
Proof.
  intros Ia Ib Ha Hb Aa Ab.
  pose proof Aa as (A1 & A2 & A3). pose proof Ab as (B1 & B2 & B3).
  unfold aligned. simpl. split; [reflexivity|]. split; [rewrite A2, B2; reflexivity|].
  destruct (keep a) eqn:Ka, (keep b) eqn:Kb.
  - rewrite (kept_nonempty n a Ia Aa Ha Ka), (kept_nonempty n b Ib Ab Hb Kb). simpl.
    destruct A3 as (T1 & R1). destruct B3 as (T2 & R2).
    rewrite R1, R2, T1, T2, map_app. auto.
  - destruct B3 as (T2 & R2). rewrite T2, R2. simpl. rewrite andb_false_r.
    destruct (runs_e a); auto.
  - destruct A3 as (T1 & R1). rewrite T1, R1. simpl. auto.
  - destruct A3 as (T1 & R1). rewrite T1, R1. simpl. auto.
Qed.

Lemma step_aligned n W o : winv n W -> Forall aligned (objs W) ->
  Forall aligned (objs (fst (step W o))).
Proof.
  intros HW HA. destruct o as [k' rt|i t w|i t w|i j p|i|i]; simpl in *.
  - apply Forall_app; split; [assumption|]. constructor; [apply aligned_new|constructor].
  - destruct (nth_error (objs W) i) as [x|] eqn:E; simpl; [|assumption].
    apply Forall_set_nth; [assumption|]. apply aligned_add. eapply Forall_nth_error; eauto.
  - destruct (nth_error (objs W) i) as [x|] eqn:E; simpl; [|assumption].
    apply Forall_set_nth; [assumption|]. apply aligned_add_det. eapply Forall_nth_error; eauto.
  - destruct (nth_error (objs W) i) as [a|] eqn:Ea; simpl; [|assumption].
    destruct (nth_error (objs W) j) as [b|] eqn:Eb; simpl; [|assumption].
    destruct (negb (opt_Z_eqb (times a) (times b))); simpl; [assumption|].
    destruct ((num a =? 0)%nat || (num b =? 0)%nat) eqn:Z; simpl; [assumption|].
    apply orb_false_iff in Z. destruct Z as [Za Zb].
    apply Nat.eqb_neq in Za. apply Nat.eqb_neq in Zb.
    apply Forall_app; split; [assumption|]. constructor; [|constructor].
    apply (aligned_merge n); try lia; eapply Forall_nth_error; eauto.
  - destruct (nth_error (objs W) i) as [x|] eqn:E; simpl; [|assumption].
    destruct (read_avg x) as [[x' a]|] eqn:R; simpl; [|assumption].
    apply Forall_set_nth; [assumption|]. eapply aligned_read_avg; eauto.
    eapply Forall_nth_error; eauto.
  - destruct (nth_error (objs W) i) as [x|] eqn:E; simpl; [|assumption].
    destruct (read_std x) as [[x' a]|] eqn:R; simpl; [|assumption].
    apply Forall_set_nth; [assumption|]. eapply aligned_read_std; eauto.
    eapply Forall_nth_error; eauto.
Qed.

Lemma run_aligned n ops : forall W, winv n W -> Forall aligned (objs W) ->
  Forall (op_shaped n) ops -> Forall aligned (objs (run W ops)).
Proof.
  induction ops as [|o ops IH]; intros W HW HA Hs; simpl; [assumption|].
  inversion Hs; subst.
  apply IH; auto; [apply step_inv|eapply step_aligned]; eauto.
Qed.

(* the stats dictionaries of a world never change once created *)
Lemma run_heap_grows ops : forall W q s,
  nth_error (sheap W) q = Some s -> nth_error (sheap (run W ops)) q = Some s.
Proof.
  induction ops as [|o ops IH]; intros W q s E; simpl; [assumption|].
  apply IH. apply step_heap_grows. assumption.
Qed.

(* ======================= commutativity, associativity for any mixing weight *)
(* two objects with the same weighted means of every statistic report the same
   average and spread vectors *)
Lemma means_determine n x y : inv n x -> inv n y ->
  (forall f, meanf f x = meanf f y) ->
  ((g_rel x = [] /\ g_det x = []) <-> (g_rel y = [] /\ g_det y = [])) ->
  average x = average y /\ variance x = variance y.
Proof.
  intros Ix Iy M G.
  assert (EA : average x = average y).
  { apply (option_vec_ext n).
    - rewrite (average_none n x Ix), (average_none n y Iy). exact G.
    - intros a Ha. apply (average_spec n x a Ix Ha).
    - intros a Ha. apply (average_spec n y a Iy Ha).
    - intros a b k Ha Hb.
      rewrite (proj2 (average_spec n x a Ix Ha)), (proj2 (average_spec n y b Iy Hb)). apply M. }
  split; [assumption|].
  apply (option_vec_ext n).
  - rewrite !variance_none, EA. tauto.
  - intros a Ha. apply (variance_spec n x a Ix Ha).
  - intros a Ha. apply (variance_spec n y a Iy Ha).
  - intros a b k Ha Hb.
    rewrite (proj2 (variance_spec n x a Ix Ha)), (proj2 (variance_spec n y b Iy Hb)).
    rewrite (M (x2at k)), (M (xat k)). reflexivity.
Qed.

Lemma app_nil_iff {A} (l m : list A) : l ++ m = [] <-> l = [] /\ m = [].
Proof. split; [apply app_eq_nil|intros [-> ->]; reflexivity]. Qed.

(* merge a b p represents the same ensemble as merge b a (1 - p) *)
Lemma merge_comm_mean f n a b p r r' : inv n a -> inv n b -> (0 < num a)%nat -> (0 < num b)%nat ->
  meanf f (merge_obj a b p r) = meanf f (merge_obj b a (Some (1 - p_used a b p)) r').
Proof.
  intros Ia Ib Ha Hb. rewrite (merge_meanf f n a b p r Ia Ib Ha Hb).
  rewrite (merge_meanf f n b a (Some (1 - p_used a b p)) r' Ib Ia Hb Ha). simpl. ring.
Qed.

Lemma p_default_comm a b : (0 < num a)%nat -> (0 < num b)%nat ->
  p_used b a None = 1 - p_used a b None.
Proof.
  intros Ha Hb. simpl. rewrite (Nat.add_comm (num b) (num a)), QcN_add.
  pose proof (QcN_nonzero _ Ha). pose proof (QcN_nonzero _ Hb).
  assert (QcN (num a) + QcN (num b) <> 0) by (rewrite <- QcN_add; apply QcN_nonzero; lia).
  field. assumption.
Qed.

Lemma plus_comm_mean f n a b r r' : inv n a -> inv n b -> (0 < num a)%nat -> (0 < num b)%nat ->
  meanf f (merge_obj a b None r) = meanf f (merge_obj b a None r').
Proof.
  intros Ia Ib Ha Hb. rewrite (merge_meanf f n a b None r Ia Ib Ha Hb).
  rewrite (merge_meanf f n b a None r' Ib Ia Hb Ha). rewrite (p_default_comm a b Ha Hb). ring.
Qed.

Lemma merge_comm n a b p r r' : inv n a -> inv n b -> (0 < num a)%nat -> (0 < num b)%nat ->
  let l := merge_obj a b p r in
  let m := merge_obj b a (match p with Some q => Some (1 - q) | None => None end) r' in
  (forall f, meanf f l = meanf f m) /\ num l = num m /\ average l = average m /\ variance l = variance m.
Proof.
  intros Ia Ib Ha Hb l m.
  assert (M : forall f, meanf f l = meanf f m).
  { intros f. unfold l, m. destruct p as [q|].
    - apply (merge_comm_mean f n a b (Some q) r r'); assumption.
    - apply (plus_comm_mean f n); assumption. }
  split; [assumption|]. split; [simpl; lia|].
  apply (means_determine n); auto.
  - apply inv_merge; assumption.
  - apply inv_merge; assumption.
  - unfold l, m. simpl. rewrite !app_nil_iff. tauto.
Qed.

(* (a (+)_p b) (+)_q c  =  a (+)_{pq} (b (+)_{q(1-p)/(1-pq)} c) *)
Lemma merge_assoc_any n a b c p q r1 r2 r3 r4 : inv n a -> inv n b -> inv n c ->
  (0 < num a)%nat -> (0 < num b)%nat -> (0 < num c)%nat -> p * q <> 1 ->
  let l := merge_obj (merge_obj a b (Some p) r1) c (Some q) r2 in
  let m := merge_obj a (merge_obj b c (Some (q * (1 - p) / (1 - p * q))) r3) (Some (p * q)) r4 in
  (forall f, meanf f l = meanf f m) /\ num l = num m /\ seeds l = seeds m /\
  average l = average m /\ variance l = variance m.
Proof.
  intros Ia Ib Ic Ha Hb Hc Hpq l m.
  assert (Hab : (0 < num (merge_obj a b (Some p) r1))%nat) by (simpl; lia).
  assert (Hbc : (0 < num (merge_obj b c (Some (q * (1 - p) / (1 - p * q))%Qc) r3))%nat) by (simpl; lia).
  assert (Iab : inv n (merge_obj a b (Some p) r1)) by (apply inv_merge; assumption).
  assert (Ibc : inv n (merge_obj b c (Some (q * (1 - p) / (1 - p * q))) r3)) by (apply inv_merge; assumption).
  assert (N1 : 1 - p * q <> 0) by (intros H; apply Hpq; rewrite <- (Qcplus_0_r (p * q)), <- H; ring).
  assert (M : forall f, meanf f l = meanf f m).
  { intros f. unfold l, m.
    rewrite (merge_meanf f n _ c (Some q) r2 Iab Ic Hab Hc).
    rewrite (merge_meanf f n a b (Some p) r1 Ia Ib Ha Hb).
    rewrite (merge_meanf f n a _ (Some (p * q)) r4 Ia Ibc Ha Hbc).
    rewrite (merge_meanf f n b c _ r3 Ib Ic Hb Hc). simpl. field. assumption. }
  split; [assumption|]. split; [simpl; lia|]. split; [simpl; rewrite app_assoc; reflexivity|].
  apply (means_determine n); auto.
  - apply inv_merge; assumption.
  - apply inv_merge; assumption.
  - unfold l, m. simpl. rewrite !app_nil_iff. tauto.
Qed.
