(* C10 - fsesolve: initial-time bookkeeping. *)
From Coq Require Import List ZArith Lia.
Import ListNotations.
From QV Require Import Model.C10_floquet.

Section FSE.
Variables S F T : Type.
Variable to_fb : S -> T -> F.
Variable from_fb : F -> T -> S.
(* the only property of the Floquet basis that is needed: going to the
   basis and back at the same time is the identity *)
Hypothesis roundtrip : forall psi t, from_fb (to_fb psi t) t = psi.

Lemma fsesolve_initial psi0 t0 r :
  exists states, fsesolve S F T to_fb from_fb psi0 (t0 :: r) = Some states /\
                 hd_error states = Some psi0 /\ length states = length (t0 :: r).
Proof.
  eexists. split; [reflexivity|]. split.
  - simpl. now rewrite roundtrip.
  - now rewrite map_length.
Qed.

Lemma fsesolve_empty psi0 : fsesolve S F T to_fb from_fb psi0 [] = None.
Proof. reflexivity. Qed.

(* every returned state is the initial state carried from tlist[0] to t *)
Lemma fsesolve_states psi0 t0 r states k t :
  fsesolve S F T to_fb from_fb psi0 (t0 :: r) = Some states ->
  nth_error (t0 :: r) k = Some t ->
  nth_error states k = Some (from_fb (to_fb psi0 t0) t).
Proof.
  unfold fsesolve. intros H Ht. injection H as H. subst states.
  change (nth_error (map (from_fb (to_fb psi0 t0)) (t0 :: r)) k
          = Some (from_fb (to_fb psi0 t0) t)).
  apply map_nth_error. exact Ht.
Qed.

(* the rule before the repair gave the same answers for lists starting at
   the default time *)
Lemma old_fsesolve_same_when_zero tzero psi0 r :
  fsesolve S F T to_fb from_fb psi0 (tzero :: r)
  = Some (old_fsesolve S F T to_fb from_fb tzero psi0 (tzero :: r)).
Proof. reflexivity. Qed.
End FSE.

Lemma toy_roundtrip : forall psi t, toy_from (toy_to psi t) t = psi.
Proof. intros. unfold toy_from, toy_to. lia. Qed.
