(* C10 - fsesolve: initial-time bookkeeping. *)
From Coq Require Import List ZArith Lia.
Import ListNotations.
From QV Require Import Model.C10_floquet.

Section FSE.
Variables S F T : Type.
Variable tzero : T.
Variable to_fb : S -> T -> F.
Variable from_fb : F -> T -> S.
(* the only property of the Floquet basis that is needed: going to the
   basis and back at the same time is the identity *)
Hypothesis roundtrip : forall psi t, from_fb (to_fb psi t) t = psi.

Lemma fsesolve_t0_zero psi0 r :
  hd_error (fsesolve S F T tzero to_fb from_fb psi0 (tzero :: r)) = Some psi0.
Proof. unfold fsesolve. simpl. now rewrite roundtrip. Qed.

Lemma fsesolve_at_t0_initial psi0 t0 r :
  hd_error (fsesolve_at_t0 S F T to_fb from_fb psi0 (t0 :: r)) = Some psi0.
Proof. unfold fsesolve_at_t0. simpl. now rewrite roundtrip. Qed.

Lemma fsesolve_at_t0_same_when_zero psi0 r :
  fsesolve_at_t0 S F T to_fb from_fb psi0 (tzero :: r)
  = fsesolve S F T tzero to_fb from_fb psi0 (tzero :: r).
Proof. reflexivity. Qed.

Lemma fsesolve_length psi0 ts :
  length (fsesolve S F T tzero to_fb from_fb psi0 ts) = length ts.
Proof. unfold fsesolve. now rewrite map_length. Qed.
End FSE.

Lemma toy_roundtrip : forall psi t, toy_from (toy_to psi t) t = psi.
Proof. intros. unfold toy_from, toy_to. lia. Qed.

Lemma fsesolve_initial_refuted :
  exists (to_fb : Z -> Z -> Z) (from_fb : Z -> Z -> Z),
    (forall psi t, from_fb (to_fb psi t) t = psi) /\
    exists psi0 t0 r,
      hd_error (fsesolve Z Z Z 0%Z to_fb from_fb psi0 (t0 :: r)) <> Some psi0.
Proof.
  exists toy_to, toy_from. split; [exact toy_roundtrip|].
  exists 7%Z, 5%Z, [6%Z]. vm_compute. discriminate.
Qed.
