(* C17 - proofs about the noise bookkeeping model (Model/C17.v). *)
From Coq Require Import List ZArith Bool Arith Lia QArith Field.
Import ListNotations.
From QV Require Import Model.C17.
Close Scope Q_scope.
Open Scope nat_scope.

(* ------------------------------------------------------------------ lists *)
Lemma firstn_seq' : forall N s L, N <= L -> firstn N (seq s L) = seq s N.
Proof.
  induction N as [|N IH]; intros s L H; [reflexivity|].
  destruct L as [|L]; [lia|]. simpl. f_equal. apply IH. lia.
Qed.

Lemma skipn_seq' : forall a s L, a <= L -> skipn a (seq s L) = seq (s + a) (L - a).
Proof.
  induction a as [|a IH]; intros s L H.
  - simpl. now rewrite Nat.add_0_r, Nat.sub_0_r.
  - destruct L as [|L]; [lia|]. simpl. rewrite IH by lia. f_equal. lia.
Qed.

Lemma slice_map_seq : forall {B} (f : nat -> B) L a N,
  a + N <= L -> slice (map f (seq 0 L)) a (a + N) = map f (seq a N).
Proof.
  intros B f L a N H. unfold slice.
  replace (a + N - a) with N by lia.
  rewrite skipn_map, firstn_map, skipn_seq' by lia.
  rewrite firstn_seq' by lia. reflexivity.
Qed.

Lemma map_nth_seq : forall {B} (d : B) (l : list B),
  map (fun j => nth j l d) (seq 0 (length l)) = l.
Proof.
  intros B d l. induction l as [|x l IH]; [reflexivity|].
  simpl. f_equal. rewrite <- seq_shift, map_map. exact IH.
Qed.

(* ------------------------------------------------------- Wiener invariant *)
Definition gen_noise (g : nat -> Z) (rows ops n : nat) : list slab :=
  map (slab_of g rows ops) (seq 0 n).

(* the stored array is the prefix of the generator's stream, whatever the
   history of queries was *)
Definition Inv (g : nat -> Z) (rows ops : nat) (w : wiener) : Prop :=
  w_rows w = rows /\ w_ops w = ops /\
  w_noise w = gen_noise g rows ops (length (w_noise w)).

Lemma gen_noise_length : forall g rows ops n, length (gen_noise g rows ops n) = n.
Proof. intros. unfold gen_noise. now rewrite map_length, seq_length. Qed.

Lemma Inv_init : forall g rows ops, Inv g rows ops (w_init rows ops).
Proof. intros. repeat split. Qed.

Lemma extend_Inv : forall g rows ops w idx,
  Inv g rows ops w -> length (w_noise w) <= idx ->
  Inv g rows ops (w_extend g w idx) /\ length (w_noise (w_extend g w idx)) = idx.
Proof.
  intros g rows ops w idx (Hr & Ho & Hn) Hle.
  assert (Hlen : length (w_noise (w_extend g w idx)) = idx).
  { unfold w_extend; simpl. rewrite app_length, map_length, seq_length. lia. }
  split; [|exact Hlen].
  split; [exact Hr|split; [exact Ho|]].
  rewrite Hlen. unfold w_extend; simpl. rewrite Hr, Ho.
  rewrite Hn at 1. unfold gen_noise.
  rewrite <- map_app. f_equal.
  replace idx with (length (w_noise w) + (idx - length (w_noise w))) at 2 by lia.
  rewrite seq_app. reflexivity.
Qed.

Lemma w_dW_spec : forall g rows ops w idx0 N,
  Inv g rows ops w ->
  Inv g rows ops (fst (w_dW g w idx0 N)) /\
  idx0 + N <= length (w_noise (fst (w_dW g w idx0 N))) /\
  length (w_noise w) <= length (w_noise (fst (w_dW g w idx0 N))) /\
  snd (w_dW g w idx0 N) = map (slab_of g rows ops) (seq idx0 N).
Proof.
  intros g rows ops w idx0 N HI. unfold w_dW.
  destruct (length (w_noise w) + 1 <=? idx0 + N) eqn:E; cbn [fst snd].
  - apply Nat.leb_le in E.
    destruct (extend_Inv g rows ops w (idx0 + N) HI) as [HI' Hlen]; [lia|].
    split; [exact HI'|]. split; [lia|]. split; [lia|].
    destruct HI' as (_ & _ & Hn). rewrite Hn, Hlen. unfold gen_noise.
    apply slice_map_seq. lia.
  - apply Nat.leb_gt in E.
    split; [exact HI|]. split; [lia|]. split; [lia|].
    destruct HI as (_ & _ & Hn). rewrite Hn. unfold gen_noise.
    apply slice_map_seq. lia.
Qed.

Lemma call_core_noise : forall w idx,
  w_noise (fst (call_core w idx)) = w_noise w /\
  w_rows (fst (call_core w idx)) = w_rows w /\ w_ops (fst (call_core w idx)) = w_ops w.
Proof.
  intros w idx. unfold call_core.
  destruct (idx <? w_idx w); simpl; auto.
Qed.

Lemma w_call_Inv : forall g rows ops w idx,
  Inv g rows ops w ->
  Inv g rows ops (fst (w_call g w idx)) /\
  length (w_noise w) <= length (w_noise (fst (w_call g w idx))).
Proof.
  intros g rows ops w idx HI. unfold w_call.
  destruct (length (w_noise w) + 1 <=? idx) eqn:E.
  - apply Nat.leb_le in E.
    destruct (extend_Inv g rows ops w idx HI) as [HI' Hlen]; [lia|].
    destruct (call_core_noise (w_extend g w idx) idx) as (A & B & C).
    split.
    + destruct HI' as (Hr & Ho & Hn). unfold Inv. rewrite A, B, C. auto.
    + rewrite A. lia.
  - destruct (call_core_noise w idx) as (A & B & C).
    split.
    + destruct HI as (Hr & Ho & Hn). unfold Inv. rewrite A, B, C. auto.
    + rewrite A. lia.
Qed.

Lemma w_query_Inv : forall g rows ops w q,
  Inv g rows ops w -> Inv g rows ops (fst (w_query g w q)).
Proof.
  intros g rows ops w q HI. destruct q as [m den N|m den]; unfold w_query.
  - pose proof (w_dW_spec g rows ops w (pyround m den) N HI) as (A & _).
    destruct (w_dW g w (pyround m den) N). exact A.
  - pose proof (w_call_Inv g rows ops w (pyround m den) HI) as (A & _).
    destruct (w_call g w (pyround m den)). exact A.
Qed.

Lemma w_run_Inv : forall g rows ops qs w,
  Inv g rows ops w -> Inv g rows ops (fst (w_run g w qs)).
Proof.
  intros g rows ops qs. induction qs as [|q qs IH]; intros w HI; [exact HI|].
  simpl. pose proof (w_query_Inv g rows ops w q HI) as H1.
  destruct (w_query g w q) as [w1 a]. simpl in H1.
  specialize (IH w1 H1). destruct (w_run g w1 qs) as [w2 as_]. exact IH.
Qed.

(* increments returned after any history = the generator's stream segment *)
Lemma dW_after_history : forall g rows ops qs idx0 N,
  snd (w_dW g (fst (w_run g (w_init rows ops) qs)) idx0 N)
  = map (slab_of g rows ops) (seq idx0 N).
Proof.
  intros. apply w_dW_spec. apply w_run_Inv. apply Inv_init.
Qed.

(* integrator run: positions advance by N; reports sums of stream segments *)
Fixpoint int_expected (g : nat -> Z) (rows ops pos : nat) (steps : list nat) : list vec :=
  match steps with
  | [] => []
  | N :: r => vsum ops (map row0 (map (slab_of g rows ops) (seq pos N)))
              :: int_expected g rows ops (pos + N) r
  end.

Lemma int_run_spec : forall g rows ops steps w pos,
  Inv g rows ops w ->
  snd (int_run g w pos steps) = int_expected g rows ops pos steps.
Proof.
  intros g rows ops steps. induction steps as [|N r IH]; intros w pos HI; [reflexivity|].
  cbn [int_run int_expected].
  pose proof (w_dW_spec g rows ops w pos N HI) as (A & _ & _ & D).
  destruct (w_dW g w pos N) as [w1 dw]. cbn [fst snd] in A, D.
  specialize (IH w1 (pos + N) A).
  destruct (int_run g w1 (pos + N) r) as [w2 out]. cbn [snd] in *.
  destruct HI as (_ & Ho & _). rewrite Ho, D, IH. reflexivity.
Qed.

(* --------------------------------------------------------------- transpose *)
Section Transpose.
  Context {A : Type} (d : A).

  Lemma column_spec : forall (rows : list (list A)) k,
    (forall r, In r rows -> k < length r) ->
    column rows k = Some (map (fun r => nth k r d) rows).
  Proof.
    induction rows as [|r rs IH]; intros k H; [reflexivity|].
    simpl. rewrite (nth_error_nth' r d (H r (or_introl eq_refl))).
    rewrite IH; [reflexivity|]. intros r' Hr'. apply H. now right.
  Qed.

  Lemma transpose_aux_spec : forall (rows : list (list A)) T0 T k,
    (forall r, In r rows -> length r = T0) -> k + T <= T0 ->
    transpose_aux rows k T
    = Some (map (fun j => map (fun r => nth j r d) rows) (seq k T)).
  Proof.
    intros rows T0 T. induction T as [|T IH]; intros k H Hk; [reflexivity|].
    simpl. rewrite column_spec.
    - rewrite IH; [reflexivity|exact H|lia].
    - intros r Hr. rewrite (H r Hr). lia.
  Qed.

  Lemma transpose_spec : forall (rows : list (list A)) T,
    (forall r, In r rows -> length r = T) ->
    transpose rows T = Some (map (fun j => map (fun r => nth j r d) rows) (seq 0 T)).
  Proof. intros. unfold transpose. apply transpose_aux_spec with (T0 := T); [assumption|lia]. Qed.

  Lemma transpose_involutive : forall (rows : list (list A)) T,
    (forall r, In r rows -> length r = T) ->
    exists cols, transpose rows T = Some cols /\
      length cols = T /\ (forall c, In c cols -> length c = length rows) /\
      transpose cols (length rows) = Some rows.
  Proof.
    intros rows T H. eexists. split; [apply transpose_spec; exact H|].
    split; [now rewrite map_length, seq_length|].
    split.
    { intros c Hc. apply in_map_iff in Hc. destruct Hc as (j & <- & _). apply map_length. }
    rewrite transpose_spec.
    2:{ intros c Hc. apply in_map_iff in Hc. destruct Hc as (j & <- & _). apply map_length. }
    f_equal.
    rewrite <- (map_nth_seq [] rows) at 2.
    apply map_ext_in. intros i Hi. apply in_seq in Hi.
    rewrite map_map.
    assert (E : forall j, nth i (map (fun r => nth j r d) rows) d = nth j (nth i rows []) d).
    { intros j. rewrite <- (map_nth (fun r => nth j r d) rows [] i).
      destruct j; reflexivity. }
    rewrite (map_ext _ _ E).
    assert (HL : length (nth i rows []) = T).
    { apply H. apply nth_In. lia. }
    rewrite <- HL. apply map_nth_seq.
  Qed.

  Lemma pairup_unpair : forall n (rows : list (list A)),
    length rows = 2 * n -> unpair (pairup rows) = rows.
  Proof.
    induction n as [|n IH]; intros rows H.
    - destruct rows; [reflexivity|discriminate].
    - destruct rows as [|a [|b r]]; try (simpl in H; lia).
      unfold unpair in *. simpl. f_equal. f_equal. apply IH. simpl in H. lia.
  Qed.

  Lemma pairup_length : forall n (rows : list (list A)),
    length rows = 2 * n -> length (pairup rows) = n.
  Proof.
    induction n as [|n IH]; intros rows H.
    - destruct rows; [reflexivity|discriminate].
    - destruct rows as [|a [|b r]]; try (simpl in H; lia).
      simpl. f_equal. apply IH. simpl in H. lia.
  Qed.

  Lemma pairup_rect : forall n T (rows : list (list A)),
    length rows = 2 * n -> (forall r, In r rows -> length r = T) ->
    forallb (fun p => rect p 2 T) (pairup rows) = true.
  Proof.
    induction n as [|n IH]; intros T rows H HT.
    - destruct rows; [reflexivity|discriminate].
    - destruct rows as [|a [|b r]]; try (simpl in H; lia).
      cbn [pairup forallb]. unfold rect at 1. cbn [length forallb Nat.eqb].
      rewrite (HT a), (HT b), Nat.eqb_refl by (simpl; auto). cbn [andb].
      apply IH; [simpl in H; lia|]. intros r' Hr'. apply HT. simpl; auto.
  Qed.

  Lemma rect_true : forall (rows : list (list A)) n T,
    length rows = n -> (forall r, In r rows -> length r = T) -> rect rows n T = true.
  Proof.
    intros rows n T Hn HT. unfold rect. rewrite Hn, Nat.eqb_refl. simpl.
    apply forallb_forall. intros r Hr. rewrite (HT r Hr). apply Nat.eqb_refl.
  Qed.

  (* The record written by a run (result.dW), handed back to
     run_from_experiment, makes PreSetWiener hold exactly the recorded
     increments, and every in-range request returns them. *)
  Lemma preset_replays_record : forall (nl : list (list A)) n het meas,
    (forall v, In v nl -> length v = n) ->
    (het = true -> exists h, n = 2 * h) ->
    exists na p,
      res_dW nl n het = Some na /\
      preset_init na (length nl) n het meas = Some p /\
      p_noise p = map (fun v => [v]) nl /\
      p_scale_dt p = meas /\ p_scale_isqrt2 p = meas && het /\
      forall k N, k + N <= length nl ->
        p_dW p k N = Some (map (fun v => [v]) (slice nl k (k + N))).
  Proof.
    intros nl n het meas Hn Hhet.
    destruct (transpose_involutive nl n Hn) as (r & Hr & Hlen & Hrows & Hback).
    assert (Hfin : forall p, p_noise p = map (fun v : list A => [v]) nl ->
              forall k N, k + N <= length nl ->
              p_dW p k N = Some (map (fun v => [v]) (slice nl k (k + N)))).
    { intros p Hp k N Hk. unfold p_dW. rewrite Hp, map_length.
      destruct (length nl + 1 <=? k + N) eqn:E; [apply Nat.leb_le in E; lia|].
      unfold slice. now rewrite skipn_map, firstn_map. }
    unfold res_dW, res_noiseT. rewrite Hr.
    destruct het.
    - destruct (Hhet eq_refl) as (h & Hh).
      eexists. eexists. split; [reflexivity|].
      unfold preset_init.
      rewrite (pairup_length h r) by lia.
      rewrite (pairup_rect h (length nl) r) by (auto; lia).
      replace (2 * h =? n) with true by (symmetry; apply Nat.eqb_eq; lia).
      simpl. rewrite (pairup_unpair h r) by lia. rewrite Hback.
      split; [reflexivity|]. split; [reflexivity|]. split; [reflexivity|].
      split; [reflexivity|]. apply Hfin. reflexivity.
    - eexists. eexists. split; [reflexivity|].
      unfold preset_init. rewrite (rect_true r n (length nl) Hlen Hrows).
      rewrite Hback.
      split; [reflexivity|]. split; [reflexivity|]. split; [reflexivity|].
      split; [reflexivity|]. apply Hfin. reflexivity.
  Qed.
End Transpose.

(* requests that reach beyond the record are refused *)
Lemma p_dW_out_of_range : forall {A} (p : preset A) k N,
  length (p_noise p) < k + N -> p_dW p k N = None.
Proof.
  intros A p k N H. unfold p_dW.
  destruct (length (p_noise p) + 1 <=? k + N) eqn:E; [reflexivity|].
  apply Nat.leb_gt in E. lia.
Qed.

(* a wrongly shaped record is refused *)
Lemma preset_init_shape_error : forall {A} (r : list (list A)) T n meas,
  rect r n T = false -> preset_init (Homo r) T n false meas = None.
Proof. intros A r T n meas H. unfold preset_init. now rewrite H. Qed.

Lemma preset_init_mode_error : forall {A} (r : list (list A)) x T n meas,
  preset_init (Homo r) T n true meas = None /\
  preset_init (@Hetero A x) T n false meas = None.
Proof. intros. split; reflexivity. Qed.

(* ------------------------------------------------------ vectors and sums *)
Lemma vadd_zero_l : forall v, vadd (vzero (length v)) v = v.
Proof. induction v as [|x v IH]; [reflexivity|]. simpl. f_equal. exact IH. Qed.

Lemma vsum_single : forall n v, length v = n -> vsum n [v] = v.
Proof. intros n v H. subst n. unfold vsum. cbn [fold_left]. apply vadd_zero_l. Qed.

(* what the integrator reports on a replay with one step per interval is the
   recorded vector itself *)
Lemma replay_reports_record : forall n (v : vec),
  length v = n -> vsum n (map row0 [[v]]) = v.
Proof. intros. cbn [map row0 hd]. now apply vsum_single. Qed.

Fixpoint zsum (l : list Z) : Z := match l with [] => 0%Z | x :: r => (x + zsum r)%Z end.

Lemma cumsum_from_nth : forall l acc k,
  k < length l -> nth k (cumsum_from acc l) 0%Z = (acc + zsum (firstn (S k) l))%Z.
Proof.
  induction l as [|x l IH]; intros acc k Hk; [simpl in Hk; lia|].
  destruct k as [|k].
  - simpl. destruct l; simpl; lia.
  - simpl in Hk. change (cumsum_from acc (x :: l)) with ((acc + x)%Z :: cumsum_from (acc + x)%Z l).
    change (nth (S k) ((acc + x)%Z :: cumsum_from (acc + x)%Z l) 0%Z)
      with (nth k (cumsum_from (acc + x)%Z l) 0%Z).
    rewrite IH by lia.
    change (firstn (S (S k)) (x :: l)) with (x :: firstn (S k) l).
    simpl zsum. lia.
Qed.

Lemma cumsum_from_length : forall l acc, length (cumsum_from acc l) = length l.
Proof. induction l as [|x l IH]; intros acc; [reflexivity|]. simpl. now rewrite IH. Qed.

Definition wrow (row : list Z) : list Z := 0%Z :: cumsum_from 0%Z row.

Lemma wrow_running_sum : forall row k,
  k <= length row -> nth k (wrow row) 0%Z = zsum (firstn k row).
Proof.
  intros row k Hk. destruct k as [|k]; [reflexivity|].
  unfold wrow. change (nth (S k) (0%Z :: cumsum_from 0%Z row) 0%Z)
    with (nth k (cumsum_from 0%Z row) 0%Z).
  rewrite cumsum_from_nth by lia. lia.
Qed.

Lemma wrow_increment : forall row k,
  k < length row ->
  (nth (S k) (wrow row) 0 - nth k (wrow row) 0 = nth k row 0)%Z.
Proof.
  intros row k Hk. rewrite !wrow_running_sum by lia.
  revert k Hk. induction row as [|x row IH]; intros k Hk; [simpl in Hk; lia|].
  destruct k as [|k].
  - cbn. lia.
  - simpl in Hk. change (firstn (S (S k)) (x :: row)) with (x :: firstn (S k) row).
    change (firstn (S k) (x :: row)) with (x :: firstn k row).
    cbn [zsum nth]. specialize (IH k ltac:(lia)). lia.
Qed.

Lemma res_wiener_spec : forall (nl : list vec) n,
  (forall v, In v nl -> length v = n) ->
  exists r, res_noiseT nl n = Some r /\
    length r = n /\ (forall row, In row r -> length row = length nl) /\
    (forall i j, nth j (nth i r []) 0%Z = nth i (nth j nl []) 0%Z) /\
    res_wiener nl n false = Some (Homo (map wrow r)) /\
    res_wiener nl n true = Some (Hetero (pairup (map wrow r))).
Proof.
  intros nl n Hn. unfold res_wiener, res_noiseT.
  pose proof (transpose_spec 0%Z nl n Hn) as Hr.
  destruct (transpose_involutive 0%Z nl n Hn) as (r & Hr' & Hlen & Hrows & _).
  exists r. rewrite Hr'. split; [reflexivity|]. split; [exact Hlen|]. split; [exact Hrows|].
  split; [|split; reflexivity].
  rewrite Hr in Hr'. injection Hr' as <-.
  intros i j.
  destruct (Nat.lt_ge_cases i n) as [Hi|Hi].
  - rewrite (nth_indep _ [] (map (fun r => nth i r 0%Z) nl))
      by (now rewrite map_length, seq_length).
    rewrite (map_nth (fun j0 => map (fun r => nth j0 r 0%Z) nl) (seq 0 n) i i) at 1.
    rewrite seq_nth by lia. cbn [Nat.add].
    transitivity (nth j (map (fun r => nth i r 0%Z) nl) ((fun r => nth i r 0%Z) [])).
    { destruct i; reflexivity. }
    apply (map_nth (fun r => nth i r 0%Z) nl [] j).
  - rewrite (nth_overflow (map _ (seq 0 n))) by (now rewrite map_length, seq_length).
    destruct (Nat.lt_ge_cases j (length nl)) as [Hj|Hj].
    + rewrite nth_overflow with (l := nth j nl []).
      * destruct j; reflexivity.
      * rewrite (Hn (nth j nl [])); [lia|]. apply nth_In. lia.
    + rewrite (nth_overflow nl) by lia. destruct j, i; reflexivity.
Qed.

(* ------------------------------------- measurement record <-> increments *)
Section MeasurementAlgebra.
  Variables (F : Type) (f0 f1 : F) (fadd fmul fsub : F -> F -> F) (fopp : F -> F)
            (fdiv : F -> F -> F) (finv : F -> F).
  Hypothesis Fth : field_theory f0 f1 fadd fmul fsub fopp fdiv finv (@eq F).
  Add Field Ff : Fth.
  Notation "a + b" := (fadd a b). Notation "a * b" := (fmul a b).
  Notation "a - b" := (fsub a b).

  (* r2 stands for 2**0.5 and s for 1/2**0.5: only r2 * s = 1 is used *)
  Variables (r2 s : F).
  Hypothesis r2s : r2 * s = f1.

  (* StochasticSolver.__init__: dW_factors *)
  Definition dW_factor (het : bool) : F := if het then r2 else f1.
  (* StochasticTrajResult.measurement: m_expect + f * noise * (1/dt) *)
  Definition meas_value (f e dW dt : F) : F := e + f * dW * finv dt.
  (* PreSetWiener.__init__ with is_measurement *)
  Definition preset_scale (het : bool) (m dt : F) : F :=
    if het then (m * dt) * s else m * dt.
  (* _StochasticRHS: heterodyne sc_ops are c/sqrt2 and -i c/sqrt2, so the
     system's expectation of c' + c'^dag is <M> * s *)
  Definition sys_expect (het : bool) (e : F) : F := if het then e * s else e.
  (* stepper with measurement_noise: dW[0, i] -= expect[i].real * dt *)
  Definition stepper_sub (x esys dt : F) : F := x - esys * dt.

  Lemma measurement_roundtrip : forall het e dW dt,
    dt <> f0 ->
    stepper_sub (preset_scale het (meas_value (dW_factor het) e dW dt) dt)
                (sys_expect het e) dt = dW.
  Proof.
    intros het e dW dt Hdt.
    unfold stepper_sub, preset_scale, meas_value, sys_expect, dW_factor.
    destruct het.
    - transitivity ((r2 * s) * dW); [field; exact Hdt|]. rewrite r2s. ring.
    - field. exact Hdt.
  Qed.

  (* the map noise -> measurement is injective and onto (affine bijection) *)
  Lemma measurement_bijection : forall het e dt,
    dt <> f0 ->
    (forall d1 d2, meas_value (dW_factor het) e d1 dt = meas_value (dW_factor het) e d2 dt -> d1 = d2)
    /\ (forall m, exists dW, meas_value (dW_factor het) e dW dt = m).
  Proof.
    intros het e dt Hdt. split.
    - intros d1 d2 H.
      rewrite <- (measurement_roundtrip het e d1 dt Hdt), H.
      apply measurement_roundtrip. exact Hdt.
    - intros m. exists (stepper_sub (preset_scale het m dt) (sys_expect het e) dt).
      unfold stepper_sub, preset_scale, meas_value, sys_expect, dW_factor.
      destruct het.
      + transitivity (e + (r2 * s) * (m - e)); [field; exact Hdt|]. rewrite r2s. ring.
      + field. exact Hdt.
  Qed.
End MeasurementAlgebra.

Definition g_id (k : nat) : Z := Z.of_nat (S k).      (* stream 1, 2, 3, ... *)

(* ------------------------------------------------ internal step times *)
Lemma step_times_concat : forall steps pos,
  concat (step_times pos steps) = seq pos (fold_right plus 0 steps).
Proof.
  induction steps as [|N r IH]; intros pos; [reflexivity|].
  cbn [step_times concat fold_right]. rewrite IH, <- seq_app. reflexivity.
Qed.

Lemma step_times_grid_independent : forall s1 s2 pos,
  fold_right plus 0 s1 = fold_right plus 0 s2 ->
  concat (step_times pos s1) = concat (step_times pos s2).
Proof. intros s1 s2 pos H. now rewrite !step_times_concat, H. Qed.
