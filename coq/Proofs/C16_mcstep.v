(* C16 - the contract MCIntegrator needs of Integrator.mcstep, and its
   satisfaction by the model of qutip's zvode integrators (adams / bdf,
   Model/C11_zvode.v, tied to scipy_integrator.py by C11's correspondence).
   Times are integers (C11 scales the doubles of a case exactly). *)
From Coq Require Import List ZArith Bool Arith Lia.
Import ListNotations.
From QV Require Import Model.C11_zvode Proofs.C11_zvode.
Open Scope Z_scope.

(* a request inside the window [_back, _front]: answered at exactly that time,
   without error, with zvode's input contract respected, window unchanged *)
Lemma z_window_request s t f :
  ZInv s -> z_isset s = true -> z_back s <= t <= z_front s ->
  exists s1, z_mcstep s t f = (s1, (false, t, true)) /\
             ZInv s1 /\ z_isset s1 = true /\ z_back s1 = z_back s /\ z_front s1 = z_front s /\
             z_t s1 = t.
Proof.
  intros HI Hs Ht. destruct (HI Hs) as (H1 & H2 & H3 & H4).
  unfold z_mcstep. rewrite Hs. cbn [negb].
  destruct (z_t s =? t) eqn:E.
  - apply Z.eqb_eq in E. exists s. subst t. split; [reflexivity|]. repeat split; auto; try lia.
  - assert (E2 : (t <? z_back s) = false) by (apply Z.ltb_ge; lia). rewrite E2.
    assert (E3 : (t <=? z_front s) = true) by (apply Z.leb_le; lia). rewrite E3.
    unfold z_run_back.
    assert (E4 : ((z_tcur s - z_hu s <=? t) && (t <=? z_tcur s)) = true).
    { apply andb_true_iff. split; apply Z.leb_le; lia. }
    rewrite E4. eexists. split; [reflexivity|].
    split; [unfold ZInv; cbn [z_isset z_back z_front z_t z_tcur z_hu]; intros _; lia|].
    cbn [z_isset z_back z_front z_t z_tcur z_hu]. repeat split; auto.
Qed.

(* any sequence of requests inside the window *)
Fixpoint z_answers (s : zst) (rs : list (Z * Z)) : list (bool * Z * bool) :=
  match rs with
  | [] => []
  | (t, f) :: r => let '(s1, res) := z_mcstep s t f in res :: z_answers s1 r
  end.

Fixpoint z_after (s : zst) (rs : list (Z * Z)) : zst :=
  match rs with
  | [] => s
  | (t, f) :: r => z_after (fst (z_mcstep s t f)) r
  end.

Lemma z_window_requests : forall rs s,
  ZInv s -> z_isset s = true ->
  (forall t f, In (t, f) rs -> z_back s <= t <= z_front s) ->
  z_answers s rs = map (fun tf => (false, fst tf, true)) rs /\
  ZInv (z_after s rs) /\ z_isset (z_after s rs) = true /\
  z_back (z_after s rs) = z_back s /\ z_front (z_after s rs) = z_front s.
Proof.
  induction rs as [|[t f] r IH]; intros s HI Hs Hin; cbn [z_answers z_after map].
  - split; [reflexivity|]. split; [exact HI|]. split; [exact Hs|]. split; reflexivity.
  - destruct (z_window_request s t f HI Hs (Hin t f (or_introl eq_refl)))
      as (s1 & E & HI1 & Hs1 & Hb & Hf & _).
    rewrite E. cbn [fst].
    destruct (IH s1 HI1 Hs1) as (A & B & C & D & F).
    + intros t' f' H'. rewrite Hb, Hf. apply (Hin t' f'). right. exact H'.
    + rewrite A. split; [reflexivity|]. split; [exact B|]. split; [exact C|]. split; congruence.
Qed.

(* the forward step of MCIntegrator.integrate: standing at the front of the
   window (after set_state, or after the previous forward step), a request
   beyond it takes one step to a time f, t_old < f <= t, and the new window is
   exactly [t_old, f] = the bracket handed to _find_collapse_time *)
Lemma z_forward_step s t f :
  ZInv s -> z_isset s = true -> z_t s = z_front s -> z_front s < t -> z_tcur s < f <= t ->
  exists s1, z_mcstep s t f = (s1, (false, f, true)) /\
             ZInv s1 /\ z_isset s1 = true /\ z_back s1 = z_front s /\ z_front s1 = f /\ z_t s1 = f.
Proof.
  intros HI Hs Ht Hlt Hf. destruct (HI Hs) as (H1 & H2 & H3 & H4).
  unfold z_mcstep. rewrite Hs. cbn [negb].
  assert (E1 : (z_t s =? t) = false) by (apply Z.eqb_neq; lia). rewrite E1.
  assert (E2 : (t <? z_back s) = false) by (apply Z.ltb_ge; lia). rewrite E2.
  assert (E3 : (t <=? z_front s) = false) by (apply Z.leb_gt; lia). rewrite E3.
  assert (E4 : (z_t s <? z_front s) = false) by (apply Z.ltb_ge; lia). rewrite E4.
  assert (E5 : ((z_t s =? z_tcur s) && (z_tcur s <? f) && (f <=? t)) = true).
  { repeat (apply andb_true_iff; split); [apply Z.eqb_eq|apply Z.ltb_lt|apply Z.leb_le]; lia. }
  rewrite E5. eexists. split; [reflexivity|].
  split; [unfold ZInv; cbn [z_isset z_back z_front z_t z_tcur z_hu]; intros _; lia|].
  cbn [z_isset z_back z_front z_t z_tcur z_hu]. repeat split; auto.
Qed.

(* the whole pattern of one collapse search: forward step, then any requests
   in (t_old, t_step] (what C16_search_requests_inside_bracket guarantees of
   _find_collapse_time), then set_state at any time *)
Theorem z_search_pattern s t f rs tc :
  ZInv s -> z_isset s = true -> z_t s = z_front s -> z_front s < t -> z_tcur s < f <= t ->
  (forall r g, In (r, g) rs -> z_front s < r <= f) ->
  exists s1,
    z_mcstep s t f = (s1, (false, f, true)) /\
    z_answers s1 rs = map (fun tf => (false, fst tf, true)) rs /\
    z_back (z_after s1 rs) = z_front s /\ z_front (z_after s1 rs) = f /\
    let s2 := z_set_state (z_after s1 rs) tc in
    ZInv s2 /\ z_isset s2 = true /\ z_t s2 = tc /\ z_back s2 = tc /\ z_front s2 = tc.
Proof.
  intros HI Hs Ht Hlt Hf Hrs.
  destruct (z_forward_step s t f HI Hs Ht Hlt Hf) as (s1 & E & HI1 & Hs1 & Hb & Hfr & _).
  exists s1. split; [exact E|].
  destruct (z_window_requests rs s1 HI1 Hs1) as (A & B & C & D & F).
  - intros r g H. rewrite Hb, Hfr. specialize (Hrs r g H). lia.
  - split; [exact A|]. split; [congruence|]. split; [congruence|].
    cbv zeta. split; [apply z_set_inv|]. split; [reflexivity|]. split; [reflexivity|]. split; reflexivity.
Qed.
