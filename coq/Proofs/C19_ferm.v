(* Proofs for C19, part 7: exchanging two adjacent exponents (bosonic or
   fermionic) is a signed relabelling isomorphism of the hierarchy generator. *)
From Coq Require Import List ZArith Bool Arith Lia Permutation Ring.
Import ListNotations.
From QV Require Import Model.C19 Model.C19_ferm Proofs.C19 Proofs.C19_perm.

(* ---------------- the adjacent transposition (k, k+1) *)

Lemma tau_invol k i : tau k (tau k i) = i.
Proof.
  unfold tau. destruct (Nat.eqb_spec i k); [subst|].
  - destruct (Nat.eqb_spec (k + 1) k); [lia|]. now rewrite Nat.eqb_refl.
  - destruct (Nat.eqb_spec i (k + 1)); [subst|].
    + now rewrite Nat.eqb_refl.
    + destruct (Nat.eqb_spec i k); [lia|]. destruct (Nat.eqb_spec i (k + 1)); [lia|reflexivity].
Qed.

Lemma tau_lt k len i : k + 1 < len -> i < len -> tau k i < len.
Proof. unfold tau. intros. destruct (i =? k); [lia|]. destruct (i =? k + 1); lia. Qed.

Lemma swap_pi_length k len : length (swap_pi k len) = len.
Proof. unfold swap_pi. now rewrite map_length, seq_length. Qed.

Lemma nth_swap_pi k len i : i < len -> nth i (swap_pi k len) 0 = tau k i.
Proof.
  intros Hi. unfold swap_pi.
  rewrite (nth_indep _ 0 (tau k 0)) by (now rewrite map_length, seq_length).
  rewrite map_nth, seq_nth by assumption. reflexivity.
Qed.

Lemma swap_pi_perm k len : k + 1 < len -> Permutation (swap_pi k len) (seq 0 len).
Proof.
  intros Hk. unfold swap_pi.
  replace len with (k + (2 + (len - k - 2))) by lia.
  rewrite seq_app, map_app. apply Permutation_app.
  - rewrite <- (map_id (seq 0 k)) at 2. apply Permutation_refl'. apply map_ext_in.
    intros i Hi. apply in_seq in Hi. unfold tau.
    destruct (Nat.eqb_spec i k); [lia|]. destruct (Nat.eqb_spec i (k + 1)); [lia|reflexivity].
  - cbn [Nat.add]. cbn [seq map app].
    replace (tau k k) with (k + 1) by (unfold tau; now rewrite Nat.eqb_refl).
    replace (tau k (S k)) with k.
    2:{ unfold tau. destruct (Nat.eqb_spec (S k) k); [lia|].
        destruct (Nat.eqb_spec (S k) (k + 1)); [reflexivity|lia]. }
    replace (k + 1) with (S k) by lia.
    eapply Permutation_trans; [apply perm_swap|]. do 2 apply perm_skip.
    rewrite <- (map_id (seq (S (S k)) _)) at 2. apply Permutation_refl'. apply map_ext_in.
    intros i Hi. apply in_seq in Hi. unfold tau.
    destruct (Nat.eqb_spec i k); [lia|]. destruct (Nat.eqb_spec i (k + 1)); [lia|reflexivity].
Qed.

(* ---------------- prefix sums of a swapped list *)
Lemma firstn_S_nth (F : list nat) j :
  j < length F -> firstn (S j) F = firstn j F ++ [nth j F 0].
Proof.
  revert j. induction F as [|x F IH]; intros j Hj; simpl in *; [lia|].
  destruct j as [|j]; [reflexivity|]. simpl. f_equal. apply IH. lia.
Qed.

Lemma before_seq (F : list nat) j :
  j <= length F -> lsum (firstn j F) = lsum (map (fun i => nth i F 0) (seq 0 j)).
Proof.
  induction j as [|j IH]; intros Hj; [reflexivity|].
  rewrite firstn_S_nth by lia. rewrite seq_S, map_app, !lsum_app. simpl. rewrite IH by lia.
  reflexivity.
Qed.

Lemma lsum_map_ext (g h : nat -> nat) l :
  (forall i, In i l -> g i = h i) -> lsum (map g l) = lsum (map h l).
Proof. intros H. f_equal. now apply map_ext_in. Qed.

Lemma lsum_cons2 a b t : lsum (a :: b :: t) = a + b + lsum t.
Proof. unfold lsum. simpl. lia. Qed.

(* F' = F with positions k, k+1 exchanged *)
Lemma before_swap (F : list nat) k j :
  k + 1 < length F -> j <= length F ->
  lsum (firstn j (permute 0 (swap_pi k (length F)) F)) =
  if j =? k + 1 then lsum (firstn k F) + nth (k + 1) F 0 else lsum (firstn j F).
Proof.
  intros Hk Hj.
  assert (Hl : length (permute 0 (swap_pi k (length F)) F) = length F)
    by (unfold permute; now rewrite map_length, swap_pi_length).
  rewrite before_seq by lia.
  rewrite (lsum_map_ext _ (fun i => nth (tau k i) F 0)).
  2:{ intros i Hi. apply in_seq in Hi. rewrite nth_permute by (rewrite swap_pi_length; lia).
      rewrite nth_swap_pi by lia. reflexivity. }
  destruct (Nat.eqb_spec j (k + 1)) as [->|Hne].
  - rewrite before_seq by lia. replace (k + 1) with (S k) by lia. rewrite seq_S, map_app, lsum_app.
    cbn [map lsum fold_right Nat.add].
    replace (tau k k) with (S k) by (unfold tau; rewrite Nat.eqb_refl; lia).
    rewrite Nat.add_0_r. f_equal. apply lsum_map_ext. intros i Hi. apply in_seq in Hi.
    unfold tau. destruct (Nat.eqb_spec i k); [lia|]. destruct (Nat.eqb_spec i (k + 1)); [lia|reflexivity].
  - rewrite before_seq by lia.
    destruct (le_lt_dec j k) as [Hle|Hgt].
    + apply lsum_map_ext. intros i Hi. apply in_seq in Hi. unfold tau.
      destruct (Nat.eqb_spec i k); [lia|]. destruct (Nat.eqb_spec i (k + 1)); [lia|reflexivity].
    + replace j with (k + (2 + (j - k - 2))) by lia.
      rewrite (seq_app k), !map_app, !lsum_app. cbn [Nat.add seq map]. rewrite !lsum_cons2.
      replace (tau k k) with (S k) by (unfold tau; rewrite Nat.eqb_refl; lia).
      replace (tau k (S k)) with k.
      2:{ unfold tau. destruct (Nat.eqb_spec (S k) k); [lia|].
          destruct (Nat.eqb_spec (S k) (k + 1)); [reflexivity|lia]. }
      rewrite (lsum_map_ext (fun i => nth (tau k i) F 0) (fun i => nth i F 0) (seq 0 k)).
      2:{ intros i Hi. apply in_seq in Hi. unfold tau.
          destruct (Nat.eqb_spec i k); [lia|]. destruct (Nat.eqb_spec i (k + 1)); [lia|reflexivity]. }
      rewrite (lsum_map_ext (fun i => nth (tau k i) F 0) (fun i => nth i F 0) (seq (S (S k)) _)).
      2:{ intros i Hi. apply in_seq in Hi. unfold tau.
          destruct (Nat.eqb_spec i k); [lia|]. destruct (Nat.eqb_spec i (k + 1)); [lia|reflexivity]. }
      lia.
Qed.





Lemma tauZ_nat k z : (0 <= z)%Z -> tauZ k z = Z.of_nat (tau k (Z.to_nat z)).
Proof.
  intros Hz. unfold tauZ, tau.
  destruct (Z.eqb_spec z (Z.of_nat k)) as [->|N1].
  - rewrite Nat2Z.id, Nat.eqb_refl. lia.
  - destruct (Nat.eqb_spec (Z.to_nat z) k); [lia|].
    destruct (Z.eqb_spec z (Z.of_nat k + 1)) as [->|N2].
    + replace (Z.to_nat (Z.of_nat k + 1)) with (k + 1) by lia. now rewrite Nat.eqb_refl.
    + destruct (Nat.eqb_spec (Z.to_nat z) (k + 1)); lia.
Qed.

Lemma tauZ_range k len z :
  k + 1 < len -> ((0 <=? tauZ k z)%Z && (tauZ k z <? Z.of_nat len)%Z) =
                 ((0 <=? z)%Z && (z <? Z.of_nat len)%Z).
Proof.
  intros Hk. unfold tauZ.
  destruct (Z.eqb_spec z (Z.of_nat k)); [subst|].
  - destruct (Z.leb_spec 0 (Z.of_nat k + 1)), (Z.ltb_spec (Z.of_nat k + 1) (Z.of_nat len)),
      (Z.leb_spec 0 (Z.of_nat k)), (Z.ltb_spec (Z.of_nat k) (Z.of_nat len)); simpl; try reflexivity; lia.
  - destruct (Z.eqb_spec z (Z.of_nat k + 1)); [subst|reflexivity].
    destruct (Z.leb_spec 0 (Z.of_nat k + 1)), (Z.ltb_spec (Z.of_nat k + 1) (Z.of_nat len)),
      (Z.leb_spec 0 (Z.of_nat k)), (Z.ltb_spec (Z.of_nat k) (Z.of_nat len)); simpl; try reflexivity; lia.
Qed.

Section Ferm.
Variable C : Type.
Variables (c0 c1 : C) (cadd cmul : C -> C -> C) (cneg : C -> C) (ci : C) (cconj : C -> C).
Hypothesis Rth : ring_theory c0 c1 cadd cmul (fun a b => cadd a (cneg b)) cneg eq.
Add Ring CringF : Rth.
Notation bexp := (bexp C).
Notation nthe := (nthe C c0).
Notation dflt := (dflt C c0).
Notation sgn := (sgn C c1 cneg).
Notation "a *! b" := (cmul a b) (at level 40, left associativity).

Lemma swap_exps_length k (exps : list bexp) : length (swap_exps dflt k exps) = length exps.
Proof. unfold swap_exps. now rewrite map_length, seq_length. Qed.

Lemma nthe_swap k (exps : list bexp) j :
  j < length exps ->
  nthe (swap_exps dflt k exps) j =
  set_off (nthe exps (tau k j))
          (match e_off C (nthe exps (tau k j)) with
           | Some o => Some (tauZ k (Z.of_nat (tau k j) + o) - Z.of_nat j)%Z
           | None => None
           end).
Proof.
  intros Hj. unfold Model.C19.nthe, swap_exps.
  set (f := fun j0 : nat => _).
  rewrite (nth_indep _ dflt (f 0)) by (now rewrite map_length, seq_length).
  rewrite map_nth, seq_nth by assumption. reflexivity.
Qed.

Lemma sgn_add a b : sgn (a + b) = sgn a *! sgn b.
Proof.
  unfold Model.C19.sgn. rewrite Nat.even_add.
  destruct (Nat.even a), (Nat.even b); simpl; ring.
Qed.
Lemma sgn_sq a : sgn a *! sgn a = c1.
Proof. unfold Model.C19.sgn. destruct (Nat.even a); ring. Qed.

Lemma nth_ferm_n (exps : list bexp) (n : label) j :
  length n = length exps -> j < length exps ->
  nth j (ferm_n C exps n) 0 = if fermionic (e_type C (nthe exps j)) then nth j n 0 else 0.
Proof.
  unfold ferm_n, Model.C19.nthe. revert exps j.
  induction n as [|a n IH]; intros [|e exps] j Hl Hj; simpl in *; try lia.
  destruct j as [|j]; [reflexivity|]. apply IH; lia.
Qed.

Lemma ferm_n_length (exps : list bexp) (n : label) :
  length n = length exps -> length (ferm_n C exps n) = length exps.
Proof. intros H. unfold ferm_n. rewrite map_length, combine_length. lia. Qed.

Section Swap.
Variables (exps : list bexp) (k : nat) (n : label).
Hypothesis Hk : k + 1 < length exps.
Hypothesis Hl : length n = length exps.
Notation len := (length exps).
Notation pi := (swap_pi k (length exps)).
Notation exps' := (swap_exps dflt k exps).
Notation n' := (permute 0 (swap_pi k (length exps)) n).
Notation F := (ferm_n C exps n).

Lemma type_swap j : j < len -> e_type C (nthe exps' j) = e_type C (nthe exps (tau k j)).
Proof. intros Hj. now rewrite nthe_swap. Qed.

Lemma ferm_n_swap : ferm_n C exps' n' = permute 0 pi F.
Proof.
  apply (nth_ext _ _ 0 0).
  - rewrite ferm_n_length by (unfold permute; now rewrite map_length, swap_pi_length, swap_exps_length).
    unfold permute. now rewrite swap_exps_length, map_length, swap_pi_length.
  - intros j Hj.
    rewrite ferm_n_length in Hj
      by (unfold permute; now rewrite map_length, swap_pi_length, swap_exps_length).
    rewrite swap_exps_length in Hj.
    rewrite nth_ferm_n; try (rewrite swap_exps_length; assumption);
      [|unfold permute; now rewrite map_length, swap_pi_length, swap_exps_length].
    rewrite type_swap by assumption.
    rewrite !nth_permute by (rewrite swap_pi_length; assumption).
    rewrite nth_swap_pi by assumption.
    rewrite nth_ferm_n; [reflexivity|assumption|apply tau_lt; assumption].
Qed.

Lemma sign1_swap odd : sign1_exp C exps' n' odd = sign1_exp C exps n odd.
Proof.
  unfold sign1_exp. rewrite ferm_n_swap. rewrite lsum_permute; [reflexivity|].
  rewrite ferm_n_length by assumption. apply swap_pi_perm. assumption.
Qed.

(* the extra sign picked up by the exponent now standing at position j *)
Definition xsign (j : nat) : C :=
  if j =? k + 1 then sgn (nth (k + 1) F 0) else if j =? k then sgn (nth k F 0) else c1.

Lemma sign2_swap j odd :
  j < len ->
  sgn (sign2_exp C exps' n' j odd) = sgn (sign2_exp C exps n (tau k j) odd) *! xsign j.
Proof.
  intros Hj. unfold sign2_exp. rewrite ferm_n_swap.
  pose proof (ferm_n_length exps n Hl) as HF.
  rewrite <- HF. rewrite before_swap by lia.
  unfold xsign, tau.
  destruct (Nat.eqb_spec j (k + 1)) as [->|N1].
  - destruct (Nat.eqb_spec (k + 1) k); [lia|]. cbv iota.
    rewrite !sgn_add. ring.
  - destruct (Nat.eqb_spec j k) as [->|N2].
    + cbv iota. replace (k + 1) with (S k) by lia. rewrite firstn_S_nth by lia.
      rewrite lsum_app. simpl lsum. rewrite !sgn_add.
      replace (nth k F 0 + 0) with (nth k F 0) by lia.
      transitivity (sgn (lsum (firstn k F)) *! sgn (if odd then 1 else 0) *!
                    (sgn (nth k F 0) *! sgn (nth k F 0))); [rewrite sgn_sq; ring|]. change (sgn 0) with c1. ring.
    + cbv iota. ring.
Qed.


Lemma ck_swap j : j < len -> e_ck C (nthe exps' j) = e_ck C (nthe exps (tau k j)).
Proof. intros Hj. now rewrite nthe_swap. Qed.

Lemma sigma_bar_swap j :
  j < len ->
  sigma_bar C c0 exps' j = option_map (tau k) (sigma_bar C c0 exps (tau k j)).
Proof.
  intros Hj. unfold sigma_bar. rewrite nthe_swap by assumption. cbn [set_off e_off].
  rewrite swap_exps_length.
  destruct (e_off C (nthe exps (tau k j))) as [o|]; [|reflexivity].
  replace (Z.of_nat j + (tauZ k (Z.of_nat (tau k j) + o) - Z.of_nat j))%Z
    with (tauZ k (Z.of_nat (tau k j) + o)) by lia.
  rewrite tauZ_range by assumption.
  destruct ((0 <=? Z.of_nat (tau k j) + o)%Z && (Z.of_nat (tau k j) + o <? Z.of_nat len)%Z) eqn:E;
    [|reflexivity].
  apply andb_true_iff in E. destruct E as [E1 _]. apply Z.leb_le in E1.
  simpl. f_equal. rewrite tauZ_nat by assumption. now rewrite Nat2Z.id.
Qed.

Lemma sigma_bar_lt i kb : sigma_bar C c0 exps i = Some kb -> kb < len.
Proof.
  unfold sigma_bar. destruct (e_off C (nthe exps i)) as [o|]; [|discriminate].
  destruct ((0 <=? Z.of_nat i + o)%Z && (Z.of_nat i + o <? Z.of_nat len)%Z) eqn:E; [|discriminate].
  apply andb_true_iff in E. destruct E as [E1 E2]. apply Z.leb_le in E1. apply Z.ltb_lt in E2.
  intros H. inversion H. lia.
Qed.

Lemma scale_pmp x j c : scale cmul x (pmp C cneg j c) = pmp C cneg j (x *! c).
Proof. unfold scale, pmp. simpl. repeat f_equal. ring. Qed.
Lemma scale_ppp x j c : scale cmul x (ppp C j c) = ppp C j (x *! c).
Proof. reflexivity. Qed.
Lemma scale_pmpD x j c : scale cmul x (pmpD C cneg j c) = pmpD C cneg j (x *! c).
Proof. unfold scale, pmpD. simpl. repeat f_equal. ring. Qed.
Lemma scale_pppD x j c : scale cmul x (pppD C j c) = pppD C j (x *! c).
Proof. reflexivity. Qed.

Lemma two_eq (x x' y y' : C) (b b' : sbasis) :
  x = x' -> y = y' -> [(x, b); (y, b')] = [(x', b); (y', b')].
Proof. intros; subst; reflexivity. Qed.

(* the `next` operator of a fermionic exponent, after the swap *)
Lemma grad_next_fermionic_swap j odd :
  j < len ->
  grad_next_fermionic C c0 c1 cmul cneg ci exps' n' j odd =
  option_map (fun op => scale cmul (xsign j) (ren (tau k) op))
             (grad_next_fermionic C c0 c1 cmul cneg ci exps n (tau k j) odd).
Proof.
  intros Hj. unfold grad_next_fermionic. rewrite type_swap by assumption.
  rewrite sign1_swap, sign2_swap by assumption.
  destruct (e_type C (nthe exps (tau k j))); try reflexivity; simpl option_map;
    destruct (negb (Nat.even (sign1_exp C exps n odd)));
    unfold ren, scale, pmp, ppp, pmpD, pppD; simpl; rewrite tau_invol;
    apply f_equal, two_eq; ring.
Qed.

Lemma grad_prev_fermionic_swap j odd :
  j < len ->
  grad_prev_fermionic C c0 c1 cmul cneg ci cconj exps' n' j odd =
  option_map (fun op => scale cmul (xsign j) (ren (tau k) op))
             (grad_prev_fermionic C c0 c1 cmul cneg ci cconj exps n (tau k j) odd).
Proof.
  intros Hj. unfold grad_prev_fermionic. rewrite sigma_bar_swap by assumption.
  destruct (sigma_bar C c0 exps (tau k j)) as [kb|] eqn:E; [|reflexivity].
  pose proof (sigma_bar_lt _ _ E) as Hkb. simpl option_map.
  rewrite type_swap, ck_swap by assumption.
  rewrite (ck_swap (tau k kb)) by (apply tau_lt; assumption). rewrite tau_invol.
  rewrite sign1_swap, sign2_swap by assumption.
  destruct (e_type C (nthe exps (tau k j))); try reflexivity; simpl option_map;
    unfold ren, scale; simpl; rewrite tau_invol; apply f_equal, two_eq; ring.
Qed.


Lemma scale_1 (op : sop C) : scale cmul c1 op = op.
Proof.
  unfold scale. induction op as [|[x b] op IH]; simpl; [reflexivity|].
  rewrite IH. f_equal. f_equal. ring.
Qed.

(* sign picked up by the block through the exponent now at position j *)
Definition Xs (j : nat) : C :=
  if fermionic (e_type C (nthe exps (tau k j))) then xsign j else c1.

Lemma grad_next_swap j odd :
  j < len ->
  grad_next C c0 c1 cmul cneg ci exps' n' j odd =
  option_map (fun op => scale cmul (Xs j) (ren (tau k) op))
             (grad_next C c0 c1 cmul cneg ci exps n (tau k j) odd).
Proof.
  intros Hj. unfold grad_next, Xs. rewrite type_swap by assumption.
  destruct (fermionic (e_type C (nthe exps (tau k j)))).
  - now apply grad_next_fermionic_swap.
  - cbn [option_map]. rewrite scale_1. unfold grad_next_bosonic, ren, pmp. simpl.
    now rewrite tau_invol.
Qed.

Lemma grad_prev_swap j odd :
  j < len ->
  grad_prev C c0 c1 cadd cmul cneg ci cconj exps' n' j odd =
  option_map (fun op => scale cmul (Xs j) (ren (tau k) op))
             (grad_prev C c0 c1 cadd cmul cneg ci cconj exps n (tau k j) odd).
Proof.
  intros Hj. unfold grad_prev, Xs. rewrite type_swap by assumption.
  destruct (fermionic (e_type C (nthe exps (tau k j)))).
  - now apply grad_prev_fermionic_swap.
  - unfold grad_prev_bosonic. rewrite type_swap, ck_swap by assumption.
    rewrite nth_permute by (rewrite swap_pi_length; assumption).
    rewrite nth_swap_pi by assumption.
    replace (e_ck2 C (nthe exps' j)) with (e_ck2 C (nthe exps (tau k j)))
      by (now rewrite nthe_swap).
    destruct (e_type C (nthe exps (tau k j))); try reflexivity.
    + cbn [option_map]. rewrite scale_1. unfold ren, pmp. simpl. now rewrite tau_invol.
    + cbn [option_map]. rewrite scale_1. unfold ren, ppp. simpl. now rewrite tau_invol.
    + destruct (e_ck2 C (nthe exps (tau k j))); [|reflexivity].
      cbn [option_map]. rewrite scale_1. unfold ren, pmp, ppp. simpl. now rewrite tau_invol.
Qed.

(* ---- the signs are a conjugation by a diagonal matrix s *)
Definition s_of (m : label) : C :=
  sgn (nth k (ferm_n C exps m) 0 * nth (k + 1) (ferm_n C exps m) 0).

Lemma sgn_mul_parity a a' b :
  Nat.even a' = negb (Nat.even a) -> sgn (a * b) *! sgn (a' * b) = sgn b.
Proof.
  intros H. unfold Model.C19.sgn. rewrite !Nat.even_mul, H.
  destruct (Nat.even a), (Nat.even b); simpl; ring.
Qed.

Lemma nth_ferm_set_at i v i' :
  i < len -> i' < len ->
  nth i' (ferm_n C exps (set_at n i v)) 0 =
  if i' =? i then (if fermionic (e_type C (nthe exps i)) then v else 0)
  else nth i' F 0.
Proof.
  intros Hi Hi'.
  rewrite nth_ferm_n by (try rewrite length_set_at; lia).
  rewrite nth_set_at by lia.
  destruct (Nat.eqb_spec i' i) as [->|N]; [reflexivity|].
  now rewrite nth_ferm_n by assumption.
Qed.

Lemma s_conj j v :
  j < len ->
  (fermionic (e_type C (nthe exps (tau k j))) = true ->
   Nat.even v = negb (Nat.even (nth (tau k j) n 0))) ->
  s_of n *! s_of (set_at n (tau k j) v) = Xs j.
Proof.
  intros Hj Hpar. pose proof (tau_lt k len j Hk Hj) as Hi.
  unfold s_of, Xs, xsign. rewrite !nth_ferm_set_at by lia.
  assert (Fi : nth (tau k j) F 0 =
               if fermionic (e_type C (nthe exps (tau k j))) then nth (tau k j) n 0 else 0)
    by (apply nth_ferm_n; assumption).
  unfold tau in *.
  destruct (Nat.eqb_spec j k) as [->|N1].
  - (* j = k, original exponent k+1 *)
    destruct (Nat.eqb_spec k (k + 1)); [lia|]. rewrite Nat.eqb_refl.
    destruct (Nat.eqb_spec k (k + 1)); [lia|].
    destruct (fermionic (e_type C (nthe exps (k + 1)))).
    + rewrite (Nat.mul_comm _ (nth (k + 1) F 0)), (Nat.mul_comm _ v).
      apply sgn_mul_parity. rewrite Fi. now apply Hpar.
    + rewrite Fi. rewrite Nat.mul_0_r. apply sgn_sq.
  - destruct (Nat.eqb_spec j (k + 1)) as [->|N2].
    + (* j = k+1, original exponent k *)
      rewrite Nat.eqb_refl. destruct (Nat.eqb_spec (k + 1) k); [lia|].
      destruct (fermionic (e_type C (nthe exps k))).
      * apply sgn_mul_parity. rewrite Fi. now apply Hpar.
      * rewrite Fi. rewrite Nat.mul_0_l. apply sgn_sq.
    + destruct (Nat.eqb_spec k j); [lia|]. destruct (Nat.eqb_spec (k + 1) j); [lia|].
      rewrite sgn_sq. now destruct (fermionic (e_type C (nthe exps j))).
Qed.


Lemma heom_dims_swap D :
  heom_dims C exps' D = permute 0 pi (heom_dims C exps D).
Proof.
  unfold heom_dims, ados_dims, swap_exps, permute, swap_pi. rewrite !map_map.
  apply map_ext_in. intros j Hj. apply in_seq in Hj. cbn [set_off e_dim].
  rewrite (nth_indep _ 0 ((fun e => ados_dim D (e_dim C e)) dflt))
    by (rewrite map_length; apply tau_lt; lia).
  symmetry. exact (map_nth (fun e => ados_dim D (e_dim C e)) exps dflt (tau k j)).
Qed.

Lemma vk_sum_ext (A B : list bexp) (m : label) :
  map (e_vk C) A = map (e_vk C) B ->
  vk_sum C c0 c1 cadd cmul A m = vk_sum C c0 c1 cadd cmul B m.
Proof.
  unfold vk_sum. generalize c0 at 2 4. revert A B.
  induction m as [|a m IH]; intros [|x A] [|y B] acc H; simpl in *; try reflexivity;
    try discriminate.
  injection H as H1 H2. rewrite H1. now apply IH.
Qed.

Lemma grad_n_swap (Rth' : True) :
  grad_n C c0 c1 cadd cmul cneg exps' n' = grad_n C c0 c1 cadd cmul cneg exps n.
Proof.
  unfold grad_n. f_equal. f_equal. f_equal.
  rewrite (vk_sum_ext exps' (permute dflt pi exps)).
  - apply (vk_sum_permute C c0 c1 cadd cmul cneg Rth dflt pi exps n);
      [apply swap_pi_perm; assumption|assumption].
  - unfold swap_exps, permute, swap_pi. rewrite !map_map. apply map_ext. reflexivity.
Qed.

End Swap.
End Ferm.
