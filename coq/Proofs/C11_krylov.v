(* C11 - proofs about the IntegratorKrylov validity-range model. *)
From Coq Require Import List ZArith Bool Arith Lia.
Require Import ZifyBool.
Import ListNotations.
From QV Require Import Model.C11_krylov.
Open Scope Z_scope.

Section KrylovProofs.
  Variable St : Type.
  Variables (kdim N : nat) (ldim : St -> nat) (bnd : St -> Z) (ev : St -> Z -> St)
            (always : bool) (nsteps : nat).
  Notation kst := (kst St).
  Notation set_state := (set_state St kdim N ldim bnd always).
  Notation hops := (hops St kdim N ldim bnd ev always nsteps).
  Notation integrate := (integrate St kdim N ldim bnd ev always nsteps).
  Notation do_kop := (do_kop St kdim N ldim bnd ev always nsteps).
  Notation krun := (krun St kdim N ldim bnd ev always nsteps).
  Notation kresults := (kresults St kdim N ldim bnd ev always nsteps).
  Notation brk_set := (brk_set St kdim N ldim).

  (* a finite bound is the value computed for the recorded state *)
  Definition Prov (s : kst) : Prop :=
    forall v, k_max s = Fin v -> exists y, k_src s = Some y /\ v = bnd y.

  Definition UsesOK (s : kst) : Prop :=
    Forall (fun p => within (fst p) (snd p)) (k_uses s).

  (* once a state is set: the "not computed" marker is gone, "+inf" means the
     CURRENT state broke down, and with always_compute_step the bound was
     computed from the current state *)
  Definition Set_ok (s : kst) : Prop :=
    k_isset s = true ->
    exists x, k_cur s = Some x /\ k_max s <> NegInf /\
              (k_max s = PosInf -> brk_set x = true) /\
              (always = true -> forall v, k_max s = Fin v -> k_src s = Some x).

  Definition Cur_set (s : kst) : Prop := forall x, k_cur s = Some x -> k_isset s = true.

  Definition Good (s : kst) : Prop := Prov s /\ UsesOK s /\ Set_ok s /\ Cur_set s.

  Lemma prepare_good rand : Good (prepare St kdim N ldim bnd always rand).
  Proof.
    unfold prepare. destruct always; [|destruct (brk_prepare St kdim N ldim rand)];
      (split; [|split; [|split]]); unfold Prov, UsesOK, Set_ok, Cur_set; simpl;
      try (intros v H; discriminate); try constructor; try (intros H; discriminate).
    intros v H. injection H as <-. eexists. split; reflexivity.
  Qed.

  Lemma set_state_good s t x : Good s ->
    Good (set_state s t x) /\ k_isset (set_state s t x) = true /\
    k_cur (set_state s t x) = Some x /\ k_t0 (set_state s t x) = t.
  Proof.
    intros (HP & HU & HS & HC). unfold Model.C11_krylov.set_state.
    destruct (brk_set x) eqn:EB; [|destruct (negb (finite (k_max s)) || always) eqn:EC];
      (split; [|split; [reflexivity|split; reflexivity]]);
      (split; [|split; [exact HU|split]]); unfold Prov, Set_ok, Cur_set; simpl.
    - intros v H. discriminate.
    - intros _. exists x. split; [reflexivity|]. split; [discriminate|].
      split; [intros _; exact EB|]. intros _ v H. discriminate.
    - intros y _. reflexivity.
    - intros v H. injection H as <-. eexists. split; reflexivity.
    - intros _. exists x. split; [reflexivity|]. split; [discriminate|].
      split; [discriminate|]. intros _ v _. reflexivity.
    - intros y _. reflexivity.
    - exact HP.
    - intros _. exists x. apply orb_false_iff in EC. destruct EC as [EF EA].
      split; [reflexivity|]. split; [destruct (k_max s); simpl in EF; discriminate|].
      split; [destruct (k_max s); simpl in EF; discriminate|].
      intros Ha. rewrite Ha in EA. discriminate.
    - intros y _. reflexivity.
  Qed.

  Lemma log_use_good s dt : Good s -> within dt (k_max s) ->
    Good (log_use St s dt) /\ k_max (log_use St s dt) = k_max s.
  Proof.
    intros (HP & HU & HS & HC) Hw. split; [|reflexivity]. split; [exact HP|]. split; [|split].
    - constructor; [exact Hw|exact HU].
    - exact HS.
    - exact HC.
  Qed.

  Lemma hops_spec fuel : forall s x t step s' ox raised,
    Good s -> k_isset s = true -> k_cur s = Some x ->
    hops fuel s x t step = (s', ox, raised) ->
    Good s' /\ k_isset s' = true /\
    (raised = false -> exists x', ox = Some x' /\ k_cur s' = Some x' /\
                                  beyond t (k_t0 s') (k_max s') = false).
  Proof.
    induction fuel as [|f IH]; intros s x t step s' ox raised HG Hi Hc H; simpl in H.
    - destruct (beyond t (k_t0 s) (k_max s)) eqn:EB; injection H as <- <- <-.
      + split; [exact HG|]. split; [exact Hi|]. intros; discriminate.
      + split; [exact HG|]. split; [exact Hi|]. intros _. exists x. auto.
    - destruct (beyond t (k_t0 s) (k_max s)) eqn:EB.
      + destruct (Nat.leb nsteps (S step)).
        { injection H as <- <- <-. split; [exact HG|]. split; [exact Hi|]. intros; discriminate. }
        destruct (k_max s) as [| |v] eqn:EM.
        * exfalso. destruct HG as (_ & _ & HS & _). destruct (HS Hi) as (y & _ & Hn & _). congruence.
        * simpl in EB. discriminate.
        * assert (Hw : within v (k_max s)) by (rewrite EM; simpl; lia).
          destruct (log_use_good s v HG Hw) as [HG1 _].
          destruct (set_state_good (log_use St s v) (k_t0 s + v) (ev x v) HG1)
            as (HG2 & Hi2 & Hc2 & _).
          exact (IH _ _ _ _ _ _ _ HG2 Hi2 Hc2 H).
      + injection H as <- <- <-. split; [exact HG|]. split; [exact Hi|]. intros _. exists x. auto.
  Qed.

  Lemma set_state_cur s t x : k_cur (set_state s t x) = Some x.
  Proof.
    unfold Model.C11_krylov.set_state. destruct (brk_set x); [reflexivity|].
    destruct (negb (finite (k_max s)) || always); reflexivity.
  Qed.
  Lemma set_state_t0 s t x : k_t0 (set_state s t x) = t.
  Proof.
    unfold Model.C11_krylov.set_state. destruct (brk_set x); [reflexivity|].
    destruct (negb (finite (k_max s)) || always); reflexivity.
  Qed.

  Lemma integrate_good s t : Good s ->
    Good (fst (integrate s t)) /\ snd (integrate s t) <> RGarbage.
  Proof.
    intros HG. unfold Model.C11_krylov.integrate.
    destruct (k_cur s) as [x|] eqn:Hc.
    2:{ simpl. split; [exact HG|discriminate]. }
    assert (Hi : k_isset s = true) by (destruct HG as (_ & _ & _ & HC); eapply HC; eassumption).
    destruct (hops nsteps s x t 0) as [[s1 ox] raised] eqn:EH.
    destruct (hops_spec _ _ _ _ _ _ _ _ HG Hi Hc EH) as (HG1 & Hi1 & Hr).
    destruct raised.
    - destruct ox; simpl; (split; [exact HG1|discriminate]).
    - destruct (Hr eq_refl) as (x' & -> & Hc1 & Hb). simpl.
      assert (Hw : within (t - k_t0 s1) (k_max s1)).
      { destruct (k_max s1) as [| |v] eqn:EM.
        - destruct HG1 as (_ & _ & HS & _). destruct (HS Hi1) as (y & _ & Hn & _). congruence.
        - exact I.
        - simpl in *. lia. }
      split; [exact (proj1 (log_use_good s1 _ HG1 Hw))|discriminate].
  Qed.

  Lemma krun_good ops : forall s, Good s ->
    Good (krun s ops) /\ Forall (fun r => r <> RGarbage) (kresults s ops).
  Proof.
    induction ops as [|o r IH]; intros s HG; simpl; [split; [exact HG|constructor]|].
    destruct o as [t x|t]; simpl.
    - destruct (IH _ (proj1 (set_state_good s t x HG))) as [A B].
      split; [exact A|constructor; [discriminate|exact B]].
    - destruct (integrate_good s t HG) as (HG1 & Hn).
      destruct (IH _ HG1) as [A B]. split; [exact A|constructor; [exact Hn|exact B]].
  Qed.
  Hypothesis ev_add : forall x a b, ev (ev x a) b = ev x (a + b).

  (* the state handed out does not depend on the bound history *)
  Lemma hops_answer fuel : forall s x t step s' x',
    k_cur s = Some x ->
    hops fuel s x t step = (s', Some x', false) ->
    ev x' (t - k_t0 s') = ev x (t - k_t0 s).
  Proof.
    induction fuel as [|f IH]; intros s x t step s' x' Hc H; simpl in H.
    - destruct (beyond t (k_t0 s) (k_max s)); injection H as <- <-; reflexivity.
    - destruct (beyond t (k_t0 s) (k_max s)).
      + destruct (Nat.leb nsteps (S step)); [discriminate|].
        destruct (k_max s) as [| |v] eqn:EM; try discriminate.
        rewrite (IH _ _ _ _ _ _ (set_state_cur _ _ _) H).
        rewrite set_state_t0, ev_add. f_equal. lia.
      + injection H as <- <-. reflexivity.
  Qed.

  Lemma integrate_answer s t x : Good s -> k_cur s = Some x ->
    snd (integrate s t) = RRaise \/ snd (integrate s t) = ROk t (ev x (t - k_t0 s)).
  Proof.
    intros HG Hc. unfold Model.C11_krylov.integrate. rewrite Hc.
    assert (Hi : k_isset s = true) by (destruct HG as (_ & _ & _ & HC); eapply HC; eassumption).
    destruct (hops nsteps s x t 0) as [[s1 ox] raised] eqn:EH.
    destruct (hops_spec _ _ _ _ _ _ _ _ HG Hi Hc EH) as (HG1 & Hi1 & Hr).
    destruct raised.
    - destruct ox; simpl; left; reflexivity.
    - destruct (Hr eq_refl) as (x' & -> & Hc1 & Hb). simpl. right. f_equal.
      exact (hops_answer _ _ _ _ _ _ _ Hc EH).
  Qed.
End KrylovProofs.
