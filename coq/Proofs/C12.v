(* Proofs for C12: the closed form of a Result after any history of `add`
   calls, for every class, option valuation, e_ops form and m_ops list. *)
From Coq Require Import List ZArith Bool Arith Lia.
Import ListNotations.
From QV Require Import Model.C12.

(* ------------------------------------------------------------ list lemmas *)
Lemma app_nth_app : forall A (pre : list (list A)) x t v,
  app_nth (pre ++ x :: t) (length pre) v = pre ++ (x ++ [v]) :: t.
Proof.
  intros A pre. induction pre as [|p pre IH]; intros x t v; simpl.
  - reflexivity.
  - rewrite IH. reflexivity.
Qed.

Lemma fold_app_nth : forall A B (f : B -> A) (ops : list B) (pre mid : list (list A)),
  length mid = length ops ->
  fold_left (fun l io => app_nth l (fst io) (f (snd io)))
            (combine (seq (length pre) (length ops)) ops) (pre ++ mid)
  = pre ++ map (fun xo => fst xo ++ [f (snd xo)]) (combine mid ops).
Proof.
  intros A B f ops. induction ops as [|o ops IH]; intros pre mid Hlen.
  - destruct mid; [|discriminate]. reflexivity.
  - destruct mid as [|x mid]; [discriminate|]. simpl in Hlen.
    injection Hlen as Hlen. simpl.
    rewrite app_nth_app.
    assert (E : pre ++ (x ++ [f o]) :: mid = (pre ++ [x ++ [f o]]) ++ mid)
      by (rewrite <- app_assoc; reflexivity).
    rewrite E.
    assert (L : S (length pre) = length (pre ++ [x ++ [f o]]))
      by (rewrite app_length; simpl; lia).
    rewrite L. rewrite (IH _ _ Hlen). rewrite <- app_assoc. reflexivity.
Qed.

Lemma combine_map_self : forall A B C (g : A -> B) (h : B * A -> C) (l : list A),
  map h (combine (map g l) l) = map (fun o => h (g o, o)) l.
Proof.
  intros A B C g h l. induction l as [|a l IH]; simpl; [reflexivity|].
  rewrite IH. reflexivity.
Qed.

Lemma last_opt_snoc : forall A (l : list A) x, last_opt (l ++ [x]) = Some x.
Proof. intros A l x. unfold last_opt. rewrite rev_app_distr. reflexivity. Qed.

Lemma last_opt_nil : forall A, @last_opt A [] = None.
Proof. reflexivity. Qed.

Lemma last_opt_map : forall A B (f : A -> B) l,
  last_opt (map f l) = option_map f (last_opt l).
Proof.
  intros A B f l. unfold last_opt. rewrite <- map_rev.
  destruct (rev l); reflexivity.
Qed.

Lemma combine_keys_seq : forall (l : list op),
  map snd (combine (map KInt (seq 0 (length l))) l) = l.
Proof.
  intros l. generalize 0. induction l as [|o l IH]; intros a; simpl; [reflexivity|].
  rewrite IH. reflexivity.
Qed.

Lemma combine_keys_fst : forall (l : list op),
  map fst (combine (map KInt (seq 0 (length l))) l) = map KInt (seq 0 (length l)).
Proof.
  intros l. generalize 0. induction l as [|o l IH]; intros a; simpl; [reflexivity|].
  rewrite IH. reflexivity.
Qed.

Section Proofs.
  Variables T S V N : Type.
  Variable expectQ : Z -> S -> V.
  Variable expectE : Z -> T -> S -> V.
  Variable callF : Z -> T -> S -> V.
  Variable rho : S -> S.
  Variable conv : S -> T -> S.

  Local Notation result := (result T S V N).
  Local Notation ev := (ev T S V expectQ expectE callF rho).
  Local Notation run_proc := (run_proc T S V N expectQ expectE callF rho).
  Local Notation base_add := (base_add T S V N expectQ expectE callF rho).
  Local Notation add := (add T S V N expectQ expectE callF rho conv).
  Local Notation adds := (adds T S V N expectQ expectE callF rho conv).
  Local Notation new_result := (new_result T S V N).
  Local Notation pt := (T * S * option N)%type.

  (* what `add` hands to the processors / what the storing processors keep *)
  Definition pt_time (p : pt) : T := fst (fst p).
  Definition pt_raw (p : pt) : S := snd (fst p).
  Definition seen (c : cls) (p : pt) : S :=
    match c with CFloquet => conv (pt_raw p) (pt_time p) | _ => pt_raw p end.
  Definition kept (c : cls) (p : pt) : S :=
    match c with CHeom => rho (seen c p) | _ => seen c p end.
  Definition noises (pts : list pt) : list N :=
    flat_map (fun p => match snd p with Some n => [n] | None => [] end) pts.

  Definition use_m (c : cls) (o : opts) : bool :=
    match c with CStoch => store_measurement o | _ => false end.
  Definition is_heom (c : cls) : bool := match c with CHeom => true | _ => false end.
  Definition is_flo (c : cls) : bool := match c with CFloquet => true | _ => false end.
  Definition is_stoch (c : cls) : bool := match c with CStoch => true | _ => false end.

  (* closed form of the object after the add history `pts` *)
  Definition spec (c : cls) (o : opts) (e : eops) (m : list op) (pts : list pt) : result :=
    let d := e_ops_to_dict e in
    let ops := map snd d in
    let st := stores_states o (length ops) in
    let fin := store_final_state o && negb st in
    let procs := eop_procs ops ++ post_init_procs o (length ops)
                 ++ (if use_m c o then mop_procs m else []) in
    {| r_cls := c; r_opts := o;
       r_times := map pt_time pts;
       r_keys := map fst d; r_ops := ops;
       r_edata := map (fun op => map (fun p => ev c op (pt_time p) (seen c p)) pts) ops;
       r_states := if st then map (kept c) pts else [];
       r_final := if fin then last_opt (map (kept c) pts) else None;
       r_procs := procs;
       r_copy := existsb proc_requires_copy procs;
       r_ado := if is_heom c && st && store_ados o then map pt_raw pts else [];
       r_final_ado := if is_heom c && fin && store_ados o
                      then last_opt (map pt_raw pts) else None;
       r_flo := if is_flo c && store_floquet_states o then map pt_raw pts else [];
       r_noise := if is_stoch c then noises pts else [];
       r_mexp := if use_m c o
                 then map (fun op => map (fun p => ev c op (pt_time p) (seen c p)) pts) m
                 else [] |}.

  Lemma new_result_spec : forall c o e m r,
    new_result c o e m = Ok r -> r = spec c o e m [].
  Proof.
    intros c o e m r H. unfold Model.C12.new_result in H.
    destruct (negb (forallb op_ok (map snd (e_ops_to_dict e)))); [discriminate|].
    fold (use_m c o) in H.
    destruct (use_m c o && negb (forallb op_ok m)); [discriminate|].
    injection H as H. subst r. unfold spec. simpl.
    rewrite map_map.
    f_equal.
    - destruct (stores_states o (length (map snd (e_ops_to_dict e)))); reflexivity.
    - destruct (store_final_state o && negb (stores_states o (length (map snd (e_ops_to_dict e)))));
        reflexivity.
    - destruct (is_heom c && stores_states o (length (map snd (e_ops_to_dict e))) && store_ados o);
        reflexivity.
    - destruct (is_heom c && (store_final_state o && negb (stores_states o (length (map snd (e_ops_to_dict e))))) && store_ados o);
        reflexivity.
    - destruct (is_flo c && store_floquet_states o); reflexivity.
    - destruct (is_stoch c); reflexivity.
  Qed.

  Lemma new_result_ok : forall c o e m,
    forallb op_ok (map snd (e_ops_to_dict e)) = true ->
    (use_m c o = true -> forallb op_ok m = true) ->
    new_result c o e m = Ok (spec c o e m []).
  Proof.
    intros c o e m H1 H2.
    destruct (new_result c o e m) as [r|x] eqn:E.
    - rewrite (new_result_spec _ _ _ _ _ E). reflexivity.
    - unfold Model.C12.new_result in E. rewrite H1 in E. simpl in E.
      fold (use_m c o) in E. destruct (use_m c o) eqn:U.
      + rewrite (H2 eq_refl) in E. simpl in E. discriminate.
      + simpl in E. discriminate.
  Qed.

  (* error branches *)
  Lemma new_result_bad_eop : forall c o e m,
    forallb op_ok (map snd (e_ops_to_dict e)) = false ->
    new_result c o e m = Raise TypeError.
  Proof.
    intros c o e m H. unfold Model.C12.new_result. rewrite H. reflexivity.
  Qed.

  Lemma new_result_bad_mop : forall c o e m,
    forallb op_ok (map snd (e_ops_to_dict e)) = true ->
    use_m c o = true -> forallb op_ok m = false ->
    new_result c o e m = Raise TypeError.
  Proof.
    intros c o e m H U M. unfold Model.C12.new_result. rewrite H. simpl.
    fold (use_m c o). rewrite U, M. reflexivity.
  Qed.

  (* ------------------------------------------------------- folding procs *)
  Lemma set_edata_id : forall r : result, set_edata T S V N r (r_edata T S V N r) = r.
  Proof. intros r. destruct r. reflexivity. Qed.
  Lemma set_mexp_id : forall r : result, set_mexp T S V N r (r_mexp T S V N r) = r.
  Proof. intros r. destruct r. reflexivity. Qed.

  Lemma fold_eops : forall t s (ios : list (nat * op)) (r : result),
    fold_left (run_proc t s) (map (fun io => PEop (fst io) (snd io)) ios) r
    = set_edata T S V N r
        (fold_left (fun l io => app_nth l (fst io) (ev (r_cls T S V N r) (snd io) t s))
                   ios (r_edata T S V N r)).
  Proof.
    intros t s ios. induction ios as [|io ios IH]; intros r; simpl.
    - symmetry. apply set_edata_id.
    - rewrite IH. destruct r. reflexivity.
  Qed.

  Lemma fold_mops : forall t s (ios : list (nat * op)) (r : result),
    fold_left (run_proc t s) (map (fun io => PMop (fst io) (snd io)) ios) r
    = set_mexp T S V N r
        (fold_left (fun l io => app_nth l (fst io) (ev (r_cls T S V N r) (snd io) t s))
                   ios (r_mexp T S V N r)).
  Proof.
    intros t s ios. induction ios as [|io ios IH]; intros r; simpl.
    - symmetry. apply set_mexp_id.
    - rewrite IH. destruct r. reflexivity.
  Qed.

  Lemma fold_rows : forall c t s (ops : list op) (g : op -> list V),
    fold_left (fun l io => app_nth l (fst io) (ev c (snd io) t s))
              (combine (seq 0 (length ops)) ops) (map g ops)
    = map (fun op => g op ++ [ev c op t s]) ops.
  Proof.
    intros c t s ops g.
    pose proof (fold_app_nth V op (fun o => ev c o t s) ops [] (map g ops)) as H.
    simpl in H. rewrite H by apply map_length.
    apply (combine_map_self op (list V) (list V) g
             (fun xo => fst xo ++ [ev c (snd xo) t s])).
  Qed.

  Lemma rows_snoc : forall c (ops : list op) (pts : list pt) (q : T * S),
    map (fun op => map (fun p => ev c op (pt_time p) (seen c p)) pts
                   ++ [ev c op (fst q) (snd q)]) ops
    = map (fun op => map (fun p => ev c op (fst p) (snd p))
                         (map (fun p => (pt_time p, seen c p)) pts ++ [q])) ops.
  Proof.
    intros c ops pts q. apply map_ext. intros op0.
    rewrite map_app, map_map. reflexivity.
  Qed.

  (* Result.add on a closed-form object: the point (t, s) is what the
     processors see *)
  Definition spec_pts (c : cls) (o : opts) (e : eops) (m : list op)
             (tm : list T) (seenl : list (T * S)) (rawl : list S) (nz : list N) : result :=
    let d := e_ops_to_dict e in
    let ops := map snd d in
    let st := stores_states o (length ops) in
    let fin := store_final_state o && negb st in
    let kp := fun q : T * S => match c with CHeom => rho (snd q) | _ => snd q end in
    let procs := eop_procs ops ++ post_init_procs o (length ops)
                 ++ (if use_m c o then mop_procs m else []) in
    {| r_cls := c; r_opts := o;
       r_times := tm;
       r_keys := map fst d; r_ops := ops;
       r_edata := map (fun op => map (fun p => ev c op (fst p) (snd p)) seenl) ops;
       r_states := if st then map kp seenl else [];
       r_final := if fin then last_opt (map kp seenl) else None;
       r_procs := procs;
       r_copy := existsb proc_requires_copy procs;
       r_ado := if is_heom c && st && store_ados o then map snd seenl else [];
       r_final_ado := if is_heom c && fin && store_ados o
                      then last_opt (map snd seenl) else None;
       r_flo := if is_flo c && store_floquet_states o then rawl else [];
       r_noise := if is_stoch c then nz else [];
       r_mexp := if use_m c o
                 then map (fun op => map (fun p => ev c op (fst p) (snd p)) seenl) m
                 else [] |}.

  Lemma base_add_spec : forall c o e m tm seenl rawl nz t s,
    base_add (spec_pts c o e m tm seenl rawl nz) t s
    = spec_pts c o e m (tm ++ [t]) (seenl ++ [(t, s)]) rawl nz.
  Proof.
    intros c o e m tm seenl rawl nz t s.
    unfold Model.C12.base_add.
    set (RHS := spec_pts c o e m (tm ++ [t]) (seenl ++ [(t, s)]) rawl nz).
    unfold spec_pts. cbn [r_procs r_times].
    rewrite !fold_left_app.
    unfold eop_procs. rewrite fold_eops.
    cbn [set_times r_edata r_cls set_edata r_opts r_times r_keys r_ops r_states r_final
         r_procs r_copy r_ado r_final_ado r_flo r_noise r_mexp].
    rewrite fold_rows.
    set (ops := map snd (e_ops_to_dict e)).
    set (st := stores_states o (length ops)).
    set (kp := fun q : T * S => match c with CHeom => rho (snd q) | _ => snd q end).
    (* the storing processors *)
    assert (EM : forall r : result,
      r_cls T S V N r = c ->
      r_mexp T S V N r = (if use_m c o
                 then map (fun op => map (fun p => ev c op (fst p) (snd p)) seenl) m
                 else []) ->
      fold_left (run_proc t s) (if use_m c o then mop_procs m else []) r
      = set_mexp T S V N r (if use_m c o
                 then map (fun op => map (fun p => ev c op (fst p) (snd p)) (seenl ++ [(t, s)])) m
                 else [])).
    { intros r Hc Hm. destruct (use_m c o).
      - unfold mop_procs. rewrite fold_mops. rewrite Hc, Hm. rewrite fold_rows.
        f_equal. apply map_ext. intros op0. rewrite map_app. reflexivity.
      - simpl. rewrite <- Hm. symmetry. apply set_mexp_id. }
    assert (ROWS : map (fun op => map (fun p => ev c op (fst p) (snd p)) seenl ++ [ev c op t s]) ops
                 = map (fun op => map (fun p => ev c op (fst p) (snd p)) (seenl ++ [(t, s)])) ops).
    { apply map_ext. intros op0. rewrite map_app. reflexivity. }
    rewrite ROWS. clear ROWS.
    subst RHS. unfold spec_pts, post_init_procs. fold ops. fold st. fold kp.
    destruct st eqn:Est.
    - (* states stored: [PStoreState], no PStoreFinal *)
      cbn [negb]. rewrite !andb_false_r. cbn [app fold_left].
      rewrite EM.
      + unfold Model.C12.run_proc.
        cbn [r_cls r_opts r_states r_ado set_states set_mexp set_edata set_times r_times r_keys
             r_ops r_edata r_final r_procs r_copy r_final_ado r_flo r_noise r_mexp].
        destruct c; cbn [is_heom andb set_states r_cls r_opts r_states r_ado r_times r_keys
             r_ops r_edata r_final r_procs r_copy r_final_ado r_flo r_noise r_mexp];
          try (rewrite map_app; reflexivity).
        destruct (store_ados o); cbn [andb]; rewrite !map_app; reflexivity.
      + unfold Model.C12.run_proc. cbn [r_cls set_edata set_times]. destruct c; reflexivity.
      + unfold Model.C12.run_proc. cbn [r_cls set_edata set_times]. destruct c; reflexivity.
    - cbn [negb]. rewrite !andb_true_r. destruct (store_final_state o) eqn:Ef.
      + cbn [app fold_left].
        rewrite EM.
        * unfold Model.C12.run_proc.
          cbn [r_cls r_opts r_states r_ado set_final set_mexp set_edata set_times r_times r_keys
               r_ops r_edata r_final r_procs r_copy r_final_ado r_flo r_noise r_mexp].
          destruct c; cbn [is_heom andb set_final r_cls r_opts r_states r_ado r_times r_keys
               r_ops r_edata r_final r_procs r_copy r_final_ado r_flo r_noise r_mexp];
            rewrite ?map_app; cbn [map]; rewrite ?last_opt_snoc; try reflexivity.
          destruct (store_ados o); cbn [andb]; rewrite ?map_app; cbn [map];
            rewrite ?last_opt_snoc; reflexivity.
        * unfold Model.C12.run_proc. cbn [r_cls set_edata set_times]. destruct c; reflexivity.
        * unfold Model.C12.run_proc. cbn [r_cls set_edata set_times]. destruct c; reflexivity.
      + cbn [app fold_left]. rewrite EM; [|reflexivity|reflexivity].
        cbn [set_mexp set_edata set_times r_cls r_opts r_states r_ado r_times r_keys r_ops r_edata
               r_final r_procs r_copy r_final_ado r_flo r_noise r_mexp].
        rewrite !andb_false_r. reflexivity.
  Qed.

  Lemma spec_is_spec_pts : forall c o e m pts,
    spec c o e m pts
    = spec_pts c o e m (map pt_time pts) (map (fun p => (pt_time p, seen c p)) pts)
               (map pt_raw pts) (noises pts).
  Proof.
    intros c o e m pts. unfold spec, spec_pts.
    assert (K : map (fun q : T * S => match c with CHeom => rho (snd q) | _ => snd q end)
                    (map (fun p => (pt_time p, seen c p)) pts) = map (kept c) pts).
    { rewrite map_map. apply map_ext. intros p. unfold kept. destruct c; reflexivity. }
    assert (R : forall l : list op,
      map (fun op => map (fun p => ev c op (fst p) (snd p))
                         (map (fun p => (pt_time p, seen c p)) pts)) l
      = map (fun op => map (fun p => ev c op (pt_time p) (seen c p)) pts) l).
    { intros l. apply map_ext. intros op0. rewrite map_map. reflexivity. }
    rewrite K, !R.
    assert (A : forall b : bool, is_heom c && b = true ->
                map snd (map (fun p => (pt_time p, seen c p)) pts) = map pt_raw pts).
    { intros b Hb. rewrite map_map. apply map_ext. intros p. destruct c; try discriminate.
      reflexivity. }
    f_equal.
    - destruct (is_heom c && stores_states o (length (map snd (e_ops_to_dict e))) && store_ados o) eqn:E;
        [|reflexivity].
      symmetry. apply (A (stores_states o (length (map snd (e_ops_to_dict e))))).
      apply andb_true_iff in E. tauto.
    - destruct (is_heom c && (store_final_state o && negb (stores_states o (length (map snd (e_ops_to_dict e))))) && store_ados o) eqn:E;
        [|reflexivity].
      f_equal. symmetry.
      apply (A (store_final_state o && negb (stores_states o (length (map snd (e_ops_to_dict e)))))).
      apply andb_true_iff in E. tauto.
  Qed.

  Lemma noises_snoc : forall pts p,
    noises (pts ++ [p]) = noises pts ++ match snd p with Some n => [n] | None => [] end.
  Proof.
    intros pts p. unfold noises. rewrite flat_map_app. simpl. rewrite app_nil_r. reflexivity.
  Qed.

  Lemma add_spec : forall c o e m pts p,
    add (spec c o e m pts) (pt_time p) (pt_raw p) (snd p) = spec c o e m (pts ++ [p]).
  Proof.
    intros c o e m pts p.
    rewrite !spec_is_spec_pts.
    rewrite !map_app. cbn [map]. rewrite noises_snoc.
    unfold Model.C12.add.
    replace (r_cls T S V N (spec_pts c o e m (map pt_time pts)
               (map (fun p0 => (pt_time p0, seen c p0)) pts) (map pt_raw pts) (noises pts)))
      with c by reflexivity.
    destruct c.
    - rewrite base_add_spec. reflexivity.
    - rewrite base_add_spec. reflexivity.
    - (* FloquetResult.add *)
      cbn [r_opts spec_pts].
      destruct (store_floquet_states o) eqn:F.
      + match goal with |- base_add ?r _ _ = _ =>
          replace r with (spec_pts CFloquet o e m (map pt_time pts)
             (map (fun p0 => (pt_time p0, seen CFloquet p0)) pts) (map pt_raw pts ++ [pt_raw p]) (noises pts))
        end.
        * rewrite base_add_spec. unfold spec_pts. cbn [is_flo is_stoch andb]. reflexivity.
        * unfold spec_pts, set_flo. cbn [is_flo andb r_cls r_opts r_times r_keys r_ops r_edata
            r_states r_final r_procs r_copy r_ado r_final_ado r_flo r_noise r_mexp].
          rewrite F. reflexivity.
      + fold (spec_pts CFloquet o e m (map pt_time pts)
             (map (fun p0 => (pt_time p0, seen CFloquet p0)) pts) (map pt_raw pts) (noises pts)).
        rewrite base_add_spec. unfold spec_pts. cbn [is_flo andb]. rewrite F. reflexivity.
    - (* StochasticTrajResult.add *)
      rewrite base_add_spec.
      destruct (snd p) as [n|].
      + unfold spec_pts, set_noise. cbn [is_stoch r_cls r_opts r_times r_keys r_ops r_edata
            r_states r_final r_procs r_copy r_ado r_final_ado r_flo r_noise r_mexp]. reflexivity.
      + rewrite app_nil_r. reflexivity.
  Qed.

  Lemma adds_spec_from : forall c o e m qs pts,
    adds (spec c o e m pts) qs = spec c o e m (pts ++ qs).
  Proof.
    intros c o e m qs. induction qs as [|q qs IH]; intros pts.
    - rewrite app_nil_r. reflexivity.
    - unfold Model.C12.adds. cbn [fold_left].
      fold (pt_time q). fold (pt_raw q).
      rewrite add_spec.
      change (adds (spec c o e m (pts ++ [q])) qs = spec c o e m (pts ++ q :: qs)).
      rewrite IH. rewrite <- app_assoc. reflexivity.
  Qed.

  (* the main lemma: any history of add calls on a freshly built object *)
  Lemma adds_spec : forall c o e m r0 pts,
    new_result c o e m = Ok r0 -> adds r0 pts = spec c o e m pts.
  Proof.
    intros c o e m r0 pts H. rewrite (new_result_spec _ _ _ _ _ H).
    apply (adds_spec_from c o e m pts []).
  Qed.

  (* ------------------------------------------- consequences of the closed form *)
  Definition nops (e : eops) : nat := length (map snd (e_ops_to_dict e)).

  Lemma existsb_eop_procs : forall ops, existsb proc_requires_copy (eop_procs ops) = false.
  Proof.
    intros ops. unfold eop_procs. generalize (combine (seq 0 (length ops)) ops).
    intros l. induction l as [|x l IH]; simpl; [reflexivity|exact IH].
  Qed.
  Lemma existsb_mop_procs : forall ops, existsb proc_requires_copy (mop_procs ops) = false.
  Proof.
    intros ops. unfold mop_procs. generalize (combine (seq 0 (length ops)) ops).
    intros l. induction l as [|x l IH]; simpl; [reflexivity|exact IH].
  Qed.

  Lemma spec_copy : forall c o e m pts,
    r_copy T S V N (spec c o e m pts) = stores_states o (nops e) || store_final_state o.
  Proof.
    intros c o e m pts. unfold spec, nops. cbn [r_copy].
    rewrite !existsb_app, existsb_eop_procs. unfold post_init_procs.
    assert (M : existsb proc_requires_copy (if use_m c o then mop_procs m else []) = false).
    { destruct (use_m c o); [apply existsb_mop_procs|reflexivity]. }
    rewrite M.
    destruct (stores_states o (length (map snd (e_ops_to_dict e))));
      destruct (store_final_state o); reflexivity.
  Qed.

  Lemma spec_final_state : forall c o e m pts,
    final_state T S V N (spec c o e m pts)
    = if store_final_state o || stores_states o (nops e)
      then last_opt (map (kept c) pts) else None.
  Proof.
    intros c o e m pts. unfold Model.C12.final_state, spec, nops. cbn [r_final r_states].
    destruct (stores_states o (length (map snd (e_ops_to_dict e)))) eqn:St;
      destruct (store_final_state o) eqn:Sf; cbn [andb orb negb]; try reflexivity.
    destruct (last_opt (map (kept c) pts)); reflexivity.
  Qed.

  Lemma spec_e_data : forall c o e m pts,
    e_data T S V N (spec c o e m pts)
    = map (fun ko => (fst ko, map (fun p => ev c (snd ko) (pt_time p) (seen c p)) pts))
          (e_ops_to_dict e).
  Proof.
    intros c o e m pts. unfold Model.C12.e_data, spec. cbn [r_keys r_edata].
    induction (e_ops_to_dict e) as [|ko d IH]; simpl; [reflexivity|].
    rewrite IH. reflexivity.
  Qed.

  Lemma dict_keys : forall e,
    map fst (e_ops_to_dict e)
    = match e with
      | ENone => []
      | ESingle _ => [KInt 0]
      | EList l => map KInt (seq 0 (length l))
      | EDict d => map fst d
      end.
  Proof. intros e. destruct e; simpl; try reflexivity. apply combine_keys_fst. Qed.

  Lemma dict_ops : forall e,
    map snd (e_ops_to_dict e)
    = match e with
      | ENone => []
      | ESingle o => [o]
      | EList l => l
      | EDict d => map snd d
      end.
  Proof. intros e. destruct e; simpl; try reflexivity. apply combine_keys_seq. Qed.

  Lemma stores_states_iff : forall o n,
    stores_states o n = true <->
    store_states o = Some true \/ (store_states o = None /\ n = 0).
  Proof.
    intros o n. unfold stores_states. destruct (store_states o) as [b|].
    - split; [intros H; left; rewrite H; reflexivity|].
      intros [H|[H _]]; [injection H as H; exact H|discriminate].
    - rewrite Nat.eqb_eq. split; [intros H; right; split; [reflexivity|exact H]|].
      intros [H|[_ H]]; [discriminate|exact H].
  Qed.

  Lemma spec_final_ado : forall o e m pts,
    final_ado_state T S V N (spec CHeom o e m pts)
    = if store_ados o then
        if store_final_state o || stores_states o (nops e)
        then match last_opt (map pt_raw pts) with Some a => Obj a | None => PyNone end
        else PyNone
      else NoAttr.
  Proof.
    intros o e m pts. unfold Model.C12.final_ado_state, spec, nops.
    cbn [r_cls r_opts r_final_ado r_final r_ado is_heom andb].
    destruct (store_ados o); [|reflexivity].
    destruct (stores_states o (length (map snd (e_ops_to_dict e)))) eqn:St;
      cbn [andb negb]; rewrite ?andb_false_r, ?andb_true_r, ?orb_true_r, ?orb_false_r;
      cbn [andb].
    - reflexivity.
    - destruct (store_final_state o); cbn [andb].
      + destruct (last_opt (map pt_raw pts)); reflexivity.
      + reflexivity.
  Qed.

  (* ------------------------------------------------------------ Solver.run *)
  Variables (D IS : Type).
  Variable prepare : S -> D.
  Variable restore : D -> S.
  Variable set_state : T -> D -> IS.
  Variable integrate : IS -> T -> IS * (T * D * option N).
  Local Notation solver_run :=
    (solver_run T S V N D expectQ expectE callF rho conv IS prepare restore set_state integrate).
  Local Notation integ_run := (integ_run T N D IS integrate).
  Local Notation out_point := (out_point T S N D restore).

  Definition run_points (s0 : S) (t0 : T) (rest : list T) : list pt :=
    (t0, restore (prepare s0), None)
      :: map out_point (integ_run (set_state t0 (prepare s0)) rest).

  Lemma solver_run_spec : forall c o e m s0 t0 rest r,
    solver_run c o e m s0 (t0 :: rest) = Ok r ->
    r = spec c o e m (run_points s0 t0 rest).
  Proof.
    intros c o e m s0 t0 rest r H. unfold Model.C12.solver_run in H.
    destruct (new_result c o e m) as [r0|x] eqn:E; [|discriminate].
    injection H as H. subst r.
    rewrite (new_result_spec _ _ _ _ _ E).
    change (Model.C12.add T S V N expectQ expectE callF rho conv (spec c o e m []) t0
              (restore (prepare s0)) None)
      with (add (spec c o e m []) (pt_time (t0, restore (prepare s0), @None N))
              (pt_raw (t0, restore (prepare s0), @None N)) (snd (t0, restore (prepare s0), @None N))).
    rewrite add_spec. rewrite adds_spec_from. reflexivity.
  Qed.

  Lemma solver_run_empty : forall c o e m s0,
    solver_run c o e m s0 []
    = match c, new_result c o e m with
      | CStoch, Raise x => Raise x
      | _, _ => Raise IndexError
      end.
  Proof. reflexivity. Qed.

  Lemma solver_run_empty_not_ok : forall c o e m s0 r,
    solver_run c o e m s0 [] = Ok r -> False.
  Proof.
    intros c o e m s0 r H. rewrite solver_run_empty in H.
    destruct c; try discriminate.
    destruct (new_result CStoch o e m); discriminate.
  Qed.

  Lemma solver_run_ok : forall c o e m s0 t0 rest,
    forallb op_ok (map snd (e_ops_to_dict e)) = true ->
    (use_m c o = true -> forallb op_ok m = true) ->
    solver_run c o e m s0 (t0 :: rest) = Ok (spec c o e m (run_points s0 t0 rest)).
  Proof.
    intros c o e m s0 t0 rest H1 H2.
    destruct (solver_run c o e m s0 (t0 :: rest)) as [r|x] eqn:E.
    - rewrite (solver_run_spec _ _ _ _ _ _ _ _ E). reflexivity.
    - unfold Model.C12.solver_run in E. rewrite (new_result_ok c o e m H1 H2) in E.
      discriminate.
  Qed.

  Lemma integ_run_length : forall ts i, length (integ_run i ts) = length ts.
  Proof.
    intros ts. induction ts as [|t ts IH]; intros i; simpl; [reflexivity|].
    rewrite IH. reflexivity.
  Qed.

  Lemma integ_run_times : forall ts i,
    (forall j t, fst (fst (snd (integrate j t))) = t) ->
    map (fun x => fst (fst x)) (integ_run i ts) = ts.
  Proof.
    intros ts. induction ts as [|t ts IH]; intros i H; simpl; [reflexivity|].
    rewrite H, IH by exact H. reflexivity.
  Qed.

  Lemma integ_run_noise : forall ts i,
    (forall j t, snd (snd (integrate j t)) <> None) ->
    length (noises (map out_point (integ_run i ts))) = length ts.
  Proof.
    intros ts. induction ts as [|t ts IH]; intros i H; simpl; [reflexivity|].
    rewrite app_length, IH by exact H.
    destruct (snd (snd (integrate i t))) eqn:E; [reflexivity|].
    exfalso. exact (H i t E).
  Qed.

  Lemma integ_run_no_noise : forall ts i,
    (forall j t, snd (snd (integrate j t)) = None) ->
    noises (map out_point (integ_run i ts)) = [].
  Proof.
    intros ts. induction ts as [|t ts IH]; intros i H; simpl; [reflexivity|].
    rewrite IH by exact H. rewrite H. reflexivity.
  Qed.
End Proofs.
