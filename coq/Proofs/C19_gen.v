(* Proofs for C19, part 3: block keys of the generator, coefficient algebra
   over an arbitrary commutative ring, exponent combination, result object. *)
From Coq Require Import List ZArith Bool Arith Lia Ring.
Import ListNotations.
From QV Require Import Model.C19 Proofs.C19 Proofs.C19_enum.

(* ------------------------------------------------------------ block keys *)
Definition tag_row (t : btag) : label :=
  match t with TGradN n | TNext n _ | TPrev n _ => n end.

Definition tag_col (t : btag) : label :=
  match t with
  | TGradN n => n
  | TNext n k => set_at n k (nth k n 0 + 1)
  | TPrev n k => set_at n k (nth k n 0 - 1)
  end.

Definition tag_ok (dims : list nat) (D : nat) (labels : list label) (t : btag) : Prop :=
  In (tag_row t) labels /\
  match t with
  | TGradN _ => True
  | TNext n k => k < length dims /\ ados_next dims D n k = Some (tag_col t)
  | TPrev n k => k < length dims /\ ados_prev n k = Some (tag_col t)
  end.

Lemma rhs_ops_in dims D labels b :
  In b (rhs_ops dims D labels) ->
  b = (idx_of labels (tag_row (snd b)), idx_of labels (tag_col (snd b)), snd b) /\
  tag_ok dims D labels (snd b).
Proof.
  unfold rhs_ops. rewrite in_flat_map. intros (n & Hn & Hb).
  unfold rhs_ops_label in Hb. destruct Hb as [Hb|Hb].
  - subst b. simpl. split; [reflexivity|]. split; [assumption|exact I].
  - apply in_flat_map in Hb. destruct Hb as (k & Hk & Hb). apply in_seq in Hk.
    apply in_app_iff in Hb. destruct Hb as [Hb|Hb].
    + destruct (ados_next dims D n k) as [m|] eqn:E; [|destruct Hb].
      destruct Hb as [Hb|[]]. subst b. simpl.
      pose proof (next_spec _ _ _ _ _ E) as (-> & _ & _).
      split; [reflexivity|]. split; [assumption|]. split; [lia|assumption].
    + destruct (ados_prev n k) as [m|] eqn:E; [|destruct Hb].
      destruct Hb as [Hb|[]]. subst b. simpl.
      pose proof (prev_spec _ _ _ E) as (-> & _).
      split; [reflexivity|]. split; [assumption|]. split; [lia|assumption].
Qed.

Lemma rhs_ops_in_conv dims D labels t :
  tag_ok dims D labels t ->
  In (idx_of labels (tag_row t), idx_of labels (tag_col t), t) (rhs_ops dims D labels).
Proof.
  intros [Hin Ht]. unfold rhs_ops. apply in_flat_map. exists (tag_row t).
  split; [assumption|]. unfold rhs_ops_label.
  destruct t as [n|n k|n k]; simpl in *.
  - now left.
  - right. destruct Ht as [Hk E]. apply in_flat_map. exists k. split; [apply in_seq; lia|].
    apply in_app_iff. left. rewrite E. now left.
  - right. destruct Ht as [Hk E]. apply in_flat_map. exists k. split; [apply in_seq; lia|].
    apply in_app_iff. right. rewrite E. now left.
Qed.

Section Keys.
Variables (dims : list nat) (D : nat).
Let labels := enum_spec dims D.

Lemma labels_valid n : In n labels <-> valid dims D n.
Proof. unfold labels. rewrite enum_spec_iff. symmetry. apply valid_valid2. Qed.

Lemma tag_col_valid t : tag_ok dims D labels t -> valid dims D (tag_col t).
Proof.
  intros [Hin Ht]. apply labels_valid in Hin. destruct t as [n|n k|n k]; simpl in *.
  - assumption.
  - destruct Ht as [Hk E]. eapply next_valid; eassumption.
  - destruct Ht as [Hk E]. eapply prev_valid; eassumption.
Qed.

(* every f_idx lookup made by add_op succeeds *)
Lemma blocks_lookup_total b :
  In b (rhs_ops dims D labels) -> exists r c, blk_key b = Some (r, c) /\
     r < length labels /\ c < length labels.
Proof.
  intros Hb. destruct (rhs_ops_in _ _ _ _ Hb) as [E Hok].
  pose proof (tag_col_valid _ Hok) as Hc. destruct Hok as [Hr _].
  apply labels_valid in Hc.
  destruct (idx_of_in _ _ Hr) as [r Er]. destruct (idx_of_in _ _ Hc) as [c Ec].
  exists r, c. rewrite E. simpl. rewrite Er, Ec. split; [reflexivity|].
  split; eapply idx_of_lt; eassumption.
Qed.

Lemma tag_eq_of_row_col t1 t2 :
  tag_ok dims D labels t1 -> tag_ok dims D labels t2 ->
  tag_row t1 = tag_row t2 -> tag_col t1 = tag_col t2 -> t1 = t2.
Proof.
  intros [H1 O1] [H2 O2] Hr Hc.
  apply labels_valid in H1. destruct H1 as (Hl & _ & _).
  destruct t1 as [n|n k|n k]; destruct t2 as [n'|n' k'|n' k']; simpl in *; subst n'.
  - reflexivity.
  - exfalso. destruct O2 as [Hk E]. apply next_spec in E. destruct E as (_ & _ & _).
    assert (nth k' n 0 = nth k' (set_at n k' (nth k' n 0 + 1)) 0) by (rewrite <- Hc; reflexivity).
    rewrite nth_set_at, Nat.eqb_refl in H by lia. lia.
  - exfalso. destruct O2 as [Hk E]. apply prev_spec in E. destruct E as (_ & Hp).
    assert (nth k' n 0 = nth k' (set_at n k' (nth k' n 0 - 1)) 0) by (rewrite <- Hc; reflexivity).
    rewrite nth_set_at, Nat.eqb_refl in H by lia. lia.
  - exfalso. destruct O1 as [Hk E].
    assert (nth k n 0 = nth k (set_at n k (nth k n 0 + 1)) 0) by (rewrite Hc; reflexivity).
    rewrite nth_set_at, Nat.eqb_refl in H by lia. lia.
  - destruct O1 as [Hk _]. destruct O2 as [Hk' _].
    destruct (Nat.eq_dec k k') as [->|Hne]; [reflexivity|]. exfalso.
    assert (nth k (set_at n k (nth k n 0 + 1)) 0 = nth k (set_at n k' (nth k' n 0 + 1)) 0)
      by (rewrite Hc; reflexivity).
    rewrite !nth_set_at in H by lia. rewrite Nat.eqb_refl in H.
    replace (k =? k') with false in H by (symmetry; apply Nat.eqb_neq; assumption). lia.
  - exfalso. destruct O1 as [Hk _]. destruct O2 as [Hk' E].
    apply prev_spec in E. destruct E as (_ & Hp).
    pose proof (lsum_set_at n k (nth k n 0 + 1) ltac:(lia)).
    pose proof (lsum_set_at n k' (nth k' n 0 - 1) ltac:(lia)).
    rewrite Hc in H. lia.
  - exfalso. destruct O1 as [Hk E]. apply prev_spec in E. destruct E as (_ & Hp).
    assert (nth k n 0 = nth k (set_at n k (nth k n 0 - 1)) 0) by (rewrite Hc; reflexivity).
    rewrite nth_set_at, Nat.eqb_refl in H by lia. lia.
  - exfalso. destruct O2 as [Hk' _]. destruct O1 as [Hk E].
    apply prev_spec in E. destruct E as (_ & Hp).
    pose proof (lsum_set_at n k' (nth k' n 0 + 1) ltac:(lia)).
    pose proof (lsum_set_at n k (nth k n 0 - 1) ltac:(lia)).
    rewrite Hc in H0. lia.
  - destruct O1 as [Hk E]. destruct O2 as [Hk' E'].
    apply prev_spec in E. apply prev_spec in E'. destruct E as (_ & Hp). destruct E' as (_ & Hp').
    destruct (Nat.eq_dec k k') as [->|Hne]; [reflexivity|]. exfalso.
    assert (nth k (set_at n k (nth k n 0 - 1)) 0 = nth k (set_at n k' (nth k' n 0 - 1)) 0)
      by (rewrite Hc; reflexivity).
    rewrite !nth_set_at in H by lia. rewrite Nat.eqb_refl in H.
    replace (k =? k') with false in H by (symmetry; apply Nat.eqb_neq; assumption). lia.
Qed.

(* two operators are never placed on the same block position *)
Lemma blocks_no_overlap b1 b2 key :
  In b1 (rhs_ops dims D labels) -> In b2 (rhs_ops dims D labels) ->
  blk_key b1 = Some key -> blk_key b2 = Some key -> snd b1 = snd b2.
Proof.
  intros H1 H2 K1 K2.
  destruct (rhs_ops_in _ _ _ _ H1) as [E1 O1]. destruct (rhs_ops_in _ _ _ _ H2) as [E2 O2].
  rewrite E1 in K1. rewrite E2 in K2. simpl in K1, K2.
  destruct (idx_of labels (tag_row (snd b1))) as [r1|] eqn:R1; [|discriminate].
  destruct (idx_of labels (tag_col (snd b1))) as [c1|] eqn:C1; [|discriminate].
  destruct (idx_of labels (tag_row (snd b2))) as [r2|] eqn:R2; [|discriminate].
  destruct (idx_of labels (tag_col (snd b2))) as [c2|] eqn:C2; [|discriminate].
  inversion K1; subst key. inversion K2; subst r2 c2.
  apply idx_of_sound in R1, R2, C1, C2.
  apply tag_eq_of_row_col; try assumption; congruence.
Qed.

(* the block row of rho_0 holds only the diagonal block and `next` blocks *)
Lemma row0_tags t :
  tag_ok dims D labels t -> tag_row t = repeat 0 (length dims) ->
  t = TGradN (repeat 0 (length dims)) \/ exists k, k < length dims /\ t = TNext (repeat 0 (length dims)) k.
Proof.
  intros [Hin Ht] Hr. destruct t as [n|n k|n k]; simpl in *; subst n.
  - now left.
  - right. exists k. split; [tauto|reflexivity].
  - exfalso. destruct Ht as [Hk E]. apply prev_spec in E. destruct E as (_ & Hp).
    rewrite nth_repeat in Hp. lia.
Qed.

End Keys.

Lemma flat_map_all_nil {A B} (f : A -> list B) (l : list A) :
  (forall x, In x l -> f x = []) -> flat_map f l = [].
Proof.
  induction l as [|a l IH]; intros H; simpl; [reflexivity|].
  rewrite (H a) by (simpl; auto). simpl. apply IH. intros x Hx. apply H. now right.
Qed.

Lemma ados_dims_pos D edims : Forall (fun d => 1 <= d) (ados_dims D edims).
Proof.
  unfold ados_dims. induction edims as [|e l IH]; simpl; constructor; [|assumption].
  unfold ados_dim. destruct e as [[|d]|]; lia.
Qed.

(* ----------------------------------------------- coefficient algebra (ring) *)
Section Ring.
Variable C : Type.
Variables (c0 c1 : C) (cadd cmul : C -> C -> C) (cneg : C -> C).
Variable ci : C.
Variable cconj : C -> C.
Variable ceqb : C -> C -> bool.
Hypothesis Rth : ring_theory c0 c1 cadd cmul (fun a b => cadd a (cneg b)) cneg eq.
Hypothesis cconj_0 : cconj c0 = c0.
Hypothesis ceqb_eq : forall a b, ceqb a b = true -> a = b.

Add Ring Cring : Rth.

Notation bexp := (bexp C).
Notation "a +! b" := (cadd a b) (at level 50, left associativity).
Notation "a *! b" := (cmul a b) (at level 40, left associativity).

Notation vk_sum := (Model.C19.vk_sum C c0 c1 cadd cmul).
Notation grad_n := (Model.C19.grad_n C c0 c1 cadd cmul cneg).
Notation grad_next := (Model.C19.grad_next C c0 c1 cmul cneg ci).
Notation grad_prev := (Model.C19.grad_prev C c0 c1 cadd cmul cneg ci cconj).
Notation block_op := (Model.C19.block_op C c0 c1 cadd cmul cneg ci cconj).
Notation heom_blocks := (Model.C19.heom_blocks C c0 c1 cadd cmul cneg ci cconj).
Notation heom_dims := (Model.C19.heom_dims C).

Lemma vk_sum_zero_gen (exps : list bexp) m acc :
  fold_left cadd (map (fun p : nat * bexp => cmul (natC C c0 c1 cadd (fst p)) (e_vk C (snd p)))
                      (combine (repeat 0 m) exps)) acc = acc.
Proof.
  revert m acc. induction exps as [|e exps IH]; intros [|m] acc; simpl; try reflexivity.
  rewrite IH. ring.
Qed.

Lemma vk_sum_zero exps m : vk_sum exps (repeat 0 m) = c0.
Proof. apply vk_sum_zero_gen. Qed.

(* ---- depth 0: the hierarchy part of the generator is the single zero block *)
Lemma heom_dims_length exps D : length (heom_dims exps D) = length exps.
Proof. unfold Model.C19.heom_dims, ados_dims. now rewrite !map_length. Qed.

Lemma depth0_blocks exps odd :
  heom_blocks exps 0 odd = Some [((0, 0), [(c0, BId)])].
Proof.
  unfold Model.C19.heom_blocks.
  rewrite sne_enum by apply ados_dims_pos.
  rewrite enum_spec_depth0 by apply ados_dims_pos.
  set (z := repeat 0 (length (heom_dims exps 0))).
  unfold rhs_ops. simpl flat_map. rewrite app_nil_r. unfold rhs_ops_label.
  rewrite flat_map_all_nil.
  - simpl. rewrite label_eqb_refl. simpl.
    unfold Model.C19.grad_n. unfold z. rewrite vk_sum_zero.
    replace (cneg c0) with c0 by ring. reflexivity.
  - intros k Hk.
    assert (E1 : ados_next (heom_dims exps 0) 0 z k = None) by (apply next_none; right; lia).
    assert (E2 : ados_prev z k = None) by (apply prev_none; unfold z; apply nth_repeat).
    rewrite E1, E2. reflexivity.
Qed.

(* ---- trace functional of a block: coefficients per class of cached operator
   (tr o spre(A) = tr o spost(A) = tr(A .)) *)
Definition bclass (b : sbasis) : option (nat * bool) :=
  match b with
  | BId => None
  | BPre k | BPost k => Some (k, false)
  | BPreD k | BPostD k => Some (k, true)
  end.

Definition class_eqb (a b : option (nat * bool)) : bool :=
  match a, b with
  | None, None => true
  | Some (k, d), Some (k', d') => (k =? k') && Bool.eqb d d'
  | _, _ => false
  end.

Definition tr_coef (op : sop C) (cls : option (nat * bool)) : C :=
  fold_right (fun (p : C * sbasis) acc =>
                if class_eqb (bclass (snd p)) cls then cadd (fst p) acc else acc) c0 op.

Lemma lsum_ferm_zero (exps : list bexp) m : lsum (ferm_n C exps (repeat 0 m)) = 0.
Proof.
  unfold ferm_n. revert m. induction exps as [|e exps IH]; intros [|m]; simpl; try reflexivity.
  rewrite IH. now destruct (fermionic (e_type C e)).
Qed.

Lemma tr_coef_pmp k c cls : tr_coef (pmp C cneg k c) cls = c0.
Proof.
  unfold tr_coef, pmp. destruct cls as [[k' d]|]; simpl; [|ring].
  destruct (k =? k'), d; simpl; ring.
Qed.

Lemma tr_coef_pmpD k c cls : tr_coef (pmpD C cneg k c) cls = c0.
Proof.
  unfold tr_coef, pmpD. destruct cls as [[k' d]|]; simpl; [|ring].
  destruct (k =? k'), d; simpl; ring.
Qed.

Lemma trace_next_row0 exps m k op cls :
  grad_next exps (repeat 0 m) k false = Some op -> tr_coef op cls = c0.
Proof.
  unfold Model.C19.grad_next.
  destruct (fermionic (e_type C (nthe C c0 exps k))).
  - unfold grad_next_fermionic, sign1_exp. rewrite lsum_ferm_zero. simpl.
    destruct (e_type C (nthe C c0 exps k)); intros H; inversion H; subst;
      [apply tr_coef_pmp|apply tr_coef_pmpD].
  - intros H. inversion H. apply tr_coef_pmp.
Qed.

Lemma trace_gradn_row0 exps m cls : tr_coef (grad_n exps (repeat 0 m)) cls = c0.
Proof.
  unfold Model.C19.grad_n, tr_coef. fold (vk_sum exps (repeat 0 m)).
  rewrite vk_sum_zero. destruct cls as [[k' d]|]; simpl; ring.
Qed.

(* trace conservation of the system block, even parity: every operator placed
   in the block row of rho_0 has vanishing trace functional *)
Lemma trace_row0 exps D b op cls :
  let dims := heom_dims exps D in
  In b (rhs_ops dims D (enum_spec dims D)) ->
  tag_row (snd b) = repeat 0 (length dims) ->
  block_op exps false (snd b) = Some op -> tr_coef op cls = c0.
Proof.
  intros dims Hb Hrow Hop.
  destruct (rhs_ops_in _ _ _ _ Hb) as [_ Hok].
  destruct (row0_tags _ _ _ Hok Hrow) as [E|(k & Hk & E)]; rewrite E in Hop; simpl in Hop.
  - inversion Hop. apply trace_gradn_row0.
  - eapply trace_next_row0. exact Hop.
Qed.

(* odd parity: the `next` block of a fermionic exponent in row 0 is an
   anticommutator (pre + post): the property is stated for even parity only *)
Lemma odd_parity_row0_plus exps m k :
  e_type C (nthe C c0 exps k) = TPlus ->
  grad_next exps (repeat 0 m) k true =
  Some (ppp C k (cmul (cneg ci) (sgn C c1 cneg (sign2_exp C exps (repeat 0 m) k true)))).
Proof.
  intros E. unfold Model.C19.grad_next. rewrite E. simpl.
  unfold grad_next_fermionic. rewrite E. unfold sign1_exp. rewrite lsum_ferm_zero.
  reflexivity.
Qed.

(* ---- vanishing coupling: every `prev` block is zero, so the ADOs stay zero
   and rho_0 evolves under the diagonal block alone *)
Definition zero_coupling (exps : list bexp) : Prop :=
  Forall (fun e => e_ck C e = c0 /\ (e_ck2 C e = None \/ e_ck2 C e = Some c0)) exps.

Lemma nthe_zero exps k :
  zero_coupling exps ->
  e_ck C (nthe C c0 exps k) = c0 /\
  (e_ck2 C (nthe C c0 exps k) = None \/ e_ck2 C (nthe C c0 exps k) = Some c0).
Proof.
  intros H. unfold nthe. revert k. induction H as [|e l He Hl IH]; intros [|k]; simpl;
    try (split; [reflexivity|now left]); auto.
Qed.

Lemma prev_zero exps n k odd op :
  zero_coupling exps -> grad_prev exps n k odd = Some op ->
  Forall (fun p : C * sbasis => fst p = c0) op.
Proof.
  intros Hz. unfold Model.C19.grad_prev.
  destruct (nthe_zero exps k Hz) as [Hck Hck2].
  destruct (fermionic (e_type C (nthe C c0 exps k))).
  - unfold grad_prev_fermionic. destruct (sigma_bar C c0 exps k) as [kb|]; [|discriminate].
    destruct (nthe_zero exps kb Hz) as [Hckb _]. rewrite Hck, Hckb, cconj_0.
    destruct (e_type C (nthe C c0 exps k)); intros H; inversion H; subst;
      repeat constructor; simpl; ring.
  - unfold grad_prev_bosonic. rewrite Hck.
    destruct (e_type C (nthe C c0 exps k)); try discriminate.
    + intros H; inversion H; subst. unfold pmp. repeat constructor; simpl; ring.
    + intros H; inversion H; subst. unfold ppp. repeat constructor; simpl; ring.
    + destruct Hck2 as [E|E]; rewrite E; [discriminate|].
      intros H; inversion H; subst. unfold pmp, ppp. repeat constructor; simpl; ring.
Qed.

(* ---- exponent combination preserves the formal exponential sum *)
Notation coefficient := (Model.C19.coefficient C c0 cadd cmul ci).
Notation can_combine := (Model.C19.can_combine C ceqb).
Notation combine2 := (Model.C19.combine2 C c0 cadd).
Notation absorb := (Model.C19.absorb C c0 cadd ceqb).
Notation combine_all := (Model.C19.combine_all C c0 cadd ceqb).
Notation combine_exps := (Model.C19.combine_exps C c0 cadd ceqb).

(* what the constructors enforce (_check_ck2) *)
Definition wf (e : bexp) : Prop :=
  match e_type C e with
  | TRI => exists c, e_ck2 C e = Some c
  | _ => e_ck2 C e = None
  end.

Section Sum.
Variable f : C -> nat -> C.     (* stands for  v, Q |-> exp(-v t) (x) Q *)

Definition term (e : bexp) : C := cmul (coefficient e) (f (e_vk C e) (e_q C e)).
Definition fsum (l : list bexp) : C := fold_right (fun e acc => cadd (term e) acc) c0 l.

Lemma combine2_spec e o :
  wf e -> wf o -> can_combine e o = true ->
  wf (combine2 e o) /\ e_vk C (combine2 e o) = e_vk C e /\ e_q C (combine2 e o) = e_q C e /\
  fermionic (e_type C (combine2 e o)) = false /\
  term (combine2 e o) = cadd (term e) (term o).
Proof.
  intros We Wo Hc. unfold Model.C19.can_combine in Hc.
  apply andb_true_iff in Hc. destruct Hc as [Hc Hq].
  apply andb_true_iff in Hc. destruct Hc as [Hf Hv].
  apply Nat.eqb_eq in Hq. apply ceqb_eq in Hv.
  apply negb_true_iff in Hf. apply orb_false_iff in Hf. destruct Hf as [Fe Fo].
  unfold term, coefficient, Model.C19.coefficient, combine2, Model.C19.combine2, wf in *.
  rewrite <- Hv, <- Hq.
  destruct e as [te de qe cke vke ck2e offe]; destruct o as [to do qo cko vko ck2o offo];
    simpl in *.
  destruct te; destruct to; simpl in *; try discriminate;
    try destruct We as [ce We]; try destruct Wo as [co Wo]; subst; simpl;
    (split; [try reflexivity; eexists; reflexivity|]);
    (split; [reflexivity|]); (split; [reflexivity|]); (split; [reflexivity|]);
    unfold ck2_or0; simpl; ring.
Qed.

Lemma absorb_spec new rem :
  wf new -> Forall wf rem -> fermionic (e_type C new) = false \/ True ->
  let r := absorb new rem in
  wf (fst r) /\ Forall wf (snd r) /\ length (snd r) <= length rem /\
  cadd (term (fst r)) (fsum (snd r)) = cadd (term new) (fsum rem).
Proof.
  intros Wn Wr _. revert new Wn. induction Wr as [|o t Wo Wt IH]; intros new Wn; simpl.
  - repeat split; auto.
  - destruct (can_combine new o) eqn:E.
    + destruct (combine2_spec new o Wn Wo E) as (W2 & _ & _ & _ & T2).
      destruct (IH (combine2 new o) W2) as (A & B & L & S). repeat split; try assumption; [lia|].
      rewrite S, T2. ring.
    + destruct (IH new Wn) as (A & B & L & S). simpl.
      repeat split; try assumption; [constructor; assumption|lia|].
      transitivity (cadd (term o) (cadd (term (fst (absorb new t))) (fsum (snd (absorb new t)))));
        [ring|]. rewrite S. ring.
Qed.

Lemma combine_all_sum fuel l :
  Forall wf l -> length l <= fuel -> fsum (combine_all fuel l) = fsum l /\
  Forall wf (combine_all fuel l).
Proof.
  revert l. induction fuel as [|fuel IH]; intros l Wl Hl.
  - destruct l; [simpl; split; [reflexivity|constructor]|simpl in Hl; lia].
  - destruct l as [|e t]; [simpl; split; [reflexivity|constructor]|].
    inversion Wl as [|e' t' We Wt]; subst.
    simpl.
    destruct (absorb_spec e t We Wt (or_intror I)) as (A & B & L & S).
    destruct (IH (snd (absorb e t)) B) as [S2 W2]; [simpl in Hl; lia|].
    split; [|constructor; assumption].
    simpl. rewrite S2. exact S.
Qed.

Lemma combine_preserves_sum l :
  Forall wf l -> fsum (combine_exps l) = fsum l.
Proof.
  intros W. unfold Model.C19.combine_exps.
  apply combine_all_sum; [assumption|lia].
Qed.
End Sum.

(* after combining, no two remaining exponents can be combined with the
   first of their group: the list is reduced (for an equivalence ceqb) *)
Lemma combine_length l : length (combine_exps l) <= length l.
Proof.
  unfold Model.C19.combine_exps.
  assert (H : forall fuel l, length (combine_all fuel l) <= length l).
  { induction fuel as [|fuel IH]; intros l0; [simpl; lia|].
    destruct l0 as [|e t]; [simpl; lia|]. simpl.
    specialize (IH (snd (absorb e t))).
    assert (L : length (snd (absorb e t)) <= length t).
    { clear. revert e. induction t as [|o t IH]; intros e; simpl; [lia|].
      destruct (Model.C19.can_combine C ceqb e o).
      - specialize (IH (Model.C19.combine2 C c0 cadd e o)). lia.
      - simpl. specialize (IH e). lia. }
    lia. }
  apply H.
Qed.

End Ring.

(* ------------------------------------------------------------ result object *)
Section Res.
Variables (A R : Type) (rho_of : A -> R).
Notation h_run := (Model.C19.h_run A R rho_of).
Notation final_ado_state := (Model.C19.final_ado_state A R).

Lemma h_run_snoc o l a : h_run o (l ++ [a]) = h_add A R rho_of o (h_run o l) a.
Proof. unfold Model.C19.h_run. now rewrite fold_left_app. Qed.

Lemma h_run_store_states o l :
  o_store_states o = true ->
  let r := h_run o l in
  h_final_ado A R r = None /\
  (o_store_ados o = true -> h_ado_states A R r = rev l).
Proof.
  intros Hs. induction l as [|a l IH] using rev_ind.
  - simpl. split; [reflexivity|]. intros _. reflexivity.
  - cbv zeta in *. rewrite h_run_snoc. destruct IH as [I1 I2].
    unfold h_add. rewrite Hs. simpl. rewrite andb_false_r. simpl.
    split; [assumption|]. intros Ha. rewrite Ha. rewrite rev_app_distr. simpl.
    f_equal. now apply I2.
Qed.

(* with the states stored along the run, final_ado_state is the last ADO
   state that was added *)
Lemma final_ado_ok o l a :
  o_store_states o = true -> o_store_ados o = true ->
  final_ado_state (h_run o (l ++ [a])) = FAdo A R a.
Proof.
  intros Hs Ha. destruct (h_run_store_states o (l ++ [a]) Hs) as [F1 F2].
  unfold Model.C19.final_ado_state. rewrite F1.
  rewrite (F2 Ha). rewrite rev_app_distr. reflexivity.
Qed.

(* with store_states off and store_final_state on, it is the ADO state kept by
   _store_final_state *)
Lemma final_ado_final_only o l a :
  o_store_states o = false -> o_store_final o = true -> o_store_ados o = true ->
  final_ado_state (h_run o (l ++ [a])) = FAdo A R a.
Proof.
  intros Hs Hf Ha. rewrite h_run_snoc. unfold h_add. rewrite Hs, Hf, Ha. simpl.
  reflexivity.
Qed.

(* whenever anything is stored, final_ado_state is the last ADO state *)
Lemma final_ado_any o l a :
  o_store_ados o = true -> (o_store_states o = true \/ o_store_final o = true) ->
  final_ado_state (h_run o (l ++ [a])) = FAdo A R a.
Proof.
  intros Ha H. destruct (o_store_states o) eqn:Hs.
  - now apply final_ado_ok.
  - destruct H as [H|H]; [discriminate|]. now apply final_ado_final_only.
Qed.

(* the code before the fix returned the bare system state in that case *)
Lemma final_ado_before_fix o l a :
  o_store_states o = false -> o_store_final o = true -> o_store_ados o = true ->
  final_ado_state_before_fix A R (h_run o (l ++ [a])) = FRho A R (rho_of a).
Proof.
  intros Hs Hf Ha. rewrite h_run_snoc. unfold h_add. rewrite Hs, Hf, Ha. simpl.
  reflexivity.
Qed.
End Res.

(* ----------------------------------------------- Gaussian integers: a ring *)
Lemma G_ring : ring_theory g0 g1 gadd gmul (fun a b => gadd a (gneg b)) gneg eq.
Proof.
  constructor; intros; unfold g0, g1, gadd, gmul, gneg;
    repeat match goal with x : G |- _ => destruct x end; cbn [fst snd];
    try reflexivity; f_equal; ring.
Qed.

Lemma geqb_eq a b : geqb a b = true -> a = b.
Proof.
  destruct a, b. unfold geqb. simpl. intros H. apply andb_true_iff in H.
  destruct H as [H1 H2]. apply Z.eqb_eq in H1. apply Z.eqb_eq in H2. now subst.
Qed.
