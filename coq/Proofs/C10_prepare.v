(* C10 - Solver._prepare_state: which outputs are normalised. *)
From Coq Require Import Bool.
From QV Require Import Model.C10_prepare.

(* normalisation is applied only to unit-norm kets (Schroedinger route) and
   to unit-trace density matrices under a super-operator right-hand side
   (which are the stacked ones); never to operator-kets, to operators being
   propagated, or to super-operator initial conditions *)
Lemma normalize_only_ket_or_dm rhs_super opt s :
  wf rhs_super s = true -> normalize_output opt s = true ->
  opt = true /\
  ((p_form s = FKet /\ p_l2_one s = true /\ rhs_super = false) \/
   (p_form s = FOper /\ p_tr_one s = true /\ rhs_super = true /\ stacked s = true)).
Proof.
  destruct s as [f sq dm col l2 tr]. unfold wf, normalize_output, norm_is_one, stacked. simpl.
  destruct f, sq, dm, col, l2, tr, rhs_super, opt; simpl; intros W N; try discriminate;
    (split; [reflexivity|]); (left; repeat split; reflexivity) || (right; repeat split; reflexivity).
Qed.

Lemma normalize_iff rhs_super opt s :
  wf rhs_super s = true ->
  normalize_output opt s =
  opt && match p_form s with
         | FKet => p_l2_one s
         | FOper => rhs_super && p_tr_one s
         | _ => false
         end.
Proof.
  destruct s as [f sq dm col l2 tr]. unfold wf, normalize_output, norm_is_one. simpl.
  destruct f, sq, dm, col, l2, tr, rhs_super, opt; simpl; intros W; try discriminate; reflexivity.
Qed.

(* the divisor matches the quantity that was tested: a normalised ket output
   is divided by its norm, a normalised density matrix by its trace *)
Lemma divisor_matches rhs_super opt s :
  wf rhs_super s = true -> normalize_output opt s = true ->
  restore_divisor (match p_form s with FOper => true | _ => false end)
  = match p_form s with FKet => ByNorm | _ => ByTrace end.
Proof.
  intros W N. destruct (normalize_only_ket_or_dm _ _ _ W N) as [_ [[E _]|[E _]]]; rewrite E; reflexivity.
Qed.
