(* Proofs for Model/C12_mc.v: collapse records, numpy.histogram with explicit
   monotone edges, runs_photocurrent / photocurrent. *)
From Coq Require Import List ZArith Bool Arith Lia.
Import ListNotations.
From QV Require Import Model.C12.
From QV Require Import Model.C12_mc.
Local Open Scope Z_scope.

(* ---------------------------------------------------------------- records *)
Definition adds_of (evs : list mc_event) : list (list collapse * Z) :=
  flat_map (fun ev => match ev with EvAdd rec w => [(rec, w)] | EvDet _ _ => [] end) evs.

Lemma mc_run_from : forall evs r,
  let r' := fold_left mc_step evs r in
  mc_collapse r' = mc_collapse r ++ map fst (adds_of evs)
  /\ mc_weights r' = mc_weights r ++ map snd (adds_of evs)
  /\ mc_ntraj r' = (mc_ntraj r + length (adds_of evs))%nat
  /\ mc_nc r' = mc_nc r /\ mc_times r' = mc_times r.
Proof.
  induction evs as [|ev evs IH]; intros r; simpl.
  - rewrite !app_nil_r, Nat.add_0_r. repeat split; reflexivity.
  - destruct (IH (mc_step r ev)) as (A & B & C & D & E).
    rewrite A, B, C, D, E. destruct ev as [rec w|rec w]; simpl.
    + rewrite <- !app_assoc. simpl. repeat split; try reflexivity. lia.
    + repeat split; reflexivity.
Qed.

Lemma mc_run_records : forall nc times evs,
  let r := mc_run nc times evs in
  mc_collapse r = map fst (adds_of evs)
  /\ mc_weights r = map snd (adds_of evs)
  /\ mc_ntraj r = length (adds_of evs)
  /\ mc_nc r = nc /\ mc_times r = times.
Proof.
  intros nc times evs. unfold mc_run.
  destruct (mc_run_from evs (mc_new nc times)) as (A & B & C & D & E).
  simpl in *. repeat split; assumption.
Qed.

Lemma col_records : forall cs,
  length (col_times cs) = length cs /\ length (col_which cs) = length cs
  /\ forall i rec, nth_error cs i = Some rec ->
       nth_error (col_times cs) i = Some (map fst rec)
       /\ nth_error (col_which cs) i = Some (map snd rec)
       /\ combine (map fst rec) (map snd rec) = rec.
Proof.
  intros cs. unfold col_times, col_which. rewrite !map_length.
  split; [reflexivity|split; [reflexivity|]].
  intros i rec H.
  split; [apply (map_nth_error (map fst) _ _ H)|split; [apply (map_nth_error (map snd) _ _ H)|]].
  clear. induction rec as [|[t c] rec IH]; simpl; [reflexivity|]. rewrite IH. reflexivity.
Qed.

(* -------------------------------------------------------------- histogram *)
Lemma wsum_app : forall p a b, wsum p (a ++ b) = wsum p a + wsum p b.
Proof.
  intros p a b. induction a as [|x a IH]; simpl; [reflexivity|].
  destruct (p (fst x)); rewrite IH; lia.
Qed.

Lemma wsum_interval_lt : forall a x y, x <= y ->
  wsum (fun u => u <? y) a - wsum (fun u => u <? x) a
  = wsum (fun u => (x <=? u) && (u <? y)) a.
Proof.
  intros a x y H. induction a as [|[t w] a IH]; simpl; [reflexivity|].
  destruct (t <? y) eqn:A; destruct (t <? x) eqn:B; destruct (x <=? t) eqn:C; simpl;
    try lia.
Qed.

Lemma wsum_interval_le : forall a x y, x <= y ->
  wsum (fun u => u <=? y) a - wsum (fun u => u <? x) a
  = wsum (fun u => (x <=? u) && (u <=? y)) a.
Proof.
  intros a x y H. induction a as [|[t w] a IH]; simpl; [reflexivity|].
  destruct (t <=? y) eqn:A; destruct (t <? x) eqn:B; destruct (x <=? t) eqn:C; simpl;
    try lia.
Qed.

(* what a bin means: [e_i, e_{i+1}) for all bins but the last, [e_{n-2}, e_{n-1}] for the last *)
Fixpoint bin_sums (a : list (Z * Z)) (e : list Z) : list Z :=
  match e with
  | x :: ((y :: t) as r) =>
      (match t with
       | [] => wsum (fun u => (x <=? u) && (u <=? y)) a
       | _ => wsum (fun u => (x <=? u) && (u <? y)) a
       end) :: bin_sums a r
  | _ => []
  end.

Lemma hist_bins : forall a e, monotone e = true -> diffs (cum a e) = bin_sums a e.
Proof.
  intros a e. induction e as [|x e IH]; intros M; [reflexivity|].
  destruct e as [|y t]; [reflexivity|].
  simpl in M. apply andb_true_iff in M. destruct M as [Hxy M].
  apply Z.leb_le in Hxy.
  specialize (IH M).
  destruct t as [|z t].
  - simpl. rewrite wsum_interval_le by exact Hxy. reflexivity.
  - change (cum a (x :: y :: z :: t)) with (wsum (fun u => u <? x) a :: cum a (y :: z :: t)).
    change (cum a (y :: z :: t)) with (wsum (fun u => u <? y) a :: cum a (z :: t)) in *.
    change (diffs (wsum (fun u => u <? x) a :: wsum (fun u => u <? y) a :: cum a (z :: t)))
      with ((wsum (fun u => u <? y) a - wsum (fun u => u <? x) a)
              :: diffs (wsum (fun u => u <? y) a :: cum a (z :: t))).
    rewrite IH. rewrite wsum_interval_lt by exact Hxy. reflexivity.
Qed.

Definition zsum (l : list Z) : Z := fold_right Z.add 0 l.

Fixpoint lastz (l : list Z) : Z :=
  match l with [] => 0 | [x] => x | _ :: r => lastz r end.

Lemma diffs_telescope : forall l x, zsum (diffs (x :: l)) = lastz (x :: l) - x.
Proof.
  induction l as [|y l IH]; intros x.
  - simpl. lia.
  - change (diffs (x :: y :: l)) with ((y - x) :: diffs (y :: l)).
    change (lastz (x :: y :: l)) with (lastz (y :: l)).
    change (zsum ((y - x) :: diffs (y :: l))) with ((y - x) + zsum (diffs (y :: l))).
    rewrite IH. lia.
Qed.

Lemma cum_shape : forall a e x y,
  cum a (x :: y :: e) = wsum (fun u => u <? x) a :: cum a (y :: e).
Proof. reflexivity. Qed.

Lemma lastz_cum : forall a e x,
  lastz (cum a (x :: e)) = wsum (fun u => u <=? lastz (x :: e)) a.
Proof.
  intros a e. induction e as [|y e IH]; intros x; [reflexivity|].
  rewrite cum_shape.
  change (lastz (x :: y :: e)) with (lastz (y :: e)).
  rewrite <- IH. destruct e; reflexivity.
Qed.

Lemma monotone_hd_last : forall e x, monotone (x :: e) = true -> x <= lastz (x :: e).
Proof.
  induction e as [|y e IH]; intros x M; [simpl; lia|].
  simpl in M. apply andb_true_iff in M. destruct M as [A M]. apply Z.leb_le in A.
  change (lastz (x :: y :: e)) with (lastz (y :: e)).
  specialize (IH y M). lia.
Qed.

(* totals are conserved: the bins of monotone edges partition [e_0, e_last] *)
Lemma hist_total : forall a x y e, monotone (x :: y :: e) = true ->
  zsum (diffs (cum a (x :: y :: e)))
  = wsum (fun u => (x <=? u) && (u <=? lastz (x :: y :: e))) a.
Proof.
  intros a x y e M. rewrite cum_shape, diffs_telescope.
  rewrite <- cum_shape, lastz_cum.
  apply wsum_interval_le. apply monotone_hd_last. exact M.
Qed.

(* a single sample inside the range is counted in exactly one bin *)
Lemma hist_single : forall t w x y e, monotone (x :: y :: e) = true ->
  x <= t <= lastz (x :: y :: e) ->
  zsum (diffs (cum [(t, w)] (x :: y :: e))) = w.
Proof.
  intros t w x y e M [A B]. rewrite hist_total by exact M.
  remember (lastz (x :: y :: e)) as L. unfold wsum. cbn [fold_right fst snd].
  apply Z.leb_le in A. apply Z.leb_le in B. rewrite A, B. simpl. lia.
Qed.

Lemma hist_outside : forall t w x y e, monotone (x :: y :: e) = true ->
  (t < x \/ lastz (x :: y :: e) < t) ->
  zsum (diffs (cum [(t, w)] (x :: y :: e))) = 0.
Proof.
  intros t w x y e M H. rewrite hist_total by exact M.
  remember (lastz (x :: y :: e)) as L. unfold wsum. cbn [fold_right fst snd].
  destruct (x <=? t) eqn:A; destruct (t <=? L) eqn:B; simpl; try reflexivity.
  apply Z.leb_le in A. apply Z.leb_le in B. lia.
Qed.

Lemma bin_sums_length : forall a e, length (bin_sums a e) = pred (length e).
Proof.
  intros a e. induction e as [|x e IH]; [reflexivity|].
  destruct e as [|y t]; [reflexivity|].
  change (bin_sums a (x :: y :: t)) with
    ((match t with [] => wsum (fun u => (x <=? u) && (u <=? y)) a
      | _ => wsum (fun u => (x <=? u) && (u <? y)) a end) :: bin_sums a (y :: t)).
  cbn [length]. rewrite IH. reflexivity.
Qed.

(* linearity in the samples *)
Definition vadd (u v : list Z) : list Z := map (fun p => fst p + snd p) (combine u v).
Definition vscale (w : Z) (u : list Z) : list Z := map (Z.mul w) u.

Lemma bin_sums_app : forall a b e, bin_sums (a ++ b) e = vadd (bin_sums a e) (bin_sums b e).
Proof.
  intros a b e. induction e as [|x e IH]; [reflexivity|].
  destruct e as [|y t]; [reflexivity|].
  change (bin_sums (a ++ b) (x :: y :: t)) with
    ((match t with [] => wsum (fun u => (x <=? u) && (u <=? y)) (a ++ b)
      | _ => wsum (fun u => (x <=? u) && (u <? y)) (a ++ b) end) :: bin_sums (a ++ b) (y :: t)).
  change (bin_sums a (x :: y :: t)) with
    ((match t with [] => wsum (fun u => (x <=? u) && (u <=? y)) a
      | _ => wsum (fun u => (x <=? u) && (u <? y)) a end) :: bin_sums a (y :: t)).
  change (bin_sums b (x :: y :: t)) with
    ((match t with [] => wsum (fun u => (x <=? u) && (u <=? y)) b
      | _ => wsum (fun u => (x <=? u) && (u <? y)) b end) :: bin_sums b (y :: t)).
  rewrite IH. unfold vadd. simpl. f_equal.
  destruct t; apply wsum_app.
Qed.

Lemma wsum_channel_scale : forall p c w rec,
  wsum p (channel_events c w rec) = w * wsum p (channel_events c 1 rec).
Proof.
  intros p c w rec. unfold channel_events.
  unfold wsum.
  induction (filter (fun tc => Nat.eqb (snd tc) c) rec) as [|x l IH];
    cbn [map fold_right fst snd]; [ring|].
  destruct (p (fst x)); rewrite IH; ring.
Qed.

Lemma bin_sums_channel_scale : forall c w rec e,
  bin_sums (channel_events c w rec) e = vscale w (bin_sums (channel_events c 1 rec) e).
Proof.
  intros c w rec e. induction e as [|x e IH]; [reflexivity|].
  destruct e as [|y t]; [reflexivity|].
  change (bin_sums (channel_events c w rec) (x :: y :: t)) with
    ((match t with [] => wsum (fun u => (x <=? u) && (u <=? y)) (channel_events c w rec)
      | _ => wsum (fun u => (x <=? u) && (u <? y)) (channel_events c w rec) end)
       :: bin_sums (channel_events c w rec) (y :: t)).
  change (bin_sums (channel_events c 1 rec) (x :: y :: t)) with
    ((match t with [] => wsum (fun u => (x <=? u) && (u <=? y)) (channel_events c 1 rec)
      | _ => wsum (fun u => (x <=? u) && (u <? y)) (channel_events c 1 rec) end)
       :: bin_sums (channel_events c 1 rec) (y :: t)).
  rewrite IH. unfold vscale. simpl. f_equal. destruct t; apply wsum_channel_scale.
Qed.

(* pooled histogram = weighted sum of the per-run histograms *)
Fixpoint weighted_runs (c : nat) (e : list Z) (cws : list (list collapse * Z)) : list Z :=
  match cws with
  | [] => bin_sums [] e
  | (rec, w) :: r => vadd (vscale w (bin_sums (channel_events c 1 rec) e)) (weighted_runs c e r)
  end.

Lemma pooled_is_weighted_runs : forall c e cws,
  bin_sums (flat_map (fun cw => channel_events c (snd cw) (fst cw)) cws) e
  = weighted_runs c e cws.
Proof.
  intros c e cws. induction cws as [|[rec w] r IH]; [reflexivity|].
  simpl flat_map. rewrite bin_sums_app, IH, bin_sums_channel_scale. reflexivity.
Qed.

(* ------------------------------------------------------------ API outputs *)
Lemma histogram_ok : forall a e, monotone e = true -> histogram a e = HOk (bin_sums a e).
Proof. intros a e M. unfold histogram. rewrite M, hist_bins by exact M. reflexivity. Qed.

Lemma histogram_err : forall a e, monotone e = false -> histogram a e = HRaise HValueError.
Proof. intros a e M. unfold histogram. rewrite M. reflexivity. Qed.

Lemma hsequence_ok : forall A B (f : A -> B) (l : list A),
  hsequence (map (fun x => HOk (f x)) l) = HOk (map f l).
Proof.
  intros A B f l. induction l as [|x l IH]; simpl; [reflexivity|]. rewrite IH. reflexivity.
Qed.

Lemma hsequence_ok_ext : forall A B (g : A -> hres B) (f : A -> B) (l : list A),
  (forall x, In x l -> g x = HOk (f x)) -> hsequence (map g l) = HOk (map f l).
Proof.
  intros A B g f l H. induction l as [|x l IH]; simpl; [reflexivity|].
  rewrite (H x (or_introl eq_refl)). rewrite IH; [reflexivity|].
  intros y Hy. apply H. right. exact Hy.
Qed.

Definition run_counts (nc : nat) (times : list Z) (rec : list collapse) : list (list Z) :=
  map (fun c => bin_sums (channel_events c 1 rec) times) (seq 0 nc).

Lemma run_hist_ok : forall nc times rec,
  bad_which nc rec = false -> monotone times = true ->
  run_hist nc times rec = HOk (run_counts nc times rec).
Proof.
  intros nc times rec B M. unfold run_hist. rewrite B.
  apply hsequence_ok_ext. intros c _. apply histogram_ok. exact M.
Qed.

Lemma run_hist_bad_which : forall nc times rec,
  bad_which nc rec = true -> run_hist nc times rec = HRaise HIndexError.
Proof. intros nc times rec B. unfold run_hist. rewrite B. reflexivity. Qed.

Lemma run_hist_not_monotone : forall nc times rec,
  bad_which (S nc) rec = false -> monotone times = false ->
  run_hist (S nc) times rec = HRaise HValueError.
Proof.
  intros nc times rec B M. unfold run_hist. rewrite B.
  change (seq 0 (S nc)) with (0%nat :: seq 1 nc). cbn [map hsequence].
  rewrite histogram_err by exact M. reflexivity.
Qed.

Lemma runs_photocurrent_ok : forall r,
  forallb (fun rec => negb (bad_which (mc_nc r) rec)) (mc_collapse r) = true ->
  monotone (mc_times r) = true ->
  runs_photocurrent r = HOk (map (run_counts (mc_nc r) (mc_times r)) (mc_collapse r)).
Proof.
  intros r B M. unfold runs_photocurrent. apply hsequence_ok_ext.
  intros rec Hin. apply run_hist_ok; [|exact M].
  rewrite forallb_forall in B. specialize (B rec Hin).
  destruct (bad_which (mc_nc r) rec); [discriminate|reflexivity].
Qed.

Lemma map_fst_combine : forall A B (l : list A) (ws : list B),
  length l = length ws -> map fst (combine l ws) = l.
Proof.
  intros A B l. induction l as [|x l IH]; intros ws L; [reflexivity|].
  destruct ws as [|w ws]; [discriminate|]. simpl. simpl in L.
  rewrite (IH ws) by lia. reflexivity.
Qed.

Lemma photocurrent_ok : forall r,
  length (mc_collapse r) = length (mc_weights r) ->
  forallb (fun rec => negb (bad_which (mc_nc r) rec)) (mc_collapse r) = true ->
  monotone (mc_times r) = true ->
  photocurrent r
  = HOk (map (fun c => weighted_runs c (mc_times r) (combine (mc_collapse r) (mc_weights r)))
             (seq 0 (mc_nc r))).
Proof.
  intros r L B M. unfold photocurrent.
  assert (E := map_fst_combine _ _ (mc_collapse r) (mc_weights r) L).
  rewrite E.
  assert (N : existsb (bad_which (mc_nc r)) (mc_collapse r) = false).
  { clear -B. induction (mc_collapse r) as [|x l IH]; [reflexivity|].
    simpl in *. apply andb_true_iff in B. destruct B as [B1 B2].
    destruct (bad_which (mc_nc r) x); [discriminate|]. simpl. apply IH. exact B2. }
  rewrite N. apply hsequence_ok_ext. intros c _.
  rewrite histogram_ok by exact M. unfold pooled_events.
  rewrite pooled_is_weighted_runs. reflexivity.
Qed.

(* every recorded collapse of a run inside [t_0, t_last] is counted once,
   in one channel and one bin *)
Lemma zsum_app : forall a b, zsum (a ++ b) = zsum a + zsum b.
Proof. intros a b. induction a as [|x a IH]; simpl; [reflexivity|]. rewrite IH. lia. Qed.

Lemma sum_indicator : forall nc k v, (k < nc)%nat ->
  zsum (map (fun c => if Nat.eqb k c then v else 0) (seq 0 nc)) = v.
Proof.
  induction nc as [|nc IH]; intros k v H; [lia|].
  rewrite seq_S, map_app, zsum_app. simpl.
  destruct (Nat.eqb k nc) eqn:E.
  - apply Nat.eqb_eq in E. subst k.
    assert (Z0 : zsum (map (fun c => if Nat.eqb nc c then v else 0) (seq 0 nc)) = 0).
    { clear. assert (G : forall l, (forall c, In c l -> (c < nc)%nat) ->
                 zsum (map (fun c => if Nat.eqb nc c then v else 0) l) = 0).
      { induction l as [|c l IHl]; intros Hl; [reflexivity|]. simpl.
        assert (c < nc)%nat by (apply Hl; left; reflexivity).
        destruct (Nat.eqb nc c) eqn:E; [apply Nat.eqb_eq in E; lia|].
        rewrite IHl; [reflexivity|]. intros c' Hc'. apply Hl. right. exact Hc'. }
      apply G. intros c Hc. apply in_seq in Hc. lia. }
    rewrite Z0. lia.
  - apply Nat.eqb_neq in E. rewrite IH by lia. lia.
Qed.

Definition in_range (x L : Z) (rec : list collapse) : Z :=
  wsum (fun u => (x <=? u) && (u <=? L)) (map (fun tc => (fst tc, 1)) rec).

Lemma channel_events_cons : forall c w tc rec,
  channel_events c w (tc :: rec)
  = (if Nat.eqb (snd tc) c then [(fst tc, w)] else []) ++ channel_events c w rec.
Proof.
  intros c w tc rec. unfold channel_events. simpl.
  destruct (Nat.eqb (snd tc) c); reflexivity.
Qed.

Lemma channels_partition : forall p nc rec, bad_which nc rec = false ->
  zsum (map (fun c => wsum p (channel_events c 1 rec)) (seq 0 nc))
  = wsum p (map (fun tc => (fst tc, 1)) rec).
Proof.
  intros p nc rec. induction rec as [|tc rec IH]; intros B.
  - simpl. clear. induction (seq 0 nc) as [|c l IH]; simpl; [reflexivity|]. rewrite IH. reflexivity.
  - simpl in B. apply orb_false_iff in B. destruct B as [B1 B2].
    apply Nat.leb_gt in B1. specialize (IH B2).
    assert (E : map (fun c => wsum p (channel_events c 1 (tc :: rec))) (seq 0 nc)
              = map (fun c => (if Nat.eqb (snd tc) c then (if p (fst tc) then 1 else 0) else 0)
                               + wsum p (channel_events c 1 rec)) (seq 0 nc)).
    { apply map_ext. intros c. rewrite channel_events_cons, wsum_app.
      destruct (Nat.eqb (snd tc) c); simpl; [|reflexivity].
      destruct (p (fst tc)); lia. }
    rewrite E. clear E.
    assert (S2 : forall (f g : nat -> Z) l,
              zsum (map (fun c => f c + g c) l) = zsum (map f l) + zsum (map g l)).
    { intros f g l. induction l as [|c l IHl]; simpl; [reflexivity|]. rewrite IHl. lia. }
    rewrite S2, IH, sum_indicator by exact B1.
    unfold wsum. cbn [map fold_right fst snd]. destruct (p (fst tc)); lia.
Qed.

Lemma run_counts_total : forall nc x y e rec,
  bad_which nc rec = false -> monotone (x :: y :: e) = true ->
  zsum (map zsum (run_counts nc (x :: y :: e) rec)) = in_range x (lastz (x :: y :: e)) rec.
Proof.
  intros nc x y e rec B M. unfold run_counts, in_range. rewrite map_map.
  rewrite <- (channels_partition _ nc rec B).
  f_equal. apply map_ext. intros c.
  rewrite <- hist_bins by exact M. apply hist_total. exact M.
Qed.

Lemma combine_fst_snd : forall A B (l : list (A * B)), combine (map fst l) (map snd l) = l.
Proof.
  intros A B l. induction l as [|[a b] l IH]; [reflexivity|]. simpl. rewrite IH. reflexivity.
Qed.
