(* Proofs for C09, second part: Kronecker products (tensor() loop and the
   sparse kernel), super_tensor label flow, tensor_swap for every Qobj type,
   tensor order of superoperator sides. *)
From Coq Require Import List Arith Bool Lia ZArith Permutation Ring Sorting.Sorted.
Import ListNotations.
From QV Require Import Model.C09 Proofs.C09.


(* ------------------------------------------------------------------ *)
(* tensor(): left-nested pairwise kron = right-nested Kronecker product *)

Lemma div_mod_mul_split : forall i P r, 0 < P -> 0 < r ->
  i / (r * P) = (i / P) / r /\
  (i mod (r * P)) / P = (i / P) mod r /\
  (i mod (r * P)) mod P = i mod P.
Proof.
  intros i P r HP Hr.
  assert (E : i mod (P * r) = i mod P + P * ((i / P) mod r)) by (apply Nat.mod_mul_r; lia).
  rewrite (Nat.mul_comm r P). split; [|split].
  - symmetry. apply Nat.div_div; lia.
  - rewrite E. pose proof (Nat.mod_upper_bound i P ltac:(lia)).
    symmetry. apply Nat.div_unique with (r := i mod P); lia.
  - rewrite E. pose proof (Nat.mod_upper_bound i P ltac:(lia)).
    symmetry. apply Nat.mod_unique with (q := (i / P) mod r); lia.
Qed.

Section KronAssoc.
  Variable C : Type.
  Variables c0 c1 : C.
  Variables cadd cmul : C -> C -> C.
  Hypothesis SR : semi_ring_theory c0 c1 cadd cmul (@eq C).
  Add Ring CRing2 : SR.

  Notation mat := (mat C).
  Notation kron2 := (kron2 C cmul).
  Notation kron_left := (kron_left C cmul).
  Notation kron_rc := (kron_rc C c1 cmul).
  Notation tensor_data := (tensor_data C c1 cmul).

  Lemma kron_left_spec : forall (As : list mat) rd cd (acc : mat) i j,
    allpos rd -> allpos cd -> length As = length rd -> length As = length cd ->
    kron_left acc As rd cd i j =
    cmul (acc (i / prod rd) (j / prod cd)) (kron_rc As rd cd (i mod prod rd) (j mod prod cd)).
  Proof.
    induction As as [|A As IH]; intros rd cd acc i j Hr Hc Lr Lc;
      destruct rd as [|r rd]; destruct cd as [|c cd]; simpl in Lr, Lc; try discriminate.
    - cbn [C09.kron_left C09.kron_rc]. change (prod []) with 1. rewrite !Nat.div_1_r. ring.
    - injection Lr as Lr. injection Lc as Lc.
      inversion Hr as [|? ? Hr0 Hr']; subst. inversion Hc as [|? ? Hc0 Hc']; subst.
      pose proof (prod_pos rd Hr') as Pr. pose proof (prod_pos cd Hc') as Pc.
      cbn [C09.kron_left]. rewrite (IH rd cd _ i j Hr' Hc' Lr Lc).
      cbn [C09.kron_rc]. unfold C09.kron2.
      change (prod (r :: rd)) with (r * prod rd). change (prod (c :: cd)) with (c * prod cd).
      destruct (div_mod_mul_split i (prod rd) r Pr Hr0) as (A1 & A2 & A3).
      destruct (div_mod_mul_split j (prod cd) c Pc Hc0) as (B1 & B2 & B3).
      rewrite A1, A2, A3, B1, B2, B3. ring.
  Qed.

  Theorem tensor_data_is_kron_rc : forall (As : list mat) rd cd i j,
    allpos rd -> allpos cd -> length As = length rd -> length As = length cd ->
    tensor_data As rd cd i j = kron_rc As rd cd i j.
  Proof.
    intros As rd cd i j Hr Hc Lr Lc.
    destruct As as [|A As]; destruct rd as [|r rd]; destruct cd as [|c cd]; simpl in Lr, Lc;
      try discriminate; [reflexivity|].
    injection Lr as Lr. injection Lc as Lc.
    inversion Hr; subst. inversion Hc; subst.
    cbn [C09.tensor_data C09.kron_rc]. apply kron_left_spec; assumption.
  Qed.

  Lemma kron_rc_square : forall (As : list mat) dims i j,
    kron_rc As dims dims i j = kron_list C c1 cmul As dims i j.
  Proof.
    induction As as [|A As IH]; intros dims i j; destruct dims as [|d t]; try reflexivity.
    simpl. rewrite IH. reflexivity.
  Qed.

  (* kron_csr on stored entries *)
  Notation den := (den C c0 cadd).

  Lemma den_app : forall E1 E2 i j, den (E1 ++ E2) i j = cadd (den E1 i j) (den E2 i j).
  Proof.
    induction E1 as [|[[r c] v] E1 IH]; intros E2 i j; simpl; [ring|].
    rewrite IH. destruct ((r =? i) && (c =? j)); ring.
  Qed.

  Lemma den_scaled_block : forall nrr ncr rl cl vl ER i j,
    0 < nrr -> 0 < ncr ->
    Forall (fun e => fst (fst e) < nrr /\ snd (fst e) < ncr) ER ->
    den (map (fun er => (rl * nrr + fst (fst er), cl * ncr + snd (fst er), cmul vl (snd er))) ER) i j
    = if (rl =? i / nrr) && (cl =? j / ncr)
      then cmul vl (den ER (i mod nrr) (j mod ncr)) else c0.
  Proof.
    intros nrr ncr rl cl vl ER i j Hr Hc H.
    induction H as [|[[rr cr] vr] ER [Hrr Hcr] _ IH]; simpl.
    - destruct ((rl =? i / nrr) && (cl =? j / ncr)); ring.
    - simpl in Hrr, Hcr. rewrite IH.
      assert (Er : (rl * nrr + rr =? i) = (rl =? i / nrr) && (rr =? i mod nrr)).
      { destruct (Nat.eqb_spec (rl * nrr + rr) i) as [E|E].
        - subst i. assert (Q : (rl * nrr + rr) / nrr = rl)
            by (symmetry; apply Nat.div_unique with (r := rr); lia).
          assert (R : (rl * nrr + rr) mod nrr = rr)
            by (symmetry; apply Nat.mod_unique with (q := rl); lia).
          rewrite Q, R, !Nat.eqb_refl. reflexivity.
        - symmetry. apply andb_false_iff.
          destruct (Nat.eqb_spec rl (i / nrr)) as [A|A]; [|left; reflexivity].
          destruct (Nat.eqb_spec rr (i mod nrr)) as [B|B]; [|right; reflexivity].
          exfalso. apply E. subst. pose proof (Nat.div_mod i nrr). lia. }
      assert (Ec : (cl * ncr + cr =? j) = (cl =? j / ncr) && (cr =? j mod ncr)).
      { destruct (Nat.eqb_spec (cl * ncr + cr) j) as [E|E].
        - subst j. assert (Q : (cl * ncr + cr) / ncr = cl)
            by (symmetry; apply Nat.div_unique with (r := cr); lia).
          assert (R : (cl * ncr + cr) mod ncr = cr)
            by (symmetry; apply Nat.mod_unique with (q := cl); lia).
          rewrite Q, R, !Nat.eqb_refl. reflexivity.
        - symmetry. apply andb_false_iff.
          destruct (Nat.eqb_spec cl (j / ncr)) as [A|A]; [|left; reflexivity].
          destruct (Nat.eqb_spec cr (j mod ncr)) as [B|B]; [|right; reflexivity].
          exfalso. apply E. subst. pose proof (Nat.div_mod j ncr). lia. }
      rewrite Er, Ec.
      destruct (rl =? i / nrr); destruct (cl =? j / ncr); destruct (rr =? i mod nrr);
        destruct (cr =? j mod ncr); simpl; ring.
  Qed.

  (* the sparse Kronecker kernel computes kron2 of the meanings *)
  Theorem kron_csr_meaning : forall nrr ncr EL ER i j,
    0 < nrr -> 0 < ncr ->
    Forall (fun e => fst (fst e) < nrr /\ snd (fst e) < ncr) ER ->
    den (kron_csr_entries C cmul nrr ncr EL ER) i j = kron2 (den EL) (den ER) nrr ncr i j.
  Proof.
    intros nrr ncr EL ER i j Hr Hc H. unfold C09.kron2.
    induction EL as [|[[rl cl] vl] EL IH]; simpl.
    - ring.
    - rewrite den_app, IH. simpl fst. simpl snd.
      rewrite (den_scaled_block nrr ncr rl cl vl ER i j Hr Hc H).
      destruct ((rl =? i / nrr) && (cl =? j / ncr)); ring.
  Qed.
End KronAssoc.


(* ---------------- super_tensor: label flow ---------------- *)
Lemma interleave_app : forall a b a' b', length a = length b ->
  interleave (a ++ a') (b ++ b') = interleave a b ++ interleave a' b'.
Proof.
  induction a as [|x a IH]; intros b a' b' H; destruct b as [|y b]; simpl in H; try discriminate;
    [reflexivity|]. simpl. rewrite IH by lia. reflexivity.
Qed.

Lemma per_factor_interleave_concat : forall ls rs,
  Forall2 (fun l r : list nat => length l = length r) ls rs ->
  per_factor_interleave ls rs = interleave (concat ls) (concat rs).
Proof.
  intros ls rs H. induction H as [|l r ls rs E _ IH]; [reflexivity|].
  unfold per_factor_interleave in *. simpl. rewrite IH, interleave_app by exact E. reflexivity.
Qed.

Lemma reshuffle_each_factor : forall ls rs,
  Forall2 (fun l r : list nat => length l = length r) ls rs ->
  concat (map (fun p => gather (tensor_of_super_order (length (fst p))) (fst p ++ snd p))
              (combine ls rs))
  = per_factor_interleave ls rs.
Proof.
  intros ls rs H. unfold per_factor_interleave.
  induction H as [|l r ls rs E _ IH]; [reflexivity|].
  simpl. rewrite IH, (tensor_of_super_interleaves l r E). reflexivity.
Qed.

(* super_tensor = reshuffle(tensor(map reshuffle args)) on the index labels *)
Theorem super_tensor_label_flow : forall ls rs,
  Forall2 (fun l r : list nat => length l = length r) ls rs ->
  gather (super_of_tensor_order (repeat 1 (length (concat ls))))
         (concat (map (fun p => gather (tensor_of_super_order (length (fst p))) (fst p ++ snd p))
                      (combine ls rs)))
  = concat ls ++ concat rs.
Proof.
  intros ls rs H. rewrite (reshuffle_each_factor ls rs H), (per_factor_interleave_concat ls rs H).
  apply super_of_tensor_deinterleaves. apply concat_lengths_eq. exact H.
Qed.

(* ---------------- tensor_swap for any memory order ---------------- *)
Definition is_perm (mo : list nat) (n : nat) : Prop :=
  NoDup mo /\ length mo = n /\ forall x, In x mo -> x < n.

Lemma pos_of_spec : forall l x, In x l -> pos_of x l < length l /\ nth (pos_of x l) l 0 = x.
Proof.
  induction l as [|y l IH]; intros x H; [destruct H|]. simpl.
  destruct (Nat.eqb_spec x y) as [E|E]; [subst; split; [lia|reflexivity]|].
  destruct H as [H|H]; [congruence|]. destruct (IH x H) as [A B]. split; [lia|exact B].
Qed.

Lemma inverse_perm_spec : forall mo n i, is_perm mo n -> i < n ->
  nth i (inverse_perm mo) 0 < n /\ nth (nth i (inverse_perm mo) 0) mo 0 = i.
Proof.
  intros mo n i (ND & HL & HB) Hi. unfold inverse_perm. rewrite HL.
  rewrite (nth_indep _ 0 ((fun v => pos_of v mo) 0)) by (rewrite map_length, seq_length; exact Hi).
  rewrite (map_nth (fun v => pos_of v mo) (seq 0 n) 0 i), seq_nth by exact Hi. simpl.
  pose proof (order_covers n mo ND HL HB i Hi) as Hin.
  destruct (pos_of_spec mo i Hin) as [A B]. rewrite HL in A. split; assumption.
Qed.

Lemma swap_list_length : forall l i j, length (swap_list l i j) = length l.
Proof. intros. unfold swap_list. rewrite !set_nth_length. reflexivity. Qed.

Lemma nth_swap_list : forall l i j c, i < length l -> j < length l ->
  nth c (swap_list l i j) 0 =
  if c =? j then nth i l 0 else if c =? i then nth j l 0 else nth c l 0.
Proof.
  intros l i j c Hi Hj. unfold swap_list.
  destruct (Nat.eqb_spec c j) as [E|E].
  - subst c. apply nth_set_nth_eq. rewrite set_nth_length. exact Hj.
  - rewrite nth_set_nth_neq by exact E.
    destruct (Nat.eqb_spec c i) as [F|F].
    + subst c. apply nth_set_nth_eq. exact Hi.
    + apply nth_set_nth_neq. exact F.
Qed.

Lemma gather_swap_list : forall P a b Y, a < length P -> b < length P ->
  gather (swap_list P a b) Y = swap_list (gather P Y) a b.
Proof.
  intros P a b Y Ha Hb. apply nth_ext with (d := 0) (d' := 0).
  - rewrite gather_length, !swap_list_length, gather_length. reflexivity.
  - intros c Hc. rewrite gather_length, swap_list_length in Hc.
    rewrite gather_nth by (rewrite swap_list_length; exact Hc).
    rewrite !nth_swap_list by (try rewrite gather_length; assumption).
    destruct (c =? b); [symmetry; apply gather_nth; exact Ha|].
    destruct (c =? a); [symmetry; apply gather_nth; exact Hb|].
    symmetry. apply gather_nth. exact Hc.
Qed.

Lemma apply_swaps_length : forall pairs l, length (apply_swaps l pairs) = length l.
Proof.
  induction pairs as [|p pairs IH]; intros l; simpl; [reflexivity|].
  unfold apply_swaps in *. simpl. rewrite IH, swap_list_length. reflexivity.
Qed.

Lemma gather_apply_swaps : forall pairs P Y,
  (forall p, In p pairs -> fst p < length P /\ snd p < length P) ->
  gather (apply_swaps P pairs) Y = apply_swaps (gather P Y) pairs.
Proof.
  induction pairs as [|p pairs IH]; intros P Y H; [reflexivity|].
  unfold apply_swaps in *. simpl.
  destruct (H p (or_introl eq_refl)) as [A B].
  rewrite IH.
  - rewrite gather_swap_list by assumption. reflexivity.
  - intros q Hq. rewrite swap_list_length. apply H. right. exact Hq.
Qed.

Lemma swap_through_perm : forall mo n X i j, is_perm mo n -> length X = n -> i < n -> j < n ->
  swap_list (gather mo X) (nth i (inverse_perm mo) 0) (nth j (inverse_perm mo) 0)
  = gather mo (swap_list X i j).
Proof.
  intros mo n X i j HP HX Hi Hj.
  destruct (inverse_perm_spec mo n i HP Hi) as [Ai Bi].
  destruct (inverse_perm_spec mo n j HP Hj) as [Aj Bj].
  set (a := nth i (inverse_perm mo) 0) in *. set (b := nth j (inverse_perm mo) 0) in *.
  destruct HP as (ND & HL & HB).
  apply nth_ext with (d := 0) (d' := 0).
  - rewrite swap_list_length, !gather_length. reflexivity.
  - intros c Hc. rewrite swap_list_length, gather_length, HL in Hc.
    rewrite nth_swap_list by (rewrite gather_length, HL; assumption).
    rewrite (gather_nth mo (swap_list X i j) c) by (rewrite HL; exact Hc).
    assert (Mc : nth c mo 0 < n) by (apply HB; apply nth_In; rewrite HL; exact Hc).
    rewrite nth_swap_list by (rewrite HX; assumption).
    assert (Inj : forall p q, p < n -> q < n -> nth p mo 0 = nth q mo 0 -> p = q).
    { intros p q Hp Hq E. apply (proj1 (NoDup_nth mo 0) ND); rewrite ?HL; assumption. }
    destruct (Nat.eqb_spec c b) as [E|E].
    + subst c. rewrite Bj, Nat.eqb_refl. rewrite gather_nth by (rewrite HL; exact Ai).
      rewrite Bi. reflexivity.
    + destruct (Nat.eqb_spec (nth c mo 0) j) as [F|F];
        [exfalso; apply E; apply Inj; try assumption; rewrite Bj; exact F|].
      destruct (Nat.eqb_spec c a) as [G|G].
      * subst c. rewrite Bi, Nat.eqb_refl. rewrite gather_nth by (rewrite HL; exact Aj).
        rewrite Bj. reflexivity.
      * destruct (Nat.eqb_spec (nth c mo 0) i) as [K|K];
          [exfalso; apply G; apply Inj; try assumption; rewrite Bi; exact K|].
        apply gather_nth. rewrite HL. exact Hc.
Qed.

Lemma apply_swaps_through_perm : forall mo n pairs X, is_perm mo n -> length X = n ->
  (forall p, In p pairs -> fst p < n /\ snd p < n) ->
  apply_swaps (gather mo X)
    (map (fun p => (nth (fst p) (inverse_perm mo) 0, nth (snd p) (inverse_perm mo) 0)) pairs)
  = gather mo (apply_swaps X pairs).
Proof.
  intros mo n pairs. induction pairs as [|p pairs IH]; intros X HP HX H; [reflexivity|].
  unfold apply_swaps in *. simpl.
  destruct (H p (or_introl eq_refl)) as [A B].
  rewrite (swap_through_perm mo n X (fst p) (snd p) HP HX A B).
  apply IH; [exact HP|rewrite swap_list_length; exact HX|].
  intros q Hq. apply H. right. exact Hq.
Qed.

(* tensor_swap with the tensor axes in an arbitrary memory order mo
   (axis a of the reshaped array carries dims label mo[a]) *)
Definition tensor_swap_generic (mo fl : list nat) (pairs : list (nat * nat)) (f : nat) : nat :=
  let tp := inverse_perm mo in
  let tshape := gather mo fl in
  let tpairs := map (fun p => (nth (fst p) tp 0, nth (snd p) tp 0)) pairs in
  let perm := apply_swaps (seq 0 (length tshape)) tpairs in
  undigits (gather perm tshape) (gather perm (digits tshape f)).

Theorem tensor_swap_generic_correct : forall mo n fl pairs Ld,
  is_perm mo n -> length fl = n -> valid fl Ld ->
  (forall p, In p pairs -> fst p < n /\ snd p < n) ->
  tensor_swap_generic mo fl pairs (undigits (gather mo fl) (gather mo Ld)) =
  undigits (gather mo (apply_swaps fl pairs)) (gather mo (apply_swaps Ld pairs)).
Proof.
  intros mo n fl pairs Ld HP HF HV Hpairs. unfold tensor_swap_generic.
  pose proof (valid_length _ _ HV) as HLd.
  assert (HP' := HP). destruct HP' as (ND & HL & HB).
  assert (VG : valid (gather mo fl) (gather mo Ld)).
  { apply valid_gather; [exact HV|]. intros o Ho. rewrite HF. apply HB. exact Ho. }
  rewrite digits_undigits by exact VG.
  rewrite gather_length, HL.
  set (tpairs := map (fun p => (nth (fst p) (inverse_perm mo) 0, nth (snd p) (inverse_perm mo) 0)) pairs).
  assert (TB : forall q, In q tpairs -> fst q < length (seq 0 n) /\ snd q < length (seq 0 n)).
  { intros q Hq. unfold tpairs in Hq. apply in_map_iff in Hq. destruct Hq as (p & E & Hp). subst q.
    simpl. rewrite seq_length. destruct (Hpairs p Hp) as [A B].
    split; [apply (inverse_perm_spec mo n _ HP A)|apply (inverse_perm_spec mo n _ HP B)]. }
  rewrite !(gather_apply_swaps tpairs (seq 0 n)) by exact TB.
  assert (G1 : gather (seq 0 n) (gather mo fl) = gather mo fl).
  { rewrite <- HL at 1. rewrite <- (gather_length mo fl). apply gather_seq. }
  assert (G2 : gather (seq 0 n) (gather mo Ld) = gather mo Ld).
  { rewrite <- HL at 1. rewrite <- (gather_length mo Ld). apply gather_seq. }
  rewrite G1, G2. unfold tpairs.
  rewrite (apply_swaps_through_perm mo n pairs fl HP HF Hpairs).
  rewrite (apply_swaps_through_perm mo n pairs Ld HP (eq_trans HLd HF) Hpairs).
  reflexivity.
Qed.


(* ---- the model's tensor_swap_index is tensor_swap_generic for the memory
        order given by the two tensor_order lists ---- *)
Definition memory_order (stl str fl fr : list nat) : list nat :=
  tensor_order stl fl ++ map (fun x => x + length (tensor_order stl fl)) (tensor_order str fr).

Lemma tensor_order_is_perm : forall st fl, length st = length fl ->
  is_perm (tensor_order st fl) (length fl).
Proof.
  intros st fl HL. destruct (tensor_order_perm_sorted st fl HL) as [P _].
  rewrite HL in P. split; [|split].
  - apply (Permutation_NoDup (Permutation_sym P)). apply seq_NoDup.
  - rewrite (Permutation_length P). apply seq_length.
  - intros x Hx. apply (Permutation_in _ P) in Hx. apply in_seq in Hx. lia.
Qed.

Lemma gather_app_left : forall o a b, (forall x, In x o -> x < length a) ->
  gather o (a ++ b) = gather o a.
Proof.
  intros o a b H. unfold gather. apply map_ext_in. intros x Hx. apply app_nth1. apply H. exact Hx.
Qed.

Lemma gather_app_right : forall o a b,
  gather (map (fun x => x + length a) o) (a ++ b) = gather o b.
Proof.
  intros o a b. unfold gather. rewrite map_map. apply map_ext. intros x.
  rewrite Nat.add_comm. apply app_nth2_plus.
Qed.

Lemma memory_order_is_perm : forall stl str fl fr,
  length stl = length fl -> length str = length fr ->
  is_perm (memory_order stl str fl fr) (length (fl ++ fr)) /\
  gather (memory_order stl str fl fr) (fl ++ fr) = get_tensor_shape stl str fl fr.
Proof.
  intros stl str fl fr Hl Hr. unfold memory_order.
  destruct (tensor_order_is_perm stl fl Hl) as (N1 & L1 & B1).
  destruct (tensor_order_is_perm str fr Hr) as (N2 & L2 & B2).
  rewrite L1. split.
  - split; [|split].
    + apply NoDup_app_disjoint; [exact N1| |].
      * apply FinFun.Injective_map_NoDup; [intros x y E; lia|exact N2].
      * intros x Hx Hy. apply in_map_iff in Hy. destruct Hy as (y & E & _).
        specialize (B1 x Hx). lia.
    + rewrite !app_length, map_length. lia.
    + intros x Hx. rewrite app_length. apply in_app_iff in Hx. destruct Hx as [Hx|Hx].
      * specialize (B1 x Hx). lia.
      * apply in_map_iff in Hx. destruct Hx as (y & E & Hy). specialize (B2 y Hy). lia.
  - rewrite gather_app. unfold get_tensor_shape. f_equal.
    + apply gather_app_left. exact B1.
    + apply gather_app_right.
Qed.

Theorem tensor_swap_index_generic : forall stl str fl fr pairs f,
  length stl = length fl -> length str = length fr ->
  tensor_swap_index stl str fl fr pairs f =
  tensor_swap_generic (memory_order stl str fl fr) (fl ++ fr) pairs f.
Proof.
  intros stl str fl fr pairs f Hl Hr. unfold tensor_swap_index, tensor_swap_generic.
  destruct (memory_order_is_perm stl str fl fr Hl Hr) as [_ G]. rewrite G.
  unfold get_tensor_perm, memory_order. reflexivity.
Qed.

(* every Qobj type, every dims (1s included): tensor_swap exchanges the named
   label digits; the result is laid out in the memory order of the ORIGINAL dims *)
Theorem tensor_swap_any_type : forall stl str fl fr pairs Ld,
  length stl = length fl -> length str = length fr -> valid (fl ++ fr) Ld ->
  (forall p, In p pairs -> fst p < length (fl ++ fr) /\ snd p < length (fl ++ fr)) ->
  let mo := memory_order stl str fl fr in
  tensor_swap_index stl str fl fr pairs (undigits (gather mo (fl ++ fr)) (gather mo Ld)) =
  undigits (gather mo (apply_swaps (fl ++ fr) pairs)) (gather mo (apply_swaps Ld pairs)).
Proof.
  intros stl str fl fr pairs Ld Hl Hr HV HP mo.
  rewrite (tensor_swap_index_generic stl str fl fr pairs _ Hl Hr).
  destruct (memory_order_is_perm stl str fl fr Hl Hr) as [P _].
  apply (tensor_swap_generic_correct _ (length (fl ++ fr)) (fl ++ fr) pairs Ld P eq_refl HV HP).
Qed.

(* ---- superoperator sides without 1-dimensional subsystems: column stacking ---- *)
Lemma t_insert_after : forall x Y X',
  (forall y, In y Y -> t_le x y = false) ->
  (match X' with [] => True | h :: _ => t_le x h = true end) ->
  t_insert x (Y ++ X') = Y ++ x :: X'.
Proof.
  intros x Y X' HY HX. induction Y as [|y Y IH]; simpl.
  - destruct X' as [|h X']; [reflexivity|]. simpl. rewrite HX. reflexivity.
  - rewrite (HY y (or_introl eq_refl)). f_equal. apply IH. intros z Hz. apply HY. right. exact Hz.
Qed.

Lemma t_sort_rotate : forall X Y, Sorted tle X -> Sorted tle Y ->
  (forall x y, In x X -> In y Y -> t_le x y = false) ->
  t_sort (X ++ Y) = Y ++ X.
Proof.
  intros X Y SX SY H. unfold t_sort. rewrite fold_right_app.
  fold (t_sort Y). rewrite (t_sort_id Y SY).
  induction SX as [|x X' SX' IH Hd]; simpl; [rewrite app_nil_r; reflexivity|].
  rewrite IH by (intros a b Ha Hb; apply H; [right; exact Ha|exact Hb]).
  apply t_insert_after.
  - intros y Hy. apply H; [left; reflexivity|exact Hy].
  - destruct Hd as [|h X'' Hh]; [exact I|exact Hh].
Qed.


Definition items_scaled (k L : nat) (dims : list nat) : list titem :=
  map (fun p => (L * fst (fst p), snd (fst p) =? 1, snd p))
      (combine (combine (suffix_prods dims) dims) (seq k (length dims))).

Lemma combine_app_eq : forall (A B : Type) (a a' : list A) (b b' : list B),
  length a = length b -> combine (a ++ a') (b ++ b') = combine a b ++ combine a' b'.
Proof.
  intros A B. induction a as [|x a IH]; intros a' b b' H; destruct b as [|y b]; simpl in H;
    try discriminate; [reflexivity|]. simpl. rewrite IH by lia. reflexivity.
Qed.

Lemma combine_map_l : forall (A B D : Type) (f : A -> D) (a : list A) (b : list B),
  combine (map f a) b = map (fun p => (f (fst p), snd p)) (combine a b).
Proof.
  intros A B D f. induction a as [|x a IH]; intros [|y b]; simpl; try reflexivity.
  rewrite IH. reflexivity.
Qed.

Lemma t_items_super : forall l r,
  t_items (steps_super l r) (l ++ r) = items_from 0 l ++ items_scaled (length l) (prod l) r.
Proof.
  intros l r. unfold t_items, steps_super, steps, items_from, items_scaled.
  rewrite app_length, map_length, !suffix_prods_length.
  rewrite seq_app. simpl.
  rewrite (combine_app_eq _ _ (suffix_prods l) _ l r) by apply suffix_prods_length.
  rewrite combine_app_eq by (rewrite combine_length, suffix_prods_length, seq_length; lia).
  rewrite map_app. f_equal.
  rewrite combine_map_l. rewrite combine_map_l. rewrite map_map. reflexivity.
Qed.

Lemma suffix_prods_pos : forall dims s, allpos dims -> In s (suffix_prods dims) -> 0 < s.
Proof.
  induction dims as [|d t IH]; intros s Hp H; [destruct H|].
  inversion Hp as [|? ? Hd Ht]; subst. simpl in H. destruct H as [H|H].
  - subst. apply prod_pos. exact Ht.
  - apply IH; assumption.
Qed.

Lemma items_scaled_sorted : forall dims k L, 0 < L -> allpos dims ->
  Sorted tle (items_scaled k L dims).
Proof.
  induction dims as [|d t IH]; intros k L HL Hp; [constructor|].
  inversion Hp as [|? ? Hd Ht]; subst.
  unfold items_scaled. simpl. constructor; [apply (IH (S k) L HL Ht)|].
  destruct t as [|d' t']; simpl; [constructor|].
  constructor. unfold tle, t_le, t_step, t_one. simpl.
  inversion Ht as [|? ? Hd' Ht']; subst. pose proof (prod_pos t' Ht') as Hpp.
  fold (prod t').
  destruct (Nat.eqb_spec d' 1) as [E|E].
  - subst d'. rewrite Nat.mul_1_l. rewrite Nat.ltb_irrefl, Nat.eqb_refl. simpl.
    rewrite orb_true_r. reflexivity.
  - assert (Lt : (L * prod t' <? L * (d' * prod t')) = true) by (apply Nat.ltb_lt; nia).
    rewrite Lt. reflexivity.
Qed.

Lemma items_from_step_lt : forall dims k x, allpos dims -> Forall (fun d => 2 <= d) dims ->
  In x (items_from k dims) -> t_step x < prod dims.
Proof.
  induction dims as [|d t IH]; intros k x Hp H2 Hx; [destruct Hx|].
  inversion Hp as [|? ? Hd Ht]; subst. inversion H2 as [|? ? Hd2 Ht2]; subst.
  pose proof (prod_pos t Ht) as Pt.
  unfold items_from in Hx. simpl in Hx. destruct Hx as [Hx|Hx].
  - subst x. unfold t_step. simpl. fold (prod t). nia.
  - specialize (IH (S k) x Ht Ht2 Hx). simpl. fold (prod t). nia.
Qed.

Lemma items_scaled_step_ge : forall dims k L y, allpos dims ->
  In y (items_scaled k L dims) -> L <= t_step y.
Proof.
  intros dims k L y Hp Hy. unfold items_scaled in Hy. apply in_map_iff in Hy.
  destruct Hy as ([[s d] p] & E & Hin). subst y. unfold t_step. simpl.
  apply in_combine_l in Hin. apply in_combine_l in Hin.
  pose proof (suffix_prods_pos dims s Hp Hin). nia.
Qed.

Lemma items_scaled_positions : forall dims k L,
  map t_pos (items_scaled k L dims) = seq k (length dims).
Proof.
  intros dims k L. unfold items_scaled. rewrite map_map. unfold t_pos. simpl.
  assert (E : length dims = length (combine (suffix_prods dims) dims))
    by (rewrite combine_length, suffix_prods_length; lia).
  rewrite E. exact (map_snd_combine_seq _ (combine (suffix_prods dims) dims) k).
Qed.

Lemma items_from_positions : forall dims k, map t_pos (items_from k dims) = seq k (length dims).
Proof.
  intros dims k. unfold items_from. rewrite map_map. unfold t_pos. simpl.
  assert (E : length dims = length (combine (suffix_prods dims) dims))
    by (rewrite combine_length, suffix_prods_length; lia).
  rewrite E. exact (map_snd_combine_seq _ (combine (suffix_prods dims) dims) k).
Qed.

(* a superoperator side [[l], [r]] whose row space has no 1-dimensional
   subsystem: the tensor axes are the column labels then the row labels
   (column stacking) *)
Theorem tensor_order_super_column_stacking : forall l r,
  allpos l -> Forall (fun d => 2 <= d) l -> allpos r ->
  tensor_order (steps_super l r) (l ++ r) = seq (length l) (length r) ++ seq 0 (length l).
Proof.
  intros l r Pl L2 Pr. unfold tensor_order. rewrite t_items_super.
  rewrite t_sort_rotate.
  - rewrite map_app, items_scaled_positions, items_from_positions. reflexivity.
  - apply items_from_sorted. exact Pl.
  - apply items_scaled_sorted; [apply prod_pos; exact Pl|exact Pr].
  - intros x y Hx Hy.
    pose proof (items_from_step_lt l 0 x Pl L2 Hx) as A.
    pose proof (items_scaled_step_ge r (length l) (prod l) y Pr Hy) as B.
    unfold t_le.
    assert (E1 : (t_step y <? t_step x) = false) by (apply Nat.ltb_ge; lia).
    assert (E2 : (t_step x =? t_step y) = false) by (apply Nat.eqb_neq; lia).
    rewrite E1, E2. reflexivity.
Qed.

(* ---------------- _tensor_contract_dense: relabelling ---------------- *)
Definition pair_labels (pairs : list (nat * nat)) : list nat :=
  flat_map (fun p => [fst p; snd p]) pairs.

(* what has to hold of the positions handed to _tensor_contract_single: they
   point, in the current array, at the axes that carry the original labels *)
Fixpoint relabel_ok (axis : list nat) (pairs out : list (nat * nat)) : Prop :=
  match pairs, out with
  | [], [] => True
  | (a, b) :: t, (ia, ib) :: o =>
      ia < length axis /\ ib < length axis /\ ia <> ib /\
      nth ia axis 0 = a /\ nth ib axis 0 = b /\
      relabel_ok (remove_first b (remove_first a axis)) t o
  | _, _ => False
  end.

Fixpoint final_axes (axis : list nat) (pairs : list (nat * nat)) : list nat :=
  match pairs with
  | [] => axis
  | (a, b) :: t => final_axes (remove_first b (remove_first a axis)) t
  end.

Lemma index_of_nat_spec : forall l x, In x l ->
  index_of_nat x l < length l /\ nth (index_of_nat x l) l 0 = x.
Proof.
  induction l as [|y l IH]; intros x H; [destruct H|]. simpl.
  destruct (Nat.eqb_spec x y) as [E|E]; [subst; split; [lia|reflexivity]|].
  destruct H as [H|H]; [congruence|]. destruct (IH x H) as [A B]. split; [lia|exact B].
Qed.

Lemma filter_twice : forall (f g : nat -> bool) l,
  filter f (filter g l) = filter (fun x => g x && f x) l.
Proof.
  intros f g l. induction l as [|x l IH]; simpl; [reflexivity|].
  destruct (g x); simpl; [destruct (f x); simpl; rewrite IH; reflexivity|exact IH].
Qed.

Lemma filter_all : forall (l : list nat), filter (fun _ => true) l = l.
Proof. induction l as [|z l IH]; simpl; [reflexivity|]. rewrite IH. reflexivity. Qed.

Lemma remove_first_filter : forall l x, NoDup l ->
  remove_first x l = filter (fun y => negb (y =? x)) l.
Proof.
  induction l as [|y l IH]; intros x ND; [reflexivity|].
  inversion ND as [|? ? Hn ND']; subst. simpl.
  destruct (Nat.eqb_spec x y) as [E|E].
  - subst y. rewrite Nat.eqb_refl. simpl.
    rewrite <- (filter_all l) at 1. apply filter_ext_in.
    intros z Hz. destruct (Nat.eqb_spec z x) as [F|F]; [subst; tauto|reflexivity].
  - assert (F : (y =? x) = false) by (apply Nat.eqb_neq; lia). rewrite F. simpl.
    rewrite IH by exact ND'. reflexivity.
Qed.

Lemma remove_first_NoDup : forall l x, NoDup l -> NoDup (remove_first x l).
Proof. intros l x ND. rewrite remove_first_filter by exact ND. apply NoDup_filter. exact ND. Qed.

Lemma remove_first_In : forall l x y, NoDup l -> (In y (remove_first x l) <-> In y l /\ y <> x).
Proof.
  intros l x y ND. rewrite remove_first_filter by exact ND. rewrite filter_In. split.
  - intros [A B]. split; [exact A|]. intro E. subst. rewrite Nat.eqb_refl in B. discriminate.
  - intros [A B]. split; [exact A|]. apply negb_true_iff. apply Nat.eqb_neq. exact B.
Qed.

Theorem contract_relabel_ok : forall pairs axis,
  NoDup axis -> NoDup (pair_labels pairs) -> (forall x, In x (pair_labels pairs) -> In x axis) ->
  relabel_ok axis pairs (contract_relabel axis pairs).
Proof.
  induction pairs as [|[a b] pairs IH]; intros axis NA NP HI; [exact I|].
  simpl in NP. inversion NP as [|? ? Ha NP']; subst. inversion NP' as [|? ? Hb NP'']; subst.
  assert (Iaa : In a axis) by (apply HI; left; reflexivity).
  assert (Ibb : In b axis) by (apply HI; right; left; reflexivity).
  assert (Nab : a <> b) by (intro E; apply Ha; left; congruence).
  destruct (index_of_nat_spec axis a Iaa) as [A1 A2].
  destruct (index_of_nat_spec axis b Ibb) as [B1 B2].
  cbn [contract_relabel relabel_ok].
  split; [exact A1|]. split; [exact B1|]. split; [intro E; apply Nab; rewrite <- A2, <- B2, E; reflexivity|].
  split; [exact A2|]. split; [exact B2|].
  apply IH.
  - apply remove_first_NoDup. apply remove_first_NoDup. exact NA.
  - exact NP''.
  - intros x Hx.
    apply remove_first_In; [apply remove_first_NoDup; exact NA|]. split.
    + apply remove_first_In; [exact NA|]. split; [apply HI; right; right; exact Hx|].
      intro E. subst x. apply Ha. right. exact Hx.
    + intro E. subst x. apply Hb. exact Hx.
Qed.

(* the axes that are left, in their original order *)
Theorem final_axes_spec : forall pairs axis, NoDup axis ->
  final_axes axis pairs = filter (fun x => negb (memb x (pair_labels pairs))) axis.
Proof.
  induction pairs as [|[a b] pairs IH]; intros axis NA; simpl.
  - symmetry. apply filter_all.
  - rewrite IH by (apply remove_first_NoDup; apply remove_first_NoDup; exact NA).
    rewrite (remove_first_filter (remove_first a axis) b) by (apply remove_first_NoDup; exact NA).
    rewrite (remove_first_filter axis a NA). rewrite !filter_twice.
    apply filter_ext. intros x. unfold memb. simpl.
    rewrite (Nat.eqb_sym x a), (Nat.eqb_sym x b).
    destruct (a =? x); destruct (b =? x); simpl; try reflexivity;
      destruct (existsb (Nat.eqb x) (pair_labels pairs)); reflexivity.
Qed.

Lemma NoDup_map_inj_on : forall (f : nat -> nat) l, NoDup l ->
  (forall x y, In x l -> In y l -> f x = f y -> x = y) -> NoDup (map f l).
Proof.
  intros f l ND. induction ND as [|x l Hn ND IH]; intros Inj; simpl; constructor.
  - intro H. apply in_map_iff in H. destruct H as (y & E & Hy).
    assert (y = x) by (apply Inj; [right; exact Hy|left; reflexivity|exact E]). subst. tauto.
  - apply IH. intros a b Ha Hb. apply Inj; right; assumption.
Qed.

Lemma pair_labels_map : forall (g : nat -> nat) pairs,
  pair_labels (map (fun p => (g (fst p), g (snd p))) pairs) = map g (pair_labels pairs).
Proof.
  intros g pairs. induction pairs as [|[a b] pairs IH]; simpl; [reflexivity|].
  unfold pair_labels in *. simpl. rewrite IH. reflexivity.
Qed.

(* tensor_contract, any Qobj type: the dims labels of the pairs are mapped to
   tensor axes, and at every step _tensor_contract_single receives the two
   positions that currently carry those axes; what is left are the
   uncontracted axes in their original (memory) order *)
Theorem tensor_contract_positions : forall stl str fl fr pairs,
  length stl = length fl -> length str = length fr ->
  NoDup (pair_labels pairs) ->
  (forall x, In x (pair_labels pairs) -> x < length (fl ++ fr)) ->
  let n := length (fl ++ fr) in
  let mo := memory_order stl str fl fr in
  let tp := get_tensor_perm stl str fl fr in
  let tpairs := map (fun p => (nth (fst p) tp 0, nth (snd p) tp 0)) pairs in
  (forall x, In x (pair_labels pairs) -> nth x tp 0 < n /\ nth (nth x tp 0) mo 0 = x) /\
  relabel_ok (seq 0 n) tpairs (contract_relabel (seq 0 n) tpairs) /\
  final_axes (seq 0 n) tpairs
    = filter (fun a => negb (memb a (map (fun x => nth x tp 0) (pair_labels pairs)))) (seq 0 n).
Proof.
  intros stl str fl fr pairs Hl Hr ND HB n mo tp tpairs.
  destruct (memory_order_is_perm stl str fl fr Hl Hr) as [P _]. fold n mo in P.
  assert (TP : tp = inverse_perm mo) by reflexivity.
  assert (S : forall x, In x (pair_labels pairs) -> nth x tp 0 < n /\ nth (nth x tp 0) mo 0 = x).
  { intros x Hx. rewrite TP. apply (inverse_perm_spec mo n x P). apply HB. exact Hx. }
  assert (PL : pair_labels tpairs = map (fun x => nth x tp 0) (pair_labels pairs)).
  { unfold tpairs. apply (pair_labels_map (fun x => nth x tp 0)). }
  split; [exact S|]. split.
  - apply contract_relabel_ok.
    + apply seq_NoDup.
    + rewrite PL. apply NoDup_map_inj_on; [exact ND|].
      intros x y Hx Hy E. destruct (S x Hx) as [_ A]. destruct (S y Hy) as [_ B].
      rewrite <- A, <- B, E. reflexivity.
    + intros a Ha. rewrite PL in Ha. apply in_map_iff in Ha. destruct Ha as (x & E & Hx).
      subst a. apply in_seq. destruct (S x Hx) as [A _]. lia.
  - rewrite final_axes_spec by apply seq_NoDup. rewrite PL. reflexivity.
Qed.
