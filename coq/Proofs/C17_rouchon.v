(* C17 - Rouchon's step over matrices of arbitrary dimension (MathComp), any
   commutative unit ring with an involutive conjugation: normalisation gives
   trace one, Hermiticity is kept whatever M_dy is, and for a pure state
   without unmonitored channels the density-matrix step is the projector of
   the wave-function step. *)
From mathcomp Require Import all_ssreflect all_algebra.
From QV Require Import Model.C17_sde Model.C17_sys Proofs.C17_lindblad Proofs.C17_sys.
Set Implicit Arguments.
Unset Strict Implicit.
Unset Printing Implicit Defensive.
Import GRing.Theory.
Local Open Scope ring_scope.

Section Rouchon.
Variable (R : comUnitRingType) (conj : {rmorphism R -> R}).
Hypothesis conjK : involutive conj.
Variables (imag halfr : R).
Variable n : nat.
Notation M := 'M[R]_n.
Notation dag := (@dagger R conj n).

Definition mc_malg : malg R M :=
  {| q0 := 0; q1 := 1; qadd := +%R; qmul := *%R; qsub := fun x y => x - y; qopp := -%R;
     qhalf := halfr; qeighth := halfr * halfr * halfr; qi := imag; qinv := GRing.inv;
     oadd := +%R; oscale := *:%R; omul := fun A B => A *m B; odag := dag;
     otr := fun A => \tr A; oone := 1%:M |}.

Lemma fold_left_herm (f : M -> M -> M) (l : seq M) (z : M) :
  (forall acc c, herm conj acc -> herm conj (f acc c)) -> herm conj z ->
  herm conj (foldl f z l).
Proof. by move=> Hf; elim: l z => [|c l IH] z Hz //=; apply: IH; apply: Hf. Qed.

Lemma fold_leftE (T S : Type) (f : T -> S -> T) l z : List.fold_left f l z = foldl f z l.
Proof. by elim: l z => [|x l IH] z //=. Qed.

Lemma herm_sandwich (A X : M) : herm conj X -> herm conj (A *m X *m dag A).
Proof.
  move=> HX. rewrite /herm !(@dagger_mul R conj n) (daggerK conjK) HX. by rewrite mulmxA.
Qed.

(* out = M rho M^dag + sum c rho c^dag dt is Hermitian for Hermitian rho and
   real dt - for ANY M (so whatever dy is) *)
Lemma herm_rouchon_N (Mdy : M) (c_ops : seq M) (dt : R) (rho : M) :
  herm conj rho -> real conj dt -> herm conj (rouchon_N mc_malg Mdy c_ops dt rho).
Proof.
  move=> Hr Hdt. rewrite /rouchon_N fold_leftE /=.
  apply: fold_left_herm; last exact: herm_sandwich.
  move=> acc c Hacc. apply: herm_add => //. apply: herm_scale => //. exact: herm_sandwich.
Qed.

Lemma herm_rouchon_unnorm H sc_ops c_ops dt dW rho :
  herm conj rho -> real conj dt -> herm conj (rouchon_unnorm mc_malg H sc_ops c_ops dt dW rho).
Proof. move=> Hr Hdt. exact: herm_rouchon_N. Qed.

Lemma herm_rouchon_step H sc_ops c_ops dt dW rho :
  herm conj rho -> real conj dt ->
  \tr (rouchon_unnorm mc_malg H sc_ops c_ops dt dW rho) \is a GRing.unit ->
  herm conj (rouchon_step mc_malg H sc_ops c_ops dt dW rho).
Proof.
  move=> Hr Hdt Hu. rewrite /rouchon_step /=.
  have Hh := herm_rouchon_unnorm H sc_ops c_ops dW Hr Hdt.
  apply: herm_scale => //. rewrite /real rmorphV //. congr (_^-1).
  exact: (real_tr Hh).
Qed.

Lemma tr_rouchon_step H sc_ops c_ops dt dW rho :
  \tr (rouchon_unnorm mc_malg H sc_ops c_ops dt dW rho) \is a GRing.unit ->
  \tr (rouchon_step mc_malg H sc_ops c_ops dt dW rho) = 1.
Proof. by move=> Hu; rewrite /rouchon_step /= mxtraceZ mulVr. Qed.

(* pure state, no unmonitored channel: density-matrix step = projector of the
   wave-function step (both before normalisation) *)
Lemma rouchon_pure H sc_ops dt dW (X : M) :
  rouchon_unnorm mc_malg H sc_ops [::] dt dW (X *m dag X)
  = rouchon_ket_unnorm mc_malg H sc_ops dt dW X
    *m dag (rouchon_ket_unnorm mc_malg H sc_ops dt dW X).
Proof.
  rewrite /rouchon_unnorm /rouchon_ket_unnorm /rouchon_N /=.
  rewrite (@Mdy_ext R M mc_malg _ sc_ops dt
             (rouchon_dy_dm mc_malg sc_ops dt dW (X *m dag X))
             (rouchon_dy_ket mc_malg sc_ops dt dW X)); last first.
  { move=> i _. rewrite /rouchon_dy_dm /rouchon_dy_ket /kexpect /=.
    by rewrite mulmxA mxtrace_mulC !mulmxA. }
  by rewrite (@dagger_mul R conj n) !mulmxA.
Qed.
End Rouchon.
