(* C20 - the quantum Fourier transform table is unitary for every dimension,
   over any commutative ring containing an N-th root of unity w for which
   w^d - 1 (0 < d < N) is not a zero divisor (true of exp(2 pi i/N) in C). *)
From Coq Require Import List ZArith Bool Arith Lia Ring.
Import ListNotations.
From QV Require Import Model.C20 Model.C20_b Proofs.C20.

Section QFT.
  Variable R : Type.
  Variables (rO rI : R) (radd rmul rsub : R -> R -> R) (ropp : R -> R).
  Variable Rth : ring_theory rO rI radd rmul rsub ropp eq.
  Add Ring Rring3 : Rth.
  Notation "x +r y" := (radd x y) (at level 50, left associativity).
  Notation "x *r y" := (rmul x y) (at level 40, left associativity).
  Notation "x -r y" := (rsub x y) (at level 50, left associativity).
  Notation sum := (sumn R rO radd).

  Fixpoint rpow (a : R) (k : nat) : R := match k with O => rI | S j => a *r rpow a j end.
  Lemma rpow_add a m n : rpow a (m + n) = rpow a m *r rpow a n.
  Proof. induction m as [|m IH]; simpl; [ring|rewrite IH; ring]. Qed.
  Lemma rpow_mul a m n : rpow a (m * n) = rpow (rpow a m) n.
  Proof.
    induction n as [|n IH]; [rewrite Nat.mul_0_r; reflexivity|].
    rewrite Nat.mul_succ_r, Nat.add_comm, rpow_add, IH. reflexivity.
  Qed.
  Lemma rpow_one n : rpow rI n = rI.
  Proof. induction n as [|n IH]; simpl; [reflexivity|rewrite IH; ring]. Qed.

  (* (a - 1) (1 + a + ... + a^(n-1)) = a^n - 1 *)
  Lemma geometric a n : (a -r rI) *r sum n (fun k => rpow a k) = rpow a n -r rI.
  Proof.
    induction n as [|n IH]; simpl; [ring|].
    transitivity ((a -r rI) *r sum n (fun k => rpow a k) +r (a -r rI) *r rpow a n); [ring|].
    rewrite IH. ring.
  Qed.

  Lemma sum_const_one n : sum n (fun _ => rI) = zr R rO rI radd rmul ropp (Z.of_nat n).
  Proof.
    induction n as [|n IH]; [symmetry; apply (zr_0 R rO rI radd rmul rsub ropp Rth)|].
    simpl sumn. rewrite IH. rewrite Nat2Z.inj_succ. unfold Z.succ.
    rewrite (zr_add R rO rI radd rmul rsub ropp Rth), (zr_1 R rO rI radd rmul rsub ropp Rth).
    reflexivity.
  Qed.

  Variable w : R.
  Variable N : nat.
  Hypothesis HN : (1 <= N)%nat.
  Hypothesis w_root : rpow w N = rI.
  Hypothesis w_primitive : forall d x, (0 < d < N)%nat -> x *r (rpow w d -r rI) = rO -> x = rO.

  (* qft: data[r][c] = exp(phase * (L*M)[r][c]) / sqrt(N), (L*M)[r][c] = c*r;
     without the common factor: w^(r c).  The adjoint holds the conjugates
     w^(-r c) = w^((N - r) c). *)
  Definition F (r c : nat) : R := rpow w (qft_exponent r c).
  Definition Fdag (c r : nat) : R := rpow w (qft_exponent (N - r) c).

  Lemma w_pow_mod e : rpow w e = rpow w (e mod N).
  Proof.
    assert (HN0 : N <> 0%nat) by lia.
    rewrite (Nat.div_mod e N HN0) at 1.
    rewrite rpow_add, rpow_mul, w_root, rpow_one. ring.
  Qed.

  Theorem qft_unitary j j' : (j < N)%nat -> (j' < N)%nat ->
    sum N (fun k => F j k *r Fdag k j') =
    if (j =? j')%nat then zr R rO rI radd rmul ropp (Z.of_nat N) else rO.
  Proof.
    intros Hj Hj'. unfold F, Fdag, qft_exponent.
    rewrite (sumn_ext R rO radd N _ (fun k => rpow (rpow w (j + (N - j'))) k)).
    2:{ intros k _. rewrite <- rpow_add, <- rpow_mul. f_equal. lia. }
    destruct (j =? j')%nat eqn:Q.
    - apply Nat.eqb_eq in Q. subst j'.
      replace (j + (N - j))%nat with N by lia. rewrite w_root.
      rewrite (sumn_ext R rO radd N _ (fun _ => rI)) by (intros; apply rpow_one).
      apply sum_const_one.
    - apply Nat.eqb_neq in Q.
      rewrite (w_pow_mod (j + (N - j'))).
      set (d := ((j + (N - j')) mod N)%nat).
      assert (Hd : (0 < d < N)%nat).
      { unfold d. split; [|apply Nat.mod_upper_bound; lia].
        destruct (Nat.lt_ge_cases j j') as [L|G].
        - rewrite Nat.mod_small by lia. lia.
        - replace (j + (N - j'))%nat with ((j - j') + 1 * N)%nat by lia.
          rewrite Nat.mod_add by lia. rewrite Nat.mod_small by lia. lia. }
      apply (w_primitive d _ Hd).
      rewrite (Rmul_comm Rth). rewrite geometric.
      rewrite <- rpow_mul, Nat.mul_comm, rpow_mul, w_root, rpow_one. ring.
  Qed.
End QFT.
