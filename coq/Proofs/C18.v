(* C18 - proofs.  Algebra of the steady-state constructions over an arbitrary
   field R with an involutive ring morphism conj (all that is assumed of the
   complex numbers), arbitrary dimension. *)
From mathcomp Require Import all_ssreflect all_algebra.
From mathcomp Require Import mxtens.
From QV Require Import Base.MxHerm Model.C18.

Set Implicit Arguments.
Unset Strict Implicit.
Unset Printing Implicit Defensive.
Import GRing.Theory.
Local Open Scope ring_scope.

(* ------------------------------------------------------------------------ *)
(* 1. Abstract linear algebra: a functional t, a vector e with t e = 1.      *)
Section AbstractRow.
Variable R : fieldType.
Variable N : nat.
Variables (t : 'rV[R]_N) (e : 'cV[R]_N).
Hypothesis te1 : t *m e = 1%:M.
Variable L : 'M[R]_N.
Variable w : R.

Definition Lmod : 'M[R]_N := w *: (e *m t) + L.
Definition bmod : 'cV[R]_N := w *: e.

Lemma t_Lmod (x : 'cV[R]_N) : t *m L = 0 -> t *m (Lmod *m x) = w *: (t *m x).
Proof.
move=> tL; rewrite /Lmod mulmxDl mulmxDr -scalemxAl -scalemxAr.
by rewrite [t *m (L *m x)]mulmxA tL mul0mx addr0 -[e *m t *m x]mulmxA [t *m (e *m _)]mulmxA te1 mul1mx.
Qed.

Lemma direct_trace (x : 'cV[R]_N) :
  t *m L = 0 -> w != 0 -> Lmod *m x = bmod -> t *m x = 1%:M.
Proof.
move=> tL w0 Hx; have := t_Lmod x tL.
rewrite Hx /bmod -scalemxAr te1 => /esym H.
by apply: (scalerI w0).
Qed.

Lemma direct_null (x : 'cV[R]_N) :
  t *m L = 0 -> w != 0 -> Lmod *m x = bmod -> L *m x = 0.
Proof.
move=> tL w0 Hx; have tx := direct_trace tL w0 Hx.
move: Hx; rewrite /Lmod /bmod mulmxDl -scalemxAl -mulmxA tx mulmx1 => H.
by apply: (addrI (w *: e)); rewrite H addr0.
Qed.

Lemma direct_complete (x : 'cV[R]_N) :
  L *m x = 0 -> t *m x = 1%:M -> Lmod *m x = bmod.
Proof.
by move=> Lx tx; rewrite /Lmod /bmod mulmxDl Lx addr0 -scalemxAl -mulmxA tx mulmx1.
Qed.

(* the solution of the modified system is unique as soon as the null space
   of L is one-dimensional in the sense "two normalised fixed points agree" *)
Lemma direct_unique (x y : 'cV[R]_N) :
  t *m L = 0 -> w != 0 ->
  (forall a b : 'cV[R]_N, L *m a = 0 -> L *m b = 0 -> t *m a = 1%:M -> t *m b = 1%:M -> a = b) ->
  Lmod *m x = bmod -> Lmod *m y = bmod -> x = y.
Proof.
move=> tL w0 U Hx Hy.
by apply: U; [exact: direct_null Hx|exact: direct_null Hy|exact: direct_trace Hx|exact: direct_trace Hy].
Qed.

(* HEOMSolver.steady_state: row r0 of L is replaced by t, rhs = e_r0 *)
Variable r0 : 'I_N.
Definition Lrep : 'M[R]_N := \matrix_(i, j) (if i == r0 then t 0 j else L i j).

Lemma rowrep_rows (x : 'cV[R]_N) i : i != r0 -> (Lrep *m x) i 0 = (L *m x) i 0.
Proof.
move=> ne; rewrite !mxE; apply: eq_bigr => k _.
by rewrite !mxE (negbTE ne).
Qed.

Lemma rowrep_row0 (x : 'cV[R]_N) : (Lrep *m x) r0 0 = (t *m x) 0 0.
Proof. by rewrite !mxE; apply: eq_bigr => k _; rewrite !mxE eqxx. Qed.

Lemma rowrep_sound (x : 'cV[R]_N) :
  t 0 r0 = 1 -> t *m L = 0 -> Lrep *m x = delta_mx r0 0 ->
  (t *m x) 0 0 = 1 /\ L *m x = 0.
Proof.
move=> t1 tL Hx.
have H0 : (t *m x) 0 0 = 1 by rewrite -rowrep_row0 Hx mxE !eqxx.
have Hi i : i != r0 -> (L *m x) i 0 = 0.
  by move=> ne; rewrite -rowrep_rows // Hx mxE (negbTE ne).
split=> //.
have: (t *m (L *m x)) 0 0 = 0 by rewrite mulmxA tL mul0mx mxE.
rewrite mxE (bigD1 r0) //= big1 ?addr0 ?t1 ?mul1r; last first.
  by move=> i ne; rewrite Hi // mulr0.
move=> Hr; apply/colP => i; rewrite [RHS]mxE.
by case: (eqVneq i r0) => [->//|/Hi].
Qed.

End AbstractRow.

(* ------------------------------------------------------------------------ *)
(* 2. Column stacking.                                                       *)
Section Vec.
Variable R : fieldType.
Variable conj : {rmorphism R -> R}.
Hypothesis conjK : involutive conj.
Variable n : nat.

Local Notation dag := (@dag R conj _ _).

Definition cvec (X : 'M[R]_n) : 'cV[R]_(n * n) :=
  \col_k X (mxtens_unindex k).2 (mxtens_unindex k).1.
Definition unvec (x : 'cV[R]_(n * n)) : 'M[R]_n :=
  \matrix_(i, j) x (mxtens_index (j, i)) 0.

Lemma cvecK : cancel cvec unvec.
Proof. by move=> X; apply/matrixP => i j; rewrite !mxE mxtens_indexK. Qed.
Lemma unvecK : cancel unvec cvec.
Proof.
move=> x; apply/colP => k; rewrite !mxE.
by case: (mxtens_indexP k) => j i; rewrite mxtens_indexK.
Qed.

Lemma cvecD X Y : cvec (X + Y) = cvec X + cvec Y.
Proof. by apply/colP => k; rewrite !mxE. Qed.
Lemma cvecZ a X : cvec (a *: X) = a *: cvec X.
Proof. by apply/colP => k; rewrite !mxE. Qed.
Lemma cvec0 : cvec 0 = 0.
Proof. by apply/colP => k; rewrite !mxE. Qed.
Lemma unvecD x y : unvec (x + y) = unvec x + unvec y.
Proof. by apply/matrixP => i j; rewrite !mxE. Qed.
Lemma unvecZ a x : unvec (a *: x) = a *: unvec x.
Proof. by apply/matrixP => i j; rewrite !mxE. Qed.
Lemma unvec0 : unvec 0 = 0.
Proof. by apply/matrixP => i j; rewrite !mxE. Qed.

Definition vec1 : 'cV[R]_(n * n) := cvec 1%:M.
Definition trow : 'rV[R]_(n * n) := vec1^T.

(* vec(1)^T x = tr (unvec x) *)
Lemma trow_tr x : trow *m x = (\tr (unvec x))%:M.
Proof.
apply/matrixP => a b; rewrite !ord1 !mxE eqxx mulr1n.
rewrite (reindex (@mxtens_index n n)) /=; last first.
  by exists (@mxtens_unindex n n) => k _; rewrite (mxtens_indexK, mxtens_unindexK).
pose G (j i : 'I_n) := trow 0 (mxtens_index (j, i)) * x (mxtens_index (j, i)) 0.
rewrite (eq_bigr (fun p => G p.1 p.2)); last by case.
rewrite -(pair_bigA _ G) /= /G.
rewrite /mxtrace; apply: eq_bigr => j _.
rewrite (bigD1 j) //= big1 ?addr0.
  by rewrite !mxE mxtens_indexK /= eqxx mul1r.
by move=> i ne; rewrite !mxE mxtens_indexK /= (negbTE ne) mul0r.
Qed.

Lemma trow_tr00 x : (trow *m x) 0 0 = \tr (unvec x).
Proof. by rewrite trow_tr mxE eqxx. Qed.

Lemma trow_cvec X : trow *m cvec X = (\tr X)%:M.
Proof. by rewrite trow_tr cvecK. Qed.

(* the unit vector of a diagonal position (i0, i0) *)
Definition ediag (i0 : 'I_n) : 'cV[R]_(n * n) := delta_mx (mxtens_index (i0, i0)) 0.

Lemma trow_ediag i0 : trow *m ediag i0 = 1%:M.
Proof.
apply/matrixP => a b; rewrite !ord1 !mxE eqxx.
rewrite (bigD1 (mxtens_index (i0, i0))) //= big1 ?addr0.
  by rewrite !mxE !eqxx mxtens_indexK /= eqxx mulr1.
by move=> k ne; rewrite [X in _ * X]mxE (negbTE ne) mulr0.
Qed.

(* Hermiticity preservation of a superoperator matrix *)
Definition hp (L : 'M[R]_(n * n)) : Prop :=
  forall X : 'M[R]_n, L *m cvec (dag X) = cvec (dag (unvec (L *m cvec X))).
(* trace preservation: vec(1)^T L = 0 *)
Definition tp (L : 'M[R]_(n * n)) : Prop := trow *m L = 0.

Lemma hp_null L X : hp L -> L *m cvec X = 0 -> L *m cvec (dag X) = 0.
Proof. by move=> H Z; rewrite H Z unvec0 /MxHerm.dag trmx0 map_mx0 cvec0. Qed.

Lemma dag0 : dag (0 : 'M[R]_n) = 0.
Proof. by rewrite /MxHerm.dag trmx0 map_mx0. Qed.

Lemma conj_nat k : conj k%:R = k%:R.
Proof. by rewrite rmorph_nat. Qed.

(* ---- _steadystate_direct ---- *)
Section Direct.
Variable L : 'M[R]_(n * n).
Variable w : R.
Variable i0 : 'I_n.
Hypothesis Ltp : tp L.
Hypothesis w0 : w != 0.

Definition dL := Lmod trow (ediag i0) L w.
Definition db := bmod (ediag i0) w.

Lemma direct_sound x : dL *m x = db -> \tr (unvec x) = 1 /\ L *m x = 0.
Proof.
move=> Hx; split; last exact: (direct_null (trow_ediag i0) Ltp w0 Hx).
have := direct_trace (trow_ediag i0) Ltp w0 Hx.
by rewrite -trow_tr00 => ->; rewrite mxE eqxx.
Qed.

Lemma direct_complete_vec x : L *m x = 0 -> \tr (unvec x) = 1 -> dL *m x = db.
Proof.
move=> Lx tx; apply: direct_complete => //.
by rewrite trow_tr tx.
Qed.

(* rho_ss = (rho + rho^dag) * 0.5 *)
Definition hermitise (X : 'M[R]_n) : 'M[R]_n := 2%:R^-1 *: (X + dag X).

Lemma hermitise_herm X : dag (hermitise X) = hermitise X.
Proof.
rewrite /hermitise dag_scale dag_add (dagK conjK) fmorphV conj_nat.
by rewrite [dag X + X]addrC.
Qed.

Lemma direct_result x :
  hp L -> (2%:R : R) != 0 -> dL *m x = db ->
  let rho := hermitise (unvec x) in
  [/\ dag rho = rho, \tr rho = 1 & L *m cvec rho = 0].
Proof.
move=> Lhp two Hx rho; have [tx Lx] := direct_sound Hx.
split; first exact: hermitise_herm.
  rewrite /rho /hermitise mxtraceZ mxtraceD tr_dag tx rmorph1.
  by rewrite -[1 + 1]/(2%:R) mulVf.
rewrite /rho /hermitise cvecZ cvecD -scalemxAr mulmxDr unvecK Lx add0r.
by rewrite (@hp_null L (unvec x)) ?scaler0 // unvecK.
Qed.

End Direct.

(* ---- null vector + normalisation (eigen / svd / power / propagator) ---- *)
Section Null.
Variable L : 'M[R]_(n * n).
Hypothesis Lhp : hp L.
(* one-dimensional null space *)
Hypothesis null1 : forall y z : 'cV[R]_(n * n),
  L *m y = 0 -> L *m z = 0 -> z != 0 -> exists c, y = c *: z.

Variable v : 'cV[R]_(n * n).
Hypothesis Lv : L *m v = 0.
Let V := unvec v.

Lemma null_dag : \tr V != 0 -> exists2 d, dag V = d *: V & conj (\tr V) = d * \tr V.
Proof.
move=> tV.
have v0 : v != 0.
  by apply: contraNneq tV => v0; rewrite /V v0 unvec0 mxtrace0.
have Ld : L *m cvec (dag V) = 0 by apply: hp_null => //; rewrite unvecK.
have [d Hd] := null1 Ld Lv v0.
have HV : dag V = d *: V by rewrite -[LHS]cvecK Hd unvecZ.
by exists d => //; rewrite -tr_dag HV mxtraceZ.
Qed.

(* _steadystate_eigen:  rho / rho.tr() *)
Definition normalise (X : 'M[R]_n) : 'M[R]_n := (\tr X)^-1 *: X.

Lemma eigen_result :
  \tr V != 0 ->
  [/\ dag (normalise V) = normalise V, \tr (normalise V) = 1
    & L *m cvec (normalise V) = 0].
Proof.
move=> tV; split.
- have [d HV Ht] := null_dag tV.
  have d0 : d != 0.
    apply: contraNneq tV => d0; move: Ht; rewrite d0 mul0r => /eqP.
    by rewrite fmorph_eq0.
  rewrite /normalise dag_scale fmorphV Ht HV scalerA invfM.
  by rewrite mulrAC mulVf // mul1r.
- by rewrite /normalise mxtraceZ mulVf.
- by rewrite /normalise cvecZ -scalemxAr unvecK Lv scaler0.
Qed.

(* _steadystate_svd (after the repair): rho / rho.tr() on the unflagged
   operator, i.e. the same normalisation as _steadystate_eigen *)
Lemma svd_result :
  \tr V != 0 ->
  [/\ dag (normalise V) = normalise V, \tr (normalise V) = 1
    & L *m cvec (normalise V) = 0].
Proof. exact: eigen_result. Qed.

(* _steadystate_power: rho + rho.dag(), / tr  -- Hermitian for every phase *)
Definition power_normalise (X : 'M[R]_n) : 'M[R]_n := normalise (X + dag X).

Lemma power_post_result :
  \tr (V + dag V) != 0 ->
  [/\ dag (power_normalise V) = power_normalise V, \tr (power_normalise V) = 1
    & L *m cvec (power_normalise V) = 0].
Proof.
move=> tS; rewrite /power_normalise /normalise; split.
- rewrite dag_scale dag_add (dagK conjK) fmorphV -tr_dag dag_add (dagK conjK).
  by rewrite [dag V + V]addrC.
- by rewrite mxtraceZ mulVf.
- rewrite cvecZ cvecD -scalemxAr mulmxDr unvecK Lv add0r.
  by rewrite (@hp_null L V) ?scaler0 // unvecK.
Qed.

(* _steadystate_expm step: (rho' + rho'^dag) / (2 tr rho') *)
Definition expm_step (X : 'M[R]_n) : 'M[R]_n := (2%:R * \tr X)^-1 *: (X + dag X).

Lemma expm_step_real X :
  (2%:R : R) != 0 -> \tr X != 0 -> conj (\tr X) = \tr X ->
  dag (expm_step X) = expm_step X /\ \tr (expm_step X) = 1.
Proof.
move=> two tX real; rewrite /expm_step; split.
  rewrite dag_scale dag_add (dagK conjK) fmorphV rmorphM conj_nat real.
  by rewrite [dag X + X]addrC.
rewrite mxtraceZ mxtraceD tr_dag real -mulr2n -[\tr X *+ 2]mulr_natl.
by rewrite mulVf // mulf_neq0.
Qed.

End Null.
End Vec.

(* ------------------------------------------------------------------------ *)
(* 3. pseudo_inverse: R = Q (L + s)^-1 Q with the inverse as an oracle.       *)
Section Pinv.
Variable R : fieldType.
Variable N : nat.
Variables (L Linv P : 'M[R]_N) (s : R).
Hypothesis LP : L *m P = 0.
Hypothesis PL : P *m L = 0.
Hypothesis PP : P *m P = P.
Hypothesis invr : (L + s%:M) *m Linv = 1%:M.
Hypothesis invl : Linv *m (L + s%:M) = 1%:M.

Definition Qp : 'M[R]_N := 1%:M - P.
Definition Rp : 'M[R]_N := Qp *m (Linv *m Qp).     (* matmul(Q, solve(A, Q)) *)

Lemma PA : P *m (L + s%:M) = (L + s%:M) *m P.
Proof. by rewrite mulmxDr mulmxDl PL LP scalar_mxC. Qed.

Lemma P_Linv : P *m Linv = Linv *m P.
Proof.
rewrite -[P *m Linv]mul1mx -invl -!mulmxA [(L + _) *m (P *m _)]mulmxA -PA.
by rewrite -!mulmxA invr mulmx1.
Qed.

Lemma Q_Linv : Qp *m Linv = Linv *m Qp.
Proof. by rewrite /Qp mulmxBl mulmxBr mul1mx mulmx1 P_Linv. Qed.

Lemma QQ : Qp *m Qp = Qp.
Proof.
rewrite /Qp mulmxBl !mulmxBr !mul1mx mulmx1 PP subrr subr0. by [].
Qed.

Lemma PQ0 : P *m Qp = 0.
Proof. by rewrite /Qp mulmxBr mulmx1 PP subrr. Qed.
Lemma QP0 : Qp *m P = 0.
Proof. by rewrite /Qp mulmxBl mul1mx PP subrr. Qed.

Lemma RpE : Rp = Linv *m Qp.
Proof. by rewrite /Rp mulmxA Q_Linv -mulmxA QQ. Qed.

Lemma pinv_AR : (L + s%:M) *m Rp = Qp.
Proof. by rewrite RpE mulmxA invr mul1mx. Qed.
Lemma pinv_RA : Rp *m (L + s%:M) = Qp.
Proof. by rewrite RpE -Q_Linv -mulmxA invl mulmx1. Qed.

Lemma pinv_LR : L *m Rp = Qp - s *: Rp.
Proof.
have := pinv_AR; rewrite mulmxDl mul_scalar_mx => <-.
by rewrite addrK.
Qed.
Lemma pinv_RL : Rp *m L = Qp - s *: Rp.
Proof.
have := pinv_RA; rewrite mulmxDr mul_mx_scalar => <-.
by rewrite addrK.
Qed.
Lemma pinv_PR : P *m Rp = 0.
Proof. by rewrite RpE mulmxA P_Linv -mulmxA PQ0 mulmx0. Qed.
Lemma pinv_RP : Rp *m P = 0.
Proof. by rewrite RpE -mulmxA QP0 mulmx0. Qed.
Lemma pinv_LRL : L *m Rp *m L = L - s *: (Rp *m L).
Proof.
by rewrite pinv_LR mulmxBl -scalemxAl /Qp mulmxBl mul1mx PL subr0.
Qed.
Lemma pinv_RLR : Rp *m L *m Rp = Rp - s *: (Rp *m Rp).
Proof.
rewrite pinv_RL mulmxBl -scalemxAl; congr (_ - _).
by rewrite /Rp mulmxA QQ.
Qed.
(* on the traceless subspace (P x = 0): L (R x) = x - s R x *)
Lemma pinv_traceless (x : 'cV[R]_N) : P *m x = 0 -> L *m (Rp *m x) = x - s *: (Rp *m x).
Proof.
move=> Px; rewrite mulmxA pinv_LR mulmxBl -scalemxAl /Qp mulmxBl mul1mx Px subr0.
by [].
Qed.

End Pinv.

(* the projector used by pseudo_inverse satisfies the hypotheses above *)
Section PinvP.
Variable R : fieldType.
Variable conj : {rmorphism R -> R}.
Variable n : nat.
Variable L : 'M[R]_(n * n).
Variable rho : 'M[R]_n.
Definition Pss : 'M[R]_(n * n) := cvec rho *m trow R n.

Lemma Pss_LP : L *m cvec rho = 0 -> L *m Pss = 0.
Proof. by move=> H; rewrite /Pss mulmxA H mul0mx. Qed.
Lemma Pss_PL : tp L -> Pss *m L = 0.
Proof. by move=> H; rewrite /Pss -mulmxA H mulmx0. Qed.
Lemma Pss_PP : \tr rho = 1 -> Pss *m Pss = Pss.
Proof.
move=> H; rewrite /Pss -mulmxA [trow R n *m _]mulmxA trow_cvec H mul1mx. by [].
Qed.
Lemma Pss_traceless x : \tr (unvec x) = 0 -> Pss *m x = 0.
Proof. by move=> H; rewrite /Pss -mulmxA trow_tr H -scalemx1 scale0r mulmx0. Qed.
End PinvP.
