From Coq Require Import List ZArith NArith Bool Arith Lia.
Import ListNotations.
From QV Require Import Model.C02.
Local Open Scope N_scope.
Arguments N.mul : simpl never.
Arguments N.eqb : simpl never.

(* induction principle for the nested type *)
Section SpaceInd.
Variable P : space -> Prop.
Hypothesis HF : P Field.
Hypothesis HS : forall n, P (Simple n).
Hypothesis HC : forall l, Forall P l -> P (Compound l).
Hypothesis HU : forall f t r, P f -> P t -> P (Super f t r).
Fixpoint space_ind' (s : space) : P s :=
  match s with
  | Field => HF
  | Simple n => HS n
  | Compound l =>
      HC l ((fix go (l : list space) : Forall P l :=
               match l with
               | [] => Forall_nil _
               | x :: t => Forall_cons x (space_ind' x) (go t)
               end) l)
  | Super f t r => HU f t r (space_ind' f) (space_ind' t)
  end.
End SpaceInd.

Lemma rep_eqb_eq a b : rep_eqb a b = true <-> a = b.
Proof. destruct a, b; simpl; split; congruence. Qed.

Definition list_eqb (l k : list space) : bool :=
  (fix go (l k : list space) : bool :=
     match l, k with
     | [], [] => true
     | x :: l', y :: k' => space_eqb x y && go l' k'
     | _, _ => false
     end) l k.

Lemma space_eqb_compound l k : space_eqb (Compound l) (Compound k) = list_eqb l k.
Proof. reflexivity. Qed.

Lemma list_eqb_cons x l y k : list_eqb (x :: l) (y :: k) = space_eqb x y && list_eqb l k.
Proof. reflexivity. Qed.

(* Python's == on spaces is structural equality *)
Lemma space_eqb_eq : forall a b, space_eqb a b = true <-> a = b.
Proof.
  induction a as [| n | l IH | f t r IHf IHt] using space_ind'; intros b.
  - destruct b; simpl; split; congruence.
  - destruct b as [| m | |]; simpl; try (split; congruence).
    rewrite N.eqb_eq. split; congruence.
  - destruct b as [| | k |]; try (simpl; split; congruence).
    rewrite space_eqb_compound.
    revert k. induction IH as [| x l Hx Hl IHl]; intros k.
    + destruct k; simpl; split; congruence.
    + destruct k as [| y k]; [simpl; split; congruence|].
      rewrite list_eqb_cons, andb_true_iff, Hx, IHl.
      split; [intros [-> E]; congruence | intros E; inversion E; auto].
  - destruct b as [| | | f' t' r']; try (simpl; split; congruence).
    simpl. rewrite !andb_true_iff, IHt, IHf, rep_eqb_eq.
    split; [intros [[-> ->] ->]; reflexivity | intros E; inversion E; auto].
Qed.

Lemma dims_eqb_eq a b : dims_eqb a b = true <-> a = b.
Proof.
  unfold dims_eqb. rewrite andb_true_iff, !space_eqb_eq.
  destruct a, b; simpl. split; [intros [-> ->]; reflexivity | intros E; inversion E; auto].
Qed.

Lemma space_eqb_refl a : space_eqb a a = true.
Proof. apply space_eqb_eq. reflexivity. Qed.

Lemma space_eqb_neq a b : space_eqb a b = false <-> a <> b.
Proof.
  rewrite <- space_eqb_eq. destruct (space_eqb a b); split; congruence.
Qed.

(* equal objects hash equal *)
Lemma eq_hash_space a b : space_eqb a b = true -> space_key a = space_key b.
Proof. intros H. apply space_eqb_eq in H. now subst. Qed.
Lemma eq_hash_dims a b : dims_eqb a b = true -> dims_key a = dims_key b.
Proof. intros H. apply dims_eqb_eq in H. now subst. Qed.

(* ------------------------------------------------------ size and flat *)
Definition prodN (l : list N) : N := fold_right N.mul 1 l.

Lemma prodN_app l k : prodN (l ++ k) = prodN l * prodN k.
Proof. induction l; simpl; [lia|]. rewrite IHl. lia. Qed.

Lemma flat_size : forall s, prodN (flat s) = size s.
Proof.
  induction s as [| n | l IH | f t r IHf IHt] using space_ind'; simpl.
  - reflexivity.
  - lia.
  - induction IH as [| x l Hx Hl IHl]; simpl; [reflexivity|].
    rewrite prodN_app, Hx, IHl. reflexivity.
  - rewrite prodN_app, IHf, IHt. reflexivity.
Qed.

Lemma step_compound_length l :
  (forall x, In x l -> length (step x) = length (flat x)) ->
  length (fst (fold_right (fun x acc =>
             let '(steps, st) := acc in
             (map (fun N => st * N) (step x) ++ steps, st * size x)) ([], 1) l))
  = length (flat_map flat l).
Proof.
  induction l as [| x l IH]; intros H; simpl; [reflexivity|].
  destruct (fold_right _ _ l) as [steps st] eqn:E. simpl in *.
  rewrite !app_length, map_length, H by (now left).
  rewrite IH by (intros y Hy; apply H; now right). reflexivity.
Qed.

Lemma step_length : forall s, length (step s) = length (flat s).
Proof.
  induction s as [| n | l IH | f t r IHf IHt] using space_ind'.
  - reflexivity.
  - reflexivity.
  - cbn [step flat]. apply step_compound_length.
    intros x Hx. rewrite Forall_forall in IH. auto.
  - cbn [step flat]. rewrite !app_length, map_length. congruence.
Qed.

(* --------------------------------------------------- type inference *)
Lemma dims_type_spec d :
  let f := d_from d in let t := d_to d in
  match dims_type d with
  | TScalar => size f = 1 /\ size t = 1
  | TKet => size f = 1 /\ size t <> 1 /\ issuper t = false
  | TOperKet => size f = 1 /\ size t <> 1 /\ issuper t = true
  | TBra => size f <> 1 /\ size t = 1 /\ issuper f = false
  | TOperBra => size f <> 1 /\ size t = 1 /\ issuper f = true
  | TOper => size f <> 1 /\ size t <> 1 /\ issuper f = false
  | TSuper => size f <> 1 /\ size t <> 1 /\ issuper f = true
  end.
Proof.
  unfold dims_type. cbv zeta.
  destruct (size (d_from d) =? 1) eqn:Ef; destruct (size (d_to d) =? 1) eqn:Et; simpl;
    rewrite ?N.eqb_eq, ?N.eqb_neq in *.
  - auto.
  - destruct (issuper (d_to d)); auto.
  - destruct (issuper (d_from d)); auto.
  - destruct (issuper (d_from d)); auto.
Qed.

(* ket iff one column and more than one row, etc.: the type determines and is
   determined by the shape class *)
Lemma dims_type_shape d :
  let '(r, c) := dims_shape d in
  (dims_type d = TScalar <-> r = 1 /\ c = 1) /\
  ((dims_type d = TKet \/ dims_type d = TOperKet) <-> r <> 1 /\ c = 1) /\
  ((dims_type d = TBra \/ dims_type d = TOperBra) <-> r = 1 /\ c <> 1) /\
  ((dims_type d = TOper \/ dims_type d = TSuper) <-> r <> 1 /\ c <> 1).
Proof.
  unfold dims_shape, dims_type.
  destruct (size (d_from d) =? 1) eqn:Ef; destruct (size (d_to d) =? 1) eqn:Et; simpl;
    rewrite ?N.eqb_eq, ?N.eqb_neq in *;
    try destruct (issuper (d_to d)); try destruct (issuper (d_from d));
    repeat split; intros; try tauto; try congruence; try lia;
    repeat match goal with H : _ \/ _ |- _ => destruct H end; try congruence; try lia; auto.
Qed.

Lemma issquare_shape d : dims_issquare d = true -> fst (dims_shape d) = snd (dims_shape d).
Proof.
  unfold dims_issquare, dims_shape. simpl. rewrite orb_true_iff, !andb_true_iff.
  intros [[Hf Ht] | [[_ _] He]].
  - apply N.eqb_eq in Hf, Ht. lia.
  - apply space_eqb_eq in He. now rewrite He.
Qed.

(* ------------------------------------------------------- composition *)
Lemma mk_dims_ok f t d : mk_dims f t = Ok d -> d = {| d_from := f; d_to := t |}.
Proof.
  unfold mk_dims, dims_check. simpl.
  destruct (_ || _); [congruence|]. destruct (eqb _ _); congruence.
Qed.

Lemma dims_matmul_spec a b c :
  dims_matmul a b = Ok c ->
  d_from a = d_to b /\ d_from c = d_from b /\ d_to c = d_to a /\
  dims_shape c = shape_matmul (dims_shape a) (dims_shape b).
Proof.
  unfold dims_matmul. destruct (space_eqb (d_from a) (d_to b)) eqn:E; simpl; [|congruence].
  intros H. apply mk_dims_ok in H. subst c. apply space_eqb_eq in E.
  repeat split; auto.
Qed.

Lemma dims_matmul_rejects a b :
  d_from a <> d_to b -> dims_matmul a b = Err TypeError.
Proof.
  intros H. unfold dims_matmul. apply space_eqb_neq in H. now rewrite H.
Qed.

Lemma dims_matmul_assoc a b c ab bc :
  dims_matmul a b = Ok ab -> dims_matmul b c = Ok bc ->
  dims_matmul ab c = dims_matmul a bc.
Proof.
  intros H1 H2.
  destruct (dims_matmul_spec _ _ _ H1) as (E1 & F1 & T1 & _).
  destruct (dims_matmul_spec _ _ _ H2) as (E2 & F2 & T2 & _).
  unfold dims_matmul. rewrite F1, T2, E2, F2, T1.
  rewrite space_eqb_refl. rewrite E1, space_eqb_refl. reflexivity.
Qed.

Lemma dims_swap_shape d d' :
  dims_swap d = Ok d' -> dims_shape d' = shape_swap (dims_shape d) /\
  d_from d' = d_to d /\ d_to d' = d_from d.
Proof. unfold dims_swap. intros H. apply mk_dims_ok in H. subst. auto. Qed.

(* -------------------------------------------- Qobj arithmetic: dims rules *)
Lemma qobj_add_spec self d :
  (d = self -> qobj_add self (OQobj d) = ODims self) /\
  (d <> self -> qobj_add self (OQobj d) = ORaise ValueError).
Proof.
  unfold qobj_add. split; intros H.
  - subst. assert (E : dims_eqb self self = true) by (apply dims_eqb_eq; reflexivity).
    now rewrite E.
  - destruct (dims_eqb self d) eqn:E; [|reflexivity].
    apply dims_eqb_eq in E. congruence.
Qed.

Lemma qobj_add_number self r :
  qobj_add self ONumber = ODims r ->
  r = self /\ fst (dims_shape self) = snd (dims_shape self).
Proof.
  unfold qobj_add. destruct (dims_issquare self) eqn:E; [|congruence].
  intros H. inversion H; subst. split; [reflexivity|]. now apply issquare_shape.
Qed.

Lemma qobj_matmul_spec a b :
  match qobj_matmul a b with
  | ODims c => d_from a = d_to b /\ dims_shape c = shape_matmul (dims_shape a) (dims_shape b)
               /\ d_from c = d_from b /\ d_to c = d_to a /\ dims_type c <> TScalar
  | ONumberResult => d_from a = d_to b /\ size (d_to a) = 1 /\ size (d_from b) = 1
  | ORaise e => d_from a <> d_to b \/ e = NotImplementedError
  end.
Proof.
  unfold qobj_matmul. destruct (dims_matmul a b) as [c|e] eqn:E.
  - destruct (dims_matmul_spec _ _ _ E) as (E1 & F & T & Sh).
    pose proof (dims_type_spec c) as Ht. cbv zeta in Ht.
    destruct (dims_type c) eqn:Ety; try (repeat split; auto; congruence).
    rewrite F, T in Ht. tauto.
  - unfold dims_matmul in E. destruct (space_eqb (d_from a) (d_to b)) eqn:Eq; simpl in E.
    + right. unfold mk_dims, dims_check in E. simpl in E.
      destruct (_ || _); [congruence|]. destruct (eqb _ _); congruence.
    + left. now apply space_eqb_neq.
Qed.

Lemma qobj_pow_spec self r :
  qobj_pow self = ODims r -> r = self /\ d_from self = d_to self /\
  fst (dims_shape self) = snd (dims_shape self).
Proof.
  unfold qobj_pow. destruct (dims_type self); try congruence;
    destruct (space_eqb (d_from self) (d_to self)) eqn:E; try congruence;
    intros H; inversion H; subst; apply space_eqb_eq in E;
    (split; [reflexivity|split; [assumption|]]); unfold dims_shape; simpl; now rewrite E.
Qed.

Lemma qobj_inv_spec self r :
  qobj_inv self = ODims r ->
  d_from r = d_to self /\ d_to r = d_from self /\
  fst (dims_shape self) = snd (dims_shape self) /\
  dims_shape r = shape_swap (dims_shape self).
Proof.
  unfold qobj_inv. destruct (fst (dims_shape self) =? snd (dims_shape self)) eqn:E; [|congruence].
  destruct (dims_swap self) as [d|e] eqn:Es; [|congruence].
  intros H. inversion H; subst. apply N.eqb_eq in E.
  destruct (dims_swap_shape _ _ Es) as (A & B & C). tauto.
Qed.

Lemma qobj_inv_rejects self :
  fst (dims_shape self) <> snd (dims_shape self) -> qobj_inv self = ORaise TypeError.
Proof.
  intros H. unfold qobj_inv. apply N.eqb_neq in H. now rewrite H.
Qed.

(* the inverse composes with the operand on both sides *)
Lemma qobj_inv_composes self r :
  qobj_inv self = ODims r ->
  d_from r = d_to self /\ d_from self = d_to r.
Proof. intros H. destruct (qobj_inv_spec _ _ H) as (A & B & _). split; congruence. Qed.

(* ---------------------------- the extra list layer denotes the same space *)
Lemma mapM_ext_in {A B} (f g : A -> res B) l :
  (forall x, In x l -> f x = g x) -> mapM f l = mapM g l.
Proof.
  induction l as [| x l IH]; intros H; [reflexivity|].
  cbn [mapM]. rewrite (H x) by (now left). rewrite IH by (intros y Hy; apply H; now right).
  reflexivity.
Qed.

Lemma filter_ints_nil l :
  (forall x, In x l -> is_int x = true) -> filter (fun x => negb (is_int x)) l = [].
Proof.
  induction l as [| x l IH]; intros H; [reflexivity|]. cbn [filter].
  rewrite (H x) by (now left). cbn [negb]. apply IH. intros y Hy. apply H. now right.
Qed.

Lemma from_list_extra_layer tidy fuel l r :
  (forall x, In x l -> is_int x = true) -> l <> [] ->
  from_list tidy (S (S fuel)) [NL l] r = from_list tidy (S fuel) l r.
Proof.
  intros Hint Hne.
  destruct l as [| x l]; [congruence|].
  assert (Hx : is_int x = true) by (apply Hint; now left).
  destruct x as [n | k0]; [|discriminate].
  assert (Hf : filter (fun x => negb (is_int x)) l = [])
    by (apply filter_ints_nil; intros y Hy; apply Hint; now right).
  cbn [from_list filter is_int negb length]. rewrite Hf.
  cbn [length Nat.eqb orb negb].
  f_equal. apply mapM_ext_in. intros y Hy.
  destruct y as [m | k0]; [reflexivity|]. specialize (Hint _ Hy). discriminate.
Qed.

(* ------------------- print/parse round trip for flat (non-super) specs *)
Definition sp (n : N) : space := if n =? 1 then Field else Simple n.

Lemma mapM_mk_int fuel tidy r l :
  Forall (fun n => n <> 0) l ->
  mapM (fun x : nl => match x with NI n => mk_int n | NL k => from_list tidy fuel k r end)
       (map NI l) = Ok (map sp l).
Proof.
  induction 1 as [| n l Hn Hl IH]; [reflexivity|].
  cbn [map mapM]. rewrite IH. unfold mk_int, sp.
  destruct (n =? 0) eqn:E0; [apply N.eqb_eq in E0; congruence|].
  destruct (n =? 1); reflexivity.
Qed.

Lemma sp_not_super l : forallb issuper (map sp l) = false \/ l = [].
Proof.
  destruct l as [| n l]; [now right|left]. cbn [map forallb]. unfold sp at 1.
  destruct (n =? 1); reflexivity.
Qed.

Lemma sp_no_super_any l : existsb issuper (map sp l) = false.
Proof.
  induction l as [| n l IH]; [reflexivity|]. cbn [map existsb]. rewrite IH.
  unfold sp. destruct (n =? 1); reflexivity.
Qed.

Lemma flatten_sp l : flatten_compound (map sp l) = map sp l.
Proof.
  induction l as [| n l IH]; [reflexivity|]. unfold flatten_compound in *. cbn [map flat_map].
  rewrite IH. unfold sp at 1. destruct (n =? 1); reflexivity.
Qed.

Lemma superrep_sp n : superrep (sp n) = None.
Proof. unfold sp. destruct (n =? 1); reflexivity. Qed.

Lemma as_list_sp l : flat_map as_list (map sp l) = map NI l.
Proof.
  induction l as [| n l IH]; [reflexivity|]. cbn [map flat_map]. rewrite IH.
  unfold sp. destruct (n =? 1) eqn:E; [apply N.eqb_eq in E; subst|]; reflexivity.
Qed.

(* without dims tidy-up: a flat list of two or more positive ints parses to
   the compound of its entries and prints back as written *)
Lemma flat_roundtrip fuel r l :
  Forall (fun n => n <> 0) l -> (2 <= length l)%nat ->
  exists s, from_list false (S fuel) (map NI l) r = Ok s /\ as_list s = map NI l /\
            s = Compound (map sp l).
Proof.
  intros Hpos Hlen. exists (Compound (map sp l)).
  split; [|split; [cbn [as_list]; apply as_list_sp|reflexivity]].
  destruct l as [| a [| b l]]; cbn [length] in Hlen; try lia.
  assert (Hf : filter (fun x => negb (is_int x)) (map NI (a :: b :: l)) = []).
  { apply filter_ints_nil. intros x Hx. apply in_map_iff in Hx. destruct Hx as [n [<- _]]. reflexivity. }
  cbn [from_list]. cbn [map] in *. rewrite Hf. cbn [length Nat.eqb orb negb].
  change (NI a :: NI b :: map NI l) with (map NI (a :: b :: l)).
  rewrite (mapM_mk_int fuel false r (a :: b :: l) Hpos). cbn [bind map].
  unfold mk_compound. cbn [andb].
  change (sp a :: sp b :: map sp l) with (map sp (a :: b :: l)).
  rewrite flatten_sp, sp_no_super_any, andb_false_r.
  cbn [length Nat.leb map]. cbn [map].
  rewrite !superrep_sp.
  assert (Hall : forall k, forallb (fun s => orep_eqb None (superrep s)) (map sp k) = true).
  { clear. induction k as [| n k IH]; [reflexivity|]. cbn [map forallb].
    rewrite superrep_sp, IH. reflexivity. }
  change (sp a :: sp b :: map sp l) with (map sp (a :: b :: l)).
  rewrite (Hall (a :: b :: l)). reflexivity.
Qed.
