(* C16 - generator algebra over the definitions regenerated from
   MCSolver.__init__ (Gen/C16_rhs.v): norm decay = total jump rate. *)
From mathcomp Require Import all_ssreflect all_algebra.
From QV Require Import Base.MxHerm Gen.C16_rhs.
Set Implicit Arguments. Unset Strict Implicit. Unset Printing Implicit Defensive.
Import GRing.Theory.
Local Open Scope ring_scope.

Section Gen.
Variable R : fieldType.
Variable conj : {rmorphism R -> R}.
Hypothesis conjK : involutive conj.
Variables (iu half : R).
Hypothesis conj_iu : conj iu = - iu.
Hypothesis conj_half : conj half = half.
Hypothesis half2 : half + half = 1.
Variable n : nat.
Notation op := 'M[R]_n.
Notation dg := (dag conj).

(* the loop `for n_op in self._n_ops: rhs -= 0.5 * n_op` *)
Lemma ket_rhs_sum (H : op) (cs : seq op) :
  ket_rhs conj iu half H cs = (- iu) *: H - half *: (\sum_(c <- cs) dg c *m c).
Proof.
rewrite /ket_rhs /ket_rhs0.
elim: cs ((- iu) *: H) => [|c cs IH] G /=.
  by rewrite big_nil scaler0 subr0.
rewrite IH big_cons /ket_step /ket_n_op [in RHS]scalerDr opprD addrA.
by [].
Qed.

Lemma sum_rate_herm (cs : seq op) : dg (\sum_(c <- cs) dg c *m c) = \sum_(c <- cs) dg c *m c.
Proof.
elim: cs => [|c cs IH]; first by rewrite big_nil /dag trmx0 map_mx0.
by rewrite !big_cons dag_add IH dag_mul (dagK conjK).
Qed.

(* G^dag + G = - sum c^dag c  for Hermitian H *)
Theorem generator_antiherm_part (H : op) (cs : seq op) :
  dg H = H ->
  dg (ket_rhs conj iu half H cs) + ket_rhs conj iu half H cs = - (\sum_(c <- cs) dg c *m c).
Proof.
move=> HH; rewrite ket_rhs_sum dag_sub !dag_scale HH sum_rate_herm conj_half rmorphN conj_iu opprK.
set S := \sum_(c <- cs) _.
rewrite addrACA -scalerDl subrr scale0r add0r -opprD -scalerDl half2 scale1r.
by [].
Qed.

(* d/dt <psi|psi> = <G psi|psi> + <psi|G psi> = - sum |c psi|^2 *)
Theorem norm_decay_is_total_jump_rate (H : op) (cs : seq op) (psi : 'cV[R]_n) :
  dg H = H ->
  let G := ket_rhs conj iu half H cs in
  dg (G *m psi) *m psi + dg psi *m (G *m psi)
  = - (\sum_(c <- cs) dg (ket_c_op c *m psi) *m (ket_c_op c *m psi)).
Proof.
move=> HH G; rewrite dag_mul -mulmxA -mulmxDr -mulmxDl /G generator_antiherm_part //.
rewrite mulNmx mulmxN; congr (- _).
rewrite mulmx_suml mulmx_sumr; apply: eq_bigr => c _.
by rewrite /ket_c_op dag_mul !mulmxA.
Qed.

(* the rates used for the channel choice are the same quantities *)
Theorem rate_is_jump_norm (c : op) (psi : 'cV[R]_n) :
  dg psi *m (ket_n_op conj c *m psi) = dg (ket_c_op c *m psi) *m (ket_c_op c *m psi).
Proof. by rewrite /ket_n_op /ket_c_op dag_mul !mulmxA. Qed.

(* superoperator form: `rhs -= 0.5 * (spre(cdc) + spost(cdc))` *)
Lemma sup_rhs_sum (L : op -> op) (cs : seq op) (X : op) :
  sup_rhs conj half L cs X
  = L X - half *: (\sum_(c <- cs) ((dg c *m c) *m X + X *m (dg c *m c))).
Proof.
rewrite /sup_rhs /sup_rhs0.
elim: cs L => [|c cs IH] L /=.
  by rewrite big_nil scaler0 subr0.
by rewrite IH big_cons /sup_step /= [in RHS]scalerDr opprD addrA.
Qed.

(* d/dt tr rho = tr(L rho) - sum tr(c rho c^dag): for a trace-preserving L
   the trace decays at the total rate of the sampled channels, which are the
   expectation values of the n_ops = c_ops of the superoperator branch *)
Theorem trace_decay_is_total_jump_rate (L : op -> op) (cs : seq op) (X : op) :
  \tr (sup_rhs conj half L cs X) = \tr (L X) - \sum_(c <- cs) \tr (sup_n_op conj c X).
Proof.
rewrite sup_rhs_sum linearB /= linearZ /= linear_sum /=; congr (_ - _).
rewrite mulr_sumr; apply: eq_bigr => c _.
rewrite linearD /= [\tr (X *m _)]mxtrace_mulC mulrDr -mulrDl half2 mul1r.
by rewrite /sup_n_op /sup_c_op -mulmxA mxtrace_mulC -mulmxA.
Qed.

(* with L = -i[H, .] (or any trace-preserving L): d/dt tr rho = - total rate *)
Theorem commutator_traceless (H X : op) : \tr ((- iu) *: (H *m X - X *m H)) = 0.
Proof. by rewrite linearZ /= linearB /= [\tr (X *m H)]mxtrace_mulC subrr mulr0. Qed.

(* the state after a jump is normalised: for v = c psi with <v|v> = N,
   nrm real with nrm^2 = N <> 0:  <v/nrm | v/nrm> = 1 *)
Theorem post_jump_state_normalised (v : 'cV[R]_n) (nrm N : R) :
  dg v *m v = N%:M -> conj nrm = nrm -> nrm * nrm = N -> N != 0 ->
  dg (nrm^-1 *: v) *m (nrm^-1 *: v) = 1%:M.
Proof.
move=> Hv Hr Hn N0.
have n0 : nrm != 0 by apply: contra_neq N0 => E; rewrite -Hn E mul0r.
rewrite dag_scale -scalemxAl -scalemxAr scalerA Hv fmorphV Hr.
by rewrite scale_scalar_mx -invfM Hn mulVf.
Qed.

End Gen.
