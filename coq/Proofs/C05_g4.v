(* C05 - the 4x4 Gaussian-integer universe is an Alg; the lift maps of
   superoperator.py / tensor.py are additive and homogeneous on it. *)
From Coq Require Import List ZArith Bool Ring Lia.
Import ListNotations.
From QV Require Import Model.C05 Model.C05_g4 Proofs.C05.

Ltac g4_destruct :=
  repeat match goal with
         | x : M4 |- _ => destruct x as [[? ?] [? ?]]
         | x : M2 |- _ => destruct x as [[[? ?] [? ?]] [[? ?] [? ?]]]
         | x : GI |- _ => destruct x as [? ?]
         end.
Ltac g4 :=
  intros; g4_destruct;
  cbv [add4 mul4 scale4 trans4 conj4 dag4 tr4 blk b11 b12 b21 b22 z4 i4 emb kron2
       spre_f spost_f tens_l tens_r tens_ql tens_qr
       add2 mul2 scale2 trans2 conj2 dag2 tr2 mk2 e11 e12 e21 e22 z2 i2
       gadd gmul gsub gopp gconj g0 g1 fst snd];
  repeat (f_equal; try ring).

Lemma eqb4_eq x y : eqb4 x y = true -> x = y.
Proof.
  destruct x as [[a b] [c d]], y as [[a' b'] [c' d']]. unfold eqb4.
  cbv [b11 b12 b21 b22 fst snd]. intros H.
  apply andb_true_iff in H. destruct H as [H H4].
  apply andb_true_iff in H. destruct H as [H H3].
  apply andb_true_iff in H. destruct H as [H1 H2].
  apply eqb2_eq in H1. apply eqb2_eq in H2. apply eqb2_eq in H3. apply eqb2_eq in H4.
  subst. reflexivity.
Qed.

Definition G4 : Alg.
Proof.
  refine {| C := GI; c0 := g0; c1 := g1; cadd := gadd; cmul := gmul; csub := gsub; copp := gopp;
            Cring := GI_ring; cconj := gconj;
            M := M4; m0 := z4; mI := i4; madd := add4; mmul := mul4; mscale := scale4;
            mtrans := trans4; mconj := conj4; mdag := dag4; mtr := tr4; meqb := eqb4;
            meqb_sound := eqb4_eq |}; abstract g4.
Defined.

Definition ZT4 : TimeS G4 :=
  @Build_TimeS G4 Z Z.leb zclose_new zdiff zsep zclose_new_sep dstate dict dmerge dcomb dmerge_assoc.

(* the lift maps as transform-stack entries, pushed with anti = False *)
Definition t_spre : tr G4 := @TUser G4 spre_f false.
Definition t_spost : tr G4 := @TUser G4 spost_f false.
Definition t_tens_l : tr G4 := @TUser G4 tens_l false.
Definition t_tens_r : tr G4 := @TUser G4 tens_r false.
Definition t_tens_ql (q : M2) : tr G4 := @TUser G4 (tens_ql q) false.
Definition t_tens_qr (q : M2) : tr G4 := @TUser G4 (tens_qr q) false.

Lemma lift_maps_ok :
  tr_ok G4 t_spre /\ tr_ok G4 t_spost /\ tr_ok G4 t_tens_l /\ tr_ok G4 t_tens_r /\
  (forall q, tr_ok G4 (t_tens_ql q)) /\ (forall q, tr_ok G4 (t_tens_qr q)).
Proof.
  repeat split; simpl; try (intros q); try split; simpl; g4.
Qed.

(* what the maps are on embedded operators *)
Lemma spre_emb x : spre_f (emb x) = kron2 i2 x.
Proof. reflexivity. Qed.
Lemma spost_emb x : spost_f (emb x) = kron2 (trans2 x) i2.
Proof. reflexivity. Qed.

(* mixed product: (X (x) 1)(1 (x) Y) = X (x) Y, and in general *)
Lemma kron2_mul x y u v : mul4 (kron2 x y) (kron2 u v) = kron2 (mul2 x u) (mul2 y v).
Proof. g4. Qed.
Lemma kron2_tensor x y : mul4 (tens_l (emb x)) (tens_r (emb y)) = kron2 x y.
Proof. g4. Qed.
(* spre(A) spost(B) = kron(B^T, A) = kron_transpose(B, A), what sprepost(A, B) builds for Qobj *)
Lemma sprepost_kron a b : mul4 (spre_f (emb a)) (spost_f (emb b)) = kron2 (trans2 b) a.
Proof. g4. Qed.
