(* C01 - the square-and-multiply loop shared by pow_csr / pow_dia / pow_dense
   returns the n-fold product, for any associative multiplication with unit. *)
From Coq Require Import List ZArith Bool Arith Lia ZifyBool.
Import ListNotations.
From QV Require Import Model.C01.

Section BinPowProof.
Variable M : Type.
Variable mul : M -> M -> M.
Variable one : M.
Hypothesis Hassoc : forall a b c, mul a (mul b c) = mul (mul a b) c.
Hypothesis Hone_l : forall a, mul one a = a.
Hypothesis Hone_r : forall a, mul a one = a.

Fixpoint xpow (x : M) (k : nat) : M :=
  match k with O => one | S k' => mul (xpow x k') x end.

Lemma xpow_add : forall x a b, xpow x (a + b) = mul (xpow x a) (xpow x b).
Proof.
  intros x a. induction b as [|b IH].
  - rewrite Nat.add_0_r. simpl. symmetry. apply Hone_r.
  - replace (a + S b) with (S (a + b)) by lia. simpl. rewrite IH. symmetry. apply Hassoc.
Qed.

Definition val (o : option M) : M := match o with Some v => v | None => one end.

Lemma pow_loop_S : forall f n pw out,
  pow_loop M mul (S f) n pw out =
  if n =? 0 then out
  else pow_loop M mul f (n / 2) (mul pw pw)
         (if Nat.odd n then Some (match out with None => mul pw pw | Some o => mul o (mul pw pw) end)
          else out).
Proof. reflexivity. Qed.

Lemma pow_loop_spec : forall x fuel n e a pw out,
  n <= fuel -> pw = xpow x e -> val out = xpow x a -> (out = None -> a = 0) ->
  val (pow_loop M mul fuel n pw out) = xpow x (a + 2 * e * n).
Proof.
  intros x. induction fuel as [|f IH]; intros n e a pw out Hf Hp Ho Hn.
  - assert (n = 0) by lia. subst n. simpl. rewrite Ho. f_equal. lia.
  - rewrite pow_loop_S. destruct (n =? 0) eqn:E.
    + apply Nat.eqb_eq in E. subst n. rewrite Ho. f_equal. lia.
    + assert (Hpw : mul pw pw = xpow x (2 * e)).
      { subst pw. rewrite <- xpow_add. f_equal. lia. }
      assert (Hdiv : n / 2 <= f).
      { assert (n / 2 < n) by (apply Nat.div_lt; lia). lia. }
      destruct (Nat.odd n) eqn:Od.
      * assert (Hn2 : n = 2 * (n / 2) + 1).
        { apply Nat.odd_spec in Od. destruct Od as [m Hm].
          assert (n / 2 = m) by (symmetry; apply Nat.div_unique with (r := 1); lia). lia. }
        rewrite (IH (n / 2) (2 * e) (a + 2 * e) (mul pw pw) _ Hdiv Hpw).
        -- f_equal. nia.
        -- destruct out as [o|]; simpl.
           ++ simpl in Ho. rewrite Ho, Hpw. symmetry. apply xpow_add.
           ++ rewrite (Hn eq_refl). simpl. exact Hpw.
        -- intros H. destruct out; discriminate H.
      * assert (Hn2 : n = 2 * (n / 2)).
        { assert (Ev : Nat.even n = true) by (rewrite <- Nat.negb_odd, Od; reflexivity).
          apply Nat.even_spec in Ev. destruct Ev as [m Hm].
          assert (n / 2 = m) by (symmetry; apply Nat.div_unique with (r := 0); lia). lia. }
        rewrite (IH (n / 2) (2 * e) a (mul pw pw) out Hdiv Hpw Ho Hn).
        f_equal. nia.
Qed.

Theorem pow_model_correct : forall x n, pow_model M mul one x n = xpow x n.
Proof.
  intros x n. unfold pow_model.
  destruct (n =? 0) eqn:E0; [apply Nat.eqb_eq in E0; subst n; reflexivity|].
  destruct (n =? 1) eqn:E1.
  - apply Nat.eqb_eq in E1. subst n. simpl. symmetry. apply Hone_l.
  - assert (Hd : n / 2 <= n) by (apply Nat.div_le_upper_bound; lia).
    assert (X1 : x = xpow x 1) by (simpl; symmetry; apply Hone_l).
    destruct (Nat.odd n) eqn:Od.
    + assert (Hn2 : n = 2 * (n / 2) + 1).
      { apply Nat.odd_spec in Od. destruct Od as [m Hm].
          assert (n / 2 = m) by (symmetry; apply Nat.div_unique with (r := 1); lia). lia. }
      pose proof (pow_loop_spec x n (n / 2) 1 1 x (Some x) Hd X1 X1) as S.
      assert (Hs : val (pow_loop M mul n (n / 2) x (Some x)) = xpow x (1 + 2 * 1 * (n / 2)))
        by (apply S; intros H; discriminate H).
      unfold val in Hs.
      destruct (pow_loop M mul n (n / 2) x (Some x)) as [o|].
      * rewrite Hs. f_equal. lia.
      * rewrite Hs. f_equal. lia.
    + assert (Hn2 : n = 2 * (n / 2)).
      { assert (Ev : Nat.even n = true) by (rewrite <- Nat.negb_odd, Od; reflexivity).
          apply Nat.even_spec in Ev. destruct Ev as [m Hm].
          assert (n / 2 = m) by (symmetry; apply Nat.div_unique with (r := 0); lia). lia. }
      assert (Hs : val (pow_loop M mul n (n / 2) x None) = xpow x (0 + 2 * 1 * (n / 2)))
        by (apply (pow_loop_spec x n (n / 2) 1 0 x None Hd X1); reflexivity).
      unfold val in Hs.
      destruct (pow_loop M mul n (n / 2) x None) as [o|].
      * rewrite Hs. f_equal. lia.
      * rewrite Hs. f_equal. lia.
Qed.
End BinPowProof.
