(* C18 - pseudo_inverse: the solve route and the RCM route *)
From mathcomp Require Import all_ssreflect all_algebra.
From mathcomp Require Import mxtens.
From QV Require Import Base.MxHerm Model.C18 Proofs.C18 Proofs.C18_bridge Proofs.C18_perm.

Set Implicit Arguments.
Unset Strict Implicit.
Unset Printing Implicit Defensive.
Import GRing.Theory.

Section PinvPerm.
Variable R : fieldType.
Local Open Scope ring_scope.
Variable N : nat.
Local Notation mulv := (@fmulv R 0 +%R *%R N).
Local Notation mulmx := (@fmulmx R 0 +%R *%R N).
Implicit Types (A B Q X : fmx R) (p : seq nat).

Definition msolves A X Q : Prop :=
  forall i j, (i < N)%N -> (j < N)%N -> mulmx A X i j = Q i j.

Lemma mulmx_col A B i j : mulmx A B i j = mulv A (fun k => B k j) i.
Proof. by []. Qed.

Lemma mulmx_ext A B B' i j :
  (forall k, (k < N)%N -> B k j = B' k j) -> mulmx A B i j = mulmx A B' i j.
Proof. by move=> E; rewrite !mulmx_col; apply: mulv_ext. Qed.

(* conjugation by a permutation is multiplicative *)
Lemma perm_full_mulmx p A B i j : is_perm N p ->
  mulmx (perm_full p p A) (perm_full p p B) i j = perm_full p p (mulmx A B) i j.
Proof.
move=> H; rewrite mulmx_col.
have -> : (fun k => perm_full p p B k j) = perm_rows p (fun k => B k (index j p)) by [].
by rewrite perm_full_mulv.
Qed.

Lemma index_lt p i : is_perm N p -> (i < N)%N -> (index i p < N)%N.
Proof. by move=> H iN; rewrite -(is_perm_size H) index_mem (is_perm_mem _ H). Qed.

Lemma perm_full_rev p A i j : is_perm N p -> (i < N)%N -> (j < N)%N ->
  perm_full p p (perm_full (argsort p) (argsort p) A) i j = A i j.
Proof.
move=> H iN jN; rewrite /perm_full !(index_argsort H) ?index_lt //.
by rewrite !nth_index // (is_perm_mem _ H).
Qed.

Lemma perm_full_rev' p A i j : is_perm N p -> (i < N)%N -> (j < N)%N ->
  perm_full (argsort p) (argsort p) (perm_full p p A) i j = A i j.
Proof.
move=> H iN jN; rewrite /perm_full !(index_argsort H) //.
by rewrite !index_uniq ?(is_perm_size H) ?(is_perm_uniq H).
Qed.

(* RCM route of pseudo_inverse: whatever permutation the RCM oracle returns
   and whatever solution X' the solver returns for the permuted system, the
   matrix handed back is Q X with X a solution of the ORIGINAL system A X = Q *)
Lemma pinv_rcm_sound p A Q X' : is_perm N p ->
  let '(A', Q') := pinv_rcm_system p A Q in
  msolves A' X' Q' ->
  let X := perm_full (argsort p) (argsort p) X' in
  msolves A X Q /\
  forall i j, (i < N)%N -> (j < N)%N ->
    pinv_rcm_R 0 +%R *%R N p Q' X' i j = mulmx Q X i j.
Proof.
move=> H /= S; set rev := argsort p; set X := perm_full rev rev X'.
have HX i j : (i < N)%N -> perm_full p p X i j = X' i j \/ (N <= j)%N.
  by move=> iN; case: (ltnP j N) => [jN|]; [left; exact: perm_full_rev|right].
have E M i j : (j < N)%N ->
    mulmx (perm_full p p M) X' i j = perm_full p p (mulmx M X) i j.
  move=> jN; rewrite -perm_full_mulmx //; apply: mulmx_ext => k kN.
  by rewrite perm_full_rev.
split.
- move=> i j iN jN.
  have [a aN <-] := index_onto H iN; have [b bN <-] := index_onto H jN.
  by have := S a b aN bN; rewrite E.
- move=> i j iN jN; rewrite /pinv_rcm_R -/rev /perm_full.
  have Hr : is_perm N rev by apply: argsort_perm.
  rewrite -[mulmx _ X' _ _]/(mulmx (perm_full p p Q) X' _ _) E ?index_lt //.
  by rewrite /perm_full !(index_argsort H) // !index_uniq ?(is_perm_size H) ?(is_perm_uniq H).
Qed.

End PinvPerm.

(* solve route: LIQ is ANY solution of (L + s) X = Q; with L + s invertible it
   is Linv Q, hence R = Q X is the R of Proofs/C18.v (Rp) *)
Section PinvSolve.
Variable R : fieldType.
Local Open Scope ring_scope.
Variable N : nat.
Variables (L Linv P X : 'M[R]_N) (s : R).
Hypothesis invl : Linv *m (L + s%:M) = 1%:M.
Hypothesis AX : (L + s%:M) *m X = Qp P.

Lemma pinv_solve_route : Qp P *m X = Rp Linv P.
Proof.
have XE : X = Linv *m Qp P by rewrite -AX mulmxA invl mul1mx.
by rewrite /Rp -XE.
Qed.

End PinvSolve.

Section MsolvesBridge.
Variable R : fieldType.
Local Open Scope ring_scope.
Variable N : nat.
Lemma msolves_bridge (Af Xf Qf : fmx R) :
  msolves N Af Xf Qf -> mx_of_fn N N Af *m mx_of_fn N N Xf = mx_of_fn N N Qf.
Proof.
move=> S; rewrite -fmulmx_bridge; apply/matrixP => i j; rewrite !mxE.
exact: S.
Qed.
Lemma mx_of_fn_ext (Af Bf : fmx R) :
  (forall i j, (i < N)%N -> (j < N)%N -> Af i j = Bf i j) -> mx_of_fn N N Af = mx_of_fn N N Bf.
Proof. by move=> E; apply/matrixP => i j; rewrite !mxE E. Qed.
End MsolvesBridge.

(* the matrix pseudo_inverse(use_rcm=True) hands back is the R = Q Linv Q of
   the defining relations, for every permutation and every solver answer *)
Section PinvRcmRp.
Variable R : fieldType.
Local Open Scope ring_scope.
Variable N : nat.
Variables (Af Qf X' : fmx R) (p : seq nat) (Linv P : 'M[R]_N).
Hypothesis Hp : is_perm N p.
Hypothesis QE : mx_of_fn N N Qf = Qp P.
Hypothesis invl : Linv *m mx_of_fn N N Af = 1%:M.

Lemma pinv_rcm_is_Rp :
  let '(A', Q') := pinv_rcm_system p Af Qf in
  msolves N A' X' Q' ->
  mx_of_fn N N (pinv_rcm_R 0 +%R *%R N p Q' X') = Rp Linv P.
Proof.
have := @pinv_rcm_sound R N p Af Qf X' Hp; rewrite /pinv_rcm_system => /[apply] -[S E].
rewrite (mx_of_fn_ext E) fmulmx_bridge QE.
have AX := msolves_bridge S; rewrite QE in AX.
have XE : mx_of_fn N N (perm_full (argsort p) (argsort p) X') = Linv *m Qp P.
  by rewrite -AX mulmxA invl mul1mx.
by rewrite /Rp XE.
Qed.
End PinvRcmRp.
