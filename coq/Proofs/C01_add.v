(* C01 - add_csr: two-pointer walk + scatter/gather accumulator computes
   tidy (left + scale * right) on denotations, for unsorted rows too. *)
From Coq Require Import List ZArith Bool Arith Lia ZifyBool.
Import ListNotations.
From QV Require Import Model.C01 Proofs.C01 Proofs.C01_pred.

Section Add.
Variable C : Type.
Variables (c0 c1 : C) (cadd cmul : C -> C -> C).
Variable is0 : C -> bool.
Variable ceqb : C -> C -> bool.
Variable tidy : C -> C.
Hypothesis Hadd0r : forall x, cadd x c0 = x.
Hypothesis Hadd0l : forall x, cadd c0 x = x.
Hypothesis Haddc : forall x y, cadd x y = cadd y x.
Hypothesis Hadda : forall x y z, cadd x (cadd y z) = cadd (cadd x y) z.
Hypothesis Hmul0r : forall x, cmul x c0 = c0.
Hypothesis Hmul0l : forall x, cmul c0 x = c0.
Hypothesis Hmul1l : forall x, cmul c1 x = x.
Hypothesis Hmulc : forall x y, cmul x y = cmul y x.
Hypothesis His0 : forall x, is0 x = true <-> x = c0.
Hypothesis Hceq : forall a b, ceqb a b = true <-> a = b.
Hypothesis Htidy0 : tidy c0 = c0.

Notation row_get := (row_get C c0).
Notation den_csr := (den_csr C c0).

(* total scattered into column j by a scatter sequence *)
Fixpoint tot (j : nat) (l : crow C) : C :=
  match l with
  | [] => c0
  | p :: t => if fst p =? j then cadd (snd p) (tot j t) else tot j t
  end.

Lemma tot_absent : forall l j, ~ In j (map fst l) -> tot j l = c0.
Proof.
  induction l as [|p t IH]; intros j H; simpl; [reflexivity|].
  destruct (fst p =? j) eqn:E.
  - apply Nat.eqb_eq in E. exfalso. apply H. simpl. left. exact E.
  - apply IH. intro Hin. apply H. simpl. right. exact Hin.
Qed.

Lemma tot_nodup : forall l j, NoDup (map fst l) -> tot j l = row_get j l.
Proof.
  unfold C01.row_get. induction l as [|p t IH]; intros j Hnd; simpl; [reflexivity|].
  inversion Hnd as [|x l' Hnotin Hnd' Heq]; subst.
  destruct (fst p =? j) eqn:E.
  - apply Nat.eqb_eq in E. subst j. rewrite (tot_absent t (fst p) Hnotin). apply Hadd0r.
  - apply IH. exact Hnd'.
Qed.

Lemma tot_cons : forall j p t,
  tot j (p :: t) = if fst p =? j then cadd (snd p) (tot j t) else tot j t.
Proof. reflexivity. Qed.

(* the walk of _add_csr scatters an interleaving of the two rows *)
Lemma merge_tot : forall sen j fuel (a b : crow C),
  length a + length b <= fuel ->
  (forall p, In p a -> fst p < sen) -> (forall p, In p b -> fst p < sen) ->
  tot j (merge_order C sen fuel a b) = cadd (tot j a) (tot j b).
Proof.
  intros sen j. induction fuel as [|f IH]; intros a b Hf Ha Hb.
  - destruct a; destruct b; simpl in Hf; try lia. simpl. symmetry. apply Hadd0r.
  - destruct a as [|pa ta]; destruct b as [|pb tb].
    + simpl. symmetry. apply Hadd0r.
    + (* a exhausted: col_a = sentinel is not below col_b *)
      assert (Hpb : fst pb < sen) by (apply Hb; left; reflexivity).
      simpl merge_order.
      assert (E : (sen <? fst pb) = false) by lia. rewrite E.
      rewrite tot_cons.
      assert (Hb' : forall p, In p tb -> fst p < sen) by (intros p Hp; apply Hb; right; exact Hp).
      rewrite (IH [] tb) by (simpl in *; try lia; assumption).
      rewrite (tot_cons j pb tb). simpl tot.
      destruct (fst pb =? j); rewrite !Hadd0l; reflexivity.
    + assert (Hpa : fst pa < sen) by (apply Ha; left; reflexivity).
      simpl merge_order.
      assert (E : (fst pa <? sen) = true) by lia. rewrite E.
      rewrite tot_cons.
      assert (Ha' : forall p, In p ta -> fst p < sen) by (intros p Hp; apply Ha; right; exact Hp).
      rewrite (IH ta []) by (simpl in *; try lia; assumption).
      rewrite (tot_cons j pa ta). simpl tot.
      destruct (fst pa =? j); rewrite !Hadd0r; reflexivity.
    + simpl merge_order. simpl in Hf.
      assert (Ha' : forall p, In p ta -> fst p < sen) by (intros p Hp; apply Ha; right; exact Hp).
      assert (Hb' : forall p, In p tb -> fst p < sen) by (intros p Hp; apply Hb; right; exact Hp).
      destruct (fst pa <? fst pb) eqn:E.
      * rewrite tot_cons.
        rewrite (IH ta (pb :: tb)) by (simpl; try lia; assumption).
        rewrite (tot_cons j pa ta).
        destruct (fst pa =? j); [rewrite Hadda|]; reflexivity.
      * rewrite tot_cons.
        rewrite (IH (pa :: ta) tb) by (simpl; try lia; assumption).
        rewrite (tot_cons j pb tb).
        destruct (fst pb =? j); [|reflexivity].
        rewrite Hadda. rewrite (Haddc (snd pb) (tot j (pa :: ta))). rewrite <- Hadda. reflexivity.
Qed.

(* accumulator *)
Lemma scat_get : forall (acc : crow C) c v j,
  row_get j (acc_scatter C cadd acc c v) =
  if c =? j then cadd (row_get j acc) v else row_get j acc.
Proof.
  unfold C01.row_get. induction acc as [|[c' w] t IH]; intros c v j; simpl.
  - destruct (c =? j); [symmetry; apply Hadd0l|reflexivity].
  - destruct (c' =? c) eqn:E1; simpl.
    + apply Nat.eqb_eq in E1. subst c'. destruct (c =? j); reflexivity.
    + destruct (c' =? j) eqn:E2.
      * assert (E3 : (c =? j) = false) by lia. rewrite E3. reflexivity.
      * apply IH.
Qed.

Lemma scat_keys : forall (acc : crow C) c v k,
  In k (map fst (acc_scatter C cadd acc c v)) <-> k = c \/ In k (map fst acc).
Proof.
  induction acc as [|[c' w] t IH]; intros c v k; simpl.
  - intuition.
  - destruct (c' =? c) eqn:E; simpl.
    + apply Nat.eqb_eq in E. subst c'. intuition.
    + rewrite IH. intuition.
Qed.

Lemma scat_nodup : forall (acc : crow C) c v,
  NoDup (map fst acc) -> NoDup (map fst (acc_scatter C cadd acc c v)).
Proof.
  induction acc as [|[c' w] t IH]; intros c v H; simpl.
  - constructor; [intros []|constructor].
  - inversion H as [|x l Hnotin Hnd Heq]; subst.
    destruct (c' =? c) eqn:E; simpl.
    + constructor; assumption.
    + constructor; [|apply IH; exact Hnd].
      intro Hin. apply scat_keys in Hin. destruct Hin as [Hin|Hin]; [lia|]. exact (Hnotin Hin).
Qed.

Lemma scatter_fold : forall (l acc : crow C) j,
  row_get j (fold_left (fun a p => acc_scatter C cadd a (fst p) (snd p)) l acc) =
  cadd (row_get j acc) (tot j l).
Proof.
  induction l as [|p t IH]; intros acc j; simpl; [symmetry; apply Hadd0r|].
  rewrite IH. rewrite scat_get. destruct (fst p =? j); [rewrite Hadda|]; reflexivity.
Qed.

Lemma scatter_fold_nodup : forall (l acc : crow C), NoDup (map fst acc) ->
  NoDup (map fst (fold_left (fun a p => acc_scatter C cadd a (fst p) (snd p)) l acc)).
Proof.
  induction l as [|p t IH]; intros acc H; simpl; [exact H|]. apply IH. apply scat_nodup. exact H.
Qed.

Lemma scatter_fold_keys : forall (l acc : crow C) k,
  In k (map fst (fold_left (fun a p => acc_scatter C cadd a (fst p) (snd p)) l acc)) ->
  In k (map fst acc) \/ In k (map fst l).
Proof.
  induction l as [|p t IH]; intros acc k H; simpl in *; [left; exact H|].
  apply IH in H. destruct H as [H|H]; [|right; right; exact H].
  apply scat_keys in H. destruct H as [H|H]; [right; left; symmetry; exact H|left; exact H].
Qed.

Lemma scatter_all_get : forall l j, row_get j (scatter_all C cadd l) = tot j l.
Proof.
  intros. unfold scatter_all. rewrite scatter_fold. unfold C01.row_get. simpl. apply Hadd0l.
Qed.

(* sort *)
Lemma insert_keys : forall (l : crow C) p k,
  In k (map fst (insert_sorted C p l)) <-> k = fst p \/ In k (map fst l).
Proof.
  induction l as [|q t IH]; intros p k; simpl.
  - intuition.
  - destruct (fst p <=? fst q); simpl; [intuition|]. rewrite IH. intuition.
Qed.

Lemma insert_nodup : forall (l : crow C) p,
  NoDup (fst p :: map fst l) -> NoDup (map fst (insert_sorted C p l)).
Proof.
  induction l as [|q t IH]; intros p H; simpl; [exact H|].
  destruct (fst p <=? fst q); simpl; [exact H|].
  inversion H as [|x l' Hnotin Hnd Heq]; subst.
  inversion Hnd as [|x l' Hnotin' Hnd' Heq]; subst.
  constructor.
  - intro Hin. apply insert_keys in Hin. destruct Hin as [Hin|Hin].
    + apply Hnotin. simpl. left. exact Hin.
    + exact (Hnotin' Hin).
  - apply IH. constructor; [|exact Hnd']. intro Hin. apply Hnotin. simpl. right. exact Hin.
Qed.

Lemma insert_get : forall (l : crow C) p j, ~ In (fst p) (map fst l) ->
  row_get j (insert_sorted C p l) = row_get j (p :: l).
Proof.
  unfold C01.row_get. induction l as [|q t IH]; intros p j H; simpl; [reflexivity|].
  destruct (fst p <=? fst q); simpl; [reflexivity|].
  destruct (fst q =? j) eqn:E1; destruct (fst p =? j) eqn:E2.
  - exfalso. apply H. simpl. left. lia.
  - reflexivity.
  - specialize (IH p j). simpl in IH. rewrite E2 in IH. apply IH.
    intro Hin. apply H. simpl. right. exact Hin.
  - specialize (IH p j). simpl in IH. rewrite E2 in IH. apply IH.
    intro Hin. apply H. simpl. right. exact Hin.
Qed.

Lemma sort_keys : forall (l : crow C) k, In k (map fst (sort_cols C l)) <-> In k (map fst l).
Proof.
  induction l as [|p t IH]; intros k; simpl; [reflexivity|].
  rewrite insert_keys. rewrite IH. intuition.
Qed.

Lemma sort_nodup : forall (l : crow C), NoDup (map fst l) -> NoDup (map fst (sort_cols C l)).
Proof.
  induction l as [|p t IH]; intros H; simpl; [constructor|].
  inversion H as [|x l' Hnotin Hnd Heq]; subst.
  apply insert_nodup. constructor; [|apply IH; exact Hnd].
  intro Hin. rewrite sort_keys in Hin. exact (Hnotin Hin).
Qed.

Lemma sort_get : forall (l : crow C) j, NoDup (map fst l) ->
  row_get j (sort_cols C l) = row_get j l.
Proof.
  induction l as [|p t IH]; intros j H; simpl; [reflexivity|].
  inversion H as [|x l' Hnotin Hnd Heq]; subst.
  rewrite insert_get by (intro Hin; rewrite sort_keys in Hin; exact (Hnotin Hin)).
  unfold C01.row_get in *. simpl. destruct (fst p =? j); [reflexivity|]. apply IH. exact Hnd.
Qed.

(* one output row of the main path *)
Lemma gather_keys : forall (l : crow C) k,
  In k (map fst (flat_map (fun p : nat * C =>
          let v := tidy (snd p) in if is0 v then [] else [(fst p, v)]) l)) -> In k (map fst l).
Proof.
  induction l as [|p t IH]; intros k H; simpl in *; [exact H|].
  rewrite map_app in H. apply in_app_or in H. destruct H as [H|H].
  - destruct (is0 (tidy (snd p))); simpl in H; [contradiction|]. destruct H as [H|[]]. left. exact H.
  - right. apply IH. exact H.
Qed.

Lemma gather_nodup : forall (l : crow C), NoDup (map fst l) ->
  NoDup (map fst (flat_map (fun p : nat * C =>
          let v := tidy (snd p) in if is0 v then [] else [(fst p, v)]) l)).
Proof.
  induction l as [|p t IH]; intros H; simpl; [constructor|].
  inversion H as [|x l' Hnotin Hnd Heq]; subst.
  rewrite map_app. destruct (is0 (tidy (snd p))); simpl; [apply IH; exact Hnd|].
  constructor; [|apply IH; exact Hnd].
  intro Hin. apply gather_keys in Hin. exact (Hnotin Hin).
Qed.

Lemma add_row_get : forall sen (a b : crow C) j,
  NoDup (map fst a) -> NoDup (map fst b) ->
  (forall p, In p a -> fst p < sen) -> (forall p, In p b -> fst p < sen) ->
  row_get j (acc_gather C is0 tidy
     (scatter_all C cadd (merge_order C sen (length a + length b) a b))) =
  tidy (cadd (row_get j a) (row_get j b)).
Proof.
  intros sen a b j Na Nb Ba Bb. unfold acc_gather.
  assert (Nsc : NoDup (map fst (scatter_all C cadd (merge_order C sen (length a + length b) a b)))).
  { unfold scatter_all. apply scatter_fold_nodup. constructor. }
  rewrite (tidy_row_get C c0 is0 tidy His0 Htidy0) by (apply sort_nodup; exact Nsc).
  rewrite sort_get by exact Nsc.
  rewrite scatter_all_get. rewrite merge_tot by (try apply le_n; assumption).
  rewrite !tot_nodup by assumption. reflexivity.
Qed.

Lemma add_row_wf : forall sen nc (a b : crow C),
  (forall p, In p a -> fst p < nc) -> (forall p, In p b -> fst p < nc) ->
  wf_row C nc (acc_gather C is0 tidy
     (scatter_all C cadd (merge_order C sen (length a + length b) a b))).
Proof.
  intros sen nc a b Ba Bb. unfold acc_gather.
  assert (Nsc : NoDup (map fst (scatter_all C cadd (merge_order C sen (length a + length b) a b)))).
  { unfold scatter_all. apply scatter_fold_nodup. constructor. }
  split; [apply gather_nodup; apply sort_nodup; exact Nsc|].
  intros p Hp.
  assert (Hk : In (fst p) (map fst (merge_order C sen (length a + length b) a b))).
  { assert (H1 : In (fst p) (map fst (sort_cols C (scatter_all C cadd
                    (merge_order C sen (length a + length b) a b))))).
    { apply gather_keys. apply in_map. exact Hp. }
    rewrite sort_keys in H1. unfold scatter_all in H1. apply scatter_fold_keys in H1.
    destruct H1 as [[]|H1]. exact H1. }
  clear Hp Nsc.
  (* every scattered column comes from one of the two rows *)
  assert (Hm : forall fuel (x y : crow C) k,
             In k (map fst (merge_order C sen fuel x y)) -> In k (map fst x) \/ In k (map fst y)).
  { induction fuel as [|f IH]; intros x y k H; simpl in H; [contradiction|].
    destruct x as [|px tx]; destruct y as [|py ty]; simpl in H; try contradiction.
    - destruct (sen <? fst py); simpl in H; [contradiction|].
      destruct H as [H|H]; [right; left; exact H|].
      apply IH in H. destruct H as [H|H]; [left; exact H|right; right; exact H].
    - destruct (fst px <? sen); simpl in H; [|contradiction].
      destruct H as [H|H]; [left; left; exact H|].
      apply IH in H. destruct H as [H|H]; [left; right; exact H|right; exact H].
    - destruct (fst px <? fst py); simpl in H; destruct H as [H|H].
      + left; left; exact H.
      + apply IH in H. destruct H as [H|H]; [left; right; exact H|right; exact H].
      + right; left; exact H.
      + apply IH in H. destruct H as [H|H]; [left; exact H|right; right; exact H]. }
  apply Hm in Hk. destruct Hk as [Hk|Hk]; apply in_map_iff in Hk;
    destruct Hk as [q [Eq Hq]]; rewrite <- Eq; [apply Ba|apply Bb]; exact Hq.
Qed.

(* helpers on whole matrices *)
Lemma nnz0_den : forall (m : csr C) i j, nnz C m = 0 -> den_csr m i j = c0.
Proof.
  intros m i j H. unfold C01.den_csr.
  destruct ((i <? s_nr C m) && (j <? s_nc C m)); [|reflexivity].
  assert (E : nth i (s_rows C m) [] = []).
  { unfold nnz in H. revert i. induction (s_rows C m) as [|r t IH]; intros i.
    - destruct i; reflexivity.
    - simpl in H. rewrite app_length in H.
      destruct i as [|i]; simpl.
      + destruct r; [reflexivity|simpl in H; lia].
      + apply IH. lia. }
  rewrite E. reflexivity.
Qed.

Lemma scale_row_get : forall s (row : crow C) j,
  row_get j (scale_row C cmul s row) = cmul s (row_get j row).
Proof.
  intros s row j. unfold C01.row_get, scale_row. rewrite find_map_snd.
  destruct (find (fun p => fst p =? j) row); simpl; [reflexivity|symmetry; apply Hmul0r].
Qed.

Lemma nth_map_combine_rows : forall (F : crow C * crow C -> crow C) (la lb : list (crow C)) i,
  i < length la -> length la = length lb ->
  nth i (map F (combine la lb)) [] = F (nth i la [], nth i lb []).
Proof.
  intros F la. induction la as [|x la IH]; intros lb i Hi Hl; simpl in *; [lia|].
  destruct lb as [|y lb]; simpl in *; [lia|].
  destruct i as [|i]; [reflexivity|]. apply IH; lia.
Qed.

Theorem add_csr_den : forall (l r out : csr C) scale i j,
  wf_csr C l -> wf_csr C r ->
  add_csr C c1 cadd cmul is0 ceqb tidy l r scale = Some out ->
  let v := cadd (den_csr l i j) (cmul scale (den_csr r i j)) in
  den_csr out i j = v \/ den_csr out i j = tidy v.
Proof.
  intros l r out scale i j [Ll Wl] [Lr Wr] H v. subst v. unfold add_csr in H.
  destruct ((s_nr C l =? s_nr C r) && (s_nc C l =? s_nc C r)) eqn:Es; simpl in H; [|discriminate].
  assert (Enr : s_nr C l = s_nr C r) by lia. assert (Enc : s_nc C l = s_nc C r) by lia.
  destruct ((nnz C r =? 0) || is0 scale) eqn:F1.
  { injection H as H. subst out. left. apply orb_prop in F1. destruct F1 as [F1|F1].
    - rewrite (nnz0_den r i j) by lia. rewrite Hmul0r, Hadd0r. reflexivity.
    - apply His0 in F1. subst scale. rewrite Hmul0l, Hadd0r. reflexivity. }
  destruct (nnz C l =? 0) eqn:F2.
  { injection H as H. subst out. left. rewrite (nnz0_den l i j) by lia. rewrite Hadd0l.
    destruct (ceqb scale c1) eqn:F3.
    - apply Hceq in F3. subst scale. rewrite Hmul1l. reflexivity.
    - rewrite (map_csr_den C c0 (fun x => cmul x scale)) by apply Hmul0l. apply Hmulc. }
  injection H as H. subst out. right. unfold C01.den_csr at 1. simpl.
  destruct (i <? s_nr C l) eqn:Hi; simpl.
  2:{ unfold C01.den_csr. rewrite <- Enr, Hi. simpl. rewrite Hmul0r, Hadd0r. symmetry. exact Htidy0. }
  destruct (j <? s_nc C l) eqn:Hj; simpl.
  2:{ unfold C01.den_csr. rewrite <- Enr, <- Enc, Hi, Hj. simpl.
      rewrite Hmul0r, Hadd0r. symmetry. exact Htidy0. }
  assert (Hi' : i < s_nr C l) by lia.
  rewrite nth_map_combine_rows by lia. simpl.
  assert (Ia : In (nth i (s_rows C l) []) (s_rows C l)) by (apply nth_In; lia).
  assert (Ib : In (nth i (s_rows C r) []) (s_rows C r)) by (apply nth_In; lia).
  destruct (Wl _ Ia) as [Na Ba]. destruct (Wr _ Ib) as [Nb Bb].
  unfold C01.den_csr. rewrite <- Enr, <- Enc, Hi, Hj. simpl.
  destruct (ceqb scale c1) eqn:F3.
  - apply Hceq in F3. subst scale. rewrite Hmul1l.
    apply add_row_get; try assumption.
    + intros p Hp. specialize (Ba p Hp). lia.
    + intros p Hp. specialize (Bb p Hp). lia.
  - rewrite <- scale_row_get.
    apply add_row_get; try assumption.
    + unfold scale_row. rewrite map_map. simpl. exact Nb.
    + intros p Hp. specialize (Ba p Hp). lia.
    + intros p Hp. unfold scale_row in Hp. apply in_map_iff in Hp.
      destruct Hp as [q [Eq Hq]]. subst p. simpl. specialize (Bb q Hq). lia.
Qed.

Theorem add_csr_wf : forall (l r out : csr C) scale,
  wf_csr C l -> wf_csr C r ->
  add_csr C c1 cadd cmul is0 ceqb tidy l r scale = Some out -> wf_csr C out.
Proof.
  intros l r out scale Wl0 Wr0 H. pose proof Wl0 as [Ll Wl]. pose proof Wr0 as [Lr Wr].
  unfold add_csr in H.
  destruct ((s_nr C l =? s_nr C r) && (s_nc C l =? s_nc C r)) eqn:Es; simpl in H; [|discriminate].
  assert (Enr : s_nr C l = s_nr C r) by lia. assert (Enc : s_nc C l = s_nc C r) by lia.
  destruct ((nnz C r =? 0) || is0 scale); [injection H as H; subst out; exact Wl0|].
  destruct (nnz C l =? 0).
  { injection H as H. subst out. destruct (ceqb scale c1); [exact Wr0|apply map_csr_wf; exact Wr0]. }
  injection H as H. subst out. split; simpl.
  - rewrite map_length, combine_length. lia.
  - intros row Hin. apply in_map_iff in Hin. destruct Hin as [[a b] [Erow Hab]]. subst row. simpl.
    pose proof (in_combine_l _ _ _ _ Hab) as Ha. pose proof (in_combine_r _ _ _ _ Hab) as Hb.
    destruct (Wl a Ha) as [_ Ba]. destruct (Wr b Hb) as [_ Bb].
    destruct (ceqb scale c1).
    + apply add_row_wf; [exact Ba|]. intros p Hp. specialize (Bb p Hp). lia.
    + apply add_row_wf; [exact Ba|]. intros p Hp. unfold scale_row in Hp.
      apply in_map_iff in Hp. destruct Hp as [q [Eq Hq]]. subst p. simpl.
      specialize (Bb q Hq). lia.
Qed.

Theorem add_csr_guard : forall (l r : csr C) scale,
  (s_nr C l <> s_nr C r \/ s_nc C l <> s_nc C r) ->
  add_csr C c1 cadd cmul is0 ceqb tidy l r scale = None.
Proof.
  intros l r scale H. unfold add_csr.
  assert (E : (s_nr C l =? s_nr C r) && (s_nc C l =? s_nc C r) = false) by lia.
  rewrite E. reflexivity.
Qed.
End Add.
