(* C03: soundness of the cached isherm / isunitary flags.  One obligation per
   flag site of the qutip source; the flag expressions are the GENERATED
   definitions of Gen/C03_flags.v (regenerated from /repo on every run). *)
From mathcomp Require Import all_ssreflect all_algebra.
From mathcomp Require Import mxtens.
From QV Require Import Base.PyVal Base.MxHerm Gen.C03_flags.
Set Implicit Arguments. Unset Strict Implicit. Unset Printing Implicit Defensive.
Import GRing.Theory.
Local Open Scope ring_scope.

Section Sound.
Variable R : fieldType.
Variable conj : {rmorphism R -> R}.
Hypothesis conjK : involutive conj.

Notation dag := (dag conj).
Notation cj := (cj conj).
Notation is_herm := (is_herm conj).
Notation is_unitary := (is_unitary conj).

(* a cached answer never contradicts the matrix *)
Definition sound_h n (f : pyval) (A : 'M[R]_n) : Prop :=
  match f with PBool true => is_herm A | PBool false => ~ is_herm A | PNone => True end.
Definition sound_u n (f : pyval) (A : 'M[R]_n) : Prop :=
  match f with PBool true => is_unitary A | PBool false => ~ is_unitary A | PNone => True end.
Definition sound_a n (e : fenv) (A : 'M[R]_n) := sound_h (fa_h e) A /\ sound_u (fa_u e) A.
Definition sound_b n (e : fenv) (B : 'M[R]_n) := sound_h (fb_h e) B /\ sound_u (fb_u e) B.
(* meaning of the scalar predicates (exact version of the tolerance tests) *)
Definition scal_ok (e : fenv) (z : R) :=
  (p_real e <-> conj z = z) /\ (p_unitmod e <-> z * conj z = 1).

Lemma scalar_mx_eq1 n (c : R) : (0 < n)%N -> (c%:M = 1%:M :> 'M[R]_n) <-> c = 1.
Proof.
case: n=> // n _; split=> [H|->//].
by have := congr1 (fun M : 'M_n.+1 => M ord0 ord0) H; rewrite !mxE eqxx !mulr1n.
Qed.

(* ---- sites whose result is the operand itself *)
Lemma copy_sound n e (A : 'M[R]_n) : sound_a e A ->
  sound_h (copy_herm e) A /\ sound_u (copy_unit e) A /\ copy_data = DCopy.
Proof. by case. Qed.
Lemma to_sound n e (A : 'M[R]_n) : sound_a e A ->
  sound_h (to_herm e) A /\ sound_u (to_unit e) A /\ to_data = DCopy.
Proof. by case. Qed.

(* ---- number promoted to a multiple of the identity *)
Lemma scalar_id_sound n e (z : R) : (0 < n)%N -> scal_ok e z ->
  sound_h (scalar_id_herm e) (z%:M : 'M[R]_n) /\ sound_u (scalar_id_unit e) (z%:M : 'M[R]_n)
  /\ scalar_id_data = DScaledId.
Proof.
move=> n0 [Hr Hu]; rewrite /scalar_id_herm /scalar_id_unit /=; split; [|split=> //].
  by case Er: (p_real e); rewrite /= (herm_scalar conj _ n0) -Hr Er.
by case Eu: (p_unitmod e); rewrite /= (unitary_scalar conj _ n0) -Hu Eu.
Qed.

(* ---- sums *)
Lemma add_sound n e (A B : 'M[R]_n) : sound_a e A -> sound_b e B ->
  sound_h (add_herm e) (A + B) /\ sound_u (add_unit e) (A + B) /\ add_data = DAdd.
Proof.
rewrite /sound_a /sound_b /add_herm /add_unit; move: (fa_h e) (fb_h e)=> ah bh [Ha _] [Hb _].
split; [|by []].
by case: ah Ha=> [|[]] //=; case: bh Hb=> [|[]] //= Hb Ha; apply: herm_add.
Qed.
Lemma sub_sound n e (A B : 'M[R]_n) : sound_a e A -> sound_b e B ->
  sound_h (sub_herm e) (A - B) /\ sound_u (sub_unit e) (A - B) /\ sub_data = DSub.
Proof.
rewrite /sound_a /sound_b /sub_herm /sub_unit; move: (fa_h e) (fb_h e)=> ah bh [Ha _] [Hb _].
split; [|by []].
by case: ah Ha=> [|[]] //=; case: bh Hb=> [|[]] //= Hb Ha; apply: herm_sub.
Qed.

(* ---- scalar multiple *)
Lemma mul_sound n e (A : 'M[R]_n) z : (0 < n)%N -> sound_a e A -> scal_ok e z ->
  sound_h (mul_herm e) (z *: A) /\ sound_u (mul_unit e) (z *: A) /\ mul_data = DMul.
Proof.
move=> n0; rewrite /sound_a /mul_herm /mul_unit; move: (fa_h e) (fa_u e)=> ah au [Ha Hu] [Hr Hm].
split; [|split=> //].
  case: ah Ha=> [|[]] //= Ha; case Er: (p_real e)=> //=.
  by apply: herm_scale=> //; apply/Hr; rewrite Er.
case: au Hu=> [|[]] //= Hu.
case Em: (p_unitmod e)=> /=; rewrite (unitary_scale z Hu) (scalar_mx_eq1 _ n0) -Hm Em //.
Qed.

(* ---- products *)
Lemma matmul_sound n e (A B : 'M[R]_n) : sound_a e A -> sound_b e B ->
  sound_h (matmul_herm e) (A *m B) /\ sound_u (matmul_unit e) (A *m B) /\ matmul_data = DMatmul.
Proof.
rewrite /sound_a /sound_b /matmul_herm /matmul_unit; move: (fa_u e) (fb_u e)=> au bu [_ Ha] [_ Hb].
split=> //; split=> //.
by case: au Ha=> [|[]] //=; case: bu Hb=> [|[]] //= Hb Ha; apply: unitary_mul.
Qed.
Lemma matmul_outer_sound n e (u : 'cV[R]_n) (v : 'rV[R]_n) : (1 < n)%N ->
  sound_h (matmul_outer_herm e) (u *m v) /\ sound_u (matmul_outer_unit e) (u *m v)
  /\ matmul_outer_data = DMatmulOuter.
Proof. by move=> n1; split=> //; split=> //; apply: outer_not_unitary. Qed.

(* ---- unary minus, conjugate, transpose, adjoint *)
Lemma neg_sound n e (A : 'M[R]_n) : sound_a e A ->
  sound_h (neg_herm e) (- A) /\ sound_u (neg_unit e) (- A) /\ neg_data = DNeg.
Proof.
rewrite /sound_a /neg_herm /neg_unit; move: (fa_h e) (fa_u e)=> ah au [Ha Hu].
split; [|split=> //].
  by case: ah Ha=> [|[]] //=; rewrite herm_opp.
by case: au Hu=> [|[]] //=; rewrite unitary_opp.
Qed.
Lemma conj_sound n e (A : 'M[R]_n) : sound_a e A ->
  sound_h (conj_herm e) (cj A) /\ sound_u (conj_unit e) (cj A) /\ conj_data = DConj.
Proof.
rewrite /sound_a /conj_herm /conj_unit; move: (fa_h e) (fa_u e)=> ah au [Ha Hu].
split; [|split=> //].
  by case: ah Ha=> [|[]] //=; rewrite (herm_cj conjK).
by case: au Hu=> [|[]] //=; rewrite (unitary_cj conjK).
Qed.
Lemma trans_sound n e (A : 'M[R]_n) : sound_a e A ->
  sound_h (trans_herm e) A^T /\ sound_u (trans_unit e) A^T /\ trans_data = DTranspose.
Proof.
rewrite /sound_a /trans_herm /trans_unit; move: (fa_h e) (fa_u e)=> ah au [Ha Hu].
split; [|split=> //].
  by case: ah Ha=> [|[]] //=; rewrite (herm_tr conjK).
by case: au Hu=> [|[]] //=; rewrite (unitary_tr conj).
Qed.
(* dag(): `if self._isherm: return self.copy()` else the adjoint with the
   forwarded flags; the shortcut must return the adjoint too *)
Lemma dag_sound n e (A : 'M[R]_n) : sound_a e A ->
  let short := truthy (dag_shortcut_guard e) in
  let res := if short then A else dag A in
  res = dag A /\
  sound_h (if short then copy_herm e else dag_herm e) res /\
  sound_u (if short then copy_unit e else dag_unit e) res /\ dag_data = DAdjoint.
Proof.
rewrite /sound_a /dag_shortcut_guard /copy_herm /copy_unit /dag_herm /dag_unit.
move: (fa_h e) (fa_u e) (p_same_dims e)=> ah au sd [Ha Hu].
(* the shortcut is taken only when the cached flag is True (and the labels
   agree); in every other case the adjoint is built *)
have Hd : sound_u au (dag A).
  by case: au Hu=> [|[]] //=; rewrite (unitary_dag conjK).
case: ah Ha=> [|[]] /= Ha; try (case: sd=> /=); try by split.
- by split=> //; split=> //; rewrite /= (herm_dag conjK).
- by split=> //; split=> //; rewrite /= (herm_dag conjK).
- by split=> //; split=> //; rewrite /= (herm_dag conjK).
Qed.

(* ---- powers *)
Lemma pow_sound n e (A : 'M[R]_n) k : sound_a e A ->
  sound_h (pow_herm e) (mpow A k) /\ sound_u (pow_unit e) (mpow A k) /\ pow_data = DPow.
Proof.
rewrite /sound_a /pow_herm /pow_unit; move: (fa_h e) (fa_u e)=> ah au [Ha Hu].
split; [|split=> //].
  by case: ah Ha=> [|[]] //= Ha; apply: herm_mpow.
by case: au Hu=> [|[]] //= Hu; apply: unitary_mpow.
Qed.

(* ---- projector of a ket / bra *)
Lemma proj_sound n e (u : 'cV[R]_n) :
  sound_h (proj_herm e) (u *m dag u) /\ sound_u (proj_unit e) (u *m dag u) /\ proj_data = DProject.
Proof. by split=> //=; rewrite /is_herm (herm_outer conjK). Qed.

(* ---- matrix functions: oracles with the algebraic facts true of them *)
Section Fun.
Variable n : nat.
Variable expm logm : 'M[R]_n -> 'M[R]_n.
Hypothesis expm_dag : forall A, expm (dag A) = dag (expm A).
Lemma expm_sound e (A : 'M[R]_n) : sound_a e A ->
  sound_h (expm_herm e) (expm A) /\ sound_u (expm_unit e) (expm A) /\ expm_data = DExpm.
Proof.
rewrite /sound_a /expm_herm /expm_unit; move: (fa_h e)=> ah [Ha _]; split=> //.
by case: ah Ha=> [|[]] //= Ha; rewrite /is_herm -expm_dag Ha.
Qed.
Lemma logm_sound e (A : 'M[R]_n) : sound_a e A ->
  sound_h (logm_herm e) (logm A) /\ sound_u (logm_unit e) (logm A) /\ logm_data = DLogm.
Proof. by []. Qed.
(* solver output: the evolution map commutes with the adjoint *)
Variable evolve : 'M[R]_n -> 'M[R]_n.
Hypothesis evolve_dag : forall A, evolve (dag A) = dag (evolve A).
Lemma solver_state_sound e (A : 'M[R]_n) : sound_a e A ->
  sound_h (solver_state_herm e) (evolve A) /\ solver_state_data = DEvolved.
Proof.
rewrite /sound_a /solver_state_herm; move: (fa_h e)=> ah [Ha _]; split=> //;
try (case: (p_same_dims e)=> //=; by case: ah Ha=> [|[]] //= Ha; rewrite /is_herm -evolve_dag Ha).
Qed.
End Fun.

(* ---- solver functions that return a symmetrised matrix flagged isherm=True:
   propagator_steadystate  Qobj(add(x, adjoint(x)), isherm=True)
   _steadystate_direct     rho = add(rho, rho.adjoint()) * 0.5; Qobj(rho, isherm=True)
   _steadystate_power      rho = rho + rho.dag(); rho = rho / rho.tr(); rho.isherm = True *)
Lemma herm_symm n (X : 'M[R]_n) : is_herm (X + dag X).
Proof. by rewrite /is_herm (dag_add conj) (dagK conjK) addrC. Qed.
Lemma conj_half : conj (2%:R^-1) = 2%:R^-1.
Proof. by rewrite fmorphV rmorph_nat. Qed.
Lemma prop_ss_sound n e (X : 'M[R]_n) :
  sound_h (prop_ss_herm e) (X + dag X) /\ sound_u (prop_ss_unit e) (X + dag X)
  /\ prop_ss_data = DSymm.
Proof. by split; [exact: herm_symm|]. Qed.
Lemma ss_direct_sound n e (X : 'M[R]_n) :
  sound_h (ss_direct_herm e) (2%:R^-1 *: (X + dag X))
  /\ sound_u (ss_direct_unit e) (2%:R^-1 *: (X + dag X)) /\ ss_direct_data = DSymmHalf.
Proof. by split; [apply: herm_scale; [exact: conj_half|exact: herm_symm]|]. Qed.
Lemma ss_power_sound n e (X : 'M[R]_n) :
  let H := X + dag X in
  sound_h (ss_power_herm e) ((\tr H)^-1 *: H) /\ sound_u (ss_power_unit e) ((\tr H)^-1 *: H)
  /\ ss_power_data = DSymmNormTr.
Proof.
move=> H; split=> //; apply: herm_scale; last exact: herm_symm.
by rewrite fmorphV (herm_trace_real (herm_symm X)).
Qed.

(* ---- in-place normalisation: data <- z *: data *)
Lemma unit_inplace_sound n e (A : 'M[R]_n) z : (0 < n)%N -> z != 0 -> sound_a e A -> scal_ok e z ->
  sound_h (unit_inplace_herm e) (z *: A) /\ sound_u (unit_inplace_unit e) (z *: A)
  /\ unit_inplace_data = DMul.
Proof.
move=> n0 z0; rewrite /sound_a /unit_inplace_herm /unit_inplace_unit.
move: (fa_h e) (fa_u e)=> ah au [Ha Hu] [Hr Hm].
split; [|split=> //].
  case Er: (p_real e)=> //=; have zr : conj z = z by apply/Hr; rewrite Er.
  case: ah Ha=> [|[]] //= Ha; first exact: herm_scale.
  by move=> H; apply: Ha; apply: (herm_scale_inv zr z0 H).
case Em: (p_unitmod e)=> //=; have zm : z * conj z = 1 by apply/Hm; rewrite Em.
by case: au Hu=> [|[]] //=; rewrite (scale_unitmod_same A zm).
Qed.

(* ---- similarity by a unitary matrix: permutation of tensor factors, basis change *)
Lemma permute_sound n e (P A : 'M[R]_n) : is_unitary P -> sound_a e A ->
  sound_h (permute_herm e) (P *m A *m dag P) /\ sound_u (permute_unit e) (P *m A *m dag P)
  /\ permute_data = DPermute.
Proof.
move=> HP; rewrite /sound_a /permute_herm /permute_unit; move: (fa_h e) (fa_u e)=> ah au [Ha Hu].
split; [|split=> //].
  case: ah Ha=> [|[]] //= Ha; first exact: herm_sandwich.
  by move=> H; apply: Ha; apply: (herm_sandwich_inv conjK HP H).
by case: au Hu=> [|[]] //=; rewrite (unitary_sandwich conjK A HP).
Qed.
Lemma expand_permute_sound n e (P A : 'M[R]_n) : is_unitary P -> sound_a e A ->
  sound_h (expand_permute_herm e) (P *m A *m dag P) /\
  sound_u (expand_permute_unit e) (P *m A *m dag P) /\ expand_permute_data = DPermute.
Proof.
move=> HP; rewrite /sound_a /expand_permute_herm /expand_permute_unit.
move: (fa_h e) (fa_u e)=> ah au [Ha Hu].
split; [|split=> //].
  case: ah Ha=> [|[]] //= Ha; first exact: herm_sandwich.
  by move=> H; apply: Ha; apply: (herm_sandwich_inv conjK HP H).
by case: au Hu=> [|[]] //=; rewrite (unitary_sandwich conjK A HP).
Qed.
Lemma transform_sound n e (S A : 'M[R]_n) : is_unitary S -> sound_a e A ->
  sound_h (transform_herm e) (S *m A *m dag S) /\ sound_u (transform_unit e) (S *m A *m dag S)
  /\ transform_data = DTransform.
Proof.
move=> HS; rewrite /sound_a /transform_herm /transform_unit; move: (fa_h e)=> ah [Ha _].
split=> //.
case: ah Ha=> [|[]] //= Ha; first exact: herm_sandwich.
by move=> H; apply: Ha; apply: (herm_sandwich_inv conjK HS H).
Qed.

(* ---- tensor products and superoperator constructors *)
Lemma tensor_step_sound m n e (A : 'M[R]_m) (B : 'M[R]_n) : sound_a e A -> sound_b e B ->
  sound_h (tensor_step_herm e) (A *t B) /\ sound_u (tensor_step_unit e) (A *t B)
  /\ tensor_step_data = DKron.
Proof.
rewrite /sound_a /sound_b /tensor_step_herm /tensor_step_unit.
move: (fa_h e) (fa_u e) (fb_h e) (fb_u e)=> ah au bh bu [Ha Hu] [Hb Hv].
split; [|split=> //].
  by case: ah Ha=> [|[]] //=; case: bh Hb=> [|[]] //= Hb Ha; apply: herm_tens.
by case: au Hu=> [|[]] //=; case: bu Hv=> [|[]] //= Hv Hu; apply: unitary_tens.
Qed.
Lemma spre_sound n e (A : 'M[R]_n) : (0 < n)%N -> sound_a e A ->
  sound_h (spre_herm e) ((1%:M : 'M[R]_n) *t A) /\ spre_data = DKronIdL.
Proof.
move=> n0; rewrite /sound_a /spre_herm; move: (fa_h e)=> ah [Ha _]; split=> //.
by case: ah Ha=> [|[]] //=; rewrite (herm_tens1l conj A n0).
Qed.
Lemma spost_sound n e (A : 'M[R]_n) : (0 < n)%N -> sound_a e A ->
  sound_h (spost_herm e) (A^T *t (1%:M : 'M[R]_n)) /\ spost_data = DKronTIdR.
Proof.
move=> n0; rewrite /sound_a /spost_herm; move: (fa_h e)=> ah [Ha _]; split=> //.
by case: ah Ha=> [|[]] //=; rewrite (herm_tens1r conj A^T n0) (herm_tr conjK).
Qed.
Lemma sprepost_sound m n e (A : 'M[R]_m) (B : 'M[R]_n) : sound_a e A -> sound_b e B ->
  sound_h (sprepost_herm e) (B^T *t A) /\ sprepost_data = DKronT.
Proof.
rewrite /sound_a /sound_b /sprepost_herm; move: (fa_h e) (fb_h e)=> ah bh [Ha _] [Hb _].
split=> //.
case: ah Ha=> [|[]] //=; case: bh Hb=> [|[]] //= Hb Ha.
by apply: herm_tens=> //; rewrite (herm_tr conjK).
Qed.

(* ---- consumers that trust a cached True *)
Lemma trusted_trace n (A : 'M[R]_n) : sound_h (PBool true) A -> conj (\tr A) = \tr A.
Proof. exact: herm_trace_real. Qed.
Lemma trusted_diag n (A : 'M[R]_n) i : sound_h (PBool true) A -> conj (A i i) = A i i.
Proof. by move=> H; exact: herm_diag_real. Qed.
Lemma trusted_dag n (A : 'M[R]_n) : sound_h (PBool true) A -> dag A = A.
Proof. by []. Qed.

(* ---- every history: objects of a fixed square dimension produced by any
   finite sequence of the modelled operations, with reads of isherm /
   isunitary (which replace an unknown flag by the truth) interleaved in any
   way *)
Definition mkenv ah au bh bu pr pu : fenv :=
  {| fa_h := ah; fa_u := au; fb_h := bh; fb_u := bu; p_real := pr; p_unitmod := pu;
     p_abs_lt1 := false; p_same_dims := false |}.

Section Hist.
Variable n : nat.
Hypothesis n0 : (0 < n)%N.
Variable expm logm : 'M[R]_n -> 'M[R]_n.
Hypothesis expm_dag : forall A, expm (dag A) = dag (expm A).

Inductive derivable : pyval -> pyval -> 'M[R]_n -> Prop :=
| D_init A : derivable PNone PNone A
| D_read_h fh fu A (b : bool) : derivable fh fu A -> (b <-> is_herm A) ->
    derivable (if fh is PNone then PBool b else fh) fu A
| D_read_u fh fu A (b : bool) : derivable fh fu A -> (b <-> is_unitary A) ->
    derivable fh (if fu is PNone then PBool b else fu) A
| D_copy fh fu A : derivable fh fu A ->
    let e := mkenv fh fu PNone PNone false false in derivable (copy_herm e) (copy_unit e) A
| D_add ah au A bh bu B : derivable ah au A -> derivable bh bu B ->
    let e := mkenv ah au bh bu false false in derivable (add_herm e) (add_unit e) (A + B)
| D_sub ah au A bh bu B : derivable ah au A -> derivable bh bu B ->
    let e := mkenv ah au bh bu false false in derivable (sub_herm e) (sub_unit e) (A - B)
| D_mul ah au A z pr pu : derivable ah au A ->
    let e := mkenv ah au PNone PNone pr pu in scal_ok e z ->
    derivable (mul_herm e) (mul_unit e) (z *: A)
| D_scalar_add ah au A z pr pu : derivable ah au A ->
    let e0 := mkenv PNone PNone PNone PNone pr pu in scal_ok e0 z ->
    let e := mkenv ah au (scalar_id_herm e0) (scalar_id_unit e0) false false in
    derivable (add_herm e) (add_unit e) (A + z%:M)
| D_matmul ah au A bh bu B : derivable ah au A -> derivable bh bu B ->
    let e := mkenv ah au bh bu false false in derivable (matmul_herm e) (matmul_unit e) (A *m B)
| D_neg ah au A : derivable ah au A ->
    let e := mkenv ah au PNone PNone false false in derivable (neg_herm e) (neg_unit e) (- A)
| D_conj ah au A : derivable ah au A ->
    let e := mkenv ah au PNone PNone false false in derivable (conj_herm e) (conj_unit e) (cj A)
| D_trans ah au A : derivable ah au A ->
    let e := mkenv ah au PNone PNone false false in derivable (trans_herm e) (trans_unit e) A^T
| D_dag ah au A : derivable ah au A ->
    let e := mkenv ah au PNone PNone false false in
    let short := truthy (dag_shortcut_guard e) in
    derivable (if short then copy_herm e else dag_herm e)
              (if short then copy_unit e else dag_unit e) (if short then A else dag A)
| D_pow ah au A k : derivable ah au A ->
    let e := mkenv ah au PNone PNone false false in derivable (pow_herm e) (pow_unit e) (mpow A k)
| D_expm ah au A : derivable ah au A ->
    let e := mkenv ah au PNone PNone false false in derivable (expm_herm e) (expm_unit e) (expm A)
| D_logm ah au A : derivable ah au A ->
    let e := mkenv ah au PNone PNone false false in derivable (logm_herm e) (logm_unit e) (logm A)
| D_unit_inplace ah au A z pr pu : derivable ah au A -> z != 0 ->
    let e := mkenv ah au PNone PNone pr pu in scal_ok e z ->
    derivable (unit_inplace_herm e) (unit_inplace_unit e) (z *: A)
| D_similar ah au A P : derivable ah au A -> is_unitary P ->
    let e := mkenv ah au PNone PNone false false in
    derivable (permute_herm e) (permute_unit e) (P *m A *m dag P).

Lemma all_histories fh fu A : derivable fh fu A -> sound_h fh A /\ sound_u fu A.
Proof.
elim=> {fh fu A}.
- by [].
- move=> fh fu A b _ [Hh Hu] Hb; split=> //.
  by case: fh Hh=> [|[]] //= _; case: b Hb=> /= Hb; [apply/Hb|move/Hb].
- move=> fh fu A b _ [Hh Hu] Hb; split=> //.
  by case: fu Hu=> [|[]] //= _; case: b Hb=> /= Hb; [apply/Hb|move/Hb].
- move=> fh fu A _ IH e; have [] := @copy_sound n e A IH; tauto.
- move=> ah au A bh bu B _ IA _ IB e; have [] := @add_sound n e A B IA IB; tauto.
- move=> ah au A bh bu B _ IA _ IB e; have [] := @sub_sound n e A B IA IB; tauto.
- move=> ah au A z pr pu _ IA e Hz; have [] := @mul_sound n e A z n0 IA Hz; tauto.
- move=> ah au A z pr pu _ IA e0 Hz e.
  have [S1 [S2 _]] := @scalar_id_sound n e0 z n0 Hz.
  have Sb : sound_b e (z%:M : 'M[R]_n) by split.
  have [] := @add_sound n e A (z%:M) IA Sb; tauto.
- move=> ah au A bh bu B _ IA _ IB e; have [] := @matmul_sound n e A B IA IB; tauto.
- move=> ah au A _ IA e; have [] := @neg_sound n e A IA; tauto.
- move=> ah au A _ IA e; have [] := @conj_sound n e A IA; tauto.
- move=> ah au A _ IA e; have [] := @trans_sound n e A IA; tauto.
- move=> ah au A _ IA e short; have [_ []] := @dag_sound n e A IA; rewrite -/short; tauto.
- move=> ah au A k _ IA e; have [] := @pow_sound n e A k IA; tauto.
- move=> ah au A _ IA e; have [] := @expm_sound n expm expm_dag e A IA; tauto.
- move=> ah au A _ IA e; have [] := @logm_sound n logm e A IA; tauto.
- move=> ah au A z pr pu _ IA z0 e Hz; have [] := @unit_inplace_sound n e A z n0 z0 IA Hz; tauto.
- move=> ah au A P _ IA HP e; have [] := @permute_sound n e P A HP IA; tauto.
Qed.
End Hist.


(* ---- QobjEvo.__call__ : out = c0*A0 + c1*A1 + ..., isherm = AND over the
   terms of (<bint> A_k._isherm and c_k real), reported as `isherm or None` *)
Section QobjEvoCall.
Variable n : nat.
(* a term: coefficient value, operator, cached flag of the operator, and
   the outcome of the test `coeff.imag == 0` *)
Definition qterm := (R * 'M[R]_n * pyval * bool)%type.
Definition qt_ok (t : qterm) : Prop :=
  let '(c, A, f, r) := t in sound_h f A /\ (r -> conj c = c).
Definition qt_val (t : qterm) : 'M[R]_n := let '(c, A, _, _) := t in c *: A.
Definition qt_env (acc : pyval) (t : qterm) : fenv :=
  let '(_, _, f, r) := t in mkenv acc PNone f PNone r false.
Fixpoint all_ok (ts : seq qterm) : Prop :=
  if ts is t :: ts' then qt_ok t /\ all_ok ts' else True.

Definition qevo_loop (acc : pyval * 'M[R]_n) (ts : seq qterm) : pyval * 'M[R]_n :=
  foldl (fun a t => (qevo_step_herm (qt_env a.1 t), a.2 + qt_val t)) acc ts.

Definition qevo_call (t0 : qterm) (ts : seq qterm) : pyval * 'M[R]_n :=
  let a := qevo_loop (qevo_init_herm (qt_env PNone t0), qt_val t0) ts in
  (qevo_final_herm (mkenv a.1 PNone PNone PNone false false), a.2).

Lemma truthy_py_and a b : truthy (py_and a b) = truthy a && truthy b.
Proof. by case: a=> [|[]]; case: b=> [|[]]. Qed.

Lemma qevo_loop_sound ts : forall acc S,
  (truthy acc -> is_herm S) -> all_ok ts ->
  truthy (qevo_loop (acc, S) ts).1 -> is_herm (qevo_loop (acc, S) ts).2.
Proof.
elim: ts=> [|t ts IH] acc S Hacc /=; first by move=> _.
move=> [Ht Hts]; apply: IH=> //.
case: t Ht {Hts}=> [[[c A] f] r] /= [Hs Hr].
rewrite /qevo_step_herm !truthy_py_and /= => /andP [Ha /andP [Hf Hreal]].
apply: herm_add; first exact: (Hacc Ha).
case: f Hs Hf=> [|[]] //= Hs _.
case: r Hr Hreal=> //= Hr _.
by apply: herm_scale=> //; apply: Hr.
Qed.

Lemma qevo_first_sound c (A : 'M[R]_n) f (r : bool) :
  sound_h f A -> (r -> conj c = c) ->
  truthy (qevo_init_herm (mkenv PNone PNone f PNone r false)) -> is_herm (c *: A).
Proof.
move=> Hs Hr; rewrite /qevo_init_herm truthy_py_and /= => /andP [Hf Hreal].
case: f Hs Hf=> [|[]] //= Hs _.
case: r Hr Hreal=> //= Hr _.
by apply: herm_scale=> //; apply: Hr.
Qed.

(* the flag attached by QobjEvo.__call__ never contradicts the evaluated
   operator (it is True or None) *)
Lemma qevo_call_sound t0 ts : qt_ok t0 -> all_ok ts ->
  sound_h (qevo_call t0 ts).1 (qevo_call t0 ts).2.
Proof.
case: t0=> [[[c A] f] r] /= [Hs Hr] Hts; rewrite /qevo_call /qevo_final_herm /=.
have Ha := @qevo_loop_sound ts _ _ (qevo_first_sound Hs Hr) Hts.
move: Ha; set a := qevo_loop _ ts => Ha.
rewrite /py_or; case E: (truthy a.1)=> //=.
by case: (a.1) E Ha=> [|[]] //= _ Ha; apply: Ha.
Qed.
End QobjEvoCall.

End Sound.
