(* C05 - the structure [Alg] of Model/C05.v is inhabited by the n x n matrices
   over ANY commutative ring with an involutive ring morphism (MathComp
   matrices), for every n.  Hence every theorem of Props/C05.v applies to
   square matrices of every size over such a ring (complex numbers with
   conjugation being the intended reading), not only to the 2x2 execution
   instance. *)
From mathcomp Require Import all_ssreflect all_algebra.
From Coq Require Import Ring.
From QV Require Import Model.C05.
Set Implicit Arguments.
Unset Strict Implicit.
Unset Printing Implicit Defensive.
Import GRing.Theory.
Local Open Scope ring_scope.

Section MxAlg.
Variable R : comRingType.
Variable conj : {rmorphism R -> R}.
Hypothesis conjK : involutive conj.
Variable n : nat.

Lemma comRing_ring_theory :
  ring_theory (0 : R) 1 +%R *%R (fun x y => x - y) -%R eq.
Proof.
constructor.
- exact: add0r.
- exact: addrC.
- exact: addrA.
- exact: mul1r.
- exact: mulrC.
- exact: mulrA.
- exact: mulrDl.
- by [].
- exact: subrr.
Qed.

Definition MxAlg : Alg.
Proof.
refine {| C := R; c0 := 0; c1 := 1; cadd := +%R; cmul := *%R;
          csub := (fun x y => x - y); copp := -%R;
          Cring := comRing_ring_theory; cconj := conj; cconj_inv := conjK;
          M := 'M[R]_n; m0 := 0; mI := 1%:M; madd := +%R; mmul := mulmx;
          mscale := (fun z A => z *: A);
          mtrans := trmx; mconj := map_mx conj; mdag := (fun A => (map_mx conj A)^T);
          mtr := mxtrace; meqb := (fun A B => A == B) |}.
- by move=> z w; rewrite rmorphD.
- exact: rmorph1.
- exact: addrC.
- by move=> a b c; rewrite addrA.
- exact: add0r.
- exact: scale1r.
- exact: scale0r.
- by move=> z w a; rewrite scalerA.
- exact: scalerDr.
- by move=> z w a; rewrite scalerDl.
- by move=> z a b; rewrite scalemxAl.
- by move=> z a b; rewrite scalemxAr.
- exact: mulmxDl.
- exact: mulmxDr.
- by move=> a b x; rewrite mulmxA.
- exact: mulmx1.
- exact: mxtraceD.
- exact: mxtraceZ.
- by move=> a b; rewrite linearD.
- by move=> z a; rewrite linearZ.
- exact: map_mxD.
- exact: map_mxZ.
- by move=> a b; rewrite map_mxD linearD.
- by move=> z a; rewrite map_mxZ linearZ.
- by move=> a b /eqP.
Defined.

End MxAlg.
