(* Proofs for Model/C12_nm.v: the trajectory-level run code of mcsolve /
   nm_mcsolve (closed form of the result, trace alignment), the composition
   with the NmmcResult model of C15 (Model/C15_nm.v: runs_trace), and the
   index structure of MultiTrajResult.steady_state. *)
From Coq Require Import List ZArith QArith Qcanon Bool Arith Lia.
Import ListNotations.
From QV Require Import Model.C12 Proofs.C12 Model.C12_nm.
From QV Require Model.C15 Model.C15_nm.

Section NmProofs.
  Variables T S V N D W C M : Type.
  Variable expectQ : Z -> S -> V.
  Variable expectE : Z -> T -> S -> V.
  Variable callF : Z -> T -> S -> V.
  Variable rho : S -> S.
  Variable conv : S -> T -> S.
  Variable IS : Type.
  Variable restore : D -> S.
  Variable set_state : T -> D -> IS.
  Variable integrate : IS -> T -> IS * (T * D * option N).
  Variable zero_like : S -> S.
  Variable collapses : D -> list T -> list C.
  Variable wzero : W.
  Variable wscale : W -> bool -> W.
  Variable wone : W.
  Variable mart : list C -> T -> M.

  Local Notation spec := (spec T S V N expectQ expectE callF rho conv).
  Local Notation base_run :=
    (base_run T S V N D expectQ expectE callF rho conv IS restore set_state integrate).
  Local Notation mc_run :=
    (mc_run_one_traj T S V N D W C M expectQ expectE callF rho conv IS restore set_state
       integrate zero_like collapses wzero wscale wone).
  Local Notation nm_run :=
    (nm_run_one_traj T S V N D W C M expectQ expectE callF rho conv IS restore set_state
       integrate zero_like collapses wzero wscale wone mart).

  Definition traj_points (d0 : D) (t0 : T) (rest : list T) : list (T * S * option N) :=
    (t0, restore d0, None)
      :: map (out_point T S N D restore) (integ_run T N D IS integrate (set_state t0 d0) rest).

  Definition dark_points (d0 : D) (tlist : list T) : list (T * S * option N) :=
    map (fun t => (t, zero_like (restore d0), None)) tlist.

  Lemma base_run_spec : forall o e d0 t0 rest r,
    base_run o e d0 (t0 :: rest) = Ok r -> r = spec CResult o e [] (traj_points d0 t0 rest).
  Proof.
    intros o e d0 t0 rest r H. unfold Model.C12_nm.base_run in H.
    destruct (new_result T S V N CResult o e []) as [r0|x] eqn:E; [|discriminate].
    injection H as H. subst r.
    rewrite (new_result_spec T S V N expectQ expectE callF rho conv _ _ _ _ _ E).
    change (add T S V N expectQ expectE callF rho conv (spec CResult o e [] []) t0 (restore d0) None)
      with (add T S V N expectQ expectE callF rho conv (spec CResult o e [] [])
              (pt_time T S N (t0, restore d0, @None N)) (pt_raw T S N (t0, restore d0, @None N))
              (snd (t0, restore d0, @None N))).
    rewrite add_spec, adds_spec_from. reflexivity.
  Qed.

  Lemma base_run_errors : forall o e d0 tlist,
    (forallb op_ok (map snd (e_ops_to_dict e)) = false -> base_run o e d0 tlist = Raise TypeError)
    /\ (forallb op_ok (map snd (e_ops_to_dict e)) = true -> base_run o e d0 [] = Raise IndexError).
  Proof.
    intros o e d0 tlist. split; intros H; unfold Model.C12_nm.base_run.
    - rewrite (new_result_bad_eop T S V N CResult o e [] H). reflexivity.
    - rewrite (new_result_ok T S V N expectQ expectE callF rho conv CResult o e [] H)
        by (intros U; discriminate). reflexivity.
  Qed.

  (* the points behind a trajectory result *)
  Definition run_pts (dark : bool) (d0 : D) (tlist : list T) : list (T * S * option N) :=
    if dark then dark_points d0 tlist
    else match tlist with [] => [] | t0 :: rest => traj_points d0 t0 rest end.

  Lemma mc_run_spec : forall dark fl o e d0 tlist tr,
    mc_run dark fl o e d0 tlist = Ok tr ->
    tr_result _ _ _ _ _ _ _ tr = spec CResult o e [] (run_pts dark d0 tlist)
    /\ tr_collapse _ _ _ _ _ _ _ tr = (if dark then [] else collapses d0 tlist)
    /\ tr_weight _ _ _ _ _ _ _ tr = (if dark then wzero else wscale wone fl)
    /\ tr_trace _ _ _ _ _ _ _ tr = None
    /\ (dark = false -> tlist <> []).
  Proof.
    intros dark fl o e d0 tlist tr H. unfold Model.C12_nm.mc_run_one_traj in H.
    destruct dark.
    - destruct (new_result T S V N CResult o e []) as [r0|x] eqn:E; [|discriminate].
      injection H as H. subst tr. cbn [tr_result tr_collapse tr_weight tr_trace run_pts].
      rewrite (adds_spec T S V N expectQ expectE callF rho conv _ _ _ _ _ _ E).
      repeat split; try reflexivity. discriminate.
    - destruct (base_run o e d0 tlist) as [r|x] eqn:E; [|discriminate].
      injection H as H. subst tr. cbn [tr_result tr_collapse tr_weight tr_trace run_pts].
      destruct tlist as [|t0 rest].
      + unfold Model.C12_nm.base_run in E.
        destruct (new_result T S V N CResult o e []); discriminate.
      + rewrite (base_run_spec _ _ _ _ _ _ E). repeat split; try reflexivity. discriminate.
  Qed.

  Lemma run_pts_length : forall dark d0 tlist, (dark = false -> tlist <> []) ->
    length (run_pts dark d0 tlist) = length tlist.
  Proof.
    intros dark d0 tlist H. unfold run_pts, dark_points, traj_points. destruct dark.
    - apply map_length.
    - destruct tlist as [|t0 rest]; [exfalso; apply (H eq_refl); reflexivity|].
      simpl. rewrite map_length, integ_run_length. reflexivity.
  Qed.

  Lemma run_pts_times : forall dark d0 tlist, (dark = false -> tlist <> []) ->
    (dark = false -> forall j t, fst (fst (snd (integrate j t))) = t) ->
    map (pt_time T S N) (run_pts dark d0 tlist) = tlist.
  Proof.
    intros dark d0 tlist H Ht. unfold run_pts, dark_points, traj_points. destruct dark.
    - rewrite map_map. unfold pt_time. cbn [fst]. apply map_id.
    - destruct tlist as [|t0 rest]; [exfalso; apply (H eq_refl); reflexivity|].
      cbn [map]. unfold pt_time at 1. cbn [fst]. f_equal. rewrite map_map.
      rewrite <- (integ_run_times T N D IS integrate rest (set_state t0 d0) (Ht eq_refl)) at 2.
      apply map_ext. intros x. reflexivity.
  Qed.

  Lemma nm_run_spec : forall prev dark fl o e d0 tlist tr,
    nm_run prev dark fl o e d0 tlist = Ok tr ->
    exists tr0, mc_run dark fl o e d0 tlist = Ok tr0
      /\ tr_result _ _ _ _ _ _ _ tr = tr_result _ _ _ _ _ _ _ tr0
      /\ tr_collapse _ _ _ _ _ _ _ tr = tr_collapse _ _ _ _ _ _ _ tr0
      /\ tr_weight _ _ _ _ _ _ _ tr = tr_weight _ _ _ _ _ _ _ tr0
      /\ tr_trace _ _ _ _ _ _ _ tr
         = Some (map (mart (if dark then prev else tr_collapse _ _ _ _ _ _ _ tr0)) tlist).
  Proof.
    intros prev dark fl o e d0 tlist tr H. unfold Model.C12_nm.nm_run_one_traj in H.
    destruct (mc_run dark fl o e d0 tlist) as [tr0|x] eqn:E; [|discriminate].
    injection H as H. subst tr. exists tr0. repeat split; reflexivity.
  Qed.
End NmProofs.

(* --------------------------------------------- composition with C15's NmmcResult
   the traces handed to NmmcResult.add are the trajectory traces: with
   keep_runs_results, runs_trace[i] is the trace of the i-th sampled
   trajectory (deterministic ones are not listed) *)
Inductive nm_event := NmAdd (t : C15_nm.ntraj) (w : Qc) | NmDet (t : C15_nm.ntraj) (w : Qc).

Definition nm_step (o : C15_nm.nobj) (ev : nm_event) : C15_nm.nobj :=
  match ev with NmAdd t w => C15_nm.nadd o t w | NmDet t w => C15_nm.nadd_det o t w end.

Definition sampled (evs : list nm_event) : list C15_nm.ntraj :=
  flat_map (fun ev => match ev with NmAdd t _ => [t] | NmDet _ _ => [] end) evs.

Lemma nm_fold_runs_trace : forall evs o,
  C15_nm.q_keep (fold_left nm_step evs o) = C15_nm.q_keep o
  /\ C15_nm.q_runs_trace (fold_left nm_step evs o)
     = C15_nm.q_runs_trace o ++ (if C15_nm.q_keep o then map C15_nm.n_tr (sampled evs) else []).
Proof.
  induction evs as [|ev evs IH]; intros o; simpl.
  - split; [reflexivity|]. destruct (C15_nm.q_keep o); rewrite app_nil_r; reflexivity.
  - destruct (IH (nm_step o ev)) as [K R]. rewrite K, R. destruct ev as [t w|t w]; simpl.
    + split; [reflexivity|]. destruct (C15_nm.q_keep o); simpl.
      * rewrite <- app_assoc. reflexivity.
      * reflexivity.
    + split; reflexivity.
Qed.

Lemma nm_runs_trace : forall keep evs,
  C15_nm.q_runs_trace (fold_left nm_step evs (C15_nm.nnew keep))
  = if keep then map C15_nm.n_tr (sampled evs) else [].
Proof.
  intros keep evs. destruct (nm_fold_runs_trace evs (C15_nm.nnew keep)) as [_ R].
  rewrite R. reflexivity.
Qed.

(* ------------------------------------------------------------ steady_state *)
Local Open Scope Z_scope.

Definition zsum (l : list Z) : Z := fold_right Z.add 0 l.

Lemma steady_last_N : forall (l : list Z) (N : Z),
  0 < N <= Z.of_nat (length l) ->
  steady_state (length l) (Some l) N
  = SSValue (zsum (skipn (length l - Z.to_nat N) l)) N.
Proof.
  intros l N [A B]. unfold steady_state.
  assert (E1 : (N =? 0) = false) by (apply Z.eqb_neq; lia). rewrite E1.
  assert (E2 : (Z.of_nat (length l) <? N) = false) by (apply Z.ltb_ge; lia). rewrite E2, E1.
  unfold slice_last. rewrite E1.
  assert (E3 : (0 <? N) = true) by (apply Z.ltb_lt; lia). rewrite E3. reflexivity.
Qed.

Lemma steady_all : forall (l : list Z) (N : Z), l <> [] ->
  (N = 0 \/ Z.of_nat (length l) < N) ->
  steady_state (length l) (Some l) N = SSValue (zsum l) (Z.of_nat (length l)).
Proof.
  intros l N Hl H. unfold steady_state.
  assert (Lp : 0 < Z.of_nat (length l)) by (destruct l; [contradiction|simpl; lia]).
  assert (Q : (if N =? 0 then Z.of_nat (length l) else N) = Z.of_nat (length l)
              \/ Z.of_nat (length l) < (if N =? 0 then Z.of_nat (length l) else N)).
  { destruct H as [H|H].
    - subst N. left. reflexivity.
    - right. assert (E : (N =? 0) = false) by (apply Z.eqb_neq; lia). rewrite E. exact H. }
  assert (R : (if Z.of_nat (length l) <? (if N =? 0 then Z.of_nat (length l) else N)
               then Z.of_nat (length l) else (if N =? 0 then Z.of_nat (length l) else N))
              = Z.of_nat (length l)).
  { destruct Q as [Q|Q].
    - rewrite Q, Z.ltb_irrefl. reflexivity.
    - apply Z.ltb_lt in Q. rewrite Q. reflexivity. }
  rewrite R.
  assert (E1 : (Z.of_nat (length l) =? 0) = false) by (apply Z.eqb_neq; lia). rewrite E1.
  unfold slice_last. rewrite E1.
  assert (E3 : (0 <? Z.of_nat (length l)) = true) by (apply Z.ltb_lt; lia). rewrite E3.
  rewrite Nat2Z.id, Nat.sub_diag. reflexivity.
Qed.

Lemma steady_negative : forall (nt : nat) (l : list Z) (N : Z), N < 0 ->
  steady_state nt (Some l) N = SSValue (zsum (skipn (Z.to_nat (- N)) l)) N.
Proof.
  intros nt l N H. unfold steady_state.
  assert (E1 : (N =? 0) = false) by (apply Z.eqb_neq; lia). rewrite E1.
  assert (E2 : (Z.of_nat nt <? N) = false) by (apply Z.ltb_ge; lia). rewrite E2, E1.
  unfold slice_last. rewrite E1.
  assert (E3 : (0 <? N) = false) by (apply Z.ltb_ge; lia). rewrite E3. reflexivity.
Qed.

Lemma steady_none : forall nt N, steady_state nt None N = SSNone.
Proof. reflexivity. Qed.

Lemma steady_no_times : forall l, steady_state 0 (Some l) 0 = SSZeroDiv.
Proof. reflexivity. Qed.

Lemma nth_skipn_z : forall (n : nat) (l : list Z) (j : nat),
  nth j (skipn n l) 0 = nth (n + j) l 0.
Proof.
  induction n as [|n IH]; intros l j; [reflexivity|].
  destruct l as [|x l]; [destruct j; reflexivity|]. simpl. apply IH.
Qed.

(* the window really is the last N entries *)
Lemma skipn_last_window : forall (l : list Z) (k : nat), (k <= length l)%nat ->
  length (skipn (length l - k) l) = k
  /\ forall j, (j < k)%nat -> nth j (skipn (length l - k) l) 0 = nth (length l - k + j) l 0.
Proof.
  intros l k H. split.
  - rewrite skipn_length. lia.
  - intros j Hj. apply nth_skipn_z.
Qed.
