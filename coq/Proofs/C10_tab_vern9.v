(* C10 - computed facts about the Verner 9(8) tableau that involve the kernel
   model (symbolic run: Taylor coefficients, dense output); cheap.  The tree
   order conditions are in Proofs/C10_tab_vern9_trees.v. *)
From Coq Require Import List ZArith QArith Bool.
Import ListNotations.
From QV Require Import Gen.C10_tab_vern9 Model.C10_trees Model.C10.
From QV Require Export Proofs.C10_tab_vern9_trees.

Definition v9_tb := dy_tableau vern9_a vern9_b vern9_c vern9_bi.

Lemma vern9_taylor : taylor_close 40 done 9 (stab_poly v9_tb done) = true.
Proof. vm_cast_no_check (eq_refl true). Qed.
Lemma vern9_taylor_sharp : taylor_close 40 done 10 (stab_poly v9_tb done) = false.
Proof. vm_cast_no_check (eq_refl false). Qed.

Lemma vern9_theta1 : theta1_ok 36 v9_tb = true.
Proof. vm_cast_no_check (eq_refl true). Qed.

(* dense output of the linear problem at theta = 1/2, 1/4, 3/4: Taylor
   coefficients of exp(theta x) through x^8 *)
Lemma vern9_dense_taylor :
  forallb (fun tau => taylor_close 30 tau 8 (dense_poly v9_tb done tau))
          [(1, 1); (1, 2); (3, 2); (1, 0)]%Z = true.
Proof. vm_cast_no_check (eq_refl true). Qed.
