(* C11 - proofs about the aliasing model. *)
From Coq Require Import List ZArith Bool Arith Lia.
Import ListNotations.
From QV Require Import Model.C11_alias.

Section AliasProofs.
  Variable V : Type.
  Variable dflt : V.
  Notation ast := (ast V).
  Notation hget := (hget V dflt).
  (* the source: copy = true *)
  Notation a_do := (a_do V dflt true).
  Notation a_run := (a_run V dflt true).

  (* no memo entry is the integrator's working object; ids are fresh *)
  Definition AInv (s : ast) : Prop :=
    ~ In (a_buf s) (a_memo s) /\ a_buf s < a_next s /\
    forall id, In id (a_memo s) -> id < a_next s.

  Lemma hget_cons_other h i v id : id <> i -> hget ((i, v) :: h) id = hget h id.
  Proof. intros H. simpl. destruct (Nat.eqb id i) eqn:E; [apply Nat.eqb_eq in E; congruence|reflexivity]. Qed.

  Lemma in_remove (l : list nat) i x : In x (firstn i l ++ skipn (S i) l) -> In x l.
  Proof.
    intros H. apply in_app_or in H. rewrite <- (firstn_skipn i l). apply in_or_app.
    destruct H as [H|H]; [left; exact H|right].
    destruct (skipn i l) as [|y r] eqn:E.
    - assert (skipn (S i) l = []).
      { clear H. revert l E. induction i; intros l E; destruct l; simpl in *; try reflexivity; try discriminate. apply IHi. exact E. }
      rewrite H0 in H. exact H.
    - assert (skipn (S i) l = r).
      { clear H. revert l E. induction i; intros l E; destruct l; simpl in *; try discriminate.
        - injection E as _ <-. reflexivity.
        - apply IHi. exact E. }
      rewrite H0 in H. right. exact H.
  Qed.

  (* one operation: the invariant is kept and every object already in the memo
     keeps its content *)
  Lemma a_do_spec s o : AInv s ->
    AInv (a_do s o) /\
    forall id, In id (a_memo s) -> hget (a_heap (a_do s o)) id = hget (a_heap s) id.
  Proof.
    intros (Hb & Hlt & Hm). destruct o as [src v0|f ins|v ins|i]; simpl.
    - split.
      + split; [|split]; simpl.
        * intros Hin. specialize (Hm _ Hin). lia.
        * lia.
        * intros id Hin. specialize (Hm _ Hin). lia.
      + intros id Hin. apply hget_cons_other. specialize (Hm _ Hin). lia.
    - assert (Hstab : forall id, In id (a_memo s) ->
                hget ((a_next s, f (hget (a_heap s) (a_buf s))) ::
                      (a_buf s, f (hget (a_heap s) (a_buf s))) :: a_heap s) id = hget (a_heap s) id).
      { intros id Hin. rewrite hget_cons_other by (specialize (Hm _ Hin); lia).
        apply hget_cons_other. intros ->. exact (Hb Hin). }
      destruct ins; simpl; (split; [|exact Hstab]); (split; [|split]); simpl.
      + intros [E|Hin]; [lia|exact (Hb Hin)].
      + lia.
      + intros id [E|Hin]; [lia|specialize (Hm _ Hin); lia].
      + exact Hb.
      + lia.
      + intros id Hin. specialize (Hm _ Hin). lia.
    - assert (Hstab : forall id, In id (a_memo s) ->
                hget ((a_next s, v) :: a_heap s) id = hget (a_heap s) id).
      { intros id Hin. apply hget_cons_other. specialize (Hm _ Hin). lia. }
      destruct ins; simpl; (split; [|exact Hstab]); (split; [|split]); simpl.
      + intros [E|Hin]; [lia|exact (Hb Hin)].
      + lia.
      + intros id [E|Hin]; [lia|specialize (Hm _ Hin); lia].
      + exact Hb.
      + lia.
      + intros id Hin. specialize (Hm _ Hin). lia.
    - split; [|reflexivity]. split; [|split]; simpl.
      + intros Hin. apply Hb. eapply in_remove; exact Hin.
      + lia.
      + intros id Hin. apply Hm. eapply in_remove; exact Hin.
  Qed.

  Lemma a_init_inv one : AInv (a_init V one).
  Proof.
    unfold AInv. simpl. split; [|split].
    - intros [H|H]; [discriminate|exact H].
    - lia.
    - intros id [<-|H]; [lia|contradiction].
  Qed.

  Lemma a_run_inv ops : forall s, AInv s -> AInv (a_run s ops).
  Proof.
    induction ops as [|o r IH]; intros s H; simpl; [exact H|].
    apply IH. exact (proj1 (a_do_spec s o H)).
  Qed.

  (* an object that is in the memo after a first history and still there
     after a second one has the content it had *)
  Lemma a_run_stable ops : forall s, AInv s ->
    forall id, In id (a_memo s) -> In id (a_memo (a_run s ops)) ->
    (forall k, k <= length ops -> In id (a_memo (a_run s (firstn k ops)))) ->
    hget (a_heap (a_run s ops)) id = hget (a_heap s) id.
  Proof.
    induction ops as [|o r IH]; intros s HI id Hin Hend Hall; simpl; [reflexivity|].
    destruct (a_do_spec s o HI) as [HI1 Hst].
    assert (Hin1 : In id (a_memo (a_do s o))) by (apply (Hall 1); simpl; lia).
    rewrite (IH (a_do s o) HI1 id Hin1 Hend).
    - apply Hst. exact Hin.
    - intros k Hk. apply (Hall (S k)). simpl. lia.
  Qed.
End AliasProofs.
