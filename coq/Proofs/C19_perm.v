(* Proofs for C19, part 4: re-ordering the exponents induces a bijection of
   the ADO labels that preserves validity and the decay term of every ADO. *)
From Coq Require Import List ZArith Bool Arith Lia Permutation Ring.
Import ListNotations.
From QV Require Import Model.C19 Proofs.C19.

(* permute (Model/C19.v): position j of the new list is position pi[j] of the old one *)

Lemma map_nth_seq {A} (d : A) (l : list A) :
  map (fun j => nth j l d) (seq 0 (length l)) = l.
Proof.
  induction l as [|a l IH]; simpl; [reflexivity|]. f_equal.
  rewrite <- seq_shift, map_map. exact IH.
Qed.

Lemma lsum_perm a b : Permutation a b -> lsum a = lsum b.
Proof. induction 1; simpl; lia. Qed.

Lemma lsum_permute pi n :
  Permutation pi (seq 0 (length n)) -> lsum (permute 0 pi n) = lsum n.
Proof.
  intros P. unfold permute.
  rewrite (lsum_perm _ _ (Permutation_map (fun j => nth j n 0) P)).
  now rewrite map_nth_seq.
Qed.

Lemma nth_permute (pi : list nat) (l : list nat) k :
  k < length pi -> nth k (permute 0 pi l) 0 = nth (nth k pi 0) l 0.
Proof.
  intros Hk. unfold permute.
  rewrite (nth_indep _ 0 ((fun j => nth j l 0) 0)) by (rewrite map_length; assumption).
  exact (map_nth (fun j => nth j l 0) pi 0 k).
Qed.

Lemma perm_range pi len k :
  Permutation pi (seq 0 len) -> k < length pi -> nth k pi 0 < len.
Proof.
  intros P Hk. assert (In (nth k pi 0) (seq 0 len)).
  { eapply Permutation_in; [exact P|]. now apply nth_In. }
  apply in_seq in H. lia.
Qed.

Lemma perm_onto pi len j :
  Permutation pi (seq 0 len) -> j < len -> exists k, k < length pi /\ nth k pi 0 = j.
Proof.
  intros P Hj. assert (In j pi).
  { eapply Permutation_in; [apply Permutation_sym; exact P|]. apply in_seq. lia. }
  destruct (In_nth _ _ 0 H) as (k & Hk & E). now exists k.
Qed.

Lemma valid_permute dims D pi n :
  Permutation pi (seq 0 (length dims)) -> length n = length dims ->
  (valid dims D n <-> valid (permute 0 pi dims) D (permute 0 pi n)).
Proof.
  intros P Hl.
  assert (Hlp : length pi = length dims)
    by (rewrite (Permutation_length P); apply seq_length).
  split.
  - intros (_ & Hb & Hs). split; [|split].
    + unfold permute. now rewrite !map_length.
    + intros k Hk. unfold permute in Hk. rewrite map_length in Hk.
      rewrite !nth_permute by assumption. apply Hb.
      eapply perm_range; eassumption.
    + rewrite lsum_permute; [assumption|]. now rewrite Hl.
  - intros (_ & Hb & Hs). split; [assumption|split].
    + intros j Hj. destruct (perm_onto pi _ j P Hj) as (k & Hk & E).
      specialize (Hb k). unfold permute in Hb at 1. rewrite map_length in Hb.
      specialize (Hb Hk). rewrite !nth_permute in Hb by assumption. now rewrite E in Hb.
    + rewrite lsum_permute in Hs; [assumption|]. now rewrite Hl.
Qed.

Lemma permute_inj pi len (n n' : label) :
  Permutation pi (seq 0 len) -> length n = len -> length n' = len ->
  permute 0 pi n = permute 0 pi n' -> n = n'.
Proof.
  intros P L1 L2 E. apply (nth_ext _ _ 0 0); [congruence|].
  intros j Hj. rewrite L1 in Hj. destruct (perm_onto pi len j P Hj) as (k & Hk & <-).
  rewrite <- !nth_permute by assumption. now rewrite E.
Qed.

(* the zero label is fixed, so rho_0 stays in place *)
Lemma permute_zero pi m :
  (forall j, In j pi -> j < m) -> permute 0 pi (repeat 0 m) = repeat 0 (length pi).
Proof.
  intros H. unfold permute. induction pi as [|j pi IH]; simpl; [reflexivity|].
  rewrite nth_repeat. f_equal. apply IH. intros x Hx. apply H. now right.
Qed.

Section Ring.
Variable C : Type.
Variables (c0 c1 : C) (cadd cmul : C -> C -> C) (cneg : C -> C).
Hypothesis Rth : ring_theory c0 c1 cadd cmul (fun a b => cadd a (cneg b)) cneg eq.
Add Ring Cring2 : Rth.

Lemma fold_left_cadd_perm (l l' : list C) :
  Permutation l l' -> forall acc, fold_left cadd l acc = fold_left cadd l' acc.
Proof.
  induction 1 as [|x l l' P IH|x y l|l l' l'' P1 IH1 P2 IH2]; intros acc; simpl.
  - reflexivity.
  - apply IH.
  - f_equal. ring.
  - now rewrite IH1.
Qed.

Lemma combine_permute {A B} (da : A) (db : B) pi (a : list A) (b : list B) :
  length a = length b -> (forall j, In j pi -> j < length a) ->
  combine (permute da pi a) (permute db pi b) = permute (da, db) pi (combine a b).
Proof.
  intros Hl Hr. unfold permute. induction pi as [|j pi IH]; simpl; [reflexivity|].
  rewrite IH by (intros x Hx; apply Hr; now right). f_equal.
  rewrite combine_nth by assumption. reflexivity.
Qed.

(* the decay term  sum_k n_k v_k  of an ADO is the same for the re-ordered
   exponent list and the re-ordered label *)
Lemma vk_sum_permute (d : bexp C) pi (exps : list (bexp C)) (n : label) :
  Permutation pi (seq 0 (length exps)) -> length n = length exps ->
  vk_sum C c0 c1 cadd cmul (permute d pi exps) (permute 0 pi n) =
  vk_sum C c0 c1 cadd cmul exps n.
Proof.
  intros P Hl. unfold vk_sum.
  assert (Hr : forall j, In j pi -> j < length n).
  { intros j Hj. rewrite Hl. assert (In j (seq 0 (length exps))) by (eapply Permutation_in; eassumption).
    apply in_seq in H. lia. }
  rewrite combine_permute by assumption.
  apply fold_left_cadd_perm. apply Permutation_map.
  unfold permute.
  assert (P' : Permutation pi (seq 0 (length (combine n exps))))
    by (rewrite combine_length, Hl, Nat.min_id; exact P).
  pose proof (Permutation_map (fun j => nth j (combine n exps) (0, d)) P') as PM.
  rewrite map_nth_seq in PM. exact PM.
Qed.
End Ring.

(* ---------------------------------------- part 4b: the generator blocks *)
Lemma perm_NoDup pi len : Permutation pi (seq 0 len) -> NoDup pi.
Proof. intros P. eapply Permutation_NoDup; [apply Permutation_sym; exact P|apply seq_NoDup]. Qed.

Lemma permute_length {A} (d : A) pi l : length (permute d pi l) = length pi.
Proof. unfold permute. apply map_length. Qed.

Lemma permute_set_at pi (n : label) j x :
  NoDup pi -> j < length pi -> (forall i, In i pi -> i < length n) ->
  permute 0 pi (set_at n (nth j pi 0) x) = set_at (permute 0 pi n) j x.
Proof.
  intros ND Hj Hr.
  assert (Hpj : nth j pi 0 < length n) by (apply Hr, nth_In; assumption).
  apply (nth_ext _ _ 0 0).
  - rewrite length_set_at by (rewrite permute_length; assumption).
    now rewrite !permute_length.
  - intros i Hi. rewrite permute_length in Hi.
    rewrite nth_permute by assumption.
    rewrite !nth_set_at by (try rewrite permute_length; assumption).
    rewrite nth_permute by assumption.
    destruct (Nat.eq_dec i j) as [->|Hne].
    + now rewrite !Nat.eqb_refl.
    + replace (i =? j) with false by (symmetry; now apply Nat.eqb_neq).
      replace (nth i pi 0 =? nth j pi 0) with false; [reflexivity|].
      symmetry. apply Nat.eqb_neq. intros E. apply Hne.
      apply (proj1 (NoDup_nth pi 0) ND); assumption.
Qed.

Lemma next_permute dims D pi (n : label) j :
  Permutation pi (seq 0 (length dims)) -> length n = length dims -> j < length dims ->
  ados_next (permute 0 pi dims) D (permute 0 pi n) j =
  option_map (permute 0 pi) (ados_next dims D n (nth j pi 0)).
Proof.
  intros P Hl Hj.
  assert (Hlp : length pi = length dims) by (rewrite (Permutation_length P); apply seq_length).
  assert (Hr : forall i, In i pi -> i < length n).
  { intros i Hi. rewrite Hl. assert (In i (seq 0 (length dims))) by (eapply Permutation_in; eassumption).
    apply in_seq in H. lia. }
  unfold ados_next. rewrite !nth_permute by lia.
  rewrite lsum_permute by (now rewrite Hl).
  destruct (nth (nth j pi 0) dims 0 - 1 <=? nth (nth j pi 0) n 0); [reflexivity|].
  destruct (D <=? lsum n); [reflexivity|]. simpl. f_equal. symmetry.
  apply permute_set_at; [eapply perm_NoDup; eassumption|lia|assumption].
Qed.

Lemma prev_permute len pi (n : label) j :
  Permutation pi (seq 0 len) -> length n = len -> j < len ->
  ados_prev (permute 0 pi n) j = option_map (permute 0 pi) (ados_prev n (nth j pi 0)).
Proof.
  intros P Hl Hj.
  assert (Hlp : length pi = len) by (rewrite (Permutation_length P); apply seq_length).
  assert (Hr : forall i, In i pi -> i < length n).
  { intros i Hi. rewrite Hl. assert (In i (seq 0 len)) by (eapply Permutation_in; eassumption).
    apply in_seq in H. lia. }
  unfold ados_prev. rewrite !nth_permute by lia.
  destruct (nth (nth j pi 0) n 0 <=? 0); [reflexivity|]. simpl. f_equal. symmetry.
  apply permute_set_at; [eapply perm_NoDup; eassumption|lia|assumption].
Qed.

Section Coefs.
Variable C : Type.
Variables (c0 c1 : C) (cadd cmul : C -> C -> C) (cneg : C -> C) (ci : C) (cconj : C -> C).
Notation bexp := (bexp C).
Notation nthe := (nthe C c0).
Notation dflt := (dflt C c0).

Lemma nthe_permute pi (exps : list bexp) j :
  j < length pi -> nthe (permute dflt pi exps) j = nthe exps (nth j pi 0).
Proof.
  intros Hj. unfold Model.C19.nthe, permute.
  rewrite (nth_indep _ dflt ((fun i => nth i exps dflt) 0)) by (rewrite map_length; assumption).
  exact (map_nth (fun i => nth i exps dflt) pi 0 j).
Qed.

Lemma heom_dims_permute pi (exps : list bexp) D :
  (forall i, In i pi -> i < length exps) ->
  heom_dims C (permute dflt pi exps) D = permute 0 pi (heom_dims C exps D).
Proof.
  intros Hr. unfold heom_dims, ados_dims, permute. rewrite !map_map.
  apply map_ext_in. intros i Hi. specialize (Hr i Hi).
  rewrite (nth_indep _ 0 ((fun e => ados_dim D (e_dim C e)) dflt)) by (rewrite map_length; assumption).
  symmetry. exact (map_nth (fun e => ados_dim D (e_dim C e)) exps dflt i).
Qed.

Lemma nthe_bos (exps : list bexp) j :
  Forall (fun e => fermionic (e_type C e) = false) exps ->
  fermionic (e_type C (nthe exps j)) = false.
Proof.
  intros H. unfold Model.C19.nthe. revert j. induction H as [|e l He Hl IH]; intros [|j]; simpl; auto.
Qed.

Lemma grad_next_permute pi (exps : list bexp) n n' j odd :
  Forall (fun e => fermionic (e_type C e) = false) exps -> j < length pi ->
  grad_next C c0 c1 cmul cneg ci exps n (nth j pi 0) odd =
  option_map (ren (fun i => nth i pi 0))
             (grad_next C c0 c1 cmul cneg ci (permute dflt pi exps) n' j odd).
Proof.
  intros Hb Hj. unfold grad_next. rewrite nthe_permute by assumption.
  rewrite (nthe_bos exps _ Hb). reflexivity.
Qed.

Lemma grad_prev_permute pi (exps : list bexp) (n : label) j odd :
  Forall (fun e => fermionic (e_type C e) = false) exps -> j < length pi ->
  grad_prev C c0 c1 cadd cmul cneg ci cconj exps n (nth j pi 0) odd =
  option_map (ren (fun i => nth i pi 0))
             (grad_prev C c0 c1 cadd cmul cneg ci cconj (permute dflt pi exps)
                        (permute 0 pi n) j odd).
Proof.
  intros Hb Hj. unfold grad_prev. rewrite nthe_permute by assumption.
  rewrite (nthe_bos exps _ Hb). unfold grad_prev_bosonic.
  rewrite nthe_permute by assumption. rewrite nth_permute by assumption.
  destruct (e_type C (nthe exps (nth j pi 0))); try reflexivity.
  destruct (e_ck2 C (nthe exps (nth j pi 0))); reflexivity.
Qed.
End Coefs.
