(* C01 - dia.from_csr keeps every entry (CSR -> Dia). *)
From Coq Require Import List ZArith Bool Arith Lia ZifyBool.
Import ListNotations.
From QV Require Import Model.C01 Proofs.C01 Proofs.C01_pred.

Fixpoint zs_sorted (l : list Z) : Prop :=
  match l with [] => True | x :: t => (forall y, In y t -> (x < y)%Z) /\ zs_sorted t end.

Lemma zinsert_in : forall x l z, In z (zinsert x l) <-> z = x \/ In z l.
Proof.
  intros x. induction l as [|y t IH]; intros z; simpl; [intuition|].
  destruct (x <? y)%Z eqn:E1; [simpl; intuition|].
  destruct (x =? y)%Z eqn:E2.
  - apply Z.eqb_eq in E2. subst y. simpl. intuition.
  - simpl. rewrite IH. intuition.
Qed.

Lemma zinsert_sorted : forall x l, zs_sorted l -> zs_sorted (zinsert x l).
Proof.
  intros x. induction l as [|y t IH]; intros H; simpl; [split; [intros ? []|exact I]|].
  destruct H as [Hy Ht].
  destruct (x <? y)%Z eqn:E1.
  - simpl. split; [|split; assumption].
    intros z [<-|Hz]; [lia|]. specialize (Hy z Hz). lia.
  - destruct (x =? y)%Z eqn:E2; [simpl; split; assumption|].
    simpl. split; [|apply IH; exact Ht].
    intros z Hz. apply zinsert_in in Hz. destruct Hz as [->|Hz]; [lia|apply Hy; exact Hz].
Qed.

Lemma zsort_in : forall l z, In z (fold_right zinsert [] l) <-> In z l.
Proof.
  induction l as [|x t IH]; intros z; simpl; [reflexivity|].
  rewrite zinsert_in, IH. intuition.
Qed.

Lemma zsort_sorted : forall l, zs_sorted (fold_right zinsert [] l).
Proof. induction l as [|x t IH]; simpl; [exact I|apply zinsert_sorted; exact IH]. Qed.

Section DiaCsr.
Variable C : Type.
Variable c0 : C.
Notation den_csr := (den_csr C c0).
Notation den_dia := (den_dia C c0).

Lemma zsorted_map : forall (f : Z -> list C) l,
  zs_sorted l -> zsorted C (map (fun o => (o, f o)) l).
Proof.
  intros f. induction l as [|x t IH]; intros H; simpl; [exact I|].
  destruct H as [Hx Ht]. split; [|apply IH; exact Ht].
  intros e He. apply in_map_iff in He. destruct He as [y [<- Hy]]. simpl. apply Hx. exact Hy.
Qed.

Lemma find_map_key : forall (f : Z -> list C) l off,
  find (fun d : Z * list C => (fst d =? off)%Z) (map (fun o => (o, f o)) l) =
  if in_dec Z.eq_dec off l then Some (off, f off) else None.
Proof.
  intros f. induction l as [|x t IH]; intros off; simpl; [reflexivity|].
  destruct (Z.eqb_spec x off) as [->|Hne].
  - destruct (Z.eq_dec off off); [reflexivity|contradiction].
  - rewrite IH. destruct (Z.eq_dec x off); [contradiction|].
    destruct (in_dec Z.eq_dec off t); reflexivity.
Qed.

Lemma csr_offsets_in : forall (rows : list (crow C)) r i p,
  i < length rows -> In p (nth i rows []) ->
  In (Z.of_nat (fst p) - Z.of_nat (r + i))%Z (csr_offsets C r rows).
Proof.
  induction rows as [|row t IH]; intros r i p Hi Hp; simpl in Hi; [lia|].
  simpl. apply in_or_app. destruct i as [|i].
  - left. simpl in Hp. rewrite Nat.add_0_r. apply in_map_iff. exists p. split; [reflexivity|exact Hp].
  - right. simpl in Hp. replace (r + S i) with (S r + i) by lia. apply IH; [lia|exact Hp].
Qed.

Theorem dia_from_csr_den : forall (m : csr C) i j, wf_csr C m ->
  den_dia (dia_from_csr C c0 m) i j = den_csr m i j.
Proof.
  intros m i j [Hlen Hrows]. unfold C01.den_dia, C01.den_csr, dia_from_csr. simpl.
  destruct ((i <? s_nr C m) && (j <? s_nc C m)) eqn:E; [|reflexivity].
  assert (Hi : i < s_nr C m) by lia. assert (Hj : j < s_nc C m) by lia.
  set (offs := fold_right zinsert [] (csr_offsets C 0 (s_rows C m))).
  set (f := fun off : Z => map (fun col : nat =>
              let r := (Z.of_nat col - off)%Z in
              if (0 <=? r)%Z && (r <? Z.of_nat (s_nr C m))%Z
              then row_get_last C c0 col (nth (Z.to_nat r) (s_rows C m) []) else c0)
            (seq 0 (s_nc C m))).
  change (map _ offs) with (map (fun o => (o, f o)) offs).
  rewrite (find_rev_sorted C _ _ (zsorted_map f offs (zsort_sorted _))).
  rewrite find_map_key.
  assert (Hin : In (nth i (s_rows C m) []) (s_rows C m)) by (apply nth_In; lia).
  destruct (Hrows _ Hin) as [Hnd _].
  destruct (in_dec Z.eq_dec (Z.of_nat j - Z.of_nat i)%Z offs) as [Ho|Ho].
  - cbn [snd]. unfold f. rewrite nth_map_seq by exact Hj. cbn zeta.
    assert (Er : (Z.of_nat j - (Z.of_nat j - Z.of_nat i) = Z.of_nat i)%Z) by lia. rewrite Er.
    assert (E2 : (0 <=? Z.of_nat i)%Z && (Z.of_nat i <? Z.of_nat (s_nr C m))%Z = true) by lia.
    rewrite E2, Nat2Z.id. unfold row_get_last. apply row_get_rev. exact Hnd.
  - unfold C01.row_get.
    destruct (find (fun p : nat * C => fst p =? j) (nth i (s_rows C m) [])) as [p|] eqn:F;
      [|reflexivity].
    apply find_some in F. destruct F as [Hp Ej]. apply Nat.eqb_eq in Ej.
    exfalso. apply Ho. unfold offs. apply zsort_in.
    pose proof (csr_offsets_in (s_rows C m) 0 i p) as K. simpl in K.
    rewrite <- Ej. apply K; [lia|exact Hp].
Qed.
End DiaCsr.
