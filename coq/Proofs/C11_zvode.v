(* C11 - proofs about the zvode window model. *)
From Coq Require Import List ZArith Bool Arith Lia.
Require Import ZifyBool.
Import ListNotations.
From QV Require Import Model.C11_zvode.
Open Scope Z_scope.

(* the window kept by qutip IS zvode's interpolation range *)
Definition ZInv (s : zst) : Prop :=
  z_isset s = true ->
  z_back s <= z_t s <= z_front s /\ z_front s = z_tcur s /\
  z_back s = z_tcur s - z_hu s /\ 0 <= z_hu s.

Lemma z_new_inv : ZInv z_new.
Proof. unfold ZInv. simpl. discriminate. Qed.

Lemma z_set_inv s t : ZInv (z_set_state s t).
Proof. unfold ZInv. simpl. lia. Qed.

Ltac fin :=
  repeat split; simpl; intros; try discriminate; try reflexivity; try lia;
  try (left; reflexivity); try (left; lia); try (right; lia);
  try (left; split; [reflexivity|lia]); try (right; split; [reflexivity|lia]); auto.

Lemma z_mcstep_spec s t f : ZInv s ->
  (z_isset s = true -> z_front s < t -> z_front s <= z_t s -> z_tcur s < f <= t) ->
  let '(s1, (raised, tout, ok)) := z_mcstep s t f in
  ZInv s1 /\ ok = true /\ z_isset s1 = z_isset s /\
  (raised = false -> tout = z_t s1 /\ z_back s <= tout <= t \/ tout = z_t s /\ z_t s = t) /\
  (raised = false -> z_back s <= t <= z_front s -> tout = t) /\
  (raised = true -> s1 = s /\ (z_isset s = false \/ t < z_back s)) /\
  z_front s <= z_front s1 /\
  (z_isset s = true -> z_back s1 <= z_t s <= z_front s1).
Proof.
  intros HI Hf. unfold z_mcstep.
  destruct (z_isset s) eqn:Ei; simpl.
  2:{ fin. }
  specialize (HI Ei). specialize (Hf eq_refl). destruct HI as (H1 & H2 & H3 & H4).
  destruct (z_t s =? t) eqn:E1; [fin|].
  destruct (t <? z_back s) eqn:E2; [fin|].
  destruct (t <=? z_front s) eqn:E3; simpl; [fin|].
  destruct (z_t s <? z_front s) eqn:E4; simpl; [fin|].
  specialize (Hf ltac:(lia) ltac:(lia)). fin.
Qed.

Lemma z_run_spec ops : forall s, ZInv s -> z_oracle_ok s ops ->
  ZInv (z_run s ops) /\ z_contract s ops = true.
Proof.
  induction ops as [|o r IH]; intros s HI HO; simpl; [split; [exact HI|reflexivity]|].
  simpl in HO. destruct HO as [Ho Hr]. destruct o as [t|t f]; simpl in *.
  - destruct (IH _ (z_set_inv s t) Hr) as [A B]. split; [exact A|exact B].
  - pose proof (z_mcstep_spec s t f HI Ho) as P.
    destruct (z_mcstep s t f) as [s1 [[raised tout] ok]]. simpl in *.
    destruct P as (HI1 & Hok & _). destruct (IH _ HI1 Hr) as [A B].
    split; [exact A|]. rewrite Hok, B. reflexivity.
Qed.

(* set_state forgets the past: it does not read the old state at all *)
Lemma z_set_forgets s1 s2 t ops :
  z_trace (z_set_state s1 t) ops = z_trace (z_set_state s2 t) ops.
Proof. reflexivity. Qed.
