(* Proofs for C09 (index arithmetic of tensor-structure operations). *)
From Coq Require Import List Arith Bool Lia ZArith Permutation.
Import ListNotations.
From QV Require Import Model.C09.

(* ------------------------------------------------------------------ *)
(* mixed radix *)

Definition allpos (dims : list nat) : Prop := Forall (fun d => 0 < d) dims.

(* ds is a digit list for dims: same length, digit k below dims[k] *)
Definition valid (dims ds : list nat) : Prop := Forall2 (fun x d => x < d) ds dims.

Lemma prod_pos : forall dims, allpos dims -> 0 < prod dims.
Proof.
  induction dims as [|d t IH]; intros H; simpl; [lia|].
  inversion H as [|? ? Hd Ht]; subst. specialize (IH Ht). nia.
Qed.

Lemma prod_app : forall a b, prod (a ++ b) = prod a * prod b.
Proof. induction a as [|x a IH]; intros b; simpl; [lia|]. rewrite IH. lia. Qed.

Lemma valid_allpos : forall dims ds, valid dims ds -> allpos dims.
Proof.
  intros dims ds H. induction H as [|x d ds dims Hx _ IH]; constructor; [lia|exact IH].
Qed.

Lemma valid_length : forall dims ds, valid dims ds -> length ds = length dims.
Proof. intros dims ds H. induction H; simpl; congruence. Qed.

Lemma undigits_lt : forall dims ds, valid dims ds -> undigits dims ds < prod dims.
Proof.
  intros dims ds H. induction H as [|x d ds dims Hx _ IH]; simpl; [lia|]. nia.
Qed.

Lemma digits_valid : forall dims n, allpos dims -> n < prod dims -> valid dims (digits dims n).
Proof.
  induction dims as [|d t IH]; intros n Hp Hn; simpl; [constructor|].
  inversion Hp as [|? ? Hd Ht]; subst. pose proof (prod_pos t Ht) as Hpt.
  simpl in Hn. constructor.
  - apply Nat.div_lt_upper_bound; lia.
  - apply IH; [exact Ht|]. apply Nat.mod_upper_bound. lia.
Qed.

Lemma undigits_digits : forall dims n, allpos dims -> n < prod dims ->
  undigits dims (digits dims n) = n.
Proof.
  induction dims as [|d t IH]; intros n Hp Hn; simpl in *; [lia|].
  inversion Hp as [|? ? Hd Ht]; subst. pose proof (prod_pos t Ht) as Hpt.
  rewrite IH; [|exact Ht|apply Nat.mod_upper_bound; lia].
  pose proof (Nat.div_mod n (prod t)) as E. lia.
Qed.

Lemma digits_undigits : forall dims ds, valid dims ds -> digits dims (undigits dims ds) = ds.
Proof.
  intros dims ds H. induction H as [|x d ds dims Hx Hv IH]; simpl; [reflexivity|].
  pose proof (undigits_lt _ _ Hv) as Hu.
  assert (Hq : (x * prod dims + undigits dims ds) / prod dims = x).
  { symmetry. apply Nat.div_unique with (r := undigits dims ds); lia. }
  assert (Hr : (x * prod dims + undigits dims ds) mod prod dims = undigits dims ds).
  { symmetry. apply Nat.mod_unique with (q := x); lia. }
  rewrite Hq, Hr, IH. reflexivity.
Qed.

Lemma undigits_inj : forall dims ds es, valid dims ds -> valid dims es ->
  undigits dims ds = undigits dims es -> ds = es.
Proof.
  intros dims ds es Hd He E.
  rewrite <- (digits_undigits _ _ Hd), <- (digits_undigits _ _ He), E. reflexivity.
Qed.

(* ------------------------------------------------------------------ *)
(* select / weave *)

Lemma select_weave : forall (mask : list bool) (xs ys : list nat),
  length xs = length (select mask mask) ->
  length ys = length (select (map negb mask) mask) ->
  select mask (weave mask xs ys) = xs /\
  select (map negb mask) (weave mask xs ys) = ys /\
  length (weave mask xs ys) = length mask.
Proof.
  induction mask as [|b m IH]; intros xs ys Hx Hy; simpl in *.
  - destruct xs; [|discriminate]. destruct ys; [|discriminate]. auto.
  - destruct b; simpl in *.
    + destruct xs as [|x xs]; [discriminate|]. injection Hx as Hx.
      destruct (IH xs ys Hx Hy) as (A & B & L). simpl. rewrite A, B, L. auto.
    + destruct ys as [|y ys]; [discriminate|]. injection Hy as Hy.
      destruct (IH xs ys Hx Hy) as (A & B & L). simpl. rewrite A, B, L. auto.
Qed.

Lemma weave_select : forall (mask : list bool) (l : list nat),
  length l = length mask ->
  weave mask (select mask l) (select (map negb mask) l) = l.
Proof.
  induction mask as [|b m IH]; intros l H; destruct l as [|x l]; simpl in *; try discriminate; auto.
  injection H as H. destruct b; simpl; rewrite (IH l H); reflexivity.
Qed.

Lemma select_length_mask : forall (A B : Type) (mask : list bool) (l : list A) (l' : list B),
  length l = length mask -> length l' = length mask ->
  length (select mask l) = length (select mask l').
Proof.
  intros A B. induction mask as [|b m IH]; intros l l' H H'; destruct l, l'; simpl in *; try discriminate; auto.
  injection H as H. injection H' as H'. destruct b; simpl; rewrite (IH l l' H H'); reflexivity.
Qed.

Lemma select_length_self : forall (mask : list bool) (l : list nat),
  length l = length mask -> length (select mask l) = length (select mask mask).
Proof. intros. apply select_length_mask; [assumption|reflexivity]. Qed.

Lemma valid_select : forall mask dims ds, valid dims ds ->
  valid (select mask dims) (select mask ds).
Proof.
  intros mask dims ds H. revert mask.
  induction H as [|x d ds dims Hx _ IH]; intros mask; destruct mask as [|[|] m]; simpl;
    try (apply Forall2_nil).
  - apply Forall2_cons; [exact Hx|apply IH].
  - apply IH.
Qed.

Lemma valid_weave : forall mask dims xs ys,
  length dims = length mask ->
  valid (select mask dims) xs -> valid (select (map negb mask) dims) ys ->
  valid dims (weave mask xs ys).
Proof.
  induction mask as [|b m IH]; intros dims xs ys HL Hx Hy; destruct dims as [|d dims]; simpl in *; try discriminate.
  - constructor.
  - injection HL as HL. destruct b; simpl in *.
    + inversion Hx; subst. constructor; [assumption|]. apply IH; assumption.
    + inversion Hy; subst. constructor; [assumption|]. apply IH; assumption.
Qed.

Lemma prod_select_split : forall mask dims, length dims = length mask ->
  prod dims = prod (select mask dims) * prod (select (map negb mask) dims).
Proof.
  induction mask as [|b m IH]; intros dims H; destruct dims as [|d dims]; simpl in *; try discriminate; auto.
  injection H as H. destruct b; simpl; rewrite (IH dims H); lia.
Qed.

(* ------------------------------------------------------------------ *)
(* _populate_tensor_table and _i2_k_t *)

Fixpoint table_mask (dims : list nat) (mask : list bool) : list trow * (nat * nat * nat) :=
  match dims, mask with
  | d :: t, b :: m =>
      let '(rows, (ft, fk, ftr)) := table_mask t m in
      if b then (mkrow ft fk 0 :: rows, (ft * d, fk * d, ftr))
      else (mkrow ft 0 ftr :: rows, (ft * d, fk, ftr * d))
  | _, _ => ([], (1, 1, 1))
  end.

Lemma populate_mask : forall dims ii sel,
  populate_from ii dims sel =
  table_mask dims (map (fun i => memb i sel) (seq ii (length dims))).
Proof.
  induction dims as [|d t IH]; intros ii sel; simpl; [reflexivity|].
  rewrite IH. reflexivity.
Qed.

Lemma table_mask_factors : forall dims mask, length dims = length mask ->
  snd (table_mask dims mask) =
  (prod dims, prod (select mask dims), prod (select (map negb mask) dims)).
Proof.
  induction dims as [|d t IH]; intros mask H; destruct mask as [|b m]; simpl in *; try discriminate; auto.
  injection H as H. specialize (IH m H).
  destruct (table_mask t m) as [rows [[ft fk] ftr]]. simpl in IH. injection IH as E1 E2 E3. subst.
  destruct b; cbn [select map negb snd prod fold_right]; fold (prod t);
    fold (prod (select m t)); fold (prod (select (map negb m) t));
    rewrite !pair_equal_spec; repeat split; lia.
Qed.

Lemma i2kt_undigits : forall dims ds, valid dims ds -> forall mask k t,
  length dims = length mask ->
  i2_k_t_loop (fst (table_mask dims mask)) (undigits dims ds) k t =
  (k + undigits (select mask dims) (select mask ds),
   t + undigits (select (map negb mask) dims) (select (map negb mask) ds)).
Proof.
  intros dims ds H. induction H as [|x d ds dims Hx Hv IH]; intros mask k t HL;
    destruct mask as [|b m]; simpl in HL; try discriminate.
  - simpl. rewrite pair_equal_spec; split; lia.
  - injection HL as HL. simpl table_mask.
    pose proof (table_mask_factors dims m HL) as F.
    specialize (IH m).
    destruct (table_mask dims m) as [rows [[ft fk] ftr]]. simpl in F. injection F as E1 E2 E3.
    subst ft fk ftr. simpl in IH.
    pose proof (undigits_lt _ _ Hv) as Hu.
    assert (Hq : (x * prod dims + undigits dims ds) / prod dims = x).
    { symmetry. apply Nat.div_unique with (r := undigits dims ds); lia. }
    assert (Hr : (x * prod dims + undigits dims ds) mod prod dims = undigits dims ds).
    { symmetry. apply Nat.mod_unique with (q := x); lia. }
    destruct b; simpl; rewrite Hq, Hr, (IH _ _ HL); rewrite pair_equal_spec; split; lia.
Qed.

Lemma allpos_select : forall (mask : list bool) dims, allpos dims -> allpos (select mask dims).
Proof.
  intros mask dims H. revert mask.
  induction H as [|d dims Hd _ IH]; intros mask; destruct mask as [|[|] m]; simpl;
    try (apply Forall_nil).
  - apply Forall_cons; [exact Hd|apply IH].
  - apply IH.
Qed.

Lemma mask_of_length : forall n sel, length (mask_of n sel) = n.
Proof. intros. unfold mask_of. rewrite map_length, seq_length. reflexivity. Qed.

Lemma tensor_table_mask : forall dims sel,
  tensor_table dims sel = fst (table_mask dims (mask_of (length dims) sel)).
Proof. intros. unfold tensor_table. rewrite populate_mask. reflexivity. Qed.

Lemma keep_size_mask : forall dims sel,
  keep_size dims sel = prod (kept_dims dims (mask_of (length dims) sel)).
Proof.
  intros. unfold keep_size. rewrite populate_mask. fold (mask_of (length dims) sel).
  rewrite table_mask_factors by (rewrite mask_of_length; reflexivity). reflexivity.
Qed.

Lemma trace_size_mask : forall dims sel,
  trace_size dims sel = prod (traced_dims dims (mask_of (length dims) sel)).
Proof.
  intros. unfold trace_size. rewrite populate_mask. fold (mask_of (length dims) sel).
  rewrite table_mask_factors by (rewrite mask_of_length; reflexivity). reflexivity.
Qed.

Section KT.
  Variable dims : list nat.
  Variable mask : list bool.
  Hypothesis Hpos : allpos dims.
  Hypothesis Hlen : length dims = length mask.

  Let tab := fst (table_mask dims mask).
  Let kd := kept_dims dims mask.
  Let td := traced_dims dims mask.

  Lemma i2kt_digits : forall n, n < prod dims ->
    i2_k_t n tab =
    (undigits kd (select mask (digits dims n)),
     undigits td (select (map negb mask) (digits dims n))).
  Proof.
    intros n Hn. unfold i2_k_t, tab.
    rewrite <- (undigits_digits dims n Hpos Hn) at 1.
    rewrite (i2kt_undigits dims _ (digits_valid dims n Hpos Hn) mask 0 0 Hlen).
    reflexivity.
  Qed.

  (* B1: every flat index splits into an in-range (kept, traced) pair and is
     recovered by merge *)
  Lemma i2kt_range_merge : forall n, n < prod dims ->
    fst (i2_k_t n tab) < prod kd /\ snd (i2_k_t n tab) < prod td /\
    merge dims mask (fst (i2_k_t n tab)) (snd (i2_k_t n tab)) = n.
  Proof.
    intros n Hn. rewrite (i2kt_digits n Hn). simpl fst. simpl snd.
    pose proof (digits_valid dims n Hpos Hn) as Hv.
    pose proof (valid_select mask _ _ Hv) as Hk.
    pose proof (valid_select (map negb mask) _ _ Hv) as Ht.
    split; [apply undigits_lt; exact Hk|]. split; [apply undigits_lt; exact Ht|].
    unfold merge. fold kd td. unfold kd, td, kept_dims, traced_dims.
    rewrite (digits_undigits _ _ Hk), (digits_undigits _ _ Ht).
    rewrite weave_select.
    - apply undigits_digits; assumption.
    - rewrite (valid_length _ _ Hv). exact Hlen.
  Qed.

  (* B2: merge of an in-range pair is in range and splits back *)
  Lemma merge_range_i2kt : forall r tau, r < prod kd -> tau < prod td ->
    merge dims mask r tau < prod dims /\ i2_k_t (merge dims mask r tau) tab = (r, tau).
  Proof.
    intros r tau Hr Ht. unfold merge. fold kd td.
    pose proof (digits_valid kd r (allpos_select mask dims Hpos) Hr) as Vk.
    pose proof (digits_valid td tau (allpos_select (map negb mask) dims Hpos) Ht) as Vt.
    assert (Lk : length (digits kd r) = length (select mask mask)).
    { rewrite (valid_length _ _ Vk). unfold kd, kept_dims. apply select_length_self. exact Hlen. }
    assert (Lt : length (digits td tau) = length (select (map negb mask) mask)).
    { rewrite (valid_length _ _ Vt). unfold td, traced_dims.
      apply select_length_mask; rewrite map_length; [exact Hlen|reflexivity]. }
    destruct (select_weave mask _ _ Lk Lt) as (A & B & _).
    pose proof (valid_weave mask dims _ _ Hlen Vk Vt) as Vw.
    split; [apply undigits_lt; exact Vw|].
    unfold i2_k_t, tab.
    rewrite (i2kt_undigits dims _ Vw mask 0 0 Hlen). rewrite A, B.
    fold (kept_dims dims mask) (traced_dims dims mask). fold kd td.
    rewrite (undigits_digits kd r (allpos_select mask dims Hpos) Hr).
    rewrite (undigits_digits td tau (allpos_select (map negb mask) dims Hpos) Ht).
    reflexivity.
  Qed.

  Lemma merge_eqb : forall i r tau, i < prod dims -> r < prod kd -> tau < prod td ->
    (i =? merge dims mask r tau) =
    (fst (i2_k_t i tab) =? r) && (snd (i2_k_t i tab) =? tau).
  Proof.
    intros i r tau Hi Hr Ht.
    destruct (i2kt_range_merge i Hi) as (_ & _ & M).
    destruct (merge_range_i2kt r tau Hr Ht) as (_ & S).
    destruct (Nat.eqb_spec i (merge dims mask r tau)) as [E|E].
    - subst i. rewrite S. simpl. rewrite !Nat.eqb_refl. reflexivity.
    - destruct (Nat.eqb_spec (fst (i2_k_t i tab)) r) as [E1|E1]; [|reflexivity].
      destruct (Nat.eqb_spec (snd (i2_k_t i tab)) tau) as [E2|E2]; [|reflexivity].
      exfalso. apply E. rewrite <- M, E1, E2. reflexivity.
  Qed.
End KT.

(* ------------------------------------------------------------------ *)
(* partial trace: the sparse loop computes the tensor-index specification *)

Section PtraceSpec.
  Variable C : Type.
  Variable c0 : C.
  Variable cadd : C -> C -> C.
  Hypothesis cadd_comm : forall x y, cadd x y = cadd y x.
  Hypothesis cadd_assoc : forall x y z, cadd x (cadd y z) = cadd (cadd x y) z.
  Hypothesis cadd_0_l : forall x, cadd c0 x = x.

  Notation den := (den C c0 cadd).
  Notation sum_upto := (sum_upto C c0 cadd).

  Lemma cadd_0_r : forall x, cadd x c0 = x.
  Proof. intros. rewrite cadd_comm. apply cadd_0_l. Qed.

  Lemma sum_upto_ext : forall n f g, (forall i, i < n -> f i = g i) ->
    sum_upto n f = sum_upto n g.
  Proof.
    induction n as [|n IH]; intros f g H; simpl; [reflexivity|].
    rewrite (IH f g) by (intros; apply H; lia). rewrite (H n) by lia. reflexivity.
  Qed.

  Lemma sum_upto_zero : forall n, sum_upto n (fun _ => c0) = c0.
  Proof. induction n as [|n IH]; simpl; [reflexivity|]. rewrite IH. apply cadd_0_l. Qed.

  Lemma sum_upto_add : forall n f g,
    sum_upto n (fun i => cadd (f i) (g i)) = cadd (sum_upto n f) (sum_upto n g).
  Proof.
    induction n as [|n IH]; intros f g; simpl; [rewrite cadd_0_l; reflexivity|].
    rewrite IH.
    rewrite <- !cadd_assoc. f_equal.
    rewrite !cadd_assoc. rewrite (cadd_comm (f n)). reflexivity.
  Qed.

  Lemma sum_upto_indicator : forall n a (b : bool) v,
    sum_upto n (fun i => if (i =? a) && b then v else c0) =
    if (a <? n) && b then v else c0.
  Proof.
    induction n as [|n IH]; intros a b v; simpl sum_upto; [reflexivity|].
    rewrite IH.
    destruct (Nat.eqb_spec n a) as [E|E].
    - subst a. assert (L1 : (n <? n) = false) by (apply Nat.ltb_ge; lia).
      assert (L2 : (n <? S n) = true) by (apply Nat.ltb_lt; lia).
      rewrite L1, L2. simpl. rewrite cadd_0_l. reflexivity.
    - simpl. rewrite cadd_0_r.
      destruct (Nat.ltb_spec a n) as [L|L].
      + assert (L2 : (a <? S n) = true) by (apply Nat.ltb_lt; lia). rewrite L2. reflexivity.
      + assert (L2 : (a <? S n) = false) by (apply Nat.ltb_ge; lia). rewrite L2. reflexivity.
  Qed.

  Variable dims : list nat.
  Variable mask : list bool.
  Hypothesis Hpos : allpos dims.
  Hypothesis Hlen : length dims = length mask.

  Let tab := fst (table_mask dims mask).
  Let K := prod (kept_dims dims mask).
  Let T := prod (traced_dims dims mask).

  Definition in_range (N : nat) (E : list (entry C)) : Prop :=
    Forall (fun e => fst (fst e) < N /\ snd (fst e) < N) E.

  Theorem ptrace_loop_meaning : forall E r c,
    in_range (prod dims) E -> r < K -> c < K ->
    den (ptrace_loop C tab E) r c = ptrace_spec C c0 cadd dims mask (den E) r c.
  Proof.
    intros E r c HE Hr Hc. unfold ptrace_spec. fold T.
    induction HE as [|[[i j] v] E [Hi Hj] HE IH].
    - simpl. rewrite sum_upto_zero. reflexivity.
    - simpl in Hi, Hj.
      destruct (i2kt_range_merge dims mask Hpos Hlen i Hi) as (Ki & Ti & _).
      destruct (i2kt_range_merge dims mask Hpos Hlen j Hj) as (Kj & Tj & _).
      fold tab in Ki, Ti, Kj, Tj.
      set (ki := fst (i2_k_t i tab)) in *. set (ti := snd (i2_k_t i tab)) in *.
      set (kj := fst (i2_k_t j tab)) in *. set (tj := snd (i2_k_t j tab)) in *.
      (* right-hand side: split off the contribution of the first entry *)
      assert (R : sum_upto T (fun tau =>
                    den ((i, j, v) :: E) (merge dims mask r tau) (merge dims mask c tau)) =
                  cadd (sum_upto T (fun tau =>
                          if (tau =? ti) && ((ki =? r) && ((kj =? c) && (tj =? ti)))
                          then v else c0))
                       (sum_upto T (fun tau =>
                          den E (merge dims mask r tau) (merge dims mask c tau)))).
      { rewrite <- sum_upto_add. apply sum_upto_ext. intros tau Htau.
        cbn [C09.den].
        rewrite (merge_eqb dims mask Hpos Hlen i r tau Hi Hr Htau).
        rewrite (merge_eqb dims mask Hpos Hlen j c tau Hj Hc Htau).
        fold tab. fold ki ti kj tj.
        destruct (Nat.eqb_spec ti tau) as [E1|E1].
        - subst tau. rewrite Nat.eqb_refl.
          destruct (ki =? r); destruct (kj =? c); destruct (tj =? ti); simpl;
            try reflexivity; rewrite cadd_0_l; reflexivity.
        - assert (E2 : (tau =? ti) = false) by (apply Nat.eqb_neq; lia). rewrite E2.
          rewrite andb_false_r. simpl. rewrite cadd_0_l. reflexivity. }
      rewrite R. rewrite sum_upto_indicator.
      assert (LT : (ti <? T) = true) by (apply Nat.ltb_lt; exact Ti). rewrite LT. simpl andb.
      (* left-hand side *)
      cbn [ptrace_loop]. fold ki ti kj tj.
      destruct (Nat.eqb_spec tj ti) as [E3|E3].
      + cbn [C09.den fst snd]. rewrite andb_true_r.
        destruct ((ki =? r) && (kj =? c)) eqn:B.
        * rewrite IH. reflexivity.
        * rewrite IH. rewrite cadd_0_l. reflexivity.
      + rewrite !andb_false_r. rewrite IH. rewrite cadd_0_l. reflexivity.
  Qed.
End PtraceSpec.

(* ------------------------------------------------------------------ *)
(* permute.pyx: _Indexer *)

Definition dot (a b : list nat) : nat :=
  fold_right (fun p acc => fst p * snd p + acc) 0 (combine a b).

Lemma dot_cons : forall x a y b, dot (x :: a) (y :: b) = x * y + dot a b.
Proof. reflexivity. Qed.

Lemma undigits_dot : forall dims xs, undigits dims xs = dot (suffix_prods dims) xs.
Proof.
  induction dims as [|d t IH]; intros xs; [reflexivity|].
  destruct xs as [|x xs]; [reflexivity|]. simpl suffix_prods. rewrite dot_cons.
  simpl undigits. rewrite IH. lia.
Qed.

Lemma set_nth_length : forall l k x, length (set_nth l k x) = length l.
Proof. induction l as [|y l IH]; intros [|k] x; simpl; auto. Qed.

Lemma nth_set_nth_neq : forall l k j x, j <> k -> nth j (set_nth l k x) 0 = nth j l 0.
Proof.
  induction l as [|y l IH]; intros [|k] [|j] x H; simpl; auto; try lia.
Qed.

Lemma dot_set_nth : forall l k x ds, k < length l -> length ds = length l ->
  nth k l 0 = 0 -> dot (set_nth l k x) ds = dot l ds + x * nth k ds 0.
Proof.
  induction l as [|y l IH]; intros k x ds Hk HL Hz; simpl in Hk; [lia|].
  destruct ds as [|d ds]; [discriminate|]. simpl in HL. injection HL as HL.
  destruct k as [|k]; simpl set_nth; rewrite !dot_cons.
  - simpl in Hz. subst y. simpl. lia.
  - simpl in Hz. simpl nth. rewrite (IH k x ds) by (try lia; assumption). lia.
Qed.

Definition sumops (ops : list (nat * nat)) (ds : list nat) : nat :=
  fold_right (fun op s => snd op * nth (fst op) ds 0 + s) 0 ops.

Definition apply_ops (acc : list nat) (ops : list (nat * nat)) : list nat :=
  fold_right (fun op a => set_nth a (fst op) (snd op)) acc ops.

Lemma apply_ops_length : forall ops acc, length (apply_ops acc ops) = length acc.
Proof. induction ops as [|a ops IH]; intros; simpl; [reflexivity|]. rewrite set_nth_length. apply IH. Qed.

Lemma apply_ops_notin : forall ops acc j, ~ In j (map fst ops) ->
  nth j (apply_ops acc ops) 0 = nth j acc 0.
Proof.
  induction ops as [|a ops IH]; intros acc j H; simpl; [reflexivity|].
  simpl in H. rewrite nth_set_nth_neq by (intro E; apply H; left; congruence). apply IH. tauto.
Qed.

Lemma dot_apply_ops : forall ops acc ds,
  NoDup (map fst ops) -> (forall o, In o (map fst ops) -> o < length acc /\ nth o acc 0 = 0) ->
  length ds = length acc ->
  dot (apply_ops acc ops) ds = dot acc ds + sumops ops ds.
Proof.
  induction ops as [|a ops IH]; intros acc ds ND Hin HL; simpl; [lia|].
  simpl in ND. inversion ND as [|? ? Hn ND']; subst.
  rewrite dot_set_nth.
  - rewrite IH; [lia|assumption| |assumption]. intros o Ho. apply Hin. simpl. tauto.
  - rewrite apply_ops_length. apply Hin. simpl. tauto.
  - rewrite apply_ops_length. assumption.
  - rewrite apply_ops_notin by assumption. apply Hin. simpl. tauto.
Qed.

Lemma sumops_combine : forall order sp ds,
  sumops (combine order sp) ds = dot sp (gather order ds).
Proof.
  induction order as [|o order IH]; intros sp ds; destruct sp as [|p sp]; try reflexivity.
  change (sumops (combine (o :: order) (p :: sp)) ds)
    with (p * nth o ds 0 + sumops (combine order sp) ds).
  change (gather (o :: order) ds) with (nth o ds 0 :: gather order ds).
  rewrite dot_cons, IH. reflexivity.
Qed.

Lemma dot_repeat0 : forall n ds, dot (repeat 0 n) ds = 0.
Proof. induction n as [|n IH]; intros [|d ds]; try reflexivity. simpl repeat. rewrite dot_cons, IH. lia. Qed.

Lemma nth_repeat0 : forall n o, nth o (repeat 0 n) 0 = 0.
Proof. induction n as [|n IH]; intros [|o]; simpl; auto. Qed.

Lemma map_fst_combine_incl : forall (a b : list nat) x, In x (map fst (combine a b)) -> In x a.
Proof.
  induction a as [|y a IH]; intros [|z b] x H; simpl in *; try tauto.
  destruct H; [tauto|right; eapply IH; eassumption].
Qed.

Lemma NoDup_map_fst_combine : forall (a b : list nat), NoDup a -> NoDup (map fst (combine a b)).
Proof.
  induction a as [|y a IH]; intros [|z b] H; simpl; try constructor.
  - inversion H; subst. intro Hi. apply map_fst_combine_incl in Hi. tauto.
  - inversion H; subst. apply IH. assumption.
Qed.

(* the dot product with the cumprod array = mixed-radix value of the
   gathered digits in the new dimensions *)
Lemma cumprod_dot : forall order newdims ds,
  NoDup order -> (forall o, In o order -> o < length order) ->
  length ds = length order ->
  dot (cumprod_build order newdims) ds = undigits newdims (gather order ds).
Proof.
  intros order newdims ds ND HB HL. unfold cumprod_build.
  change (fold_right (fun op acc => set_nth acc (fst op) (snd op)) (repeat 0 (length order))
            (combine order (suffix_prods newdims)))
    with (apply_ops (repeat 0 (length order)) (combine order (suffix_prods newdims))).
  rewrite dot_apply_ops.
  - rewrite dot_repeat0, sumops_combine, undigits_dot. reflexivity.
  - apply NoDup_map_fst_combine. exact ND.
  - intros o Ho. apply map_fst_combine_incl in Ho. rewrite repeat_length, nth_repeat0.
    split; [apply HB; exact Ho|reflexivity].
  - rewrite repeat_length. exact HL.
Qed.

(* least-significant-first view, used by `_Indexer.single` *)
Fixpoint undigits_le (rd rds : list nat) : nat :=
  match rd, rds with
  | d :: t, x :: xs => x + d * undigits_le t xs
  | _, _ => 0
  end.

Lemma undigits_snoc : forall t xs d x, length t = length xs ->
  undigits (t ++ [d]) (xs ++ [x]) = undigits t xs * d + x.
Proof.
  induction t as [|a t IH]; intros xs d x HL; destruct xs as [|y xs]; simpl in HL; try discriminate.
  - simpl. lia.
  - injection HL as HL. simpl app. simpl undigits. rewrite (IH xs d x HL), prod_app. simpl prod. nia.
Qed.

Lemma undigits_rev : forall rd rds, length rd = length rds ->
  undigits (rev rd) (rev rds) = undigits_le rd rds.
Proof.
  induction rd as [|d rd IH]; intros rds HL; destruct rds as [|x rds]; simpl in HL; try discriminate.
  - reflexivity.
  - injection HL as HL. simpl rev. rewrite undigits_snoc by (rewrite !rev_length; exact HL).
    rewrite (IH rds HL). simpl. lia.
Qed.

Lemma combine_snoc : forall (a b : list nat) x y, length a = length b ->
  combine (a ++ [x]) (b ++ [y]) = combine a b ++ [(x, y)].
Proof.
  induction a as [|z a IH]; intros b x y HL; destruct b as [|w b]; simpl in HL; try discriminate.
  - reflexivity.
  - injection HL as HL. simpl. rewrite (IH b x y HL). reflexivity.
Qed.

Lemma combine_rev : forall (a b : list nat), length a = length b ->
  combine (rev a) (rev b) = rev (combine a b).
Proof.
  induction a as [|z a IH]; intros b HL; destruct b as [|w b]; simpl in HL; try discriminate.
  - reflexivity.
  - injection HL as HL. simpl. rewrite combine_snoc by (rewrite !rev_length; exact HL).
    rewrite (IH b HL). reflexivity.
Qed.

Lemma dot_snoc : forall a b x y, length a = length b -> dot (a ++ [x]) (b ++ [y]) = dot a b + x * y.
Proof.
  intros a b x y HL. unfold dot. rewrite combine_snoc by exact HL.
  rewrite fold_right_app. simpl.
  generalize (combine a b). induction l as [|p l IH]; simpl; [lia|]. rewrite IH. lia.
Qed.

Lemma dot_rev : forall a b, length a = length b -> dot (rev a) (rev b) = dot a b.
Proof.
  induction a as [|z a IH]; intros b HL; destruct b as [|w b]; simpl in HL; try discriminate.
  - reflexivity.
  - injection HL as HL. simpl rev. rewrite dot_snoc by (rewrite !rev_length; exact HL).
    rewrite (IH b HL), dot_cons. lia.
Qed.

Lemma undigits_le_zero : forall rd rds rcp, Forall2 (fun x d => x < d) rds rd ->
  undigits_le rd rds = 0 -> dot rcp rds = 0.
Proof.
  intros rd rds rcp H. revert rcp.
  induction H as [|x d rds rd Hx _ IH]; intros rcp E; destruct rcp as [|c rcp]; try reflexivity.
  simpl in E. rewrite dot_cons. assert (x = 0) by lia. assert (undigits_le rd rds = 0) by nia.
  subst x. rewrite (IH rcp) by assumption. lia.
Qed.

Lemma single_loop_le : forall rd rds, Forall2 (fun x d => x < d) rds rd ->
  forall rcp out, length rcp = length rd ->
  single_loop (combine rd rcp) (undigits_le rd rds) out = out + dot rcp rds.
Proof.
  intros rd rds H. induction H as [|x d rds rd Hx Hv IH]; intros rcp out HL;
    destruct rcp as [|c rcp]; simpl in HL; try discriminate.
  - simpl. unfold dot. simpl. lia.
  - injection HL as HL. cbn [combine single_loop undigits_le].
    assert (Hm : (x + d * undigits_le rd rds) mod d = x).
    { symmetry. apply Nat.mod_unique with (q := undigits_le rd rds); lia. }
    assert (Hq : (x + d * undigits_le rd rds) / d = undigits_le rd rds).
    { symmetry. apply Nat.div_unique with (r := x); lia. }
    rewrite Hm, Hq, dot_cons.
    destruct (Nat.eqb_spec (undigits_le rd rds) 0) as [E|E].
    + rewrite (undigits_le_zero rd rds rcp Hv E). lia.
    + rewrite (IH rcp _ HL). lia.
Qed.

Lemma Forall2_rev : forall (P : nat -> nat -> Prop) a b, Forall2 P a b -> Forall2 P (rev a) (rev b).
Proof.
  intros P a b H. induction H as [|x y a b Hxy _ IH]; simpl; [constructor|].
  apply Forall2_app; [exact IH|constructor; [exact Hxy|constructor]].
Qed.

(* `single`, early break included, is the dot product with cumprod *)
Lemma single_dot : forall dims cp ds, valid dims ds -> length cp = length dims ->
  single_loop (rev (combine dims cp)) (undigits dims ds) 0 = dot cp ds.
Proof.
  intros dims cp ds Hv HL.
  pose proof (valid_length _ _ Hv) as HLd.
  assert (E1 : rev (combine dims cp) = combine (rev dims) (rev cp)).
  { symmetry. apply combine_rev. symmetry. exact HL. }
  assert (E2 : undigits dims ds = undigits_le (rev dims) (rev ds)).
  { rewrite <- undigits_rev by (rewrite !rev_length; symmetry; exact HLd).
    rewrite !rev_involutive. reflexivity. }
  assert (E3 : dot cp ds = dot (rev cp) (rev ds)).
  { symmetry. apply dot_rev. rewrite HL. symmetry. exact HLd. }
  rewrite E1, E2, E3. rewrite single_loop_le.
  - reflexivity.
  - apply Forall2_rev. exact Hv.
  - rewrite !rev_length. exact HL.
Qed.

(* validation loop *)
Lemma memb_In : forall x l, memb x l = true <-> In x l.
Proof.
  intros x l. unfold memb. rewrite existsb_exists. split.
  - intros (y & Hy & E). apply Nat.eqb_eq in E. subst. exact Hy.
  - intros H. exists x. split; [exact H|apply Nat.eqb_refl].
Qed.

Lemma check_order_ok : forall n dims order seen,
  check_order n dims seen order = None ->
  NoDup order /\ (forall o, In o order -> o < n /\ ~ In o seen /\ 0 < nth o dims 0).
Proof.
  induction order as [|o order IH]; intros seen H; simpl in H.
  - split; [constructor|intros o []].
  - destruct (Nat.leb_spec n o) as [L|L]; [discriminate|].
    destruct (memb o seen) eqn:M; [discriminate|].
    destruct (Nat.eqb_spec (nth o dims 0) 0) as [Z|Z]; [discriminate|].
    destruct (IH (o :: seen) H) as (ND & HB).
    split.
    + constructor; [|exact ND]. intro Hi. destruct (HB o Hi) as (_ & Hn & _). apply Hn. left. reflexivity.
    + intros o' [E|Hi].
      * subst o'. split; [lia|]. split; [|lia]. intro Hs. apply memb_In in Hs. congruence.
      * destruct (HB o' Hi) as (A & B & Cc). split; [exact A|]. split; [|exact Cc].
        intro Hs. apply B. right. exact Hs.
Qed.

Lemma valid_nth : forall dims ds o, valid dims ds -> o < length dims -> nth o ds 0 < nth o dims 0.
Proof.
  intros dims ds o H. revert o. induction H as [|x d ds dims Hx _ IH]; intros [|o] Ho; simpl in *; try lia.
  apply IH. lia.
Qed.

Lemma valid_gather : forall dims ds order, valid dims ds ->
  (forall o, In o order -> o < length dims) -> valid (gather order dims) (gather order ds).
Proof.
  intros dims ds order Hv. induction order as [|o order IH]; intros HB; simpl; [constructor|].
  constructor; [apply valid_nth; [exact Hv|apply HB; left; reflexivity]|].
  apply IH. intros o' Ho'. apply HB. right. exact Ho'.
Qed.

(* C: what _Indexer computes *)
Theorem indexer_single_spec : forall dims order ix ds,
  indexer_init dims order = inr ix -> valid dims ds ->
  single ix (undigits dims ds) = undigits (gather order dims) (gather order ds) /\
  ix_new ix = gather order dims /\ ix_size ix = prod (gather order dims) /\
  valid (gather order dims) (gather order ds).
Proof.
  intros dims order ix ds Hi Hv. unfold indexer_init in Hi.
  destruct (Nat.eqb_spec (length order) (length dims)) as [HL|HL]; simpl in Hi; [|discriminate].
  destruct (check_order (length dims) dims [] order) eqn:CO; [discriminate|].
  injection Hi as Hi. subst ix. unfold single. simpl.
  destruct (check_order_ok _ _ _ _ CO) as (ND & HB).
  assert (HB' : forall o, In o order -> o < length order).
  { intros o Ho. rewrite HL. apply (HB o Ho). }
  pose proof (valid_length _ _ Hv) as HLd.
  split; [|split; [reflexivity|split; [reflexivity|]]].
  - rewrite single_dot.
    + apply cumprod_dot; [exact ND|exact HB'|congruence].
    + exact Hv.
    + unfold cumprod_build.
      change (fold_right (fun op acc => set_nth acc (fst op) (snd op)) (repeat 0 (length order))
                (combine order (suffix_prods (gather order dims))))
        with (apply_ops (repeat 0 (length order)) (combine order (suffix_prods (gather order dims)))).
      rewrite apply_ops_length, repeat_length. exact HL.
  - apply valid_gather; [exact Hv|]. intros o Ho. apply (HB o Ho).
Qed.

(* ---- order is a permutation: coverage, product, injectivity ---- *)
Lemma order_covers : forall n order, NoDup order -> length order = n ->
  (forall o, In o order -> o < n) -> forall j, j < n -> In j order.
Proof.
  intros n order ND HL HB j Hj.
  assert (I : incl (seq 0 n) order).
  { apply NoDup_length_incl; [exact ND|rewrite seq_length; lia|].
    intros o Ho. apply in_seq. specialize (HB o Ho). lia. }
  apply I. apply in_seq. lia.
Qed.

Lemma gather_seq : forall l, gather (seq 0 (length l)) l = l.
Proof.
  unfold gather. induction l as [|a l IH]; [reflexivity|].
  simpl length. simpl seq. simpl map. f_equal.
  rewrite <- seq_shift, map_map. simpl. exact IH.
Qed.

Lemma prod_perm : forall a b, Permutation a b -> prod a = prod b.
Proof. intros a b H. induction H; simpl; lia. Qed.

Lemma gather_prod : forall dims order, NoDup order -> length order = length dims ->
  (forall o, In o order -> o < length dims) -> prod (gather order dims) = prod dims.
Proof.
  intros dims order ND HL HB.
  assert (P : Permutation order (seq 0 (length dims))).
  { apply NoDup_Permutation; [exact ND|apply seq_NoDup|].
    intros x. split.
    - intros Hx. apply in_seq. specialize (HB x Hx). lia.
    - intros Hx. apply in_seq in Hx. apply (order_covers (length dims) order ND HL HB). lia. }
  rewrite <- (gather_seq dims) at 2. apply prod_perm. unfold gather. apply Permutation_map. exact P.
Qed.

Lemma gather_In_eq : forall order ds es j, In j order ->
  gather order ds = gather order es -> nth j ds 0 = nth j es 0.
Proof.
  induction order as [|o order IH]; intros ds es j Hj E; [destruct Hj|].
  simpl in E. injection E as E1 E2. destruct Hj as [Hj|Hj]; [subst; exact E1|].
  apply (IH ds es j Hj E2).
Qed.

Lemma gather_inj : forall order ds es n, (forall j, j < n -> In j order) ->
  length ds = n -> length es = n -> gather order ds = gather order es -> ds = es.
Proof.
  intros order ds es n HC Hd He E. apply nth_ext with (d := 0) (d' := 0); [congruence|].
  intros j Hj. apply (gather_In_eq order ds es j); [apply HC; lia|exact E].
Qed.

Lemma indexer_facts : forall dims order ix, indexer_init dims order = inr ix ->
  NoDup order /\ length order = length dims /\ (forall o, In o order -> o < length dims) /\
  ix_size ix = prod dims /\ allpos (gather order dims).
Proof.
  intros dims order ix Hi. unfold indexer_init in Hi.
  destruct (Nat.eqb_spec (length order) (length dims)) as [HL|HL]; simpl in Hi; [|discriminate].
  destruct (check_order (length dims) dims [] order) eqn:CO; [discriminate|].
  injection Hi as Hi. subst ix. simpl.
  destruct (check_order_ok _ _ _ _ CO) as (ND & HB).
  assert (HB' : forall o, In o order -> o < length dims) by (intros o Ho; apply (HB o Ho)).
  split; [exact ND|]. split; [exact HL|]. split; [exact HB'|].
  split; [apply gather_prod; assumption|].
  unfold allpos, gather. apply Forall_forall. intros d Hd. apply in_map_iff in Hd.
  destruct Hd as (o & E & Ho). subst d. apply (HB o Ho).
Qed.

(* the flat-index map is injective and stays in range *)
Theorem indexer_single_bijective : forall dims order ix,
  indexer_init dims order = inr ix -> allpos dims ->
  (forall i, i < prod dims -> single ix i < prod dims) /\
  (forall i j, i < prod dims -> j < prod dims -> single ix i = single ix j -> i = j).
Proof.
  intros dims order ix Hi Hp.
  destruct (indexer_facts _ _ _ Hi) as (ND & HL & HB & _ & _).
  split.
  - intros i Hlt. pose proof (digits_valid dims i Hp Hlt) as Hv.
    destruct (indexer_single_spec dims order ix _ Hi Hv) as (S & _ & _ & V).
    rewrite (undigits_digits dims i Hp Hlt) in S. rewrite S.
    rewrite <- (gather_prod dims order ND HL HB). apply undigits_lt. exact V.
  - intros i j Hi' Hj' E.
    pose proof (digits_valid dims i Hp Hi') as Vi. pose proof (digits_valid dims j Hp Hj') as Vj.
    destruct (indexer_single_spec dims order ix _ Hi Vi) as (Si & _ & _ & Wi).
    destruct (indexer_single_spec dims order ix _ Hi Vj) as (Sj & _ & _ & Wj).
    rewrite (undigits_digits dims i Hp Hi') in Si. rewrite (undigits_digits dims j Hp Hj') in Sj.
    rewrite Si, Sj in E. apply (undigits_inj _ _ _ Wi Wj) in E.
    apply (gather_inj order _ _ (length dims)) in E.
    + rewrite <- (undigits_digits dims i Hp Hi'), <- (undigits_digits dims j Hp Hj'), E. reflexivity.
    + apply order_covers; assumption.
    + apply valid_length. exact Vi.
    + apply valid_length. exact Vj.
Qed.

(* round trip with the inverse order *)
Lemma gather_gather : forall inv order l, (forall o, In o inv -> o < length order) ->
  gather inv (gather order l) = gather (gather inv order) l.
Proof.
  intros inv order l HB. unfold gather. rewrite map_map. apply map_ext_in.
  intros o Ho. specialize (HB o Ho).
  rewrite (nth_indep _ 0 (nth (length order) l 0)) by (rewrite map_length; exact HB).
  rewrite (map_nth (fun o0 => nth o0 l 0) order (length order) o).
  f_equal. apply nth_indep. exact HB.
Qed.

Theorem indexer_round_trip : forall dims order inv ix1 ix2,
  indexer_init dims order = inr ix1 ->
  indexer_init (gather order dims) inv = inr ix2 ->
  gather inv order = seq 0 (length dims) -> allpos dims ->
  gather inv (gather order dims) = dims /\
  forall i, i < prod dims -> single ix2 (single ix1 i) = i.
Proof.
  intros dims order inv ix1 ix2 H1 H2 HI Hp.
  destruct (indexer_facts _ _ _ H1) as (ND & HL & HB & _ & _).
  destruct (indexer_facts _ _ _ H2) as (_ & HL2 & HB2 & _ & _).
  assert (LG : length (gather order dims) = length order) by (unfold gather; apply map_length).
  assert (HBi : forall o, In o inv -> o < length order).
  { intros o Ho. rewrite <- LG. apply HB2. exact Ho. }
  assert (GG : forall l, length l = length dims -> gather inv (gather order l) = l).
  { intros l Hl. rewrite (gather_gather inv order l HBi), HI, <- Hl. apply gather_seq. }
  split; [apply GG; reflexivity|].
  intros i Hlt. pose proof (digits_valid dims i Hp Hlt) as Hv.
  destruct (indexer_single_spec dims order ix1 _ H1 Hv) as (S1 & _ & _ & V1).
  rewrite (undigits_digits dims i Hp Hlt) in S1. rewrite S1.
  destruct (indexer_single_spec _ inv ix2 _ H2 V1) as (S2 & _ & _ & _).
  rewrite S2. rewrite (GG dims eq_refl), (GG (digits dims i) (valid_length _ _ Hv)).
  apply undigits_digits; assumption.
Qed.

(* permutation law on the meaning of the stored entries *)
Section PermLaw.
  Variable C : Type.
  Variable c0 : C.
  Variable cadd : C -> C -> C.
  Notation den := (den C c0 cadd).

  Definition perm_map (ix : indexer) (E : list (entry C)) : list (entry C) :=
    map (fun e => match e with (r, c, v) => (single ix r, single ix c, v) end) E.

  Lemma all_idx_nth : forall ix r, r < ix_size ix -> nth r (all_idx ix) 0 = single ix r.
  Proof.
    intros ix r Hr. unfold all_idx.
    rewrite (nth_indep _ 0 (single ix 0)) by (rewrite map_length, seq_length; exact Hr).
    rewrite (map_nth (single ix) (seq 0 (ix_size ix)) 0 r). rewrite seq_nth by exact Hr. reflexivity.
  Qed.

  (* the `index.all()` table look-ups of _indices_csr_full and the direct
     calls of index.single() give the same entries *)
  Lemma perm_full_map : forall ix E, in_range C (ix_size ix) E ->
    perm_full C (all_idx ix) (all_idx ix) E = perm_map ix E.
  Proof.
    intros ix E H. induction H as [|[[r c] v] E [Hr Hc] _ IH]; [reflexivity|].
    simpl in Hr, Hc. simpl. rewrite IH, !all_idx_nth by assumption. reflexivity.
  Qed.

  Theorem permute_law : forall dims order ix E i j,
    indexer_init dims order = inr ix -> allpos dims ->
    in_range C (prod dims) E -> i < prod dims -> j < prod dims ->
    den (perm_map ix E) (single ix i) (single ix j) = den E i j.
  Proof.
    intros dims order ix E i j Hi Hp HE Hlt Hlt'.
    destruct (indexer_single_bijective dims order ix Hi Hp) as (_ & Inj).
    induction HE as [|[[r c] v] E [Hr Hc] _ IH]; [reflexivity|].
    simpl in Hr, Hc. cbn [perm_map map C09.den]. fold (perm_map ix E). rewrite IH.
    assert (E1 : (single ix r =? single ix i) = (r =? i)).
    { destruct (Nat.eqb_spec r i) as [Q0|Q0]; [subst; apply Nat.eqb_refl|].
      apply Nat.eqb_neq. intro Q. apply Q0. apply Inj; assumption. }
    assert (E2 : (single ix c =? single ix j) = (c =? j)).
    { destruct (Nat.eqb_spec c j) as [Q0|Q0]; [subst; apply Nat.eqb_refl|].
      apply Nat.eqb_neq. intro Q. apply Q0. apply Inj; assumption. }
    rewrite E1, E2. reflexivity.
  Qed.
End PermLaw.

(* ------------------------------------------------------------------ *)
(* dimensions.py: _tensor_order (np.lexsort((flat == 1, -steps))) *)
Require Import Sorting.Sorted.

Definition tle (x y : titem) : Prop := t_le x y = true.

Lemma t_le_total : forall x y, t_le x y = false -> t_le y x = true.
Proof.
  intros [[sx ox] px] [[sy oy] py]. unfold t_le, t_step, t_one. simpl.
  destruct (Nat.ltb_spec sy sx) as [A|A]; simpl; [discriminate|].
  destruct (Nat.eqb_spec sx sy) as [E|E]; simpl.
  - subst sy. intros H. rewrite Nat.eqb_refl.
    destruct (Nat.ltb_spec sx sx) as [B|B]; [lia|]. simpl.
    destruct ox, oy; simpl in *; try discriminate; reflexivity.
  - intros _. destruct (Nat.ltb_spec sx sy) as [B|B]; [reflexivity|lia].
Qed.

Lemma t_insert_perm : forall x l, Permutation (t_insert x l) (x :: l).
Proof.
  intros x l. induction l as [|y t IH]; simpl; [apply Permutation_refl|].
  destruct (t_le x y); [apply Permutation_refl|].
  eapply Permutation_trans; [apply perm_skip; exact IH|apply perm_swap].
Qed.

Lemma t_sort_perm : forall l, Permutation (t_sort l) l.
Proof.
  induction l as [|x l IH]; simpl; [constructor|].
  eapply Permutation_trans; [apply t_insert_perm|apply perm_skip; exact IH].
Qed.

Lemma t_insert_sorted : forall x l, Sorted tle l -> Sorted tle (t_insert x l).
Proof.
  intros x l H. induction H as [|y t Ht IH Hd]; simpl.
  - repeat constructor.
  - destruct (t_le x y) eqn:E.
    + constructor; [constructor; assumption|constructor; exact E].
    + constructor; [exact IH|].
      destruct t as [|z t']; simpl.
      * constructor. apply t_le_total. exact E.
      * destruct (t_le x z) eqn:E2; constructor.
        -- apply t_le_total. exact E.
        -- inversion Hd; assumption.
Qed.

Lemma t_sort_sorted : forall l, Sorted tle (t_sort l).
Proof. induction l as [|x l IH]; simpl; [constructor|apply t_insert_sorted; exact IH]. Qed.

(* a list that is already in order is left alone (stability included) *)
Lemma t_sort_id : forall l, Sorted tle l -> t_sort l = l.
Proof.
  intros l H. induction H as [|x t Ht IH Hd]; [reflexivity|].
  simpl. rewrite IH. destruct Hd as [|y t' Hxy]; [reflexivity|].
  simpl. unfold tle in Hxy. rewrite Hxy. reflexivity.
Qed.

Lemma map_snd_combine_seq : forall (A : Type) (X : list A) k,
  map snd (combine X (seq k (length X))) = seq k (length X).
Proof.
  intros A X. induction X as [|a X IH]; intros k; simpl; [reflexivity|]. rewrite IH. reflexivity.
Qed.

Lemma tensor_order_positions : forall st fl, length st = length fl ->
  map t_pos (t_items st fl) = seq 0 (length st).
Proof.
  intros st fl HL. unfold t_items. rewrite map_map.
  assert (E : length st = length (combine st fl)) by (rewrite combine_length; lia).
  rewrite E. exact (map_snd_combine_seq _ (combine st fl) 0).
Qed.

(* general: the order is a permutation of the positions, and lists the items
   by decreasing step, ties: dimension > 1 first *)
Theorem tensor_order_perm_sorted : forall st fl, length st = length fl ->
  Permutation (tensor_order st fl) (seq 0 (length st)) /\
  Sorted tle (t_sort (t_items st fl)).
Proof.
  intros st fl HL. split; [|apply t_sort_sorted].
  unfold tensor_order. rewrite <- (tensor_order_positions st fl HL).
  apply Permutation_map. apply t_sort_perm.
Qed.

(* items of a simple space, positions starting at k *)
Definition items_from (k : nat) (dims : list nat) : list titem :=
  map (fun p => (fst (fst p), snd (fst p) =? 1, snd p))
      (combine (combine (suffix_prods dims) dims) (seq k (length dims))).

Lemma suffix_prods_length : forall l, length (suffix_prods l) = length l.
Proof. induction l; simpl; congruence. Qed.

Lemma items_from_sorted : forall dims k, allpos dims -> Sorted tle (items_from k dims).
Proof.
  induction dims as [|d t IH]; intros k Hp; [constructor|].
  inversion Hp as [|? ? Hd Ht]; subst.
  unfold items_from. simpl. constructor; [apply (IH (S k) Ht)|].
  destruct t as [|d' t']; simpl; [constructor|].
  constructor. unfold tle, t_le, t_step, t_one. simpl.
  inversion Ht as [|? ? Hd' Ht']; subst. pose proof (prod_pos t' Ht') as Hpp.
  fold (prod t').
  destruct (Nat.eqb_spec d' 1) as [E|E].
  - subst d'. rewrite Nat.mul_1_l. rewrite Nat.ltb_irrefl, Nat.eqb_refl. simpl.
    rewrite orb_true_r. reflexivity.
  - assert (L : (prod t' <? d' * prod t') = true) by (apply Nat.ltb_lt; nia).
    rewrite L. reflexivity.
Qed.

(* for a simple space (ket, bra, operator side) the tensor indices are in the
   order of dims, 1-dimensional factors included *)
Theorem tensor_order_simple : forall dims, allpos dims ->
  tensor_order (steps dims) dims = seq 0 (length dims).
Proof.
  intros dims Hp. unfold tensor_order.
  assert (HL : length (steps dims) = length dims) by apply suffix_prods_length.
  rewrite t_sort_id.
  - rewrite tensor_order_positions by exact HL. rewrite HL. reflexivity.
  - pose proof (items_from_sorted dims 0 Hp) as S. unfold items_from in S.
    unfold t_items, steps. rewrite suffix_prods_length. exact S.
Qed.

Lemma pos_of_seq : forall k a v, a <= v -> v < a + k -> pos_of v (seq a k) = v - a.
Proof.
  induction k as [|k IH]; intros a v H1 H2; [lia|]. simpl.
  destruct (Nat.eqb_spec v a) as [E|E]; [lia|]. rewrite IH by lia. lia.
Qed.

Lemma inverse_perm_seq : forall k, inverse_perm (seq 0 k) = seq 0 k.
Proof.
  intros k. unfold inverse_perm. rewrite seq_length.
  transitivity (map (fun v : nat => v) (seq 0 k)); [|apply map_id].
  apply map_ext_in.
  intros v Hv. apply in_seq in Hv. rewrite pos_of_seq by lia. lia.
Qed.

Lemma map_add_seq : forall n m, map (fun x => x + n) (seq 0 m) = seq n m.
Proof.
  intros n m. revert n. induction m as [|m IH]; intros n; [reflexivity|].
  simpl. f_equal. rewrite <- seq_shift, map_map.
  rewrite <- (IH (S n)). apply map_ext. intros; lia.
Qed.

Theorem tensor_perm_simple : forall fl fr, allpos fl -> allpos fr ->
  get_tensor_perm (steps fl) (steps fr) fl fr = seq 0 (length fl + length fr) /\
  get_tensor_shape (steps fl) (steps fr) fl fr = fl ++ fr.
Proof.
  intros fl fr Hl Hr. unfold get_tensor_perm, get_tensor_shape.
  rewrite (tensor_order_simple fl Hl), (tensor_order_simple fr Hr).
  rewrite seq_length, map_add_seq, <- seq_app, inverse_perm_seq, !gather_seq. split; reflexivity.
Qed.

Lemma map_nth_seq_pairs : forall N (pairs : list (nat * nat)),
  (forall p, In p pairs -> fst p < N /\ snd p < N) ->
  map (fun p => (nth (fst p) (seq 0 N) 0, nth (snd p) (seq 0 N) 0)) pairs = pairs.
Proof.
  intros N pairs H. transitivity (map (fun p : nat * nat => p) pairs); [|apply map_id].
  apply map_ext_in.
  intros [a b] Hp. destruct (H _ Hp) as [A B]. simpl in *. rewrite !seq_nth by assumption. reflexivity.
Qed.

(* tensor_swap exchanges the named digits: every dims list, 1s included *)
Theorem tensor_swap_index_correct : forall fl fr pairs f, allpos fl -> allpos fr ->
  (forall p, In p pairs -> fst p < length fl + length fr /\ snd p < length fl + length fr) ->
  tensor_swap_index (steps fl) (steps fr) fl fr pairs f = tensor_swap_spec fl fr pairs f.
Proof.
  intros fl fr pairs f Hl Hr Hp. unfold tensor_swap_index, tensor_swap_spec.
  destruct (tensor_perm_simple fl fr Hl Hr) as [P S]. rewrite P, S.
  rewrite map_nth_seq_pairs by exact Hp. rewrite app_length. reflexivity.
Qed.

(* _tensor_contract_single *)
Lemma contract_at_correct : forall i j, contract_at_code i j = numpy_adv_axis i j.
Proof.
  intros i j. unfold contract_at_code, numpy_adv_axis, absdiff.
  destruct (Nat.leb_spec i j) as [L|L];
    destruct (Nat.eqb_spec j (i + 1)) as [A|A]; destruct (Nat.eqb_spec i (j + 1)) as [B|B]; simpl;
    try lia.
  - assert (E : (j - i =? 1) = true) by (apply Nat.eqb_eq; lia). rewrite E. reflexivity.
  - assert (E : (j - i =? 1) = false) by (apply Nat.eqb_neq; lia). rewrite E. reflexivity.
  - assert (E : (i - j =? 1) = true) by (apply Nat.eqb_eq; lia). rewrite E. reflexivity.
  - assert (E : (i - j =? 1) = false) by (apply Nat.eqb_neq; lia). rewrite E. reflexivity.
Qed.

(* ------------------------------------------------------------------ *)
(* partial trace of a Kronecker product *)
Require Import Ring.

Section ProductTheorem.
  Variable C : Type.
  Variables c0 c1 : C.
  Variables cadd cmul : C -> C -> C.
  Hypothesis SR : semi_ring_theory c0 c1 cadd cmul (@eq C).
  Add Ring CRing : SR.

  Notation sum_upto := (sum_upto C c0 cadd).
  Notation mat := (mat C).
  Notation kron_list := (kron_list C c1 cmul).
  Notation tr_list := (tr_list C c0 c1 cadd cmul).

  Let add_comm := SRadd_comm SR.
  Let add_assoc := SRadd_assoc SR.
  Let add_0_l := SRadd_0_l SR.

  Lemma sum_mul_l : forall n k f, sum_upto n (fun i => cmul k (f i)) = cmul k (sum_upto n f).
  Proof. induction n as [|n IH]; intros k f; simpl; [ring|]. rewrite IH. ring. Qed.

  Lemma sum_upto_plus : forall a b h,
    sum_upto (a + b) h = cadd (sum_upto a h) (sum_upto b (fun i => h (a + i))).
  Proof.
    intros a b h. induction b as [|b IH]; simpl.
    - rewrite Nat.add_0_r. ring.
    - rewrite Nat.add_succ_r. simpl. rewrite IH. ring.
  Qed.

  (* a sum over a two-digit mixed-radix range factorises *)
  Lemma sum_split : forall P d f g, 0 < P ->
    sum_upto (d * P) (fun tau => cmul (f (tau / P)) (g (tau mod P))) =
    cmul (sum_upto d f) (sum_upto P g).
  Proof.
    intros P d f g HP. induction d as [|d IH]; simpl; [ring|].
    rewrite Nat.add_comm, sum_upto_plus, IH.
    rewrite (sum_upto_ext C c0 cadd P
               (fun i => cmul (f ((d * P + i) / P)) (g ((d * P + i) mod P)))
               (fun u => cmul (f d) (g u))).
    - rewrite sum_mul_l. ring.
    - intros u Hu.
      assert (Q : (d * P + u) / P = d) by (symmetry; apply Nat.div_unique with (r := u); lia).
      assert (R : (d * P + u) mod P = u) by (symmetry; apply Nat.mod_unique with (q := d); lia).
      rewrite Q, R. reflexivity.
  Qed.

  (* products along digit lists *)
  Fixpoint kron_dig (As : list mat) (xs ys : list nat) : C :=
    match As, xs, ys with
    | A :: As', x :: xs', y :: ys' => cmul (A x y) (kron_dig As' xs' ys')
    | _, _, _ => c1
    end.
  Definition diag_dig (Bs : list mat) (ys : list nat) : C := kron_dig Bs ys ys.

  Lemma kron_list_digits : forall As dims i j, length As = length dims ->
    kron_list As dims i j = kron_dig As (digits dims i) (digits dims j).
  Proof.
    induction As as [|A As IH]; intros dims i j HL; destruct dims as [|d t]; simpl in HL;
      try discriminate; [reflexivity|].
    injection HL as HL. simpl. rewrite (IH t _ _ HL). reflexivity.
  Qed.

  Lemma kron_dig_weave : forall mask (As : list mat) xs xs' ys,
    length As = length mask ->
    length xs = length (select mask mask) -> length xs' = length (select mask mask) ->
    length ys = length (select (map negb mask) mask) ->
    kron_dig As (weave mask xs ys) (weave mask xs' ys) =
    cmul (kron_dig (select mask As) xs xs') (diag_dig (select (map negb mask) As) ys).
  Proof.
    induction mask as [|b m IH]; intros As xs xs' ys HA Hx Hx' Hy;
      destruct As as [|A As]; simpl in HA; try discriminate.
    - simpl. unfold diag_dig. simpl. ring.
    - injection HA as HA. destruct b; simpl in Hx, Hx', Hy.
      + destruct xs as [|x xs]; [discriminate|]. destruct xs' as [|x' xs']; [discriminate|].
        injection Hx as Hx. injection Hx' as Hx'.
        simpl. rewrite (IH As xs xs' ys HA Hx Hx' Hy). ring.
      + destruct ys as [|y ys]; [discriminate|]. injection Hy as Hy.
        simpl. rewrite (IH As xs xs' ys HA Hx Hx' Hy). unfold diag_dig. simpl. ring.
  Qed.

  (* sum over all traced multi-indices of the diagonal products = product of traces *)
  Lemma sum_diag_traces : forall (Bs : list mat) td, length Bs = length td -> allpos td ->
    sum_upto (prod td) (fun tau => diag_dig Bs (digits td tau)) = tr_list Bs td.
  Proof.
    induction Bs as [|B Bs IH]; intros td HL Hp; destruct td as [|d t]; simpl in HL; try discriminate.
    - unfold diag_dig. simpl. ring.
    - injection HL as HL. inversion Hp as [|? ? Hd Ht]; subst.
      pose proof (prod_pos t Ht) as Hpt.
      change (prod (d :: t)) with (d * prod t).
      simpl tr_list. unfold mtrace. rewrite <- (IH t HL Ht).
      etransitivity;
        [|exact (sum_split (prod t) d (fun x => B x x)
                           (fun u => diag_dig Bs (digits t u)) Hpt)].
      apply sum_upto_ext. intros tau _. reflexivity.
  Qed.

  Theorem ptrace_of_product : forall (As : list mat) dims mask r c,
    allpos dims -> length As = length dims -> length dims = length mask ->
    r < prod (kept_dims dims mask) -> c < prod (kept_dims dims mask) ->
    ptrace_spec C c0 cadd dims mask (kron_list As dims) r c =
    cmul (tr_list (select (map negb mask) As) (traced_dims dims mask))
         (kron_list (select mask As) (kept_dims dims mask) r c).
  Proof.
    intros As dims mask r c Hp HA HL Hr Hc. unfold ptrace_spec.
    set (kd := kept_dims dims mask) in *. set (td := traced_dims dims mask).
    pose proof (allpos_select mask dims Hp) as Pk.
    pose proof (allpos_select (map negb mask) dims Hp) as Pt.
    pose proof (digits_valid kd r Pk Hr) as Vr. pose proof (digits_valid kd c Pk Hc) as Vc.
    assert (Lr : length (digits kd r) = length (select mask mask)).
    { rewrite (valid_length _ _ Vr). unfold kd, kept_dims. apply select_length_self. exact HL. }
    assert (Lc : length (digits kd c) = length (select mask mask)).
    { rewrite (valid_length _ _ Vc). unfold kd, kept_dims. apply select_length_self. exact HL. }
    assert (LA : length As = length mask) by congruence.
    rewrite (sum_upto_ext C c0 cadd (prod td) _
               (fun tau => cmul (kron_dig (select mask As) (digits kd r) (digits kd c))
                                (diag_dig (select (map negb mask) As) (digits td tau)))).
    - rewrite sum_mul_l. rewrite sum_diag_traces.
      + rewrite kron_list_digits.
        * fold kd. ring.
        * unfold kept_dims. apply select_length_mask; [exact LA|exact HL].
      + unfold td, traced_dims. apply select_length_mask; rewrite map_length; [exact LA|exact HL].
      + exact Pt.
    - intros tau Htau.
      pose proof (digits_valid td tau Pt Htau) as Vt.
      assert (Lt : length (digits td tau) = length (select (map negb mask) mask)).
      { rewrite (valid_length _ _ Vt). unfold td, traced_dims.
        apply select_length_mask; rewrite map_length; [exact HL|reflexivity]. }
      rewrite kron_list_digits by exact HA.
      unfold merge. fold kd td.
      rewrite !digits_undigits.
      + apply kron_dig_weave; assumption.
      + apply valid_weave; [exact HL|exact Vc|exact Vt].
      + apply valid_weave; [exact HL|exact Vr|exact Vt].
  Qed.
End ProductTheorem.

Lemma ptrace_spec_ext : forall (C : Type) (c0 : C) (cadd : C -> C -> C) dims mask M M' r c,
  allpos dims -> length dims = length mask ->
  (forall i j, i < prod dims -> j < prod dims -> M i j = M' i j) ->
  r < prod (kept_dims dims mask) -> c < prod (kept_dims dims mask) ->
  ptrace_spec C c0 cadd dims mask M r c = ptrace_spec C c0 cadd dims mask M' r c.
Proof.
  intros C c0 cadd dims mask M M' r c Hp HL HM Hr Hc. unfold ptrace_spec.
  apply sum_upto_ext. intros tau Ht.
  destruct (merge_range_i2kt dims mask Hp HL r tau Hr Ht) as [A _].
  destruct (merge_range_i2kt dims mask Hp HL c tau Hc Ht) as [B _].
  apply HM; assumption.
Qed.

(* ------------------------------------------------------------------ *)
(* superoperator.py: _to_super_of_tensor on factors over composite spaces *)

Lemma gather_app : forall o1 o2 l, gather (o1 ++ o2) l = gather o1 l ++ gather o2 l.
Proof. intros. unfold gather. apply map_app. Qed.

Lemma gather_window : forall pre x post,
  gather (map (fun i => length pre + i) (seq 0 (length x))) (pre ++ x ++ post) = x.
Proof.
  intros pre x post. unfold gather. rewrite map_map.
  rewrite <- (gather_seq x) at 2. unfold gather. apply map_ext_in.
  intros i Hi. apply in_seq in Hi.
  rewrite app_nth2_plus. apply app_nth1. lia.
Qed.

(* flat index labels of a tensor of superoperators: for every factor its row
   ("to") labels, then its column ("from") labels *)
Definition tensor_of_supers_labels (ls rs : list (list nat)) : list nat :=
  concat (map (fun p => fst p ++ snd p) (combine ls rs)).

Lemma sot_lists_cons : forall shift n t,
  sot_lists shift (n :: t) =
  (map (fun i => shift + i) (seq 0 n) ++ fst (sot_lists (shift + 2 * n) t),
   map (fun i => shift + n + i) (seq 0 n) ++ snd (sot_lists (shift + 2 * n) t)).
Proof.
  intros. cbn [sot_lists]. destruct (sot_lists (shift + 2 * n) t) as [a b]. reflexivity.
Qed.

Lemma sot_lists_groups : forall ls rs, Forall2 (fun l r => length l = length r) ls rs ->
  forall pre,
  gather (fst (sot_lists (length pre) (map (@length nat) ls))) (pre ++ tensor_of_supers_labels ls rs)
    = concat ls /\
  gather (snd (sot_lists (length pre) (map (@length nat) ls))) (pre ++ tensor_of_supers_labels ls rs)
    = concat rs.
Proof.
  intros ls rs H. induction H as [|l r ls rs Hlr _ IH]; intros pre.
  - simpl. split; reflexivity.
  - unfold tensor_of_supers_labels. cbn [map combine concat fst snd].
    fold (tensor_of_supers_labels ls rs).
    rewrite sot_lists_cons. cbn [fst snd].
    specialize (IH (pre ++ l ++ r)).
    assert (E : length (pre ++ l ++ r) = length pre + 2 * length l)
      by (rewrite !app_length; lia).
    rewrite E in IH.
    assert (B : pre ++ (l ++ r) ++ tensor_of_supers_labels ls rs
                = (pre ++ l ++ r) ++ tensor_of_supers_labels ls rs)
      by (rewrite <- !app_assoc; reflexivity).
    destruct IH as [IHa IHb]. rewrite !gather_app. split.
    + f_equal.
      * rewrite <- app_assoc. apply gather_window.
      * rewrite B. exact IHa.
    + f_equal.
      * replace (pre ++ (l ++ r) ++ tensor_of_supers_labels ls rs)
          with ((pre ++ l) ++ r ++ tensor_of_supers_labels ls rs)
          by (rewrite <- !app_assoc; reflexivity).
        rewrite (map_ext (fun i => length pre + length l + i) (fun i => length (pre ++ l) + i))
          by (intros; rewrite app_length; reflexivity).
        rewrite Hlr. apply gather_window.
      * rewrite B. exact IHb.
Qed.

Theorem super_of_tensor_groups : forall ls rs,
  Forall2 (fun l r => length l = length r) ls rs ->
  gather (super_of_tensor_order (map (@length nat) ls)) (tensor_of_supers_labels ls rs)
  = concat ls ++ concat rs.
Proof.
  intros ls rs H. unfold super_of_tensor_order.
  destruct (sot_lists_groups ls rs H []) as [A B]. simpl in A, B.
  destruct (sot_lists 0 (map (@length nat) ls)) as [a b]. simpl in *.
  rewrite gather_app, A, B. reflexivity.
Qed.

(* ------------------------------------------------------------------ *)
(* tensor.py: expand_operator's new_order, for every register size *)

Lemma nth_set_nth_eq : forall l k x, k < length l -> nth k (set_nth l k x) 0 = x.
Proof.
  induction l as [|y l IH]; intros [|k] x H; simpl in *; try lia; try reflexivity.
  apply IH. lia.
Qed.

Lemma assign_pairs_length : forall pv no, length (assign_pairs no pv) = length no.
Proof.
  induction pv as [|[p v] pv IH]; intros no; simpl; [reflexivity|].
  rewrite IH. apply set_nth_length.
Qed.

Lemma assign_pairs_notin : forall pv no q, ~ In q (map fst pv) ->
  nth q (assign_pairs no pv) 0 = nth q no 0.
Proof.
  induction pv as [|[p v] pv IH]; intros no q H; simpl; [reflexivity|].
  simpl in H. rewrite IH by tauto. apply nth_set_nth_neq. intro E. apply H. left. congruence.
Qed.

Lemma assign_pairs_in : forall pv no p v, NoDup (map fst pv) ->
  (forall q, In q (map fst pv) -> q < length no) -> In (p, v) pv ->
  nth p (assign_pairs no pv) 0 = v.
Proof.
  induction pv as [|[p0 v0] pv IH]; intros no p v ND HB Hin; [destruct Hin|].
  simpl in ND. inversion ND as [|? ? Hn ND']; subst. simpl.
  destruct Hin as [E|Hin].
  - injection E as E1 E2. subst p0 v0.
    rewrite assign_pairs_notin by exact Hn. apply nth_set_nth_eq. apply HB. left. reflexivity.
  - apply IH; [exact ND'| |exact Hin].
    intros q Hq. rewrite set_nth_length. apply HB. right. exact Hq.
Qed.

Lemma assign_pairs_app : forall pv1 pv2 no,
  assign_pairs (assign_pairs no pv1) pv2 = assign_pairs no (pv1 ++ pv2).
Proof. induction pv1 as [|[p v] pv1 IH]; intros; simpl; [reflexivity|apply IH]. Qed.

Lemma in_combine_nth : forall (a b : list nat) i, i < length a -> length a = length b ->
  In (nth i a 0, nth i b 0) (combine a b).
Proof.
  induction a as [|x a IH]; intros [|y b] i Hi HL; simpl in *; try lia.
  destruct i as [|i]; [left; reflexivity|right]. apply IH; lia.
Qed.

Lemma map_fst_combine_eq : forall (a b : list nat), length a = length b ->
  map fst (combine a b) = a.
Proof.
  induction a as [|x a IH]; intros [|y b] HL; simpl in *; try discriminate; [reflexivity|].
  f_equal. apply IH. lia.
Qed.

Lemma rest_pos_spec : forall N targets q,
  In q (rest_pos N targets) <-> q < N /\ ~ In q targets.
Proof.
  intros. unfold rest_pos. rewrite filter_In, in_seq.
  destruct (memb q targets) eqn:M.
  - apply memb_In in M. simpl. split; [intros [_ F]; discriminate|tauto].
  - simpl. split; [intros [A _]; split; [lia|]|intros [A _]; split; [lia|reflexivity]].
    intro Hi. apply memb_In in Hi. congruence.
Qed.

Lemma filter_length_split : forall (f : nat -> bool) l,
  length (filter f l) + length (filter (fun x => negb (f x)) l) = length l.
Proof.
  intros f l. induction l as [|x l IH]; simpl; [reflexivity|].
  destruct (f x); simpl; lia.
Qed.

Lemma rest_pos_length : forall N targets, NoDup targets ->
  (forall t, In t targets -> t < N) ->
  length (rest_pos N targets) = N - length targets.
Proof.
  intros N targets ND HB. unfold rest_pos.
  pose proof (filter_length_split (fun q => memb q targets) (seq 0 N)) as S.
  rewrite seq_length in S.
  assert (P : Permutation (filter (fun q => memb q targets) (seq 0 N)) targets).
  { apply NoDup_Permutation; [apply NoDup_filter; apply seq_NoDup|exact ND|].
    intros x. rewrite filter_In, in_seq, memb_In. split; [tauto|].
    intros Hx. specialize (HB x Hx). split; [lia|exact Hx]. }
  apply Permutation_length in P. lia.
Qed.

Lemma NoDup_app_disjoint : forall (a b : list nat), NoDup a -> NoDup b ->
  (forall x, In x a -> ~ In x b) -> NoDup (a ++ b).
Proof.
  induction a as [|x a IH]; intros b Ha Hb Hd; simpl; [exact Hb|].
  inversion Ha as [|? ? Hn Ha']; subst. constructor.
  - rewrite in_app_iff. intros [H|H]; [tauto|]. apply (Hd x); [left; reflexivity|exact H].
  - apply IH; [exact Ha'|exact Hb|]. intros y Hy. apply Hd. right. exact Hy.
Qed.

Section ExpandOrder.
  Variable N : nat.
  Variable targets : list nat.
  Hypothesis ND : NoDup targets.
  Hypothesis HB : forall t, In t targets -> t < N.

  Let k := length targets.
  Let rest := rest_pos N targets.
  Let no := expand_new_order N targets.
  Let pv := combine targets (seq 0 k) ++ combine rest (seq k (N - k)).

  Lemma expand_rest_length : length rest = N - k.
  Proof. unfold rest, k. apply rest_pos_length; assumption. Qed.

  Lemma expand_order_as_one_pass : no = assign_pairs (repeat 0 N) pv.
  Proof. unfold no, expand_new_order, pv. rewrite assign_pairs_app. reflexivity. Qed.

  Lemma expand_keys : map fst pv = targets ++ rest.
  Proof.
    unfold pv. rewrite map_app, !map_fst_combine_eq; [reflexivity| |].
    - rewrite seq_length. apply expand_rest_length.
    - rewrite seq_length. reflexivity.
  Qed.

  Lemma expand_keys_nodup : NoDup (targets ++ rest).
  Proof.
    apply NoDup_app_disjoint; [exact ND|apply NoDup_filter; apply seq_NoDup|].
    intros x Hx Hr. apply rest_pos_spec in Hr. tauto.
  Qed.

  Lemma expand_keys_bound : forall q, In q (targets ++ rest) -> q < N.
  Proof.
    intros q Hq. apply in_app_iff in Hq. destruct Hq as [H|H]; [apply HB; exact H|].
    apply rest_pos_spec in H. tauto.
  Qed.

  Lemma expand_k_le : k <= N.
  Proof.
    unfold k. rewrite <- (seq_length N 0). apply NoDup_incl_length; [exact ND|].
    intros x Hx. apply in_seq. specialize (HB x Hx). lia.
  Qed.

  Lemma expand_order_length : length no = N.
  Proof. rewrite expand_order_as_one_pass, assign_pairs_length, repeat_length. reflexivity. Qed.

  (* factor i of the operand is sent to subsystem targets[i] *)
  Lemma expand_order_targets : forall i, i < k -> nth (nth i targets 0) no 0 = i.
  Proof.
    intros i Hi. rewrite expand_order_as_one_pass.
    apply assign_pairs_in.
    - rewrite expand_keys. apply expand_keys_nodup.
    - intros q Hq. rewrite expand_keys in Hq. rewrite repeat_length. apply expand_keys_bound. exact Hq.
    - unfold pv. apply in_or_app. left.
      replace i with (nth i (seq 0 k) 0) at 2 by (rewrite seq_nth; lia).
      apply in_combine_nth; [exact Hi|rewrite seq_length; reflexivity].
  Qed.

  (* the j-th identity is sent to the j-th position that is not a target *)
  Lemma expand_order_rest : forall j, j < N - k -> nth (nth j rest 0) no 0 = k + j.
  Proof.
    intros j Hj. rewrite expand_order_as_one_pass.
    apply assign_pairs_in.
    - rewrite expand_keys. apply expand_keys_nodup.
    - intros q Hq. rewrite expand_keys in Hq. rewrite repeat_length. apply expand_keys_bound. exact Hq.
    - unfold pv. apply in_or_app. right.
      replace (k + j) with (nth j (seq k (N - k)) 0) by (rewrite seq_nth; lia).
      apply in_combine_nth; [rewrite expand_rest_length; exact Hj|].
      rewrite seq_length. apply expand_rest_length.
  Qed.

  (* new_order composed with (targets ++ rest) is the identity *)
  Lemma expand_order_inverse : forall m, m < N -> nth (nth m (targets ++ rest) 0) no 0 = m.
  Proof.
    intros m Hm. pose proof expand_k_le as KL. destruct (Nat.lt_ge_cases m k) as [L|L].
    - rewrite app_nth1 by exact L. apply expand_order_targets. exact L.
    - rewrite app_nth2 by exact L. fold k. rewrite expand_order_rest by lia. lia.
  Qed.

  Lemma expand_inv_length : length (targets ++ rest) = N.
  Proof. pose proof expand_k_le. rewrite app_length, expand_rest_length. fold k. lia. Qed.

  (* new_order is a permutation of 0..N-1 *)
  Lemma expand_order_perm : NoDup no /\ (forall o, In o no -> o < N).
  Proof.
    pose proof expand_inv_length as IL. pose proof expand_order_length as OL.
    assert (COV : forall p, p < N -> exists m, m < N /\ nth m (targets ++ rest) 0 = p).
    { intros p Hp.
      pose proof (order_covers N (targets ++ rest) expand_keys_nodup IL expand_keys_bound p Hp) as Hin.
      destruct (In_nth _ _ 0 Hin) as (m & Hm & E). exists m. split; [lia|exact E]. }
    split.
    - apply (NoDup_nth no 0). intros p q Hp Hq E. rewrite OL in Hp, Hq.
      destruct (COV p Hp) as (m & Hm & Em). destruct (COV q Hq) as (m' & Hm' & Em').
      subst p q. rewrite !expand_order_inverse in E by assumption. congruence.
    - intros o Ho. destruct (In_nth _ _ 0 Ho) as (p & Hp & E). rewrite OL in Hp.
      destruct (COV p Hp) as (m & Hm & Em). subst p. rewrite expand_order_inverse in E by exact Hm. lia.
  Qed.

  (* what the permutation does to any list of per-subsystem data laid out as
     [operand factors..., identities...] (dims, digits): subsystem targets[i]
     receives entry i, the j-th other subsystem receives entry k + j *)
  Lemma expand_gather_targets : forall ds i, i < k ->
    nth (nth i targets 0) (gather no ds) 0 = nth i ds 0.
  Proof.
    intros ds i Hi. unfold gather.
    assert (B : nth i targets 0 < length no).
    { rewrite expand_order_length. apply HB. apply nth_In. exact Hi. }
    rewrite (nth_indep _ 0 (nth (length ds) ds 0)) by (rewrite map_length; exact B).
    rewrite (map_nth (fun o => nth o ds 0) no (length ds)).
    rewrite (nth_indep no (length ds) 0) by exact B.
    rewrite expand_order_targets by exact Hi. reflexivity.
  Qed.

  Lemma expand_gather_rest : forall ds j, j < N - k ->
    nth (nth j rest 0) (gather no ds) 0 = nth (k + j) ds 0.
  Proof.
    intros ds j Hj. unfold gather.
    assert (B : nth j rest 0 < length no).
    { rewrite expand_order_length.
      assert (I : In (nth j rest 0) rest) by (apply nth_In; rewrite expand_rest_length; exact Hj).
      apply rest_pos_spec in I. tauto. }
    rewrite (nth_indep _ 0 (nth (length ds) ds 0)) by (rewrite map_length; exact B).
    rewrite (map_nth (fun o => nth o ds 0) no (length ds)).
    rewrite (nth_indep no (length ds) 0) by exact B.
    rewrite expand_order_rest by exact Hj. reflexivity.
  Qed.
End ExpandOrder.

Lemma gather_nth : forall order l i, i < length order ->
  nth i (gather order l) 0 = nth (nth i order 0) l 0.
Proof.
  intros order l i Hi. unfold gather.
  rewrite (nth_indep _ 0 (nth (length l) l 0)) by (rewrite map_length; exact Hi).
  rewrite (map_nth (fun o => nth o l 0) order (length l)).
  f_equal. apply nth_indep. exact Hi.
Qed.

Lemma gather_length : forall order l, length (gather order l) = length order.
Proof. intros. unfold gather. apply map_length. Qed.

Lemma expand_cover : forall N targets, NoDup targets -> (forall t, In t targets -> t < N) ->
  forall p, p < N ->
  (exists i, i < length targets /\ nth i targets 0 = p) \/
  (exists j, j < N - length targets /\ nth j (rest_pos N targets) 0 = p).
Proof.
  intros N targets ND HB p Hp.
  destruct (in_dec Nat.eq_dec p targets) as [I|I].
  - left. destruct (In_nth _ _ 0 I) as (i & Hi & E). exists i. tauto.
  - right. assert (R : In p (rest_pos N targets)) by (apply rest_pos_spec; tauto).
    destruct (In_nth _ _ 0 R) as (j & Hj & E). exists j.
    rewrite (rest_pos_length N targets ND HB) in Hj. tauto.
Qed.

(* the structure handed to permute.dimensions, permuted by new_order, is dims *)
Theorem expand_structure_is_dims : forall dims targets,
  NoDup targets -> (forall t, In t targets -> t < length dims) ->
  gather (expand_new_order (length dims) targets) (expand_pre_dims dims targets) = dims.
Proof.
  intros dims targets ND HB. set (N := length dims).
  pose proof (expand_order_length N targets) as OL.
  apply nth_ext with (d := 0) (d' := 0); [rewrite gather_length; exact OL|].
  intros p Hp. rewrite gather_length, OL in Hp.
  unfold expand_pre_dims. fold N.
  destruct (expand_cover N targets ND HB p Hp) as [(i & Hi & E)|(j & Hj & E)]; subst p.
  - rewrite (expand_gather_targets N targets ND HB _ i Hi).
    rewrite app_nth1 by (rewrite gather_length; exact Hi).
    apply gather_nth. exact Hi.
  - rewrite (expand_gather_rest N targets ND HB _ j Hj).
    rewrite app_nth2 by (rewrite gather_length; lia).
    rewrite gather_length. replace (length targets + j - length targets) with j by lia.
    apply gather_nth. rewrite (rest_pos_length N targets ND HB). exact Hj.
Qed.

(* end to end: where expand_operator's final permute.dimensions sends the
   flat index whose digits (operand factors first, identities after) are ds *)
Theorem expand_index_map : forall dims targets ix ds,
  NoDup targets -> (forall t, In t targets -> t < length dims) ->
  indexer_init (expand_pre_dims dims targets) (expand_new_order (length dims) targets) = inr ix ->
  valid (expand_pre_dims dims targets) ds ->
  let es := gather (expand_new_order (length dims) targets) ds in
  single ix (undigits (expand_pre_dims dims targets) ds) = undigits dims es /\
  valid dims es /\
  (forall i, i < length targets -> nth (nth i targets 0) es 0 = nth i ds 0) /\
  (forall j, j < length dims - length targets ->
     nth (nth j (rest_pos (length dims) targets) 0) es 0 = nth (length targets + j) ds 0).
Proof.
  intros dims targets ix ds ND HB Hi Hv es.
  destruct (indexer_single_spec _ _ ix ds Hi Hv) as (S & _ & _ & V).
  rewrite (expand_structure_is_dims dims targets ND HB) in S, V.
  split; [exact S|]. split; [exact V|]. split.
  - intros i Hlt. apply (expand_gather_targets (length dims) targets ND HB ds i Hlt).
  - intros j Hlt. apply (expand_gather_rest (length dims) targets ND HB ds j Hlt).
Qed.

Lemma check_order_complete : forall n dims order seen,
  NoDup order ->
  (forall o, In o order -> o < n /\ ~ In o seen /\ 0 < nth o dims 0) ->
  check_order n dims seen order = None.
Proof.
  induction order as [|o order IH]; intros seen ND H; [reflexivity|].
  inversion ND as [|? ? Hn ND']; subst. simpl.
  destruct (H o (or_introl eq_refl)) as (A & B & Cc).
  destruct (Nat.leb_spec n o) as [L|L]; [lia|].
  destruct (memb o seen) eqn:M; [apply memb_In in M; tauto|].
  destruct (Nat.eqb_spec (nth o dims 0) 0) as [Z|Z]; [lia|].
  apply IH; [exact ND'|].
  intros o' Ho'. destruct (H o' (or_intror Ho')) as (A' & B' & C').
  split; [exact A'|]. split; [|exact C'].
  intros [E|E]; [subst; tauto|tauto].
Qed.

Lemma allpos_gather : forall order dims, allpos dims ->
  (forall o, In o order -> o < length dims) -> allpos (gather order dims).
Proof.
  intros order dims Hp HB. unfold allpos, gather. apply Forall_forall.
  intros d Hd. apply in_map_iff in Hd. destruct Hd as (o & E & Ho). subst d.
  unfold allpos in Hp. rewrite Forall_forall in Hp. apply Hp. apply nth_In. apply HB. exact Ho.
Qed.

(* expand_operator's final permute.dimensions never rejects its own order *)
Theorem expand_indexer_accepts : forall dims targets, allpos dims ->
  NoDup targets -> (forall t, In t targets -> t < length dims) ->
  exists ix, indexer_init (expand_pre_dims dims targets)
                          (expand_new_order (length dims) targets) = inr ix.
Proof.
  intros dims targets Hp ND HB. set (N := length dims).
  pose proof (expand_order_length N targets) as OL.
  destruct (expand_order_perm N targets ND HB) as [NDo HBo].
  assert (PL : length (expand_pre_dims dims targets) = N).
  { unfold expand_pre_dims. rewrite app_length, !gather_length. fold N.
    rewrite (rest_pos_length N targets ND HB).
    pose proof (expand_k_le N targets ND HB). lia. }
  assert (PP : allpos (expand_pre_dims dims targets)).
  { unfold expand_pre_dims. unfold allpos. apply Forall_app. split.
    - apply allpos_gather; assumption.
    - apply allpos_gather; [exact Hp|]. intros o Ho. apply rest_pos_spec in Ho. tauto. }
  unfold indexer_init. fold N. rewrite OL, PL, Nat.eqb_refl. simpl.
  rewrite check_order_complete.
  - eexists. reflexivity.
  - exact NDo.
  - intros o Ho. split; [apply HBo; exact Ho|]. split; [intros []|].
    unfold allpos in PP. rewrite Forall_forall in PP. apply PP. apply nth_In.
    rewrite PL. apply HBo. exact Ho.
Qed.

(* ------------------------------------------------------------------ *)
(* reshuffle: the two directions are mutually inverse, any number of factors *)

Lemma gather_flat_map : forall (f : nat -> list nat) l X,
  gather (flat_map f l) X = flat_map (fun i => gather (f i) X) l.
Proof.
  intros f l X. induction l as [|a l IH]; simpl; [reflexivity|].
  rewrite gather_app, IH. reflexivity.
Qed.

Lemma interleave_by_index : forall L R k, length L = length R ->
  flat_map (fun i => [nth (i - k) L 0; nth (i - k) R 0]) (seq k (length L)) = interleave L R.
Proof.
  induction L as [|x L IH]; intros R k HL; destruct R as [|y R]; simpl in HL; try discriminate;
    [reflexivity|].
  injection HL as HL. simpl. rewrite Nat.sub_diag. simpl. f_equal. f_equal.
  rewrite <- (IH R (S k) HL). rewrite !flat_map_concat_map. f_equal.
  apply map_ext_in. intros i Hi. apply in_seq in Hi.
  replace (i - k) with (S (i - S k)) by lia. reflexivity.
Qed.

(* _to_tensor_of_super on a superoperator space over s subsystems: rows L,
   columns R become (row, column) pairs per subsystem *)
Theorem tensor_of_super_interleaves : forall L R, length L = length R ->
  gather (tensor_of_super_order (length L)) (L ++ R) = interleave L R.
Proof.
  intros L R HL. unfold tensor_of_super_order. rewrite gather_flat_map.
  rewrite <- (interleave_by_index L R 0 HL). rewrite !flat_map_concat_map. f_equal.
  apply map_ext_in. intros i Hi. apply in_seq in Hi. simpl.
  rewrite Nat.sub_0_r. rewrite app_nth1 by lia.
  rewrite (Nat.add_comm i (length L)), app_nth2_plus. reflexivity.
Qed.

Lemma labels_singletons : forall L R, length L = length R ->
  tensor_of_supers_labels (map (fun x => [x]) L) (map (fun x => [x]) R) = interleave L R.
Proof.
  induction L as [|x L IH]; intros R HL; destruct R as [|y R]; simpl in HL; try discriminate;
    [reflexivity|].
  injection HL as HL. unfold tensor_of_supers_labels in *. simpl. rewrite (IH R HL). reflexivity.
Qed.

Lemma concat_singletons : forall L : list nat, concat (map (fun x => [x]) L) = L.
Proof. induction L as [|x L IH]; simpl; [reflexivity|]. rewrite IH. reflexivity. Qed.

Lemma lengths_singletons : forall L : list nat,
  map (@length nat) (map (fun x => [x]) L) = repeat 1 (length L).
Proof. induction L as [|x L IH]; simpl; [reflexivity|]. rewrite IH. reflexivity. Qed.

Lemma Forall2_singletons : forall L R : list nat, length L = length R ->
  Forall2 (fun l r : list nat => length l = length r) (map (fun x => [x]) L) (map (fun x => [x]) R).
Proof.
  induction L as [|x L IH]; intros R HL; destruct R as [|y R]; simpl in HL; try discriminate;
    simpl; constructor; [reflexivity|]. apply IH. lia.
Qed.

(* _to_super_of_tensor on a tensor of single-space superoperators *)
Theorem super_of_tensor_deinterleaves : forall L R, length L = length R ->
  gather (super_of_tensor_order (repeat 1 (length L))) (interleave L R) = L ++ R.
Proof.
  intros L R HL.
  rewrite <- (lengths_singletons L), <- (labels_singletons L R HL).
  rewrite (super_of_tensor_groups _ _ (Forall2_singletons L R HL)).
  rewrite !concat_singletons. reflexivity.
Qed.

Theorem reshuffle_round_trips : forall L R, length L = length R ->
  gather (tensor_of_super_order (length L))
         (gather (super_of_tensor_order (repeat 1 (length L))) (interleave L R)) = interleave L R /\
  gather (super_of_tensor_order (repeat 1 (length L)))
         (gather (tensor_of_super_order (length L)) (L ++ R)) = L ++ R.
Proof.
  intros L R HL. split.
  - rewrite (super_of_tensor_deinterleaves L R HL). apply tensor_of_super_interleaves. exact HL.
  - rewrite (tensor_of_super_interleaves L R HL). apply super_of_tensor_deinterleaves. exact HL.
Qed.

Lemma concat_lengths_eq : forall ls rs : list (list nat),
  Forall2 (fun l r => length l = length r) ls rs -> length (concat ls) = length (concat rs).
Proof.
  intros ls rs H. induction H as [|l r ls rs E _ IH]; simpl; [reflexivity|].
  rewrite !app_length. lia.
Qed.

(* reshuffle twice on a tensor of superoperators over composite spaces: one
   superoperator space per subsystem *)
Theorem reshuffle_twice_splits_subsystems : forall ls rs,
  Forall2 (fun l r => length l = length r) ls rs ->
  gather (tensor_of_super_order (length (concat ls)))
         (gather (super_of_tensor_order (map (@length nat) ls)) (tensor_of_supers_labels ls rs))
  = interleave (concat ls) (concat rs).
Proof.
  intros ls rs H. rewrite (super_of_tensor_groups ls rs H).
  apply tensor_of_super_interleaves. apply concat_lengths_eq. exact H.
Qed.

(* ---- the Compound branch of the private _to_tensor_of_super ---- *)
Definition per_factor_interleave (ls rs : list (list nat)) : list nat :=
  concat (map (fun p => interleave (fst p) (snd p)) (combine ls rs)).

Lemma gather_window_gen : forall pre X idxs,
  gather (map (fun i => length pre + i) idxs) (pre ++ X) = gather idxs X.
Proof.
  intros pre X idxs. unfold gather. rewrite map_map. apply map_ext.
  intros i. apply app_nth2_plus.
Qed.

Lemma tos_compound_head : forall shift n,
  map (fun i => shift + 2 * i) (seq 0 n) ++ map (fun i => shift + 2 * i + 1) (seq 0 n)
  = map (fun i => shift + i) (map (fun i => 2 * i) (seq 0 n) ++ map (fun i => 2 * i + 1) (seq 0 n)).
Proof.
  intros. rewrite map_app, !map_map. f_equal. apply map_ext. intros; lia.
Qed.

(* right when every factor is over at most 2 subsystems ... *)
Theorem tos_compound_small_factors : forall ls rs,
  Forall2 (fun l r => length l = length r) ls rs ->
  Forall (fun l => length l <= 2) ls ->
  forall pre,
  gather (tos_compound_order (length pre) (map (@length nat) ls))
         (pre ++ tensor_of_supers_labels ls rs) = per_factor_interleave ls rs.
Proof.
  intros ls rs H. induction H as [|l r ls rs Hlr _ IH]; intros Hs pre.
  - reflexivity.
  - inversion Hs as [|? ? Hl Hs']; subst.
    unfold tensor_of_supers_labels, per_factor_interleave.
    cbn [map combine concat fst snd tos_compound_order].
    fold (tensor_of_supers_labels ls rs). fold (per_factor_interleave ls rs).
    rewrite app_assoc, gather_app, tos_compound_head. f_equal.
    + rewrite gather_window_gen.
      destruct l as [|a [|b [|c l]]]; destruct r as [|a' [|b' [|c' r]]]; simpl in Hlr, Hl;
        try discriminate; try lia; reflexivity.
    + specialize (IH Hs' (pre ++ l ++ r)).
      assert (E : length (pre ++ l ++ r) = length pre + 2 * length l)
        by (rewrite !app_length; lia).
      rewrite E in IH. rewrite <- IH. f_equal. rewrite <- !app_assoc. reflexivity.
Qed.

(* ... and wrong for a factor over 3 subsystems: it should turn the grouped
   labels (rows, then columns) of the factor into (row, column) pairs *)
Theorem tos_compound_three_subsystems_wrong :
  exists ls rs, Forall2 (fun l r : list nat => length l = length r) ls rs /\
    gather (tos_compound_order 0 (map (@length nat) ls)) (tensor_of_supers_labels ls rs)
    <> per_factor_interleave ls rs.
Proof.
  exists [[10; 11; 12]], [[20; 21; 22]]. split; [repeat constructor|].
  vm_compute. discriminate.
Qed.

(* ------------------------------------------------------------------ *)
(* partial_transpose *)

Lemma choose_length : forall mask A B, length A = length mask -> length B = length mask ->
  length (choose mask A B) = length mask.
Proof.
  induction mask as [|m mask IH]; intros A B HA HB; destruct A, B; simpl in *; try discriminate;
    [reflexivity|]. rewrite IH; lia.
Qed.

Lemma nth_choose : forall mask A B a, length A = length mask -> length B = length mask ->
  nth a (choose mask A B) 0 = if nth a mask false then nth a B 0 else nth a A 0.
Proof.
  induction mask as [|m mask IH]; intros A B a HA HB; destruct A as [|x A], B as [|y B];
    simpl in *; try discriminate.
  - destruct a; reflexivity.
  - destruct a as [|a]; [destruct m; reflexivity|]. apply IH; lia.
Qed.

Lemma valid_choose : forall mask dims A B, valid dims A -> valid dims B ->
  length mask = length dims -> valid dims (choose mask A B).
Proof.
  intros mask dims A B HA. revert mask B.
  induction HA as [|x d A dims Hx _ IH]; intros mask B HB HL; inversion HB; subst;
    destruct mask as [|m mask]; simpl in HL; try discriminate; simpl; [constructor|].
  constructor; [destruct m; assumption|]. apply IH; [assumption|lia].
Qed.

Lemma choose_involutive : forall mask A B, length A = length mask -> length B = length mask ->
  choose mask (choose mask A B) (choose mask B A) = A /\
  choose mask (choose mask B A) (choose mask A B) = B.
Proof.
  induction mask as [|m mask IH]; intros A B HA HB; destruct A as [|x A], B as [|y B];
    simpl in *; try discriminate; [split; reflexivity|].
  destruct (IH A B) as [E1 E2]; try lia. rewrite E1, E2. destruct m; split; reflexivity.
Qed.

Lemma choose_same : forall mask d, length d = length mask -> choose mask d d = d.
Proof.
  induction mask as [|m mask IH]; intros d H; destruct d; simpl in *; try discriminate;
    [reflexivity|]. rewrite IH by lia. destruct m; reflexivity.
Qed.

(* the axis permutation of the dense method exchanges the masked row and
   column digits *)
Lemma gather_pt_idx : forall mask A B, length A = length mask -> length B = length mask ->
  gather (pt_idx mask) (A ++ B) = choose mask A B ++ choose mask B A.
Proof.
  intros mask A B HA HB. unfold pt_idx. cbv zeta. set (n := length mask).
  set (f1 := fun k => if nth k mask false then n + k else k).
  set (f2 := fun k => if nth k mask false then k else n + k).
  apply nth_ext with (d := 0) (d' := 0).
  - rewrite gather_length. rewrite !app_length. rewrite !map_length. rewrite seq_length.
    rewrite !choose_length by assumption. reflexivity.
  - intros a Ha. rewrite gather_length, app_length, !map_length, seq_length in Ha. fold n in Ha.
    rewrite gather_nth by (rewrite app_length, !map_length, seq_length; exact Ha).
    destruct (Nat.lt_ge_cases a n) as [L|L].
    + rewrite (app_nth1 (map _ _)) by (rewrite map_length, seq_length; exact L).
      rewrite (nth_indep (map f1 (seq 0 n)) 0 (f1 0))
        by (rewrite map_length, seq_length; exact L).
      rewrite map_nth, seq_nth by exact L. unfold f1. simpl.
      rewrite (app_nth1 (choose mask A B)) by (rewrite choose_length; assumption).
      rewrite nth_choose by assumption.
      destruct (nth a mask false).
      * replace (n + a) with (length A + a) by lia. apply app_nth2_plus.
      * apply app_nth1. lia.
    + rewrite (app_nth2 (map _ _)) by (rewrite map_length, seq_length; exact L).
      rewrite map_length, seq_length.
      assert (L2 : a - n < n) by lia.
      rewrite (nth_indep (map f2 (seq 0 n)) 0 (f2 0))
        by (rewrite map_length, seq_length; exact L2).
      rewrite map_nth, seq_nth by exact L2. unfold f2. simpl.
      rewrite (app_nth2 (choose mask A B)) by (rewrite choose_length; try assumption; lia).
      rewrite choose_length by assumption. fold n.
      rewrite nth_choose by assumption.
      destruct (nth (a - n) mask false).
      * apply app_nth1. lia.
      * replace (n + (a - n)) with (length A + (a - n)) by lia. apply app_nth2_plus.
Qed.

Lemma undigits_app : forall a b xs ys, length a = length xs ->
  undigits (a ++ b) (xs ++ ys) = undigits a xs * prod b + undigits b ys.
Proof.
  induction a as [|d a IH]; intros b xs ys HL; destruct xs as [|x xs]; simpl in HL; try discriminate.
  - simpl. lia.
  - simpl. rewrite IH by lia. rewrite prod_app. lia.
Qed.

Lemma valid_app : forall a b xs ys, valid a xs -> valid b ys -> valid (a ++ b) (xs ++ ys).
Proof. intros. apply Forall2_app; assumption. Qed.

Section PartialTranspose.
  Variable dims : list nat.
  Variable mask : list bool.
  Hypothesis Hpos : allpos dims.
  Hypothesis Hlen : length mask = length dims.

  Let N := prod dims.

  (* both methods, on digit lists *)
  Lemma pt_sparse_on_digits : forall A B, valid dims A -> valid dims B ->
    pt_sparse_index dims mask (undigits dims A) (undigits dims B) =
    (undigits dims (choose mask A B), undigits dims (choose mask B A)).
  Proof.
    intros A B HA HB. unfold pt_sparse_index.
    rewrite !digits_undigits by assumption. reflexivity.
  Qed.

  Lemma pt_dense_on_digits : forall A B, valid dims A -> valid dims B ->
    pt_dense_index dims mask (undigits dims A * N + undigits dims B) =
    undigits dims (choose mask A B) * N + undigits dims (choose mask B A).
  Proof.
    intros A B HA HB. unfold pt_dense_index, N.
    pose proof (valid_length _ _ HA) as LA. pose proof (valid_length _ _ HB) as LB.
    rewrite <- (undigits_app dims dims A B) by (symmetry; exact LA).
    rewrite digits_undigits by (apply valid_app; assumption).
    rewrite !gather_pt_idx by congruence.
    rewrite choose_same by congruence.
    apply undigits_app. rewrite choose_length; congruence.
  Qed.

  (* the dense (reshape/transpose) and sparse (index arithmetic) methods put
     every entry at the same place *)
  Theorem pt_methods_agree : forall m n, m < N -> n < N ->
    pt_dense_index dims mask (m * N + n) =
    fst (pt_sparse_index dims mask m n) * N + snd (pt_sparse_index dims mask m n).
  Proof.
    intros m n Hm Hn.
    pose proof (digits_valid dims m Hpos Hm) as VA. pose proof (digits_valid dims n Hpos Hn) as VB.
    pose proof (pt_dense_on_digits _ _ VA VB) as D.
    pose proof (pt_sparse_on_digits _ _ VA VB) as S.
    rewrite (undigits_digits dims m Hpos Hm), (undigits_digits dims n Hpos Hn) in D, S.
    rewrite D, S. reflexivity.
  Qed.

  (* partial transposition is an involution on index pairs and stays in range *)
  Theorem pt_sparse_involution : forall m n, m < N -> n < N ->
    let p := pt_sparse_index dims mask m n in
    fst p < N /\ snd p < N /\ pt_sparse_index dims mask (fst p) (snd p) = (m, n).
  Proof.
    intros m n Hm Hn p.
    pose proof (digits_valid dims m Hpos Hm) as VA. pose proof (digits_valid dims n Hpos Hn) as VB.
    pose proof (valid_length _ _ VA) as LA. pose proof (valid_length _ _ VB) as LB.
    pose proof (valid_choose mask dims _ _ VA VB Hlen) as V1.
    pose proof (valid_choose mask dims _ _ VB VA Hlen) as V2.
    unfold p, pt_sparse_index. simpl fst. simpl snd.
    split; [apply undigits_lt; exact V1|]. split; [apply undigits_lt; exact V2|].
    rewrite !digits_undigits by assumption.
    destruct (choose_involutive mask (digits dims m) (digits dims n)) as [E1 E2]; try congruence.
    rewrite E1, E2. rewrite !undigits_digits by assumption. reflexivity.
  Qed.

  (* digit k of the new row index is digit k of the old column index where
     the mask is set and of the old row index elsewhere (and symmetrically) *)
  Theorem pt_sparse_digits : forall m n, m < N -> n < N ->
    digits dims (fst (pt_sparse_index dims mask m n)) = choose mask (digits dims m) (digits dims n) /\
    digits dims (snd (pt_sparse_index dims mask m n)) = choose mask (digits dims n) (digits dims m).
  Proof.
    intros m n Hm Hn.
    pose proof (digits_valid dims m Hpos Hm) as VA. pose proof (digits_valid dims n Hpos Hn) as VB.
    unfold pt_sparse_index. simpl. split; apply digits_undigits; apply valid_choose; assumption.
  Qed.

  Variable C : Type.
  Variable c0 : C.
  Variable cadd : C -> C -> C.

  (* action on the entries *)
  Theorem pt_entries_law : forall E i j, in_range C N E -> i < N -> j < N ->
    den C c0 cadd (pt_entries_sparse C dims mask E)
        (fst (pt_sparse_index dims mask i j)) (snd (pt_sparse_index dims mask i j))
    = den C c0 cadd E i j.
  Proof.
    intros E i j HE Hi Hj. induction HE as [|[[r c] v] E [Hr Hc] _ IH]; [reflexivity|].
    simpl in Hr, Hc. cbn [pt_entries_sparse map C09.den]. fold (pt_entries_sparse C dims mask E).
    rewrite IH.
    assert (Q : ((fst (pt_sparse_index dims mask r c) =? fst (pt_sparse_index dims mask i j))
                 && (snd (pt_sparse_index dims mask r c) =? snd (pt_sparse_index dims mask i j)))
                = ((r =? i) && (c =? j))).
    { assert (Inj : fst (pt_sparse_index dims mask r c) = fst (pt_sparse_index dims mask i j) ->
                    snd (pt_sparse_index dims mask r c) = snd (pt_sparse_index dims mask i j) ->
                    r = i /\ c = j).
      { intros F1 F2.
        destruct (pt_sparse_involution r c Hr Hc) as (_ & _ & I1).
        destruct (pt_sparse_involution i j Hi Hj) as (_ & _ & I2).
        rewrite F1, F2 in I1. rewrite I1 in I2. injection I2 as X Y. split; assumption. }
      destruct (Nat.eqb_spec (fst (pt_sparse_index dims mask r c))
                             (fst (pt_sparse_index dims mask i j))) as [F1|F1];
        destruct (Nat.eqb_spec (snd (pt_sparse_index dims mask r c))
                               (snd (pt_sparse_index dims mask i j))) as [F2|F2]; simpl.
      - destruct (Inj F1 F2) as [X Y]. rewrite X, Y, !Nat.eqb_refl. reflexivity.
      - symmetry. apply andb_false_iff.
        destruct (Nat.eqb_spec r i) as [X|X]; [|left; reflexivity].
        destruct (Nat.eqb_spec c j) as [Y|Y]; [|right; reflexivity].
        exfalso. apply F2. rewrite X, Y. reflexivity.
      - symmetry. apply andb_false_iff.
        destruct (Nat.eqb_spec r i) as [X|X]; [|left; reflexivity].
        destruct (Nat.eqb_spec c j) as [Y|Y]; [|right; reflexivity].
        exfalso. apply F1. rewrite X, Y. reflexivity.
      - symmetry. apply andb_false_iff.
        destruct (Nat.eqb_spec r i) as [X|X]; [|left; reflexivity].
        destruct (Nat.eqb_spec c j) as [Y|Y]; [|right; reflexivity].
        exfalso. apply F1. rewrite X, Y. reflexivity. }
    rewrite Q. reflexivity.
  Qed.
End PartialTranspose.

(* ------------------------------------------------------------------ *)
(* subsystem_apply: the block / sub-block / offset split is the digit split *)

Theorem sa_split_is_digit_split : forall hi d lo H x L,
  allpos (hi ++ d :: lo) -> valid hi H -> x < d -> valid lo L ->
  let dims := hi ++ d :: lo in
  let idx := length hi in
  let i := undigits dims (H ++ x :: L) in
  sa_split dims idx i = (undigits hi H, x, undigits lo L) /\
  sa_join dims idx (undigits hi H) x (undigits lo L) = i /\
  i < prod dims.
Proof.
  intros hi d lo H x L Hp VH Hx VL dims idx i.
  assert (Ph : allpos hi) by (apply (valid_allpos _ _ VH)).
  assert (Pl : allpos lo) by (apply (valid_allpos _ _ VL)).
  pose proof (prod_pos hi Ph) as Hph. pose proof (prod_pos lo Pl) as Hpl.
  pose proof (undigits_lt _ _ VH) as UH. pose proof (undigits_lt _ _ VL) as UL.
  assert (Ei : i = undigits hi H * (d * prod lo) + (x * prod lo + undigits lo L)).
  { unfold i, dims. rewrite undigits_app by (symmetry; apply (valid_length _ _ VH)). reflexivity. }
  assert (Ebs : sa_blk_sz dims idx = d * prod lo).
  { unfold sa_blk_sz, dims, idx. rewrite firstn_app, firstn_all, Nat.sub_diag. simpl firstn.
    rewrite app_nil_r, prod_app. simpl prod. rewrite Nat.mul_comm. apply Nat.div_mul. lia. }
  assert (Ed : nth idx dims 1 = d).
  { unfold dims, idx. rewrite app_nth2 by lia. rewrite Nat.sub_diag. reflexivity. }
  assert (Esub : sa_sub dims idx = prod lo).
  { unfold sa_sub. rewrite Ebs, Ed. rewrite Nat.mul_comm. apply Nat.div_mul. lia. }
  assert (Binner : x * prod lo + undigits lo L < d * prod lo) by nia.
  split; [|split].
  - unfold sa_split. rewrite Ebs, Esub, Ei.
    assert (Q1 : (undigits hi H * (d * prod lo) + (x * prod lo + undigits lo L)) / (d * prod lo)
                 = undigits hi H).
    { symmetry. apply Nat.div_unique with (r := x * prod lo + undigits lo L); lia. }
    assert (R1 : (undigits hi H * (d * prod lo) + (x * prod lo + undigits lo L)) mod (d * prod lo)
                 = x * prod lo + undigits lo L).
    { symmetry. apply Nat.mod_unique with (q := undigits hi H); lia. }
    assert (Q2 : (x * prod lo + undigits lo L) / prod lo = x).
    { symmetry. apply Nat.div_unique with (r := undigits lo L); lia. }
    assert (R2 : (x * prod lo + undigits lo L) mod prod lo = undigits lo L).
    { symmetry. apply Nat.mod_unique with (q := x); lia. }
    rewrite Q1, R1, Q2, R2. reflexivity.
  - unfold sa_join. rewrite Ebs, Esub, Ei. lia.
  - rewrite Ei. unfold dims. rewrite prod_app. simpl prod. nia.
Qed.
