(* C01 - matmul with Dia operands (diagonal walks) computes the matrix product
   of the denotations. *)
From Coq Require Import List ZArith Bool Arith Lia ZifyBool.
Import ListNotations.
From QV Require Import Model.C01 Proofs.C01 Proofs.C01_pred Proofs.C01_dia Proofs.C01_matmul
                       Proofs.C01_diacsr.

Section MatDia.
Variable C : Type.
Variables (c0 : C) (cadd cmul : C -> C -> C).
Hypothesis Hadd0r : forall x, cadd x c0 = x.
Hypothesis Hadd0l : forall x, cadd c0 x = x.
Hypothesis Haddc : forall x y, cadd x y = cadd y x.
Hypothesis Hadda : forall x y z, cadd x (cadd y z) = cadd (cadd x y) z.
Hypothesis Hmul0r : forall x, cmul x c0 = c0.
Hypothesis Hmul0l : forall x, cmul c0 x = c0.

Notation den_dense := (den_dense C c0).
Notation den_dia := (den_dia C c0).
Notation slot := (slot C c0).
Notation dsum := (diag_sum C c0 cadd).
Definition DL := list (Z * list C).

Lemma fold_cond_acc : forall (A : Type) (c : A -> bool) (h : A -> C) (l : list A) a,
  fold_left (fun acc x => if c x then cadd acc (h x) else acc) l a =
  cadd a (fold_right (fun x acc => if c x then cadd (h x) acc else acc) c0 l).
Proof.
  intros A c h. induction l as [|x t IH]; intros a; simpl; [symmetry; apply Hadd0r|].
  rewrite IH. destruct (c x); [symmetry; apply Hadda|reflexivity].
Qed.

Lemma fold_left_ext_in' : forall (A : Type) (f g : C -> A -> C) (l : list A) a,
  (forall acc x, In x l -> f acc x = g acc x) -> fold_left f l a = fold_left g l a.
Proof.
  intros A f g. induction l as [|x t IH]; intros a H; simpl; [reflexivity|].
  rewrite (H a x (or_introl eq_refl)). apply IH. intros acc y Hy. apply H. right. exact Hy.
Qed.

Lemma den_dia_slot_nodup : forall (a : dia C) i j, NoDup (map fst (a_diags C a)) ->
  i < a_nr C a -> j < a_nc C a ->
  den_dia a i j = slot (a_diags C a) (Z.of_nat j - Z.of_nat i) j.
Proof.
  intros a i j H Hi Hj. unfold C01.den_dia, C01_pred.slot.
  assert (E : (i <? a_nr C a) && (j <? a_nc C a) = true) by lia. rewrite E.
  rewrite (find_rev_nodupZ C _ _ H). reflexivity.
Qed.

(* ---- a sum over the stored diagonals crossing row i = a sum over columns *)
Fixpoint rsum (h : C -> C) (nc i : nat) (g : nat -> C) (L : DL) : C :=
  match L with
  | [] => c0
  | d :: t =>
      let j := (Z.of_nat i + fst d)%Z in
      if (0 <=? j)%Z && (j <? Z.of_nat nc)%Z
      then cadd (cmul (h (nth (Z.to_nat j) (snd d) c0)) (g (Z.to_nat j))) (rsum h nc i g t)
      else rsum h nc i g t
  end.

Lemma rsum_dsum : forall (h : C -> C) nc i g (L : DL), h c0 = c0 -> NoDup (map fst L) ->
  rsum h nc i g L = dsum (fun j => cmul (h (slot L (Z.of_nat j - Z.of_nat i) j)) (g j)) 0 nc.
Proof.
  intros h nc i g L Hh. induction L as [|[o r] t IH]; intros Hnd; simpl.
  - symmetry. apply (dsum_zero C c0 cadd Hadd0l). intros j. unfold C01_pred.slot. simpl.
    rewrite Hh. apply Hmul0l.
  - inversion Hnd as [|x l Hnotin Hnd' Heq]; subst. rewrite (IH Hnd').
    assert (Habs : forall k, slot t o k = c0).
    { intros k. apply (slot_absent C c0). intros e He E. apply Hnotin. rewrite <- E.
      apply in_map. exact He. }
    destruct ((0 <=? Z.of_nat i + o)%Z && (Z.of_nat i + o <? Z.of_nat nc)%Z) eqn:R.
    + set (j0 := Z.to_nat (Z.of_nat i + o)).
      rewrite <- (dsum_replace C c0 cadd Hadd0l Haddc Hadda
                    (fun j => cmul (h (slot t (Z.of_nat j - Z.of_nat i) j)) (g j))
                    (cmul (h (nth j0 r c0)) (g j0)) j0 nc 0).
      * apply (diag_sum_ext C c0 cadd). intros j _.
        destruct (Nat.eqb_spec j j0) as [->|Hne].
        -- assert (E : (Z.of_nat j0 - Z.of_nat i = o)%Z) by (unfold j0; lia).
           rewrite E. rewrite (slot_cons_eq C c0). reflexivity.
        -- rewrite (slot_cons_ne C c0) by (unfold j0 in Hne; lia). reflexivity.
      * unfold j0. lia.
      * assert (E : (Z.of_nat j0 - Z.of_nat i = o)%Z) by (unfold j0; lia).
        rewrite E, Habs, Hh. apply Hmul0l.
    + apply (diag_sum_ext C c0 cadd). intros j Hj.
      rewrite (slot_cons_ne C c0) by lia. reflexivity.
Qed.

Lemma dia_row_dot_rsum : forall (L : DL) nc i g,
  dia_row_dot C c0 cadd cmul L nc i g = rsum (fun x => x) nc i g L.
Proof.
  intros L nc i g. unfold dia_row_dot.
  rewrite (fold_cond_acc _
     (fun d => (0 <=? Z.of_nat i + fst d)%Z && (Z.of_nat i + fst d <? Z.of_nat nc)%Z)
     (fun d => cmul (nth (Z.to_nat (Z.of_nat i + fst d)) (snd d) c0) (g (Z.to_nat (Z.of_nat i + fst d))))).
  rewrite Hadd0l. induction L as [|d t IH]; simpl; [reflexivity|]. rewrite IH. reflexivity.
Qed.

(* ---- and the same for the stored diagonals crossing column k *)
Fixpoint csum (nr k : nat) (g : nat -> C) (L : DL) : C :=
  match L with
  | [] => c0
  | d :: t =>
      let j := (Z.of_nat k - fst d)%Z in
      if (0 <=? j)%Z && (j <? Z.of_nat nr)%Z
      then cadd (cmul (nth k (snd d) c0) (g (Z.to_nat j))) (csum nr k g t)
      else csum nr k g t
  end.

Lemma csum_dsum : forall nr k g (L : DL), NoDup (map fst L) ->
  csum nr k g L = dsum (fun j => cmul (slot L (Z.of_nat k - Z.of_nat j) k) (g j)) 0 nr.
Proof.
  intros nr k g L. induction L as [|[o r] t IH]; intros Hnd; simpl.
  - symmetry. apply (dsum_zero C c0 cadd Hadd0l). intros j. unfold C01_pred.slot. simpl. apply Hmul0l.
  - inversion Hnd as [|x l Hnotin Hnd' Heq]; subst. rewrite (IH Hnd').
    assert (Habs : forall c, slot t o c = c0).
    { intros c. apply (slot_absent C c0). intros e He E. apply Hnotin. rewrite <- E.
      apply in_map. exact He. }
    destruct ((0 <=? Z.of_nat k - o)%Z && (Z.of_nat k - o <? Z.of_nat nr)%Z) eqn:R.
    + set (j0 := Z.to_nat (Z.of_nat k - o)).
      rewrite <- (dsum_replace C c0 cadd Hadd0l Haddc Hadda
                    (fun j => cmul (slot t (Z.of_nat k - Z.of_nat j) k) (g j))
                    (cmul (nth k r c0) (g j0)) j0 nr 0).
      * apply (diag_sum_ext C c0 cadd). intros j _.
        destruct (Nat.eqb_spec j j0) as [->|Hne].
        -- assert (E : (Z.of_nat k - Z.of_nat j0 = o)%Z) by (unfold j0; lia).
           rewrite E. rewrite (slot_cons_eq C c0). reflexivity.
        -- rewrite (slot_cons_ne C c0) by (unfold j0 in Hne; lia). reflexivity.
      * unfold j0. lia.
      * assert (E : (Z.of_nat k - Z.of_nat j0 = o)%Z) by (unfold j0; lia).
        rewrite E, Habs. apply Hmul0l.
    + apply (diag_sum_ext C c0 cadd). intros j Hj.
      rewrite (slot_cons_ne C c0) by lia. reflexivity.
Qed.

Lemma dia_col_dot_csum : forall (L : DL) nr k g,
  dia_col_dot C c0 cadd cmul L nr k g = csum nr k g L.
Proof.
  intros L nr k g. unfold dia_col_dot.
  rewrite (fold_cond_acc _
     (fun d => (0 <=? Z.of_nat k - fst d)%Z && (Z.of_nat k - fst d <? Z.of_nat nr)%Z)
     (fun d => cmul (nth k (snd d) c0) (g (Z.to_nat (Z.of_nat k - fst d))))).
  rewrite Hadd0l. induction L as [|d t IH]; simpl; [reflexivity|]. rewrite IH. reflexivity.
Qed.

Theorem matmul_dia_dense_den : forall (l : dia C) (r : dense C) scale out res i k,
  NoDup (map fst (a_diags C l)) ->
  matmul_dia_dense C c0 cadd cmul l r scale out = Some res ->
  i < a_nr C l -> k < d_nc C r ->
  den_dense res i k =
  cadd (match out with Some o => den_dense o i k | None => c0 end)
       (cmul scale (dsum (fun j => cmul (den_dia l i j) (den_dense r j k)) 0 (a_nc C l))).
Proof.
  intros l r scale out res i k Hnd H Hi Hk. unfold matmul_dia_dense in H.
  destruct (negb (a_nc C l =? d_nr C r) || negb (out_guard C out (a_nr C l) (d_nc C r))) eqn:G;
    [discriminate|].
  injection H as H. subst res. rewrite den_tabulate.
  assert (E1 : (i <? a_nr C l) && (k <? d_nc C r) = true) by lia. rewrite E1.
  f_equal. f_equal. rewrite dia_row_dot_rsum. rewrite (rsum_dsum (fun x => x)) by (try reflexivity; exact Hnd).
  apply (diag_sum_ext C c0 cadd). intros j Hj.
  rewrite (den_dia_slot_nodup l i j Hnd Hi) by lia. reflexivity.
Qed.

Theorem matmul_dense_dia_den : forall (l : dense C) (r : dia C) scale out res i k,
  NoDup (map fst (a_diags C r)) ->
  matmul_dense_dia C c0 cadd cmul l r scale out = Some res ->
  i < d_nr C l -> k < a_nc C r ->
  den_dense res i k =
  cadd (match out with Some o => den_dense o i k | None => c0 end)
       (cmul scale (dsum (fun j => cmul (den_dia r j k) (den_dense l i j)) 0 (a_nr C r))).
Proof.
  intros l r scale out res i k Hnd H Hi Hk. unfold matmul_dense_dia in H.
  destruct (negb (d_nc C l =? a_nr C r) || negb (out_guard C out (d_nr C l) (a_nc C r))) eqn:G;
    [discriminate|].
  injection H as H. subst res. rewrite den_tabulate.
  assert (E1 : (i <? d_nr C l) && (k <? a_nc C r) = true) by lia. rewrite E1.
  f_equal. f_equal. rewrite dia_col_dot_csum. rewrite csum_dsum by exact Hnd.
  apply (diag_sum_ext C c0 cadd). intros j Hj.
  rewrite (den_dia_slot_nodup r j k Hnd) by lia. reflexivity.
Qed.

(* ------------------------------------------------------- Dia @ Dia -> Dia *)
Lemma zs_sorted_filter : forall (p : Z -> bool) l, zs_sorted l -> zs_sorted (filter p l).
Proof.
  intros p. induction l as [|x t IH]; intros H; simpl; [exact I|].
  destruct H as [Hx Ht]. destruct (p x); simpl; [|apply IH; exact Ht].
  split; [|apply IH; exact Ht]. intros y Hy. apply filter_In in Hy. apply Hx. apply Hy.
Qed.

Lemma inner_fold : forall (R : DL) o k A, NoDup (map fst R) ->
  fold_right (fun dr acc => if (fst dr =? o)%Z then cadd (cmul A (nth k (snd dr) c0)) acc else acc)
             c0 R = cmul A (slot R o k).
Proof.
  induction R as [|[o' r] t IH]; intros o k A Hnd; simpl.
  - unfold C01_pred.slot. simpl. symmetry. apply Hmul0r.
  - inversion Hnd as [|x l Hnotin Hnd' Heq]; subst. rewrite (IH o k A Hnd').
    destruct (Z.eqb_spec o' o) as [->|Hne].
    + rewrite (slot_cons_eq C c0).
      rewrite (slot_absent C c0 t o k); [rewrite Hmul0r; apply Hadd0r|].
      intros e He E. apply Hnotin. rewrite <- E. apply in_map. exact He.
    + rewrite (slot_cons_ne C c0) by (intro E; apply Hne; symmetry; exact E). reflexivity.
Qed.

Lemma cond_true_fold : forall (R : DL) o k A,
  fold_right (fun (dr : Z * list C) acc =>
     if (fst dr =? o)%Z && true then cadd (cmul A (nth k (snd dr) c0)) acc else acc) c0 R =
  fold_right (fun (dr : Z * list C) acc =>
     if (fst dr =? o)%Z then cadd (cmul A (nth k (snd dr) c0)) acc else acc) c0 R.
Proof.
  induction R as [|dr t IH]; intros o k A; simpl; [reflexivity|].
  rewrite andb_true_r, IH. reflexivity.
Qed.

Lemma cond_false_fold : forall (R : DL) o k A,
  fold_right (fun (dr : Z * list C) acc =>
     if (fst dr =? o)%Z && false then cadd (cmul A (nth k (snd dr) c0)) acc else acc) c0 R = c0.
Proof.
  induction R as [|dr t IH]; intros o k A; simpl; [reflexivity|].
  rewrite andb_false_r. apply IH.
Qed.

Lemma mdia_inner : forall (l r : dia C) scale i k (dl : Z * list C) acc,
  NoDup (map fst (a_diags C r)) -> a_nc C l = a_nr C r ->
  i < a_nr C l -> k < a_nc C r ->
  let j := (Z.of_nat i + fst dl)%Z in
  fold_left (fun acc' dr =>
      if ((fst dl + fst dr =? Z.of_nat k - Z.of_nat i)%Z
          && mdia_range (a_nr C l) (a_nc C l) (a_nr C r) (a_nc C r) (fst dl) (fst dr) k)
      then cadd acc' (cmul (cmul scale (nth (Z.to_nat (Z.of_nat k - fst dr)) (snd dl) c0))
                           (nth k (snd dr) c0))
      else acc') (a_diags C r) acc =
  if (0 <=? j)%Z && (j <? Z.of_nat (a_nc C l))%Z
  then cadd acc (cmul (cmul scale (nth (Z.to_nat j) (snd dl) c0))
                      (slot (a_diags C r) (Z.of_nat k - j) k))
  else acc.
Proof.
  intros l r scale i k dl acc Hnd Hsh Hi Hk j.
  set (A := cmul scale (nth (Z.to_nat j) (snd dl) c0)).
  rewrite (fold_left_ext_in' _ _
     (fun acc' dr => if ((fst dr =? Z.of_nat k - j)%Z
                         && ((0 <=? j)%Z && (j <? Z.of_nat (a_nc C l))%Z))
                     then cadd acc' (cmul A (nth k (snd dr) c0)) else acc')).
  - rewrite (fold_cond_acc _
       (fun dr => (fst dr =? Z.of_nat k - j)%Z && ((0 <=? j)%Z && (j <? Z.of_nat (a_nc C l))%Z))
       (fun dr => cmul A (nth k (snd dr) c0))).
    destruct ((0 <=? j)%Z && (j <? Z.of_nat (a_nc C l))%Z) eqn:R.
    + f_equal. rewrite cond_true_fold. apply inner_fold. exact Hnd.
    + rewrite cond_false_fold. apply Hadd0r.
  - intros acc' dr _. unfold mdia_range, j.
    destruct ((fst dl + fst dr =? Z.of_nat k - Z.of_nat i)%Z) eqn:E1.
    + assert (E2 : (fst dr =? Z.of_nat k - (Z.of_nat i + fst dl))%Z = true) by lia. rewrite E2.
      simpl andb.
      assert (E3 : ((Z.max (Z.max (Z.max 0 (fst dl) + fst dr) (Z.max 0 (fst dr)))
                           (Z.max 0 (fst dl + fst dr)) <=? Z.of_nat k)%Z
                    && (Z.of_nat k <?
                        Z.min (Z.min (Z.min (Z.of_nat (a_nc C l)) (Z.of_nat (a_nr C l) + fst dl) + fst dr)
                                     (Z.min (Z.of_nat (a_nc C r)) (Z.of_nat (a_nr C r) + fst dr)))
                              (Z.min (Z.of_nat (a_nc C r)) (Z.of_nat (a_nr C l) + (fst dl + fst dr))))%Z)
                   = ((0 <=? Z.of_nat i + fst dl)%Z && (Z.of_nat i + fst dl <? Z.of_nat (a_nc C l))%Z))
        by lia.
      rewrite E3.
      destruct ((0 <=? Z.of_nat i + fst dl)%Z && (Z.of_nat i + fst dl <? Z.of_nat (a_nc C l))%Z);
        [|reflexivity].
      unfold A, j. assert (E4 : (Z.of_nat k - fst dr = Z.of_nat i + fst dl)%Z) by lia.
      rewrite E4. reflexivity.
    + assert (E2 : (fst dr =? Z.of_nat k - (Z.of_nat i + fst dl))%Z = false) by lia. rewrite E2.
      reflexivity.
Qed.

Lemma mdia_slot_rsum : forall (l r : dia C) scale i k,
  NoDup (map fst (a_diags C r)) -> a_nc C l = a_nr C r ->
  i < a_nr C l -> k < a_nc C r ->
  mdia_slot C c0 cadd cmul l r scale (Z.of_nat k - Z.of_nat i) k =
  rsum (cmul scale) (a_nc C l) i
       (fun j => slot (a_diags C r) (Z.of_nat k - Z.of_nat j) k) (a_diags C l).
Proof.
  intros l r scale i k Hnd Hsh Hi Hk. unfold mdia_slot.
  rewrite (fold_left_ext_in' _ _
     (fun acc dl =>
        if (0 <=? Z.of_nat i + fst dl)%Z && (Z.of_nat i + fst dl <? Z.of_nat (a_nc C l))%Z
        then cadd acc (cmul (cmul scale (nth (Z.to_nat (Z.of_nat i + fst dl)) (snd dl) c0))
                            (slot (a_diags C r) (Z.of_nat k - (Z.of_nat i + fst dl)) k))
        else acc))
    by (intros acc dl _; apply (mdia_inner l r scale i k dl acc Hnd Hsh Hi Hk)).
  rewrite (fold_cond_acc _
     (fun dl => (0 <=? Z.of_nat i + fst dl)%Z && (Z.of_nat i + fst dl <? Z.of_nat (a_nc C l))%Z)
     (fun dl => cmul (cmul scale (nth (Z.to_nat (Z.of_nat i + fst dl)) (snd dl) c0))
                     (slot (a_diags C r) (Z.of_nat k - (Z.of_nat i + fst dl)) k))).
  rewrite Hadd0l. induction (a_diags C l) as [|d t IH]; simpl; [reflexivity|]. rewrite IH.
  destruct ((0 <=? Z.of_nat i + fst d)%Z && (Z.of_nat i + fst d <? Z.of_nat (a_nc C l))%Z) eqn:R;
    [|reflexivity].
  f_equal. f_equal. f_equal. lia.
Qed.

Theorem matmul_dia_den : forall (l r out : dia C) scale i k,
  NoDup (map fst (a_diags C l)) -> NoDup (map fst (a_diags C r)) ->
  matmul_dia C c0 cadd cmul l r scale = Some out ->
  i < a_nr C l -> k < a_nc C r ->
  den_dia out i k =
  dsum (fun j => cmul (cmul scale (den_dia l i j)) (den_dia r j k)) 0 (a_nc C l).
Proof.
  intros l r out scale i k Nl Nr H Hi Hk. unfold matmul_dia in H.
  destruct (negb (a_nc C l =? a_nr C r)) eqn:G; [discriminate|].
  assert (Hsh : a_nc C l = a_nr C r) by lia.
  injection H as H. subst out.
  set (sums := flat_map (fun dl : Z * list C => map (fun dr : Z * list C => (fst dl + fst dr)%Z)
                                                  (a_diags C r)) (a_diags C l)).
  set (offs := filter (fun o => (- Z.of_nat (a_nr C l) <? o)%Z && (o <? Z.of_nat (a_nc C r))%Z)
                      (fold_right zinsert [] sums)).
  set (f := fun oo : Z => map (mdia_slot C c0 cadd cmul l r scale oo) (seq 0 (a_nc C r))).
  assert (Rhs : dsum (fun j => cmul (cmul scale (den_dia l i j)) (den_dia r j k)) 0 (a_nc C l) =
                dsum (fun j => cmul (cmul scale (slot (a_diags C l) (Z.of_nat j - Z.of_nat i) j))
                                    (slot (a_diags C r) (Z.of_nat k - Z.of_nat j) k)) 0 (a_nc C l)).
  { apply (diag_sum_ext C c0 cadd). intros j Hj.
    rewrite (den_dia_slot_nodup l i j Nl Hi) by lia.
    rewrite (den_dia_slot_nodup r j k Nr) by lia. reflexivity. }
  rewrite Rhs. unfold C01.den_dia. simpl.
  assert (E1 : (i <? a_nr C l) && (k <? a_nc C r) = true) by lia. rewrite E1.
  change (map _ offs) with (map (fun o => (o, f o)) offs).
  rewrite (find_rev_sorted C _ _ (zsorted_map C f offs (zs_sorted_filter _ _ (zsort_sorted sums)))).
  rewrite (find_map_key C).
  destruct (in_dec Z.eq_dec (Z.of_nat k - Z.of_nat i)%Z offs) as [Ho|Ho].
  - cbn [snd]. unfold f. rewrite nth_map_seq by exact Hk.
    rewrite (mdia_slot_rsum l r scale i k Nr Hsh Hi Hk).
    apply (rsum_dsum (cmul scale)); [apply Hmul0r|exact Nl].
  - symmetry. apply (dsum_zero C c0 cadd Hadd0l). intros j.
    destruct (in_dec Z.eq_dec (Z.of_nat j - Z.of_nat i)%Z (map fst (a_diags C l))) as [Il|Il].
    + destruct (in_dec Z.eq_dec (Z.of_nat k - Z.of_nat j)%Z (map fst (a_diags C r))) as [Ir|Ir].
      * exfalso. apply Ho. unfold offs. apply filter_In. split; [|lia].
        apply zsort_in. unfold sums. apply in_flat_map.
        apply in_map_iff in Il. destruct Il as [dl [El Hl]].
        apply in_map_iff in Ir. destruct Ir as [dr [Er Hr]].
        exists dl. split; [exact Hl|]. apply in_map_iff. exists dr. split; [lia|exact Hr].
      * rewrite (slot_absent C c0 (a_diags C r)); [apply Hmul0r|].
        intros e He E. apply Ir. rewrite <- E. apply in_map. exact He.
    + rewrite (slot_absent C c0 (a_diags C l)); [rewrite Hmul0r; apply Hmul0l|].
      intros e He E. apply Il. rewrite <- E. apply in_map. exact He.
Qed.

Theorem matmul_dia_guard : forall (l r : dia C) scale,
  a_nc C l <> a_nr C r -> matmul_dia C c0 cadd cmul l r scale = None.
Proof.
  intros l r scale H. unfold matmul_dia.
  assert (E : negb (a_nc C l =? a_nr C r) = true) by lia. rewrite E. reflexivity.
Qed.
End MatDia.
