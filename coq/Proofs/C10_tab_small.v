(* C10 - computed facts about the euler and rk4 tableaux of explicit_rk.pyx
   (exact dyadic arithmetic on the doubles read from the source). *)
From Coq Require Import List ZArith QArith Bool.
Import ListNotations.
From QV Require Import Gen.C10_tab_euler Gen.C10_tab_rk4 Model.C10_trees Model.C10 Proofs.C10_trees.

Definition eu_a := dmat euler_a.  Definition eu_b := dvec euler_b.  Definition eu_c := dvec euler_c.
Definition r4_a := dmat rk4_a.    Definition r4_b := dvec rk4_b.    Definition r4_c := dvec rk4_c.
Definition eu_tb := dy_tableau euler_a euler_b euler_c [].
Definition r4_tb := dy_tableau rk4_a rk4_b rk4_c [].

Lemma small_dyadic :
  all_dyadic_m euler_a && all_dyadic_v euler_b && all_dyadic_v euler_c &&
  all_dyadic_m rk4_a && all_dyadic_v rk4_b && all_dyadic_v rk4_c = true.
Proof. vm_cast_no_check (eq_refl true). Qed.

Lemma small_struct :
  shapes_ok eu_a eu_b eu_c && strictly_lower eu_a && rowsum_ok 50 eu_a eu_c &&
  shapes_ok r4_a r4_b r4_c && strictly_lower r4_a && rowsum_ok 50 r4_a r4_c = true.
Proof. vm_cast_no_check (eq_refl true). Qed.

Lemma small_orders :
  (Nat.eqb euler_order 1 && Nat.eqb rk4_order 4) = true.
Proof. vm_cast_no_check (eq_refl true). Qed.

Lemma euler_order_check : order_check eu_a 50 eu_b 1 = true.
Proof. vm_cast_no_check (eq_refl true). Qed.
Lemma euler_not_order2 : order_check eu_a 1 eu_b 2 = false.
Proof. vm_cast_no_check (eq_refl false). Qed.
Lemma rk4_order_check : order_check r4_a 50 r4_b 4 = true.
Proof. vm_cast_no_check (eq_refl true). Qed.
Lemma rk4_not_order5 : order_check r4_a 7 r4_b 5 = false.
Proof. vm_cast_no_check (eq_refl false). Qed.

Lemma euler_taylor : taylor_close 50 done 1 (stab_poly eu_tb done) = true.
Proof. vm_cast_no_check (eq_refl true). Qed.
Lemma rk4_taylor : taylor_close 50 done 4 (stab_poly r4_tb done) = true.
Proof. vm_cast_no_check (eq_refl true). Qed.
