(* Proofs for C19, part 1: enumeration of ADO labels, idx/next/prev, block keys. *)
From Coq Require Import List ZArith Bool Arith Lia Permutation.
Import ListNotations.
From QV Require Import Model.C19.

Arguments set_at : simpl never.

(* ------------------------------------------------------------------ basics *)
Lemma lsum_app a b : lsum (a ++ b) = lsum a + lsum b.
Proof. induction a; simpl; lia. Qed.

Lemma lsum_repeat0 m : lsum (repeat 0 m) = 0.
Proof. induction m; simpl; lia. Qed.

Lemma label_eqb_eq a b : label_eqb a b = true <-> a = b.
Proof.
  revert b. induction a as [|x a IH]; intros [|y b]; simpl; split; intros H;
    try reflexivity; try discriminate.
  - apply andb_true_iff in H. destruct H as [H1 H2]. apply Nat.eqb_eq in H1.
    apply IH in H2. now subst.
  - inversion H; subst. rewrite Nat.eqb_refl. simpl. now apply IH.
Qed.

Lemma label_eqb_refl a : label_eqb a a = true.
Proof. now apply label_eqb_eq. Qed.

(* validity of a label: the multi-indices within dims and depth *)
Definition valid (dims : list nat) (D : nat) (s : label) : Prop :=
  length s = length dims /\
  (forall k, k < length dims -> nth k s 0 < nth k dims 0) /\
  lsum s <= D.

Lemma Forall2_lt_nth s dims :
  Forall2 lt s dims <->
  (length s = length dims /\ forall k, k < length dims -> nth k s 0 < nth k dims 0).
Proof.
  split.
  - induction 1 as [|a d s ds Hlt HF IH]; simpl.
    + split; [reflexivity|intros k Hk; lia].
    + destruct IH as [IH1 IH2]. split; [lia|].
      intros [|k] Hk; [assumption|]. apply IH2. lia.
  - revert dims. induction s as [|a s IH]; intros [|d ds] [Hl Hn]; simpl in *;
      try discriminate; constructor.
    + apply (Hn 0). lia.
    + apply IH. split; [lia|]. intros k Hk. apply (Hn (S k)). lia.
Qed.

Definition valid2 (dims : list nat) (D : nat) (s : label) : Prop :=
  Forall2 lt s dims /\ lsum s <= D.

Lemma valid_valid2 dims D s : valid dims D s <-> valid2 dims D s.
Proof.
  unfold valid, valid2. rewrite Forall2_lt_nth. tauto.
Qed.

(* ------------------------------------------------------------------ set_at *)
Lemma set_at_0 a l x : set_at (a :: l) 0 x = x :: l.
Proof. reflexivity. Qed.

Lemma set_at_S a l k x : set_at (a :: l) (S k) x = a :: set_at l k x.
Proof. unfold set_at. simpl. reflexivity. Qed.

Lemma length_set_at l k x : k < length l -> length (set_at l k x) = length l.
Proof.
  revert k. induction l as [|a l IH]; intros [|k] Hk; simpl in Hk; try lia.
  - reflexivity.
  - rewrite set_at_S. simpl. rewrite IH; lia.
Qed.

Lemma nth_set_at l k x j :
  k < length l -> nth j (set_at l k x) 0 = if j =? k then x else nth j l 0.
Proof.
  revert k j. induction l as [|a l IH]; intros [|k] [|j] Hk; simpl in Hk; try lia.
  - reflexivity.
  - reflexivity.
  - rewrite set_at_S. reflexivity.
  - rewrite set_at_S. simpl. apply IH. lia.
Qed.

Lemma lsum_set_at l k x :
  k < length l -> lsum (set_at l k x) + nth k l 0 = lsum l + x.
Proof.
  revert k. induction l as [|a l IH]; intros [|k] Hk; simpl in Hk; try lia.
  - rewrite set_at_0. simpl. lia.
  - rewrite set_at_S. simpl. specialize (IH k ltac:(lia)). lia.
Qed.

Lemma set_at_set_at l k x y : k < length l -> set_at (set_at l k x) k y = set_at l k y.
Proof.
  revert k. induction l as [|a l IH]; intros [|k] Hk; simpl in Hk; try lia.
  - reflexivity.
  - rewrite !set_at_S. f_equal. apply IH. lia.
Qed.

Lemma set_at_same l k : k < length l -> set_at l k (nth k l 0) = l.
Proof.
  revert k. induction l as [|a l IH]; intros [|k] Hk; simpl in Hk; try lia.
  - reflexivity.
  - rewrite set_at_S. simpl. f_equal. apply IH. lia.
Qed.

(* ------------------------------------------------------------ next / prev *)
Lemma next_spec dims D l k m :
  ados_next dims D l k = Some m ->
  m = set_at l k (nth k l 0 + 1) /\ nth k l 0 + 1 < nth k dims 0 /\ lsum l < D.
Proof.
  unfold ados_next. intros H.
  destruct (nth k dims 0 - 1 <=? nth k l 0) eqn:E1; [discriminate|].
  destruct (D <=? lsum l) eqn:E2; [discriminate|].
  apply Nat.leb_gt in E1. apply Nat.leb_gt in E2. inversion H. split; [reflexivity|lia].
Qed.

Lemma next_none dims D l k :
  ados_next dims D l k = None <-> (nth k dims 0 <= nth k l 0 + 1 \/ D <= lsum l).
Proof.
  unfold ados_next.
  destruct (nth k dims 0 - 1 <=? nth k l 0) eqn:E1.
  - apply Nat.leb_le in E1. split; [intros _; left; lia|reflexivity].
  - apply Nat.leb_gt in E1. destruct (D <=? lsum l) eqn:E2.
    + apply Nat.leb_le in E2. split; [intros _; now right|reflexivity].
    + apply Nat.leb_gt in E2. split; [discriminate|lia].
Qed.

Lemma prev_spec l k m :
  ados_prev l k = Some m -> m = set_at l k (nth k l 0 - 1) /\ 1 <= nth k l 0.
Proof.
  unfold ados_prev. destruct (nth k l 0 <=? 0) eqn:E; [discriminate|].
  apply Nat.leb_gt in E. intros H. inversion H. split; [reflexivity|lia].
Qed.

Lemma prev_none l k : ados_prev l k = None <-> nth k l 0 = 0.
Proof.
  unfold ados_prev. destruct (nth k l 0 <=? 0) eqn:E.
  - apply Nat.leb_le in E. split; [lia|reflexivity].
  - apply Nat.leb_gt in E. split; [discriminate|lia].
Qed.

Lemma prev_next dims D l k m :
  k < length l -> ados_next dims D l k = Some m -> ados_prev m k = Some l.
Proof.
  intros Hk H. apply next_spec in H. destruct H as (-> & _ & _).
  unfold ados_prev. rewrite nth_set_at by assumption. rewrite Nat.eqb_refl.
  replace (nth k l 0 + 1 <=? 0) with false by (symmetry; apply Nat.leb_gt; lia).
  rewrite set_at_set_at by assumption.
  replace (nth k l 0 + 1 - 1) with (nth k l 0) by lia.
  now rewrite set_at_same.
Qed.

Lemma next_prev dims D l k m :
  valid dims D l -> k < length dims -> ados_prev l k = Some m ->
  ados_next dims D m k = Some l.
Proof.
  intros (Hl & Hb & Hs) Hk H. apply prev_spec in H. destruct H as (-> & H1).
  assert (Hk' : k < length l) by lia.
  unfold ados_next. rewrite nth_set_at by assumption. rewrite Nat.eqb_refl.
  specialize (Hb k Hk).
  replace (nth k dims 0 - 1 <=? nth k l 0 - 1) with false
    by (symmetry; apply Nat.leb_gt; lia).
  pose proof (lsum_set_at l k (nth k l 0 - 1) Hk') as E.
  replace (D <=? lsum (set_at l k (nth k l 0 - 1))) with false
    by (symmetry; apply Nat.leb_gt; lia).
  rewrite set_at_set_at by assumption.
  replace (nth k l 0 - 1 + 1) with (nth k l 0) by lia.
  now rewrite set_at_same.
Qed.

Lemma valid_set_at dims D l k x :
  valid dims D l -> k < length dims -> x < nth k dims 0 ->
  lsum l + x <= D + nth k l 0 -> valid dims D (set_at l k x).
Proof.
  intros (Hl & Hb & Hs) Hk Hx HD.
  assert (Hk' : k < length l) by lia.
  split; [|split].
  - rewrite length_set_at; assumption.
  - intros j Hj. rewrite nth_set_at by assumption.
    destruct (j =? k) eqn:E; [apply Nat.eqb_eq in E; now subst|now apply Hb].
  - pose proof (lsum_set_at l k x Hk'). lia.
Qed.

Lemma next_valid dims D l k m :
  valid dims D l -> k < length dims -> ados_next dims D l k = Some m -> valid dims D m.
Proof.
  intros Hv Hk H. apply next_spec in H. destruct H as (-> & H1 & H2).
  apply valid_set_at; try assumption. lia.
Qed.

Lemma prev_valid dims D l k m :
  valid dims D l -> k < length dims -> ados_prev l k = Some m -> valid dims D m.
Proof.
  intros Hv Hk H. apply prev_spec in H. destruct H as (-> & H1).
  destruct Hv as (Hl & Hb & Hs).
  apply valid_set_at; try (split; [|split]; assumption); try assumption.
  - specialize (Hb k Hk). lia.
  - lia.
Qed.

(* next is undefined exactly when the incremented label leaves the hierarchy *)
Lemma next_none_iff_invalid dims D l k :
  valid dims D l -> k < length dims ->
  (ados_next dims D l k = None <-> ~ valid dims D (set_at l k (nth k l 0 + 1))).
Proof.
  intros Hv Hk. destruct Hv as (Hl & Hb & Hs).
  assert (Hk' : k < length l) by lia.
  rewrite next_none. split.
  - intros H (Vl & Vb & Vs). specialize (Vb k Hk).
    rewrite nth_set_at in Vb by assumption. rewrite Nat.eqb_refl in Vb.
    pose proof (lsum_set_at l k (nth k l 0 + 1) Hk'). lia.
  - intros H.
    destruct (le_lt_dec (nth k dims 0) (nth k l 0 + 1)) as [A|A]; [now left|].
    destruct (le_lt_dec D (lsum l)) as [B|B]; [now right|].
    exfalso. apply H. apply valid_set_at; try (split; [|split]; assumption);
      try assumption. lia.
Qed.

(* ------------------------------------------------------------------ idx_of *)
Lemma idx_of_sound labels l i : idx_of labels l = Some i -> nth_error labels i = Some l.
Proof.
  revert i. induction labels as [|h t IH]; intros i H; simpl in *; [discriminate|].
  destruct (idx_of t l) as [j|] eqn:E.
  - inversion H; subst. simpl. now apply IH.
  - destruct (label_eqb h l) eqn:E2; [|discriminate].
    inversion H; subst. apply label_eqb_eq in E2. now subst.
Qed.

Lemma idx_of_in labels l : In l labels -> exists i, idx_of labels l = Some i.
Proof.
  induction labels as [|h t IH]; simpl; [intros []|].
  intros [H|H].
  - subst. destruct (idx_of t l) as [j|]; [now exists (S j)|].
    rewrite label_eqb_refl. now exists 0.
  - destruct (IH H) as [j Hj]. rewrite Hj. now exists (S j).
Qed.

Lemma idx_of_lt labels l i : idx_of labels l = Some i -> i < length labels.
Proof.
  intros H. apply idx_of_sound in H. apply nth_error_Some. congruence.
Qed.

Lemma idx_of_nth labels i l :
  NoDup labels -> nth_error labels i = Some l -> idx_of labels l = Some i.
Proof.
  intros ND H.
  assert (Hin : In l labels) by (eapply nth_error_In; eassumption).
  destruct (idx_of_in labels l Hin) as [j Hj].
  pose proof (idx_of_sound _ _ _ Hj) as Hj'.
  assert (i = j).
  { apply (proj1 (NoDup_nth_error labels) ND); [|congruence].
    apply nth_error_Some. congruence. }
  now subst.
Qed.
