(* C01 - inner_csr, expect_csr (ket and density matrix) and expect_super_csr
   compute the sums their documentation states, on denotations. *)
From Coq Require Import List ZArith Bool Arith Lia ZifyBool.
Import ListNotations.
From QV Require Import Model.C01 Proofs.C01 Proofs.C01_pred Proofs.C01_add Proofs.C01_dia
                       Proofs.C01_matmul.

Section Inner.
Variable C : Type.
Variables (c0 : C) (cadd cmul : C -> C -> C) (cconj : C -> C).
Hypothesis Hadd0r : forall x, cadd x c0 = x.
Hypothesis Hadd0l : forall x, cadd c0 x = x.
Hypothesis Haddc : forall x y, cadd x y = cadd y x.
Hypothesis Hadda : forall x y z, cadd x (cadd y z) = cadd (cadd x y) z.
Hypothesis Hmul0r : forall x, cmul x c0 = c0.
Hypothesis Hmul0l : forall x, cmul c0 x = c0.
Hypothesis Hconj0 : cconj c0 = c0.

Notation row_get := (row_get C c0).
Notation den_csr := (den_csr C c0).
Notation dsum := (diag_sum C c0 cadd).
Notation rowsum := (rowsum C c0 cadd cmul).

Lemma fold_acc : forall (A : Type) (h : A -> C) (l : list A) a,
  fold_left (fun acc x => cadd acc (h x)) l a =
  cadd a (fold_right (fun x acc => cadd (h x) acc) c0 l).
Proof.
  intros A h. induction l as [|x t IH]; intros a; simpl; [symmetry; apply Hadd0r|].
  rewrite IH. symmetry. apply Hadda.
Qed.

Lemma fold_left_ext_in : forall (A : Type) (f g : C -> A -> C) (l : list A) a,
  (forall acc x, In x l -> f acc x = g acc x) -> fold_left f l a = fold_left g l a.
Proof.
  intros A f g. induction l as [|x t IH]; intros a H; simpl; [reflexivity|].
  rewrite (H a x (or_introl eq_refl)). apply IH. intros acc y Hy. apply H. right. exact Hy.
Qed.

Lemma fold_right_rowsum : forall (row : crow C) g,
  fold_right (fun p acc => cadd (cmul (snd p) (g (fst p))) acc) c0 row = rowsum row g.
Proof. induction row as [|p t IH]; intros g; simpl; [reflexivity|]. rewrite IH. reflexivity. Qed.

(* a well-formed ket: what the kernels read is the entry of the column *)
Lemma ket_at_den : forall (st : csr C) j, wf_csr C st -> s_nc C st = 1 ->
  match ket_at C (s_rows C st) j with
  | Some v => den_csr st j 0 = v
  | None => den_csr st j 0 = c0
  end.
Proof.
  intros st j [Hlen Hrows] Hnc. unfold ket_at, C01.den_csr.
  destruct (Nat.ltb_spec j (s_nr C st)) as [Hj|Hj].
  - assert (Hin : In (nth j (s_rows C st) []) (s_rows C st)) by (apply nth_In; lia).
    destruct (Hrows _ Hin) as [_ Hb].
    assert (E2 : (0 <? s_nc C st) = true) by lia.
    rewrite E2. simpl.
    destruct (nth j (s_rows C st) []) as [|p t]; [reflexivity|].
    unfold C01.row_get. simpl.
    assert (fst p = 0) by (specialize (Hb p (or_introl eq_refl)); lia).
    rewrite H. reflexivity.
  - rewrite nth_overflow by lia. simpl. reflexivity.
Qed.

Lemma ket_term : forall (st : csr C) j (sum v : C), wf_csr C st -> s_nc C st = 1 ->
  match ket_at C (s_rows C st) j with
  | Some sv => cadd sum (cmul v sv) | None => sum end = cadd sum (cmul v (den_csr st j 0)).
Proof.
  intros st j sum v W Hnc. pose proof (ket_at_den st j W Hnc) as K.
  destruct (ket_at C (s_rows C st) j) as [sv|]; rewrite K; [reflexivity|].
  rewrite Hmul0r, Hadd0r. reflexivity.
Qed.

Lemma rowdot_eq : forall (st : csr C) (row : crow C), wf_csr C st -> s_nc C st = 1 ->
  rowdot C c0 cadd cmul (s_rows C st) row = rowsum row (fun j => den_csr st j 0).
Proof.
  intros st row W Hnc. unfold rowdot.
  rewrite (fold_left_ext_in _ _
             (fun sum p => cadd sum (cmul (snd p) (den_csr st (fst p) 0)))).
  - rewrite (fold_acc _ (fun p => cmul (snd p) (den_csr st (fst p) 0))).
    rewrite Hadd0l. apply (fold_right_rowsum row (fun j => den_csr st j 0)).
  - intros acc p _. apply ket_term; assumption.
Qed.

Lemma oprow_dsum : forall (op : csr C) i n (g : nat -> C), wf_csr C op ->
  i < s_nr C op -> s_nc C op = n ->
  rowsum (nth i (s_rows C op) []) g = dsum (fun j => cmul (den_csr op i j) (g j)) 0 n.
Proof.
  intros op i n g [Hlen Hrows] Hi Hn.
  assert (Hin : In (nth i (s_rows C op) []) (s_rows C op)) by (apply nth_In; lia).
  destruct (Hrows _ Hin) as [Nd Bd].
  rewrite (rowsum_dsum C c0 cadd cmul Hadd0l Haddc Hadda Hmul0l _ g n Nd)
    by (intros p Hp; specialize (Bd p Hp); lia).
  apply (diag_sum_ext C c0 cadd). intros j Hj. unfold C01.den_csr.
  assert (E : (i <? s_nr C op) && (j <? s_nc C op) = true) by lia. rewrite E. reflexivity.
Qed.

Lemma fold_seq_dsum : forall (h f : nat -> C) n,
  (forall k, k < n -> h k = f k) ->
  fold_left (fun out k => cadd out (h k)) (seq 0 n) c0 = dsum f 0 n.
Proof.
  intros h f n H. rewrite fold_acc. rewrite Hadd0l.
  apply (fold_diag C c0 cadd). intros k Hk. apply H. lia.
Qed.

(* ---------------------------------------------------------- expect, ket *)
Theorem expect_csr_ket : forall (op st : csr C) v,
  wf_csr C op -> wf_csr C st -> s_nc C st = 1 ->
  expect_csr C c0 cadd cmul cconj op st = Some v ->
  v = dsum (fun i => cmul (cconj (den_csr st i 0))
                      (dsum (fun j => cmul (den_csr op i j) (den_csr st j 0)) 0 (s_nr C st)))
           0 (s_nr C st).
Proof.
  intros op st v Wop Wst Hnc H. unfold expect_csr in H. rewrite Hnc in H. simpl in H.
  destruct (negb (s_nc C op =? s_nr C st) || negb (s_nr C op =? s_nc C op)) eqn:G; [discriminate|].
  injection H as H. subst v.
  rewrite (fold_left_ext_in _ _
     (fun out row => cadd out (cmul (cconj (den_csr st row 0))
                                (rowdot C c0 cadd cmul (s_rows C st) (nth row (s_rows C op) []))))).
  - apply fold_seq_dsum. intros i Hi. f_equal.
    rewrite rowdot_eq by assumption. apply oprow_dsum; [exact Wop|lia|lia].
  - intros acc row _. pose proof (ket_at_den st row Wst Hnc) as K.
    destruct (ket_at C (s_rows C st) row) as [a|]; rewrite K; [reflexivity|].
    rewrite Hconj0, Hmul0l, Hadd0r. reflexivity.
Qed.

(* ------------------------------------------------ expect, density matrix *)
Theorem expect_csr_dm : forall (op st : csr C) v,
  wf_csr C op -> wf_csr C st -> s_nc C st <> 1 ->
  expect_csr C c0 cadd cmul cconj op st = Some v ->
  v = dsum (fun i => dsum (fun j => cmul (den_csr op i j) (den_csr st j i)) 0 (s_nr C op))
           0 (s_nr C op).
Proof.
  intros op st v Wop Wst Hnc H. unfold expect_csr in H.
  assert (E : (s_nc C st =? 1) = false) by lia. rewrite E in H.
  destruct (negb (s_nc C op =? s_nr C st) || negb (s_nr C st =? s_nc C st)
            || negb (s_nr C op =? s_nc C op)) eqn:G; [discriminate|].
  injection H as H. subst v.
  rewrite (fold_left_ext_in _ _
     (fun out row => cadd out (rowsum (nth row (s_rows C op) []) (fun j => den_csr st j row)))).
  - apply fold_seq_dsum. intros i Hi. apply oprow_dsum; [exact Wop|exact Hi|lia].
  - intros acc row Hrow. apply in_seq in Hrow.
    rewrite (fold_left_ext_in _ _
       (fun out' p => cadd out' (cmul (snd p) (den_csr st (fst p) row)))).
    + rewrite (fold_acc _ (fun p => cmul (snd p) (den_csr st (fst p) row))).
      rewrite (fold_right_rowsum _ (fun j => den_csr st j row)). reflexivity.
    + intros acc' p Hp.
      destruct Wop as [Lop Rop].
      assert (Hin : In (nth row (s_rows C op) []) (s_rows C op)) by (apply nth_In; lia).
      destruct (Rop _ Hin) as [_ Bd]. specialize (Bd p Hp).
      unfold C01.den_csr.
      assert (E2 : (fst p <? s_nr C st) && (row <? s_nc C st) = true) by lia. rewrite E2.
      unfold C01.row_get.
      destruct (find (fun q : nat * C => fst q =? row) (nth (fst p) (s_rows C st) [])); [reflexivity|].
      rewrite Hmul0r, Hadd0r. reflexivity.
Qed.

(* ----------------------------------------------------------- expect_super *)
Theorem expect_super_csr_sum : forall (op st : csr C) v,
  wf_csr C op -> wf_csr C st ->
  expect_super_csr C c0 cadd cmul op st = Some v ->
  let n := Nat.sqrt (s_nr C st) in
  v = dsum (fun t => dsum (fun j => cmul (den_csr op (t * (n + 1)) j) (den_csr st j 0))
                          0 (s_nr C st)) 0 n.
Proof.
  intros op st v Wop Wst H n. unfold expect_super_csr in H.
  destruct (negb (s_nc C st =? 1) || negb (s_nc C op =? s_nr C st)
            || negb (s_nr C op =? s_nc C op)) eqn:G; [discriminate|].
  injection H as H. subst v. fold n.
  apply fold_seq_dsum. intros t Ht.
  rewrite rowdot_eq by (try assumption; lia).
  apply oprow_dsum; [exact Wop| |lia].
  pose proof (Nat.sqrt_spec (s_nr C st) (Nat.le_0_l _)) as [S1 _]. fold n in S1. nia.
Qed.

(* ------------------------------------------------------------------ inner *)
Lemma head_data_den : forall (m : csr C), wf_csr C m -> s_nr C m = 1 -> s_nc C m = 1 ->
  match head_data C m with
  | Some a => den_csr m 0 0 = a
  | None => den_csr m 0 0 = c0
  end.
Proof.
  intros m [Hlen Hrows] Hr Hc. unfold head_data, C01.den_csr. rewrite Hr, Hc. simpl.
  destruct (s_rows C m) as [|row [|row2 t]] eqn:R; simpl in Hlen; try lia.
  simpl. rewrite app_nil_r.
  destruct row as [|p t]; [reflexivity|].
  assert (Hb : fst p < 1).
  { destruct (Hrows (p :: t)) as [_ Hb]; [left; reflexivity|].
    specialize (Hb p (or_introl eq_refl)). lia. }
  unfold C01.row_get. simpl. assert (E : fst p = 0) by lia. rewrite E. reflexivity.
Qed.

Theorem inner_csr_scalar : forall (l r : csr C) flag v,
  wf_csr C l -> wf_csr C r ->
  s_nr C l = 1 -> s_nc C l = 1 -> s_nr C r = 1 -> s_nc C r = 1 ->
  inner_csr C c0 cadd cmul cconj l r flag = Some v ->
  v = cmul (if flag then cconj (den_csr l 0 0) else den_csr l 0 0) (den_csr r 0 0).
Proof.
  intros l r flag v Wl Wr L1 L2 R1 R2 H. unfold inner_csr in H.
  rewrite L1, L2, R1, R2 in H. simpl in H. injection H as H. subst v.
  pose proof (head_data_den l Wl L1 L2) as A. pose proof (head_data_den r Wr R1 R2) as B.
  destruct (head_data C l) as [a|]; destruct (head_data C r) as [b|]; rewrite A, B;
    try reflexivity.
  - symmetry. apply Hmul0r.
  - destruct flag; [rewrite Hconj0|]; symmetry; apply Hmul0l.
  - symmetry. apply Hmul0r.
Qed.

Theorem inner_csr_bra : forall (l r : csr C) flag v,
  wf_csr C l -> wf_csr C r -> s_nr C l = 1 -> s_nc C l <> 1 ->
  inner_csr C c0 cadd cmul cconj l r flag = Some v ->
  v = dsum (fun j => cmul (den_csr l 0 j) (den_csr r j 0)) 0 (s_nc C l).
Proof.
  intros l r flag v Wl Wr L1 L2 H. unfold inner_csr in H. rewrite L1 in H. simpl in H.
  destruct (negb (s_nc C r =? 1) || negb (s_nc C l + 0 =? s_nr C r)) eqn:G; [discriminate|].
  assert (E : (s_nc C l =? 1) = false) by lia. rewrite E in H. simpl in H.
  injection H as H. subst v.
  assert (Hnc : s_nc C r = 1) by lia.
  rewrite (fold_left_ext_in _ _
     (fun out p => cadd out (cmul (snd p) (den_csr r (fst p) 0))))
    by (intros acc p _; apply ket_term; assumption).
  rewrite (fold_acc _ (fun p => cmul (snd p) (den_csr r (fst p) 0))).
  rewrite Hadd0l, (fold_right_rowsum _ (fun j => den_csr r j 0)).
  assert (Ec : concat (s_rows C l) = nth 0 (s_rows C l) []).
  { destruct Wl as [Ll _]. destruct (s_rows C l) as [|row [|row2 t]]; simpl in Ll; try lia.
    simpl. apply app_nil_r. }
  rewrite Ec. apply oprow_dsum; [exact Wl|lia|reflexivity].
Qed.

Theorem inner_csr_ket : forall (l r : csr C) flag v,
  wf_csr C l -> wf_csr C r -> s_nr C l <> 1 -> s_nc C l = 1 ->
  inner_csr C c0 cadd cmul cconj l r flag = Some v ->
  v = dsum (fun i => cmul (cconj (den_csr l i 0)) (den_csr r i 0)) 0 (s_nr C l).
Proof.
  intros l r flag v Wl Wr L1 L2 H. unfold inner_csr in H. rewrite L2 in H.
  assert (E : (s_nr C l =? 1) = false) by lia. rewrite E in H. simpl in H.
  destruct (negb (s_nc C r =? 1) || negb (s_nr C l * 1 =? s_nr C r)) eqn:G; [discriminate|].
  injection H as H. subst v.
  assert (Hnc : s_nc C r = 1) by lia.
  rewrite (fold_left_ext_in _ _
     (fun out row => cadd out (cmul (cconj (den_csr l row 0)) (den_csr r row 0)))).
  - apply fold_seq_dsum. intros i _. reflexivity.
  - intros acc row _.
    pose proof (ket_at_den l row Wl L2) as A. pose proof (ket_at_den r row Wr Hnc) as B.
    destruct (ket_at C (s_rows C l) row) as [a|]; destruct (ket_at C (s_rows C r) row) as [b|];
      rewrite A, B; try reflexivity.
    + rewrite Hmul0r, Hadd0r. reflexivity.
    + rewrite Hconj0, Hmul0l, Hadd0r. reflexivity.
    + rewrite Hmul0r, Hadd0r. reflexivity.
Qed.
End Inner.
