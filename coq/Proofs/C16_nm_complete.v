(* C16 - nm_mcsolve: the completion operator of _check_completeness, over the
   definitions regenerated from the source (Gen/C16_nm_complete.v).  The matrix
   square root and the eigenvalue maximum are oracles: all that is used of
   sqrtm is that its result M is Hermitian with M M = its argument. *)
From mathcomp Require Import all_ssreflect all_algebra.
From QV Require Import Base.MxHerm Gen.C16_rhs Gen.C16_nm_complete Proofs.C16_gen Proofs.C16_nm_gen.
Set Implicit Arguments. Unset Strict Implicit. Unset Printing Implicit Defensive.
Import GRing.Theory.
Local Open Scope ring_scope.

Section CompleteProofs.
Variable R : fieldType.
Variable conj : {rmorphism R -> R}.
Variable n : nat.
Notation op := 'M[R]_n.
Notation dg := (dag conj).

Lemma comp_op_sum (ops : seq op) : comp_op conj ops = \sum_(L <- ops) dg L *m L.
Proof. by []. Qed.

(* first return value: the family is already complete with constant a_candidate,
   and a_candidate is the only constant it can be complete with *)
Lemma first_branch (ops : seq op) :
  comp_op conj ops = comp_test_rhs (comp_cand (comp_op conj ops)) (comp_op conj ops) ->
  \sum_(L <- ops) dg L *m L = (comp_cand (comp_op conj ops))%:M.
Proof. by rewrite /comp_test_rhs scalemx1 => <-. Qed.

Lemma cand_unique (ops : seq op) (c : R) :
  n%:R != 0 :> R -> comp_op conj ops = c%:M -> comp_cand (comp_op conj ops) = c.
Proof.
move=> n0 ->; rewrite /comp_cand mxtrace_scalar -mulr_natr mulfK //.
Qed.

(* second return value: with M = sqrtm(a 1 - op), i.e. any Hermitian M with
   M M = a 1 - op, the family extended by M is complete with constant a *)
Lemma second_branch (ops : seq op) (a : R) (M : op) :
  dg M = M -> M *m M = comp_sqrt_arg a (comp_op conj ops) ->
  comp_op conj (rcons ops M) = a%:M.
Proof.
move=> HM HMM.
rewrite /comp_op -cats1 big_cat big_seq1 /= /comp_summand HM HMM /comp_sqrt_arg scalemx1.
by rewrite addrC subrK.
Qed.

(* composed with the rate-shift algebra: the generator nm_mcsolve integrates,
   built from the user's operators and the completion operator (rate 0), is
   the generator of the true rates minus (s a / 2) 1 *)
Theorem completed_generator (iu half s a : R) (chans : seq (chan R n)) (M : op) (rM : R) (H : op) :
  dg M = M -> M *m M = comp_sqrt_arg a (comp_op conj [seq cL x | x <- chans]) ->
  (forall x, x \in rcons chans (M, 0, rM) -> conj (cr x) = cr x /\ cr x * cr x = cg x + s) ->
  ket_rhs conj iu half H [seq shifted_op x | x <- rcons chans (M, 0, rM)]
  = (- iu) *: H - half *: (\sum_(x <- chans) cg x *: (dg (cL x) *m cL x)) - (half * (s * a))%:M.
Proof.
move=> HM HMM Hs.
have Hc : \sum_(x <- rcons chans (M, 0, rM)) dg (cL x) *m cL x = a%:M.
  have := second_branch HM HMM; rewrite /comp_op -!cats1 !big_cat /= !big_seq1 big_map.
  by [].
rewrite (shifted_generator iu half Hs Hc H).
by rewrite -cats1 big_cat /= big_seq1 /cg /= scale0r addr0.
Qed.

End CompleteProofs.
