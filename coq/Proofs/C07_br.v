(* C07 - Tier B: the element formula of _br_term_dense against the operator
   expression of the Bloch-Redfield term (concrete witness, vm_compute). *)
From Coq Require Import List ZArith Bool Lia.
Import ListNotations.
From QV Require Import Model.C07_br.
Local Open Scope Z_scope.

(* witness: H = sigma_z (eigenbasis), A = sigma_x + sigma_y, white spectrum
   S(w) = 2, X = |0><1| *)
Definition wA : mat G := [[(0,0); (1,-1)]; [(1,1); (0,0)]].
Definition wS : mat Z := [[2; 2]; [2; 2]].
Definition wK : mat Z := [[0; -2]; [2; 0]].
Definition wX : mat G := [[(0,0); (1,0)]; [(0,0); (0,0)]].

Lemma br_dense_witness :
  is_hermb 2 wA = true /\
  apply_super 2 (br_dense2 2 wA wS wK None) wX = [[(0,0); (-8,0)]; [(0,-8); (0,0)]] /\
  br_expr2 2 wA wS wX = [[(0,0); (-8,0)]; [(0,8); (0,0)]].
Proof. vm_compute; repeat split; reflexivity. Qed.

Lemma br_dense_refuted :
  exists (n : nat) (A : mat G) (S K : mat Z) (X : mat G),
    is_hermb n A = true /\
    meqb n (apply_super n (br_dense2 n A S K None) X) (br_expr2 n A S X) = false.
Proof. exists 2%nat, wA, wS, wK, wX. vm_compute; split; reflexivity. Qed.

(* what the element formula does compute on the witness: the expression for
   the transposed coupling operator (row-major index a*n+b used where the
   column-stacked index is b*n+a) *)
Lemma br_dense_is_transposed_on_witness :
  meqb 2 (apply_super 2 (br_dense2 2 wA wS wK None) wX)
         (br_expr2 2 (mtr 2 wA) wS wX) = true.
Proof. vm_compute; repeat split; reflexivity. Qed.

(* the trace functional is annihilated on the witness, with and without the
   secular mask *)
Lemma br_dense_trace_witness :
  forallb (fun cut =>
    forallb (fun X => geqb (mtrace 2 (apply_super 2 (br_dense2 2 wA wS wK cut) X)) g0)
      [ [[(1,0);(0,0)];[(0,0);(0,0)]]; wX; [[(0,0);(0,0)];[(1,0);(0,0)]];
        [[(0,0);(0,0)];[(0,0);(1,0)]] ])
    [None; Some 1; Some 3] = true.
Proof. vm_compute; repeat split; reflexivity. Qed.
