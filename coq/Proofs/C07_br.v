(* C07 - Tier B: the element formula of _br_term_dense against the operator
   expression of the Bloch-Redfield term (vm_compute on bounded domains). *)
From Coq Require Import List ZArith Bool Lia.
Import ListNotations.
From QV Require Import Model.C07_br.
Local Open Scope Z_scope.

(* the former counter-example: H = sigma_z (eigenbasis), A = sigma_x + sigma_y,
   white spectrum S(w) = 2, X = |0><1| *)
Definition wA : mat G := [[(0,0); (1,-1)]; [(1,1); (0,0)]].
Definition wS : mat Z := [[2; 2]; [2; 2]].
Definition wK : mat Z := [[0; -2]; [2; 0]].
Definition wX : mat G := [[(0,0); (1,0)]; [(0,0); (0,0)]].

Lemma br_dense_witness :
  is_hermb 2 wA = true /\
  apply_super 2 (br_dense2 2 wA wS wK None) wX = [[(0,0); (-8,0)]; [(0,8); (0,0)]] /\
  br_expr2 2 wA wS wX = [[(0,0); (-8,0)]; [(0,8); (0,0)]].
Proof. vm_compute; repeat split; reflexivity. Qed.

(* bounded domain: every 2x2 matrix with entries in gvals (625 matrices, not
   only Hermitian ones), two spectra, the four matrix units *)
Definition gvals : list G := [(0,0); (1,0); (0,1); (1,-1); (-1,2)].
Definition mats2 : list (mat G) :=
  flat_map (fun a => flat_map (fun b => flat_map (fun c => map (fun d =>
    [[a; b]; [c; d]]) gvals) gvals) gvals) gvals.
Definition units2 : list (mat G) :=
  [ [[(1,0);(0,0)];[(0,0);(0,0)]]; [[(0,0);(1,0)];[(0,0);(0,0)]];
    [[(0,0);(0,0)];[(1,0);(0,0)]]; [[(0,0);(0,0)];[(0,0);(1,0)]] ].
Definition specs2 : list (mat Z) := [wS; [[2; 4]; [0; 2]]].

Lemma br_dense_small_domain :
  forallb (fun A => forallb (fun S => forallb (fun X =>
    meqb 2 (apply_super 2 (br_dense2 2 A S wK None) X) (br_expr2 2 A S X))
    units2) specs2) mats2 = true.
Proof. vm_compute; reflexivity. Qed.

Lemma br_dense_small_domain_forall :
  forall A S X, In A mats2 -> In S specs2 -> In X units2 ->
    meqb 2 (apply_super 2 (br_dense2 2 A S wK None) X) (br_expr2 2 A S X) = true.
Proof.
  intros A S X HA HS HX.
  pose proof br_dense_small_domain as H.
  rewrite forallb_forall in H. specialize (H A HA).
  rewrite forallb_forall in H. specialize (H S HS).
  rewrite forallb_forall in H. exact (H X HX).
Qed.

(* the trace functional is annihilated on the witness, with and without the
   secular mask *)
Lemma br_dense_trace_witness :
  forallb (fun cut =>
    forallb (fun X => geqb (mtrace 2 (apply_super 2 (br_dense2 2 wA wS wK cut) X)) g0)
      units2)
    [None; Some 1; Some 3] = true.
Proof. vm_compute; reflexivity. Qed.
