(* C13 for mixed initial ensembles: MultiTrajSolver._run_mixed /
   _run_one_traj_mixed(id, seeds, ics) composed with the model of
   _InitialConditions of check C16 (Model/C16_mix.v: state_index = the real
   get_state_index, tied to the source there) and with the C14 scheduler. *)
From Coq Require Import List ZArith Bool Arith Lia Permutation.
Import ListNotations.
From QV Require Import Model.C14 Proofs.C14 Model.C13 Proofs.C13_ens Model.C16_mix Proofs.C16_mix.

Arguments r_seeds {TR}. Arguments r_coll {TR}.
Local Open Scope nat_scope.

Section Mixed.
Variable TR : Type.
Variable trajm : nat -> seedid -> TR.     (* trajectory from member state k with a seed *)
Variable counts : list nat.               (* ics.ntraj: trajectories per member state *)

(* task number id: seed = seeds[id]; state, weight = ics.get_state_and_weight(id);
   None = IndexError *)
Definition mixed_val (seeds : list sseq) (id : nat) : option TR :=
  match nth_error seeds id, state_index counts id with
  | Some s, Some k => Some (trajm k (sid s))
  | _, _ => None
  end.

(* whatever the order in which results reach result.add: the entry stored
   beside seed number id is the trajectory of (member state of id, that seed),
   and the member state is fixed by id and the counts alone - partial sums *)
Lemma mixed_entries keep seeds order s tr :
  let r := reduce_all (option TR) keep seeds (mixed_val seeds) order in
  In (s, tr) (combine (r_seeds r) (r_coll r)) ->
  exists id, In id order /\ nth_error seeds id = Some s /\
    match state_index counts id with
    | Some k => tr = Some (trajm k (sid s)) /\ k < length counts /\
                psum counts k <= id < psum counts (S k)
    | None => tr = None /\ fold_right plus 0 counts <= id
    end.
Proof.
  intros r H.
  destruct (reduce_all_aligned (option TR) keep seeds (mixed_val seeds) order) as (A & _).
  fold r in A. rewrite A in H. apply in_flat_map in H. destruct H as [id [Hid He]].
  unfold C13_ens.entry in He. destruct (nth_error seeds id) as [s'|] eqn:Es; [|destruct He].
  destruct He as [He|[]]. injection He as <- <-. exists id. split; [exact Hid|]. split; [exact Es|].
  unfold mixed_val. rewrite Es. destruct (state_index counts id) as [k|] eqn:Ek.
  - split; [reflexivity|]. now apply state_index_spec.
  - split; [reflexivity|]. now apply state_index_total.
Qed.

(* with as many seeds as trajectories asked for, no task fails to find its state *)
Lemma mixed_all_defined seeds id :
  length seeds = fold_right plus 0 counts -> id < length seeds ->
  exists s k, mixed_val seeds id = Some (trajm k (sid s)) /\ nth_error seeds id = Some s /\
              state_index counts id = Some k.
Proof.
  intros Hl Hid. unfold mixed_val.
  destruct (nth_error seeds id) as [s|] eqn:Es; [|apply nth_error_None in Es; lia].
  destruct (state_index counts id) as [k|] eqn:Ek.
  - exists s, k. repeat split.
  - apply state_index_total in Ek. lia.
Qed.

(* under any schedule of the parallel map *)
Lemma mixed_any_schedule (c : cfg) stopf keep seeds sched e0 fuel :
  reducer c = true -> 1 <= workers c ->
  outs c = map (fun j => Val (Z.of_nat j) (stopf j)) (seq 0 (length seeds)) ->
  length seeds = fold_right plus 0 counts ->
  let st := iter c fuel (init c sched e0) in
  let r := reduce_all (option TR) keep seeds (mixed_val seeds) (order_of st) in
  forall s tr, In (s, tr) (combine (r_seeds r) (r_coll r)) ->
    exists id k, In id (s_compl st) /\ nth_error seeds id = Some s /\
      tr = Some (trajm k (sid s)) /\ psum counts k <= id < psum counts (S k).
Proof.
  intros Hred HW Houts Hl st r s tr H.
  destruct (mixed_entries keep seeds (order_of st) s tr H) as (id & Hid & Hs & Hk).
  destruct (order_spec c (length seeds) stopf Hred Houts HW sched e0 fuel) as [_ Hin].
  fold st in Hin. apply Hin in Hid. destruct Hid as [Hc Hlt].
  destruct (state_index counts id) as [k|] eqn:Ek.
  - destruct Hk as (-> & _ & Hb). exists id, k. repeat split; auto; lia.
  - destruct Hk as (_ & Hge). lia.
Qed.
End Mixed.
