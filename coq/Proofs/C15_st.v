From Coq Require Import List ZArith QArith Qcanon Bool Arith Lia.
Import ListNotations.
From QV Require Import Model.C15 Proofs.C15 Model.C15_st.
Local Open Scope Qc_scope.

(* weighted sums over trajectories with states *)
Fixpoint wsumS (f : straj -> Qc) (ws : list Qc) (ts : list straj) : Qc :=
  match ws, ts with
  | w :: ws', t :: ts' => w * f t + wsumS f ws' ts'
  | _, _ => 0
  end.

Lemma wsumS_nil_r f ws : wsumS f ws [] = 0.
Proof. destruct ws; reflexivity. Qed.

Lemma wsumS_app f ws1 ts1 ws2 ts2 : length ws1 = length ts1 ->
  wsumS f (ws1 ++ ws2) (ts1 ++ ts2) = wsumS f ws1 ts1 + wsumS f ws2 ts2.
Proof.
  revert ts1. induction ws1 as [|w ws1 IH]; intros [|t ts1] H; simpl in *; try lia.
  - ring.
  - rewrite IH by lia. ring.
Qed.

Lemma wsumS_snoc f ws ts w t : length ws = length ts ->
  wsumS f (ws ++ [w]) (ts ++ [t]) = wsumS f ws ts + w * f t.
Proof. intros H. rewrite wsumS_app by assumption. simpl. ring. Qed.

Lemma wsumS_scale f c ws ts : wsumS f (map (fun w => w * c) ws) ts = c * wsumS f ws ts.
Proof.
  revert ts. induction ws as [|w ws IH]; intros [|t ts]; simpl; try ring.
  rewrite IH. ring.
Qed.

(* value of a trajectory at component k of its states / of its final state *)
Definition sat (k : nat) (t : straj) : Qc := match s_states t with Some v => nth k v 0 | None => 0 end.
Definition fat (k : nat) (t : straj) : Qc := match s_final t with Some v => nth k v 0 | None => 0 end.

(* the weighted mean of f over what was added to o *)
Definition meanS (f : straj -> Qc) (o : sobj) : Qc :=
  wsumS f (o_wdet o) (o_gdet o) + wsumS f (o_wrel o) (o_grel o) / QcN (o_num o).

Definition p_usedS (a b : sobj) (p : option Qc) : Qc :=
  match p with Some p => p | None => QcN (o_num a) / QcN (o_num a + o_num b) end.

Section Uniform.
(* options shared by every result created in the history, sizes *)
Variables (ss sf kk : bool) (d ns : nat).
(* one block of the flattened states has the length of a final state *)
Hypothesis Hdns : ss = true -> (d <= ns)%nat.

(* a trajectory as the solver produces it under these options *)
Definition wf (t : straj) : Prop :=
  (if ss then exists v, s_states t = Some v /\ length v = ns else s_states t = None) /\
  (if ss || sf then exists f, s_final t = Some f /\ length f = d else s_final t = None) /\
  (forall v, s_states t = Some v -> s_final t = Some (lastblock d v)).

Definition slot_ok (n : nat) (f : nat -> straj -> Qc) (sl : option vec) ws ts : Prop :=
  match sl with
  | Some v => length v = n /\ forall k, nth k v 0 = wsumS (f k) ws ts
  | None => True
  end.

(* maintained by a processor: present and right; otherwise absent unless the
   runs are kept (then possibly computed on demand, and right) *)
Definition slot_inv (n : nat) (f : nat -> straj -> Qc) (en proc keep : bool) (sl : option vec) ws ts : Prop :=
  slot_ok n f sl ws ts /\ (proc = true -> sl <> None) /\ (proc = false -> keep = false -> sl = None) /\
  (en = false -> sl = None).

Definition sum_inv (o : sobj) (x : option ssum) ws ts : Prop :=
  (x = None <-> ts = []) /\
  forall s, x = Some s ->
    slot_inv ns sat ss (o_pstates o) (o_keep o) (ss_states s) ws ts /\
    slot_inv d fat (sf && negb ss) (o_pfinal o) (o_keep o) (ss_final s) ws ts.

Record SI (o : sobj) : Prop := {
  si_ss : o_ss o = ss;
  si_sf : o_sf o = sf \/ o_sf o = sf || ss;
  si_keep : o_keep o = kk;
  si_pstore : o_pstore o = o_keep o;
  si_pstates : o_pstates o = store_avg ss (o_keep o);
  si_pfinal : o_pfinal o = sf && negb ss && negb (o_keep o);
  si_lr : length (o_wrel o) = o_num o;
  si_lg : length (o_grel o) = o_num o;
  si_ld : length (o_wdet o) = length (o_gdet o);
  si_trajs : o_trajs o = if o_keep o then o_grel o else [];
  si_dtrajs : o_dtrajs o = o_gdet o;
  si_wfr : Forall wf (o_grel o);
  si_wfd : Forall wf (o_gdet o);
  si_rel : sum_inv o (o_rel o) (o_wrel o) (o_grel o);
  si_det : sum_inv o (o_det o) (o_wdet o) (o_gdet o) }.

Lemma store_fin_any k x : x = sf \/ x = sf || ss -> store_fin ss x k = sf && negb ss && negb k.
Proof. intros [->| ->]; unfold store_fin, store_avg; destruct ss, sf, k; reflexivity. Qed.

Lemma SI_new : SI (snew ss sf kk).
Proof.
  constructor; simpl; auto.
  - apply store_fin_any. auto.
  - destruct kk; reflexivity.
  - split; [tauto|discriminate].
  - split; [tauto|discriminate].
Qed.

(* ---- slots *)
Lemma slot_ok_add n f sl ws ts w t xv :
  length ws = length ts -> length xv = n -> (forall k, nth k xv 0 = f k t) ->
  slot_ok n f sl ws ts -> slot_ok n f (slot_add sl w (Some xv)) (ws ++ [w]) (ts ++ [t]).
Proof.
  intros Hl Hx Hf H. destruct sl as [v|]; simpl in *; [|exact I].
  destruct H as [L N]. split; [rewrite vadd_length; rewrite ?vscale_length; lia|].
  intros k. rewrite vadd_nth by (rewrite vscale_length; lia).
  rewrite vscale_nth, N, Hf, wsumS_snoc by assumption. reflexivity.
Qed.

Lemma slot_ok_zero n f (xv : vec) ws : length xv = n -> slot_ok n f (Some (vzeros_like xv)) ws [].
Proof.
  intros H. simpl. split; [rewrite vzeros_length; assumption|].
  intros k. rewrite vzeros_nth, wsumS_nil_r. reflexivity.
Qed.

Lemma wf_states t : wf t -> ss = true -> exists v, s_states t = Some v /\ length v = ns /\ forall k, nth k v 0 = sat k t.
Proof.
  intros (A & _ & _) E. rewrite E in A. destruct A as (v & Hv & L).
  exists v. repeat split; auto. intros k. unfold sat. rewrite Hv. reflexivity.
Qed.

Lemma wf_final t : wf t -> ss || sf = true -> exists v, s_final t = Some v /\ length v = d /\ forall k, nth k v 0 = fat k t.
Proof.
  intros (_ & A & _) E. rewrite E in A. destruct A as (v & Hv & L).
  exists v. repeat split; auto. intros k. unfold fat. rewrite Hv. reflexivity.
Qed.

Lemma wf_nostates t : wf t -> ss = false -> s_states t = None.
Proof. intros (A & _) E. rewrite E in A. exact A. Qed.

(* ---- one trajectory more *)
Lemma procs_flags o : SI o ->
  (o_pstates o = true -> ss = true /\ o_keep o = false) /\
  (o_pfinal o = true -> ss = false /\ sf = true /\ o_keep o = false).
Proof.
  intros HI. rewrite (si_pstates o HI), (si_pfinal o HI). unfold store_avg.
  destruct ss, sf, (o_keep o); simpl; split; intros H; try discriminate; auto.
Qed.

Lemma flags_keep o : SI o -> o_keep o = true -> o_pstates o = false /\ o_pfinal o = false.
Proof.
  intros HI K. rewrite (si_pstates o HI), (si_pfinal o HI), K. unfold store_avg.
  rewrite !andb_false_r. auto.
Qed.

Lemma init_eq o t : SI o ->
  ssum_init t (store_avg (o_ss o) (o_keep o)) (store_fin (o_ss o) (o_sf o) (o_keep o))
  = ssum_init t (o_pstates o) (o_pfinal o).
Proof.
  intros HI. rewrite (si_ss o HI), (store_fin_any _ _ (si_sf o HI)), (si_pstates o HI), (si_pfinal o HI).
  reflexivity.
Qed.

(* the sum a new trajectory is reduced into *)
Lemma presum_inv o x ws ts t :
  SI o -> wf t -> sum_inv o x ws ts ->
  let s0 := or_sinit o (clear_lazy (o_keep o) x) t in
  slot_inv ns sat ss (o_pstates o) (o_keep o) (ss_states s0) ws ts /\
  slot_inv d fat (sf && negb ss) (o_pfinal o) (o_keep o) (ss_final s0) ws ts /\
  (o_keep o = true -> ss_states s0 = None /\ ss_final s0 = None).
Proof.
  intros HI Ht [Hn Hs] s0. destruct (procs_flags o HI) as [PS PF]. unfold s0.
  destruct x as [sx|].
  - destruct (Hs sx eq_refl) as [A B]. unfold clear_lazy. destruct (o_keep o) eqn:K; simpl.
    + destruct (flags_keep o HI K) as [P1 P2]. rewrite P1, P2.
      split; [split; [exact I|split; [discriminate|split; [discriminate|reflexivity]]]|].
      split; [split; [exact I|split; [discriminate|split; [discriminate|reflexivity]]]|auto].
    + split; [assumption|split; [assumption|discriminate]].
  - assert (ts = []) by (apply Hn; reflexivity). subst ts.
    assert (Ec : clear_lazy (o_keep o) (@None ssum) = None) by (destruct (o_keep o); reflexivity).
    rewrite Ec. unfold or_sinit. rewrite (init_eq o t HI). unfold ssum_init. simpl.
    split; [|split].
    + destruct (o_pstates o) eqn:P.
      * destruct (PS eq_refl) as [E1 _]. destruct (wf_states t Ht E1) as (v & Hv & L & _).
        unfold zero_states. rewrite Hv. simpl.
        split; [apply (slot_ok_zero ns sat v ws L)|split; [discriminate|split; [discriminate|]]].
        intros E0. rewrite E1 in E0. discriminate.
      * split; [exact I|split; [discriminate|split; reflexivity]].
    + destruct (o_pfinal o) eqn:P.
      * destruct (PF eq_refl) as (E1 & E2 & _).
        destruct (wf_final t Ht) as (v & Hv & L & _); [rewrite E2; apply orb_true_r|].
        unfold zero_final. rewrite Hv. simpl.
        split; [apply (slot_ok_zero d fat v ws L)|split; [discriminate|split; [discriminate|]]].
        intros E0. rewrite E1, E2 in E0. discriminate.
      * split; [exact I|split; [discriminate|split; reflexivity]].
    + intros K. destruct (flags_keep o HI K) as [P1 P2]. rewrite P1, P2. auto.
Qed.

Lemma slot_step n f en proc keep sl ws ts w t (xo : option vec) :
  length ws = length ts ->
  (proc = true -> en = true /\ exists xv, xo = Some xv /\ length xv = n /\ forall k, nth k xv 0 = f k t) ->
  (keep = true -> sl = None) ->
  slot_inv n f en proc keep sl ws ts ->
  slot_inv n f en proc keep (if proc then slot_add sl w xo else sl) (ws ++ [w]) (ts ++ [t]).
Proof.
  intros Hl Hx Hk (S1 & S2 & S3 & S4). destruct proc.
  - destruct (Hx eq_refl) as (En & xv & -> & L & Nv).
    destruct sl as [acc|]; [|exfalso; apply S2; reflexivity].
    split; [apply (slot_ok_add n f (Some acc) ws ts w t xv); auto|].
    split; [simpl; discriminate|split; [discriminate|intros E0; congruence]].
  - destruct keep.
    + rewrite (Hk eq_refl). split; [exact I|split; [discriminate|split; [discriminate|reflexivity]]].
    + rewrite (S3 eq_refl eq_refl). split; [exact I|split; [discriminate|split; reflexivity]].
Qed.

Lemma sum_inv_add o x ws ts t w :
  SI o -> wf t -> length ws = length ts -> sum_inv o x ws ts ->
  sum_inv o (Some (run_procs o (or_sinit o (clear_lazy (o_keep o) x) t) t w)) (ws ++ [w]) (ts ++ [t]).
Proof.
  intros HI Ht Hl Hx. destruct (procs_flags o HI) as [PS PF].
  destruct (presum_inv o x ws ts t HI Ht Hx) as (S & F & K).
  set (s0 := or_sinit o (clear_lazy (o_keep o) x) t) in *.
  split; [split; [discriminate|intros E; destruct ts; discriminate]|].
  intros s E. injection E as <-. unfold run_procs. split.
  - assert (G : slot_inv ns sat ss (o_pstates o) (o_keep o)
                 (if o_pstates o then slot_add (ss_states s0) w (s_states t) else ss_states s0)
                 (ws ++ [w]) (ts ++ [t])).
    { apply slot_step; auto.
      - intros P. destruct (PS P) as [E1 _]. destruct (wf_states t Ht E1) as (v & Hv & L & Nv). eauto.
      - intros K'. apply (K K'). }
    destruct (o_pfinal o), (o_pstates o); exact G.
  - assert (G : slot_inv d fat (sf && negb ss) (o_pfinal o) (o_keep o)
                 (if o_pfinal o then slot_add (ss_final s0) w (s_final t) else ss_final s0)
                 (ws ++ [w]) (ts ++ [t])).
    { apply slot_step; auto.
      - intros P. destruct (PF P) as (E1 & E2 & _).
        destruct (wf_final t Ht) as (v & Hv & L & Nv); [rewrite E2; apply orb_true_r|].
        split; [rewrite E1, E2; reflexivity|eauto].
      - intros K'. apply (K K'). }
    destruct (o_pfinal o), (o_pstates o); exact G.
Qed.

(* the other sum of the object: only the on-demand parts are dropped *)
Lemma sum_inv_clear o x ws ts : SI o -> sum_inv o x ws ts -> sum_inv o (clear_lazy (o_keep o) x) ws ts.
Proof.
  intros HI H. unfold clear_lazy. destruct (o_keep o) eqn:K; [|exact H].
  destruct H as [Hn Hs]. destruct (flags_keep o HI K) as [P1 P2].
  split.
  - rewrite <- Hn. destruct x; simpl; split; congruence.
  - intros s E. destruct x as [sx|]; simpl in E. 2: { discriminate E. } inversion E; subst s. simpl.
    rewrite P1, P2. split; (split; [exact I|split; [discriminate|split; intros; reflexivity]]).
Qed.

Lemma SI_add o t w : SI o -> wf t -> SI (sadd o t w).
Proof.
  intros HI Ht. constructor; simpl; try apply HI.
  - rewrite app_length, (si_lr o HI). simpl. lia.
  - rewrite app_length, (si_lg o HI). simpl. lia.
  - rewrite (si_pstore o HI), (si_trajs o HI). destruct (o_keep o); reflexivity.
  - apply Forall_app. split; [apply HI|auto].
  - apply (sum_inv_add o (o_rel o) (o_wrel o) (o_grel o) t w HI Ht).
    + rewrite (si_lr o HI), (si_lg o HI). reflexivity.
    + apply HI.
  - apply (sum_inv_clear o (o_det o) _ _ HI). apply HI.
Qed.

Lemma SI_add_det o t w : SI o -> wf t -> SI (sadd_det o t w).
Proof.
  intros HI Ht. constructor; simpl; try apply HI.
  - rewrite !app_length, (si_ld o HI). reflexivity.
  - rewrite (si_dtrajs o HI). reflexivity.
  - apply Forall_app. split; [apply HI|auto].
  - apply (sum_inv_clear o (o_rel o) _ _ HI). apply HI.
  - apply (sum_inv_add o (o_det o) (o_wdet o) (o_gdet o) t w HI Ht).
    + apply HI.
    + apply HI.
Qed.

(* ---- recomputation from the kept trajectories *)
Lemma refold_states_spec : forall ts ws acc ws0 ts0 fin,
  Forall wf ts -> ss = true -> length ws = length ts -> length ws0 = length ts0 ->
  slot_ok ns sat (Some acc) ws0 ts0 ->
  let r := refold reduce_states {| ss_states := Some acc; ss_final := fin |} ts ws in
  ss_final r = fin /\ exists v, ss_states r = Some v /\ slot_ok ns sat (Some v) (ws0 ++ ws) (ts0 ++ ts).
Proof.
  induction ts as [|t ts IH]; intros [|w ws] acc ws0 ts0 fin Hw E Hl Hl0 Hs; simpl in Hl; try lia.
  - intros r. unfold r, refold. simpl. rewrite !app_nil_r. split; [reflexivity|eauto].
  - inversion Hw as [|? ? Ht Hts]; subst.
    destruct (wf_states t Ht E) as (v & Hv & L & Nv).
    intros r. unfold r, refold. simpl.
    assert (Er : reduce_states {| ss_states := Some acc; ss_final := fin |} t w
                 = {| ss_states := Some (vadd acc (vscale w v)); ss_final := fin |})
      by (unfold reduce_states, slot_add; simpl; rewrite Hv; reflexivity).
    rewrite Er.
    assert (Hs' : slot_ok ns sat (Some (vadd acc (vscale w v))) (ws0 ++ [w]) (ts0 ++ [t])).
    { apply (slot_ok_add ns sat (Some acc) ws0 ts0 w t v); auto. }
    destruct (IH ws (vadd acc (vscale w v)) (ws0 ++ [w]) (ts0 ++ [t]) fin Hts E) as (A & v' & B & C);
      auto; try lia.
    { rewrite !app_length. simpl. lia. }
    unfold refold in A, B. simpl in A, B. split; [exact A|].
    exists v'. split; [exact B|]. rewrite <- !app_assoc in C. exact C.
Qed.

Lemma refold_final_spec : forall ts ws acc ws0 ts0 st,
  Forall wf ts -> ss || sf = true -> length ws = length ts -> length ws0 = length ts0 ->
  slot_ok d fat (Some acc) ws0 ts0 ->
  let r := refold reduce_final {| ss_states := st; ss_final := Some acc |} ts ws in
  ss_states r = st /\ exists v, ss_final r = Some v /\ slot_ok d fat (Some v) (ws0 ++ ws) (ts0 ++ ts).
Proof.
  induction ts as [|t ts IH]; intros [|w ws] acc ws0 ts0 st Hw E Hl Hl0 Hs; simpl in Hl; try lia.
  - intros r. unfold r, refold. simpl. rewrite !app_nil_r. split; [reflexivity|eauto].
  - inversion Hw as [|? ? Ht Hts]; subst.
    destruct (wf_final t Ht E) as (v & Hv & L & Nv).
    intros r. unfold r, refold. simpl.
    assert (Er : reduce_final {| ss_states := st; ss_final := Some acc |} t w
                 = {| ss_states := st; ss_final := Some (vadd acc (vscale w v)) |})
      by (unfold reduce_final, slot_add; simpl; rewrite Hv; reflexivity).
    rewrite Er.
    assert (Hs' : slot_ok d fat (Some (vadd acc (vscale w v))) (ws0 ++ [w]) (ts0 ++ [t])).
    { apply (slot_ok_add d fat (Some acc) ws0 ts0 w t v); auto. }
    destruct (IH ws (vadd acc (vscale w v)) (ws0 ++ [w]) (ts0 ++ [t]) st Hts E) as (A & v' & B & C);
      auto; try lia.
    { rewrite !app_length. simpl. lia. }
    unfold refold in A, B. simpl in A, B. split; [exact A|].
    exists v'. split; [exact B|]. rewrite <- !app_assoc in C. exact C.
Qed.

(* ---- reading *)
Lemma nth_skipn (v : vec) m k : nth k (skipn m v) 0 = nth (m + k) v 0.
Proof.
  revert v. induction m as [|m IH]; intros v; simpl; [reflexivity|].
  destruct v as [|x v]; simpl; [destruct k; reflexivity|apply IH].
Qed.

Lemma wsumS_ext f g ws ts : Forall (fun t => f t = g t) ts -> wsumS f ws ts = wsumS g ws ts.
Proof.
  intros H. revert ws. induction H as [|t ts Ht Hts IH]; intros [|w ws]; simpl; auto.
  rewrite Ht, IH. reflexivity.
Qed.

(* everything but the on-demand sums *)
Definition same_ens (o o' : sobj) : Prop :=
  o_wrel o' = o_wrel o /\ o_wdet o' = o_wdet o /\ o_grel o' = o_grel o /\ o_gdet o' = o_gdet o /\
  o_num o' = o_num o /\ o_trajs o' = o_trajs o /\ o_dtrajs o' = o_dtrajs o /\
  o_hast o' = o_hast o /\ o_ss o' = o_ss o /\ o_sf o' = o_sf o /\ o_keep o' = o_keep o.

Lemma same_ens_refl o : same_ens o o.
Proof. repeat split. Qed.

Lemma same_ens_trans a b c : same_ens a b -> same_ens b c -> same_ens a c.
Proof.
  intros (A1&A2&A3&A4&A5&A6&A7&A8&A9&A10&A11) (B1&B2&B3&B4&B5&B6&B7&B8&B9&B10&B11).
  repeat split; congruence.
Qed.

Lemma same_ens_mean f a b : same_ens a b -> meanS f b = meanS f a.
Proof. intros (A1&A2&A3&A4&A5&_). unfold meanS. rewrite A1, A2, A3, A4, A5. reflexivity. Qed.

Lemma combine_spec (sel : ssum -> option vec) n f o :
  length (o_wrel o) = length (o_grel o) ->
  (o_rel o = None <-> o_grel o = []) -> (o_det o = None <-> o_gdet o = []) ->
  (forall s, o_rel o = Some s -> exists v, sel s = Some v /\ slot_ok n f (Some v) (o_wrel o) (o_grel o)) ->
  (forall s, o_det o = Some s -> exists v, sel s = Some v /\ slot_ok n f (Some v) (o_wdet o) (o_gdet o)) ->
  (o_grel o <> [] \/ o_gdet o <> [] -> exists v, combine_sums sel o = SVal v) /\
  (forall v, combine_sums sel o = SVal v -> length v = n /\ forall k, nth k v 0 = meanS (f k) o).
Proof.
  intros Hl Hr Hd Sr Sd. unfold combine_sums, meanS.
  destruct (o_det o) as [dt|] eqn:Ed, (o_rel o) as [r|] eqn:Er.
  - destruct (Sd dt eq_refl) as (a & Ea & La & Na). destruct (Sr r eq_refl) as (b & Eb & Lb & Nb).
    rewrite Ea, Eb. split; [eauto|]. intros v E. injection E as <-.
    split; [rewrite vadd_length; rewrite ?vdivn_length; lia|].
    intros k. rewrite vadd_nth by (rewrite vdivn_length; lia). rewrite vdivn_nth, Na, Nb. reflexivity.
  - destruct (Sd dt eq_refl) as (a & Ea & La & Na). rewrite Ea. split; [eauto|].
    intros v E. injection E as <-. split; [assumption|]. intros k.
    assert (G : o_grel o = []) by (apply Hr; reflexivity).
    rewrite Na, G, wsumS_nil_r, Qcdiv_0_l. ring.
  - destruct (Sr r eq_refl) as (b & Eb & Lb & Nb). rewrite Eb. split; [eauto|].
    intros v E. injection E as <-. split; [rewrite vdivn_length; assumption|]. intros k.
    assert (G : o_gdet o = []) by (apply Hd; reflexivity).
    rewrite vdivn_nth, Nb, G, wsumS_nil_r. ring.
  - split; [|discriminate]. intros [H|H]; exfalso; apply H; [apply Hr|apply Hd]; reflexivity.
Qed.

Lemma SI_with_sums o r dt : SI o ->
  sum_inv o r (o_wrel o) (o_grel o) -> sum_inv o dt (o_wdet o) (o_gdet o) -> SI (with_sums o r dt).
Proof. intros HI Hr Hd. constructor; simpl; try apply HI; assumption. Qed.

Lemma trajs_keep o : SI o -> o_trajs o <> [] -> o_keep o = true /\ o_trajs o = o_grel o.
Proof.
  intros HI H. rewrite (si_trajs o HI) in *. destruct (o_keep o); [auto|congruence].
Qed.

(* after the on-demand block both sums hold the weighted sums of the states *)
Lemma recompute_states_spec o : SI o -> ss = true -> o_trajs o <> [] ->
  SI (recompute_states o) /\ same_ens o (recompute_states o) /\
  (forall s, o_rel (recompute_states o) = Some s -> ss_states s <> None) /\
  (forall s, o_det (recompute_states o) = Some s -> ss_states s <> None).
Proof.
  intros HI E Hne. destruct (trajs_keep o HI Hne) as [K T].
  destruct (flags_keep o HI K) as [P1 P2].
  unfold recompute_states. destruct (o_trajs o) as [|ex tl] eqn:Et; [congruence|].
  assert (Hex : wf ex).
  { pose proof (si_wfr o HI) as W. rewrite <- T in W. inversion W; assumption. }
  destruct (wf_states ex Hex E) as (vx & Hvx & Lx & _).
  assert (Z : zero_states ex = Some (vzeros_like vx)) by (unfold zero_states; rewrite Hvx; reflexivity).
  assert (Lr : length (o_wrel o) = length (ex :: tl)).
  { rewrite T, (si_lr o HI), (si_lg o HI). reflexivity. }
  assert (Wr : Forall wf (ex :: tl)) by (rewrite T; apply HI).
  assert (Ld : length (o_wdet o) = length (o_dtrajs o)) by (rewrite (si_dtrajs o HI); apply HI).
  assert (Wd : Forall wf (o_dtrajs o)) by (rewrite (si_dtrajs o HI); apply HI).
  assert (R : forall (x : option ssum) ws ts, length ws = length ts -> Forall wf ts -> sum_inv o x ws ts ->
            sum_inv o (option_map (fun s => refold reduce_states
                        {| ss_states := zero_states ex; ss_final := ss_final s |} ts ws) x) ws ts /\
            forall s', option_map (fun s => refold reduce_states
                        {| ss_states := zero_states ex; ss_final := ss_final s |} ts ws) x = Some s' ->
                       ss_states s' <> None).
  { intros x ws ts Hl Hw [Hn Hs]. destruct x as [sx|]; simpl.
    - destruct (Hs sx eq_refl) as [_ F]. rewrite Z.
      destruct (refold_states_spec ts ws (vzeros_like vx) [] [] (ss_final sx) Hw E Hl eq_refl
                  (slot_ok_zero ns sat vx [] Lx)) as (A & v & B & C).
      simpl in C. split.
      + split; [rewrite <- Hn; split; discriminate|].
        intros s' Es. injection Es as <-. rewrite A, B, P1. split; [|exact F].
        split; [exact C|split; [discriminate|split; [intros _ K'; congruence|intros E0; congruence]]].
      + intros s' Es. injection Es as <-. rewrite B. discriminate.
    - split; [split; [exact Hn|discriminate]|discriminate]. }
  destruct (R (o_rel o) (o_wrel o) (ex :: tl) Lr Wr) as [R1 R2]; [rewrite T; apply HI|].
  destruct (R (o_det o) (o_wdet o) (o_dtrajs o) Ld Wd) as [D1 D2];
    [rewrite (si_dtrajs o HI); apply HI|].
  split; [|split; [repeat split; simpl; auto|split; assumption]].
  apply SI_with_sums; [assumption| |].
  - rewrite <- T. exact R1.
  - rewrite <- (si_dtrajs o HI). exact D1.
Qed.

Lemma lacks_false sel x : lacks sel x = false -> forall s : ssum, x = Some s -> sel s <> None.
Proof.
  intros H s ->. simpl in H. destruct (sel s); [discriminate|discriminate].
Qed.

Lemma ready_states o : SI o ->
  (forall s, o_rel o = Some s -> ss_states s <> None) ->
  (forall s, o_det o = Some s -> ss_states s <> None) ->
  (o_grel o <> [] \/ o_gdet o <> [] -> exists v, combine_sums ss_states o = SVal v) /\
  (forall v, combine_sums ss_states o = SVal v -> length v = ns /\ forall k, nth k v 0 = meanS (sat k) o).
Proof.
  intros HI Nr Nd. apply combine_spec.
  - rewrite (si_lr o HI), (si_lg o HI). reflexivity.
  - apply (si_rel o HI).
  - apply (si_det o HI).
  - intros s Es. destruct (proj2 (si_rel o HI) s Es) as [(A & _) _].
    destruct (ss_states s) as [v|] eqn:Ev; [eauto|exfalso; apply (Nr s Es); assumption].
  - intros s Es. destruct (proj2 (si_det o HI) s Es) as [(A & _) _].
    destruct (ss_states s) as [v|] eqn:Ev; [eauto|exfalso; apply (Nd s Es); assumption].
Qed.

Definition states_ready (o : sobj) : Prop :=
  (forall s, o_rel o = Some s -> ss_states s <> None) /\
  (forall s, o_det o = Some s -> ss_states s <> None).

Lemma avg_states_spec o : SI o ->
  SI (fst (average_states o)) /\ same_ens o (fst (average_states o)) /\
  (forall v, snd (average_states o) = SVal v ->
     states_ready (fst (average_states o)) /\
     length v = ns /\ forall k, nth k v 0 = meanS (sat k) o) /\
  (snd (average_states o) = SErr -> o_grel o = [] /\ o_gdet o = []) /\
  (ss = true -> o_trajs o <> [] -> exists v, snd (average_states o) = SVal v).
Proof.
  intros HI.
  assert (Havail : ss = true -> o_trajs o <> [] ->
            match o_trajs o with t :: _ => is_some (s_states t) | [] => false end = true).
  { intros E Hne. destruct (trajs_keep o HI Hne) as [_ T].
    destruct (o_trajs o) as [|t tl]; [congruence|].
    pose proof (si_wfr o HI) as W. rewrite <- T in W. inversion W as [|? ? Ht _]; subst.
    destruct (wf_states t Ht E) as (v & Hv & _). rewrite Hv. reflexivity. }
  unfold average_states.
  set (avail := match o_trajs o with t :: _ => is_some (s_states t) | [] => false end).
  destruct (lacks ss_states (o_det o) && negb avail) eqn:T1.
  { simpl. split; [assumption|split; [apply same_ens_refl|split; [discriminate|split; [discriminate|]]]].
    intros E Hne. fold avail in Havail. rewrite (Havail E Hne), andb_false_r in T1. discriminate. }
  destruct (lacks ss_states (o_rel o) && negb avail) eqn:T2.
  { simpl. split; [assumption|split; [apply same_ens_refl|split; [discriminate|split; [discriminate|]]]].
    intros E Hne. fold avail in Havail. rewrite (Havail E Hne), andb_false_r in T2. discriminate. }
  (* the object the sums are read from *)
  assert (G : exists o1,
             (if lacks ss_states (o_det o) || lacks ss_states (o_rel o) then recompute_states o else o) = o1
             /\ SI o1 /\ same_ens o o1 /\ states_ready o1).
  { destruct (lacks ss_states (o_det o) || lacks ss_states (o_rel o)) eqn:N.
    - assert (Av : avail = true).
      { destruct avail; [reflexivity|]. simpl in T1, T2. rewrite andb_true_r in T1, T2.
        rewrite T1, T2 in N. discriminate. }
      assert (Hne : o_trajs o <> []).
      { unfold avail in Av. destruct (o_trajs o); [discriminate|discriminate]. }
      assert (E : ss = true).
      { destruct (Bool.bool_dec ss true) as [|Hss]; [assumption|exfalso].
        apply not_true_is_false in Hss.
        destruct (trajs_keep o HI Hne) as [_ T]. unfold avail in Av.
        destruct (o_trajs o) as [|t tl]; [discriminate|].
        pose proof (si_wfr o HI) as W. rewrite <- T in W. inversion W as [|? ? Ht _]; subst.
        rewrite (wf_nostates t Ht Hss) in Av. discriminate. }
      destruct (recompute_states_spec o HI E Hne) as (A & B & C & D).
      exists (recompute_states o).
      split; [reflexivity|split; [exact A|split; [exact B|split; [exact C|exact D]]]].
    - apply orb_false_iff in N. destruct N as [N1 N2].
      exists o. split; [reflexivity|split; [assumption|split; [apply same_ens_refl|]]].
      split; [apply (lacks_false _ _ N2)|apply (lacks_false _ _ N1)]. }
  destruct G as (o1 & -> & I1 & S1 & [R1 R2]). simpl.
  destruct (ready_states o1 I1 R1 R2) as [Ex Sp].
  split; [assumption|split; [assumption|split]].
  - intros v Ev. split; [split; assumption|]. destruct (Sp v Ev) as [L N]. split; [assumption|].
    intros k. rewrite N. apply same_ens_mean. assumption.
  - split.
    + intros Ee. destruct S1 as (_ & _ & G3 & G4 & _).
      destruct (o_grel o) eqn:Eg, (o_gdet o) eqn:Ed; auto; exfalso;
        (destruct Ex as [v Ev]; [rewrite G3, G4; auto; try (left; discriminate); right; discriminate|congruence]).
    + intros E Hne. apply Ex. left. destruct S1 as (_ & _ & G3 & _). rewrite G3.
      destruct (trajs_keep o HI Hne) as [_ T]. rewrite <- T. assumption.
Qed.

(* ---- final state *)
Lemma recompute_final_spec o : SI o -> sf && negb ss = true -> o_trajs o <> [] ->
  SI (recompute_final o) /\ same_ens o (recompute_final o) /\
  (forall s, o_rel (recompute_final o) = Some s -> ss_final s <> None) /\
  (forall s, o_det (recompute_final o) = Some s -> ss_final s <> None).
Proof.
  intros HI E Hne. destruct (trajs_keep o HI Hne) as [K T].
  destruct (flags_keep o HI K) as [P1 P2].
  assert (E' : ss || sf = true) by (destruct ss, sf; simpl in *; congruence).
  unfold recompute_final. destruct (o_trajs o) as [|ex tl] eqn:Et; [congruence|].
  assert (Hex : wf ex).
  { pose proof (si_wfr o HI) as W. rewrite <- T in W. inversion W; assumption. }
  destruct (wf_final ex Hex E') as (vx & Hvx & Lx & _).
  assert (Z : zero_final ex = Some (vzeros_like vx)) by (unfold zero_final; rewrite Hvx; reflexivity).
  assert (Lr : length (o_wrel o) = length (ex :: tl)).
  { rewrite T, (si_lr o HI), (si_lg o HI). reflexivity. }
  assert (Wr : Forall wf (ex :: tl)) by (rewrite T; apply HI).
  assert (Ld : length (o_wdet o) = length (o_dtrajs o)) by (rewrite (si_dtrajs o HI); apply HI).
  assert (Wd : Forall wf (o_dtrajs o)) by (rewrite (si_dtrajs o HI); apply HI).
  assert (R : forall (x : option ssum) ws ts, length ws = length ts -> Forall wf ts -> sum_inv o x ws ts ->
            sum_inv o (option_map (fun s => refold reduce_final
                        {| ss_states := ss_states s; ss_final := zero_final ex |} ts ws) x) ws ts /\
            forall s', option_map (fun s => refold reduce_final
                        {| ss_states := ss_states s; ss_final := zero_final ex |} ts ws) x = Some s' ->
                       ss_final s' <> None).
  { intros x ws ts Hl Hw [Hn Hs]. destruct x as [sx|]; simpl.
    - destruct (Hs sx eq_refl) as [F _]. rewrite Z.
      destruct (refold_final_spec ts ws (vzeros_like vx) [] [] (ss_states sx) Hw E' Hl eq_refl
                  (slot_ok_zero d fat vx [] Lx)) as (A & v & B & C).
      simpl in C. split.
      + split; [rewrite <- Hn; split; discriminate|].
        intros s' Es. injection Es as <-. rewrite A, B, P2. split; [exact F|].
        split; [exact C|split; [discriminate|split; [intros _ K'; congruence|intros E0; congruence]]].
      + intros s' Es. injection Es as <-. rewrite B. discriminate.
    - split; [split; [exact Hn|discriminate]|discriminate]. }
  destruct (R (o_rel o) (o_wrel o) (ex :: tl) Lr Wr) as [R1 R2]; [rewrite T; apply HI|].
  destruct (R (o_det o) (o_wdet o) (o_dtrajs o) Ld Wd) as [D1 D2];
    [rewrite (si_dtrajs o HI); apply HI|].
  split; [|split; [repeat split; simpl; auto|split; assumption]].
  apply SI_with_sums; [assumption| |].
  - rewrite <- T. exact R1.
  - rewrite <- (si_dtrajs o HI). exact D1.
Qed.

Lemma ready_final o : SI o ->
  (forall s, o_rel o = Some s -> ss_final s <> None) ->
  (forall s, o_det o = Some s -> ss_final s <> None) ->
  (o_grel o <> [] \/ o_gdet o <> [] -> exists v, combine_sums ss_final o = SVal v) /\
  (forall v, combine_sums ss_final o = SVal v -> length v = d /\ forall k, nth k v 0 = meanS (fat k) o).
Proof.
  intros HI Nr Nd. apply combine_spec.
  - rewrite (si_lr o HI), (si_lg o HI). reflexivity.
  - apply (si_rel o HI).
  - apply (si_det o HI).
  - intros s Es. destruct (proj2 (si_rel o HI) s Es) as [_ (A & _)].
    destruct (ss_final s) as [v|] eqn:Ev; [eauto|exfalso; apply (Nr s Es); assumption].
  - intros s Es. destruct (proj2 (si_det o HI) s Es) as [_ (A & _)].
    destruct (ss_final s) as [v|] eqn:Ev; [eauto|exfalso; apply (Nd s Es); assumption].
Qed.

(* a value of average_states exists only when states are stored *)
Lemma sval_ss o v : SI o -> combine_sums ss_states o = SVal v -> ss = true.
Proof.
  intros HI H. destruct (Bool.bool_dec ss true) as [|Hss]; [assumption|exfalso].
  apply not_true_is_false in Hss. unfold combine_sums in H.
  destruct (o_det o) as [dt|] eqn:Ed, (o_rel o) as [r|] eqn:Er; try discriminate.
  - destruct (proj2 (si_det o HI) dt Ed) as [(_ & _ & _ & A) _]. rewrite (A Hss) in H. discriminate.
  - destruct (proj2 (si_det o HI) dt Ed) as [(_ & _ & _ & A) _]. rewrite (A Hss) in H. discriminate.
  - destruct (proj2 (si_rel o HI) r Er) as [(_ & _ & _ & A) _]. rewrite (A Hss) in H. discriminate.
Qed.

Lemma fat_sat t k : wf t -> ss = true -> fat k t = sat (ns - d + k) t.
Proof.
  intros Ht E. destruct (wf_states t Ht E) as (v & Hv & L & _).
  destruct Ht as (_ & _ & C). unfold fat, sat. rewrite (C v Hv), Hv. unfold lastblock.
  rewrite nth_skipn, L. reflexivity.
Qed.

Lemma mean_fat_sat o k : SI o -> ss = true -> meanS (fat k) o = meanS (sat (ns - d + k)) o.
Proof.
  intros HI E. unfold meanS. f_equal; [|f_equal]; apply wsumS_ext.
  - eapply Forall_impl; [|apply (si_wfd o HI)]. intros t Ht. apply fat_sat; assumption.
  - eapply Forall_impl; [|apply (si_wfr o HI)]. intros t Ht. apply fat_sat; assumption.
Qed.

Lemma lastblock_length (v : vec) : length v = ns -> ss = true -> length (lastblock d v) = d.
Proof. intros L E. unfold lastblock. rewrite skipn_length, L. pose proof (Hdns E). lia. Qed.

Lemma final_from o o2 : SI o2 -> same_ens o o2 ->
  (forall s, o_rel o2 = Some s -> ss_final s <> None) ->
  (forall s, o_det o2 = Some s -> ss_final s <> None) ->
  SI o2 /\ same_ens o o2 /\
  (forall v, combine_sums ss_final o2 = SVal v -> length v = d /\ forall k, nth k v 0 = meanS (fat k) o) /\
  (combine_sums ss_final o2 = SErr -> o_grel o = [] /\ o_gdet o = []).
Proof.
  intros I2 S12 R1 R2. destruct (ready_final o2 I2 R1 R2) as [Ex Sp].
  split; [assumption|split; [assumption|split]].
  - intros v Ev. destruct (Sp v Ev) as [L N]. split; [assumption|].
    intros k. rewrite N. apply same_ens_mean. assumption.
  - intros Ee. destruct S12 as (_ & _ & G3 & G4 & _).
    destruct (o_grel o) eqn:Eg, (o_gdet o) eqn:Ed; auto; exfalso;
      (destruct Ex as [v Ev]; [rewrite G3, G4; auto; try (left; discriminate); right; discriminate|congruence]).
Qed.

Lemma avg_final_spec o : SI o ->
  SI (fst (average_final d o)) /\ same_ens o (fst (average_final d o)) /\
  (forall v, snd (average_final d o) = SVal v ->
     length v = d /\ forall k, nth k v 0 = meanS (fat k) o) /\
  (snd (average_final d o) = SErr -> o_grel o = [] /\ o_gdet o = []).
Proof.
  intros HI. unfold average_final.
  destruct (avg_states_spec o HI) as (I1 & S1 & V1 & E1 & C1).
  destruct (average_states o) as [o1 st]. simpl in I1, S1, V1, E1, C1.
  set (avail := match o_trajs o with t :: _ => is_some (s_final t) | [] => false end).
  destruct st as [|v|].
  - (* no averaged states *)
    rewrite orb_false_r.
    destruct (lacks ss_final (o_det o1) && negb avail) eqn:T1.
    { simpl. split; [assumption|split; [assumption|split; discriminate]]. }
    destruct (lacks ss_final (o_rel o1) && negb avail) eqn:T2.
    { simpl. split; [assumption|split; [assumption|split; discriminate]]. }
    destruct (lacks ss_final (o_det o1) || lacks ss_final (o_rel o1)) eqn:N.
    + assert (Av : avail = true).
      { destruct avail; [reflexivity|]. simpl in T1, T2. rewrite andb_true_r in T1, T2.
        rewrite T1, T2 in N. discriminate. }
      assert (T0 : o_trajs o1 = o_trajs o) by apply S1.
      assert (Hne : o_trajs o1 <> []).
      { rewrite T0. unfold avail in Av. destruct (o_trajs o); discriminate. }
      assert (E0 : ss || sf = true).
      { destruct (Bool.bool_dec (ss || sf) true) as [|Hss]; [assumption|exfalso].
        apply not_true_is_false in Hss.
        destruct (trajs_keep o1 I1 Hne) as [_ T]. unfold avail in Av. rewrite <- T0 in Av.
        destruct (o_trajs o1) as [|t tl]; [discriminate|].
        pose proof (si_wfr o1 I1) as W. rewrite <- T in W. inversion W as [|? ? Ht _]; subst.
        destruct Ht as (_ & A & _). rewrite Hss in A. rewrite A in Av. discriminate. }
      assert (E : sf && negb ss = true).
      { destruct (Bool.bool_dec ss true) as [Hs|Hs].
        - exfalso. rewrite <- T0 in C1. destruct (C1 Hs) as [v Ev]; [rewrite T0; rewrite <- T0; assumption|discriminate].
        - apply not_true_is_false in Hs. rewrite Hs in *. simpl in E0. rewrite E0. reflexivity. }
      destruct (recompute_final_spec o1 I1 E Hne) as (A & B & C & D).
      simpl. apply final_from; auto. eapply same_ens_trans; eauto.
    + apply orb_false_iff in N. destruct N as [N1 N2].
      simpl. apply final_from; auto; [apply (lacks_false _ _ N2)|apply (lacks_false _ _ N1)].
  - (* averaged states available *)
    destruct (V1 v eq_refl) as ([R1 R2] & Lv & Nv).
    rewrite orb_true_r. simpl negb. rewrite !andb_false_r.
    destruct (lacks ss_final (o_det o1) || lacks ss_final (o_rel o1)) eqn:N.
    + (* states[-1] *)
      simpl.
      assert (E : ss = true).
      { destruct (Bool.bool_dec ss true) as [|Hss]; [assumption|exfalso].
        apply not_true_is_false in Hss.
        apply orb_true_iff in N.
        destruct N as [N|N]; unfold lacks in N.
        - destruct (o_det o1) as [dt|] eqn:Ed; [|discriminate].
          destruct (proj2 (si_det o1 I1) dt Ed) as [(_ & _ & _ & A) _].
          apply (R2 dt eq_refl). apply A; assumption.
        - destruct (o_rel o1) as [r|] eqn:Er; [|discriminate].
          destruct (proj2 (si_rel o1 I1) r Er) as [(_ & _ & _ & A) _].
          apply (R1 r eq_refl). apply A; assumption. }
      split; [assumption|split; [assumption|split; [|discriminate]]].
      intros v' Ev. injection Ev as <-. split; [apply lastblock_length; assumption|].
      intros k. unfold lastblock. rewrite nth_skipn, Lv, Nv. symmetry. apply mean_fat_sat; assumption.
    + apply orb_false_iff in N. destruct N as [N1 N2].
      simpl. apply final_from; auto; [apply (lacks_false _ _ N2)|apply (lacks_false _ _ N1)].
  - simpl. split; [assumption|split; [assumption|split; [discriminate|]]]. intros _. apply E1. reflexivity.
Qed.

(* ---- merge (all results of the history share the options ss, sf, kk) *)
Lemma slot_inv_mix n f en proc keep sa wa ta sb wb tb c1 c2 :
  length wa = length ta ->
  slot_inv n f en proc keep sa wa ta -> slot_inv n f en proc keep sb wb tb ->
  slot_inv n f en proc keep (slot_mix c1 sa c2 sb)
           (map (fun w => w * c1) wa ++ map (fun w => w * c2) wb) (ta ++ tb).
Proof.
  intros Hl (A1 & A2 & A3 & A4) (B1 & B2 & B3 & B4).
  assert (Hl' : length (map (fun w => w * c1) wa) = length ta) by (rewrite map_length; assumption).
  split; [|split; [|split]].
  - destruct sa as [a|], sb as [b|]; simpl; try exact I.
    destruct A1 as [La Na]. destruct B1 as [Lb Nb].
    split; [rewrite vadd_length; rewrite !vscale_length; lia|].
    intros k. rewrite vadd_nth by (rewrite !vscale_length; lia).
    rewrite !vscale_nth, wsumS_app, !wsumS_scale, Na, Nb by assumption. reflexivity.
  - intros P. destruct sa as [a|]; [|exfalso; apply (A2 P); reflexivity].
    destruct sb as [b|]; [|exfalso; apply (B2 P); reflexivity]. discriminate.
  - intros P K. rewrite (A3 P K). reflexivity.
  - intros E. rewrite (A4 E). reflexivity.
Qed.

Lemma slot_inv_scale n f en proc keep sa wa ta c :
  slot_inv n f en proc keep sa wa ta ->
  slot_inv n f en proc keep (slot_scale c sa) (map (fun w => w * c) wa) ta.
Proof.
  intros (A1 & A2 & A3 & A4). split; [|split; [|split]].
  - destruct sa as [a|]; simpl; [|exact I]. destruct A1 as [La Na].
    split; [rewrite vscale_length; assumption|]. intros k. rewrite vscale_nth, wsumS_scale, Na. reflexivity.
  - intros P. destruct sa; [discriminate|exfalso; apply (A2 P); reflexivity].
  - intros P K. rewrite (A3 P K). reflexivity.
  - intros E. rewrite (A4 E). reflexivity.
Qed.

Lemma flags_eq a b : SI a -> SI b ->
  o_pstates b = o_pstates a /\ o_pfinal b = o_pfinal a /\ o_keep b = o_keep a.
Proof.
  intros Ia Ib. rewrite (si_pstates a Ia), (si_pstates b Ib), (si_pfinal a Ia), (si_pfinal b Ib),
    (si_keep a Ia), (si_keep b Ib). auto.
Qed.

Lemma sum_inv_merge a b xa wa ta xb wb tb c1 c2 : SI a -> SI b ->
  length wa = length ta -> length wb = length tb ->
  sum_inv a xa wa ta -> sum_inv b xb wb tb ->
  sum_inv a (ssum_merge xa c1 xb c2) (map (fun w => w * c1) wa ++ map (fun w => w * c2) wb) (ta ++ tb).
Proof.
  intros Ia Ib La Lb [Na Sa] [Nb Sb].
  destruct (flags_eq a b Ia Ib) as (F1 & F2 & F3).
  destruct xa as [sa|], xb as [sb|]; simpl.
  - destruct (Sa sa eq_refl) as [A1 A2]. destruct (Sb sb eq_refl) as [B1 B2].
    rewrite F1, F2, F3 in *.
    split; [split; [discriminate|intros E; apply app_eq_nil in E; destruct E as [E _];
                                  apply Na in E; discriminate]|].
    intros s E. injection E as <-. simpl. split; apply slot_inv_mix; assumption.
  - destruct (Sa sa eq_refl) as [A1 A2].
    assert (tb = []) by (apply Nb; reflexivity). subst tb. destruct wb; [|discriminate].
    simpl. rewrite !app_nil_r.
    split; [split; [discriminate|intros E; apply Na in E; discriminate]|].
    intros s E. injection E as <-. simpl. split; apply slot_inv_scale; assumption.
  - destruct (Sb sb eq_refl) as [B1 B2]. rewrite F1, F2, F3 in *.
    assert (ta = []) by (apply Na; reflexivity). subst ta. destruct wa; [|discriminate].
    simpl.
    split; [split; [discriminate|intros E; apply Nb in E; discriminate]|].
    intros s E. injection E as <-. simpl. split; apply slot_inv_scale; assumption.
  - assert (ta = []) by (apply Na; reflexivity). assert (tb = []) by (apply Nb; reflexivity).
    subst. split; [tauto|discriminate].
Qed.

Lemma SI_merge a b p : SI a -> SI b -> (0 < o_num a)%nat -> (0 < o_num b)%nat ->
  SI (smerge_obj a b p).
Proof.
  intros Ia Ib Ha Hb.
  assert (Both : negb (is_nil (o_trajs a)) && negb (is_nil (o_trajs b)) = kk).
  { rewrite (si_trajs a Ia), (si_trajs b Ib), (si_keep a Ia), (si_keep b Ib).
    destruct kk; [|reflexivity].
    pose proof (si_lg a Ia). pose proof (si_lg b Ib).
    destruct (o_grel a); [simpl in *; lia|]. destruct (o_grel b); [simpl in *; lia|]. reflexivity. }
  assert (Km : (if negb (is_nil (o_trajs a)) && negb (is_nil (o_trajs b)) then o_keep a else false) = kk).
  { rewrite Both, (si_keep a Ia). destruct kk; reflexivity. }
  assert (Ess : o_ss a && o_ss b = ss) by (rewrite (si_ss a Ia), (si_ss b Ib); destruct ss; reflexivity).
  assert (Esf : (o_sf a || o_ss a) && (o_sf b || o_ss b) = sf || ss).
  { rewrite (si_ss a Ia), (si_ss b Ib).
    destruct (si_sf a Ia) as [-> | ->], (si_sf b Ib) as [-> | ->]; destruct sf, ss; reflexivity. }
  assert (Ep : o_pstates (smerge_obj a b p) = store_avg ss kk) by (simpl; rewrite Km, Ess; reflexivity).
  assert (Ef : o_pfinal (smerge_obj a b p) = sf && negb ss && negb kk)
    by (simpl; rewrite Km, Ess, Esf; apply store_fin_any; auto).
  assert (Ek : o_keep (smerge_obj a b p) = kk) by (simpl; exact Km).
  constructor; simpl; rewrite ?Km, ?Ess, ?Esf; auto.
  - apply store_fin_any. auto.
  - rewrite app_length, !map_length, (si_lr a Ia), (si_lr b Ib). reflexivity.
  - rewrite app_length, (si_lg a Ia), (si_lg b Ib). reflexivity.
  - rewrite !app_length, !map_length, (si_ld a Ia), (si_ld b Ib). reflexivity.
  - rewrite Both, (si_trajs a Ia), (si_trajs b Ib), (si_keep a Ia), (si_keep b Ib).
    destruct kk; reflexivity.
  - rewrite (si_dtrajs a Ia), (si_dtrajs b Ib). reflexivity.
  - apply Forall_app; split; [apply Ia|apply Ib].
  - apply Forall_app; split; [apply Ia|apply Ib].
  - rewrite !map_scale_ext.
    assert (G : sum_inv a (ssum_merge (o_rel a) (p_usedS a b p / (QcN (o_num a) / QcN (o_num a + o_num b))) (o_rel b)
                  ((1 - p_usedS a b p) / (1 - QcN (o_num a) / QcN (o_num a + o_num b))))
                  (map (fun w => w * (p_usedS a b p / (QcN (o_num a) / QcN (o_num a + o_num b)))) (o_wrel a) ++
                   map (fun w => w * ((1 - p_usedS a b p) / (1 - QcN (o_num a) / QcN (o_num a + o_num b)))) (o_wrel b))
                  (o_grel a ++ o_grel b)).
    { apply (sum_inv_merge a b); auto; try apply Ia; try apply Ib.
      - rewrite (si_lr a Ia), (si_lg a Ia). reflexivity.
      - rewrite (si_lr b Ib), (si_lg b Ib). reflexivity. }
    destruct G as [G1 G2]. split; [exact G1|].
    intros s Es. destruct (G2 s Es) as [X Y].
    rewrite (si_pstates a Ia), (si_keep a Ia) in X. rewrite (si_pfinal a Ia), (si_keep a Ia) in Y.
    rewrite Ep, Ef, Ek. split; [exact X|exact Y].
  - assert (G : sum_inv a (ssum_merge (o_det a) (p_usedS a b p) (o_det b) (1 - p_usedS a b p))
                  (map (fun w => w * p_usedS a b p) (o_wdet a) ++
                   map (fun w => w * (1 - p_usedS a b p)) (o_wdet b))
                  (o_gdet a ++ o_gdet b)).
    { apply (sum_inv_merge a b); auto; try apply Ia; try apply Ib. }
    destruct G as [G1 G2]. split; [exact G1|].
    intros s Es. destruct (G2 s Es) as [X Y].
    rewrite (si_pstates a Ia), (si_keep a Ia) in X. rewrite (si_pfinal a Ia), (si_keep a Ia) in Y.
    rewrite Ep, Ef, Ek. split; [exact X|exact Y].
Qed.

(* ---- histories *)
Definition sop_ok (op : sop) : Prop :=
  match op with
  | SNew a b c => a = ss /\ b = sf /\ c = kk
  | SAdd _ t _ => wf t
  | SAddDet _ t _ => wf t
  | _ => True
  end.

Lemma SI_ensure o : SI o -> SI (ensure_reduced d o) /\ same_ens o (ensure_reduced d o).
Proof.
  intros HI. unfold ensure_reduced.
  destruct (avg_states_spec o HI) as (I1 & S1 & _).
  destruct (avg_final_spec _ I1) as (I2 & S2 & _).
  split; [assumption|eapply same_ens_trans; eauto].
Qed.

Lemma sstep_SI W op : Forall SI W -> sop_ok op -> Forall SI (fst (sstep d W op)).
Proof.
  intros HW Hop. destruct op as [a b c|i t w|i t w|i j p|i|i]; simpl in *.
  - destruct Hop as (-> & -> & ->). apply Forall_app. split; [assumption|].
    constructor; [apply SI_new|constructor].
  - destruct (nth_error W i) as [x|] eqn:E; simpl; [|assumption].
    apply Forall_set_nth; [assumption|]. apply SI_add; [|assumption]. eapply Forall_nth_error; eauto.
  - destruct (nth_error W i) as [x|] eqn:E; simpl; [|assumption].
    apply Forall_set_nth; [assumption|]. apply SI_add_det; [|assumption]. eapply Forall_nth_error; eauto.
  - destruct (nth_error W i) as [a|] eqn:Ea; simpl; [|assumption].
    destruct (nth_error W j) as [b|] eqn:Eb; simpl; [|assumption].
    destruct (negb (Bool.eqb (o_hast a) (o_hast b))); simpl; [assumption|].
    assert (Ia : SI a) by (eapply Forall_nth_error; eauto).
    assert (Ib : SI b) by (eapply Forall_nth_error; eauto).
    set (a1 := if negb (Bool.eqb (is_nil (o_trajs a)) (is_nil (o_trajs b))) && negb (is_nil (o_trajs a))
               then ensure_reduced d a else a).
    set (b1 := if negb (Bool.eqb (is_nil (o_trajs a)) (is_nil (o_trajs b))) && negb (is_nil (o_trajs b))
               then ensure_reduced d b else b).
    assert (A1 : SI a1 /\ o_num a1 = o_num a).
    { unfold a1. destruct (negb (Bool.eqb (is_nil (o_trajs a)) (is_nil (o_trajs b))) && negb (is_nil (o_trajs a))).
      - destruct (SI_ensure a Ia) as [X Y]. split; [assumption|apply Y].
      - auto. }
    assert (B1 : SI b1 /\ o_num b1 = o_num b).
    { unfold b1. destruct (negb (Bool.eqb (is_nil (o_trajs a)) (is_nil (o_trajs b))) && negb (is_nil (o_trajs b))).
      - destruct (SI_ensure b Ib) as [X Y]. split; [assumption|apply Y].
      - auto. }
    destruct A1 as [A1 A2]. destruct B1 as [B1 B2].
    assert (HW1 : Forall SI (set_nth (set_nth W i a1) j b1)).
    { apply Forall_set_nth; [apply Forall_set_nth|]; assumption. }
    destruct ((o_num a =? 0)%nat || (o_num b =? 0)%nat) eqn:Z; simpl; [assumption|].
    apply orb_false_iff in Z. destruct Z as [Za Zb].
    apply Nat.eqb_neq in Za. apply Nat.eqb_neq in Zb.
    apply Forall_app. split; [assumption|]. constructor; [|constructor].
    apply SI_merge; auto; lia.
  - destruct (nth_error W i) as [x|] eqn:E; simpl; [|assumption].
    assert (Ix : SI x) by (eapply Forall_nth_error; eauto).
    destruct (avg_states_spec x Ix) as (I1 & _).
    destruct (average_states x) as [x' r]. simpl in I1.
    destruct r; simpl; try assumption; apply Forall_set_nth; assumption.
  - destruct (nth_error W i) as [x|] eqn:E; simpl; [|assumption].
    assert (Ix : SI x) by (eapply Forall_nth_error; eauto).
    destruct (avg_final_spec x Ix) as (I1 & _).
    destruct (average_final d x) as [x' r]. simpl in I1.
    destruct r; simpl; try assumption; apply Forall_set_nth; assumption.
Qed.

Lemma srun_SI ops : forall W, Forall SI W -> Forall sop_ok ops -> Forall SI (srun d W ops).
Proof.
  induction ops as [|op ops IH]; intros W HW Hops; simpl; [assumption|].
  inversion Hops; subst. apply IH; [apply sstep_SI|]; assumption.
Qed.

(* the two reads, on any object reached *)
Lemma reached_states ops i x :
  Forall sop_ok ops -> nth_error (srun d [] ops) i = Some x ->
  (forall v, snd (average_states x) = SVal v ->
     length v = ns /\ forall k, nth k v 0 = meanS (sat k) x) /\
  (snd (average_states x) = SErr -> o_grel x = [] /\ o_gdet x = []) /\
  (ss = true -> o_trajs x <> [] -> exists v, snd (average_states x) = SVal v) /\
  same_ens x (fst (average_states x)).
Proof.
  intros Hops E.
  assert (Ix : SI x) by (eapply Forall_nth_error; [apply srun_SI; [constructor|eassumption]|exact E]).
  destruct (avg_states_spec x Ix) as (_ & S & V & Er & C).
  split; [|split; [assumption|split; assumption]].
  intros v Ev. destruct (V v Ev) as (_ & L & N). auto.
Qed.

Lemma reached_final ops i x :
  Forall sop_ok ops -> nth_error (srun d [] ops) i = Some x ->
  (forall v, snd (average_final d x) = SVal v ->
     length v = d /\ forall k, nth k v 0 = meanS (fat k) x) /\
  (snd (average_final d x) = SErr -> o_grel x = [] /\ o_gdet x = []) /\
  same_ens x (fst (average_final d x)).
Proof.
  intros Hops E.
  assert (Ix : SI x) by (eapply Forall_nth_error; [apply srun_SI; [constructor|eassumption]|exact E]).
  destruct (avg_final_spec x Ix) as (_ & S & V & Er). auto.
Qed.

(* bookkeeping of any object reached *)
Lemma reached_SI ops i x :
  Forall sop_ok ops -> nth_error (srun d [] ops) i = Some x -> SI x.
Proof.
  intros Hops E. eapply Forall_nth_error; [apply srun_SI; [constructor|eassumption]|exact E].
Qed.

(* consequence: the averaged final state is the last block of the averaged states *)
Lemma reached_final_is_last_block ops i x vs vf :
  Forall sop_ok ops -> nth_error (srun d [] ops) i = Some x -> ss = true ->
  snd (average_states x) = SVal vs -> snd (average_final d x) = SVal vf ->
  vf = lastblock d vs.
Proof.
  intros Hops E Ess Hs Hf.
  pose proof (reached_SI ops i x Hops E) as Ix.
  destruct (reached_states ops i x Hops E) as (Vs & _).
  destruct (reached_final ops i x Hops E) as (Vf & _).
  destruct (Vs vs Hs) as [Ls Ns]. destruct (Vf vf Hf) as [Lf Nf].
  apply vec_ext.
  - rewrite Lf. symmetry. apply lastblock_length; assumption.
  - intros k. rewrite Nf. unfold lastblock. rewrite nth_skipn, Ls, Ns. apply mean_fat_sat; assumption.
Qed.

End Uniform.
