(* C01 - matmul_csr and matmul_csr_dense_dense compute the matrix product of
   the denotations. *)
From Coq Require Import List ZArith Bool Arith Lia ZifyBool.
Import ListNotations.
From QV Require Import Model.C01 Proofs.C01 Proofs.C01_pred Proofs.C01_add Proofs.C01_dia.

Section Matmul.
Variable C : Type.
Variables (c0 : C) (cadd cmul : C -> C -> C).
Variable is0 : C -> bool.
Variable tidy : C -> C.
Hypothesis Hadd0r : forall x, cadd x c0 = x.
Hypothesis Hadd0l : forall x, cadd c0 x = x.
Hypothesis Haddc : forall x y, cadd x y = cadd y x.
Hypothesis Hadda : forall x y z, cadd x (cadd y z) = cadd (cadd x y) z.
Hypothesis Hmul0r : forall x, cmul x c0 = c0.
Hypothesis Hmul0l : forall x, cmul c0 x = c0.
Hypothesis His0 : forall x, is0 x = true <-> x = c0.
Hypothesis Htidy0 : tidy c0 = c0.

Notation row_get := (row_get C c0).
Notation den_csr := (den_csr C c0).
Notation den_dense := (den_dense C c0).
Notation tot := (tot C c0 cadd).
Notation dsum := (diag_sum C c0 cadd).

(* sum over the stored entries of a row *)
Fixpoint rowsum (ra : crow C) (g : nat -> C) : C :=
  match ra with
  | [] => c0
  | p :: t => cadd (cmul (snd p) (g (fst p))) (rowsum t g)
  end.

Lemma tot_app : forall j (l1 l2 : crow C), tot j (l1 ++ l2) = cadd (tot j l1) (tot j l2).
Proof.
  intros j. induction l1 as [|p t IH]; intros l2; simpl; [symmetry; apply Hadd0l|].
  destruct (fst p =? j); [rewrite IH; apply Hadda|apply IH].
Qed.

Lemma row_get_scaled : forall a (rb : crow C) k,
  row_get k (map (fun pb : nat * C => (fst pb, cmul a (snd pb))) rb) = cmul a (row_get k rb).
Proof.
  intros a rb k. unfold C01.row_get. rewrite find_map_snd.
  destruct (find (fun p : nat * C => fst p =? k) rb); simpl; [reflexivity|symmetry; apply Hmul0r].
Qed.

Lemma tot_scaled_row : forall a (rb : crow C) k, NoDup (map fst rb) ->
  tot k (map (fun pb : nat * C => (fst pb, cmul a (snd pb))) rb) = cmul a (row_get k rb).
Proof.
  intros a rb k Hnd. rewrite (tot_nodup C c0 cadd Hadd0r).
  - apply row_get_scaled.
  - rewrite map_map. simpl. exact Hnd.
Qed.

Lemma nth_nodup : forall (rows : list (crow C)) j,
  (forall row, In row rows -> NoDup (map fst row)) -> NoDup (map fst (nth j rows [])).
Proof.
  intros rows j H. destruct (nth_in_or_default j rows []) as [Hin|E].
  - apply H. exact Hin.
  - rewrite E. constructor.
Qed.

Lemma mm_tot : forall (rows_r : list (crow C)) (ra : crow C) k,
  (forall row, In row rows_r -> NoDup (map fst row)) ->
  tot k (mm_terms C cmul rows_r ra) = rowsum ra (fun j => row_get k (nth j rows_r [])).
Proof.
  intros rows_r ra k H. unfold mm_terms. induction ra as [|pa t IH]; simpl; [reflexivity|].
  rewrite tot_app. rewrite IH. f_equal. apply tot_scaled_row. apply nth_nodup. exact H.
Qed.

Lemma dsum_zero : forall (f : nat -> C) n a, (forall j, f j = c0) -> dsum f a n = c0.
Proof.
  intros f. induction n as [|n IH]; intros a H; simpl; [reflexivity|].
  rewrite H, IH by exact H. apply Hadd0l.
Qed.

Lemma dsum_replace : forall (f : nat -> C) x c n a,
  a <= c < a + n -> f c = c0 ->
  dsum (fun j => if j =? c then x else f j) a n = cadd x (dsum f a n).
Proof.
  intros f x c. induction n as [|n IH]; intros a Hc Hf; [lia|]. simpl.
  destruct (Nat.eq_dec a c) as [->|Hne].
  - rewrite Nat.eqb_refl. rewrite Hf, Hadd0l. f_equal.
    apply (diag_sum_ext C c0 cadd). intros k Hk.
    assert (E : (k =? c) = false) by lia. rewrite E. reflexivity.
  - assert (E : (a =? c) = false) by lia. rewrite E.
    rewrite IH by (try lia; exact Hf).
    rewrite Hadda. rewrite (Haddc (f a) x). rewrite <- Hadda. reflexivity.
Qed.

Lemma rowsum_dsum : forall (ra : crow C) (g : nat -> C) n,
  NoDup (map fst ra) -> (forall p, In p ra -> fst p < n) ->
  rowsum ra g = dsum (fun j => cmul (row_get j ra) (g j)) 0 n.
Proof.
  induction ra as [|p t IH]; intros g n Hnd Hb; simpl.
  - symmetry. apply dsum_zero. intros j. unfold C01.row_get. simpl. apply Hmul0l.
  - inversion Hnd as [|x l Hnotin Hnd' Heq]; subst.
    rewrite (IH g n Hnd') by (intros q Hq; apply Hb; right; exact Hq).
    assert (Hc : fst p < n) by (apply Hb; left; reflexivity).
    rewrite <- (dsum_replace (fun j => cmul (row_get j t) (g j)) (cmul (snd p) (g (fst p)))
                             (fst p) n 0).
    + apply (diag_sum_ext C c0 cadd). intros j _. unfold C01.row_get. simpl.
      destruct (Nat.eqb_spec (fst p) j) as [->|Hne].
      * rewrite Nat.eqb_refl. reflexivity.
      * assert (E : (j =? fst p) = false) by lia. rewrite E. reflexivity.
    + lia.
    + unfold C01.row_get. rewrite (find_none_notin C t (fst p) Hnotin). apply Hmul0l.
Qed.

(* emission of one output row *)
Section Emit.
Variable scale : C.
Let E := fun p : nat * C =>
  let v := tidy (snd p) in if is0 v then [] else [(fst p, cmul scale v)] : crow C.

Lemma emit_none : forall (M : crow C) k, ~ In k (map fst M) ->
  find (fun p : nat * C => fst p =? k) (flat_map E M) = None.
Proof.
  induction M as [|p t IH]; intros k Hn; simpl; [reflexivity|].
  rewrite find_app.
  assert (E1 : find (fun q : nat * C => fst q =? k) (E p) = None).
  { unfold E. simpl. destruct (is0 (tidy (snd p))); simpl; [reflexivity|].
    destruct (fst p =? k) eqn:F; [|reflexivity].
    apply Nat.eqb_eq in F. exfalso. apply Hn. simpl. left. exact F. }
  rewrite E1. apply IH. intro H. apply Hn. simpl. right. exact H.
Qed.

Lemma emit_get : forall (M : crow C) k, NoDup (map fst M) ->
  row_get k (flat_map E M) = cmul scale (tidy (row_get k M)).
Proof.
  unfold C01.row_get. induction M as [|p t IH]; intros k Hnd; simpl.
  - rewrite Htidy0. symmetry. apply Hmul0r.
  - inversion Hnd as [|x l Hnotin Hnd' Heq]; subst.
    rewrite find_app. destruct (fst p =? k) eqn:F.
    + apply Nat.eqb_eq in F. subst k. unfold E at 1. simpl.
      destruct (is0 (tidy (snd p))) eqn:Z; simpl.
      * rewrite (emit_none t (fst p) Hnotin). apply His0 in Z. rewrite Z. symmetry. apply Hmul0r.
      * rewrite Nat.eqb_refl. reflexivity.
    + assert (E1 : find (fun q : nat * C => fst q =? k) (E p) = None).
      { unfold E. simpl. destruct (is0 (tidy (snd p))); simpl; [reflexivity|]. rewrite F. reflexivity. }
      rewrite E1. apply IH. exact Hnd'.
Qed.
End Emit.

Lemma mm_emit_get : forall scale (L : crow C) k, NoDup (map fst L) ->
  row_get k (mm_emit C cmul is0 tidy scale L) = cmul scale (tidy (row_get k L)).
Proof.
  intros scale L k Hnd. unfold mm_emit.
  rewrite emit_get by (rewrite map_rev; apply NoDup_rev; exact Hnd).
  rewrite (row_get_rev C c0) by exact Hnd. reflexivity.
Qed.

Lemma nth_map_rows_gen : forall (F : crow C -> crow C) (rows : list (crow C)) i,
  i < length rows -> nth i (map F rows) [] = F (nth i rows []).
Proof.
  intros F rows. induction rows as [|r t IH]; intros i Hi; simpl in Hi; [lia|].
  destruct i as [|i]; simpl; [reflexivity|apply IH; lia].
Qed.

Theorem matmul_csr_den : forall (l r out : csr C) scale i k,
  wf_csr C l -> wf_csr C r ->
  matmul_csr C cadd cmul is0 tidy l r scale = Some out ->
  i < s_nr C l -> k < s_nc C r ->
  den_csr out i k =
  cmul scale (tidy (dsum (fun j => cmul (den_csr l i j) (den_csr r j k)) 0 (s_nc C l))).
Proof.
  intros l r out scale i k [Ll Wl] [Lr Wr] H Hi Hk. unfold matmul_csr in H.
  destruct (negb (s_nc C l =? s_nr C r)) eqn:G; [discriminate|].
  assert (Eg : s_nc C l = s_nr C r) by lia.
  injection H as H. subst out. unfold C01.den_csr at 1. simpl.
  assert (E1 : (i <? s_nr C l) && (k <? s_nc C r) = true) by lia. rewrite E1.
  rewrite nth_map_rows_gen by lia.
  assert (Ia : In (nth i (s_rows C l) []) (s_rows C l)) by (apply nth_In; lia).
  destruct (Wl _ Ia) as [Na Ba].
  assert (Nr : forall row, In row (s_rows C r) -> NoDup (map fst row)).
  { intros row Hr. destruct (Wr row Hr) as [Hn _]. exact Hn. }
  rewrite mm_emit_get by (unfold scatter_all; apply scatter_fold_nodup; constructor).
  rewrite (scatter_all_get C c0 cadd Hadd0r Hadd0l Hadda).
  rewrite mm_tot by exact Nr.
  rewrite (rowsum_dsum _ _ (s_nc C l) Na Ba).
  f_equal. f_equal. apply (diag_sum_ext C c0 cadd). intros j Hj.
  unfold C01.den_csr.
  assert (E2 : (i <? s_nr C l) && (j <? s_nc C l) = true) by lia.
  assert (E3 : (j <? s_nr C r) && (k <? s_nc C r) = true) by lia.
  rewrite E2, E3. reflexivity.
Qed.

Theorem matmul_csr_guard : forall (l r : csr C) scale,
  s_nc C l <> s_nr C r -> matmul_csr C cadd cmul is0 tidy l r scale = None.
Proof.
  intros l r scale H. unfold matmul_csr.
  assert (E : negb (s_nc C l =? s_nr C r) = true) by lia. rewrite E. reflexivity.
Qed.

(* ------------------------------------------------ csr @ dense -> dense *)
Hypothesis Hdistr : forall x y z, cmul x (cadd y z) = cadd (cmul x y) (cmul x z).
Hypothesis Hmula : forall x y z, cmul x (cmul y z) = cmul (cmul x y) z.

Lemma fpath_fold : forall (ra : crow C) g acc,
  fold_left (fun dot p => cadd (cmul (snd p) (g (fst p))) dot) ra acc = cadd (rowsum ra g) acc.
Proof.
  induction ra as [|p t IH]; intros g acc; simpl; [symmetry; apply Hadd0l|].
  rewrite IH. rewrite Hadda. f_equal. apply Haddc.
Qed.

Lemma cpath_fold : forall scale (ra : crow C) g out0,
  fold_left (fun acc p => cadd acc (cmul (cmul scale (snd p)) (g (fst p)))) ra out0 =
  cadd out0 (cmul scale (rowsum ra g)).
Proof.
  intros scale. induction ra as [|p t IH]; intros g out0; simpl.
  - rewrite Hmul0r. symmetry. apply Hadd0r.
  - rewrite IH. rewrite Hdistr. rewrite Hmula. rewrite Hadda. reflexivity.
Qed.

Lemma mcd_entry_eq : forall fpath scale (ra : crow C) g out0,
  mcd_entry C c0 cadd cmul fpath scale ra g out0 = cadd out0 (cmul scale (rowsum ra g)).
Proof.
  intros fpath scale ra g out0. unfold mcd_entry. destruct fpath.
  - rewrite fpath_fold. rewrite Hadd0r. reflexivity.
  - apply cpath_fold.
Qed.

Theorem matmul_csr_dense_den : forall (l : csr C) (r : dense C) scale out res i k,
  wf_csr C l ->
  matmul_csr_dense C c0 cadd cmul l r scale out = Some res ->
  i < s_nr C l -> k < d_nc C r ->
  den_dense res i k =
  cadd (match out with Some o => den_dense o i k | None => c0 end)
       (cmul scale (dsum (fun j => cmul (den_csr l i j) (den_dense r j k)) 0 (s_nc C l))).
Proof.
  intros l r scale out res i k [Ll Wl] H Hi Hk. unfold matmul_csr_dense in H.
  destruct (negb (s_nc C l =? d_nr C r)) eqn:G; [discriminate|].
  destruct (match out with
            | Some o => negb ((d_nr C o =? s_nr C l) && (d_nc C o =? d_nc C r))
            | None => false end) eqn:G2; [discriminate|].
  injection H as H. subst res. rewrite den_tabulate.
  assert (E1 : (i <? s_nr C l) && (k <? d_nc C r) = true) by lia. rewrite E1.
  rewrite mcd_entry_eq. f_equal. f_equal.
  assert (Ia : In (nth i (s_rows C l) []) (s_rows C l)) by (apply nth_In; lia).
  destruct (Wl _ Ia) as [Na Ba].
  rewrite (rowsum_dsum _ _ (s_nc C l) Na Ba).
  apply (diag_sum_ext C c0 cadd). intros j Hj. unfold C01.den_csr.
  assert (E2 : (i <? s_nr C l) && (j <? s_nc C l) = true) by lia. rewrite E2. reflexivity.
Qed.

Theorem matmul_csr_dense_guard : forall (l : csr C) (r : dense C) scale out,
  s_nc C l <> d_nr C r -> matmul_csr_dense C c0 cadd cmul l r scale out = None.
Proof.
  intros l r scale out H. unfold matmul_csr_dense.
  assert (E : negb (s_nc C l =? d_nr C r) = true) by lia. rewrite E. reflexivity.
Qed.
End Matmul.
