(* C10 - computed facts about the Verner 9(8) tableau of
   qutip/solver/integrator/verner9efficient.py (exact dyadic arithmetic on
   the doubles read from the source).
   This file holds the expensive evaluation (all plane trees of order <= 9 on
   26 stages, about 6 minutes of vm_compute).  It depends only on the
   generated tableau and on Model/C10_trees.v, so that edits to the kernel
   model (Model/C10.v) or to proof files do not trigger it again. *)
From Coq Require Import List ZArith QArith Bool.
Import ListNotations.
From QV Require Import Gen.C10_tab_vern9 Model.C10_trees.

Definition v9_a := dmat vern9_a.   Definition v9_b := dvec vern9_b.
Definition v9_c := dvec vern9_c.   Definition v9_e := dvec vern9_e.
Definition v9_bi := dmat vern9_bi. Definition v9_bh := vsub v9_b v9_e.

Lemma vern9_dyadic :
  all_dyadic_m vern9_a && all_dyadic_v vern9_b && all_dyadic_v vern9_c &&
  all_dyadic_v vern9_e && all_dyadic_m vern9_bi = true.
Proof. vm_cast_no_check (eq_refl true). Qed.

Lemma vern9_struct :
  Nat.eqb vern9_order 9 && shapes_ok v9_a v9_b v9_c && strictly_lower v9_a &&
  rowsum_ok 44 v9_a v9_c && Nat.eqb (length v9_e) (length v9_b) &&
  Nat.eqb (length v9_bi) (length v9_c) &&
  forallb (fun r => Nat.eqb (length r) 9) v9_bi = true.
Proof. vm_cast_no_check (eq_refl true). Qed.

(* b: all trees up to order 9; b - e: up to order 8; dense output: up to
   order 8 (error ~ dt^9, as the docstring of _interpolate_step says) *)
Lemma vern9_full : full_check v9_a 40 30 v9_b v9_bh v9_bi 9 9 8 8 = true.
Proof. vm_cast_no_check (eq_refl true). Qed.

