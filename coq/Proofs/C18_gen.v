(* C18 - the bookkeeping terms regenerated from steadystate.py on every run
   (Gen/C18_bookkeeping.v) ARE the model the theorems are stated over. *)
From mathcomp Require Import all_ssreflect.
From QV Require Import Model.C18 Gen.C18_bookkeeping.

Set Implicit Arguments.
Unset Strict Implicit.
Unset Printing Implicit Defensive.

Section GenOK.
Variable T : Type.
Variables (zero one : T) (add mul : T -> T -> T) (cj : T -> T).

Lemma g_permute_wbm_ok m (L : fmx T) (b : fvec T) :
  g_permute_wbm m L b = permute_wbm m L b.
Proof. by []. Qed.

Lemma g_permute_rcm_ok r (L : fmx T) (b : fvec T) :
  g_permute_rcm r L b = permute_rcm r L b.
Proof. by []. Qed.

Lemma g_reverse_rcm_ok (x : fvec T) p : g_reverse_rcm x p = reverse_rcm x p.
Proof. by []. Qed.

Lemma g_assemble_ok n w (A : fmx T) :
  g_assemble zero one add mul n w A = (direct_L zero one add mul n w A, direct_b zero w).
Proof. by []. Qed.

Lemma g_direct_system_ok n w (A : fmx T) wbm rcm :
  g_direct_system zero one add mul n w A wbm rcm = direct_system zero one add mul n w A wbm rcm.
Proof. by case: wbm; case: rcm. Qed.

Lemma g_direct_post2_ok n (x : fvec T) perm :
  g_direct_post2 add cj n x perm = direct_post2 add cj n x perm.
Proof. by case: perm. Qed.

End GenOK.
