(* C10 - the Floquet route as matrix algebra: with W(t) the matrix whose
   columns are the Floquet states at time t (mode(t) times the quasi-energy
   phases; unitary - the FloquetBasis oracle), to_floquet_basis(psi, t) =
   W(t)^+ psi and from_floquet_basis(f, t) = W(t) f. *)
From mathcomp Require Import all_ssreflect all_algebra.
From QV Require Import Base.MxHerm.
From QV Require Model.C10_floquet Proofs.C10_floquet.
Set Implicit Arguments.
Unset Strict Implicit.
Unset Printing Implicit Defensive.
Import GRing.Theory.
Local Open Scope ring_scope.

Section FloquetAlgebra.
Variable R : fieldType.
Variable conj : {rmorphism R -> R}.
Hypothesis conjK : involutive conj.
Variable T : Type.                       (* times *)
Variable n : nat.
Variable W : T -> 'M[R]_n.
Hypothesis W_unitary : forall t, is_unitary conj (W t).
Local Notation dag := (dag conj).

Definition to_fb (psi : 'cV[R]_n) (t : T) : 'cV[R]_n := dag (W t) *m psi.
Definition from_fb (f : 'cV[R]_n) (t : T) : 'cV[R]_n := W t *m f.
(* the two-time propagator the Floquet route realises *)
Definition fprop (t t0 : T) : 'M[R]_n := W t *m dag (W t0).

Lemma fb_roundtrip psi t : from_fb (to_fb psi t) t = psi.
Proof. by rewrite /from_fb /to_fb mulmxA (W_unitary t) mul1mx. Qed.

Lemma fb_roundtrip' f t : to_fb (from_fb f t) t = f.
Proof. by rewrite /from_fb /to_fb mulmxA (unitaryC (W_unitary t)) mul1mx. Qed.

Lemma fprop_id t : fprop t t = 1%:M.
Proof. exact: W_unitary. Qed.

Lemma fprop_comp t2 t1 t0 : fprop t2 t1 *m fprop t1 t0 = fprop t2 t0.
Proof.
  rewrite /fprop mulmxA -(mulmxA (W t2)) (unitaryC (W_unitary t1)) mulmx1. by [].
Qed.

Lemma fprop_unitary t t0 : is_unitary conj (fprop t t0).
Proof.
  rewrite /is_unitary /fprop dag_mul (dagK conjK) mulmxA -(mulmxA (W t)).
  by rewrite (unitaryC (W_unitary t0)) mulmx1 (W_unitary t).
Qed.

(* fsesolve (model of the current code) returns the propagated initial state
   U(t, tlist[0]) psi0 at every time of the list *)
Lemma fsesolve_is_propagation psi0 t0 r :
  Model.C10_floquet.fsesolve 'cV[R]_n 'cV[R]_n T to_fb from_fb psi0 (t0 :: r)
  = Some (List.map (fun t => fprop t t0 *m psi0) (t0 :: r)).
Proof.
  rewrite /Model.C10_floquet.fsesolve. congr Some.
  elim: (t0 :: r) => [//|t l IH]. rewrite /= IH. congr cons.
  by rewrite /from_fb /to_fb /fprop mulmxA.
Qed.
End FloquetAlgebra.
