(* C08 - definition-level facts about the predicates and the plain-operator
   branch (MathComp, any commutative ring with involution, all sizes). *)
From mathcomp Require Import all_ssreflect all_algebra.
From QV Require Import Proofs.C08_alg.
Set Implicit Arguments.
Unset Strict Implicit.
Unset Printing Implicit Defensive.
Import GRing.Theory.
Local Open Scope ring_scope.

Section More.
Variable R : comRingType.
Variable conj : {rmorphism R -> R}.
Hypothesis conjK : involutive conj.
Variables m n : nat.

(* to_super of a plain operator: S[(b,a),(j,i)] = conj A[b,j] * A[a,i]
   (kron(conj A, A), Proofs/C08_pred.v) acts as X |-> A X A^dag *)
Definition super_of_oper (A : 'M[R]_(m, n)) : T4s R m n :=
  fun b a j i => conj (A b j) * A a i.

Lemma super_of_oper_action (A : 'M[R]_(m, n)) (X : 'M[R]_n) :
  apply_super (super_of_oper A) X = A *m X *m adj conj A.
Proof.
apply/matrixP=> a b; rewrite mxE.
rewrite [RHS]mxE exchange_big /=.
under [RHS]eq_bigr => j _.
  rewrite mxE adjE big_distrl /=.
  over.
apply: eq_bigr => i _; apply: eq_bigr => j _.
by rewrite /super_of_oper -mulrA mulrC.
Qed.

Lemma tr_mul_delta (M : 'M[R]_n) (i j : 'I_n) : \tr (M *m delta_mx j i) = M i j.
Proof.
rewrite /mxtrace (bigD1 i) //= mxE (bigD1 j) //=.
rewrite [delta_mx j i j i]mxE !eqxx mulr1.
rewrite big1 ?addr0; last by move=> l /negbTE nl; rewrite [delta_mx j i l i]mxE nl mulr0.
rewrite big1 ?addr0 // => k /negbTE nk.
by rewrite mxE big1 // => l _; rewrite [delta_mx j i l k]mxE nk andbF mulr0.
Qed.

(* the plain-operator branch of istp: conjugation by A preserves the trace of
   every operator iff A is an isometry, for every m x n (also non-square) *)
Lemma conjugation_tp_iff_isometry (A : 'M[R]_(m, n)) :
  (forall X : 'M[R]_n, \tr (A *m X *m adj conj A) = \tr X) <-> adj conj A *m A = 1%:M.
Proof.
split=> [H|H X].
- apply/matrixP=> i j.
  have := H (delta_mx j i).
  rewrite mxtrace_mulC mulmxA tr_delta tr_mul_delta => ->.
  by rewrite mxE eq_sym.
- by rewrite mxtrace_mulC mulmxA H mul1mx.
Qed.

(* complete positivity, definition level: the Choi matrix of X |-> sum K X K^dag
   is a sum of Hermitian squares - w^dag J w = sum_k conj z_k * z_k with
   z_k = <K_k, w> - for every vector w over the (in, out) index *)
Variable r : nat.
Lemma kraus_choi_sum_of_squares (K : 'I_r -> 'M[R]_(m, n)) (w : 'I_n -> 'I_m -> R) :
  \sum_i \sum_a \sum_j \sum_b conj (w i a) * pair_choi conj K K i a j b * w j b
  = \sum_k conj (\sum_i \sum_a conj (K k a i) * w i a) * (\sum_j \sum_b conj (K k b j) * w j b).
Proof.
transitivity (\sum_k \sum_i \sum_a \sum_j \sum_b
                conj (w i a) * (K k a i * conj (K k b j)) * w j b).
  rewrite [RHS]exchange_big /=; apply: eq_bigr => i _.
  rewrite [RHS]exchange_big /=; apply: eq_bigr => a _.
  rewrite [RHS]exchange_big /=; apply: eq_bigr => j _.
  rewrite [RHS]exchange_big /=; apply: eq_bigr => b _.
  by rewrite /pair_choi big_distrr big_distrl.
apply: eq_bigr => k _.
rewrite rmorph_sum big_distrl /=; apply: eq_bigr => i _.
rewrite rmorph_sum big_distrl /=; apply: eq_bigr => a _.
rewrite big_distrr /=; apply: eq_bigr => j _.
rewrite big_distrr /=; apply: eq_bigr => b _.
by rewrite rmorphM conjK mulrA [conj (w i a) * _]mulrC -mulrA.
Qed.

End More.
