(* C06 - proofs about coefficients with arguments (Model/C06_args.v) *)
From Coq Require Import List ZArith Bool Lia.
Import ListNotations.
From QV Require Import Model.C06 Proofs.C06 Model.C06_args.
Open Scope Z_scope.

Section Given.
  Context {V : Type}.
  (* what one replace_arguments(_args, **kwargs) call gives for name k *)
  Definition step_given (a kw : dict V) (k : nat) : option V :=
    orelse (lookup a k) (lookup kw k).
  (* what a history of calls (oldest first) gives: the LAST value given *)
  Fixpoint hist_given (hist : list (dict V * dict V)) (k : nat) : option V :=
    match hist with
    | [] => None
    | h :: r => orelse (hist_given r k) (step_given (fst h) (snd h) k)
    end.

  Lemma hist_given_app h1 h2 k :
    hist_given (h1 ++ h2) k = orelse (hist_given h2 k) (hist_given h1 k).
  Proof.
    induction h1 as [|h r IH]; cbn.
    - destruct (hist_given h2 k); reflexivity.
    - rewrite IH. destruct (hist_given h2 k); cbn; auto.
  Qed.
End Given.

Section TreeProofs.
  Context {V R : Type}.
  Variables (radd rmul : R -> R -> R) (rconj rnorm : R -> R).
  Variable ffun : nat -> Z -> (nat -> option V) -> R.
  Variable sfun : nat -> Z -> (nat -> option V) -> R.
  Variable xfun : nat -> Z -> R.
  Hypothesis ffun_ext : forall id t l1 l2, (forall k, l1 k = l2 k) -> ffun id t l1 = ffun id t l2.
  Hypothesis sfun_ext : forall id t l1 l2, (forall k, l1 k = l2 k) -> sfun id t l1 = sfun id t l2.

  Let ev := ceval radd rmul rconj rnorm ffun sfun xfun.

  (* evaluation where, on top of the stored arguments, the values [g] have
     been given: a function leaf sees them for the parameters it declares
     (all names for **kw / dict style), a string leaf for every name *)
  Fixpoint eval_given (g : nat -> option V) (c : coeff (V:=V)) (t : Z) : R :=
    match c with
    | CFunc id o =>
        ffun id t (fun k => orelse (if allowed (fc_params o) k then g k else None)
                                   (lookup (fc_args o) k))
    | CStr id args => sfun id t (fun k => orelse (g k) (lookup args k))
    | CFixed id => xfun id t
    | CSum a b => radd (eval_given g a t) (eval_given g b t)
    | CMul a b => rmul (eval_given g a t) (eval_given g b t)
    | CConj a => rconj (eval_given g a t)
    | CNorm a => rnorm (eval_given g a t)
    end.

  Lemma eval_given_ext g1 g2 c t :
    (forall k, g1 k = g2 k) -> eval_given g1 c t = eval_given g2 c t.
  Proof.
    intros H.
    induction c as [id o|id args|id|a IHa b IHb|a IHa b IHb|a IHa|a IHa]; cbn [eval_given].
    - apply ffun_ext. intros k. rewrite H. reflexivity.
    - apply sfun_ext. intros k. rewrite H. reflexivity.
    - reflexivity.
    - rewrite IHa, IHb. reflexivity.
    - rewrite IHa, IHb. reflexivity.
    - rewrite IHa. reflexivity.
    - rewrite IHa. reflexivity.
  Qed.

  Lemma eval_given_none c t : eval_given (fun _ => None) c t = ev c t.
  Proof.
    induction c as [id o|id args|id|a IHa b IHb|a IHa b IHb|a IHa|a IHa]; cbn;
      try (rewrite ?IHa, ?IHb; reflexivity).
    apply ffun_ext. intros k. destruct (allowed (fc_params o) k); reflexivity.
  Qed.

  Lemma lookup_nil_step (a kw : dict V) k :
    merge kw a = [] -> step_given a kw k = None.
  Proof.
    unfold merge. intros H. apply app_eq_nil in H. destruct H as (-> & ->). reflexivity.
  Qed.

  (* one replace_arguments: the new values are given on top *)
  Lemma eval_given_replace g c a kw t :
    eval_given g (creplace c a kw) t =
    eval_given (fun k => orelse (g k) (step_given a kw k)) c t.
  Proof.
    induction c as [id o|id args|id|x IHx y IHy|x IHx y IHy|x IHx|x IHx];
      cbn [creplace eval_given]; try (rewrite ?IHx, ?IHy; reflexivity).
    - destruct (fc_replace_keeps_sig o a kw) as (_ & Hps). rewrite Hps.
      apply ffun_ext. intros k. rewrite fc_replace_lookup. unfold step_given.
      destruct (allowed (fc_params o) k); cbn; auto.
      destruct (g k); cbn; auto.
    - destruct (merge kw a) as [|m0 m] eqn:Em.
      + cbn [eval_given]. apply sfun_ext. intros k.
        rewrite (lookup_nil_step a kw k Em). destruct (g k); reflexivity.
      + cbn [eval_given]. apply sfun_ext. intros k.
        unfold merge at 1. rewrite lookup_app. rewrite <- Em. unfold merge.
        rewrite lookup_app. unfold step_given, orelse.
        destruct (g k); auto.
  Qed.

  (* any history of replace_arguments: every leaf sees, for each name it
     accepts, the LAST value given, else the value it was built with *)
  Lemma eval_given_hist : forall hist g c t,
    eval_given g (apply_hist c hist) t =
    eval_given (fun k => orelse (g k) (hist_given hist k)) c t.
  Proof.
    induction hist as [|h r IH] using rev_ind; intros g c t.
    - cbn [apply_hist fold_left]. apply eval_given_ext. intros k. cbn.
      destruct (g k); reflexivity.
    - unfold apply_hist. rewrite fold_left_app. cbn [fold_left].
      fold (apply_hist c r). rewrite eval_given_replace, IH.
      apply eval_given_ext. intros k. rewrite hist_given_app. cbn.
      destruct (g k); cbn; auto.
  Qed.

  Lemma ccall_is_replace c t a kw :
    ccall radd rmul rconj rnorm ffun sfun xfun c t a kw = ev (creplace c a kw) t.
  Proof.
    unfold ccall. destruct a as [|x a]; [destruct kw as [|y kw]|]; auto.
    unfold ev. rewrite <- !eval_given_none. rewrite eval_given_replace.
    apply eval_given_ext. intros k. reflexivity.
  Qed.

  (* main statement: build c, apply any history of replace_arguments, then
     call with call-time arguments: the value is that of c with, for each
     name, the last value given anywhere along the way *)
  Lemma history_last_value c hist t a kw :
    ccall radd rmul rconj rnorm ffun sfun xfun (apply_hist c hist) t a kw =
    eval_given (hist_given (hist ++ [(a, kw)])) c t.
  Proof.
    rewrite ccall_is_replace. unfold ev. rewrite <- eval_given_none.
    change (creplace (apply_hist c hist) a kw) with
      (fold_left (fun c h => creplace c (fst h) (snd h)) [(a, kw)] (apply_hist c hist)).
    unfold apply_hist. rewrite <- fold_left_app. fold (apply_hist c (hist ++ [(a, kw)])).
    rewrite eval_given_hist. reflexivity.
  Qed.
End TreeProofs.

(* a function leaf built by FunctionCoefficient(func, args0, style): it sees
   exactly its declared parameters, each with the last value given *)
Lemma func_leaf_table {V} (s : fsig) (st : style) (args0 : dict V) (g : nat -> option V) k :
  orelse (if allowed (fc_params (fc_init s st args0)) k then g k else None)
         (lookup (fc_args (fc_init s st args0)) k)
  = if allowed (snd (cfp s st)) k then orelse (g k) (lookup args0 k) else None.
Proof.
  rewrite fc_init_lookup. destruct (fc_init_params s st args0) as (-> & _).
  destruct (allowed (snd (cfp s st)) k); reflexivity.
Qed.

(* FunctionCoefficient(func, args0, style) after any history and with
   call-time arguments: func is evaluated with, for each parameter it
   declares, the last value given anywhere (else the construction value),
   and with nothing else *)
Lemma func_history {V R} (radd rmul : R -> R -> R) (rconj rnorm : R -> R)
      (ffun sfun : nat -> Z -> (nat -> option V) -> R) (xfun : nat -> Z -> R)
      (ffun_ext : forall id t l1 l2, (forall k, l1 k = l2 k) -> ffun id t l1 = ffun id t l2)
      (sfun_ext : forall id t l1 l2, (forall k, l1 k = l2 k) -> sfun id t l1 = sfun id t l2)
      id (s : fsig) (st : style) (args0 : dict V) hist t a kw :
  ccall radd rmul rconj rnorm ffun sfun xfun
        (apply_hist (CFunc id (fc_init s st args0)) hist) t a kw =
  ffun id t (fun k => if allowed (snd (cfp s st)) k
                      then orelse (hist_given (hist ++ [(a, kw)]) k) (lookup args0 k)
                      else None).
Proof.
  rewrite (history_last_value radd rmul rconj rnorm ffun sfun xfun ffun_ext sfun_ext).
  cbn [eval_given]. apply ffun_ext. intros k. apply func_leaf_table.
Qed.
