(* C20 - proofs about the models of Model/C20.v *)
From Coq Require Import List ZArith Bool Arith Lia Ring InitialRing Setoid.
Import ListNotations.
From QV Require Import Model.C20.
Open Scope Z_scope.

(* ------------------------------------------------------------ arange, nth *)
Lemma arange_length a b : length (arange a b) = Z.to_nat (b - a).
Proof. unfold arange. now rewrite map_length, seq_length. Qed.

Lemma nth_map_seq (f : nat -> Z) n i : (i < n)%nat ->
  nth i (map f (seq 0 n)) 0 = f i.
Proof.
  intros H. rewrite (nth_indep _ 0 (f 0%nat)) by (now rewrite map_length, seq_length).
  rewrite map_nth. now rewrite seq_nth.
Qed.

Lemma arange_nth a b i : (i < Z.to_nat (b - a))%nat ->
  nth i (arange a b) 0 = a + Z.of_nat i.
Proof. intros H. unfold arange. now rewrite nth_map_seq. Qed.

Lemma arange_nonempty a b : a < b -> exists x r, arange a b = x :: r.
Proof.
  intros H. destruct (arange a b) as [|x r] eqn:E.
  - pose proof (arange_length a b) as L. rewrite E in L. simpl in L. lia.
  - eauto.
Qed.

(* ------------------------------------------- diags with a single diagonal *)
Lemma diags_single (x : Z) (r : list Z) (k : Z) :
  zdiags (Flat (x :: r)) [k]
  = Ok {| dim := (Z.abs_nat k + length (x :: r))%nat; dgs := [(k, x :: r)] |}.
Proof.
  unfold zdiags, diags. cbn [wrap length combine Nat.eqb negb argmin fst snd forallb].
  replace (Z.of_nat (S (length r)) =? Z.of_nat (Z.abs_nat k + S (length r)) - Z.abs k) with true
    by (symmetry; apply Z.eqb_eq; lia).
  cbn [andb]. replace ((Z.abs_nat k + S (length r))%nat =? 0)%nat with false
    by (symmetry; apply Nat.eqb_neq; lia).
  reflexivity.
Qed.

(* the empty flat sequence: this is what destroy(1), create(1), _jplus(0) pass *)
Lemma diags_empty_flat (k : Z) : zdiags (Flat []) [k] = Err EDiagCount.
Proof. reflexivity. Qed.

(* a list of one diagonal is kept even when that diagonal is empty *)
Lemma diags_single_nested (d : list Z) (k : Z) : (Z.abs_nat k + length d <> 0)%nat ->
  zdiags (Nested [d]) [k]
  = Ok {| dim := (Z.abs_nat k + length d)%nat; dgs := [(k, d)] |}.
Proof.
  intros H. unfold zdiags, diags. cbn [wrap length combine Nat.eqb negb argmin fst snd forallb].
  replace (Z.of_nat (length d) =? Z.of_nat (Z.abs_nat k + length d) - Z.abs k) with true
    by (symmetry; apply Z.eqb_eq; lia).
  cbn [andb]. replace ((Z.abs_nat k + length d)%nat =? 0)%nat with false
    by (symmetry; apply Nat.eqb_neq; lia).
  reflexivity.
Qed.

Lemma zentry_single k d n i j :
  zentry {| dim := n; dgs := [(k, d)] |} i j
  = if Z.of_nat j - Z.of_nat i =? k then nth (if 0 <=? k then i else j) d 0 else 0.
Proof.
  unfold zentry, entry, dentry. cbn [dgs fold_right fst snd].
  destruct (Z.of_nat j - Z.of_nat i =? k); lia.
Qed.

(* ------------------------------------------------ destroy / create / num *)
Definition is_sup (i j : nat) : bool := (j =? S i)%nat.

Lemma destroy_rad_ok N off : 1 <= N ->
  exists m, destroy_rad N off = Ok m /\ dim m = Z.to_nat N /\
    forall i j, (i < Z.to_nat N)%nat -> (j < Z.to_nat N)%nat ->
      zentry m i j = if is_sup i j then off + Z.of_nat j else 0.
Proof.
  intros HN. unfold destroy_rad.
  rewrite diags_single_nested by (simpl; lia). eexists; split; [reflexivity|].
  cbn [dim]. rewrite arange_length. split; [simpl; lia|].
  intros i j Hi Hj. rewrite zentry_single. unfold is_sup.
  destruct (Z.of_nat j - Z.of_nat i =? 1) eqn:Q.
  - apply Z.eqb_eq in Q. replace (j =? S i)%nat with true by (symmetry; apply Nat.eqb_eq; lia).
    cbn. rewrite arange_nth by lia. lia.
  - apply Z.eqb_neq in Q. replace (j =? S i)%nat with false by (symmetry; apply Nat.eqb_neq; lia).
    reflexivity.
Qed.

Lemma create_rad_ok N off : 1 <= N ->
  exists m, create_rad N off = Ok m /\ dim m = Z.to_nat N /\
    forall i j, (i < Z.to_nat N)%nat -> (j < Z.to_nat N)%nat ->
      zentry m i j = if is_sup j i then off + Z.of_nat i else 0.
Proof.
  intros HN. unfold create_rad.
  rewrite diags_single_nested by (simpl; lia). eexists; split; [reflexivity|].
  cbn [dim]. rewrite arange_length. split; [simpl; lia|].
  intros i j Hi Hj. rewrite zentry_single. unfold is_sup.
  destruct (Z.of_nat j - Z.of_nat i =? -1) eqn:Q.
  - apply Z.eqb_eq in Q. replace (i =? S j)%nat with true by (symmetry; apply Nat.eqb_eq; lia).
    cbn. rewrite arange_nth by lia. lia.
  - apply Z.eqb_neq in Q. replace (i =? S j)%nat with false by (symmetry; apply Nat.eqb_neq; lia).
    reflexivity.
Qed.

Lemma num_diag_ok N off : 1 <= N ->
  exists m, num_diag N off = Ok m /\ dim m = Z.to_nat N /\
    forall i j, (i < Z.to_nat N)%nat -> (j < Z.to_nat N)%nat ->
      zentry m i j = if (i =? j)%nat then off + Z.of_nat i else 0.
Proof.
  intros HN. unfold num_diag.
  destruct (arange_nonempty off (off + N)) as (x & r & E); [lia|].
  rewrite E, diags_single. eexists; split; [reflexivity|]. rewrite <- E.
  cbn [dim]. rewrite arange_length. split; [lia|].
  intros i j Hi Hj. rewrite zentry_single.
  destruct (Z.of_nat j - Z.of_nat i =? 0) eqn:Q.
  - apply Z.eqb_eq in Q. replace (i =? j)%nat with true by (symmetry; apply Nat.eqb_eq; lia).
    cbn. rewrite arange_nth by lia. lia.
  - apply Z.eqb_neq in Q. replace (i =? j)%nat with false by (symmetry; apply Nat.eqb_neq; lia).
    reflexivity.
Qed.

(* N <= 1 (also the inadmissible N <= 0): the empty diagonal, i.e. the 1x1
   zero operator *)
Lemma destroy_rad_le1 N off : N <= 1 ->
  destroy_rad N off = Ok {| dim := 1; dgs := [(1, [])] |}.
Proof.
  intros H. unfold destroy_rad, arange.
  replace (Z.to_nat (N + off - (off + 1))) with 0%nat by lia. reflexivity.
Qed.
Lemma create_rad_le1 N off : N <= 1 ->
  create_rad N off = Ok {| dim := 1; dgs := [(-1, [])] |}.
Proof.
  intros H. unfold create_rad, arange.
  replace (Z.to_nat (N + off - (off + 1))) with 0%nat by lia. reflexivity.
Qed.

(* ----------------------------------------------------------------- jmat *)
Lemma jm2_length J : 0 <= J -> length (jm2 J) = Z.to_nat (J + 1).
Proof. intros. unfold jm2. now rewrite map_length, seq_length. Qed.

Lemma tl_nth (l : list Z) i : nth i (tl l) 0 = nth (S i) l 0.
Proof. destruct l; [destruct i|]; reflexivity. Qed.

Lemma jplus_data_length J : 0 <= J -> length (jplus_data J) = Z.to_nat J.
Proof.
  intros H. unfold jplus_data, jplus_rad4.
  destruct (map (fun r => r / 4) (map (fun M => J * (J + 2) - M * (M + 2)) (jm2 J))) eqn:E.
  - apply (f_equal (@length Z)) in E. rewrite !map_length, jm2_length in E by lia. simpl in E. lia.
  - apply (f_equal (@length Z)) in E. rewrite !map_length, jm2_length in E by lia. simpl in *. lia.
Qed.

(* the code's radicand j(j+1) - m(m+1) at m = j-i-1 is (i+1)(2j-i) *)
Lemma jplus_data_nth J i : 0 <= J -> (i < Z.to_nat J)%nat ->
  nth i (jplus_data J) 0 = (Z.of_nat i + 1) * (J - Z.of_nat i).
Proof.
  intros HJ Hi. unfold jplus_data. rewrite tl_nth. unfold jplus_rad4, jm2.
  rewrite map_map, map_map.
  rewrite (nth_map_seq (fun k => (J * (J + 2) - (J - 2 * Z.of_nat k) * (J - 2 * Z.of_nat k + 2)) / 4))
    by lia.
  replace (J * (J + 2) - (J - 2 * Z.of_nat (S i)) * (J - 2 * Z.of_nat (S i) + 2))
    with (((Z.of_nat i + 1) * (J - Z.of_nat i)) * 4) by lia.
  now rewrite Z.div_mul by lia.
Qed.

Lemma jplus_rad_ok J : 0 <= J ->
  exists m, jplus_rad J = Ok m /\ dim m = Z.to_nat (J + 1) /\
    forall i j, (i < Z.to_nat (J + 1))%nat -> (j < Z.to_nat (J + 1))%nat ->
      zentry m i j = if is_sup i j then (Z.of_nat i + 1) * (J - Z.of_nat i) else 0.
Proof.
  intros HJ. unfold jplus_rad. replace (J <? 0) with false by (symmetry; apply Z.ltb_ge; lia).
  rewrite diags_single_nested by (simpl; lia). eexists; split; [reflexivity|]. cbn [dim].
  rewrite jplus_data_length by lia. split; [simpl; lia|].
  intros i j Hi Hj. rewrite zentry_single. unfold is_sup.
  destruct (Z.of_nat j - Z.of_nat i =? 1) eqn:Q.
  - apply Z.eqb_eq in Q. replace (j =? S i)%nat with true by (symmetry; apply Nat.eqb_eq; lia).
    cbn. rewrite jplus_data_nth by lia. reflexivity.
  - apply Z.eqb_neq in Q. replace (j =? S i)%nat with false by (symmetry; apply Nat.eqb_neq; lia).
    reflexivity.
Qed.

Lemma jplus_rad_spin0 : jplus_rad 0 = Ok {| dim := 1; dgs := [(1, [])] |}.
Proof. reflexivity. Qed.

Lemma jz2_diag_ok J : 0 <= J ->
  exists m, jz2_diag J = Ok m /\ dim m = Z.to_nat (J + 1) /\
    forall i j, (i < Z.to_nat (J + 1))%nat -> (j < Z.to_nat (J + 1))%nat ->
      zentry m i j = if (i =? j)%nat then J - 2 * Z.of_nat i else 0.
Proof.
  intros HJ. unfold jz2_diag. replace (J <? 0) with false by (symmetry; apply Z.ltb_ge; lia).
  pose proof (jm2_length J HJ) as L.
  destruct (jm2 J) as [|x r] eqn:E; [simpl in L; lia|].
  rewrite diags_single. eexists; split; [reflexivity|]. rewrite <- E. cbn [dim].
  rewrite jm2_length by lia. split; [lia|].
  intros i j Hi Hj. rewrite zentry_single.
  destruct (Z.of_nat j - Z.of_nat i =? 0) eqn:Q.
  - apply Z.eqb_eq in Q. replace (i =? j)%nat with true by (symmetry; apply Nat.eqb_eq; lia).
    cbn. unfold jm2. rewrite nth_map_seq by lia. reflexivity.
  - apply Z.eqb_neq in Q. replace (i =? j)%nat with false by (symmetry; apply Nat.eqb_neq; lia).
    reflexivity.
Qed.

(* ======================================================================
   Algebra over an arbitrary commutative ring R with a square-root function
   ====================================================================== *)
Section Alg.
  Variable R : Type.
  Variables (rO rI : R) (radd rmul rsub : R -> R -> R) (ropp : R -> R).
  Variable Rth : ring_theory rO rI radd rmul rsub ropp eq.
  Add Ring Rring : Rth.
  Notation "x +r y" := (radd x y) (at level 50, left associativity).
  Notation "x *r y" := (rmul x y) (at level 40, left associativity).
  Notation "x -r y" := (rsub x y) (at level 50, left associativity).

  Definition zr : Z -> R := gen_phiZ rO rI radd rmul ropp.
  Let zmorph := gen_phiZ_morph (Eqsth R) (Eq_ext radd rmul ropp) Rth.
  Lemma zr_add x y : zr (x + y) = zr x +r zr y. Proof. exact (morph_add zmorph x y). Qed.
  Lemma zr_sub x y : zr (x - y) = zr x -r zr y. Proof. exact (morph_sub zmorph x y). Qed.
  Lemma zr_mul x y : zr (x * y) = zr x *r zr y. Proof. exact (morph_mul zmorph x y). Qed.
  Lemma zr_0 : zr 0 = rO. Proof. exact (morph0 zmorph). Qed.
  Lemma zr_1 : zr 1 = rI. Proof. exact (morph1 zmorph). Qed.

  (* finite sums and matrix product on index functions *)
  Fixpoint sumn (n : nat) (f : nat -> R) : R :=
    match n with O => rO | S k => sumn k f +r f k end.
  Definition mmul (n : nat) (A B : nat -> nat -> R) (i j : nat) : R :=
    sumn n (fun k => A i k *r B k j).

  Lemma sumn_ext n f g : (forall k, (k < n)%nat -> f k = g k) -> sumn n f = sumn n g.
  Proof.
    induction n as [|n IH]; intros H; [reflexivity|]. simpl.
    rewrite IH by (intros; apply H; lia). now rewrite H by lia.
  Qed.
  Lemma sumn_zero n f : (forall k, (k < n)%nat -> f k = rO) -> sumn n f = rO.
  Proof.
    induction n as [|n IH]; intros H; [reflexivity|]. simpl.
    rewrite IH by (intros; apply H; lia). rewrite H by lia. ring.
  Qed.
  Lemma sumn_single n f k0 : (k0 < n)%nat ->
    (forall k, (k < n)%nat -> k <> k0 -> f k = rO) -> sumn n f = f k0.
  Proof.
    induction n as [|n IH]; intros Hk H; [lia|]. simpl.
    destruct (Nat.eq_dec k0 n) as [->|Hne].
    - rewrite sumn_zero by (intros; apply H; lia). ring.
    - rewrite IH by (try lia; intros; apply H; lia). rewrite (H n) by lia. ring.
  Qed.
  Lemma sumn_add n f g : sumn n (fun k => f k +r g k) = sumn n f +r sumn n g.
  Proof. induction n as [|n IH]; simpl; [ring|rewrite IH; ring]. Qed.
  Lemma sumn_scal n c f : sumn n (fun k => c *r f k) = c *r sumn n f.
  Proof. induction n as [|n IH]; simpl; [ring|rewrite IH; ring]. Qed.
  Lemma sumn_swap n m (f : nat -> nat -> R) :
    sumn n (fun i => sumn m (fun j => f i j)) = sumn m (fun j => sumn n (fun i => f i j)).
  Proof.
    induction n as [|n IH]; simpl.
    - symmetry. now apply sumn_zero.
    - rewrite IH. now rewrite <- sumn_add.
  Qed.

  Variable sq : Z -> R.
  Hypothesis sq_0 : sq 0 = rO.

  (* the real matrix of a radicand matrix *)
  Definition rmat (m : mat Z) : nat -> nat -> R := fun i j => sq (zentry m i j).

  (* ---- ladder operators: a a^dag and a^dag a on number states, any N >= 2,
     any offset >= 0; only the radicands that occur need a square root *)
  Section Ladder.
    Variables (N off : Z).
    Hypothesis HN : 1 <= N.
    Hypothesis Hoff : 0 <= off.
    Hypothesis Hsq : forall n, off < n < N + off -> sq n *r sq n = zr n.
    Variables (ma mc : mat Z).
    Hypothesis Ea : destroy_rad N off = Ok ma.
    Hypothesis Ec : create_rad N off = Ok mc.

    Let n := Z.to_nat N.

    Lemma ma_entry i j : (i < n)%nat -> (j < n)%nat ->
      zentry ma i j = if is_sup i j then off + Z.of_nat j else 0.
    Proof.
      destruct (destroy_rad_ok N off HN) as (m & E & _ & H). rewrite Ea in E.
      injection E as <-. exact (H i j).
    Qed.
    Lemma mc_entry i j : (i < n)%nat -> (j < n)%nat ->
      zentry mc i j = if is_sup j i then off + Z.of_nat i else 0.
    Proof.
      destruct (create_rad_ok N off HN) as (m & E & _ & H). rewrite Ec in E.
      injection E as <-. exact (H i j).
    Qed.

    (* create is the transpose of destroy (real entries: the adjoint) *)
    Lemma create_is_transpose i j : (i < n)%nat -> (j < n)%nat ->
      zentry mc i j = zentry ma j i.
    Proof. intros Hi Hj. rewrite ma_entry, mc_entry by assumption. reflexivity. Qed.

    Lemma a_adag i j : (i < n)%nat -> (j < n)%nat ->
      mmul n (rmat ma) (rmat mc) i j =
      if (i =? j)%nat then (if (S i <? n)%nat then zr (off + Z.of_nat i + 1) else rO) else rO.
    Proof.
      intros Hi Hj. unfold mmul, rmat.
      destruct (S i <? n)%nat eqn:Q.
      - apply Nat.ltb_lt in Q.
        rewrite (sumn_single n _ (S i)) by
          (try lia; intros k Hk Hne; rewrite ma_entry by lia; unfold is_sup;
           replace (k =? S i)%nat with false by (symmetry; apply Nat.eqb_neq; lia);
           rewrite sq_0; ring).
        rewrite ma_entry, mc_entry by lia. unfold is_sup. rewrite Nat.eqb_refl.
        destruct (i =? j)%nat eqn:Qe.
        + apply Nat.eqb_eq in Qe. subst j. rewrite Nat.eqb_refl.
          rewrite Hsq by lia. f_equal. lia.
        + apply Nat.eqb_neq in Qe.
          replace (S i =? S j)%nat with false by (symmetry; apply Nat.eqb_neq; lia).
          rewrite sq_0. ring.
      - apply Nat.ltb_ge in Q.
        rewrite sumn_zero.
        + now destruct (i =? j)%nat.
        + intros k Hk. rewrite ma_entry by lia. unfold is_sup.
          replace (k =? S i)%nat with false by (symmetry; apply Nat.eqb_neq; lia).
          rewrite sq_0. ring.
    Qed.

    Lemma adag_a i j : (i < n)%nat -> (j < n)%nat ->
      mmul n (rmat mc) (rmat ma) i j =
      if (i =? j)%nat then (if (0 <? i)%nat then zr (off + Z.of_nat i) else rO) else rO.
    Proof.
      intros Hi Hj. unfold mmul, rmat.
      destruct (0 <? i)%nat eqn:Q.
      - apply Nat.ltb_lt in Q.
        rewrite (sumn_single n _ (pred i)) by
          (try lia; intros k Hk Hne; rewrite mc_entry by lia; unfold is_sup;
           replace (i =? S k)%nat with false by (symmetry; apply Nat.eqb_neq; lia);
           rewrite sq_0; ring).
        rewrite ma_entry, mc_entry by lia. unfold is_sup.
        replace (i =? S (pred i))%nat with true by (symmetry; apply Nat.eqb_eq; lia).
        destruct (i =? j)%nat eqn:Qe.
        + apply Nat.eqb_eq in Qe. subst j.
          replace (i =? S (pred i))%nat with true by (symmetry; apply Nat.eqb_eq; lia).
          rewrite Hsq by lia. reflexivity.
        + apply Nat.eqb_neq in Qe.
          replace (j =? S (pred i))%nat with false by (symmetry; apply Nat.eqb_neq; lia).
          rewrite sq_0. ring.
      - apply Nat.ltb_ge in Q.
        rewrite sumn_zero.
        + now destruct (i =? j)%nat.
        + intros k Hk. rewrite mc_entry by lia. unfold is_sup.
          replace (i =? S k)%nat with false by (symmetry; apply Nat.eqb_neq; lia).
          rewrite sq_0. ring.
    Qed.

    (* truncated canonical commutation relation
         [a, a^dag] = 1 + off |0><0| - (N + off) |N-1><N-1|
       (for off = 0 the familiar 1 - N |N-1><N-1|) *)
    Lemma truncated_ccr i j : (i < n)%nat -> (j < n)%nat ->
      mmul n (rmat ma) (rmat mc) i j -r mmul n (rmat mc) (rmat ma) i j =
      if (i =? j)%nat then
        (rI +r (if (i =? 0)%nat then zr off else rO))
        -r (if (S i =? n)%nat then zr (N + off) else rO)
      else rO.
    Proof.
      intros Hi Hj. rewrite a_adag, adag_a by assumption.
      destruct (i =? j)%nat; [|ring].
      destruct (S i <? n)%nat eqn:Q1; destruct (0 <? i)%nat eqn:Q2;
        [apply Nat.ltb_lt in Q1|apply Nat.ltb_lt in Q1|apply Nat.ltb_ge in Q1|apply Nat.ltb_ge in Q1];
        [apply Nat.ltb_lt in Q2|apply Nat.ltb_ge in Q2|apply Nat.ltb_lt in Q2|apply Nat.ltb_ge in Q2].
      - replace (i =? 0)%nat with false by (symmetry; apply Nat.eqb_neq; lia).
        replace (S i =? n)%nat with false by (symmetry; apply Nat.eqb_neq; lia).
        rewrite !zr_add, zr_1. ring.
      - replace (i =? 0)%nat with true by (symmetry; apply Nat.eqb_eq; lia).
        replace (S i =? n)%nat with false by (symmetry; apply Nat.eqb_neq; lia).
        replace (Z.of_nat i) with 0 by lia.
        rewrite !zr_add, zr_1, zr_0. ring.
      - replace (i =? 0)%nat with false by (symmetry; apply Nat.eqb_neq; lia).
        replace (S i =? n)%nat with true by (symmetry; apply Nat.eqb_eq; lia).
        replace (N + off) with (off + Z.of_nat i + 1) by lia.
        rewrite !zr_add, zr_1. ring.
      - (* N = 1: the 1x1 zero operator *)
        replace (i =? 0)%nat with true by (symmetry; apply Nat.eqb_eq; lia).
        replace (S i =? n)%nat with true by (symmetry; apply Nat.eqb_eq; lia).
        replace (N + off) with (1 + off) by lia.
        rewrite zr_add, zr_1. ring.
    Qed.
  End Ladder.

  (* ---- spin operators from the radicand model, any J = 2j >= 1 *)
  Section Spin.
    Variable J : Z.
    Hypothesis HJ : 0 <= J.
    Hypothesis Hsq : forall i, 0 <= i < J -> sq ((i + 1) * (J - i)) *r sq ((i + 1) * (J - i))
                                           = zr ((i + 1) * (J - i)).
    Variables (mp mz : mat Z).
    Hypothesis Ep : jplus_rad J = Ok mp.
    Hypothesis Ez : jz2_diag J = Ok mz.
    Let n := Z.to_nat (J + 1).

    Definition Jp : nat -> nat -> R := rmat mp.
    Definition Jm : nat -> nat -> R := fun i j => rmat mp j i.   (* _jplus(j).adjoint() *)
    Definition Jz2 : nat -> nat -> R := fun i j => zr (zentry mz i j).   (* 2 Jz *)

    Lemma mp_entry i j : (i < n)%nat -> (j < n)%nat ->
      zentry mp i j = if is_sup i j then (Z.of_nat i + 1) * (J - Z.of_nat i) else 0.
    Proof.
      destruct (jplus_rad_ok J HJ) as (m & E & _ & H). rewrite Ep in E.
      injection E as <-. exact (H i j).
    Qed.
    Lemma mz_entry i j : (i < n)%nat -> (j < n)%nat ->
      zentry mz i j = if (i =? j)%nat then J - 2 * Z.of_nat i else 0.
    Proof.
      destruct (jz2_diag_ok J HJ) as (m & E & _ & H). rewrite Ez in E.
      injection E as <-. exact (H i j).
    Qed.

    Lemma JpJm i j : (i < n)%nat -> (j < n)%nat ->
      mmul n Jp Jm i j =
      if (i =? j)%nat then (if (S i <? n)%nat then zr ((Z.of_nat i + 1) * (J - Z.of_nat i)) else rO)
      else rO.
    Proof.
      intros Hi Hj. unfold mmul, Jp, Jm, rmat.
      destruct (S i <? n)%nat eqn:Q.
      - apply Nat.ltb_lt in Q.
        rewrite (sumn_single n _ (S i)) by
          (try lia; intros k Hk Hne; rewrite mp_entry by lia; unfold is_sup;
           replace (k =? S i)%nat with false by (symmetry; apply Nat.eqb_neq; lia);
           rewrite sq_0; ring).
        rewrite !mp_entry by lia. unfold is_sup. rewrite Nat.eqb_refl.
        destruct (i =? j)%nat eqn:Qe.
        + apply Nat.eqb_eq in Qe. subst j. rewrite Nat.eqb_refl. rewrite Hsq by lia. reflexivity.
        + apply Nat.eqb_neq in Qe.
          replace (S i =? S j)%nat with false by (symmetry; apply Nat.eqb_neq; lia).
          rewrite sq_0. ring.
      - apply Nat.ltb_ge in Q. rewrite sumn_zero.
        + now destruct (i =? j)%nat.
        + intros k Hk. rewrite mp_entry by lia. unfold is_sup.
          replace (k =? S i)%nat with false by (symmetry; apply Nat.eqb_neq; lia).
          rewrite sq_0. ring.
    Qed.

    Lemma JmJp i j : (i < n)%nat -> (j < n)%nat ->
      mmul n Jm Jp i j =
      if (i =? j)%nat then (if (0 <? i)%nat then zr (Z.of_nat i * (J - Z.of_nat i + 1)) else rO)
      else rO.
    Proof.
      intros Hi Hj. unfold mmul, Jp, Jm, rmat.
      destruct (0 <? i)%nat eqn:Q.
      - apply Nat.ltb_lt in Q.
        rewrite (sumn_single n _ (pred i)) by
          (try lia; intros k Hk Hne; rewrite mp_entry by lia; unfold is_sup;
           replace (i =? S k)%nat with false by (symmetry; apply Nat.eqb_neq; lia);
           rewrite sq_0; ring).
        rewrite !mp_entry by lia. unfold is_sup.
        replace (i =? S (pred i))%nat with true by (symmetry; apply Nat.eqb_eq; lia).
        destruct (i =? j)%nat eqn:Qe.
        + apply Nat.eqb_eq in Qe. subst j.
          replace (i =? S (pred i))%nat with true by (symmetry; apply Nat.eqb_eq; lia).
          replace (Z.of_nat (pred i) + 1) with (Z.of_nat i) by lia.
          replace (J - Z.of_nat (pred i)) with (J - Z.of_nat i + 1) by lia.
          pose proof (Hsq (Z.of_nat i - 1) ltac:(lia)) as H.
          replace (Z.of_nat i - 1 + 1) with (Z.of_nat i) in H by lia.
          replace (J - (Z.of_nat i - 1)) with (J - Z.of_nat i + 1) in H by lia.
          exact H.
        + apply Nat.eqb_neq in Qe.
          replace (j =? S (pred i))%nat with false by (symmetry; apply Nat.eqb_neq; lia).
          rewrite sq_0. ring.
      - apply Nat.ltb_ge in Q. rewrite sumn_zero.
        + now destruct (i =? j)%nat.
        + intros k Hk. rewrite mp_entry by lia. unfold is_sup.
          replace (i =? S k)%nat with false by (symmetry; apply Nat.eqb_neq; lia).
          rewrite sq_0. ring.
    Qed.

    (* [J+, J-] = 2 Jz *)
    Lemma comm_JpJm i j : (i < n)%nat -> (j < n)%nat ->
      mmul n Jp Jm i j -r mmul n Jm Jp i j = Jz2 i j.
    Proof.
      intros Hi Hj. rewrite JpJm, JmJp by assumption. unfold Jz2. rewrite mz_entry by assumption.
      destruct (i =? j)%nat; [|rewrite zr_0; ring].
      destruct (S i <? n)%nat eqn:Q1; destruct (0 <? i)%nat eqn:Q2;
        [apply Nat.ltb_lt in Q1|apply Nat.ltb_lt in Q1|apply Nat.ltb_ge in Q1|apply Nat.ltb_ge in Q1];
        [apply Nat.ltb_lt in Q2|apply Nat.ltb_ge in Q2|apply Nat.ltb_lt in Q2|apply Nat.ltb_ge in Q2].
      - rewrite <- zr_sub. f_equal. lia.
      - replace (Z.of_nat i) with 0 by lia.
        replace (rsub (zr ((0 + 1) * (J - 0))) rO) with (zr ((0 + 1) * (J - 0)) -r zr 0)
          by (now rewrite zr_0).
        rewrite <- zr_sub. f_equal. lia.
      - replace (rsub rO (zr (Z.of_nat i * (J - Z.of_nat i + 1))))
          with (zr 0 -r zr (Z.of_nat i * (J - Z.of_nat i + 1))) by (now rewrite zr_0).
        rewrite <- zr_sub. f_equal. nia.
      - (* J = 0 *)
        replace (J - 2 * Z.of_nat i) with 0 by lia. rewrite zr_0. ring.
    Qed.

    (* [2Jz, J+] = 2 J+   (i.e. [Jz, J+] = J+) *)
    Lemma comm_JzJp i j : (i < n)%nat -> (j < n)%nat ->
      mmul n Jz2 Jp i j -r mmul n Jp Jz2 i j = zr 2 *r Jp i j.
    Proof.
      intros Hi Hj. unfold mmul.
      rewrite (sumn_single n (fun k => Jz2 i k *r Jp k j) i) by
        (try lia; intros k Hk Hne; unfold Jz2; rewrite mz_entry by lia;
         replace (i =? k)%nat with false by (symmetry; apply Nat.eqb_neq; lia);
         rewrite zr_0; ring).
      rewrite (sumn_single n (fun k => Jp i k *r Jz2 k j) j) by
        (try lia; intros k Hk Hne; unfold Jz2; rewrite mz_entry by lia;
         replace (k =? j)%nat with false by (symmetry; apply Nat.eqb_neq; lia);
         rewrite zr_0; ring).
      unfold Jz2, Jp, rmat. rewrite !mz_entry, mp_entry by lia. rewrite !Nat.eqb_refl.
      unfold is_sup. destruct (j =? S i)%nat eqn:Q.
      - apply Nat.eqb_eq in Q. subst j.
        replace (J - 2 * Z.of_nat i) with ((J - 2 * Z.of_nat (S i)) + 2) by lia.
        rewrite zr_add. ring.
      - rewrite sq_0. ring.
    Qed.

    (* [2Jz, J-] = -2 J-   (i.e. [Jz, J-] = -J-) *)
    Lemma comm_JzJm i j : (i < n)%nat -> (j < n)%nat ->
      mmul n Jz2 Jm i j -r mmul n Jm Jz2 i j = ropp (zr 2 *r Jm i j).
    Proof.
      intros Hi Hj. unfold mmul.
      rewrite (sumn_single n (fun k => Jz2 i k *r Jm k j) i) by
        (try lia; intros k Hk Hne; unfold Jz2; rewrite mz_entry by lia;
         replace (i =? k)%nat with false by (symmetry; apply Nat.eqb_neq; lia);
         rewrite zr_0; ring).
      rewrite (sumn_single n (fun k => Jm i k *r Jz2 k j) j) by
        (try lia; intros k Hk Hne; unfold Jz2; rewrite mz_entry by lia;
         replace (k =? j)%nat with false by (symmetry; apply Nat.eqb_neq; lia);
         rewrite zr_0; ring).
      unfold Jz2, Jm, rmat. rewrite !mz_entry, mp_entry by lia. rewrite !Nat.eqb_refl.
      unfold is_sup. destruct (i =? S j)%nat eqn:Q.
      - apply Nat.eqb_eq in Q. subst i.
        replace (J - 2 * Z.of_nat j) with ((J - 2 * Z.of_nat (S j)) + 2) by lia.
        rewrite zr_add. ring.
      - rewrite sq_0. ring.
    Qed.

    (* Casimir: 2 (J+J- + J-J+) + (2Jz)^2 = J (J+2) 1   (i.e. J^2 = j(j+1)) *)
    Lemma casimir i j : (i < n)%nat -> (j < n)%nat ->
      zr 2 *r (mmul n Jp Jm i j +r mmul n Jm Jp i j) +r mmul n Jz2 Jz2 i j =
      if (i =? j)%nat then zr (J * (J + 2)) else rO.
    Proof.
      intros Hi Hj. rewrite JpJm, JmJp by assumption. unfold mmul at 1.
      rewrite (sumn_single n (fun k => Jz2 i k *r Jz2 k j) i) by
        (try lia; intros k Hk Hne; unfold Jz2; rewrite mz_entry by lia;
         replace (i =? k)%nat with false by (symmetry; apply Nat.eqb_neq; lia);
         rewrite zr_0; ring).
      unfold Jz2. rewrite !mz_entry by lia. rewrite Nat.eqb_refl.
      destruct (i =? j)%nat eqn:Qe; [|rewrite zr_0; ring].
      destruct (S i <? n)%nat eqn:Q1; destruct (0 <? i)%nat eqn:Q2;
        [apply Nat.ltb_lt in Q1|apply Nat.ltb_lt in Q1|apply Nat.ltb_ge in Q1|apply Nat.ltb_ge in Q1];
        [apply Nat.ltb_lt in Q2|apply Nat.ltb_ge in Q2|apply Nat.ltb_lt in Q2|apply Nat.ltb_ge in Q2].
      - rewrite <- !zr_add, <- !zr_mul, <- zr_add. f_equal. lia.
      - replace rO with (zr 0) at 1 by apply zr_0.
        rewrite <- !zr_add, <- !zr_mul, <- zr_add. f_equal. nia.
      - replace rO with (zr 0) at 1 by apply zr_0.
        rewrite <- !zr_add, <- !zr_mul, <- zr_add. f_equal. nia.
      - (* J = 0 *)
        replace (J - 2 * Z.of_nat i) with 0 by lia.
        replace (J * (J + 2)) with 0 by nia. rewrite !zr_0. ring.
    Qed.
  End Spin.
  (* ---- jmat(j, 'x'|'y'|'z') from J+ as the code builds them:
       Jx = (A + A^dag) * 0.5             A = J+,  A^dag = J-
       Jy = B + B^dag                     B = J+ * (-0.5j),  B^dag = J- * (0.5j)
       Jz = (2Jz) * 0.5
     for ANY index matrices P, M, Z2 with [P, M] = Z2 (proved for the spin
     matrices above), any `half` with half + half = 1 and `im` with im*im = -1 *)
  Section XYZ.
    Variables (half im : R).
    Hypothesis Hhalf : half +r half = rI.
    Variable n : nat.
    Variables (P M Z2 : nat -> nat -> R).
    Hypothesis HPM : forall i j, (i < n)%nat -> (j < n)%nat ->
      mmul n P M i j -r mmul n M P i j = Z2 i j.

    Definition Jx_ : nat -> nat -> R := fun i j => (P i j +r M i j) *r half.
    Definition Jy_ : nat -> nat -> R :=
      fun i j => P i j *r ropp (half *r im) +r M i j *r (half *r im).
    Definition Jz_ : nat -> nat -> R := fun i j => Z2 i j *r half.

    Lemma sumn_lin4 m c1 c2 c3 c4 f1 f2 f3 f4 :
      sumn m (fun k => c1 *r f1 k +r c2 *r f2 k +r c3 *r f3 k +r c4 *r f4 k) =
      c1 *r sumn m f1 +r c2 *r sumn m f2 +r c3 *r sumn m f3 +r c4 *r sumn m f4.
    Proof. induction m as [|m IH]; simpl; [ring|rewrite IH; ring]. Qed.

    (* [Jx, Jy] = i Jz *)
    Lemma comm_JxJy i j : (i < n)%nat -> (j < n)%nat ->
      mmul n Jx_ Jy_ i j -r mmul n Jy_ Jx_ i j = im *r Jz_ i j.
    Proof.
      intros Hi Hj. unfold mmul at 1 2.
      set (c := half *r half *r im).
      rewrite (sumn_ext n (fun k => Jx_ i k *r Jy_ k j)
                 (fun k => c *r (P i k *r M k j) +r ropp c *r (P i k *r P k j)
                           +r c *r (M i k *r M k j) +r ropp c *r (M i k *r P k j)))
        by (intros k _; unfold Jx_, Jy_, c; ring).
      rewrite (sumn_ext n (fun k => Jy_ i k *r Jx_ k j)
                 (fun k => ropp c *r (P i k *r M k j) +r ropp c *r (P i k *r P k j)
                           +r c *r (M i k *r M k j) +r c *r (M i k *r P k j)))
        by (intros k _; unfold Jx_, Jy_, c; ring).
      rewrite !sumn_lin4. fold (mmul n P M i j) (mmul n P P i j) (mmul n M M i j) (mmul n M P i j).
      pose proof (HPM i j Hi Hj) as H. unfold Jz_. rewrite <- H. unfold c.
      transitivity ((half +r half) *r (half *r im *r (mmul n P M i j -r mmul n M P i j))); [ring|].
      rewrite Hhalf. ring.
    Qed.
  End XYZ.
End Alg.

(* ======================================================= qdiags literal flags *)
Lemma forallb_ext {A} (p q : A -> bool) l : (forall x, p x = q x) -> forallb p l = forallb q l.
Proof. intros H. induction l as [|x r IH]; simpl; [reflexivity|now rewrite H, IH]. Qed.

(* the literal flags of qdiags say exactly what holds of the entries:
   Hermitian  <-> every entry equals its conjugate,
   unitary    <-> every entry times its conjugate is 1,
   a single off-diagonal is Hermitian <-> it is entirely zero, never unitary *)
Lemma qdiags_flags_main d :
  qdiags_flags (Flat d) [0] =
  (Some (forallb (fun x => geqb (gconj x) x) d),
   Some (forallb (fun x => geqb (gmul x (gconj x)) (1, 0)) d)).
Proof.
  unfold qdiags_flags, gflat. cbn [Z.eqb negb]. f_equal; f_equal; apply forallb_ext; intros [a b];
    unfold geqb, gconj, gmul; cbn [fst snd].
  - rewrite Z.eqb_refl. cbn [andb]. destruct (b =? 0) eqn:Q.
    + apply Z.eqb_eq in Q. symmetry. apply Z.eqb_eq. lia.
    + apply Z.eqb_neq in Q. symmetry. apply Z.eqb_neq. lia.
  - replace (a * - b + b * a =? 0) with true by (symmetry; apply Z.eqb_eq; lia).
    rewrite andb_true_r. f_equal. lia.
Qed.

Lemma qdiags_flags_offdiagonal d k : k <> 0 ->
  qdiags_flags (Flat d) [k] = (Some (diag_is_zero d), Some false).
Proof.
  intros Hk. unfold qdiags_flags, gflat, diag_is_zero.
  replace (k =? 0) with false by (symmetry; apply Z.eqb_neq; lia). reflexivity.
Qed.

(* ======================================================= gate tables *)
Lemma gate_ok_sound g : gate_ok g = true ->
  gwellformed (g_n g) (g_mat g) = true /\
  (forall b, g_isherm g = Some b ->
     gmat_eqb (g_n g) (g_mat g) (gdag (g_n g) (g_mat g)) = b) /\
  (forall b, g_isunitary g = Some b ->
     gmat_eqb (g_n g) (gmatmul (g_n g) (g_mat g) (gdag (g_n g) (g_mat g)))
              (gscaled_id (g_n g) (g_scale g * g_scale g)) = b).
Proof.
  unfold gate_ok. intros H. apply andb_prop in H as [H H3]. apply andb_prop in H as [H1 H2].
  split; [exact H1|]. split; intros b E; [rewrite E in H2|rewrite E in H3];
    cbn in *; apply eqb_prop in H2 || apply eqb_prop in H3; congruence.
Qed.
