(* Proofs for Model/C13_gen.v *)
From Coq Require Import List ZArith Bool Arith Lia.
Import ListNotations.
From QV Require Import Model.C13 Model.C13_gen.

Lemma nth_set_nth_nat heap k k' v :
  nth k (set_nth_nat heap k' v) 0 =
  if (k =? k') && (k' <? length heap) then v else nth k heap 0.
Proof.
  revert k k'. induction heap as [|h t IH]; intros k k'; simpl.
  - destruct (k =? k'); simpl; destruct k; reflexivity.
  - destruct k' as [|k']; destruct k as [|k]; simpl; try reflexivity. apply IH.
Qed.

Lemma length_set_nth_nat heap k v : length (set_nth_nat heap k v) = length heap.
Proof. revert k; induction heap; intros [|k]; simpl; auto. Qed.

Section Run.
Variable bitgen : option nat.
Variable draws : nat -> nat.

Definition fresh_of (x : rseed) : gobj * nat :=
  match x with RS s => (Fresh bitgen (sid s), 0) | RG r => (Shared r, 0) end.

(* no Generator object in the list: every trajectory gets a new generator made
   from its own seed sequence, nothing is shared, nothing of this process is
   advanced, and in-process and worker-process execution coincide *)
Lemma no_objects xs : forallb (fun x => negb (is_obj x)) xs = true ->
  forall heap j,
    run_serial bitgen draws heap j xs = Some (map fresh_of xs) /\
    run_forked bitgen heap xs = Some (map fresh_of xs).
Proof.
  induction xs as [|x r IH]; intros H heap j; simpl; [split; reflexivity|].
  simpl in H. apply andb_prop in H. destruct H as [Hx Hr].
  destruct x as [s|k]; [|discriminate]. simpl.
  destruct (IH Hr heap (S j)) as [A B]. rewrite A, B. split; reflexivity.
Qed.

(* values task number j0+i and earlier ones listed with object k took from it *)
Fixpoint prior (k : nat) (xs : list rseed) (j : nat) : nat :=
  match xs with
  | [] => 0
  | x :: r => (match x with RG k' => if k' =? k then draws j else 0 | RS _ => 0 end)
              + prior k r (S j)
  end.

(* with a bitgenerator option a Generator object in the list is an error *)
Lemma bitgen_rejects_objects b xs : bitgen = Some b -> existsb is_obj xs = true ->
  forall heap j, run_serial bitgen draws heap j xs = None /\ run_forked bitgen heap xs = None.
Proof.
  intros Hb. induction xs as [|x r IH]; intros H heap j; [discriminate|].
  simpl in H. simpl. destruct x as [s|k]; simpl; rewrite Hb; simpl.
  - simpl in H. rewrite <- Hb. destruct (IH H heap (S j)) as [A B]. rewrite A, B. split; reflexivity.
  - split; reflexivity.
Qed.
End Run.

Lemma serial_start draws : forall xs heap j out i k,
  run_serial None draws heap j xs = Some out ->
  nth_error xs i = Some (RG k) -> k < length heap ->
  nth_error out i = Some (Shared k, nth k heap 0 + prior draws k (firstn i xs) j).
Proof.
  induction xs as [|x r IH]; intros heap j out i k Hrun Hi Hk; [destruct i; discriminate|].
  simpl in Hrun. destruct x as [s|k']; simpl in Hrun.
  - destruct (run_serial None draws heap (S j) r) as [o|] eqn:E; [|discriminate].
    injection Hrun as <-. destruct i as [|i]; [discriminate|]. simpl.
    now rewrite (IH heap (S j) o i k E Hi Hk).
  - destruct (run_serial None draws (set_nth_nat heap k' (nth k' heap 0 + draws j)) (S j) r)
      as [o|] eqn:E; [|discriminate].
    injection Hrun as <-. destruct i as [|i]; simpl.
    + injection Hi as ->. f_equal. f_equal. lia.
    + simpl in Hi.
      rewrite (IH _ (S j) o i k E Hi) by (rewrite length_set_nth_nat; exact Hk).
      f_equal. f_equal. rewrite nth_set_nth_nat.
      destruct (k =? k') eqn:Ek.
      * apply Nat.eqb_eq in Ek. subst k'. rewrite Nat.eqb_refl.
        assert (Hl : (k <? length heap) = true) by (apply Nat.ltb_lt; exact Hk).
        rewrite Hl. simpl. lia.
      * simpl. rewrite Nat.eqb_sym, Ek. lia.
Qed.

Lemma forked_start : forall xs heap out i k,
  run_forked None heap xs = Some out ->
  nth_error xs i = Some (RG k) -> nth_error out i = Some (Shared k, nth k heap 0).
Proof.
  induction xs as [|x r IH]; intros heap out i k Hrun Hi; [destruct i; discriminate|].
  simpl in Hrun. destruct x as [s|k']; simpl in Hrun;
    destruct (run_forked None heap r) as [o|] eqn:E; try discriminate;
    injection Hrun as <-; destruct i as [|i]; simpl in *; try discriminate.
  - now apply (IH heap o i k).
  - injection Hi as ->. reflexivity.
  - now apply (IH heap o i k).
Qed.


(* a Generator object listed twice: in this process the second trajectory
   continues where the first stopped, in worker processes both start at the
   same place - and listing it first or second matters *)
Lemma object_items_order_and_map_matter :
  run_serial None (fun _ => 3) [5] 0 [RG 0; RG 0] <> run_forked None [5] [RG 0; RG 0] /\
  run_serial None (fun j => S j) [0] 0 [RG 0; RS (fresh 1); RG 0] =
    Some [(Shared 0, 0); (Fresh None (1%Z, []), 0); (Shared 0, 1)].
Proof. vm_compute. split; [discriminate|reflexivity]. Qed.
