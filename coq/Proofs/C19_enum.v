(* Proofs for C19, part 2: state_number_enumerate produces exactly the
   multi-indices within dims and depth, in lexicographic order, once each. *)
From Coq Require Import List ZArith Bool Arith Lia.
Import ListNotations.
From QV Require Import Model.C19 Proofs.C19.

(* ------------------------------------------------- the reference enumeration *)
Fixpoint enum_spec (dims : list nat) (D : nat) : list label :=
  match dims with
  | [] => [[]]
  | d :: ds => flat_map (fun a => map (cons a) (enum_spec ds (D - a)))
                        (seq 0 (Nat.min d (D + 1)))
  end.

Lemma enum_spec_iff dims D s : In s (enum_spec dims D) <-> valid2 dims D s.
Proof.
  revert D s. induction dims as [|d ds IH]; intros D s; simpl.
  - unfold valid2. split.
    + intros [H|[]]. subst. split; [constructor|simpl; lia].
    + intros [H _]. inversion H. now left.
  - rewrite in_flat_map. unfold valid2. split.
    + intros (a & Ha & Hs). apply in_seq in Ha. apply in_map_iff in Hs.
      destruct Hs as (t & <- & Ht). apply IH in Ht. destruct Ht as [H1 H2].
      split; [constructor; [lia|assumption]|simpl; lia].
    + intros [H1 H2]. inversion H1 as [|a d' t ds' Hlt HF]; subst.
      simpl in H2. exists a. split; [apply in_seq; lia|].
      apply in_map. apply IH. split; [assumption|lia].
Qed.

Lemma NoDup_app_disj {A} (l1 l2 : list A) :
  NoDup l1 -> NoDup l2 -> (forall x, In x l1 -> ~ In x l2) -> NoDup (l1 ++ l2).
Proof.
  induction l1 as [|a l1 IH]; intros N1 N2 Hd; simpl; [assumption|].
  inversion N1; subst. constructor.
  - rewrite in_app_iff. intros [H|H]; [contradiction|]. apply (Hd a); simpl; auto.
  - apply IH; try assumption. intros x Hx. apply Hd. now right.
Qed.

Lemma NoDup_map_cons (a : nat) (l : list label) : NoDup l -> NoDup (map (cons a) l).
Proof.
  induction 1 as [|x l Hx ND IH]; simpl; constructor; [|assumption].
  rewrite in_map_iff. intros (y & Hy & Hin). inversion Hy; subst. contradiction.
Qed.

Lemma NoDup_flat_cons (f : nat -> list label) (xs : list nat) :
  NoDup xs -> (forall a, NoDup (f a)) ->
  NoDup (flat_map (fun a => map (cons a) (f a)) xs).
Proof.
  induction 1 as [|a xs Ha ND IH]; intros Hf; simpl; [constructor|].
  apply NoDup_app_disj.
  - apply NoDup_map_cons, Hf.
  - now apply IH.
  - intros x Hx Hx2. apply in_map_iff in Hx. destruct Hx as (t & <- & _).
    apply in_flat_map in Hx2. destruct Hx2 as (b & Hb & Hin).
    apply in_map_iff in Hin. destruct Hin as (t' & E & _). inversion E; subst.
    contradiction.
Qed.

Lemma enum_spec_NoDup dims D : NoDup (enum_spec dims D).
Proof.
  revert D. induction dims as [|d ds IH]; intros D; simpl.
  - constructor; [intros []|constructor].
  - apply (NoDup_flat_cons (fun a => enum_spec ds (D - a))).
    + apply seq_NoDup.
    + intros a. apply IH.
Qed.

Definition prod (l : list nat) : nat := fold_right Nat.mul 1 l.

Lemma length_flat_map_le {A B} (f : A -> list B) (xs : list A) (n : nat) :
  (forall a, length (f a) <= n) -> length (flat_map f xs) <= length xs * n.
Proof.
  intros H. induction xs as [|a xs IH]; simpl; [lia|].
  rewrite app_length. specialize (H a). lia.
Qed.

Lemma enum_spec_length dims D : length (enum_spec dims D) <= prod dims.
Proof.
  revert D. induction dims as [|d ds IH]; intros D; simpl; [lia|].
  etransitivity.
  - apply (length_flat_map_le _ _ (prod ds)). intros a. rewrite map_length. apply IH.
  - rewrite seq_length. apply Nat.mul_le_mono_r. lia.
Qed.

Lemma prod_le_fuel dims : prod dims <= sne_fuel dims.
Proof.
  unfold sne_fuel. induction dims as [|d ds IH]; simpl; [lia|].
  fold (prod ds) in *. nia.
Qed.

(* --------------------------------------- recursive successor and the carry *)
Fixpoint rsucc (dims : list nat) (D : nat) (s : label) : option label :=
  match dims, s with
  | d :: ds, a :: t =>
      match rsucc ds (D - a) t with
      | Some t' => Some (a :: t')
      | None => if (a + 1 <? d) && (a + 1 <=? D)
                then Some ((a + 1) :: repeat 0 (length ds)) else None
      end
  | _, _ => None
  end.

(* result of the carry loop entered at position |p| on p ++ x :: 0^m,
   computed from the left *)
Fixpoint carryL (dims : list nat) (D : nat) (p : list nat) (x m : nat) : option label :=
  match p, dims with
  | [], d :: _ => if (x <? d) && (x <=? D) then Some (x :: repeat 0 m) else None
  | a :: p', d :: ds =>
      match carryL ds (D - a) p' x m with
      | Some r => Some (a :: r)
      | None => if (a + 1 <? d) && (a + 1 <=? D)
                then Some ((a + 1) :: repeat 0 (length p' + 1 + m)) else None
      end
  | _, [] => None
  end.

Lemma rsucc_carryL dims D p a :
  length dims = length p + 1 -> rsucc dims D (p ++ [a]) = carryL dims D p (a + 1) 0.
Proof.
  revert dims D. induction p as [|b p IH]; intros [|d ds] D Hl; simpl in Hl; try lia.
  - destruct ds; [|simpl in Hl; lia]. simpl. reflexivity.
  - simpl. rewrite IH by lia.
    replace (length p + 1 + 0) with (length ds) by lia. reflexivity.
Qed.

Lemma carryL_snoc dims D q y x m :
  lsum q + y <= D ->
  carryL dims D (q ++ [y]) x m =
  if (x <? nth (length q + 1) dims 0) && (lsum q + y + x <=? D)
  then Some (q ++ y :: x :: repeat 0 m)
  else carryL dims D q (y + 1) (m + 1).
Proof.
  revert dims D. induction q as [|b q IH]; intros dims D HD; simpl in HD.
  - simpl. destruct dims as [|d ds]; [simpl; now destruct (x <? 0)|].
    simpl. destruct ds as [|d' ds'].
    + simpl. replace (x <? 0) with false by (symmetry; apply Nat.ltb_ge; lia).
      simpl. replace (m + 1) with (S m) by lia. replace (0 + 1 + m) with (S m) by lia.
      reflexivity.
    + simpl.
      replace (x <=? D - y) with (y + x <=? D).
      2:{ destruct (y + x <=? D) eqn:E1; symmetry;
          [apply Nat.leb_le in E1; apply Nat.leb_le; lia
          |apply Nat.leb_gt in E1; apply Nat.leb_gt; lia]. }
      destruct ((x <? d') && (y + x <=? D)); [reflexivity|].
      replace (m + 1) with (S m) by lia. reflexivity.
  - destruct dims as [|d ds]; [simpl; now destruct (x <? 0)|].
    simpl. rewrite IH by lia.
    replace (lsum q + y + x <=? D - b) with (b + lsum q + y + x <=? D).
    2:{ destruct (b + lsum q + y + x <=? D) eqn:E1; symmetry;
        [apply Nat.leb_le in E1; apply Nat.leb_le; lia
        |apply Nat.leb_gt in E1; apply Nat.leb_gt; lia]. }
    destruct ((x <? nth (length q + 1) ds 0) && (b + lsum q + y + x <=? D));
      [reflexivity|].
    rewrite app_length. simpl.
    replace (length q + 1 + 1 + m) with (length q + 1 + (m + 1)) by lia. reflexivity.
Qed.

Lemma firstn_app_len {A} (p r : list A) : firstn (length p) (p ++ r) = p.
Proof. induction p; simpl; [now destruct r|now f_equal]. Qed.

Lemma skipn_app_len {A} (p r : list A) : skipn (length p) (p ++ r) = r.
Proof. induction p; simpl; auto. Qed.

Lemma nth_app_len (p r : list nat) : nth (length p) (p ++ r) 0 = nth 0 r 0.
Proof. induction p; simpl; auto. Qed.

Lemma skipn_app_len2 {A} (q : list A) y x r : skipn (length q + 2) (q ++ y :: x :: r) = r.
Proof. induction q; simpl; auto. Qed.

Lemma carry_upd_snoc q y x m :
  carry_upd (q ++ y :: x :: repeat 0 m) (length q) = q ++ (y + 1) :: repeat 0 (m + 1).
Proof.
  unfold carry_upd. rewrite firstn_app_len, nth_app_len, skipn_app_len2. simpl.
  replace (m + 1) with (S m) by lia. reflexivity.
Qed.

Lemma carry_0 dims D st nexc :
  carry dims D 0 st nexc =
  if (D <? nexc) || (nth 0 dims 0 <=? nth 0 st 0) then None else Some (st, nexc).
Proof. reflexivity. Qed.

Lemma carry_S dims D i st nexc :
  carry dims D (S i) st nexc =
  if (D <? nexc) || (nth (S i) dims 0 <=? nth (S i) st 0)
  then carry dims D i (carry_upd st i) (nexc - (nth (S i) st 0 - 1))
  else Some (st, nexc).
Proof. reflexivity. Qed.

Lemma cond_neg D nexc d x :
  ((D <? nexc) || (d <=? x)) = negb ((x <? d) && (nexc <=? D)).
Proof.
  destruct (Nat.ltb_spec D nexc), (Nat.leb_spec d x), (Nat.ltb_spec x d),
    (Nat.leb_spec nexc D); simpl; try reflexivity; lia.
Qed.

Lemma carryL_nil dims D x m :
  carryL dims D [] x m =
  if (x <? nth 0 dims 0) && (x <=? D) then Some (x :: repeat 0 m) else None.
Proof. destruct dims; simpl; [now destruct (x <? 0)|reflexivity]. Qed.

Lemma nth_snoc_mid q (y x : nat) r : nth (S (length q)) (q ++ y :: x :: r) 0 = x.
Proof. induction q; simpl; auto. Qed.

Lemma carry_carryL dims D p x m :
  1 <= x -> lsum p <= D ->
  carry dims D (length p) (p ++ x :: repeat 0 m) (lsum p + x) =
  option_map (fun r => (r, lsum r)) (carryL dims D p x m).
Proof.
  revert x m. induction p as [|y q IH] using rev_ind; intros x m Hx HD.
  - change (length (@nil nat)) with 0. rewrite carry_0, carryL_nil.
    change (nth 0 ([] ++ x :: repeat 0 m) 0) with x.
    change (lsum [] + x) with x.
    rewrite cond_neg.
    destruct ((x <? nth 0 dims 0) && (x <=? D)); simpl; [|reflexivity].
    rewrite lsum_repeat0. f_equal. f_equal. lia.
  - rewrite lsum_app in HD. simpl in HD.
    rewrite carryL_snoc by lia.
    rewrite app_length. simpl length. replace (length q + 1) with (S (length q)) by lia.
    rewrite carry_S.
    replace ((q ++ [y]) ++ x :: repeat 0 m) with (q ++ y :: x :: repeat 0 m)
      by (rewrite <- app_assoc; reflexivity).
    rewrite nth_snoc_mid. rewrite lsum_app. simpl lsum.
    replace (lsum q + (y + 0) + x) with (lsum q + y + x) by lia.
    rewrite cond_neg.
    destruct ((x <? nth (S (length q)) dims 0) && (lsum q + y + x <=? D)); simpl.
    + rewrite !lsum_app. simpl. rewrite lsum_repeat0. f_equal. f_equal. lia.
    + rewrite carry_upd_snoc.
      replace (lsum q + y + x - (x - 1)) with (lsum q + (y + 1)) by lia.
      apply IH; lia.
Qed.

(* one step of the generator on a label of the right length whose sum is
   within depth: it is the recursive successor *)
Lemma sne_step_rsucc dims D s :
  dims <> [] -> length s = length dims -> lsum s <= D ->
  sne_step dims D s (lsum s) = option_map (fun r => (r, lsum r)) (rsucc dims D s).
Proof.
  intros Hne Hl HD.
  destruct (exists_last (l := s)) as (p & a & ->).
  { intros ->. destruct dims; [congruence|discriminate]. }
  rewrite app_length in Hl. simpl in Hl.
  unfold sne_step. replace (length dims - 1) with (length p) by lia.
  unfold bump_last. rewrite firstn_app_len, nth_app_len. simpl.
  rewrite lsum_app in *. simpl in *.
  replace (lsum p + (a + 0) + 1) with (lsum p + (a + 1)) by lia.
  change (p ++ [a + 1]) with (p ++ (a + 1) :: repeat 0 0).
  rewrite carry_carryL by lia.
  rewrite rsucc_carryL by lia. reflexivity.
Qed.

(* ----------------------------------------- chains of successors = enum_spec *)
Inductive Chain (dims : list nat) (D : nat) : label -> list label -> Prop :=
| Chain_last s : rsucc dims D s = None -> Chain dims D s [s]
| Chain_cons s s' l : rsucc dims D s = Some s' -> Chain dims D s' l ->
                      Chain dims D s (s :: l).

Lemma chain_cons_map d ds D a t l :
  Chain ds (D - a) t l ->
  (if (a + 1 <? d) && (a + 1 <=? D)
   then forall l2, Chain (d :: ds) D ((a + 1) :: repeat 0 (length ds)) l2 ->
                   Chain (d :: ds) D (a :: t) (map (cons a) l ++ l2)
   else Chain (d :: ds) D (a :: t) (map (cons a) l)).
Proof.
  induction 1 as [s Hs|s s' l Hs Hc IH].
  - destruct ((a + 1 <? d) && (a + 1 <=? D)) eqn:E.
    + intros l2 H2. simpl. apply Chain_cons with (s' := (a + 1) :: repeat 0 (length ds)).
      * simpl. rewrite Hs, E. reflexivity.
      * assumption.
    + simpl. apply Chain_last. simpl. rewrite Hs, E. reflexivity.
  - destruct ((a + 1 <? d) && (a + 1 <=? D)) eqn:E.
    + intros l2 H2. simpl. apply Chain_cons with (s' := a :: s').
      * simpl. rewrite Hs. reflexivity.
      * apply IH. assumption.
    + simpl. apply Chain_cons with (s' := a :: s').
      * simpl. rewrite Hs. reflexivity.
      * assumption.
Qed.

Lemma chain_enum dims D :
  Forall (fun d => 1 <= d) dims ->
  Chain dims D (repeat 0 (length dims)) (enum_spec dims D).
Proof.
  revert D. induction dims as [|d ds IH]; intros D Hpos.
  - simpl. apply Chain_last. reflexivity.
  - inversion Hpos as [|d' ds' Hd Hds]; subst.
    set (F := fun a => map (cons a) (enum_spec ds (D - a))).
    assert (Hgen : forall n a, a + n = Nat.min d (D + 1) -> 1 <= n ->
               Chain (d :: ds) D (a :: repeat 0 (length ds)) (flat_map F (seq a n))).
    { induction n as [|n IHn]; intros a Ha Hn; [lia|].
      simpl. pose proof (chain_cons_map d ds D a _ _ (IH (D - a) Hds)) as Hc.
      destruct ((a + 1 <? d) && (a + 1 <=? D)) eqn:E.
      - apply andb_true_iff in E. destruct E as [E1 E2].
        apply Nat.ltb_lt in E1. apply Nat.leb_le in E2.
        apply Hc. replace (S a) with (a + 1) by lia. apply IHn; lia.
      - assert (n = 0).
        { apply andb_false_iff in E. destruct E as [E|E];
            [apply Nat.ltb_ge in E|apply Nat.leb_gt in E]; lia. }
        subst n. simpl. rewrite app_nil_r. exact Hc. }
    simpl. apply Hgen; lia.
Qed.

Lemma run_chain dims D s l fuel :
  dims <> [] -> Chain dims D s l -> (forall x, In x l -> valid2 dims D x) ->
  length l <= fuel -> sne_run fuel dims D s (lsum s) = l.
Proof.
  intros Hne Hc. revert fuel. induction Hc as [s Hs|s s' l Hs Hc IH]; intros fuel Hv Hf.
  - destruct fuel as [|f]; [simpl in Hf; lia|]. simpl.
    destruct (Hv s (or_introl eq_refl)) as [V1 V2].
    rewrite sne_step_rsucc; try assumption.
    + rewrite Hs. reflexivity.
    + apply Forall2_lt_nth in V1. destruct V1 as [V1 _]. assumption.
  - destruct fuel as [|f]; [simpl in Hf; lia|]. simpl.
    destruct (Hv s (or_introl eq_refl)) as [V1 V2].
    rewrite sne_step_rsucc; try assumption.
    + rewrite Hs. simpl. f_equal. apply IH.
      * intros x Hx. apply Hv. now right.
      * simpl in Hf. lia.
    + apply Forall2_lt_nth in V1. destruct V1 as [V1 _]. assumption.
Qed.

(* the enumeration is the reference enumeration (empty dims included) *)
Theorem sne_enum dims D :
  Forall (fun d => 1 <= d) dims -> sne dims D = Some (enum_spec dims D).
Proof.
  intros Hpos. unfold sne. destruct dims as [|d ds]; [reflexivity|].
  f_equal.
  replace 0 with (lsum (repeat 0 (length (d :: ds)))) at 2 by apply lsum_repeat0.
  apply run_chain.
  - discriminate.
  - apply chain_enum. assumption.
  - intros x Hx. now apply enum_spec_iff.
  - etransitivity; [apply enum_spec_length|apply prod_le_fuel].
Qed.

Lemma sne_empty D : sne [] D = Some [[]].
Proof. reflexivity. Qed.

Lemma sne_before_fix_empty D : sne_before_fix [] D = None.
Proof. reflexivity. Qed.

(* ----------------------------------------------------- lexicographic order *)
Fixpoint lex_lt (a b : label) : Prop :=
  match a, b with
  | x :: a', y :: b' => x < y \/ (x = y /\ lex_lt a' b')
  | _, _ => False
  end.

Fixpoint sorted_lex (l : list label) : Prop :=
  match l with
  | [] => True
  | a :: t => (forall b, In b t -> lex_lt a b) /\ sorted_lex t
  end.

Lemma sorted_lex_app l1 l2 :
  sorted_lex l1 -> sorted_lex l2 -> (forall a b, In a l1 -> In b l2 -> lex_lt a b) ->
  sorted_lex (l1 ++ l2).
Proof.
  induction l1 as [|a l1 IH]; intros S1 S2 H; simpl; [assumption|].
  destruct S1 as [Sa S1]. split.
  - intros b Hb. apply in_app_iff in Hb. destruct Hb as [Hb|Hb]; [now apply Sa|].
    apply H; simpl; auto.
  - apply IH; try assumption. intros x y Hx Hy. apply H; simpl; auto.
Qed.

Lemma sorted_lex_map_cons a l : sorted_lex l -> sorted_lex (map (cons a) l).
Proof.
  induction l as [|x l IH]; simpl; [trivial|]. intros [Hx Hs]. split; [|now apply IH].
  intros b Hb. apply in_map_iff in Hb. destruct Hb as (y & <- & Hy). simpl. right.
  split; [reflexivity|now apply Hx].
Qed.

Lemma enum_spec_sorted dims D : sorted_lex (enum_spec dims D).
Proof.
  revert D. induction dims as [|d ds IH]; intros D; simpl; [tauto|].
  generalize (Nat.min d (D + 1)) as n. generalize 0 as a.
  intros a n. revert a. induction n as [|n IHn]; intros a; simpl; [trivial|].
  apply sorted_lex_app.
  - apply sorted_lex_map_cons, IH.
  - apply IHn.
  - intros x y Hx Hy. apply in_map_iff in Hx. destruct Hx as (t & <- & _).
    apply in_flat_map in Hy. destruct Hy as (b & Hb & Hy). apply in_seq in Hb.
    apply in_map_iff in Hy. destruct Hy as (t' & <- & _). simpl. left. lia.
Qed.

(* depth 0: only the zero label *)
Lemma enum_spec_depth0 dims :
  Forall (fun d => 1 <= d) dims -> enum_spec dims 0 = [repeat 0 (length dims)].
Proof.
  induction 1 as [|d ds Hd Hds IH]; simpl; [reflexivity|].
  replace (Nat.min d 1) with 1 by lia. simpl. rewrite IH. reflexivity.
Qed.
