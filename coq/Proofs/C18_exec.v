(* C18 - (a) the iteration counter of _steadystate_power, (b) concrete
   Gaussian-integer witnesses evaluated by vm_compute on the executable model *)
From mathcomp Require Import all_ssreflect.
From Coq Require Import ZArith.
From QV Require Import Model.C18.

Set Implicit Arguments.
Unset Strict Implicit.
Unset Printing Implicit Defensive.

(* ---------------------------------------------------------------- power loop *)
Section PowerLoop.
Variable maxiter : nat.
Variable conv : nat -> bool.

Lemma power_loop_inv fuel it :
  it <= maxiter -> maxiter <= it + fuel ->
  (forall j, j < it -> ~~ conv j) ->
  let r := power_loop fuel maxiter it conv in
  [/\ it <= r, r <= maxiter, (forall j, j < r -> ~~ conv j) & (r < maxiter -> conv r)].
Proof.
elim: fuel it => [|fuel IH] it le ge pre /=.
  have E : it = maxiter by apply/eqP; rewrite eqn_leq le -[it]addn0 ge.
  by rewrite E in pre *; split=> //; rewrite ltnn.
case: ifP => [/andP[lt nc]|F].
- have [] := IH it.+1 lt _ _; rewrite ?addSnnS //.
    by move=> j; rewrite ltnS leq_eqVlt => /orP[/eqP->//|/pre].
  by move=> a b c d; split=> //; apply: ltnW.
- split=> // lt; move: F; rewrite lt /= => /negbFE. by [].
Qed.

Lemma power_loop_spec :
  let r := power_loop maxiter maxiter 0 conv in
  [/\ r <= maxiter, (forall j, j < r -> ~~ conv j) & (r < maxiter -> conv r)].
Proof.
have pre : forall j, j < 0 -> ~~ conv j by [].
by have [] := power_loop_inv (leq0n maxiter) (leqnn _) pre.
Qed.

(* a returned iteration count is the first index at which the test passes *)
Lemma power_result_some k :
  power_result maxiter conv = Some k ->
  [/\ k <= maxiter, conv k & forall j, j < k -> ~~ conv j].
Proof.
rewrite /power_result; have [le pre cv] := power_loop_spec.
rewrite /=; case: ifP => // F [] <-; split=> //.
move: F; case: (leqP maxiter (power_loop _ _ _ _)) => [_ /= /negbFE //|lt _].
exact: cv.
Qed.

(* the function raises exactly when the test fails at every iterate
   0 .. maxiter (the state after the last allowed solve included) *)
Lemma power_result_none :
  power_result maxiter conv = None <-> (forall j, j <= maxiter -> ~~ conv j).
Proof.
rewrite /power_result; have [le pre cv] := power_loop_spec.
rewrite /=; split.
- case: ifP => // /andP[ge nc] _ j; rewrite leq_eqVlt => /orP[/eqP->|lt].
    by have -> : maxiter = power_loop maxiter maxiter 0 conv by apply/eqP; rewrite eqn_leq ge le.
  by apply: pre; exact: leq_trans lt ge.
- move=> H; case: ifP => //; rewrite (H _ le) andbT => /negbT; rewrite -ltnNge => lt.
  by move: (H _ le); rewrite cv.
Qed.

End PowerLoop.

(* the iterate produced by the last allowed solve is accepted *)
Lemma power_maxiter_accepts_last maxiter conv :
  conv maxiter = true -> power_result maxiter conv <> None.
Proof.
by move=> c /power_result_none /(_ maxiter (leqnn _)); rewrite c.
Qed.

(* -------------------------------------------------- svd witness (3 levels) *)
(* H = [[0,0,0],[0,0,i],[0,-i,1]], c_ops = |1><0|, |1><2|;  wL = 2 * liouvillian
   (column stacking), wv = (1+i) * vec([[0,0,0],[0,9,-2-4i],[0,-2+4i,4]]) *)
Local Open Scope Z_scope.
Definition wL : seq (seq GZ) :=
[:: [:: (-2, 0); (0, 0); (0, 0); (0, 0); (0, 0); (0, 0); (0, 0); (0, 0); (0, 0)];
 [:: (0, 0); (-1, 0); (2, 0); (0, 0); (0, 0); (0, 0); (0, 0); (0, 0); (0, 0)];
 [:: (0, 0); (-2, 0); (-2, -2); (0, 0); (0, 0); (0, 0); (0, 0); (0, 0); (0, 0)];
 [:: (0, 0); (0, 0); (0, 0); (-1, 0); (0, 0); (0, 0); (2, 0); (0, 0); (0, 0)];
 [:: (2, 0); (0, 0); (0, 0); (0, 0); (0, 0); (2, 0); (0, 0); (2, 0); (2, 0)];
 [:: (0, 0); (0, 0); (0, 0); (0, 0); (-2, 0); (-1, -2); (0, 0); (0, 0); (2, 0)];
 [:: (0, 0); (0, 0); (0, 0); (-2, 0); (0, 0); (0, 0); (-2, 2); (0, 0); (0, 0)];
 [:: (0, 0); (0, 0); (0, 0); (0, 0); (-2, 0); (0, 0); (0, 0); (-1, 2); (2, 0)];
 [:: (0, 0); (0, 0); (0, 0); (0, 0); (0, 0); (-2, 0); (0, 0); (-2, 0); (-2, 0)]].
Definition wv : seq GZ :=
[:: (0, 0); (0, 0); (0, 0); (0, 0); (9, 9); (-6, 2); (0, 0); (2, -6); (4, 4)].
Local Close Scope Z_scope.

Definition gz13r : GZ := (13%Z, 0%Z).
Definition gz13c : GZ := (13%Z, 13%Z).
Definition gz_adjoint_tab n (M : seq (seq GZ)) := tab_mx n n (adjoint gzcj (of_rows M)).

(* 13 * rho_ss of the witness system (Hermitian, trace 13) *)
Local Open Scope Z_scope.
Definition wrho : seq (seq GZ) :=
[:: [:: (0, 0); (0, 0); (0, 0)]; [:: (0, 0); (9, 0); (-2, -4)]; [:: (0, 0); (-2, 4); (4, 0)]].
Definition gz1i : GZ := (1, 1).
Local Close Scope Z_scope.

(* the null vector wv = (1+i) * vec(13 rho_ss) of non-real trace is now divided
   by its trace 13+13i = (1+i)*13: the result is rho_ss, Hermitian, trace one *)
Lemma svd_witness :
  [/\ gz_is_zero_vec (gz_mulv 9 wL wv) = true,
      (gz_svd_post 3 wv).2 = gzmul gz1i gz13r,
      (gz_svd_post 3 wv).1 = map (map (gzmul gz1i)) wrho
    & gz_adjoint_tab 3 wrho = wrho /\ ftr gz0 gzadd 3 (of_rows wrho) = gz13r].
Proof. by split; vm_compute. Qed.

(* the trace row of the same generator vanishes (it is a Liouvillian) *)
Lemma svd_witness_tp :
  gz_is_zero_vec
    (tab_vec 9 (fun j => fsum gz0 gzadd 9 (fun i => gzmul (stack 3 (fid gz0 gz1) i) (of_rows wL i j)))) = true.
Proof. by vm_compute. Qed.

(* qubit with decay: 2*liouvillian(0,[sigmam]) *)
Local Open Scope Z_scope.
Definition exL : seq (seq GZ) :=
  [:: [:: (-2,0); (0,0); (0,0); (0,0)]; [:: (0,0); (-1,0); (0,0); (0,0)];
      [:: (0,0); (0,0); (-1,0); (0,0)]; [:: (2,0); (0,0); (0,0); (0,0)]].
Definition gz3 : GZ := (3, 0).
Definition gz2 : GZ := (2, 0).
Local Close Scope Z_scope.
Definition exec_example_stmt : Prop :=
  let '(L3, b3, _) := gz_direct_system 2 gz3 exL None (Some [:: 2; 0; 3; 1]) in
  gz_mulv 4 L3 [:: gz0; gz0; gz1; gz0] = b3
  /\ gz_direct_post2 2 [:: gz0; gz0; gz1; gz0] (Some (argsort [:: 2; 0; 3; 1]))
     = [:: [:: gz0; gz0]; [:: gz0; gz2]].
Lemma exec_example : exec_example_stmt.
Proof. by vm_compute. Qed.

(* pseudo_inverse, RCM route, on the executable model: A = identity, so the
   permuted system A' X' = Q' is solved by X' = Q'; after un-permuting, the
   result is Q Q, whatever the permutation *)
Local Open Scope Z_scope.
Definition ex_rho : seq (seq GZ) := [:: [:: (1, 0); (2, -1)]; [:: (0, 3); (0, 0)]].
Local Close Scope Z_scope.
Definition ex_perm : seq nat := [:: 2; 0; 3; 1].
Definition pinv_rcm_example_stmt : Prop :=
  let Q := pinv_Q gz0 gz1 gzadd gzmul gzopp 2 (of_rows ex_rho) in
  let Q' := perm_full ex_perm ex_perm Q in
  tab_mx 4 4 (pinv_rcm_R gz0 gzadd gzmul 4 ex_perm Q' Q')
  = tab_mx 4 4 (fmulmx gz0 gzadd gzmul 4 Q Q)
  /\ tab_mx 4 4 (fmulmx gz0 gzadd gzmul 4 (perm_full ex_perm ex_perm (fid gz0 gz1)) Q') = tab_mx 4 4 Q'.
Lemma pinv_rcm_example : pinv_rcm_example_stmt.
Proof. by vm_compute. Qed.

(* ---------------------------------------------------- solver result dispatch *)
Lemma solve_dispatch_iterative x c y :
  solve_dispatch (STup x [:: c]) = SRet y -> c = 0%Z /\ y = x.
Proof.
rewrite /solve_dispatch; case E: (Z.eqb c 0); last by case: (Z.ltb 0 c).
by case=> <-; split=> //; apply/Z.eqb_eq.
Qed.

Lemma solve_dispatch_iterative_raises x c :
  c <> 0%Z -> exists k, solve_dispatch (STup x [:: c]) = SRaiseTol k \/
                        solve_dispatch (STup x [:: c]) = SRaiseBad k.
Proof.
move=> /Z.eqb_neq E; rewrite /solve_dispatch E.
by exists c; case: (Z.ltb 0 c); [left|right].
Qed.

Lemma solve_dispatch_payload r y : solve_dispatch r = SRet y ->
  match r with SArr x => y = x | STup x _ => y = x end.
Proof.
case: r => [x|x [|c [|d rest]]] /=; try by case.
by case: (Z.eqb c 0); [case|case: (Z.ltb 0 c)].
Qed.

Definition solve_dispatch_example_stmt : Prop :=
  [/\ solve_dispatch (STup 7 [:: 0%Z]) = SRet 7,
      solve_dispatch (STup 7 [:: 3%Z]) = SRaiseTol 3,
      solve_dispatch (STup 7 [:: (-10)%Z]) = SRaiseBad (-10)
    & solve_dispatch (STup 7 [:: 7%Z; 200%Z; 1%Z]) = SRet 7 /\ solve_dispatch (SArr 5) = SRet 5].
Lemma solve_dispatch_example : solve_dispatch_example_stmt.
Proof. by []. Qed.
