(* C18 - the permuted systems are EQUIVALENT to the original one, for every
   permutation the matching / RCM oracles may return (both directions). *)
From mathcomp Require Import all_ssreflect all_algebra.
From mathcomp Require Import mxtens.
From QV Require Import Base.MxHerm Model.C18 Proofs.C18 Proofs.C18_bridge Proofs.C18_perm.

Set Implicit Arguments.
Unset Strict Implicit.
Unset Printing Implicit Defensive.
Import GRing.Theory.

Section Equiv.
Variable R : fieldType.
Local Open Scope ring_scope.
Variable N : nat.
Local Notation mulv := (@fmulv R 0 +%R *%R N).
Implicit Types (L : fmx R) (x y b : fvec R) (p : seq nat).

Lemma index_lt p i : is_perm N p -> (i < N)%N -> (index i p < N)%N.
Proof. by move=> H iN; rewrite -(is_perm_size H) index_mem (is_perm_mem _ H). Qed.

(* P L P^T (P x) = P b  <->  L x = b *)
Lemma perm_full_solves p L x b : is_perm N p ->
  solves N (perm_full p p L) (perm_rows p x) (perm_rows p b) <-> solves N L x b.
Proof.
move=> H; split=> S i iN.
- have [k kN <-] := index_onto H iN.
  by have := S k kN; rewrite perm_full_mulv.
- by rewrite perm_full_mulv // /perm_rows S // index_lt.
Qed.

Lemma solves_ext L x y b : (forall k, (k < N)%N -> x k = y k) ->
  solves N L x b <-> solves N L y b.
Proof.
move=> E; split=> S i iN.
- by rewrite -(@mulv_ext R N L x y i E) S.
- by rewrite (@mulv_ext R N L x y i E) S.
Qed.

Lemma rcm_equiv r L b y :
  is_perm N r ->
  let '(L', b', perm) := permute_rcm r L b in
  solves N L' y b' <-> solves N L (reverse_rcm y perm) b.
Proof.
move=> Hr /=; set perm := argsort r.
have Hp : is_perm N perm by apply: argsort_perm.
rewrite -(perm_full_solves L (reverse_rcm y perm) b Hp).
by apply: solves_ext => k kN; rewrite (permute_reverse _ Hp).
Qed.

Lemma wbm_equiv m L b x :
  is_perm N m ->
  let '(L', b') := permute_wbm m L b in
  solves N L' x b' <-> solves N L x b.
Proof.
move=> Hm /=; set perm := argsort m.
have Hp : is_perm N perm by apply: argsort_perm.
split=> S i iN.
- have [k kN <-] := index_onto Hp iN.
  by have := S k kN; rewrite /perm_rows_mx /perm_rows /fmulv.
- by have := S _ (index_lt Hp iN); rewrite /perm_rows_mx /perm_rows /fmulv.
Qed.

End Equiv.

Section DirectEquiv.
Variable R : fieldType.
Local Open Scope ring_scope.
Variable n' : nat.
Local Notation n := n'.+1.
Local Notation NN := (n * n)%N.

(* what the solver is handed is equivalent to the un-permuted modified system *)
Lemma direct_system_equiv (w : R) (Lf : fmx R) wbm rcm (y : fvec R) :
  opt_perm n' wbm -> opt_perm n' rcm ->
  let '(L3, b3, perm) := direct_system 0 1 +%R *%R n w Lf wbm rcm in
  solves NN L3 y b3 <->
  solves NN (direct_L 0 1 +%R *%R n w Lf)
         (match perm with Some p => reverse_rcm y p | None => y end)
         (direct_b 0 w).
Proof.
rewrite /direct_system.
case: wbm => [m|] Hm; case: rcm => [r|] Hr /=.
- have := @rcm_equiv R NN r (perm_rows_mx (argsort m) (direct_L 0 1 +%R *%R n w Lf))
            (perm_rows (argsort m) (direct_b 0 w)) y Hr.
  rewrite /permute_rcm => ->.
  by have := @wbm_equiv R NN m (direct_L 0 1 +%R *%R n w Lf) (direct_b 0 w)
       (reverse_rcm y (argsort r)) Hm; rewrite /permute_wbm.
- by have := @wbm_equiv R NN m (direct_L 0 1 +%R *%R n w Lf) (direct_b 0 w) y Hm; rewrite /permute_wbm.
- by have := @rcm_equiv R NN r (direct_L 0 1 +%R *%R n w Lf) (direct_b 0 w) y Hr; rewrite /permute_rcm.
- by [].
Qed.

End DirectEquiv.
