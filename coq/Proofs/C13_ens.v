(* Proofs for C13, the ensemble: seeds -> tasks -> parallel map (C14) ->
   MultiTrajResult.add. *)
From Coq Require Import List ZArith Bool Arith Lia Permutation.
Import ListNotations.
From QV Require Import Model.C14 Proofs.C14 Model.C13.

Arguments r_seeds {TR}. Arguments r_trajs {TR}. Arguments r_coll {TR}. Arguments r_sum {TR}.
Arguments r_num {TR}.

Lemma mkgen_sid s s' : sid s = sid s' -> mkgen s = mkgen s'.
Proof. unfold mkgen. now intros ->. Qed.

(* ---- a worker runs its tasks one after the other on one integrator *)
Section Workers.
Variables Sg TR : Type.
Variable run_one : Sg -> sseq -> TR * Sg.
Variable Inv : Sg -> Prop.
Variable traj : seedid -> TR.
Hypothesis Hfun : forall g s, Inv g -> fst (run_one g s) = traj (sid s).
Hypothesis Hinv : forall g s, Inv g -> Inv (snd (run_one g s)).

Definition after (g0 : Sg) (pre : list sseq) : Sg :=
  fold_left (fun g s => snd (run_one g s)) pre g0.

Lemma after_inv pre : forall g0, Inv g0 -> Inv (after g0 pre).
Proof.
  unfold after. induction pre as [|s r IH]; intros g0 H; simpl; [exact H|].
  apply IH, Hinv, H.
Qed.

(* whatever the worker did before, the task for seed s returns traj (sid s) *)
Lemma worker_value g0 pre s : Inv g0 -> fst (run_one (after g0 pre) s) = traj (sid s).
Proof. intros H. apply Hfun, after_inv, H. Qed.
End Workers.

(* ---- MultiTrajResult.add applied in a given order *)
Section Reduce.
Variable TR : Type.

Definition entry (seeds : list sseq) (val : nat -> TR) (j : nat) : list (sseq * TR) :=
  match nth_error seeds j with Some s => [(s, val j)] | None => [] end.

Lemma combine_fst_snd {A B} (l : list (A * B)) : combine (map fst l) (map snd l) = l.
Proof. induction l as [|[a b] l IH]; simpl; congruence. Qed.

Lemma reduce_all_gen keep seeds val order : forall r0 : mtres TR,
  let r := fold_left (fun r j => match nth_error seeds j with
                                 | Some s => res_add TR keep r s (val j)
                                 | None => r end) order r0 in
  let F := flat_map (entry seeds val) order in
  r_seeds r = r_seeds r0 ++ map fst F /\
  r_coll r = r_coll r0 ++ map snd F /\
  r_sum r = r_sum r0 ++ map snd F /\
  r_trajs r = r_trajs r0 ++ (if keep then map snd F else []) /\
  r_num r = r_num r0 + length F.
Proof.
  induction order as [|j o IH]; intros r0; simpl.
  - rewrite !app_nil_r. destruct keep; rewrite ?app_nil_r; repeat split; lia.
  - destruct (nth_error seeds j) as [s|] eqn:En.
    + assert (Ee : entry seeds val j = [(s, val j)]) by (unfold entry; now rewrite En).
      rewrite Ee.
      destruct (IH (res_add TR keep r0 s (val j))) as (A & B & C & D & E).
      rewrite A, B, C, D, E. simpl. rewrite <- !app_assoc. simpl.
      repeat split; try lia.
      destruct keep; simpl; rewrite <- ?app_assoc; reflexivity.
    + assert (Ee : entry seeds val j = []) by (unfold entry; now rewrite En).
      rewrite Ee. simpl. apply IH.
Qed.

(* the per-trajectory lists of a result are aligned: entry k of every list
   belongs to the same task, whatever the order of completion and whether or
   not trajectories are kept *)
Lemma reduce_all_aligned keep seeds val order :
  let r := reduce_all TR keep seeds val order in
  let F := flat_map (entry seeds val) order in
  combine (r_seeds r) (r_coll r) = F /\
  r_seeds r = map fst F /\
  r_sum r = map snd F /\
  r_trajs r = (if keep then map snd F else []) /\
  r_num r = length F /\
  length (r_seeds r) = length F.
Proof.
  unfold reduce_all.
  destruct (reduce_all_gen keep seeds val order (empty_res TR)) as (A & B & C & D & E).
  simpl in *. rewrite A, B, C, D, E. rewrite combine_fst_snd, map_length. repeat split.
Qed.

Lemma entries_length seeds val order :
  (forall j, In j order -> j < length seeds) ->
  length (flat_map (entry seeds val) order) = length order.
Proof.
  induction order as [|j o IH]; intros H; simpl; [reflexivity|].
  rewrite app_length, IH by (intros k Hk; apply H; simpl; auto).
  unfold entry. destruct (nth_error seeds j) eqn:E; [reflexivity|].
  apply nth_error_None in E. specialize (H j (or_introl eq_refl)). lia.
Qed.

Lemma entries_all (l p : list sseq) (val : nat -> TR) :
  flat_map (entry (p ++ l) val) (seq (length p) (length l)) =
  map (fun '(j, s) => (s, val j)) (combine (seq (length p) (length l)) l).
Proof.
  revert p. induction l as [|a l IH]; intros p; simpl; [reflexivity|].
  unfold entry at 1. rewrite nth_error_app2, Nat.sub_diag by lia. simpl. f_equal.
  specialize (IH (p ++ [a])). rewrite <- app_assoc, app_length in IH. simpl in IH.
  rewrite Nat.add_1_r in IH. exact IH.
Qed.

Lemma entries_seeds seeds (val : nat -> TR) traj :
  (forall j s, nth_error seeds j = Some s -> val j = traj (sid s)) ->
  flat_map (entry seeds val) (seq 0 (length seeds)) = map (fun s => (s, traj (sid s))) seeds.
Proof.
  intros H. pose proof (entries_all seeds [] val) as E. simpl in E. rewrite E. clear E.
  assert (G : forall (l : list sseq) k,
             (forall j s, nth_error l j = Some s -> val (k + j) = traj (sid s)) ->
             map (fun '(j, s) => (s, val j)) (combine (seq k (length l)) l) =
             map (fun s => (s, traj (sid s))) l).
  { induction l as [|a l IH]; intros k Hk; simpl; [reflexivity|]. f_equal.
    - f_equal. rewrite <- (Nat.add_0_r k). apply (Hk 0). reflexivity.
    - apply IH. intros j s Hj. replace (S k + j) with (k + S j) by lia. apply Hk. exact Hj. }
  apply G. intros j s Hj. simpl. now apply H.
Qed.

End Reduce.

(* ---- the order in which results reach the reducer: imported from C14 *)
Section Sched.
Variable c : cfg.
Variable n : nat.
Variable stopf : nat -> bool.
Hypothesis Hred : reducer c = true.
Hypothesis Houts : outs c = map (fun j => Val (Z.of_nat j) (stopf j)) (seq 0 n).
Hypothesis HW : 1 <= workers c.

Definition order_of (s : st) : list nat := map fst (s_rlog s).

Lemma outs_length : length (outs c) = n.
Proof. rewrite Houts, map_length, seq_length. reflexivity. Qed.

Lemma outs_nth j : j < n -> nth_error (outs c) j = Some (Val (Z.of_nat j) (stopf j)).
Proof.
  intros H. rewrite Houts, nth_error_map.
  assert (E : nth_error (seq 0 n) j = Some j).
  { rewrite (nth_error_nth' _ 0) by (rewrite seq_length; lia). now rewrite seq_nth. }
  rewrite E. reflexivity.
Qed.

Lemma order_spec sched e0 fuel :
  let s := iter c fuel (init c sched e0) in
  NoDup (order_of s) /\
  forall j, In j (order_of s) <-> In j (s_compl s) /\ j < n.
Proof.
  intros s. destruct (reach_inv c sched e0 fuel HW) as (_ & _ & [_ Hsub] & _ & D & _).
  fold s in D, Hsub. destruct D as (A & _ & B & _).
  split; [exact A|]. intros j. unfold order_of. rewrite in_map_fst. split.
  - intros [v Hv]. apply B in Hv. destruct Hv as (_ & Hc & b & Hn). split; [exact Hc|].
    rewrite <- outs_length. apply nth_error_Some. congruence.
  - intros [Hc Hj]. exists (Z.of_nat j). apply B. split; [exact Hred|]. split; [exact Hc|].
    exists (stopf j). now apply outs_nth.
Qed.

(* if every task completed (the run was not cut short by a time limit or a
   target tolerance), the reducer saw each of 0..n-1 exactly once *)
Lemma order_complete sched e0 fuel :
  let s := iter c fuel (init c sched e0) in
  (forall j, j < n -> In j (s_compl s)) -> Permutation (order_of s) (seq 0 n).
Proof.
  intros s Hall. destruct (order_spec sched e0 fuel) as [A B]. fold s in A, B.
  apply NoDup_Permutation; [exact A|apply seq_NoDup|].
  intros j. rewrite B, in_seq. split.
  - intros [_ H]. lia.
  - intros H. split; [apply Hall; lia|lia].
Qed.
End Sched.

(* ---- all together *)
Section Ensemble.
Variable TR : Type.
Variable traj : seedid -> TR.

Definition pairs (r : mtres TR) : list (sseq * TR) := combine (r_seeds r) (r_coll r).
Definition expected (seeds : list sseq) : list (sseq * TR) := map (fun s => (s, traj (sid s))) seeds.

Lemma flat_map_entry_perm seeds (val : nat -> TR) o1 o2 :
  Permutation o1 o2 ->
  Permutation (flat_map (entry TR seeds val) o1) (flat_map (entry TR seeds val) o2).
Proof. apply Permutation_flat_map. Qed.

Lemma entry_in seeds (val : nat -> TR) order s tr :
  (forall j s, nth_error seeds j = Some s -> val j = traj (sid s)) ->
  In (s, tr) (flat_map (entry TR seeds val) order) ->
  tr = traj (sid s) /\ exists j, In j order /\ nth_error seeds j = Some s.
Proof.
  intros H Hin. apply in_flat_map in Hin. destruct Hin as [j [Hj He]].
  unfold entry in He. destruct (nth_error seeds j) as [s'|] eqn:E; [|destruct He].
  destruct He as [He|[]]. injection He as <- <-. split; [now apply H|]. exists j. auto.
Qed.

End Ensemble.
