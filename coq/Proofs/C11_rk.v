(* C11 - proofs about the Explicit_RungeKutta bookkeeping model. *)
From Coq Require Import List ZArith Bool Arith Lia.
Require Import ZifyBool.
Import ListNotations.
From QV Require Import Model.C11_rk.
Open Scope Z_scope.

Definition forget (s : rk) : rk := set_status s 0.

Lemma shape_eqb_refl x : shape_eqb x x = true.
Proof. unfold shape_eqb. rewrite !Z.eqb_refl. reflexivity. Qed.

Lemma firstn_repeat {X} (x : X) n : firstn n (repeat x n) = repeat x n.
Proof. induction n; simpl; congruence. Qed.

Lemma forallb_repeat {X} (f : X -> bool) x n : f x = true -> forallb f (repeat x n) = true.
Proof. intros H. induction n; simpl; [reflexivity|rewrite H, IHn; reflexivity]. Qed.

Lemma buffers_fresh n shp : buffers_ok n (repeat shp n) shp = true.
Proof.
  unfold buffers_ok. rewrite repeat_length, Nat.leb_refl, firstn_repeat. simpl.
  apply forallb_repeat. apply shape_eqb_refl.
Qed.

Arguments interpolate : simpl never.

Section RKProofs.
  Variable nstage : nat.
  Variables adaptive dense interp_opt : bool.
  Notation interpolate := (Model.C11_rk.interpolate dense interp_opt).
  Notation siv := (set_initial_value nstage adaptive).
  Notation integ := (integrate nstage dense interp_opt).
  Notation lp := (loop nstage).

  (* ---- set_initial_value forgets the past ---- *)
  Lemma siv_independent s1 s2 shp t :
    forget (fst (siv false s1 shp t)) = forget (fst (siv false s2 shp t)) /\
    snd (siv false s1 shp t) = false /\ snd (siv false s2 shp t) = false.
  Proof.
    unfold set_initial_value. simpl. rewrite buffers_fresh. simpl.
    rewrite andb_false_r. auto.
  Qed.

  Lemma integrate_forget s c t st fr : integ (set_status s c) t st fr = integ s t st fr.
  Proof. destruct s. reflexivity. Qed.

  Lemma forget_fields a b : forget a = forget b ->
    r_init a = r_init b /\ r_t a = r_t b /\ r_prev a = r_prev b /\ r_front a = r_front b /\
    r_shape a = r_shape b /\ r_k a = r_k b /\ r_ytag a = r_ytag b.
  Proof. destruct a, b. unfold forget, set_status. simpl. intros H. inversion H. auto 10. Qed.

  Lemma forget_set_status s c : forget (set_status s c) = forget s.
  Proof. destruct s. reflexivity. Qed.

  Lemma trace_forget old_rule ops : forall a b, forget a = forget b ->
    trace nstage adaptive dense interp_opt old_rule a ops
    = trace nstage adaptive dense interp_opt old_rule b ops.
  Proof.
    induction ops as [|o r IH]; intros a b H; [reflexivity|].
    simpl. destruct o as [shp t|t st fr].
    - destruct (forget_fields a b H) as (_ & _ & _ & _ & _ & Hk & _).
      simpl. unfold set_initial_value. rewrite Hk. simpl. f_equal.
      apply IH. unfold forget, set_status. simpl. reflexivity.
    - simpl. assert (E : integ a t st fr = integ b t st fr).
      { rewrite <- (integrate_forget a 0), <- (integrate_forget b 0).
        unfold forget in H. rewrite H. reflexivity. }
      rewrite E. reflexivity.
  Qed.

  (* observational equivalence: after set_initial_value every later history
     of calls is answered identically whatever the object did before *)
  Lemma rk_history_independent s1 s2 shp t ops :
    trace nstage adaptive dense interp_opt false (fst (siv false s1 shp t)) ops
    = trace nstage adaptive dense interp_opt false (fst (siv false s2 shp t)) ops.
  Proof. apply trace_forget. apply siv_independent. Qed.

  (* ---- window invariant ---- *)
  Definition W (s : rk) : Prop :=
    r_init s = true -> r_prev s <= r_t s <= r_front s /\
                       (dense = true -> r_ytag s = r_t s).

  Fixpoint increasing (f0 : Z) (l : list Z) : Prop :=
    match l with [] => True | f :: r => f0 <= f /\ increasing f r end.

  Lemma loop_spec fronts : forall s t step s',
    increasing (r_front s) fronts -> r_prev s <= r_front s -> 0 <= r_status s ->
    lp s t step fronts = (s', false) -> 0 <= r_status s' ->
    r_init s' = r_init s /\ r_t s' = r_t s /\ r_ytag s' = r_ytag s /\
    r_prev s' <= r_front s' /\ r_front s <= r_front s' /\
    (r_front s < t -> r_prev s' < t /\ r_prev s <= r_prev s' /\ (step = false -> t <= r_front s')) /\
    (~ r_front s < t -> s' = s).
  Proof.
    induction fronts as [|f rest IH]; intros s t step s' Hinc Hpf Hst H Hst'; cbn [loop] in H.
    - destruct (r_front s <? t) eqn:E.
      + injection H as <-. unfold set_status, TOO_MUCH_WORK in Hst'. simpl in Hst'. lia.
      + injection H as <-. repeat split; try lia; try (intros; lia); try reflexivity.
    - destruct (r_front s <? t) eqn:E.
      + destruct (negb (buffers_ok nstage (r_k (set_prev s (r_front s)))
                                   (r_shape (set_prev s (r_front s))))) eqn:EB; [discriminate|].
        destruct Hinc as [Hf Hinc].
        destruct step.
        * injection H as <-. simpl. repeat split; try lia; try (intros; discriminate); try (intros; lia).
        * specialize (IH (set_front (set_prev s (r_front s)) f) t false s').
          simpl in IH. specialize (IH Hinc ltac:(lia) Hst H Hst').
          destruct IH as (A1 & A2 & A3 & A4 & A5 & A6 & A7).
          assert (C : r_prev s' < t /\ r_prev s <= r_prev s' /\ t <= r_front s' /\
                      r_front s <= r_front s').
          { destruct (Z_lt_dec f t) as [L|L].
            - destruct (A6 L) as (B1 & B2 & B3). specialize (B3 eq_refl). lia.
            - rewrite (A7 L). simpl. lia. }
          split; [exact A1|]. split; [exact A2|]. split; [exact A3|]. split; [exact A4|].
          split; [lia|]. split; [|intros; lia].
          intros _. split; [lia|]. split; [lia|]. intros _. lia.
      + injection H as <-. repeat split; try lia; try (intros; lia); try reflexivity.
  Qed.

  Lemma loop_neg_status fr : forall (x : rk) y t' step, 0 <= r_status x ->
    lp x t' step fr = (y, false) -> r_status y < 0 -> r_status y = TOO_MUCH_WORK.
  Proof.
    induction fr as [|f r IHr]; intros x y t' step Hx Hl Hy; cbn [loop] in Hl.
    - destruct (r_front x <? t'); injection Hl as <-; simpl in *; [reflexivity|lia].
    - destruct (r_front x <? t'); [|injection Hl as <-; lia].
      destruct (negb (buffers_ok nstage (r_k (set_prev x (r_front x)))
                                 (r_shape (set_prev x (r_front x))))); [discriminate|].
      destruct step; [injection Hl as <-; simpl in *; lia|].
      eapply IHr; [|exact Hl|exact Hy]. simpl. exact Hx.
  Qed.

  Lemma integrate_window s t step fronts s' :
    W s -> increasing (r_front s) fronts ->
    integ s t step fronts = (s', false) ->
    r_status s' <> TOO_MUCH_WORK ->
    W s' /\ r_init s' = r_init s /\
    (r_init s = true -> 0 <= r_status s' -> step = false -> r_t s' = t).
  Proof.
    intros HW Hinc H Hst. unfold integrate in H.
    destruct (r_init s) eqn:Ei; simpl in H.
    2:{ injection H as <-. split; [|split]; simpl; try assumption; try discriminate. }
    specialize (HW Ei). destruct HW as [HW1 HW2].
    destruct (t =? r_t s) eqn:E1.
    { injection H as <-. split; [|split]; simpl; auto. intros _. simpl. auto.
      intros. lia. }
    destruct (t <? r_prev s) eqn:E2.
    { injection H as <-. split; [|split]; simpl; auto. intros _. simpl. auto.
      unfold OUTSIDE_RANGE. intros. lia. }
    set (s1 := if interpolate && (t <? r_front s) then set_t (set_status s NORMAL) t
               else set_status s NORMAL) in *.
    assert (F1 : r_front s1 = r_front s /\ r_prev s1 = r_prev s /\ r_init s1 = true /\
                 r_status s1 = 0 /\ (dense = true -> r_ytag s1 = r_t s1) /\
                 r_prev s1 <= r_t s1 <= r_front s1 /\
                 (r_t s1 = t \/ r_t s1 = r_t s)).
    { unfold s1. destruct (interpolate && (t <? r_front s)) eqn:E3; simpl in *.
      - repeat split; auto; try lia.
      - repeat split; auto; try lia. }
    destruct F1 as (G1 & G2 & G3 & G4 & G5 & G6 & G7).
    remember (if step && (r_t s1 <? r_front s1) && (r_front s1 <? t) then r_front s1 else t)
      as t' eqn:Et' in *.
    destruct (lp s1 t' step fronts) as [s2 raised] eqn:EL.
    destruct raised; [discriminate|].
    destruct (r_status s2 <? 0) eqn:E4.
    { injection H as <-.
      (* a negative status after the loop can only be TOO_MUCH_WORK *)
      exfalso. apply Hst. eapply loop_neg_status; [|exact EL|lia]. lia. }
    assert (Hs2 : 0 <= r_status s2) by lia.
    destruct (loop_spec fronts s1 t' step s2 ltac:(rewrite G1; exact Hinc) ltac:(lia) ltac:(lia) EL Hs2)
      as (A1 & A2 & A3 & A4 & A5 & A6 & A7).
    assert (Ht' : r_prev s <= t' /\ (t' = t \/ (step = true /\ t' = r_front s1))).
    { rewrite Et'. destruct (step && (r_t s1 <? r_front s1) && (r_front s1 <? t)) eqn:E5.
      - split; [lia|]. right. split; [|reflexivity]. destruct step; [reflexivity|discriminate].
      - split; [lia|]. left; reflexivity. }
    destruct Ht' as [Hp' Ht'].
    destruct (t' <? r_front s2) eqn:E6.
    - injection H as <-. split; [|split]; simpl.
      + intros _. simpl. split; [|intros Hi; rewrite Hi; reflexivity].
        destruct (Z_lt_dec (r_front s1) t') as [L|L].
        * destruct (A6 L) as (B1 & B2 & B3). lia.
        * rewrite (A7 L) in *. lia.
      + congruence.
      + intros _ _ Hstep. destruct Ht' as [E|[E _]]; [exact E|congruence].
    - injection H as <-. split; [|split]; simpl.
      + intros _. simpl. split; [|intros _; reflexivity]. lia.
      + congruence.
      + intros _ _ Hstep. destruct Ht' as [E|[E _]]; [|congruence]. rewrite E in *.
        destruct (Z_lt_dec (r_front s1) t) as [L|L].
        * destruct (A6 L) as (B1 & B2 & B3). specialize (B3 Hstep). lia.
        * rewrite (A7 L) in *. lia.
  Qed.

  Lemma siv_window old_rule s shp t : W (fst (set_initial_value nstage adaptive old_rule s shp t)).
  Proof. unfold W. simpl. intros _. lia. Qed.
End RKProofs.

(* ---- the rule before commit abf9216: the buffers remembered the first
   shape ---- *)
Lemma old_rk_buffers_remember :
  let s1 := rk_new in
  let s2 := fst (set_initial_value 10 true true rk_new (3, 3) 0) in
  snd (set_initial_value 10 true true s1 (3, 1) 0) = false /\
  snd (set_initial_value 10 true true s2 (3, 1) 0) = true.
Proof. vm_compute. split; reflexivity. Qed.

Section RKRun.
  Variable nstage : nat.
  Variables adaptive dense interp_opt old_rule : bool.
  Notation do_op := (do_op nstage adaptive dense interp_opt old_rule).

  Definition good_op (s : rk) (o : op) : Prop :=
    match o with
    | OSet _ _ => True
    | OInt _ _ fr => increasing (r_front s) fr /\ snd (do_op s o) = false /\
                     r_status (fst (do_op s o)) <> TOO_MUCH_WORK
    end.

  Fixpoint good_run (s : rk) (ops : list op) : Prop :=
    match ops with
    | [] => True
    | o :: r => good_op s o /\ good_run (fst (do_op s o)) r
    end.

  Definition final (s : rk) (ops : list op) : rk :=
    fold_left (fun s o => fst (do_op s o)) ops s.

  Lemma run_window ops : forall s, W dense s -> good_run s ops -> W dense (final s ops).
  Proof.
    induction ops as [|o r IH]; intros s HW HG; [exact HW|].
    simpl in HG. destruct HG as [Ho Hr]. simpl. apply IH; [|exact Hr].
    destruct o as [shp t|t st fr].
    - apply siv_window.
    - destruct Ho as (Hinc & Hnr & Hst). simpl in *.
      destruct (integrate nstage dense interp_opt s t st fr) as [s' raised] eqn:E.
      simpl in *. subst raised.
      exact (proj1 (integrate_window nstage dense interp_opt s t st fr s' HW Hinc E Hst)).
  Qed.
End RKRun.

Lemma rk_new_W dense : W dense rk_new.
Proof. unfold W. simpl. discriminate. Qed.
