(* C18 - bridge lemmas: the executable index-function model of Model/C18.v,
   instantiated at an abstract field with conjugation, IS the MathComp matrix
   expression the algebraic theorems of Proofs/C18.v talk about. *)
From mathcomp Require Import all_ssreflect all_algebra.
From mathcomp Require Import mxtens.
From QV Require Import Base.MxHerm Model.C18 Proofs.C18.

Set Implicit Arguments.
Unset Strict Implicit.
Unset Printing Implicit Defensive.
Import GRing.Theory.
Local Open Scope ring_scope.

Section Bridge.
Variable R : fieldType.
Variable conj : {rmorphism R -> R}.
Hypothesis conjK : involutive conj.

Definition mx_of_fn p q (f : fmx R) : 'M[R]_(p, q) := \matrix_(i, j) f i j.
Definition col_of_fn p (f : fvec R) : 'cV[R]_p := \col_i f i.
Definition row_of_fn p (f : fvec R) : 'rV[R]_p := \row_i f i.

Local Notation zero := (0 : R).
Local Notation one := (1 : R).
Local Notation add := (@GRing.add R).
Local Notation mul := (@GRing.mul R).
Local Notation opp := (@GRing.opp R).

Lemma fsum_iota (f : nat -> R) m k :
  foldr (fun i acc => f i + acc) 0 (iota m k) = \sum_(m <= i < m + k) f i.
Proof.
elim: k m => [|k IH] m /=; first by rewrite addn0 big_geq.
by rewrite IH addSnnS [RHS]big_ltn // addnS ltnS leq_addr.
Qed.

Lemma fsumE k (f : nat -> R) : fsum zero add k f = \sum_(i < k) f i.
Proof. by rewrite /fsum fsum_iota add0n big_mkord. Qed.

Variable n' : nat.
Local Notation n := n'.+1.
Local Notation NN := (n * n)%N.

Lemma is_diagE (k : 'I_NN) :
  is_diag_idx n k = ((mxtens_unindex k).2 == (mxtens_unindex k).1 :> 'I_n).
Proof. by rewrite /is_diag_idx eq_sym. Qed.

Lemma idx00 : (mxtens_index (ord0 : 'I_n, ord0 : 'I_n) : nat) = 0%N.
Proof. by []. Qed.

(* trace functional and unit vector as the code builds them *)
Lemma weight_vecE w : row_of_fn NN (weight_vec zero n w) = w *: trow R n.
Proof.
apply/rowP => k; rewrite !mxE /weight_vec is_diagE.
by case: eqP => _; rewrite ?mulr1n ?mulr1 ?mulr0n ?mulr0.
Qed.

Lemma one_elementE p (r : 'I_p) v : col_of_fn p (one_element zero r v) = v *: delta_mx r 0.
Proof.
apply/colP => i; rewrite !mxE eqxx andbT /one_element.
by rewrite -val_eqE /=; case: eqP => _; rewrite ?mulr1 ?mulr0.
Qed.

(* L' handed to the solver = w e0 vec(1)^T + L *)
Lemma direct_L_bridge w (Lf : fmx R) :
  mx_of_fn NN NN (direct_L zero one add mul n w Lf)
  = dL (mx_of_fn NN NN Lf) w (ord0 : 'I_n).
Proof.
apply/matrixP => i j; rewrite /dL /Lmod /direct_L /weight_mat !mxE big_ord1 !mxE.
rewrite eqxx andbT /one_element /weight_vec is_diagE.
have -> : (i == mxtens_index (ord0 : 'I_n, ord0 : 'I_n)) = (val i == 0%N) by rewrite -val_eqE.
case: (val i == 0%N); case: (_ == _);
  by rewrite ?mulr1n ?mulr0n ?mul1r ?mul0r ?mulr1 ?mulr0.
Qed.

Lemma direct_b_bridge w :
  col_of_fn NN (direct_b zero w) = @db R n w (ord0 : 'I_n).
Proof.
rewrite /direct_b /db /bmod /ediag.
have -> : one_element zero 0 w = one_element zero (mxtens_index (ord0 : 'I_n, ord0 : 'I_n)) w by [].
exact: one_elementE.
Qed.

(* post-processing *)
Lemma unstack_bridge (xf : fvec R) :
  mx_of_fn n n (unstack n xf) = unvec (col_of_fn NN xf).
Proof. by apply/matrixP => i j; rewrite !mxE. Qed.

Lemma stack_bridge (Mf : fmx R) :
  col_of_fn NN (stack n Mf) = cvec (mx_of_fn n n Mf).
Proof. by apply/colP => k; rewrite !mxE. Qed.

Lemma adjoint_bridge p (Mf : fmx R) :
  mx_of_fn p p (adjoint conj Mf) = dag conj (mx_of_fn p p Mf).
Proof. by apply/matrixP => i j; rewrite !mxE. Qed.

Lemma herm2_bridge p (Mf : fmx R) :
  mx_of_fn p p (herm2 add conj Mf) = mx_of_fn p p Mf + dag conj (mx_of_fn p p Mf).
Proof. by apply/matrixP => i j; rewrite !mxE. Qed.

Lemma ftr_bridge p (Mf : fmx R) : ftr zero add p Mf = \tr (mx_of_fn p p Mf).
Proof. by rewrite /ftr fsumE /mxtrace; apply: eq_bigr => i _; rewrite mxE. Qed.

Lemma direct_post_bridge (xf : fvec R) :
  2%:R^-1 *: mx_of_fn n n (direct_post2 add conj n xf None)
  = hermitise conj (unvec (col_of_fn NN xf)).
Proof. by rewrite /direct_post2 herm2_bridge unstack_bridge. Qed.

Lemma eigen_post_bridge (vf : fvec R) :
  let (Vf, d) := eigen_post zero add n vf in
  d^-1 *: mx_of_fn n n Vf = normalise (unvec (col_of_fn NN vf)).
Proof. by rewrite /eigen_post /normalise ftr_bridge unstack_bridge. Qed.

Lemma svd_post_bridge (vf : fvec R) :
  let (Vf, d) := svd_post zero add n vf in
  d^-1 *: mx_of_fn n n Vf = normalise (unvec (col_of_fn NN vf)).
Proof. by rewrite /svd_post /normalise ftr_bridge unstack_bridge. Qed.

Lemma power_post_bridge (vf : fvec R) :
  let (Sf, d) := power_post zero add conj n vf in
  d^-1 *: mx_of_fn n n Sf = power_normalise conj (unvec (col_of_fn NN vf)).
Proof.
by rewrite /power_post /power_normalise /normalise ftr_bridge herm2_bridge unstack_bridge.
Qed.

(* pseudo_inverse *)
Lemma fid_bridge p : mx_of_fn p p (fid zero one) = 1%:M.
Proof. by apply/matrixP => i j; rewrite !mxE /fid -val_eqE /=; case: (_ == _). Qed.

Lemma pinv_P_bridge (rf : fmx R) :
  mx_of_fn NN NN (pinv_P zero one mul n rf) = Pss (mx_of_fn n n rf).
Proof.
apply/matrixP => i j; rewrite /Pss /pinv_P !mxE big_ord1 !mxE /stack /fid.
by rewrite -[in RHS]val_eqE /=; case: (_ == _).
Qed.

Lemma pinv_Q_bridge (rf : fmx R) :
  mx_of_fn NN NN (pinv_Q zero one add mul opp n rf) = Qp (Pss (mx_of_fn n n rf)).
Proof.
rewrite /Qp -pinv_P_bridge -(fid_bridge NN).
by apply/matrixP => i j; rewrite !mxE.
Qed.

Lemma fmulmx_bridge p (Af Bf : fmx R) :
  mx_of_fn p p (fmulmx zero add mul p Af Bf) = mx_of_fn p p Af *m mx_of_fn p p Bf.
Proof.
apply/matrixP => i j; rewrite !mxE /fmulmx fsumE.
by apply: eq_bigr => k _; rewrite !mxE.
Qed.

Lemma pinv_R_bridge (rf LIQf : fmx R) :
  mx_of_fn NN NN (pinv_R zero one add mul opp n rf LIQf)
  = Qp (Pss (mx_of_fn n n rf)) *m mx_of_fn NN NN LIQf.
Proof. by rewrite /pinv_R fmulmx_bridge pinv_Q_bridge. Qed.

(* HEOM steady state: row 0 replaced by the system-block trace functional *)
Lemma heom_L_bridge p (r0 : 'I_p) (Lf : fmx R) : val r0 = 0%N ->
  mx_of_fn p p (heom_L zero one n Lf)
  = Lrep (row_of_fn p (heom_row zero one n)) (mx_of_fn p p Lf) r0.
Proof.
move=> r00; apply/matrixP => i j; rewrite !mxE /heom_L -val_eqE /= r00.
by case: eqP.
Qed.

Lemma heom_row0 p (r0 : 'I_p) : val r0 = 0%N ->
  row_of_fn p (heom_row zero one n) 0 r0 = 1.
Proof. by move=> r00; rewrite !mxE r00. Qed.

End Bridge.
