(* C17 - Rouchon's step and the closed system (Model/C17_sys.v): the step is
   determined by the increments of the stochastic operators (any operator
   algebra, no laws needed). *)
From Coq Require Import List Bool Arith Lia.
Import ListNotations.
From QV Require Import Model.C17_sde Model.C17_sys Proofs.C17_sde.

Section RouchonDetermined.
  Context {K V : Type} (B : malg K V).

  Lemma Mdy_ext : forall M0 sc_ops dt (dy1 dy2 : nat -> K),
    (forall i, i < length sc_ops -> dy1 i = dy2 i) ->
    rouchon_Mdy B M0 sc_ops dt dy1 = rouchon_Mdy B M0 sc_ops dt dy2.
  Proof.
    intros M0 sc_ops dt dy1 dy2 H. unfold rouchon_Mdy.
    apply fold_left_ext_in. intros i M Hi. apply in_seq in Hi.
    rewrite (H i) by lia.
    apply fold_left_ext_in. intros j M' Hj. apply in_seq in Hj.
    rewrite (H j) by lia. reflexivity.
  Qed.

  Lemma rouchon_determined : forall H sc_ops c_ops dt (dW1 dW2 : nat -> K) rho,
    (forall i, i < length sc_ops -> dW1 i = dW2 i) ->
    rouchon_step B H sc_ops c_ops dt dW1 rho = rouchon_step B H sc_ops c_ops dt dW2 rho /\
    rouchon_ket_unnorm B H sc_ops dt dW1 rho = rouchon_ket_unnorm B H sc_ops dt dW2 rho.
  Proof.
    intros H sc_ops c_ops dt dW1 dW2 rho Hd.
    assert (E : rouchon_unnorm B H sc_ops c_ops dt dW1 rho
                = rouchon_unnorm B H sc_ops c_ops dt dW2 rho).
    { unfold rouchon_unnorm. f_equal. apply Mdy_ext. intros i Hi.
      unfold rouchon_dy_dm. now rewrite (Hd i Hi). }
    split.
    - unfold rouchon_step. now rewrite E.
    - unfold rouchon_ket_unnorm. f_equal. apply Mdy_ext. intros i Hi.
      unfold rouchon_dy_ket. now rewrite (Hd i Hi).
  Qed.
End RouchonDetermined.

(* the closed system under the generic Euler / Platen steps *)
Lemma sse_determined : forall {K V} (A : alg K V) (B : malg K V) (re : K -> K)
    (H : V) (sc_ops : list V) meas psi dt (dW1 dW2 : nat -> K),
  (forall i, i < length sc_ops -> dW1 i = dW2 i) ->
  let S := closed_sys B re H sc_ops in
  euler_step A S meas psi dt dW1 = euler_step A S meas psi dt dW2 /\
  (forall sdt isdt4, platen_step A S meas psi dt sdt isdt4 dW1
                     = platen_step A S meas psi dt sdt isdt4 dW2).
Proof.
  intros K V A B re H sc_ops meas psi dt dW1 dW2 Hd S.
  split; [apply euler_determined; exact Hd|].
  intros. apply platen_determined. exact Hd.
Qed.
