(* Proofs for C13: improved sampling (mcsolve.py MCSolver._no_jump_simulation,
   _run_improved_sampling; MCIntegrator.set_state(no_jump, jump_prob_floor)). *)
From Coq Require Import List ZArith Bool Arith Lia.
Import ListNotations.
From QV Require Import Model.C13 Proofs.C13.

Section IMP.
Variables U T Y : Type.
Variable stream : seedid -> nat -> U.
Variable zeroU oneU : U.
Variable leU : U -> U -> bool.
Variable ltT : T -> T -> bool.
Variable mix : U -> U -> U.
Variable nchan : nat.
Variable prob : Y -> U.
Variable ode_step : T -> Y -> T -> T * Y.
Variable find : T -> Y -> T -> Y -> U -> U -> U -> option (T * Y).
Variable choose : T -> Y -> U -> nat.
Variable jump : nat -> T -> Y -> option Y.
Variable renorm : Y -> Y.

Notation set_state := (mc_set_state U T Y stream zeroU mix).
Notation loop := (mc_loop U T Y stream oneU leU ltT nchan prob ode_step find choose jump renorm).
Notation run := (mc_run U T Y stream oneU leU ltT nchan prob ode_step find choose jump renorm).
Notation run_one := (mc_run_one U T Y stream zeroU oneU leU ltT mix nchan prob ode_step find choose jump renorm).

(* the whole outcome of a trajectory - also what it leaves in the integrator -
   is independent of what the integrator held before *)
Lemma mc_run_one_forgets fuel (s s' : mci U T Y) seed t0 y0 ts nj fl :
  run_one fuel s seed t0 y0 ts nj fl = run_one fuel s' seed t0 y0 ts nj fl.
Proof.
  unfold mc_run_one.
  now rewrite (mc_set_state_forgets U T Y zeroU mix stream s s').
Qed.

(* MCSolver._no_jump_simulation: the no-jump trajectory (seed None, target 0)
   and the probability read from the state the ODE integrator is left in *)
Definition no_jump_sim fuel (s : mci U T Y) (seed : sseq) t0 y0 ts : mc_traj T Y * U * mci U T Y :=
  let '(tr, s') := run_one fuel s seed t0 y0 ts true zeroU in
  (tr, prob (m_y s'), s').

(* MCSolver._run_improved_sampling for one seed: no-jump simulation first, then
   the trajectory with the threshold floor set to the no-jump probability *)
Definition improved_one fuel (s : mci U T Y) (none_seed seed : sseq) t0 y0 ts : mc_traj T Y * U :=
  let '(_, p, s1) := no_jump_sim fuel s none_seed t0 y0 ts in
  (fst (run_one fuel s1 seed t0 y0 ts false p), p).

Lemma improved_history_independent fuel (s s' : mci U T Y) none_seed seed t0 y0 ts :
  improved_one fuel s none_seed seed t0 y0 ts = improved_one fuel s' none_seed seed t0 y0 ts.
Proof.
  unfold improved_one, no_jump_sim.
  rewrite (mc_run_one_forgets fuel s s' none_seed t0 y0 ts true zeroU). reflexivity.
Qed.

(* the floor does not depend on which seed object stands for "None" either:
   the no-jump trajectory draws nothing, provided a positive norm is never
   <= the threshold 0 *)
Hypothesis Hpos : forall y, leU (prob y) zeroU = false.

Definition Inj (s : mci U T Y) : Prop := m_target s = zeroU /\ m_log s = [] /\ m_coll s = [].

Lemma Inj_loop fuel : forall (s : mci U T Y) t t_old y_old n_old,
  Inj s ->
  match loop fuel s t t_old y_old n_old with
  | Some (s', _, _) => Inj s'
  | None => True
  end.
Proof.
  induction fuel as [|f IH]; intros s t t_old y_old n_old H; simpl; [exact I|].
  destruct (ltT t_old t); [|exact H].
  destruct (ode_step t_old y_old t) as [t_step y].
  destruct H as (A & B & C). rewrite A, Hpos.
  apply IH. repeat split; assumption.
Qed.

Lemma Inj_run fuel ts : forall (s : mci U T Y) acc, Inj s -> Inj (fst (run fuel s ts acc)).
Proof.
  induction ts as [|t r IH]; intros s acc H; simpl; [exact H|].
  unfold mc_integrate.
  pose proof (Inj_loop fuel s t (m_t s) (m_y s) (prob (m_y s)) H) as HL.
  destruct (loop fuel s t (m_t s) (m_y s) (prob (m_y s))) as [[[s' t'] y']|]; [|exact H].
  apply IH. exact HL.
Qed.

Lemma no_jump_draws_nothing fuel (s : mci U T Y) seed t0 y0 ts fl :
  let tr := fst (run_one fuel s seed t0 y0 ts true fl) in
  tr_draws tr = [] /\ tr_coll tr = [].
Proof.
  unfold mc_run_one.
  assert (H0 : Inj (set_state s t0 y0 (mkgen seed) true fl)) by (repeat split).
  pose proof (Inj_run fuel ts _ [] H0) as H.
  destruct (run fuel (set_state s t0 y0 (mkgen seed) true fl) ts []) as [s2 out].
  simpl in *. destruct H as (_ & B & C). split; assumption.
Qed.

End IMP.
