From Coq Require Import List ZArith QArith Qround Bool Arith Lia Permutation.
Import ListNotations.
From QV Require Import Model.C15_ens.

(* allocation described by a state: (state index, number of trajectories) *)
Definition alloc (st : est) : list (nat * Z) :=
  map (fun i => (i, 1%Z)) (fst st) ++ map (fun c => (c_idx c, c_n c)) (snd st).

Fixpoint asum (l : list (nat * Z)) : Z :=
  match l with [] => 0 | p :: l' => snd p + asum l' end%Z.

Lemma asum_app l m : asum (l ++ m) = (asum l + asum m)%Z.
Proof. induction l; simpl; lia. Qed.

Lemma asum_perm l l' : Permutation l l' -> asum l = asum l'.
Proof. induction 1; simpl; lia. Qed.

Lemma insort_perm c l : Permutation (insort c l) (c :: l).
Proof.
  induction l as [|h t IH]; simpl; [apply Permutation_refl|].
  destruct (Qle_bool (c_ratio h) (c_ratio c)).
  - eapply Permutation_trans; [apply perm_skip, IH|apply perm_swap].
  - apply Permutation_refl.
Qed.

Lemma place_alloc N idx w g st :
  Permutation (alloc (place N idx w g st)) ((idx, g) :: alloc st) \/ False.
Proof.
  left. unfold place, alloc. destruct (g =? 1)%Z eqn:E; simpl.
  - apply Z.eqb_eq in E. subst g. rewrite map_app. simpl. rewrite <- app_assoc. simpl.
    apply Permutation_sym, Permutation_middle.
  - eapply Permutation_trans.
    + apply Permutation_app_head. apply Permutation_map. apply insort_perm.
    + simpl. apply Permutation_sym, Permutation_middle.
Qed.

Lemma place_perm N idx w g st : Permutation (alloc (place N idx w g st)) ((idx, g) :: alloc st).
Proof. destruct (place_alloc N idx w g st) as [H|[]]. exact H. Qed.

Lemma place_big N idx w g st : (1 <= g)%Z ->
  Forall (fun c => (2 <= c_n c)%Z) (snd st) ->
  Forall (fun c => (2 <= c_n c)%Z) (snd (place N idx w g st)).
Proof.
  intros Hg H. unfold place. destruct (g =? 1)%Z eqn:E; simpl; [assumption|].
  apply Z.eqb_neq in E.
  eapply Permutation_Forall; [apply Permutation_sym, insort_perm|].
  constructor; [simpl; lia|assumption].
Qed.

Lemma place_len N idx w g st :
  (length (fst (place N idx w g st)) + length (snd (place N idx w g st)) =
   S (length (fst st) + length (snd st)))%nat.
Proof.
  unfold place. destruct (g =? 1)%Z; simpl.
  - rewrite app_length. simpl. lia.
  - rewrite (Permutation_length (insort_perm _ _)). simpl. lia.
Qed.

Lemma unsnoc_spec {A} (l : list A) :
  match unsnoc l with
  | None => l = []
  | Some (r, x) => l = r ++ [x]
  end.
Proof.
  induction l as [|h t IH]; simpl; [reflexivity|].
  destruct (unsnoc t) as [[r x]|].
  - subst t. reflexivity.
  - subst t. reflexivity.
Qed.

Lemma gtb_false a b : (a >? b)%Z = false -> (a <= b)%Z.
Proof. intros H. rewrite Z.gtb_ltb in H. apply Z.ltb_ge in H. lia. Qed.

(* the loop invariant *)
Record J (tot : Z) (st : est) : Prop := {
  j_tot : tot = asum (alloc st);
  j_big : Forall (fun c => (2 <= c_n c)%Z) (snd st) }.

Lemma alloc_len st : length (alloc st) = (length (fst st) + length (snd st))%nat.
Proof. unfold alloc. rewrite app_length, !map_length. reflexivity. Qed.

Lemma asum_ones (l : list nat) : asum (map (fun i => (i, 1%Z)) l) = Z.of_nat (length l).
Proof. induction l as [|a l IH]; [reflexivity|]. cbn [map asum snd length]. rewrite IH. lia. Qed.

(* the loop never pops from an empty list and ends with total = N, as long
   as there are at most N states in play; the set of states is preserved and
   every state keeps at least one trajectory *)
Lemma loop_ok N : forall fuel tot st,
  J tot st -> (Z.of_nat (length (fst st) + length (snd st)) <= N)%Z ->
  (tot - N <= Z.of_nat fuel)%Z ->
  exists st', loop fuel N tot st = Done st' /\ J (Z.min tot N) st' /\
    Permutation (map fst (alloc st')) (map fst (alloc st)) /\
    (length (fst st') + length (snd st') = length (fst st) + length (snd st))%nat.
Proof.
  induction fuel as [|f IH]; intros tot st HJ Hn Hf.
  - simpl. destruct (tot >? N)%Z eqn:E; [apply Z.gtb_lt in E; lia|].
    exists st. rewrite Z.min_l by (apply gtb_false in E; lia).
    repeat split; auto; apply HJ.
  - simpl. destruct (tot >? N)%Z eqn:E.
    + apply Z.gtb_lt in E.
      pose proof (unsnoc_spec (snd st)) as U. destruct (unsnoc (snd st)) as [[rest c]|].
      * destruct st as [one uc]. simpl in U. subst uc.
        destruct HJ as [Ht Hb]. simpl in Hb, Hn, Ht.
        apply Forall_app in Hb. destruct Hb as [Hb1 Hb2]. apply Forall_inv in Hb2.
        set (st1 := place N (c_idx c) (c_w c) (c_n c - 1) (one, rest)).
        assert (J1 : J (tot - 1) st1).
        { constructor.
          - unfold st1. rewrite (asum_perm _ _ (place_perm _ _ _ _ _)). simpl.
            unfold alloc in *. simpl in *. rewrite map_app in Ht. simpl in Ht.
            rewrite !asum_app in *. simpl in Ht. lia.
          - unfold st1. apply place_big; [lia|assumption]. }
        assert (L1 : (length (fst st1) + length (snd st1) = length one + length (rest ++ [c]))%nat).
        { unfold st1. rewrite place_len. simpl. rewrite app_length. simpl. lia. }
        destruct (IH (tot - 1)%Z st1 J1) as (st' & R & J' & P & L); [lia|lia|].
        exists st'. simpl fst. simpl snd. fold st1. split; [exact R|].
        split; [rewrite Z.min_r in * by lia; exact J'|]. split.
        -- eapply Permutation_trans; [exact P|]. unfold st1.
           eapply Permutation_trans; [apply Permutation_map, place_perm|].
           unfold alloc. simpl. rewrite !map_app, !map_map. simpl.
           rewrite app_assoc. apply Permutation_cons_append.
        -- lia.
      * (* empty under_consideration: then tot = #one <= N, contradiction *)
        exfalso. destruct st as [one uc]. simpl in U. subst uc.
        destruct HJ as [Ht _]. unfold alloc in Ht. simpl in Ht.
        rewrite app_nil_r, asum_ones in Ht. simpl in Hn. lia.
    + exists st. rewrite Z.min_l by (apply gtb_false in E; lia).
      repeat split; auto; apply HJ.
Qed.

(* the first guesses *)
Lemma guess_pos N w : (0 < N)%Z -> 0 < w -> (1 <= guess N w)%Z.
Proof.
  intros HN Hw. unfold guess.
  assert (H : 0 < w * inject_Z N).
  { apply Qmult_lt_0_compat; [assumption|]. change 0 with (inject_Z 0). rewrite <- Zlt_Qlt. assumption. }
  pose proof (Qle_ceiling (w * inject_Z N)) as C.
  assert (H2 : inject_Z 0 < inject_Z (Qceiling (w * inject_Z N))).
  { eapply Qlt_le_trans; [exact H|exact C]. }
  rewrite <- Zlt_Qlt in H2. lia.
Qed.

Lemma filtered_pos ws iw : In iw (filtered ws) -> 0 < snd iw.
Proof.
  unfold filtered. rewrite filter_In. intros [_ H].
  apply negb_true_iff in H. destruct (Qlt_le_dec 0 (snd iw)) as [L|L]; [assumption|].
  apply Qle_bool_iff in L. congruence.
Qed.

Definition gsum (N : Z) (fs : list (nat * Q)) : Z :=
  fold_right (fun iw acc => guess N (snd iw) + acc)%Z 0%Z fs.

Lemma init_ok N : forall fs acc,
  (0 < N)%Z -> (forall iw, In iw fs -> 0 < snd iw) -> J (fst acc) (snd acc) ->
  Forall (fun p => (1 <= snd p)%Z) (alloc (snd acc)) ->
  let r := fold_left (init_step N) fs acc in
  J (fst r) (snd r) /\ fst r = (fst acc + gsum N fs)%Z /\
  Permutation (map fst (alloc (snd r))) (map fst (alloc (snd acc)) ++ map fst fs) /\
  (length (fst (snd r)) + length (snd (snd r)) =
   length (fst (snd acc)) + length (snd (snd acc)) + length fs)%nat.
Proof.
  induction fs as [|iw fs IH]; intros acc HN Hp HJ H1; simpl.
  - rewrite app_nil_r. repeat split; auto; try apply HJ; lia.
  - assert (G : (1 <= guess N (snd iw))%Z) by (apply guess_pos; [assumption|apply Hp; left; reflexivity]).
    set (acc1 := init_step N acc iw).
    assert (J1 : J (fst acc1) (snd acc1)).
    { unfold acc1, init_step. simpl. constructor.
      - rewrite (asum_perm _ _ (place_perm _ _ _ _ _)). simpl. rewrite (j_tot _ _ HJ). lia.
      - apply place_big; [assumption|apply HJ]. }
    assert (H1' : Forall (fun p => (1 <= snd p)%Z) (alloc (snd acc1))).
    { unfold acc1, init_step. simpl.
      eapply Permutation_Forall; [apply Permutation_sym, place_perm|].
      constructor; [simpl; assumption|assumption]. }
    destruct (IH acc1 HN (fun x Hx => Hp x (or_intror Hx)) J1 H1') as (A & B & C & D).
    split; [exact A|]. split.
    + rewrite B. unfold acc1, init_step. simpl. lia.
    + split.
      * eapply Permutation_trans; [exact C|]. unfold acc1, init_step. simpl.
        eapply Permutation_trans.
        -- apply Permutation_app_tail. apply Permutation_map. apply place_perm.
        -- simpl. apply Permutation_middle.
      * rewrite D. unfold acc1, init_step. simpl. rewrite place_len. lia.
Qed.

Lemma J_counts tot st : J tot st -> Forall (fun p => (1 <= snd p)%Z) (alloc st).
Proof.
  intros [_ Hb]. unfold alloc. apply Forall_app. split.
  - apply Forall_forall. intros p Hp. apply in_map_iff in Hp. destruct Hp as (i & <- & _). simpl. lia.
  - apply Forall_forall. intros p Hp. apply in_map_iff in Hp. destruct Hp as (c & <- & Hc).
    rewrite Forall_forall in Hb. specialize (Hb c Hc). simpl. lia.
Qed.

(* main statement on the allocation reached by the loop *)
Lemma roundoff_alloc ws N :
  (Z.of_nat (length (filtered ws)) <= N)%Z -> (N <= gsum N (filtered ws))%Z ->
  let ts := init N (filtered ws) in
  exists st, loop (Z.to_nat (fst ts - N)) N (fst ts) (snd ts) = Done st /\
    asum (alloc st) = N /\
    Permutation (map fst (alloc st)) (map fst (filtered ws)) /\
    Forall (fun p => (1 <= snd p)%Z) (alloc st).
Proof.
  intros Hlen Hsum ts.
  destruct (filtered ws) as [|iw0 fs0] eqn:EF.
  - (* no state with positive weight *)
    simpl in *. exists ([], []). simpl. assert (N = 0)%Z by lia. subst N. simpl.
    repeat split; auto. constructor.
  - assert (HN : (0 < N)%Z) by (simpl in Hlen; lia).
    assert (Hp : forall iw, In iw (iw0 :: fs0) -> 0 < snd iw).
    { intros iw Hin. apply (filtered_pos ws). rewrite EF. exact Hin. }
    assert (J0 : J (fst (0%Z, (@nil nat, @nil cand))) (snd (0%Z, (@nil nat, @nil cand)))).
    { constructor; simpl; [reflexivity|constructor]. }
    destruct (init_ok N (iw0 :: fs0) (0%Z, ([], [])) HN Hp J0 (Forall_nil _)) as (A & B & C & D).
    fold (init N (iw0 :: fs0)) in A, B, C, D. fold ts in A, B, C, D. cbn [fst] in B. simpl in C, D.
    destruct (loop_ok N (Z.to_nat (fst ts - N)) (fst ts) (snd ts) A) as (st & R & J' & P & L).
    + rewrite D. exact Hlen.
    + lia.
    + exists st. split; [exact R|]. split; [|split].
      * rewrite <- (j_tot _ _ J'). lia.
      * eapply Permutation_trans; [exact P|exact C].
      * eapply J_counts; eauto.
Qed.

Lemma roundoff_too_few ws N :
  (N < Z.of_nat (length (filtered ws)))%Z -> min_roundoff ws N = EValueError.
Proof.
  intros H. unfold min_roundoff.
  destruct (Z.of_nat (length (filtered ws)) >? N)%Z eqn:E; [reflexivity|].
  apply gtb_false in E. lia.
Qed.

(* when the positive weights sum to at least one, the first guesses are not
   too few *)
Fixpoint qsum (fs : list (nat * Q)) : Q :=
  match fs with [] => 0 | iw :: fs' => snd iw + qsum fs' end.

Lemma gsum_ge N fs : (0 <= N)%Z -> qsum fs * inject_Z N <= inject_Z (gsum N fs).
Proof.
  intros HN. induction fs as [|iw fs IH]; simpl.
  - rewrite Qmult_0_l. apply Qle_refl.
  - rewrite inject_Z_plus. rewrite Qmult_plus_distr_l.
    apply Qplus_le_compat; [apply Qle_ceiling|exact IH].
Qed.

Lemma gsum_enough N fs : (0 <= N)%Z -> 1 <= qsum fs -> (N <= gsum N fs)%Z.
Proof.
  intros HN H1. rewrite Zle_Qle.
  eapply Qle_trans; [|apply gsum_ge; assumption].
  rewrite <- (Qmult_1_l (inject_Z N)) at 1.
  apply Qmult_le_compat_r; [assumption|]. change 0 with (inject_Z 0). rewrite <- Zle_Qle. assumption.
Qed.
