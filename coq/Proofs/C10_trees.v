(* C10 - the memoised enumeration `tabs` of Model/C10_trees.v lists every
   plane forest of each order together with its weight vector; hence a
   boolean check over the table is a statement about ALL trees. *)
From Coq Require Import List ZArith QArith Bool Lia Arith.
Import ListNotations.
From QV Require Import Model.C10_trees.

Section Enum.
Variable a : list vec.

Lemma order_pos t : (1 <= order t)%nat.
Proof. destruct t. simpl. lia. Qed.

Lemma forder_cons t f : forder (t :: f) = (order t + forder f)%nat.
Proof. reflexivity. Qed.

Lemma order_node f : order (Node f) = S (forder f).
Proof. reflexivity. Qed.

Lemma forder_0 f : forder f = 0%nat -> f = [].
Proof.
  destruct f as [|t f]; [reflexivity|]. rewrite forder_cons.
  pose proof (order_pos t). lia.
Qed.

Lemma Phi_node f : Phi a (Node f) = phiF a f.
Proof. reflexivity. Qed.

Lemma phiF_cons t f : phiF a (t :: f) = vmul (matvec a (Phi a t)) (phiF a f).
Proof. reflexivity. Qed.

Definition complete_F (j : nat) (l : list (fent)) : Prop :=
  forall f, forder f = j -> In (f, phiF a f) l.

Definition inv (m : nat) : Prop :=
  let (Fs, Ts) := tabs a m in
  length Fs = m /\ length Ts = m /\
  (forall j, (j < m)%nat -> complete_F j (nth j Fs [])) /\
  (forall j, (j < m)%nat -> nth j Ts [] = map (mk_tent a) (nth j Fs [])).

Lemma tabs_SS m : tabs a (S (S m)) =
  let (Fs, Ts) := tabs a (S m) in
  let F := next_F Fs Ts in (Fs ++ [F], Ts ++ [map (mk_tent a) F]).
Proof. reflexivity. Qed.

Lemma in_cross (T : list tent) (F : list fent) t u f p :
  In (t, u) T -> In (f, p) F -> In (t :: f, vmul u p) (cross T F).
Proof.
  intros HT HF. unfold cross. apply in_flat_map. exists (t, u). split; [exact HT|].
  apply in_map_iff. exists (f, p). split; [reflexivity|exact HF].
Qed.

Lemma next_F_complete Fs Ts m :
  length Fs = m -> (1 <= m)%nat ->
  (forall j, (j < m)%nat -> complete_F j (nth j Fs [])) ->
  (forall j, (j < m)%nat -> nth j Ts [] = map (mk_tent a) (nth j Fs [])) ->
  complete_F m (next_F Fs Ts).
Proof.
  intros HL Hm HF HT f Hf.
  destruct f as [|t r].
  { simpl in Hf. lia. }
  destruct t as [g].
  rewrite forder_cons, order_node in Hf.
  unfold next_F. rewrite HL.
  apply in_flat_map. exists (S (forder g)). split.
  { apply in_seq. lia. }
  rewrite phiF_cons, Phi_node.
  apply in_cross.
  - replace (S (forder g) - 1)%nat with (forder g) by lia.
    rewrite HT by lia.
    apply in_map_iff. exists (g, phiF a g). split; [reflexivity|].
    apply HF; [lia|reflexivity].
  - apply HF; lia.
Qed.

Lemma inv_all m : (1 <= m)%nat -> inv m.
Proof.
  induction m as [|m IH]; [lia|]. intros _.
  destruct m as [|m].
  - unfold inv. simpl. repeat split.
    + intros j Hj f Hf. destruct j as [|j]; [|lia].
      apply forder_0 in Hf. subst f. simpl. left. reflexivity.
    + intros j Hj. destruct j as [|j]; [reflexivity|lia].
  - assert (IH' : inv (S m)) by (apply IH; lia). clear IH.
    unfold inv in *. rewrite tabs_SS.
    destruct (tabs a (S m)) as [Fs Ts].
    destruct IH' as (HLF & HLT & HF & HT).
    cbv zeta. repeat split.
    + rewrite app_length. simpl. lia.
    + rewrite app_length. simpl. lia.
    + intros j Hj. destruct (Nat.eq_dec j (S m)) as [->|Hne].
      * rewrite app_nth2 by lia. rewrite HLF, Nat.sub_diag. simpl.
        apply next_F_complete; auto. lia.
      * rewrite app_nth1 by lia. apply HF. lia.
    + intros j Hj. destruct (Nat.eq_dec j (S m)) as [->|Hne].
      * rewrite !app_nth2 by lia. rewrite HLF, HLT, Nat.sub_diag. reflexivity.
      * rewrite !app_nth1 by lia. apply HT. lia.
Qed.

(* every plane forest of order < m is in the table with its weight vector *)
Lemma all_forests_complete m f :
  (forder f < m)%nat -> In (f, phiF a f) (all_forests a m).
Proof.
  intros Hlt. assert (Hm : (1 <= m)%nat) by lia.
  pose proof (inv_all m Hm) as I. unfold inv in I. unfold all_forests.
  destruct (tabs a m) as [Fs Ts]. destruct I as (HLF & _ & HF & _). simpl.
  apply in_concat. exists (nth (forder f) Fs []). split.
  - apply nth_In. lia.
  - apply HF; [lia|reflexivity].
Qed.

(* a check over the table is a statement about every tree *)
Lemma order_check_all k b p :
  order_check a k b p = true ->
  forall t, (order t <= p)%nat ->
    dclose k (ddot b (Phi a t)) (gamma t) 1 = true.
Proof.
  intros H t Ht. destruct t as [f].
  unfold order_check in H. rewrite forallb_forall in H.
  specialize (H (f, phiF a f)).
  rewrite order_node in Ht.
  apply H. apply all_forests_complete. lia.
Qed.

Lemma dense_check_all k bi q p :
  dense_check a k bi q p = true ->
  forall t j, (order t <= p)%nat -> (j < q)%nat ->
    dclose k (ddot (column j bi) (Phi a t)) (gamma t)
           (if Nat.eqb (S j) (order t) then 1 else 0) = true.
Proof.
  intros H t j Ht Hj. destruct t as [f].
  unfold dense_check in H. rewrite forallb_forall in H.
  rewrite order_node in Ht.
  assert (Hin : In (f, phiF a f) (all_forests a p)) by (apply all_forests_complete; lia).
  specialize (H _ Hin). rewrite forallb_forall in H.
  assert (Hs : In j (seq 0 q)) by (apply in_seq; lia).
  specialize (H j Hs). exact H.
Qed.
Lemma full_check_all k kd b bh bi q p pe pd :
  full_check a k kd b bh bi q p pe pd = true ->
  forall t, (order t <= p)%nat ->
    dclose k (ddot b (Phi a t)) (gamma t) 1 = true /\
    ((order t <= pe)%nat -> dclose k (ddot bh (Phi a t)) (gamma t) 1 = true) /\
    ((order t <= pd)%nat -> forall j, (j < q)%nat ->
       dclose kd (ddot (column j bi) (Phi a t)) (gamma t) (dense_target j (order t)) = true).
Proof.
  intros H t Ht. destruct t as [f].
  unfold full_check in H. rewrite forallb_forall in H.
  rewrite order_node in Ht.
  assert (Hin : In (f, phiF a f) (all_forests a p)) by (apply all_forests_complete; lia).
  specialize (H _ Hin). cbv zeta in H.
  apply andb_prop in H. destruct H as [H H3].
  apply andb_prop in H. destruct H as [H1 H2].
  split; [exact H1|]. split.
  - intros Hpe. apply orb_prop in H2. destruct H2 as [H2|H2]; [|exact H2].
    apply Nat.ltb_lt in H2. simpl in H2. rewrite order_node in Hpe. lia.
  - intros Hpd j Hj. apply orb_prop in H3. destruct H3 as [H3|H3].
    + apply Nat.ltb_lt in H3. simpl in H3. rewrite order_node in Hpd. lia.
    + rewrite forallb_forall in H3. apply H3. apply in_seq. lia.
Qed.
End Enum.

(* ------------------------------------------------------------------------
   Meaning of the dyadic arithmetic in Q. *)
From Coq Require Import Qabs Lqa Field.
Local Open Scope Q_scope.

Lemma injZ_pos z : (0 < z)%Z -> 0 < inject_Z z.
Proof. intros H. unfold Qlt, inject_Z. simpl. lia. Qed.

Lemma dclose_sound k m e g tgt :
  (0 <= e)%Z -> (0 <= k)%Z -> dclose k (m, e) g tgt = true ->
  Qabs (dy2Q (m, e) * inject_Z g - inject_Z tgt) <= 1 / inject_Z (2 ^ k).
Proof.
  intros He Hk H. unfold dclose in H. apply Z.leb_le in H.
  unfold dy2Q. simpl fst. simpl snd.
  set (P := (2 ^ e)%Z) in *. set (K := (2 ^ k)%Z) in *.
  assert (HP : (0 < P)%Z) by (apply Z.pow_pos_nonneg; lia).
  assert (HK : (0 < K)%Z) by (apply Z.pow_pos_nonneg; lia).
  pose proof (injZ_pos P HP) as HPq. pose proof (injZ_pos K HK) as HKq.
  set (D := (m * g - tgt * P)%Z) in *.
  assert (E : inject_Z m / inject_Z P * inject_Z g - inject_Z tgt == inject_Z D / inject_Z P).
  { unfold D, Z.sub. rewrite inject_Z_plus, inject_Z_opp, !inject_Z_mult. field. lra. }
  rewrite E. apply Qabs_Qle_condition. split.
  - apply Qle_shift_div_l; [exact HPq|].
    setoid_replace (- (1 / inject_Z K) * inject_Z P) with ((- inject_Z P) / inject_Z K) by (field; lra).
    apply Qle_shift_div_r; [exact HKq|].
    rewrite <- inject_Z_opp, <- inject_Z_mult. rewrite <- Zle_Qle. lia.
  - apply Qle_shift_div_r; [exact HPq|].
    setoid_replace (1 / inject_Z K * inject_Z P) with (inject_Z P / inject_Z K) by (field; lra).
    apply Qle_shift_div_l; [exact HKq|].
    rewrite <- inject_Z_mult. rewrite <- Zle_Qle. lia.
Qed.

Definition dwf (x : dy) : Prop := (0 <= snd x)%Z.

Lemma injZ_pow2_nz e : (0 <= e)%Z -> ~ inject_Z (2 ^ e) == 0.
Proof.
  intros He H. assert (0 < 2 ^ e)%Z by (apply Z.pow_pos_nonneg; lia).
  unfold Qeq, inject_Z in H. simpl in H. lia.
Qed.

Lemma dmul_sound x y : dwf x -> dwf y ->
  dwf (dmul x y) /\ dy2Q (dmul x y) == dy2Q x * dy2Q y.
Proof.
  destruct x as [m1 e1], y as [m2 e2]. unfold dwf, dy2Q, dmul. simpl. intros H1 H2.
  split; [lia|].
  rewrite Z.pow_add_r by lia. rewrite !inject_Z_mult.
  field. split; apply injZ_pow2_nz; assumption.
Qed.

Lemma dadd_sound x y : dwf x -> dwf y ->
  dwf (dadd x y) /\ dy2Q (dadd x y) == dy2Q x + dy2Q y.
Proof.
  destruct x as [m1 e1], y as [m2 e2]. unfold dwf, dy2Q, dadd. simpl. intros H1 H2.
  destruct (Z.leb_spec e1 e2) as [L|L]; simpl.
  - split; [lia|].
    rewrite Z.shiftl_mul_pow2 by lia.
    replace (2 ^ e2)%Z with (2 ^ e1 * 2 ^ (e2 - e1))%Z
      by (rewrite <- Z.pow_add_r by lia; f_equal; lia).
    rewrite inject_Z_plus, !inject_Z_mult.
    field. split; apply injZ_pow2_nz; lia.
  - split; [lia|].
    rewrite Z.shiftl_mul_pow2 by lia.
    replace (2 ^ e1)%Z with (2 ^ e2 * 2 ^ (e1 - e2))%Z
      by (rewrite <- Z.pow_add_r by lia; f_equal; lia).
    rewrite inject_Z_plus, !inject_Z_mult.
    field. split; apply injZ_pow2_nz; lia.
Qed.

Lemma q2dy_sound q : q_is_dyadic q = true -> dwf (q2dy q) /\ dy2Q (q2dy q) == q.
Proof.
  destruct q as [n d]. unfold q_is_dyadic, q2dy, dwf, dy2Q. cbn [Qnum Qden fst snd]. intros H.
  apply Z.eqb_eq in H. split; [apply Z.log2_nonneg|].
  rewrite <- H. symmetry. apply Qmake_Qdiv.
Qed.
