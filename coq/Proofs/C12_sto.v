(* Proofs for Model/C12_sto.v: index alignment of dW, wiener_process and
   measurement, heterodyne grouping, _trajectories_attr. *)
From Coq Require Import List ZArith Bool Arith Lia.
Import ListNotations.
From QV Require Import Model.C12_sto.
Local Open Scope Z_scope.

(* ------------------------------------------------------------ nth lemmas *)
Lemma nth_map_seq : forall A (f : nat -> A) n i d, (i < n)%nat ->
  nth i (map f (seq 0 n)) d = f i.
Proof.
  intros A f n i d H.
  rewrite (nth_indep _ d (f 0%nat)) by (rewrite map_length, seq_length; exact H).
  rewrite (map_nth f (seq 0 n) 0%nat i). rewrite seq_nth by exact H. reflexivity.
Qed.

Lemma nth_map_in : forall A B (f : A -> B) l i dA dB, (i < length l)%nat ->
  nth i (map f l) dB = f (nth i l dA).
Proof.
  intros A B f l i dA dB H.
  rewrite (nth_indep _ dB (f dA)) by (rewrite map_length; exact H).
  apply map_nth.
Qed.

Lemma cumsum_length : forall l acc, length (cumsum acc l) = length l.
Proof. induction l as [|x l IH]; intros acc; simpl; [reflexivity|]. rewrite IH. reflexivity. Qed.

Lemma cumsum_step : forall l acc k, (k < length l)%nat ->
  nth (S k) (acc :: cumsum acc l) 0 = nth k (acc :: cumsum acc l) 0 + nth k l 0.
Proof.
  induction l as [|x l IH]; intros acc k H; [simpl in H; lia|].
  destruct k as [|k].
  - reflexivity.
  - simpl in H.
    change (nth (S (S k)) (acc :: cumsum acc (x :: l)) 0)
      with (nth (S k) ((acc + x) :: cumsum (acc + x) l) 0).
    change (nth (S k) (acc :: cumsum acc (x :: l)) 0)
      with (nth k ((acc + x) :: cumsum (acc + x) l) 0).
    change (nth (S k) (x :: l) 0) with (nth k l 0).
    apply IH. lia.
Qed.

Lemma nth_removelast : forall A (l : list A) j d, (S j < length l)%nat ->
  nth j (removelast l) d = nth j l d.
Proof.
  induction l as [|x l IH]; intros j d H; [simpl in H; lia|].
  destruct l as [|y l]; [simpl in H; lia|].
  change (removelast (x :: y :: l)) with (x :: removelast (y :: l)).
  destruct j as [|j]; [reflexivity|]. simpl in H.
  change (nth (S j) (x :: removelast (y :: l)) d) with (nth j (removelast (y :: l)) d).
  change (nth (S j) (x :: y :: l) d) with (nth j (y :: l) d).
  apply IH. simpl. lia.
Qed.

Lemma removelast_length : forall A (l : list A), length (removelast l) = pred (length l).
Proof.
  induction l as [|x l IH]; [reflexivity|]. destruct l as [|y l]; [reflexivity|].
  change (removelast (x :: y :: l)) with (x :: removelast (y :: l)).
  cbn [length]. rewrite IH. reflexivity.
Qed.

Lemma nth_tl : forall A (l : list A) j d, nth j (tl l) d = nth (S j) l d.
Proof. intros A l j d. destruct l; [destruct j; reflexivity|reflexivity]. Qed.

Lemma pair_sums_length : forall l, length (pair_sums l) = pred (length l).
Proof.
  induction l as [|x l IH]; [reflexivity|]. destruct l as [|y l]; [reflexivity|].
  change (pair_sums (x :: y :: l)) with ((x + y) :: pair_sums (y :: l)).
  cbn [length]. rewrite IH. reflexivity.
Qed.

Lemma nth_pair_sums : forall l j, (S j < length l)%nat ->
  nth j (pair_sums l) 0 = nth j l 0 + nth (S j) l 0.
Proof.
  induction l as [|x l IH]; intros j H; [simpl in H; lia|].
  destruct l as [|y l]; [simpl in H; lia|].
  change (pair_sums (x :: y :: l)) with ((x + y) :: pair_sums (y :: l)).
  destruct j as [|j]; [reflexivity|]. simpl in H.
  change (nth (S j) ((x + y) :: pair_sums (y :: l)) 0) with (nth j (pair_sums (y :: l)) 0).
  change (nth (S j) (x :: y :: l) 0) with (nth j (y :: l) 0).
  change (nth (S (S j)) (x :: y :: l) 0) with (nth (S j) (y :: l) 0).
  apply IH. simpl. lia.
Qed.

Lemma diffz_length : forall l, length (diffz l) = pred (length l).
Proof.
  induction l as [|x l IH]; [reflexivity|]. destruct l as [|y l]; [reflexivity|].
  change (diffz (x :: y :: l)) with ((y - x) :: diffz (y :: l)).
  cbn [length]. rewrite IH. reflexivity.
Qed.

Lemma nth_diffz : forall l j, (S j < length l)%nat ->
  nth j (diffz l) 0 = nth (S j) l 0 - nth j l 0.
Proof.
  induction l as [|x l IH]; intros j H; [simpl in H; lia|].
  destruct l as [|y l]; [simpl in H; lia|].
  change (diffz (x :: y :: l)) with ((y - x) :: diffz (y :: l)).
  destruct j as [|j]; [reflexivity|]. simpl in H.
  change (nth (S j) ((y - x) :: diffz (y :: l)) 0) with (nth j (diffz (y :: l)) 0).
  change (nth (S j) (x :: y :: l) 0) with (nth j (y :: l) 0).
  change (nth (S (S j)) (x :: y :: l) 0) with (nth (S j) (y :: l) 0).
  apply IH. simpl. lia.
Qed.

(* heterodyne reshape: group g holds rows 2g and 2g+1 *)
Lemma pair_rows_length : forall A (rows : list A), Nat.even (length rows) = true ->
  (2 * length (pair_rows rows) = length rows)%nat.
Proof.
  intros A rows. remember (length rows) as n eqn:E. revert rows E.
  induction n as [n IH] using lt_wf_ind. intros rows E Ev.
  destruct rows as [|a [|b r]].
  - simpl in *. subst n. reflexivity.
  - simpl in E. subst n. discriminate.
  - simpl in E. subst n. change (pair_rows (a :: b :: r)) with ((a, b) :: pair_rows r).
    cbn [length]. simpl in Ev.
    specialize (IH (length r) ltac:(lia) r eq_refl Ev). lia.
Qed.

Lemma nth_pair_rows : forall A (rows : list A) g d, (2 * g + 1 < length rows)%nat ->
  nth g (pair_rows rows) (d, d) = (nth (2 * g) rows d, nth (2 * g + 1) rows d).
Proof.
  intros A rows g. revert rows. induction g as [|g IH]; intros rows d H.
  - destruct rows as [|a [|b r]]; simpl in H; try lia. reflexivity.
  - destruct rows as [|a [|b r]]; simpl in H; try lia.
    change (pair_rows (a :: b :: r)) with ((a, b) :: pair_rows r).
    change (nth (S g) ((a, b) :: pair_rows r) (d, d)) with (nth g (pair_rows r) (d, d)).
    rewrite IH by lia.
    replace (2 * S g)%nat with (S (S (2 * g))) by lia.
    replace (S (S (2 * g)) + 1)%nat with (S (S (2 * g + 1))) by lia.
    reflexivity.
Qed.

(* ------------------------------------------------------------------- dW *)
Lemma noise_T_shape : forall noise,
  length (noise_T noise) = nrows noise
  /\ forall i, (i < nrows noise)%nat -> length (nth i (noise_T noise) []) = length noise.
Proof.
  intros noise. unfold noise_T. split; [rewrite map_length, seq_length; reflexivity|].
  intros i H. rewrite nth_map_seq by exact H. apply map_length.
Qed.

Lemma noise_T_entry : forall noise i j, (i < nrows noise)%nat -> (j < length noise)%nat ->
  nth j (nth i (noise_T noise) []) 0 = nth i (nth j noise []) 0.
Proof.
  intros noise i j Hi Hj. unfold noise_T. rewrite nth_map_seq by exact Hi.
  rewrite (nth_map_in _ _ (fun v => nth i v 0) noise j [] 0 Hj). reflexivity.
Qed.

Lemma dW_homodyne : forall r, st_het r = false -> st_noise r <> [] ->
  rectangular (st_noise r) = true ->
  dW r = SOk (Homodyne (noise_T (st_noise r))).
Proof.
  intros r Hh Hn Hr. unfold dW. destruct (st_noise r) as [|v t] eqn:E; [contradiction|].
  rewrite Hr. unfold shape_rows. rewrite Hh. reflexivity.
Qed.

Lemma dW_heterodyne : forall r, st_het r = true -> st_noise r <> [] ->
  rectangular (st_noise r) = true -> Nat.even (nrows (st_noise r)) = true ->
  dW r = SOk (Heterodyne (pair_rows (noise_T (st_noise r)))).
Proof.
  intros r Hh Hn Hr He. unfold dW. destruct (st_noise r) as [|v t] eqn:E; [contradiction|].
  rewrite Hr. unfold shape_rows. rewrite Hh.
  destruct (noise_T_shape (v :: t)) as [L _]. rewrite L, He. reflexivity.
Qed.

Lemma dW_no_noise : forall r, st_noise r = [] ->
  dW r = if st_het r then SRaise SIndexError else SOk (Homodyne []).
Proof. intros r H. unfold dW. rewrite H. reflexivity. Qed.

(* -------------------------------------------------------- wiener_process *)
Definition W_rows (noise : list (list Z)) : list (list Z) :=
  map (fun row => 0 :: cumsum 0 row) (noise_T noise).

Lemma W_rows_shape : forall noise,
  length (W_rows noise) = nrows noise
  /\ forall i, (i < nrows noise)%nat -> length (nth i (W_rows noise) []) = S (length noise).
Proof.
  intros noise. destruct (noise_T_shape noise) as [L1 L2]. unfold W_rows. split.
  - rewrite map_length. exact L1.
  - intros i H.
    rewrite (nth_map_in _ _ (fun row => 0 :: cumsum 0 row) (noise_T noise) i [] [])
      by (rewrite L1; exact H).
    cbn [length]. rewrite cumsum_length, (L2 i H). reflexivity.
Qed.

Lemma W_rows_entries : forall noise i, (i < nrows noise)%nat ->
  nth 0 (nth i (W_rows noise) []) 0 = 0
  /\ forall k, (k < length noise)%nat ->
       nth (S k) (nth i (W_rows noise) []) 0
       = nth k (nth i (W_rows noise) []) 0 + nth i (nth k noise []) 0.
Proof.
  intros noise i H. destruct (noise_T_shape noise) as [L1 L2]. unfold W_rows.
  rewrite (nth_map_in _ _ (fun row => 0 :: cumsum 0 row) (noise_T noise) i [] [])
    by (rewrite L1; exact H).
  split; [reflexivity|]. intros k Hk.
  rewrite cumsum_step by (rewrite (L2 i H); exact Hk).
  rewrite noise_T_entry by assumption. reflexivity.
Qed.

Lemma wiener_ok : forall r, st_noise r <> [] -> rectangular (st_noise r) = true ->
  S (length (st_noise r)) = length (st_times r) ->
  wiener_process r = shape_rows (st_het r) (W_rows (st_noise r)).
Proof.
  intros r Hn Hr Hl. unfold wiener_process.
  destruct (st_noise r) as [|v t] eqn:E; [contradiction|].
  rewrite Hr, <- Hl, Nat.eqb_refl. reflexivity.
Qed.

Lemma wiener_no_noise : forall r, st_noise r = [] -> wiener_process r = SRaise SIndexError.
Proof. intros r H. unfold wiener_process. rewrite H. reflexivity. Qed.

(* ----------------------------------------------------------- measurement *)
Definition meas_wf (r : straj) : bool :=
  rectangular (st_noise r)
  && negb (Nat.eqb (length (noise_T (st_noise r))) 0)
  && Nat.eqb (length (st_factor r)) (length (noise_T (st_noise r)))
  && Nat.eqb (length (st_noise r)) (length (diffz (st_times r)))
  && Nat.eqb (length (st_mexp r)) (length (noise_T (st_noise r)))
  && forallb (fun row => Nat.eqb (length row) (length (st_times r))) (st_mexp r).

Definition meas_rows (o : smopt) (r : straj) : list (list entry) :=
  map (fun ms => add_rows (mpart o (fst ms)) (snd ms))
      (combine (st_mexp r)
               (noise_scaled (st_factor r) (noise_T (st_noise r)) (diffz (st_times r)))).

Definition conv_ok (o : smopt) : bool :=
  match o with SMStart | SMMiddle | SMEnd => true | _ => false end.

Lemma measurement_ok : forall r, conv_ok (st_opt r) = true -> st_mexp r <> [] ->
  meas_wf r = true ->
  measurement r = shape_rows (st_het r) (meas_rows (st_opt r) r).
Proof.
  intros r Ho Hm Hw. unfold measurement.
  destruct (st_mexp r) as [|row rows] eqn:E; [contradiction|].
  unfold meas_wf in Hw. rewrite E in Hw.
  destruct (st_opt r) eqn:O; try discriminate; cbv zeta; rewrite Hw; unfold meas_rows;
    rewrite E; reflexivity.
Qed.

Lemma measurement_off : forall r, st_opt r = SMOff -> measurement r = SNone.
Proof. intros r H. unfold measurement. rewrite H. reflexivity. Qed.

Lemma measurement_no_mops : forall r, st_opt r <> SMOff -> st_mexp r = [] ->
  measurement r = SOk (Homodyne []).
Proof.
  intros r H E. unfold measurement. rewrite E. destruct (st_opt r); try reflexivity.
  contradiction.
Qed.

Lemma measurement_other : forall r, st_opt r = SMOther -> st_mexp r <> [] ->
  measurement r = SRaise SValueError.
Proof.
  intros r H E. unfold measurement. rewrite H.
  destruct (st_mexp r); [contradiction|reflexivity].
Qed.

(* the expectation part of entry j under each convention *)
Definition mterm (o : smopt) (row : list Z) (j : nat) : Z * Z :=
  match o with
  | SMStart => (nth j row 0, 1)
  | SMEnd => (nth (S j) row 0, 1)
  | SMMiddle => (nth j row 0 + nth (S j) row 0, 2)
  | _ => (0, 1)
  end.

Lemma mpart_length : forall o row, conv_ok o = true -> length (mpart o row) = pred (length row).
Proof.
  intros o row H. destruct o; try discriminate; unfold mpart; rewrite map_length.
  - apply removelast_length.
  - apply pair_sums_length.
  - destruct row; reflexivity.
Qed.

Lemma nth_mpart : forall o row j, conv_ok o = true -> (S j < length row)%nat ->
  nth j (mpart o row) (0, 1) = mterm o row j.
Proof.
  intros o row j Ho H. destruct o; try discriminate; unfold mpart, mterm.
  - rewrite (nth_map_in _ _ (fun m => (m, 1)) (removelast row) j 0 (0, 1))
      by (rewrite removelast_length; lia).
    rewrite nth_removelast by exact H. reflexivity.
  - rewrite (nth_map_in _ _ (fun m => (m, 2)) (pair_sums row) j 0 (0, 1))
      by (rewrite pair_sums_length; lia).
    rewrite nth_pair_sums by exact H. reflexivity.
  - rewrite (nth_map_in _ _ (fun m => (m, 1)) (tl row) j 0 (0, 1))
      by (destruct row; simpl in *; lia).
    rewrite nth_tl. reflexivity.
Qed.

Lemma forallb_nth : forall A (p : A -> bool) l i d, forallb p l = true ->
  (i < length l)%nat -> p (nth i l d) = true.
Proof.
  intros A p l i d H Hi. rewrite forallb_forall in H. apply H. apply nth_In. exact Hi.
Qed.

(* entry [i][j] of the measurement record *)
Lemma meas_rows_entry : forall r i j,
  conv_ok (st_opt r) = true -> meas_wf r = true ->
  (i < nrows (st_noise r))%nat -> (j < length (st_noise r))%nat ->
  length (meas_rows (st_opt r) r) = nrows (st_noise r)
  /\ length (nth i (meas_rows (st_opt r) r) []) = length (st_noise r)
  /\ nth j (nth i (meas_rows (st_opt r) r) []) (0, 1, 0, 0)
     = (fst (mterm (st_opt r) (nth i (st_mexp r) []) j),
        snd (mterm (st_opt r) (nth i (st_mexp r) []) j),
        nth i (st_factor r) 0 * nth i (nth j (st_noise r) []) 0,
        nth (S j) (st_times r) 0 - nth j (st_times r) 0).
Proof.
  intros r i j Ho Hw Hi Hj.
  unfold meas_wf in Hw.
  repeat (apply andb_true_iff in Hw; destruct Hw as [Hw ?]).
  rename H into Hrows. rename H0 into Hmlen. rename H1 into Hsteps. rename H2 into Hflen.
  rename H3 into Hnz. rename Hw into Hrect.
  apply Nat.eqb_eq in Hmlen. apply Nat.eqb_eq in Hsteps. apply Nat.eqb_eq in Hflen.
  destruct (noise_T_shape (st_noise r)) as [L1 L2]. rewrite L1 in *.
  set (nT := noise_T (st_noise r)) in *. set (dts := diffz (st_times r)) in *.
  assert (Lns : length (noise_scaled (st_factor r) nT dts) = nrows (st_noise r)).
  { unfold noise_scaled. rewrite map_length, combine_length, Hflen.
    rewrite L1. apply Nat.min_id. }
  assert (Lc : length (combine (st_mexp r) (noise_scaled (st_factor r) nT dts))
               = nrows (st_noise r)).
  { rewrite combine_length, Lns, Hmlen. apply Nat.min_id. }
  unfold meas_rows. fold nT. fold dts.
  split; [rewrite map_length; exact Lc|].
  rewrite (nth_map_in _ _ (fun ms => add_rows (mpart (st_opt r) (fst ms)) (snd ms))
             (combine (st_mexp r) (noise_scaled (st_factor r) nT dts)) i ([], []) [])
    by (rewrite Lc; exact Hi).
  rewrite combine_nth by (rewrite Lns; exact Hmlen). cbn [fst snd].
  (* row i of noise_scaled *)
  assert (Rs : nth i (noise_scaled (st_factor r) nT dts) []
               = map (fun nd => (nth i (st_factor r) 0 * fst nd, snd nd))
                     (combine (nth i nT []) dts)).
  { unfold noise_scaled.
    rewrite (nth_map_in _ _ (fun fr => map (fun nd => (fst fr * fst nd, snd nd))
                                         (combine (snd fr) dts))
               (combine (st_factor r) nT) i (0, []) [])
      by (rewrite combine_length, Hflen, L1, Nat.min_id; exact Hi).
    rewrite combine_nth by (rewrite L1; exact Hflen). reflexivity. }
  rewrite Rs.
  assert (Lrow : length (nth i nT []) = length (st_noise r)) by (apply L2; exact Hi).
  assert (Lmrow : length (nth i (st_mexp r) []) = length (st_times r)).
  { apply Nat.eqb_eq. apply (forallb_nth _ _ _ i [] Hrows). rewrite Hmlen. exact Hi. }
  assert (Ldts : length dts = length (st_noise r)) by (symmetry; exact Hsteps).
  assert (Ltimes : length (st_times r) = S (length (st_noise r))).
  { unfold dts in Ldts. rewrite diffz_length in Ldts.
    destruct (st_times r); simpl in *; lia. }
  assert (Lmp : length (mpart (st_opt r) (nth i (st_mexp r) [])) = length (st_noise r)).
  { rewrite mpart_length by exact Ho. rewrite Lmrow, Ltimes. reflexivity. }
  assert (Lsc : length (map (fun nd => (nth i (st_factor r) 0 * fst nd, snd nd))
                            (combine (nth i nT []) dts)) = length (st_noise r)).
  { rewrite map_length, combine_length, Lrow, Ldts. apply Nat.min_id. }
  unfold add_rows. split.
  - rewrite map_length, combine_length, Lmp, Lsc. apply Nat.min_id.
  - rewrite (nth_map_in _ _ (fun ms => (fst (fst ms), snd (fst ms), fst (snd ms), snd (snd ms)))
               _ j ((0, 1), (0, 0)) (0, 1, 0, 0))
      by (rewrite combine_length, Lmp, Lsc, Nat.min_id; exact Hj).
    rewrite combine_nth by (rewrite Lmp, Lsc; reflexivity). cbn [fst snd].
    rewrite nth_mpart by (try exact Ho; rewrite Lmrow, Ltimes; lia).
    rewrite (nth_map_in _ _ (fun nd => (nth i (st_factor r) 0 * fst nd, snd nd))
               (combine (nth i nT []) dts) j (0, 0) (0, 0))
      by (rewrite combine_length, Lrow, Ldts, Nat.min_id; exact Hj).
    rewrite combine_nth by (rewrite Lrow, Ldts; reflexivity). cbn [fst snd].
    unfold nT. rewrite noise_T_entry by assumption.
    unfold dts. rewrite nth_diffz by (rewrite Ltimes; lia). reflexivity.
Qed.

(* StochasticResult._trajectories_attr *)
Lemma traj_attr_cases : forall A keep store (per : list A),
  traj_attr keep store per = if keep || store then SOk per else SNone.
Proof. intros A keep store per. destruct keep; destruct store; reflexivity. Qed.
