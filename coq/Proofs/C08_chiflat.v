(* C08 - chi <-> Choi on the flat list matrices of the model, for every number
   of qubits: B (B^dag J B) B^dag = 4^nq J and B^dag (B C B^dag) B = 4^nq C,
   from the orthogonality / completeness of the flat Pauli matrix
   (Proofs/C08_pauli.v) and associativity of the list matrix product. *)
From Coq Require Import List ZArith Bool Arith Lia.
Import ListNotations.
From QV Require Import Model.C08 Proofs.C08 Proofs.C08_pauli.

Section Square.
Variable N : nat.

(* equality of the entries in range *)
Definition meq (A A' : list GZ) : Prop :=
  forall r c, r < N -> c < N -> mget A N r c = mget A' N r c.

Lemma meq_refl A : meq A A. Proof. intros r c _ _. reflexivity. Qed.
Lemma meq_trans A B C : meq A B -> meq B C -> meq A C.
Proof. intros H1 H2 r c Hr Hc. rewrite (H1 r c Hr Hc). apply H2; assumption. Qed.
Lemma meq_sym A B : meq A B -> meq B A.
Proof. intros H r c Hr Hc. symmetry. apply H; assumption. Qed.

Definition mm (A B : list GZ) : list GZ := mmul N N N A B.
Definition scale (c : GZ) (A : list GZ) : list GZ :=
  mbuild N N (fun r k => gmul c (mget A N r k)).

Lemma mm_get A B r c : r < N -> c < N ->
  mget (mm A B) N r c = gS N (fun x => gmul (mget A N r x) (mget B N x c)).
Proof. intros Hr Hc. unfold mm, mmul. rewrite mbuild_get by assumption. reflexivity. Qed.

Lemma scale_get c A r k : r < N -> k < N -> mget (scale c A) N r k = gmul c (mget A N r k).
Proof. intros. unfold scale. rewrite mbuild_get by assumption. reflexivity. Qed.

Lemma mm_cong A A' B B' : meq A A' -> meq B B' -> meq (mm A B) (mm A' B').
Proof.
  intros HA HB r c Hr Hc. rewrite !mm_get by assumption.
  apply gS_ext. intros x Hx. rewrite (HA r x Hr Hx), (HB x c Hx Hc). reflexivity.
Qed.

Lemma mm_assoc A B C : meq (mm (mm A B) C) (mm A (mm B C)).
Proof.
  intros r c Hr Hc. rewrite !mm_get by assumption.
  transitivity (gS N (fun y => gS N (fun x =>
                 gmul (gmul (mget A N r x) (mget B N x y)) (mget C N y c)))).
  { apply gS_ext. intros y Hy. rewrite mm_get by assumption. apply gS_mul_r. }
  rewrite gS_exchange. apply gS_ext. intros x Hx.
  rewrite mm_get by assumption. rewrite gS_mul_l.
  apply gS_ext. intros y Hy. symmetry. apply gmul_assoc.
Qed.

Lemma gS_pick_l c (f : nat -> GZ) r : r < N ->
  gS N (fun x => gmul (if r =? x then c else g0) (f x)) = gmul c (f r).
Proof.
  intros Hr.
  rewrite (gS_ext N _ (fun x => if x =? r then gmul c (f r) else g0)).
  - apply gS_delta. exact Hr.
  - intros x _. rewrite (Nat.eqb_sym r x).
    destruct (x =? r) eqn:E; [apply Nat.eqb_eq in E; subst; reflexivity|apply gmul_0_l].
Qed.

Lemma gS_pick_r c (f : nat -> GZ) k : k < N ->
  gS N (fun x => gmul (f x) (if x =? k then c else g0)) = gmul c (f k).
Proof.
  intros Hk.
  rewrite (gS_ext N _ (fun x => if x =? k then gmul c (f k) else g0)).
  - apply gS_delta. exact Hk.
  - intros x _.
    destruct (x =? k) eqn:E; [apply Nat.eqb_eq in E; subst; apply gmul_comm'|apply gmul_0_r].
Qed.

Lemma mm_id_l c A : meq (mm (scaled_id N c) A) (scale c A).
Proof.
  intros r k Hr Hk. rewrite mm_get, scale_get by assumption.
  rewrite (gS_ext N _ (fun x => gmul (if r =? x then c else g0) (mget A N x k))).
  - apply (gS_pick_l c (fun x => mget A N x k) r Hr).
  - intros x Hx. unfold scaled_id. rewrite mbuild_get by assumption. reflexivity.
Qed.

Lemma mm_id_r c A : meq (mm A (scaled_id N c)) (scale c A).
Proof.
  intros r k Hr Hk. rewrite mm_get, scale_get by assumption.
  rewrite (gS_ext N _ (fun x => gmul (mget A N r x) (if x =? k then c else g0))).
  - apply (gS_pick_r c (fun x => mget A N r x) k Hk).
  - intros x Hx. unfold scaled_id. rewrite mbuild_get by assumption. reflexivity.
Qed.

Lemma mm_scale_r c A B : meq (mm A (scale c B)) (scale c (mm A B)).
Proof.
  intros r k Hr Hk. rewrite scale_get, !mm_get by assumption.
  rewrite gS_mul_l. apply gS_ext. intros x Hx. rewrite scale_get by assumption.
  rewrite !gmul_assoc. f_equal. apply gmul_comm'.
Qed.

Lemma mm_scale_l c A B : meq (mm (scale c A) B) (scale c (mm A B)).
Proof.
  intros r k Hr Hk. rewrite scale_get, !mm_get by assumption.
  rewrite gS_mul_l. apply gS_ext. intros x Hx. rewrite scale_get by assumption.
  symmetry. apply gmul_assoc.
Qed.

Lemma scale_cong c A A' : meq A A' -> meq (scale c A) (scale c A').
Proof. intros H r k Hr Hk. rewrite !scale_get by assumption. rewrite (H r k Hr Hk). reflexivity. Qed.

Lemma scale_scale c c' A : meq (scale c (scale c' A)) (scale (gmul c c') A).
Proof.
  intros r k Hr Hk. rewrite !scale_get by assumption. apply gmul_assoc.
Qed.

(* B (B' J B) B' = c^2 J whenever B B' = c 1 *)
Lemma sandwich B B' J c :
  meq (mm B B') (scaled_id N c) ->
  meq (mm (mm B (mm (mm B' J) B)) B') (scale (gmul c c) J).
Proof.
  intros H.
  (* (B (P B)) B' ~ B ((P B) B') ~ B (P (B B')) ~ B (P cI) ~ B (c P) ~ c (B P) *)
  set (P := mm B' J).
  eapply meq_trans; [apply mm_assoc|].
  eapply meq_trans; [apply mm_cong; [apply meq_refl|apply mm_assoc]|].
  eapply meq_trans; [apply mm_cong; [apply meq_refl|apply mm_cong; [apply meq_refl|exact H]]|].
  eapply meq_trans; [apply mm_cong; [apply meq_refl|apply mm_id_r]|].
  eapply meq_trans; [apply mm_scale_r|].
  (* c (B (B' J)) ~ c ((B B') J) ~ c (cI J) ~ c (c J) *)
  eapply meq_trans; [apply scale_cong; unfold P; apply meq_sym; apply mm_assoc|].
  eapply meq_trans; [apply scale_cong; apply mm_cong; [exact H|apply meq_refl]|].
  eapply meq_trans; [apply scale_cong; apply mm_id_l|].
  apply scale_scale.
Qed.
End Square.

Lemma list_meq N A A' : A = A' -> meq N A A'.
Proof. intros ->. apply meq_refl. Qed.

Lemma gofnat_pow4 n : gmul (gofnat (2 ^ n)) (gofnat (2 ^ n)) = gofnat (4 ^ n).
Proof. rewrite gofnat_mul, pow4. reflexivity. Qed.

(* chi -> Choi after Choi -> chi, numerators of the model, every nq, every J *)
Lemma chi_flat_roundtrip_choi : forall nq J r c,
  let N := 4 ^ nq in let B := superpauli nq in
  r < N -> c < N ->
  mget (mmul N N N (mmul N N N B (mmul N N N (mmul N N N (madj N N B) J) B)) (madj N N B)) N r c
  = gmul (gofnat N) (mget J N r c).
Proof.
  intros nq J r c N B Hr Hc.
  pose proof (sandwich N B (madj N N B) J (gofnat (2 ^ nq))
                (list_meq N _ _ (superpauli_complete nq))) as H.
  specialize (H r c Hr Hc). unfold mm in H. rewrite H.
  rewrite scale_get by assumption. rewrite gofnat_pow4. reflexivity.
Qed.

(* Choi -> chi after chi -> Choi *)
Lemma chi_flat_roundtrip_chi : forall nq C r c,
  let N := 4 ^ nq in let B := superpauli nq in
  r < N -> c < N ->
  mget (mmul N N N (mmul N N N (madj N N B) (mmul N N N (mmul N N N B C) (madj N N B))) B) N r c
  = gmul (gofnat N) (mget C N r c).
Proof.
  intros nq C r c N B Hr Hc.
  pose proof (sandwich N (madj N N B) B C (gofnat (2 ^ nq))
                (list_meq N _ _ (superpauli_orthogonal nq))) as H.
  specialize (H r c Hr Hc). unfold mm in H. rewrite H.
  rewrite scale_get by assumption. rewrite gofnat_pow4. reflexivity.
Qed.

(* ------------------------------------------ the model's conversion functions *)
Lemma choi_to_chi_inv : forall J C, choi_to_chi J = Ok C ->
  exists nq, nq_of J = Ok nq /\ nq <> 0 /\ s_rows J = 4 ^ nq /\ s_cols J = 4 ^ nq /\
    C = mkS (mmul (4 ^ nq) (4 ^ nq) (4 ^ nq)
               (mmul (4 ^ nq) (4 ^ nq) (4 ^ nq) (madj (4 ^ nq) (4 ^ nq) (superpauli nq)) (s_data J))
               (superpauli nq)) (s_dims J) Chi.
Proof.
  intros J C H. unfold choi_to_chi in H.
  destruct (nq_of J) as [nq| | |] eqn:E; cbn [rbind] in H; try discriminate.
  exists nq. destruct (nq =? 0) eqn:E0; try discriminate.
  destruct ((s_rows J =? 4 ^ nq) && (s_cols J =? 4 ^ nq)) eqn:G; cbn [negb] in H; try discriminate.
  apply andb_true_iff in G. destruct G as [G1 G2].
  apply Nat.eqb_eq in G1. apply Nat.eqb_eq in G2. apply Nat.eqb_neq in E0.
  inversion H. repeat split; assumption.
Qed.

Lemma nq_of_dims : forall {T U} (q : sobj T) (q' : sobj U), s_dims q = s_dims q' -> nq_of q = nq_of q'.
Proof. intros T U q q' H. unfold nq_of. rewrite H. reflexivity. Qed.

Lemma chi_choi_model_roundtrip : forall J C,
  choi_to_chi J = Ok C ->
  exists J', chi_to_choi C = Ok (J', s_rows J) /\
    s_dims J' = s_dims J /\ s_rep J' = Choi /\
    forall r c, r < s_rows J -> c < s_rows J ->
      mget (s_data J') (s_rows J) r c = gmul (gofnat (s_rows J)) (mget (s_data J) (s_rows J) r c).
Proof.
  intros J C H. destruct (choi_to_chi_inv J C H) as (nq & E & E0 & G1 & G2 & EC).
  unfold chi_to_choi.
  assert (EN : nq_of C = Ok nq).
  { rewrite <- E. apply nq_of_dims. subst C. reflexivity. }
  rewrite EN. cbn [rbind].
  assert (R1 : s_rows C = 4 ^ nq) by (subst C; unfold s_rows in *; simpl; exact G1).
  assert (R2 : s_cols C = 4 ^ nq) by (subst C; unfold s_cols in *; simpl; exact G2).
  apply Nat.eqb_neq in E0. rewrite E0, R1, R2, !Nat.eqb_refl. cbn [andb negb].
  eexists. split; [rewrite G1; reflexivity|]. cbn [s_dims s_rep s_data].
  split; [subst C; reflexivity|]. split; [reflexivity|].
  intros r c Hr Hc. rewrite G1 in *. subst C. cbn [s_data].
  apply chi_flat_roundtrip_choi; assumption.
Qed.

(* ---------------------------------------- istp on chi = istp on the Choi form *)
Lemma forallb_ext_in : forall {A} (f g : A -> bool) l,
  (forall x, In x l -> f x = g x) -> forallb f l = forallb g l.
Proof.
  intros A f g l. induction l as [|x l IH]; intros H; [reflexivity|].
  simpl. rewrite (H x (or_introl eq_refl)). f_equal. apply IH. intros y Hy. apply H. right. exact Hy.
Qed.

Lemma geqb_scale : forall N z w, 0 < N ->
  geqb (gmul (gofnat N) z) (gmul (gofnat N) w) = geqb z w.
Proof.
  intros N [a b] [c d] HN. unfold geqb, gmul, gofnat. simpl.
  assert (HZ : (0 < Z.of_nat N)%Z) by lia.
  rewrite ?Z.sub_0_r, ?Z.add_0_r.
  destruct (Z.eqb_spec a c) as [->|Hac].
  - rewrite Z.eqb_refl. simpl.
    destruct (Z.eqb_spec b d) as [->|Hbd]; [apply Z.eqb_refl|].
    apply Z.eqb_neq. intros H. apply Hbd. apply (Z.mul_reg_l _ _ (Z.of_nat N)); lia.
  - simpl. replace (Z.of_nat N * a =? Z.of_nat N * c)%Z with false; [reflexivity|].
    symmetry. apply Z.eqb_neq. intros H. apply Hac. apply (Z.mul_reg_l _ _ (Z.of_nat N)); lia.
Qed.

Lemma istp_chi_agrees : forall J C,
  s_rep J = Choi -> choi_to_chi J = Ok C -> istp (QSuper C) = istp (QSuper J).
Proof.
  intros J C HJ H.
  destruct (chi_choi_model_roundtrip J C H) as (J' & E1 & D & _ & Hent).
  destruct (choi_to_chi_inv J C H) as (nq & _ & _ & G1 & _ & EC).
  assert (RC : s_rep C = Chi) by (subst C; reflexivity).
  unfold istp. rewrite RC, HJ, E1.
  unfold istp_sobj, istp_sobj_scaled. rewrite D.
  destruct (s_dims J) as [[a b] [c d]] eqn:Ed.
  set (n0 := prodl a) in *. set (n1 := prodl b) in *.
  destruct (negb ((prodl c =? n0) && (prodl d =? n1))); [reflexivity|].
  f_equal.
  assert (HN : s_rows J = n0 * n1) by (unfold s_rows; rewrite Ed; reflexivity).
  assert (Hpos : 0 < s_rows J) by (rewrite G1; clear; induction nq; simpl; lia).
  unfold is_identity_scaled.
  apply forallb_ext_in. intros r Hr. apply in_seq in Hr.
  apply forallb_ext_in. intros k Hk. apply in_seq in Hk.
  unfold ptrace_keep0. rewrite !mbuild_get by lia.
  fold (gS n1 (fun x => mget (s_data J') (n0 * n1) (r * n1 + x) (k * n1 + x))).
  fold (gS n1 (fun x => mget (s_data J) (n0 * n1) (r * n1 + x) (k * n1 + x))).
  rewrite (gS_ext n1 _ (fun x => gmul (gofnat (s_rows J))
                                  (mget (s_data J) (n0 * n1) (r * n1 + x) (k * n1 + x)))).
  - rewrite <- gS_mul_l.
    replace (if r =? k then gofnat (s_rows J) else g0)
      with (gmul (gofnat (s_rows J)) (if r =? k then g1 else g0))
      by (destruct (r =? k); [apply gmul_1_r|apply gmul_0_r]).
    apply geqb_scale. exact Hpos.
  - intros x Hx. rewrite <- HN. apply Hent; rewrite HN; nia.
Qed.
